import ApolloModel.Proofs.ParserTermination7
/-
The rest of document.rs: schema extension, operation definition, the dispatch functions, the
top-level `document()` loop — and `parse_terminates` for all three entry points.
-/
set_option linter.unusedSimpArgs false
set_option linter.unusedVariables false
namespace Apollo.Parse
open Apollo.Rowan hiding Str
open Apollo.Lex hiding Str

attribute [local irreducible] directives arguments description nameOrErr implementsInterfaces unionMemberTypes
  directiveLocations fieldsDefinition inputFieldsDefinition enumValuesDefinition argumentsDefinitionBody
  variableDefinitions selectionSet fragmentName typeCondition operationType value ty name enumValue variableNode
  namedType alias directive argument inputValueDefinition fieldDefinition rootOperationTypeDefinition
  directiveLocation parseSeparatedList bump eat err errAndPop expect skipIgnored peek peekData peekToken
  scalarTypeDefinition objectTypeDefinition interfaceTypeDefinition unionTypeDefinition enumTypeDefinition
  inputObjectTypeDefinition schemaDefinition directiveDefinition fragmentDefinition scalarTypeExtension
  objectTypeExtension interfaceTypeExtension unionTypeExtension enumTypeExtension inputObjectTypeExtension

/-- the root-operation-types loop followed by any continuation -/
theorem ta_rootOpsLoop {β : Type} (k : Bool → PI β) (s : PState) (hw : W s)
    (hk : ∀ has s1, W s1 → Mm s1 ≤ Mm s → TA (k has) s1) :
    TA (srcLen >>= fun len => peekWhileKindFlagLoop Kind.name rootOperationTypeDefinition (len + 3) false >>= k) s := by
  apply term_bind (srcLen_run s hw).term
  intro len s1 hw1 _ _ hq1
  obtain ⟨rfl, hc1, hl1⟩ := hq1
  have hM1 : Mm s1 = Mm s := Mm_congr hc1 hl1
  refine ta_bind (peekWhileKindFlagLoop_term _ _ _ _ s1 hw1 (by have := Mm_le s; omega)
    (fun s2 hw2 _ => gc_rootOperationTypeDefinition s2 hw2)) ?_
  intro has s2 hw2 hM2
  exact hk has s2 hw2 (by omega)

set_option maxHeartbeats 1600000 in
theorem gc_schemaExtension (n : Nat) (s : PState) (hw : W s) (hb : 4 * Mm s + 4 ≤ n) :
    Term (schemaExtension n) s (GC GAny s) := by
  unfold schemaExtension
  refine gc_withNode _ _ s hw ?_
  intro s2 hw2 hM2
  refine gc_first (gc_bump _ s2 hw2) ?_
  ta_auto_with (first
    | exact ta_directives _ _ _ (by assumption) (by omega)
    | (refine ta_rootOpsLoop _ _ (by assumption) ?_; intro _ _ _ _))

attribute [local irreducible] schemaExtension

/-- the current token seen through a `peek` that returned `some kind` -/
theorem cur_of_kind {k : Option Kind} {kind : Kind} {s : PState} (hk : k = s.current.map (·.kind)) (h : k = some kind) :
    ∃ t, s.current = some t ∧ t.kind = kind := by
  rw [h] at hk
  cases hc : s.current with
  | none => rw [hc] at hk; simp at hk
  | some t => rw [hc] at hk; simp at hk; exact ⟨t, rfl, hk.symm⟩

set_option maxHeartbeats 1600000 in
theorem gc_operationDefinition (n : Nat) (s : PState) (hw : W s) (hb : 4 * Mm s + 4 ≤ n) :
    Term (operationDefinition n) s (GC GAny s) := by
  unfold operationDefinition
  refine gc_peek' hw ?_
  intro k s1 hw1 hM1 hk _
  have hdefault : Term errAndPop s1 (GC GAny s1) := gc_errAndPop s1 hw1
  cases k with
  | none => exact hdefault
  | some kind =>
    cases kind
    case name =>
      simp only []
      refine gc_withNode _ _ s1 hw1 ?_
      intro s2 hw2 hM2
      refine gc_first (gc_operationType s2 hw2) ?_
      ta_auto_with (first
        | exact ta_directives _ _ _ (by assumption) (by omega)
        | exact ta_variableDefinitions _ _ (by assumption) (by omega)
        | exact ta_selectionSet _ _ (by assumption) (by omega))
    case lCurly =>
      simp only []
      obtain ⟨t1, ht1, hk1⟩ := cur_of_kind hk rfl
      refine Term.weaken (Q := GC (fun t => t.kind = .lCurly) s1) ?_ (fun _ c l hq t ht _ => hq t ht (by rw [ht1] at ht; cases ht; exact hk1))
      refine gc_withNode_or _ _ s1 hw1 ⟨t1, ht1, hk1⟩ ?_
      intro s2 hw2 hM2 _
      exact (sel_family n).ss s2 hw2 (by omega)
    all_goals exact hdefault

theorem look_peekDataN (n : Nat) (s : PState) (hw : W s) :
    Term (peekDataN n) s (fun _ c l => c = s.current ∧ l = s.lx) := by
  unfold peekDataN
  apply term_bind (peekTokenN_run n s hw).term
  intro a s1 hw1 _ _ hq1
  exact term_pure _ s1 hw1 hq1

theorem gc_lookDataN {β : Type} {G : Tok → Prop} (n : Nat) {f : Option Str → PI β} {s : PState} (hw : W s)
    (h : ∀ k s1, W s1 → Mm s1 ≤ Mm s → s1.current = s.current → Term (f k) s1 (GC G s1)) :
    Term (peekDataN n >>= f) s (GC G s) :=
  gc_look (Q1 := fun _ c _ => c = s.current) ((look_peekDataN n s hw).weaken (fun _ _ _ hq => ⟨hq.1, fun _ => hq⟩))
    (fun k s1 hw1 hM1 hc1 => h k s1 hw1 hM1 hc1)

attribute [local irreducible] operationDefinition peekDataN

theorem gc_extensions (n : Nat) (s : PState) (hw : W s) (hb : 4 * Mm s + 4 ≤ n) :
    Term (extensions n) s (GC GAny s) := by
  unfold extensions
  refine gc_lookDataN 2 hw ?_
  intro d s1 hw1 hM1 _
  have hb1 : 4 * Mm s1 + 4 ≤ n := by omega
  split
  · exact gc_schemaExtension n s1 hw1 hb1
  · split
    · exact gc_scalarTypeExtension n s1 hw1 hb1
    · split
      · exact gc_objectTypeExtension n s1 hw1 hb1
      · split
        · exact gc_interfaceTypeExtension n s1 hw1 hb1
        · split
          · exact gc_unionTypeExtension n s1 hw1 hb1
          · split
            · exact gc_enumTypeExtension n s1 hw1 hb1
            · split
              · exact gc_inputObjectTypeExtension n s1 hw1 hb1
              · exact gc_errAndPop s1 hw1

/-- the guard under which `document()` calls `select_definition(data)`: the current token is a
    description string, or `data` is its text -/
def SelGuard (d : Str) (t : Tok) : Prop := t.kind = .stringValue ∨ t.data = d

theorem defGuard_of_sel {kwd : String} {d : Str} (h : kw kwd d = true) (t : Tok) (hg : SelGuard d t) : DefGuard kwd t := by
  rcases hg with h1 | h1
  · exact Or.inl h1
  · exact Or.inr (by rw [h1]; exact h)

attribute [local irreducible] extensions

theorem gc_selectDefinition (n : Nat) (d : Str) (s : PState) (hw : W s) (hb : 4 * Mm s + 4 ≤ n) :
    Term (selectDefinition n d) s (GC (SelGuard d) s) := by
  unfold selectDefinition
  split
  · rename_i h; exact gc_weaken (gc_directiveDefinition n s hw hb) (defGuard_of_sel h)
  · split
    · rename_i h; exact gc_weaken (gc_enumTypeDefinition n s hw hb) (defGuard_of_sel h)
    · split
      · exact gc_weaken (gc_extensions n s hw hb) (fun _ _ => trivial)
      · split
        · exact gc_weaken (gc_fragmentDefinition n s hw hb) (fun _ _ => trivial)
        · split
          · rename_i h; exact gc_weaken (gc_inputObjectTypeDefinition n s hw hb) (defGuard_of_sel h)
          · split
            · rename_i h; exact gc_weaken (gc_interfaceTypeDefinition n s hw hb) (defGuard_of_sel h)
            · split
              · rename_i h; exact gc_weaken (gc_objectTypeDefinition n s hw hb) (defGuard_of_sel h)
              · split
                · exact gc_weaken (gc_operationDefinition n s hw hb) (fun _ _ => trivial)
                · split
                  · rename_i h; exact gc_weaken (gc_scalarTypeDefinition n s hw hb) (defGuard_of_sel h)
                  · split
                    · rename_i h; exact gc_weaken (gc_schemaDefinition n s hw hb) (defGuard_of_sel h)
                    · split
                      · rename_i h; exact gc_weaken (gc_unionTypeDefinition n s hw hb) (defGuard_of_sel h)
                      · exact gc_errAndPop s hw

attribute [local irreducible] selectDefinition

theorem gc_documentDispatch (n : Nat) (kind : Kind) (s : PState) (hw : W s) (hb : 4 * Mm s + 4 ≤ n) :
    Term (documentDispatch n kind) s (GC (fun t => t.kind = kind) s) := by
  unfold documentDispatch
  split
  · rename_i hkind
    have hks : kind = Kind.stringValue := by simpa using hkind
    refine gc_lookDataN 2 hw ?_
    intro d s1 hw1 hM1 _
    cases d with
    | none => exact gc_errAndPop s1 hw1
    | some d =>
      simp only []
      exact gc_weaken (gc_selectDefinition n d s1 hw1 (by omega)) (fun t ht => Or.inl (by rw [ht, hks]))
  · split
    · refine gc_peekData hw ?_
      intro d s1 hw1 hM1 hd
      cases d with
      | none => exact gc_errAndPop s1 hw1
      | some d =>
        simp only []
        refine (gc_selectDefinition n d s1 hw1 (by omega)).weaken ?_
        intro _ c l hq t ht _
        refine hq t ht (Or.inr ?_)
        rw [ht] at hd
        simpa using hd.symm
    · exact gc_errAndPop s hw

theorem look_assertRecZero (s : PState) (hw : W s) :
    Term assertRecZero s (fun _ c l => c = s.current ∧ l = s.lx) :=
  (run_frame assertRecZero s hw () { s with deadBranch := s.deadBranch || !(s.recCur == 0) } rfl rfl rfl
    (Q := fun _ c l => c = s.current ∧ l = s.lx) ⟨rfl, rfl⟩).term

attribute [local irreducible] documentDispatch assertRecZero

theorem documentStep_term (n : Nat) (kind : Kind) (s : PState) (hw : W s) (hb : 4 * Mm s + 4 ≤ n) :
    Term (documentStep n kind) s (fun b c l => b = true → ∀ t, s.current = some t → t.kind = kind → StrictT s c l) := by
  unfold documentStep
  split
  · apply term_bind (look_assertRecZero s hw)
    intro _ s1 hw1 _ _ _
    exact term_pure false s1 hw1 (fun h => by simp at h)
  · refine Term.weaken (Q := GC (fun t => t.kind = kind) s) ?_ (fun _ c l hq _ t ht hk => hq t ht hk)
    refine gc_look (Q1 := fun _ _ _ => True) ((look_assertRecZero s hw).weaken (fun _ _ _ hq => ⟨trivial, fun _ => hq⟩)) ?_
    intro _ s1 hw1 hM1 _
    exact gc_first (gc_documentDispatch n kind s1 hw1 (by omega)) (fun _ s2 hw2 _ => ta_pure true s2 hw2)

attribute [local irreducible] documentStep peekWhile pushIgnored

theorem ta_document (n : Nat) (s : PState) (hw : W s) (hb : 4 * Mm s + 4 ≤ n) : TA (document n) s := by
  unfold document documentBody
  refine ta_withNode _ _ s hw ?_
  intro s1 hw1 hM1
  refine ta_bind (ta_peek s1 hw1) ?_
  intro k s2 hw2 hM2
  refine ta_bind ?_ ?_
  · unfold errIfEmpty
    split
    · exact ta_err s2 hw2
    · exact ta_pure _ s2 hw2
  · intro _ s3 hw3 hM3
    refine ta_bind ?_ ?_
    · exact ta_peekWhile _ s3 hw3 (fun kind s4 hw4 hM4 => documentStep_term n kind s4 hw4 (by omega))
    · intro _ s4 hw4 _
      exact ta_pushIgnored s4 hw4

/-- `Parser::parse` terminates: neither out of fuel nor stuck, for every input and limits -/
theorem parse_document_terminates (tl : Option Nat) (rl : Nat) (src : Str) (w : Abort) :
    (parse .document tl rl src).outcome ≠ .abort w := by
  intro h
  obtain ⟨s0, hc, hl, habort⟩ := runEntry_abort .document (fuelFor src) (initState src tl rl) w h
  simp only [Entry.grammar] at habort
  have hw0 : W s0 := W_congr hc hl (init_W src tl rl)
  have hM : Mm s0 = src.length + 1 := by rw [Mm_congr hc hl, init_Mm]
  exact (ta_document (fuelFor src) s0 hw0 (by unfold fuelFor; omega)).1 w habort

/-- THE PARSER MODEL TERMINATES: for every entry point, input, token limit and recursion limit the
    outcome is never an abort — neither the model's fuel runs out nor the `peek_while` progress
    assertion fails. -/
theorem parse_terminates (e : Entry) (tl : Option Nat) (rl : Nat) (src : Str) (w : Abort) :
    (parse e tl rl src).outcome ≠ .abort w := by
  cases e with
  | document => exact parse_document_terminates tl rl src w
  | selectionSet => exact parse_selection_set_terminates tl rl src w
  | type => exact parse_type_terminates tl rl src w

end Apollo.Parse
