import ApolloModel.Proofs.ParserTermination6
/-
The definition parsers dispatched by document.rs: each consumes a token when it is entered on a
description string or on its keyword (so the `document()` loop makes progress), and terminates.
-/
set_option linter.unusedSimpArgs false
set_option linter.unusedVariables false
namespace Apollo.Parse
open Apollo.Rowan hiding Str
open Apollo.Lex hiding Str

attribute [local irreducible] directives arguments description nameOrErr implementsInterfaces unionMemberTypes
  directiveLocations fieldsDefinition inputFieldsDefinition enumValuesDefinition argumentsDefinitionBody
  variableDefinitions selectionSet fragmentName typeCondition operationType value ty name enumValue variableNode
  namedType alias directive argument inputValueDefinition fieldDefinition rootOperationTypeDefinition
  directiveLocation parseSeparatedList bump eat err errAndPop expect skipIgnored peek peekData peekToken

/-- how `document()` enters a definition parser: on a description, or on the definition's keyword -/
def DefGuard (kwd : String) (t : Tok) : Prop := t.kind = .stringValue ∨ kw kwd t.data = true

theorem gc_peek2 {β : Type} {G : Tok → Prop} {f : Option Kind → PI β} {s : PState} (hw : W s)
    (h : ∀ k s1, W s1 → Mm s1 ≤ Mm s → k = s1.current.map (·.kind) →
      (s1.current = none → s1.lx.finished = true) → Term (f k) s1 (GC G s1)) :
    Term (peek >>= f) s (GC G s) :=
  gc_look (Q1 := fun k c l => k = c.map (·.kind) ∧ (c = none → l.finished = true))
    ((peek_run' s hw).term.weaken (fun _ _ _ hq => ⟨⟨hq.1, hq.2.1⟩, hq.2.2⟩))
    (fun k s1 hw1 hM1 hq => h k s1 hw1 hM1 hq.1 hq.2)

theorem gc_peekData2 {β : Type} {G : Tok → Prop} {f : Option Str → PI β} {s : PState} (hw : W s)
    (h : ∀ k s1, W s1 → Mm s1 ≤ Mm s → k = s1.current.map (·.data) →
      (s.current.isSome = true → s1.current = s.current) → Term (f k) s1 (GC G s1)) :
    Term (peekData >>= f) s (GC G s) :=
  gc_look (Q1 := fun k c _ => k = c.map (·.data) ∧ (s.current.isSome = true → c = s.current))
    ((peekData_run' s hw).term.weaken (fun _ _ _ hq => ⟨⟨hq.1, fun hs => (hq.2.2 hs).1⟩, hq.2.2⟩))
    (fun k s1 hw1 hM1 hq => h k s1 hw1 hM1 hq.1 hq.2)

theorem def_prefix {β : Type} (kwd : String) (K : SK) (rest : PI β) (s : PState) (hw : W s)
    (hrest : ∀ s', W s' → Mm s' ≤ Mm s → TA rest s') :
    Term (peek >>= fun k =>
        if (k == some Kind.stringValue) = true then
          (description >>= fun _ => (peekData >>= fun d =>
            if kwOpt kwd d = true then (bump K >>= fun _ => rest) else rest))
        else
          (peekData >>= fun d => if kwOpt kwd d = true then (bump K >>= fun _ => rest) else rest)) s
      (GC (DefGuard kwd) s) := by
  refine gc_peek2 hw ?_
  intro k s1 hw1 hM1 hk hfin
  split
  · refine gc_first (gc_description s1 hw1) ?_
    intro _ s2 hw2 hM2
    refine ta_bind (ta_peekData s2 hw2) ?_
    intro d s3 hw3 hM3
    split
    · exact ta_bind (ta_bump _ s3 hw3) (fun _ s4 hw4 hM4 => hrest s4 hw4 (by omega))
    · exact hrest s3 hw3 (by omega)
  · rename_i hcond
    refine gc_peekData2 hw1 ?_
    intro d s2 hw2 hM2 hd hkept
    split
    · exact gc_first (gc_bump _ s2 hw2) (fun _ s3 hw3 hM3 => hrest s3 hw3 (by omega))
    · rename_i hkw
      refine (hrest s2 hw2 (by omega)).weaken ?_
      intro _ c l _ t ht hg
      exfalso
      rcases hg with h | h
      · -- the peek that saw "not a string" was at `s1`; nothing was consumed since
        cases hc1 : s1.current with
        | none =>
          have h0 := mm_zero_of_done hc1 (hfin hc1)
          have h1 := mm_pos_of_current (s := s2) ⟨t, ht⟩
          omega
        | some t1 =>
          have := hkept (by rw [hc1]; rfl)
          rw [this, hc1] at ht
          cases ht
          apply hcond
          rw [hk, hc1]; simp [h]
      · apply hkw
        rw [hd, ht]
        simp only [Option.map_some, kwOpt, kw] at h ⊢
        simpa using h

set_option maxHeartbeats 1600000 in
theorem gc_scalarTypeDefinition (n : Nat) (s : PState) (hw : W s) (hb : 4 * Mm s + 4 ≤ n) :
    Term (scalarTypeDefinition n) s (GC (DefGuard "scalar") s) := by
  unfold scalarTypeDefinition
  refine gc_withNode _ _ s hw ?_
  intro s2 hw2 hM2
  simp only []
  refine def_prefix "scalar" _ _ s2 hw2 ?_
  intro s3 hw3 hM3
  ta_ts

set_option maxHeartbeats 1600000 in
theorem gc_enumValueDefinition (n : Nat) (s : PState) (hw : W s) (hb : 4 * Mm s + 4 ≤ n) :
    Term (enumValueDefinition n) s (GC NameOrString s) := by
  unfold enumValueDefinition
  refine gc_peek' hw ?_
  intro k0 s1 hw1 hM1 hk0 _
  split
  · refine gc_withNode _ _ s1 hw1 ?_
    intro s2 hw2 hM2
    refine gc_peek' hw2 ?_
    intro k s3 hw3 hM3 hk _
    simp only []
    split
    · refine gc_first (gc_description s3 hw3) ?_
      ta_auto_with (exact ta_directives _ _ _ (by assumption) (by omega))
    · rename_i hcond
      refine Term.weaken (Q := GC (fun t => t.kind = .name) s3) ?_ ?_
      · refine gc_first (enumValue_term s3 hw3) ?_
        ta_auto_with (exact ta_directives _ _ _ (by assumption) (by omega))
      · intro _ c l hq t ht hg
        refine hq t ht ?_
        rcases hg with h | h
        · exact h
        · exfalso; apply hcond; rw [kind_of_peek hk ht, h]; rfl
  · rename_i hcond
    exact term_pure _ s1 hw1 (fun t ht hg => by
      exfalso; apply hcond
      rw [kind_of_peek hk0 ht]
      rcases hg with h | h <;> simp [isNameOrString, h])

set_option maxHeartbeats 1600000 in
theorem ta_enumValuesDefinition (n : Nat) (s : PState) (hw : W s) (hb : 4 * Mm s + 4 ≤ n) :
    TA (enumValuesDefinition n) s := by
  unfold enumValuesDefinition
  ta_auto_with (first
    | exact ta_of (gc_enumValueDefinition _ _ (by assumption) (by omega))
    | exact ta_peekWhile _ _ (by assumption) (fun kind s4 hw4 hM4 =>
        nameOrString_closure _ kind s4 hw4 (gc_enumValueDefinition n s4 hw4 (by omega))))

/-- the `{ root operation types }` part shared by schema definition and extension -/
theorem ta_rootOps (s : PState) (hw : W s) :
    TA (do
      let len ← srcLen
      let has ← peekWhileKindFlagLoop Kind.name rootOperationTypeDefinition (len + 3) false
      if (!has) = true then err
      expect Kind.rCurly "R_CURLY") s := by
  apply term_bind (srcLen_run s hw).term
  intro len s1 hw1 _ _ hq1
  obtain ⟨rfl, hc1, hl1⟩ := hq1
  have hM1 : Mm s1 = Mm s := Mm_congr hc1 hl1
  refine ta_bind (peekWhileKindFlagLoop_term _ _ _ _ s1 hw1 (by have := Mm_le s; omega)
    (fun s2 hw2 _ => gc_rootOperationTypeDefinition s2 hw2)) ?_
  intro has s2 hw2 _
  ta_auto

macro "ta_defs" : tactic => `(tactic| ta_auto_with (first
    | exact ta_directives _ _ _ (by assumption) (by omega)
    | exact ta_description _ (by assumption)
    | exact ta_nameOrErr _ (by assumption)
    | exact ta_implementsInterfaces _ (by assumption)
    | exact ta_unionMemberTypes _ (by assumption)
    | exact ta_directiveLocations _ (by assumption)
    | exact ta_fieldsDefinition _ _ (by assumption) (by omega)
    | exact ta_inputFieldsDefinition _ _ (by assumption) (by omega)
    | exact ta_enumValuesDefinition _ _ (by assumption) (by omega)
    | exact ta_argumentsDefinitionBody _ _ (by assumption) (by omega)
    | exact ta_variableDefinitions _ _ (by assumption) (by omega)
    | exact ta_selectionSet _ _ (by assumption) (by omega)
    | exact ta_fragmentName _ (by assumption)
    | exact ta_typeCondition _ (by assumption)
    | exact ta_operationType _ (by assumption)
    | exact ta_rootOps _ (by assumption)))

set_option maxHeartbeats 3200000 in
theorem gc_unionTypeDefinition (n : Nat) (s : PState) (hw : W s) (hb : 4 * Mm s + 4 ≤ n) :
    Term (unionTypeDefinition n) s (GC (DefGuard "union") s) := by
  unfold unionTypeDefinition
  refine gc_withNode _ _ s hw ?_
  intro s2 hw2 hM2
  simp only []
  refine def_prefix "union" _ _ s2 hw2 ?_
  intro s3 hw3 hM3
  ta_defs

set_option maxHeartbeats 3200000 in
theorem gc_enumTypeDefinition (n : Nat) (s : PState) (hw : W s) (hb : 4 * Mm s + 4 ≤ n) :
    Term (enumTypeDefinition n) s (GC (DefGuard "enum") s) := by
  unfold enumTypeDefinition
  refine gc_withNode _ _ s hw ?_
  intro s2 hw2 hM2
  simp only []
  refine def_prefix "enum" _ _ s2 hw2 ?_
  intro s3 hw3 hM3
  ta_defs

set_option maxHeartbeats 3200000 in
theorem gc_inputObjectTypeDefinition (n : Nat) (s : PState) (hw : W s) (hb : 4 * Mm s + 4 ≤ n) :
    Term (inputObjectTypeDefinition n) s (GC (DefGuard "input") s) := by
  unfold inputObjectTypeDefinition
  refine gc_withNode _ _ s hw ?_
  intro s2 hw2 hM2
  simp only []
  refine def_prefix "input" _ _ s2 hw2 ?_
  intro s3 hw3 hM3
  ta_defs

set_option maxHeartbeats 1600000 in
theorem gc_objectTypeDefinition (n : Nat) (s : PState) (hw : W s) (hb : 4 * Mm s + 4 ≤ n) :
    Term (objectTypeDefinition n) s (GC (DefGuard "type") s) := by
  unfold objectTypeDefinition
  refine gc_withNode _ _ s hw ?_
  intro s2 hw2 hM2
  simp only []
  refine def_prefix "type" _ _ s2 hw2 ?_
  intro s3 hw3 hM3
  ta_defs

set_option maxHeartbeats 1600000 in
theorem gc_interfaceTypeDefinition (n : Nat) (s : PState) (hw : W s) (hb : 4 * Mm s + 4 ≤ n) :
    Term (interfaceTypeDefinition n) s (GC (DefGuard "interface") s) := by
  unfold interfaceTypeDefinition
  refine gc_withNode _ _ s hw ?_
  intro s2 hw2 hM2
  simp only []
  refine def_prefix "interface" _ _ s2 hw2 ?_
  intro s3 hw3 hM3
  ta_defs

set_option maxHeartbeats 1600000 in
theorem gc_schemaDefinition (n : Nat) (s : PState) (hw : W s) (hb : 4 * Mm s + 4 ≤ n) :
    Term (schemaDefinition n) s (GC (DefGuard "schema") s) := by
  unfold schemaDefinition
  refine gc_withNode _ _ s hw ?_
  intro s2 hw2 hM2
  simp only []
  refine def_prefix "schema" _ _ s2 hw2 ?_
  intro s3 hw3 hM3
  ta_defs

set_option maxHeartbeats 1600000 in
theorem gc_directiveDefinition (n : Nat) (s : PState) (hw : W s) (hb : 4 * Mm s + 4 ≤ n) :
    Term (directiveDefinition n) s (GC (DefGuard "directive") s) := by
  unfold directiveDefinition
  refine gc_withNode _ _ s hw ?_
  intro s2 hw2 hM2
  simp only []
  refine def_prefix "directive" _ _ s2 hw2 ?_
  intro s3 hw3 hM3
  ta_defs

set_option maxHeartbeats 1600000 in
theorem gc_scalarTypeExtension (n : Nat) (s : PState) (hw : W s) (hb : 4 * Mm s + 4 ≤ n) :
    Term (scalarTypeExtension n) s (GC GAny s) := by
  unfold scalarTypeExtension
  refine gc_withNode _ _ s hw ?_
  intro s2 hw2 hM2
  refine gc_first (gc_bump _ s2 hw2) ?_
  ta_defs

set_option maxHeartbeats 1600000 in
theorem gc_objectTypeExtension (n : Nat) (s : PState) (hw : W s) (hb : 4 * Mm s + 4 ≤ n) :
    Term (objectTypeExtension n) s (GC GAny s) := by
  unfold objectTypeExtension
  refine gc_withNode _ _ s hw ?_
  intro s2 hw2 hM2
  refine gc_first (gc_bump _ s2 hw2) ?_
  ta_defs

set_option maxHeartbeats 1600000 in
theorem gc_interfaceTypeExtension (n : Nat) (s : PState) (hw : W s) (hb : 4 * Mm s + 4 ≤ n) :
    Term (interfaceTypeExtension n) s (GC GAny s) := by
  unfold interfaceTypeExtension
  refine gc_withNode _ _ s hw ?_
  intro s2 hw2 hM2
  refine gc_first (gc_bump _ s2 hw2) ?_
  ta_defs

set_option maxHeartbeats 1600000 in
theorem gc_unionTypeExtension (n : Nat) (s : PState) (hw : W s) (hb : 4 * Mm s + 4 ≤ n) :
    Term (unionTypeExtension n) s (GC GAny s) := by
  unfold unionTypeExtension
  refine gc_withNode _ _ s hw ?_
  intro s2 hw2 hM2
  refine gc_first (gc_bump _ s2 hw2) ?_
  ta_defs

set_option maxHeartbeats 1600000 in
theorem gc_enumTypeExtension (n : Nat) (s : PState) (hw : W s) (hb : 4 * Mm s + 4 ≤ n) :
    Term (enumTypeExtension n) s (GC GAny s) := by
  unfold enumTypeExtension
  refine gc_withNode _ _ s hw ?_
  intro s2 hw2 hM2
  refine gc_first (gc_bump _ s2 hw2) ?_
  ta_defs

set_option maxHeartbeats 1600000 in
theorem gc_inputObjectTypeExtension (n : Nat) (s : PState) (hw : W s) (hb : 4 * Mm s + 4 ≤ n) :
    Term (inputObjectTypeExtension n) s (GC GAny s) := by
  unfold inputObjectTypeExtension
  refine gc_withNode _ _ s hw ?_
  intro s2 hw2 hM2
  refine gc_first (gc_bump _ s2 hw2) ?_
  ta_defs

set_option maxHeartbeats 1600000 in
theorem gc_fragmentDefinition (n : Nat) (s : PState) (hw : W s) (hb : 4 * Mm s + 4 ≤ n) :
    Term (fragmentDefinition n) s (GC GAny s) := by
  unfold fragmentDefinition
  refine gc_withNode _ _ s hw ?_
  intro s2 hw2 hM2
  -- the description check: `err_and_pop` consumes the string, otherwise `bump` consumes the keyword
  refine gc_peek hw2 ?_
  intro k s3 hw3 hM3 hk
  dsimp only
  split
  · refine gc_first (gc_errAndPop s3 hw3) ?_
    ta_defs
  · refine gc_first (gc_bump _ s3 hw3) ?_
    ta_defs

end Apollo.Parse
