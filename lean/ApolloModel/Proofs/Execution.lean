import ApolloModel.Model.Execution
/- C26: invariants of the executor model — errors carry the path of their position, a propagation
   always comes with an error, non-null positions never hold null. -/
namespace Apollo.Exec
open Apollo

/-- the errors of `st'` are those of `st` followed by `new`, all raised at or below `path` -/
def Ext (path : Path) (st st' : St) (new : List Path) : Prop :=
  st'.errors = st.errors ++ new ∧ ∀ p, p ∈ new → path <+: p

theorem ext_refl (path : Path) (st : St) : Ext path st st [] := by
  simp [Ext]

theorem ext_push (path : Path) (st : St) : Ext path st (st.push path) [path] := by
  simp [Ext, St.push]

theorem ext_trans {path : Path} {st st1 st2 : St} {n1 n2 : List Path}
    (h1 : Ext path st st1 n1) (h2 : Ext path st1 st2 n2) : Ext path st st2 (n1 ++ n2) := by
  refine ⟨by rw [h2.1, h1.1, List.append_assoc], ?_⟩
  intro p hp
  simp only [List.mem_append] at hp
  rcases hp with hp | hp
  · exact h1.2 p hp
  · exact h2.2 p hp

theorem ext_weaken {path : Path} {seg : Seg} {st st' : St} {new : List Path}
    (h : Ext (path ++ [seg]) st st' new) : Ext path st st' new :=
  ⟨h.1, fun p hp => List.IsPrefix.trans (List.prefix_append path [seg]) (h.2 p hp)⟩

/-- what every value-producing call guarantees -/
def GoodOut (path : Path) (ty : Ty) (st : St) (x : Out × St) : Prop :=
  ∃ new, Ext path st x.2 new ∧ (x.1 = .error .propagate → new ≠ []) ∧
    (∀ v, x.1 = .ok (some v) → ty.isNonNull = true → v ≠ .null)

def RecGood (rec : Rec) : Prop := ∀ path ty rv fields st, GoodOut path ty st (rec path ty rv fields st)

/-- the same for the map-producing calls -/
def GoodMap (path : Path) (st : St) (x : Except Fail (AList Json) × St) : Prop :=
  ∃ new, Ext path st x.2 new ∧ (x.1 = .error .propagate → new ≠ [])

theorem good_error_push (path : Path) (ty : Ty) (st : St) :
    GoodOut path ty st (.error .propagate, st.push path) :=
  ⟨[path], ext_push path st, by simp, by intro v h; cases h⟩

theorem tryNullify_cases (ty : Ty) (r : Out) :
    (∃ j, r = .ok j ∧ tryNullify ty r = .ok j) ∨
    (r = .error .propagate ∧ ty.isNonNull = true ∧ tryNullify ty r = .error .propagate) ∨
    (r = .error .propagate ∧ ty.isNonNull = false ∧ tryNullify ty r = .ok (some .null)) ∨
    (r = .error .fuel ∧ tryNullify ty r = .error .fuel) := by
  cases r with
  | ok j => exact Or.inl ⟨j, rfl, rfl⟩
  | error e =>
    cases e with
    | fuel => exact Or.inr (Or.inr (Or.inr ⟨rfl, rfl⟩))
    | propagate =>
      cases h : ty.isNonNull with
      | true => exact Or.inr (Or.inl ⟨rfl, rfl, by simp [tryNullify, h]⟩)
      | false => exact Or.inr (Or.inr (Or.inl ⟨rfl, rfl, by simp [tryNullify, h]⟩))

/-- `try_nullify` at the type of the position keeps the guarantees -/
theorem good_tryNullify {path : Path} {ty : Ty} {st : St} {r : Out} {st' : St}
    (h : GoodOut path ty st (r, st')) : GoodOut path ty st (tryNullify ty r, st') := by
  obtain ⟨new, hext, hprop, hnn⟩ := h
  refine ⟨new, hext, ?_, ?_⟩
  · intro he
    rcases tryNullify_cases ty r with ⟨j, _, e⟩ | ⟨hr, _, _⟩ | ⟨_, _, e⟩ | ⟨_, e⟩
    · rw [e] at he; cases he
    · exact hprop hr
    · rw [e] at he; cases he
    · rw [e] at he; cases he
  · intro v hv hty
    rcases tryNullify_cases ty r with ⟨j, hr, e⟩ | ⟨_, _, e⟩ | ⟨_, hnull, e⟩ | ⟨_, e⟩
    · rw [e] at hv; cases hv
      exact hnn v hr hty
    · rw [e] at hv; cases hv
    · rw [hnull] at hty; cases hty
    · rw [e] at hv; cases hv

theorem completeLeaf_good (path : Path) (ty : Ty) (tyName : String) (k : Kind) (j : Json) (hj : j ≠ .null) (st : St) :
    GoodOut path ty st (completeLeaf path tyName k j st) := by
  unfold completeLeaf
  have okj : GoodOut path ty st (.ok (some j), st) :=
    ⟨[], ext_refl path st, (by intro h; cases h), (by intro v h _; cases h; exact hj)⟩
  split
  · exact good_error_push path ty st
  · exact good_error_push path ty st
  · exact good_error_push path ty st
  · exact good_error_push path ty st
  · split
    · split
      · exact okj
      · exact good_error_push path ty st
    · exact good_error_push path ty st
  · split
    · exact okj
    · exact good_error_push path ty st

theorem completeItems_good (rec : Rec) (hrec : RecGood rec) (path : Path) (ty inner : Ty) (fields : List Sel) :
    ∀ items i acc st, ∃ new, Ext path st (completeItems rec path ty inner fields items i acc st).2 new ∧
      ((completeItems rec path ty inner fields items i acc st).1 = .error .propagate → new ≠ []) ∧
      (∀ v, (completeItems rec path ty inner fields items i acc st).1 = .ok (some v) → ty.isNonNull = true → v ≠ .null) := by
  intro items
  induction items with
  | nil =>
    intro i acc st
    simp only [completeItems]
    exact ⟨[], ext_refl path st, (by intro h; cases h), (by intro v h _; cases h; simp)⟩
  | cons item rest ih =>
    intro i acc st
    have step : ∀ item', item' = item → (∀ (h : item' = RV.error), False) →
        ∃ new, Ext path st (completeItems rec path ty inner fields (item' :: rest) i acc st).2 new ∧
          ((completeItems rec path ty inner fields (item' :: rest) i acc st).1 = .error .propagate → new ≠ []) ∧
          (∀ v, (completeItems rec path ty inner fields (item' :: rest) i acc st).1 = .ok (some v) → ty.isNonNull = true → v ≠ .null) := by
      intro item' _ hne
      have hunf : completeItems rec path ty inner fields (item' :: rest) i acc st =
          (match rec (path ++ [.idx i]) inner item' fields st with
          | (r, st1) =>
            match tryNullify inner r with
            | .ok none => completeItems rec path ty inner fields rest (i + 1) acc st1
            | .ok (some v) => completeItems rec path ty inner fields rest (i + 1) (acc ++ [v]) st1
            | .error .propagate => (tryNullify ty (.error .propagate), st1)
            | .error .fuel => (.error .fuel, st1)) := by
        cases item' <;> first | rfl | exact absurd rfl (fun h => hne h)
      rw [hunf]
      obtain ⟨n1, hext1, hprop1, _⟩ := hrec (path ++ [.idx i]) inner item' fields st
      generalize rec (path ++ [.idx i]) inner item' fields st = res at *
      obtain ⟨r, st1⟩ := res
      have hext1' : Ext path st st1 n1 := ext_weaken hext1
      simp only
      rcases tryNullify_cases inner r with ⟨j, _, e⟩ | ⟨hr, _, e⟩ | ⟨_, _, e⟩ | ⟨_, e⟩
      · rw [e]
        cases j with
        | none =>
          obtain ⟨n2, h2, p2, v2⟩ := ih (i + 1) acc st1
          exact ⟨n1 ++ n2, ext_trans hext1' h2, (fun h => by simp [p2 h]), v2⟩
        | some v =>
          obtain ⟨n2, h2, p2, v2⟩ := ih (i + 1) (acc ++ [v]) st1
          exact ⟨n1 ++ n2, ext_trans hext1' h2, (fun h => by simp [p2 h]), v2⟩
      · rw [e]
        refine ⟨n1, hext1', fun _ => hprop1 hr, ?_⟩
        intro v hv hty
        simp [tryNullify, hty] at hv
      · rw [e]
        obtain ⟨n2, h2, p2, v2⟩ := ih (i + 1) (acc ++ [.null]) st1
        exact ⟨n1 ++ n2, ext_trans hext1' h2, (fun h => by simp [p2 h]), v2⟩
      · rw [e]
        exact ⟨n1, hext1', (by intro h; cases h), (by intro v h _; cases h)⟩
    by_cases he : item = RV.error
    · subst he
      simp only [completeItems]
      exact ⟨[path ++ [.idx i]], ⟨by simp [St.push], by intro p hp; simp at hp; subst hp; exact List.prefix_append path _⟩,
        (by simp), (by intro v h _; cases h)⟩
    · exact step item rfl (fun h => he h)


/-- every item of a completed list was produced by a call at the item type: non-null item types hold no null -/
theorem completeItems_items (rec : Rec) (hrec : RecGood rec) (path : Path) (ty inner : Ty) (fields : List Sel) :
    ∀ items i acc st, (∀ v, v ∈ acc → inner.isNonNull = true → v ≠ .null) →
      ∀ ys, (completeItems rec path ty inner fields items i acc st).1 = .ok (some (.arr ys)) →
        ∀ v, v ∈ ys → inner.isNonNull = true → v ≠ .null := by
  intro items
  induction items with
  | nil =>
    intro i acc st hacc ys h
    simp only [completeItems] at h
    cases h
    exact hacc
  | cons item rest ih =>
    intro i acc st hacc ys h
    by_cases he : item = RV.error
    · subst he
      simp only [completeItems] at h
      cases h
    · have hunf : completeItems rec path ty inner fields (item :: rest) i acc st =
          (match rec (path ++ [.idx i]) inner item fields st with
          | (r, st1) =>
            match tryNullify inner r with
            | .ok none => completeItems rec path ty inner fields rest (i + 1) acc st1
            | .ok (some v) => completeItems rec path ty inner fields rest (i + 1) (acc ++ [v]) st1
            | .error .propagate => (tryNullify ty (.error .propagate), st1)
            | .error .fuel => (.error .fuel, st1)) := by
        cases item <;> first | rfl | exact absurd rfl he
      rw [hunf] at h
      have hg := hrec (path ++ [.idx i]) inner item fields st
      generalize rec (path ++ [.idx i]) inner item fields st = res at *
      obtain ⟨r, st1⟩ := res
      have hg' := good_tryNullify hg
      obtain ⟨_, _, _, hnn⟩ := hg'
      simp only at h
      rcases tryNullify_cases inner r with ⟨j, _, e⟩ | ⟨_, _, e⟩ | ⟨_, _, e⟩ | ⟨_, e⟩
      · rw [e] at h hnn
        cases j with
        | none => exact ih (i + 1) acc st1 hacc ys h
        | some v =>
          refine ih (i + 1) (acc ++ [v]) st1 ?_ ys h
          intro w hw
          simp only [List.mem_append, List.mem_singleton] at hw
          rcases hw with hw | rfl
          · exact hacc w hw
          · exact hnn w rfl
      · rw [e] at h
        simp only at h
        rcases tryNullify_cases ty (.error .propagate) with ⟨j, hj, _⟩ | ⟨_, _, e2⟩ | ⟨_, _, e2⟩ | ⟨hj, _⟩
        · cases hj
        · rw [e2] at h; cases h
        · rw [e2] at h; cases h
        · cases hj
      · rw [e] at h hnn
        refine ih (i + 1) (acc ++ [.null]) st1 ?_ ys h
        intro w hw
        simp only [List.mem_append, List.mem_singleton] at hw
        rcases hw with hw | rfl
        · exact hacc w hw
        · exact hnn _ rfl
      · rw [e] at h
        cases h

theorem completeList_good (rec : Rec) (hrec : RecGood rec) (path : Path) (ty : Ty) (fields : List Sel)
    (items : List RV) (st : St) : GoodOut path ty st (completeList rec path ty fields items st) := by
  unfold completeList
  split
  · exact good_error_push path ty st
  · next inner _ => exact completeItems_good rec hrec path ty inner fields items 0 [] st

theorem execField_good (rec : Rec) (hrec : RecGood rec) (env : Env) (path : Path) (objTy : String) (objId : Nat)
    (fdef : FieldDef) (fields : List Sel) (st : St) :
    GoodOut path fdef.ty st (execField rec env path objTy objId fdef fields st) := by
  unfold execField
  split
  · exact ⟨[], ext_refl path st, (by intro h; cases h), (by intro v h _; cases h)⟩
  · next f0 tl =>
    split
    · split
      · exact good_error_push path fdef.ty st
      · next hnn =>
        refine ⟨[path], ext_push path st, (by intro h; cases h), ?_⟩
        intro v _ hty
        simp [hty] at hnn
    · next args _ =>
      simp only
      split
      · exact good_tryNullify (good_error_push path fdef.ty st)
      · next rv _ =>
        have := hrec path fdef.ty rv (f0 :: tl) st
        generalize rec path fdef.ty rv (f0 :: tl) st = res at *
        obtain ⟨r, st1⟩ := res
        exact good_tryNullify this

theorem execGroups_good (rec : Rec) (hrec : RecGood rec) (env : Env) (path : Path) (objTy : String) (objId : Nat) :
    ∀ groups acc st, GoodMap path st (execGroups rec env path objTy objId groups acc st) := by
  intro groups
  induction groups with
  | nil => intro acc st; exact ⟨[], ext_refl path st, (by intro h; cases h)⟩
  | cons g rest ih =>
    intro acc st
    obtain ⟨key, fields⟩ := g
    simp only [execGroups]
    split
    · exact ih acc st
    · next f0 tl =>
      split
      · exact ih acc st
      · next fdef _ =>
        obtain ⟨n1, hext1, hprop1, _⟩ := execField_good rec hrec env (path ++ [.key key]) objTy objId fdef (f0 :: tl) st
        generalize execField rec env (path ++ [.key key]) objTy objId fdef (f0 :: tl) st = res at *
        obtain ⟨r, st1⟩ := res
        have hext1' : Ext path st st1 n1 := ext_weaken hext1
        cases r with
        | error e =>
          refine ⟨n1, hext1', ?_⟩
          intro h
          cases h
          exact hprop1 rfl
        | ok o =>
          cases o with
          | none =>
            obtain ⟨n2, h2, p2⟩ := ih acc st1
            exact ⟨n1 ++ n2, ext_trans hext1' h2, (fun h => by simp [p2 h])⟩
          | some v =>
            obtain ⟨n2, h2, p2⟩ := ih (AList.insert acc key v) st1
            exact ⟨n1 ++ n2, ext_trans hext1' h2, (fun h => by simp [p2 h])⟩

theorem execSelSet_good (rec : Rec) (hrec : RecGood rec) (env : Env) (path : Path) (objTy : String) (objId : Nat)
    (sels : List Sel) (st : St) : GoodMap path st (execSelSet rec env path objTy objId sels st) := by
  unfold execSelSet
  split
  · exact ⟨[], ext_refl path st, (by intro h; cases h)⟩
  · exact execGroups_good rec hrec env path objTy objId _ [] st

theorem completeValue_good (env : Env) : ∀ n, RecGood (completeValue env n) := by
  intro n
  induction n with
  | zero =>
    intro path ty rv fields st
    exact ⟨[], ext_refl path st, (by intro h; cases h), (by intro v h _; cases h)⟩
  | succ n ih =>
    intro path ty rv fields st
    unfold completeValue
    split
    · exact ⟨[], ext_refl path st, (by intro h; cases h), (by intro v h _; cases h)⟩
    · split
      · exact good_error_push path ty st
      · next hnn =>
        exact ⟨[], ext_refl path st, (by intro h; cases h), (by intro v _ hty; simp [hty] at hnn)⟩
    · exact completeList_good _ ih path ty fields _ st
    · exact good_error_push path ty st
    · exact good_error_push path ty st
    · next rv' hskip hnull hlist herr hecho =>
      split
      · exact good_error_push path ty st
      · next tyName _ =>
        split
        · exact good_error_push path ty st
        · exact good_error_push path ty st
        · next k _ _ =>
          split
          · next j =>
            refine completeLeaf_good path ty tyName k j ?_ st
            intro hj
            subst hj
            exact hnull rfl
          · next resolvedTy id =>
            split
            · obtain ⟨n1, hext1, hprop1⟩ := execSelSet_good _ ih env path resolvedTy id (subSelections fields) st
              generalize execSelSet (completeValue env n) env path resolvedTy id (subSelections fields) st = res at *
              obtain ⟨r, st1⟩ := res
              cases r with
              | ok m => exact ⟨n1, hext1, (by intro h; cases h), (by intro v h _; cases h; simp)⟩
              | error e =>
                refine ⟨n1, hext1, ?_, (by intro v h _; cases h)⟩
                intro h
                cases h
                exact hprop1 rfl
            · exact good_error_push path ty st
          · exact good_error_push path ty st

end Apollo.Exec
