import ApolloModel.Proofs.ParserTree23
/-
C08 growth (pipeline), part 24 (stage iv): `collect_opt(x.variable_definitions(), …)` on a VARIABLE_DEFINITIONS node.
-/
set_option linter.unusedSimpArgs false
set_option linter.unusedVariables false

namespace Apollo.FromCst
open Apollo.Rowan Apollo.Ast
open Apollo.Parse (isJunk isJunkKind sigE nameNode VarDefsNode)

variable {R : List Loc}

/-- the variable definitions of an operation: every VARIABLE_DEFINITION child of the VARIABLE_DEFINITIONS node converts -/
theorem varDefs_collect (n : Nat) (vs : List VarDef) (ev : Elem) (h : VarDefsNode vs ev) (hs : size ev ≤ n + 1)
    (R : List Loc) (s : Nat) (hp : ∀ x ∈ nameRanges ev s, x ∈ R) :
    ∃ l, collectM (cVariableDefinition n) (children "VARIABLE_DEFINITION" (⟨(ev, s), hp⟩ : PE R)) = some (vs, l) := by
  obtain ⟨cs, lp, rp, es, rfl, hsig, hall⟩ := h
  have hfilter : cs.filter (nodeP (· == "VARIABLE_DEFINITION")) = es := by
    rw [filter_nodeP_sigE, hsig]
    simp [List.filter_cons, nodeP_tok, List.filter_append, all2_filter _ _ (fun a e h => varDefTree_nodeP h) es vs hall]
  have hmap := childrenP_map (R := R) (· == "VARIABLE_DEFINITION") "VARIABLE_DEFINITIONS" cs s hp
  rw [hfilter] at hmap
  have hszs : sizeList es ≤ n := by
    have h2 : sizeList (sigE cs) ≤ sizeList cs := sizeList_sigE_le cs
    rw [hsig] at h2
    simp only [sizeList, sizeList_append, size] at h2 hs
    omega
  have hconv := all2_conv (fun R => @cVariableDefinition R n) VarDefTree n
    (fun v e h hsz => cVariableDefinition_conv n v e h hsz) es vs hall hszs
  rw [children_eq_childrenP]
  exact collectM_conv (R := R) (fun R => @cVariableDefinition R n) _ es vs hmap hconv

end Apollo.FromCst
