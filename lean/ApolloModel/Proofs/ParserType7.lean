import ApolloModel.Proofs.ParserType6
/-
C07 / C05 growth (type entry point), part 7: completeness of `ty.rs` — a token queue that spells a type
(ignored tokens after any of its tokens) is consumed exactly, without recording an error, provided the
list nesting fits under the recursion limit.
-/
set_option linter.unusedSimpArgs false
namespace Apollo.Parse
open Apollo.Rowan hiding Str
open Apollo.Lex hiding Str

def Ign (i : List Tok) : Prop := ∀ x ∈ i, isIgnoredKind x.kind = true
def Sigf (t : Tok) : Prop := isIgnoredKind t.kind = false

mutual
/-- the tokens of a type without a trailing `!`, each followed by any ignored tokens -/
inductive SpellB : Ast.Ty → List Tok → Prop
  | named (t : Tok) (i : List Tok) : t.kind = .name → Ign i → SpellB (.named t.data) (t :: i)
  | list (lb rb : Tok) (i1 i2 cu : List Tok) (u : Ast.Ty) : lb.kind = .lBracket → Ign i1 → Spell u cu →
      rb.kind = .rBracket → Ign i2 → SpellB (.list u) (lb :: i1 ++ cu ++ rb :: i2)
/-- the tokens of a type, each followed by any ignored tokens -/
inductive Spell : Ast.Ty → List Tok → Prop
  | base (u : Ast.Ty) (c : List Tok) : SpellB u c → Spell u c
  | bangNamed (n : Str) (c : List Tok) (b : Tok) (i : List Tok) : SpellB (.named n) c → b.kind = .bang → Ign i →
      Spell (.nonNullNamed n) (c ++ b :: i)
  | bangList (u : Ast.Ty) (c : List Tok) (b : Tok) (i : List Tok) : SpellB (.list u) c → b.kind = .bang → Ign i →
      Spell (.nonNullList u) (c ++ b :: i)
end

def tyDepth : Ast.Ty → Nat
  | .named _ | .nonNullNamed _ => 0
  | .list t | .nonNullList t => tyDepth t + 1

/-- after a type without `!` the next significant token must not be a `!` (it would belong to the type) -/
def NoBangAfter (t : Ast.Ty) (q : Tok) : Prop :=
  match t with
  | .named _ | .list _ => q.kind ≠ .bang
  | _ => True

theorem ign_unique : ∀ (i ign : List Tok) (q0 : Tok) (rest T' : List Tok), i ++ q0 :: rest = ign ++ T' →
    Ign i → Ign ign → Sigf q0 → (T' = [] ∨ ∃ h tl, T' = h :: tl ∧ Sigf h) → ign = i ∧ T' = q0 :: rest := by
  intro i
  induction i with
  | nil =>
    intro ign q0 rest T' h _ hign hq hT
    cases ign with
    | nil => exact ⟨rfl, by simpa using h.symm⟩
    | cons x ign =>
      simp only [List.nil_append, List.cons_append] at h
      injection h with h1 _
      have := hign x (by simp)
      rw [← h1] at this
      unfold Sigf at hq
      rw [hq] at this; cases this
  | cons a i ih =>
    intro ign q0 rest T' h hi hign hq hT
    cases ign with
    | nil =>
      simp only [List.nil_append, List.cons_append] at h
      rcases hT with hT | ⟨hd, tl, hT, hs⟩
      · rw [hT] at h; cases h
      · rw [hT] at h
        injection h with h1 _
        have := hi a (by simp)
        unfold Sigf at hs
        rw [h1, hs] at this; cases this
    | cons x ign =>
      simp only [List.cons_append] at h
      injection h with h1 h2
      obtain ⟨e1, e2⟩ := ih ign q0 rest T' h2 (fun y hy => hi y (by simp [hy])) (fun y hy => hign y (by simp [hy])) hq hT
      exact ⟨by rw [h1, e1], e2⟩

/-- `skip_ignored` skips exactly the ignored tokens in front of the next significant one -/
theorem skip_exact (s s' : PState) (i : List Tok) (q0 : Tok) (rest : List Tok) (w : TW s)
    (h : skipIgnored.run s = .ok () s') (ht : Toks s = i ++ q0 :: rest) (hi : Ign i) (hq : Sigf q0) :
    Eat s s' i ∧ Toks s' = q0 :: rest ∧ s'.current = some q0 := by
  obtain ⟨ign, e, hall, hset⟩ := skipIgnored_spec s s' w h
  have hT : Toks s' = [] ∨ ∃ hd tl, Toks s' = hd :: tl ∧ Sigf hd := by
    cases hq' : Toks s' with
    | nil => exact Or.inl rfl
    | cons hd tl =>
      refine Or.inr ⟨hd, tl, rfl, ?_⟩
      have hc := hset.1
      rw [hq'] at hc
      exact hset.2 hd hc
  have := e.toks
  rw [ht] at this
  obtain ⟨e1, e2⟩ := ign_unique i ign q0 rest (Toks s') this hi hall hq hT
  subst e1
  refine ⟨e, e2, ?_⟩
  rw [hset.1, e2]; rfl

/-- `eat` on a non-empty queue takes its head -/
theorem eat_head (kind : SK) (s s' : PState) (t : Tok) (rest : List Tok) (w : TW s) (ht : Toks s = t :: rest)
    (h : (eat kind).run s = .ok () s') : Eat s s' [t] ∧ Toks s' = rest := by
  rcases eat_spec kind s s' w h with ⟨t', rest', hq, e, _⟩ | ⟨hq, _⟩
  · rw [ht] at hq
    injection hq with h1 _
    subst h1
    refine ⟨e, ?_⟩
    have := e.toks
    rw [ht] at this
    simpa using this.symm
  · rw [ht] at hq; cases hq

/-- `expect` on a queue whose head has the expected kind bumps it -/
theorem expect_match (token : Kind) (kind : SK) (s s' : PState) (t q0 : Tok) (i rest : List Tok) (w : TW s)
    (ht : Toks s = t :: i ++ q0 :: rest) (hk : t.kind = token) (hi : Ign i) (hq : Sigf q0)
    (h : (expect token kind).run s = .ok () s') :
    Eat s s' (t :: i) ∧ Toks s' = q0 :: rest ∧ s'.current = some q0 := by
  unfold expect at h
  obtain ⟨o, s1, h1, h2⟩ := bind_dec peekToken _ s s' () h
  have p := peekToken_obs s s1 o w h1
  have ho : o = some t := by rw [p.head, ht]; rfl
  subst ho
  simp only [hk, beq_self_eq_true, if_true] at h2
  unfold bump at h2
  obtain ⟨_, s2, h3, h4⟩ := bind_dec (eat kind) _ s1 s' () h2
  obtain ⟨e2, ht2⟩ := eat_head kind s1 s2 t (i ++ q0 :: rest) p.w (by rw [p.toks, ht]; simp) h3
  obtain ⟨e3, ht3, hc3⟩ := skip_exact s2 s' i q0 rest e2.w h4 ht2 hi hq
  exact ⟨by simpa using (p.eat.trans e2).trans e3, ht3, hc3⟩

/-- `peek` on a non-empty queue -/
theorem peek_head (s s' : PState) (k : Option Kind) (t : Tok) (rest : List Tok) (w : TW s) (ht : Toks s = t :: rest)
    (h : peek.run s = .ok k s') : k = some t.kind ∧ Eat s s' [] ∧ Toks s' = t :: rest ∧ s'.current = some t := by
  obtain ⟨o, p, hk⟩ := peek_obs s s' k w h
  have ho : o = some t := by rw [p.head, ht]; rfl
  subst ho
  exact ⟨hk, p.eat, by rw [p.toks, ht], p.current⟩

end Apollo.Parse
