import ApolloModel.Proofs.ParserTree36
import ApolloModel.Proofs.ParserExactC28
/-
C08 growth (pipeline), part 37: ParserTree33-34 repeated over builderB's EXACT completeness calculus (namespace
Apollo.Parse.Exact: `Exact.itemFit`, `Exact.DocOk`, `Exact.item_dispatch_comp`, `Exact.parseDocument_complete_items`) —
the same run seen by the tree calculus and by the exact completeness calculus; strict documents within the EXACT
recursion budget through the pipeline.
-/
set_option linter.unusedSimpArgs false
set_option linter.unusedVariables false

namespace Apollo.Parse.Exact
open Apollo.Rowan hiding Str
open Apollo.Lex hiding Str
open Apollo.FromCst (All2 looseConv)

/-- **the loop of `document()` on a document of the completeness language**: the run is the one completeness describes
    (each dispatch consumes exactly the tokens of the next definition), and the tree calculus says what it built -/
theorem docLoop_trG {n : Nat} {Q : List Tok → List Elem → Prop} (L : DefTrs n Q) :
    ∀ (items : List (List Ast.Tok)) (fuel : Nat) (s s' : PState) (c : List Tok) (e : Tok) (rest : List Tok),
    St s → CurlyQ (Toks s) → (peekWhileLoop (documentStep n) fuel).run s = .ok () s' → ¬ Doomed s' →
    DocOk (s.recLimit - s.recCur) items → Spells c items.flatten → Toks s = c ++ e :: rest → e.kind = .eof →
    ∃ added trs, s'.builder.children = s.builder.children ++ added ∧ sigE added = (trs.map (·.2)).flatten ∧
      Aligned Q trs items := by
  intro items
  induction items with
  | nil =>
    intro fuel s s' c e rest st _ hr hnd _ hs ht he
    have hc : c = [] := spells_nil_inv (by simpa using hs)
    subst hc
    cases fuel with
    | zero => simp [peekWhileLoop, PI.outOfFuel] at hr
    | succ fuel =>
      unfold peekWhileLoop at hr
      obtain ⟨ko, sP, hp, h2⟩ := bind_dec peek _ s s' () hr
      obtain ⟨rfl, eP, htP, hcur⟩ := peek_head s sP ko e rest st.w (by simpa using ht) hp
      have hbP : sP.builder = s.builder := keeps_peek s _ sP hp
      simp only [] at h2
      have h3 := getCurrent_dec _ sP s' () h2
      obtain ⟨b, sB, hb, h4⟩ := bind_dec (documentStep n e.kind) _ sP s' () h3
      unfold documentStep at hb
      have hk : (e.kind == Kind.eof) = true := by rw [he]; rfl
      simp only [hk, if_true] at hb
      obtain ⟨_, s0, e0, e1⟩ := bind_dec assertRecZero _ sP sB b hb
      rw [assertRecZero_run] at e0
      injection e0 with _ e0
      subst e0
      rw [run_pure] at e1
      injection e1 with e1 e2
      subst e1 e2
      simp only [Bool.false_eq_true, if_false] at h4
      rw [run_pure] at h4
      injection h4 with _ h4
      subst h4
      refine ⟨[], [], ?_, rfl, All2.nil⟩
      show sP.builder.children = _
      rw [hbP]; simp
  | cons item r ih =>
    intro fuel s s' c e rest st hcq hr hnd hall hs ht he
    have w := st.w
    have lq : LexQ (Toks s) := st.lq.1
    cases fuel with
    | zero => simp [peekWhileLoop, PI.outOfFuel] at hr
    | succ fuel =>
      obtain ⟨hitem, hrest⟩ := hall
      have hse : Sigf e := by unfold Sigf; rw [he]; rfl
      obtain ⟨c1, c2, rfl, s1, s2⟩ := spells_split0 (x1 := item) (x2 := r.flatten) (by simpa using hs)
      obtain ⟨q1, r1, hq1, hsq1, hfq1⟩ : ∃ q1 r1, c2 ++ e :: rest = q1 :: r1 ∧ Sigf q1 ∧ FollowTokOf r.flatten.head? q1 := by
        cases hrf : r.flatten with
        | nil =>
          have := spells_nil_inv (by rw [hrf] at s2; exact s2)
          subst this
          exact ⟨e, rest, rfl, hse, he⟩
        | cons a x' =>
          obtain ⟨t', tl', rfl, hta'⟩ := spells_head (by rw [hrf] at s2; exact s2)
          exact ⟨t', tl' ++ e :: rest, rfl, sigf_of_astOfV hta', hta'⟩
      have hok := hitem q1 hfq1
      obtain ⟨a, x', rfl, hka⟩ := itemOk_head hok
      obtain ⟨t, tl1, hc1, hta⟩ := spells_head s1
      subst hc1
      have hkt : t.kind = kindOfA a := kind_of_astOfV hta
      have ht' : Toks s = (t :: tl1) ++ q1 :: r1 := by rw [ht, ← hq1]; simp
      unfold peekWhileLoop at hr
      obtain ⟨ko, sP, hp, h2⟩ := bind_dec peek _ s s' () hr
      obtain ⟨rfl, eP, htP, hcur⟩ := peek_head s sP ko t (tl1 ++ q1 :: r1) w (by simpa using ht') hp
      have hbldP : sP.builder = s.builder := keeps_peek s _ sP hp
      have stP : St sP := ⟨eP.w, (run_inv_added peek s st.inv _ sP hp).1, eofEnd_eat st.eof eP (by intro x hx; cases hx),
        by rw [htP, ← List.cons_append, ← ht']; exact st.lq⟩
      have hbP : sP.recLimit - sP.recCur = s.recLimit - s.recCur := by rw [eP.recLimit, eP.recCur]
      simp only [] at h2
      have h3 := getCurrent_dec _ sP s' () h2
      obtain ⟨b, sB, hb, h4⟩ := bind_dec (documentStep n t.kind) _ sP s' () h3
      unfold documentStep at hb
      have hne : (t.kind == Kind.eof) = false := by rw [hkt]; rcases hka with h | h | h <;> rw [h] <;> rfl
      simp only [hne, Bool.false_eq_true, if_false] at hb
      obtain ⟨_, sC, hc1, hc2⟩ := bind_dec assertRecZero _ sP sB b hb
      rw [assertRecZero_run] at hc1
      injection hc1 with _ hc1
      subst hc1
      obtain ⟨_, sD, hd1, hd2⟩ := bind_dec (documentDispatch n t.kind) _ _ sB b hc2
      rw [run_pure] at hd2
      injection hd2 with hb' hs'
      subst hb' hs'
      have htmem : t ∈ Toks s := by rw [ht']; simp
      have hTP : Toks sP = (t :: tl1) ++ q1 :: r1 := by rw [htP]; simp
      obtain ⟨eD, tD⟩ := item_dispatch_comp n (flagged sP) sD t tl1 (a :: x') q1 r1 (tw_flagged eP.w)
        (by rw [toks_flagged, hTP, ← ht']; exact lq) hcur (hcq t htmem)
        (by show ItemOk (sP.recLimit - sP.recCur) _ _; rw [hbP]; exact hok) s1 (by rw [toks_flagged, hTP]) hsq1 hd1
      simp only [if_true] at h4
      have h5 := getCurrent_dec _ sD s' () h4
      by_cases hsame : (sP.current == sD.current) = true
      · simp only [hsame, if_true] at h5
        exact absurd h5 (stuck_not_ok _ _ _)
      · simp only [hsame, Bool.false_eq_true, if_false] at h5
        have eSD : Eat s sD (t :: tl1) := by simpa using (eP.trans (eat_flagged sP eP.w)).trans eD
        have hbD : sD.recLimit - sD.recCur = s.recLimit - s.recCur := by rw [eSD.recLimit, eSD.recCur]
        have hsuf : Toks s = (t :: tl1) ++ Toks sD := eSD.toks
        -- the tree calculus on the same dispatch run
        have stF := st_flagged stP
        have aD := good_documentDispatch (defLemmas n) t.kind (flagged sP) () sD stF.w hd1
        have hndD : ¬ Doomed sD := fun d => hnd ((good_peekWhileLoop _ (good_documentStep (defLemmas n)) fuel sD () s' aD.w h5).doom d)
        obtain ⟨c1', d1, t1, n1, e1', b1, r1'⟩ := documentDispatch_tr L (flagged sP) sD t (tl1 ++ q1 :: r1) stF hcur
          (by rw [toks_flagged, hTP]; simp) hd1 hndD
        have hcs : c1' = t :: tl1 := by
          have := t1.symm.trans eD.toks
          exact List.append_cancel_right this
        subst hcs
        have stD : St sD := ⟨aD.w, (run_inv_added (documentDispatch n t.kind) (flagged sP) stF.inv () sD hd1).1, e1',
          LQ.suffix (cs := t :: tl1) (by rw [← t1]; exact stF.lq)⟩
        obtain ⟨added2, trs2, g1, g2, g3⟩ := ih fuel sD s' c2 e rest stD (by rw [hsuf] at hcq; exact hcq.suffix) h5 hnd
          (by rw [hbD]; exact hrest) s2 (by rw [tD, hq1]) he
        have b1' : sD.builder.children = s.builder.children ++ d1 := by
          rw [b1]; show sP.builder.children ++ d1 = _; rw [hbldP]
        rcases r1' with q1' | f
        · refine ⟨d1 ++ added2, (sig (t :: tl1), sigE d1) :: trs2, by rw [g1, b1', List.append_assoc], ?_, All2.cons ⟨q1', s1.1⟩ g3⟩
          simp [sigE_append, g2]
        · exact absurd f id

theorem documentBody_trG {n : Nat} {Q : List Tok → List Elem → Prop} (L : DefTrs n Q) (items : List (List Ast.Tok))
    (s s' : PState) (c : List Tok) (e : Tok) (rest : List Tok) (st : St s) (hcq : CurlyQ (Toks s)) (hne : items ≠ [])
    (hall : DocOk (s.recLimit - s.recCur) items) (hs : Spells c items.flatten) (ht : Toks s = c ++ e :: rest) (he : e.kind = .eof)
    (h : (documentBody n).run s = .ok () s') (hnd : ¬ Doomed s') :
    ∃ added trs, s'.builder.children = s.builder.children ++ added ∧ sigE added = (trs.map (·.2)).flatten ∧
      Aligned Q trs items := by
  cases items with
  | nil => exact absurd rfl hne
  | cons item r =>
  obtain ⟨t, tl1, hc, _, hkt⟩ := docOk_first hall c e hs he
  unfold documentBody at h
  obtain ⟨ko, sP, hp, h2⟩ := bind_dec peek _ s s' () h
  obtain ⟨rfl, eP, htP, _⟩ := peek_head s sP ko t (tl1 ++ e :: rest) st.w (by rw [ht, hc]; simp) hp
  have hbldP : sP.builder = s.builder := keeps_peek s _ sP hp
  obtain ⟨_, sE, hE, h3⟩ := bind_dec (errIfEmpty _) _ sP s' () h2
  unfold errIfEmpty at hE
  have hemp : (some t.kind == none || some t.kind == some Kind.eof) = false := by
    rcases hkt with h0 | h0 | h0 <;> rw [h0] <;> rfl
  simp only [hemp, Bool.false_eq_true, if_false] at hE
  rw [run_pure] at hE
  injection hE with _ hE
  subst hE
  obtain ⟨_, sL, hL, h4⟩ := bind_dec (peekWhile (documentStep n)) _ sP s' () h3
  unfold peekWhile at hL
  obtain ⟨fuel, h5⟩ := srcLen_dec _ sP sL () hL
  have hbP : sP.recLimit - sP.recCur = s.recLimit - s.recCur := by rw [eP.recLimit, eP.recCur]
  have hTP : Toks sP = c ++ e :: rest := by rw [htP, hc]; simp
  have stP : St sP := ⟨eP.w, (run_inv_added peek s st.inv _ sP hp).1, eofEnd_eat st.eof eP (by intro x hx; cases hx),
    by rw [hTP, ← ht]; exact st.lq⟩
  have o4 := pushIgnored_obs sL s' h4
  have hndL : ¬ Doomed sL := fun d => hnd (o4.doomed.mpr d)
  obtain ⟨added, trs, g1, g2, g3⟩ := docLoop_trG L (item :: r) _ sP sL c e rest stP (by rw [hTP, ← ht]; exact hcq) h5 hndL
    (by rw [hbP]; exact hall) hs hTP he
  have e4 : pushIgnored.run sL = .ok () { sL with builder := { sL.builder with children := sL.builder.children ++ sL.pending.map pendingElem }, pending := [] } := rfl
  rw [e4] at h4
  injection h4 with _ h4
  refine ⟨added ++ sL.pending.map pendingElem, trs, ?_, ?_, g3⟩
  · rw [← h4]
    show sL.builder.children ++ sL.pending.map pendingElem = _
    rw [g1, hbldP, List.append_assoc]
  · rw [sigE_append, sigE_pending, List.append_nil]; exact g2

theorem document_trG {n : Nat} {Q : List Tok → List Elem → Prop} (L : DefTrs n Q) (items : List (List Ast.Tok))
    (s s' : PState) (i0 c : List Tok) (e : Tok) (rest : List Tok) (st : St s) (hcq : CurlyQ (Toks s)) (hne : items ≠ [])
    (hall : DocOk (s.recLimit - s.recCur) items) (hi0 : Ign i0) (hs : Spells c items.flatten)
    (ht : Toks s = i0 ++ (c ++ e :: rest)) (he : e.kind = .eof)
    (h : (document n).run s = .ok () s') (hnd : ¬ Doomed s') :
    ∃ inner trs, s'.builder.children = s.builder.children ++ s.pending.map pendingElem ++ [Elem.node "DOCUMENT" inner] ∧
      sigE inner = (trs.map (·.2)).flatten ∧ Aligned Q trs items := by
  unfold document at h
  obtain ⟨s0, s2, inner, o0, hinv0, hp0, hr0, o2, hin, hout⟩ := withNode_tree "DOCUMENT" (documentBody n) s st.inv () s' h
  obtain ⟨_, s1, hsk, hb⟩ := bind_dec skipIgnored _ s0 s2 () hr0
  have st0 : St s0 := st.obs o0 hinv0
  obtain ⟨t, tl1, hc, hst, _⟩ : ∃ t tl1, c = t :: tl1 ∧ Sigf t ∧ True := by
    cases items with
    | nil => exact absurd rfl hne
    | cons item r =>
      obtain ⟨t, tl1, hc, hst, _⟩ := docOk_first hall c e hs he
      exact ⟨t, tl1, hc, hst, trivial⟩
  obtain ⟨e1, t1, _⟩ := skip_exact s0 s1 i0 t (tl1 ++ e :: rest) st0.w hsk (by rw [o0.toks, ht, hc]; simp) hi0 hst
  have e01 : Eat s s1 i0 := by simpa using (Eat.ofObsEq o0 st.w).trans e1
  have hb1 : s1.recLimit - s1.recCur = s.recLimit - s.recCur := by rw [e01.recLimit, e01.recCur]
  have hT1 : Toks s1 = c ++ e :: rest := by rw [t1, hc]; simp
  have hsuf : Toks s = i0 ++ Toks s1 := e01.toks
  have st1 : St s1 := ⟨e01.w, (run_inv_added skipIgnored s0 hinv0 () s1 hsk).1, eofEnd_eat st.eof e01 (noEof_ignored i0 hi0),
    LQ.suffix (cs := i0) (by rw [← hsuf]; exact st.lq)⟩
  have hk1 : s1.builder = s0.builder := keeps_skipIgnored s0 () s1 hsk
  have hnd2 : ¬ Doomed s2 := fun d => hnd (o2.doomed.mpr d)
  obtain ⟨added, trs, g1, g2, g3⟩ := documentBody_trG L items s1 s2 c e rest st1 (by rw [hsuf] at hcq; exact hcq.suffix) hne
    (by rw [hb1]; exact hall) hs hT1 he hb hnd2
  have hinner : inner = added := by
    rw [hk1, hin] at g1
    exact List.append_cancel_left g1
  subst hinner
  exact ⟨inner, trs, hout, g2, g3⟩

/-- **The tree of a document of the completeness language**: for a source whose significant tokens spell the
    definitions `items` (each within the budget and allowed before the next, `DocOk`), the accepted run of
    `Parser::parse` decomposes the tokens into EXACTLY these definitions, and the tree's significant children are, one
    per definition, what the selected definition parser built (`Q`) -/
theorem parseDocument_cstG {Q : List Tok → List Elem → Prop} (L : ∀ n, DefTrs n Q) (rl : Nat) (src : Str) (root : Elem)
    (h : (parse .document none rl src).outcome = .tree root) (items : List (List Ast.Tok)) (hne : items ≠ [])
    (hdoc : DocOk rl items) (ts : List Tok) (e : Tok) (hclean : LexClean src) (hsig : sig (srcToks src) = ts ++ [e])
    (he : e.kind = .eof) (hx : TokIs ts items.flatten) :
    ∃ inner trs, root = Elem.node "DOCUMENT" inner ∧ sigE inner = (trs.map (·.2)).flatten ∧ Aligned Q trs items := by
  have hxne : items.flatten ≠ [] := isDocFit_ne ⟨items, hne, rfl, hdoc⟩
  obtain ⟨i0, c, htoks, hi0, hsp⟩ := srcToks_split src _ ts e hsig he hx hxne
  unfold parse runEntry at h
  simp only [Entry.standalone, Entry.grammar] at h
  have hinv := init_inv src none rl
  have w0 : TW (initState src none rl) := ⟨rfl, by intro h; simp [initState] at h⟩
  have ht0 : Toks (initState src none rl) = srcToks src := rfl
  have hnd0 : ¬ Doomed (initState src none rl) := by
    rintro (h | h)
    · exact h rfl
    · unfold LexClean at hclean
      rw [show (initState src none rl).lx = (initState src none 0).lx from rfl, hclean] at h
      cases h
  have hb0 : (initState src none rl).recLimit - (initState src none rl).recCur = rl := by simp [initState]
  have he0 : EofEnd (initState src none rl) := by
    right
    obtain ⟨pre, e', hp, he', hno⟩ := stream_eof_end src.length (initState src none 0).lx (Nat.le_refl _) rfl rfl
    exact ⟨pre, e', by rw [ht0]; exact hp, he', hno⟩
  have st0 : St (initState src none rl) := ⟨w0, hinv, he0, by rw [ht0]; exact lq_srcToks src⟩
  cases hr : (document (fuelFor src)).run (initState src none rl) with
  | abort w => simp [hr] at h
  | panic m => simp [hr] at h
  | ok a s =>
    simp only [hr] at h
    obtain ⟨eD, _⟩ := document_compG (fuelFor src) items _ s i0 c e [] w0 (by rw [ht0]; exact lexQ_srcToks src)
      (by rw [ht0]; exact curlyQ_srcToks src) hne (by rw [hb0]; exact hdoc) hi0 hsp (by rw [ht0, htoks]) he hr
    have hnd : ¬ Doomed s := fun d => hnd0 (eD.doom.mp d)
    obtain ⟨inner, trs, g1, g2, g3⟩ := document_trG (L (fuelFor src)) items _ s i0 c e [] st0
      (by rw [ht0]; exact curlyQ_srcToks src) hne (by rw [hb0]; exact hdoc) hi0 hsp (by rw [ht0, htoks]) he hr hnd
    have hchild : s.builder.children = [Elem.node "DOCUMENT" inner] := by rw [g1]; rfl
    simp only [Builder.finish, hchild, Outcome.tree.injEq] at h
    exact ⟨inner, trs, h.symm, g2, g3⟩

theorem execFit_executable {rl : Nat} {d : Ast.Definition} (h : execFit rl d) : isExecutable d = true := by
  cases d <;> first | rfl | exact absurd h (by simp [execFit])

/-- the items the parser built for a strict document of the completeness language convert to its definitions -/
theorem aligned_conv (rl : Nat) : ∀ (its : List DocItem) (trs : List (List Tok × List Elem)) (items0 : List Ast.Item),
    strictItems its = some items0 → (∀ a ∈ items0, Ast.wfDefinition a.2 = true) → (∀ i ∈ its, itemFit rl i) →
    Aligned (fun cs e => ExecItemR cs e ∨ TsAny cs e) trs (its.map DocItem.toks) →
    ∃ eds, (trs.map (·.2)).flatten = eds ∧ All2 (fun e (a : Ast.Item) => DefConv a.2 e) eds items0
  | [], trs, items0, hs, _, _, hal => by
    simp only [strictItems, Option.some.injEq] at hs
    subst hs
    cases hal
    exact ⟨[], rfl, All2.nil⟩
  | i :: r, trs, items0, hs, hw, hfit, hal => by
    simp only [strictItems] at hs
    cases hi : i.strict with
    | none => rw [hi] at hs; simp at hs
    | some a =>
      cases hr : strictItems r with
      | none => rw [hi, hr] at hs; simp at hs
      | some b =>
        rw [hi, hr] at hs
        simp only [Option.some.injEq] at hs
        subst hs
        simp only [List.map_cons] at hal
        cases hal with
        | @cons tr x trs' xs hhead htail =>
          obtain ⟨eds, g1, g2⟩ := aligned_conv rl r trs' b hr (fun y hy => hw y (List.mem_cons_of_mem _ hy))
            (fun j hj => hfit j (List.mem_cons_of_mem _ hj)) htail
          have hwa : Ast.wfDefinition a.2 = true := hw a List.mem_cons_self
          have hfi := hfit i List.mem_cons_self
          obtain ⟨hq, htok⟩ := hhead
          have key : ∃ ed, tr.2 = [ed] ∧ DefConv a.2 ed := by
            cases i with
            | exec oe d =>
              simp only [DocItem.strict, Option.some.injEq] at hi
              subst hi
              have hex : isExecutable d = true := execFit_executable hfi
              rcases hq with ⟨it, ed, h1, h2, h3, h4, h5, _⟩ | ⟨l', ed, h1, _, _, _⟩
              · have heq : Ast.tDefinition it.1 it.2 = Ast.tDefinition oe d := tokIs_inj h1 htok
                have p1 := Ast.closed_roundtrip it.1 it.2 (max (Ast.szDefinition it.2) (Ast.szDefinition d)) []
                  (exec_closed h5) h2 (Nat.le_max_left _ _)
                have p2 := Ast.closed_roundtrip oe d (max (Ast.szDefinition it.2) (Ast.szDefinition d)) []
                  (exec_closed hex) hwa (Nat.le_max_right _ _)
                rw [heq, p2] at p1
                simp only [Option.some.injEq, Prod.mk.injEq, and_true] at p1
                exact ⟨ed, h3, by rw [p1]; exact h4⟩
              · exfalso
                have heq : l'.toks = Ast.tDefinition oe d := tokIs_inj h1 htok
                have e1 := looseDef_tsStart l'
                have e2 := exec_head oe d [] hex
                rw [List.append_nil, ← heq, e1] at e2
                cases e2
            | loose l =>
              simp only [DocItem.strict, Option.map_eq_some_iff] at hi
              obtain ⟨d, hd, rfl⟩ := hi
              have hlt : l.toks = Ast.tDefinition false d := LooseDef.toks_strict l d hd
              rcases hq with ⟨it, ed, h1, h2, h3, h4, h5, _⟩ | ⟨l', ed, h1, h2, h3, h4⟩
              · exfalso
                have heq : Ast.tDefinition it.1 it.2 = l.toks := tokIs_inj h1 htok
                have e1 := looseDef_tsStart l
                have e2 := exec_head it.1 it.2 [] h5
                rw [List.append_nil, heq, e1] at e2
                cases e2
              · have heq : l'.toks = Ast.tDefinition false d := (tokIs_inj h1 htok).trans hlt
                have hconv := loose_tokens_determine_definition l' d h2 hwa heq
                obtain ⟨K, kcs, rfl, hk, _⟩ := FromCst.defTree_kind l' ed h4
                refine ⟨_, h3, ?_⟩
                rw [← hconv]
                exact ⟨by rw [FromCst.nodeP_node]; exact hk, fun m hm => FromCst.cDefinition_defTree m l' _ h4 hm⟩
          obtain ⟨ed, he, hc⟩ := key
          exact ⟨ed :: eds, by simp only [List.map_cons, List.flatten_cons, he, g1]; rfl, All2.cons hc g2⟩

/-- **pipeline, strict documents of the completeness language, token level**: a source without lexer error whose
    significant tokens are the printer's tokens of the strict items `its` (within the recursion limit, each definition
    allowed before the next) is accepted, and `Document::from_cst` on the tree returns exactly the definitions -/
theorem pipeline_strict_document (rl : Nat) (src : Str) (its : List DocItem) (items0 : List Ast.Item)
    (hstrict : strictItems its = some items0) (hwf : ∀ a ∈ items0, Ast.wfDefinition a.2 = true)
    (hne : its ≠ []) (hfit : ∀ i ∈ its, itemFit rl i) (hfol : DocFollowOk its)
    (ts : List Tok) (e : Tok) (hclean : LexClean src) (hsig : sig (srcToks src) = ts ++ [e]) (he : e.kind = .eof)
    (hx : TokIs ts (Ast.itemsToks items0)) :
    (parse .document none rl src).errors = [] ∧
    ∃ root, (parse .document none rl src).outcome = .tree root ∧ (FromCst.fromCst root).1 = items0.map (·.2) := by
  have htoks := (strictItems_toks its items0 hstrict).1
  have hx' : TokIs ts (its.map DocItem.toks).flatten := by
    have : (its.map DocItem.toks).flatten = docToks its := rfl
    rw [this, htoks]; exact hx
  have herr := parseDocument_complete_items rl src its ts e hclean hsig he (by rw [htoks]; exact hx) hne hfit hfol
  obtain ⟨root, hroot⟩ := parseDocument_tree none rl src
  refine ⟨herr, root, hroot, ?_⟩
  obtain ⟨inner, trs, g1, g2, g3⟩ := parseDocument_cstG (fun n => defTrs_of_ts n TsAny (tsTrs n)) rl src root hroot
    (its.map DocItem.toks) (by simpa using hne) (docOk_of_items rl its hfit hfol) ts e hclean hsig he hx'
  obtain ⟨eds, k1, k2⟩ := aligned_conv rl its trs items0 hstrict hwf hfit g3
  rw [g1]
  exact fromCst_document inner eds items0 (by rw [g2, k1]) k2


end Apollo.Parse.Exact
