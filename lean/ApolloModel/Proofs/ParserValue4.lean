import ApolloModel.Proofs.ParserValue3
/-
C05 growth (values), part 4: what an error-free run of `value` means, and the non-recursive branches.
-/
set_option linter.unusedSimpArgs false
namespace Apollo.Parse
open Apollo.Rowan hiding Str
open Apollo.Lex hiding Str

/-- an error-free run of a value production: the consumed tokens (ignored ones removed) are the tokens of a
    well-formed value — or the run stopped at the end of input (an unclosed list: `list_value` breaks out of
    its loop at EOF without reporting; every caller then fails on its own closing token) -/
structure ValOk (isConst : Bool) (s s' : PState) : Prop where
  ex : ∃ cs, Toks s = cs ++ Toks s' ∧ NoEof cs ∧
    ((∃ v, TokIs (sig cs) (Ast.tValue v) ∧ valueOk isConst v = true) ∨ AtEof s')
  eof : EofEnd s'

def ValSound (n : Nat) : Prop :=
  ∀ c p s s', TW s → EofEnd s → (value n c p).run s = .ok () s' → ¬ Doomed s' → ValOk c s s'

def ListSound (n : Nat) : Prop :=
  ∀ c s s' t rest, TW s → EofEnd s → Toks s = t :: rest → t.kind = .lBracket →
    (listValue n c).run s = .ok () s' → ¬ Doomed s' → ValOk c s s'

def ObjSound (n : Nat) : Prop :=
  ∀ c s s' t rest, TW s → EofEnd s → Toks s = t :: rest → t.kind = .lCurly →
    (objectValue n c).run s = .ok () s' → ¬ Doomed s' → ValOk c s s'

theorem ValOk.of_eat {c : Bool} {s s' : PState} {cs : List Tok} (e : Eat s s' cs) (he : EofEnd s) (hno : NoEof cs)
    (v : Ast.Value) (ht : TokIs (sig cs) (Ast.tValue v)) (hv : valueOk c v = true) : ValOk c s s' :=
  ⟨⟨cs, e.toks, hno, Or.inl ⟨v, ht, hv⟩⟩, eofEnd_eat he e hno⟩

theorem ValOk.transfer {c : Bool} {s0 s s' : PState} (h : ValOk c s s') (ht : Toks s = Toks s0) : ValOk c s0 s' := by
  obtain ⟨⟨cs, a, b, d⟩, e⟩ := h
  exact ⟨⟨cs, by rw [← ht]; exact a, b, d⟩, e⟩

/-- a value that is one token inside one node -/
theorem scalar_branch (K k : SK) (c : Bool) (s s' : PState) (w : TW s) (he : EofEnd s) (t : Tok) (rest : List Tok)
    (ht : Toks s = t :: rest) (hni : isIgnoredKind t.kind = false) (hne : t.kind ≠ .eof)
    (v : Ast.Value) (x : Ast.Tok) (hx : astOfV t = some x) (hv : Ast.tValue v = [x]) (hok : valueOk c v = true)
    (h : (withNode K (bump k)).run s = .ok () s') : ValOk c s s' := by
  obtain ⟨ign, e, hall⟩ := nodeBump_spec K k s s' w t rest ht hni h
  refine ValOk.of_eat e he (noEof_cons hne hall) v ?_ hok
  rw [sig_cons_ignV t ign hni hall, hv]
  exact TokIs.single t x hx

theorem kw_eq {s : String} {d : Str} (h : kw s d = true) : d = s.toList := by simpa [kw] using h

theorem enumValue_sound (c : Bool) (s s' : PState) (w : TW s) (he : EofEnd s) (t : Tok) (rest : List Tok)
    (ht : Toks s = t :: rest) (hk : t.kind = .name) (hnk : isValueKeyword t.data = false)
    (h : enumValue.run s = .ok () s') (hnd : ¬ Doomed s') : ValOk c s s' := by
  have hni : isIgnoredKind t.kind = false := by rw [hk]; rfl
  have hne : t.kind ≠ .eof := by rw [hk]; decide
  unfold enumValue at h
  obtain ⟨s1, s2, e1, h1, o2⟩ := withNode_peeked _ _ s s' () t rest w ht hni h
  have ht1 : Toks s1 = t :: rest := by have := e1.toks; rw [ht] at this; simpa using this.symm
  have hnd2 : ¬ Doomed s2 := fun d => hnd (o2.doomed.mpr d)
  obtain ⟨o, s3, h3, h4⟩ := bind_dec peekToken _ s1 s2 () h1
  have p := peekToken_obs s1 s3 o e1.w h3
  have ho : o = some t := by have := p.head; rw [ht1] at this; simpa using this
  subst ho
  have hkk : (t.kind == Kind.name) = true := by simp [hk]
  have hkw : (kw "true" t.data || kw "false" t.data || kw "null" t.data) = false := hnk
  simp only [hkk, if_true, hkw, Bool.false_eq_true, if_false] at h4
  have ht3 : Toks s3 = t :: rest := by rw [p.toks]; exact ht1
  obtain ⟨t', rest', ign, hq, _, e, hall⟩ := name_spec s3 s2 p.w (by rw [ht3]; simp) h4 hnd2
  rw [ht3] at hq
  injection hq with hq _
  subst hq
  have etot : Eat s s' (t :: ign) := by simpa using ((e1.trans p.eat).trans e).trans (Eat.ofObsEq o2 e.w)
  refine ValOk.of_eat etot he (noEof_cons hne hall) (.enum t.data) ?_ (by simp [valueOk, hnk])
  rw [sig_cons_ignV t ign hni hall]
  exact TokIs.single t _ (by simp [astOfV, hk])

theorem nameValue_sound (c : Bool) (s s' : PState) (w : TW s) (he : EofEnd s) (t : Tok) (rest : List Tok)
    (ht : Toks s = t :: rest) (hk : t.kind = .name)
    (h : (peekToken >>= nameValueBranch).run s = .ok () s') (hnd : ¬ Doomed s') : ValOk c s s' := by
  have hni : isIgnoredKind t.kind = false := by rw [hk]; rfl
  have hne : t.kind ≠ .eof := by rw [hk]; decide
  obtain ⟨o, s1, h1, h2⟩ := bind_dec peekToken _ s s' () h
  have p := peekToken_obs s s1 o w h1
  have ho : o = some t := by have := p.head; rw [ht] at this; simpa using this
  subst ho
  have ht1 : Toks s1 = t :: rest := by rw [p.toks]; exact ht
  have he1 : EofEnd s1 := eofEnd_eat he p.eat (by intro x hx; cases hx)
  have hx : astOfV t = some (.name t.data) := by simp [astOfV, hk]
  refine ValOk.transfer ?_ p.toks
  unfold nameValueBranch at h2
  simp only [] at h2
  by_cases h_t : kw "true" t.data = true
  · simp only [h_t, if_true] at h2
    exact scalar_branch _ _ c s1 s' p.w he1 t rest ht1 hni hne (.bool true) _ hx
      (by simp [Ast.tValue, Ast.sTrue, kw_eq h_t]) rfl h2
  · simp only [h_t, Bool.false_eq_true, if_false] at h2
    by_cases h_f : kw "false" t.data = true
    · simp only [h_f, if_true] at h2
      exact scalar_branch _ _ c s1 s' p.w he1 t rest ht1 hni hne (.bool false) _ hx
        (by simp [Ast.tValue, Ast.sFalse, kw_eq h_f]) rfl h2
    · simp only [h_f, Bool.false_eq_true, if_false] at h2
      by_cases h_n : kw "null" t.data = true
      · simp only [h_n, if_true] at h2
        exact scalar_branch _ _ c s1 s' p.w he1 t rest ht1 hni hne .null _ hx
          (by simp [Ast.tValue, Ast.sNull, kw_eq h_n]) rfl h2
      · simp only [h_n, Bool.false_eq_true, if_false] at h2
        exact enumValue_sound c s1 s' p.w he1 t rest ht1 hk (by simp [isValueKeyword, h_t, h_f, h_n]) h2 hnd

theorem variableBranch_sound (c pp : Bool) (s s' : PState) (w : TW s) (he : EofEnd s) (t : Tok) (rest : List Tok)
    (ht : Toks s = t :: rest) (hk : t.kind = .dollar)
    (h : (variableBranch c pp).run s = .ok () s') (hnd : ¬ Doomed s') : ValOk c s s' := by
  have hni : isIgnoredKind t.kind = false := by rw [hk]; rfl
  have hne : t.kind ≠ .eof := by rw [hk]; decide
  unfold variableBranch at h
  cases c with
  | true =>
    exfalso
    simp only [if_true] at h
    obtain ⟨_, s1, h1, h2⟩ := bind_dec (valueErr pp) _ s s' () h
    have d1 := valueErr_dooms pp s s1 w (by rw [ht]; simp) h1
    have a1 := good_valueErr pp s () s1 w h1
    exact hnd ((good_variableNode s1 () s' a1.w h2).doom d1)
  | false =>
    simp only [Bool.false_eq_true, if_false] at h
    unfold variableNode at h
    obtain ⟨s1, s2, e1, h1, o2⟩ := withNode_peeked _ _ s s' () t rest w ht hni h
    have ht1 : Toks s1 = t :: rest := by have := e1.toks; rw [ht] at this; simpa using this.symm
    have hnd2 : ¬ Doomed s2 := fun d => hnd (o2.doomed.mpr d)
    obtain ⟨_, s3, h3, h4⟩ := bind_dec (bump "DOLLAR") _ s1 s2 () h1
    obtain ⟨ign1, eb, hall1, _⟩ := bump_spec "DOLLAR" s1 s3 e1.w t rest ht1 h3
    have he3 : EofEnd s3 := eofEnd_eat (eofEnd_eat he e1 (by intro x hx; cases hx)) eb (noEof_cons hne hall1)
    have hnd3 : ¬ Doomed s3 := fun d => hnd2 ((good_name s3 () s2 eb.w h4).doom d)
    obtain ⟨t2, rest2, ign2, hq2, hk2, e2, hall2⟩ := name_spec s3 s2 eb.w (eofEnd_nonempty s3 he3 hnd3) h4 hnd2
    have hni2 : isIgnoredKind t2.kind = false := by rw [hk2]; rfl
    have hne2 : t2.kind ≠ .eof := by rw [hk2]; decide
    have etot : Eat s s' ((t :: ign1) ++ (t2 :: ign2)) := by
      simpa using ((e1.trans eb).trans e2).trans (Eat.ofObsEq o2 e2.w)
    refine ValOk.of_eat etot he (noEof_append (noEof_cons hne hall1) (noEof_cons hne2 hall2)) (.var t2.data) ?_ (by simp [valueOk])
    rw [sig_append, sig_cons_ignV t ign1 hni hall1, sig_cons_ignV t2 ign2 hni2 hall2]
    exact TokIs.cons (by simp [astOfV, hk]) (TokIs.single t2 _ (by simp [astOfV, hk2]))

end Apollo.Parse
