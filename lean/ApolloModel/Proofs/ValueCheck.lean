import ApolloModel.Spec.ValueCheck
/-
C14 growth 3: `value_of_correct_type` (Model/ValueCheck.lean) pushes no diagnostic for a constant iff the
constant coerces to the type (Spec/ValueCheck.lean).
-/
namespace Apollo.ValueCheck
open Apollo.ValueCheck.Spec

/-! ### §5.6.3 and opaque literals -/

theorem uniqueDiags_nil_iff : ∀ (names seen : List Name),
    uniqueDiags seen names = [] ↔ (∀ n ∈ names, n ∉ seen) ∧ names.Nodup := by
  intro names
  induction names with
  | nil => intro seen; simp [uniqueDiags]
  | cons n rest ih =>
    intro seen
    unfold uniqueDiags
    rw [List.append_eq_nil_iff, ih]
    by_cases h : seen.contains n = true
    · have hm : n ∈ seen := by simpa using h
      simp [h, hm]
    · have hm : n ∉ seen := by simpa using h
      rw [if_neg h]
      simp only [true_and, List.mem_cons, forall_eq_or_imp, List.nodup_cons, List.mem_append,
        List.mem_singleton, not_or]
      constructor
      · intro ⟨h1, h2⟩
        exact ⟨⟨hm, fun x hx => (h1 x hx).1⟩, fun hx => (h1 n hx).2.1 rfl, h2⟩
      · intro ⟨⟨_, h1⟩, h2, h3⟩
        exact ⟨fun x hx => ⟨h1 x hx, fun (hxn : x = n) => h2 (hxn ▸ hx), List.not_mem_nil⟩, h3⟩

theorem uniqueDiags_iff (names : List Name) : uniqueDiags [] names = [] ↔ names.Nodup := by
  rw [uniqueDiags_nil_iff]; simp

mutual
theorem opaque_iff : ∀ (v : Value), opaqueDiags [] v = [] ↔ LiteralOK v
  | .int i => by simp [opaqueDiags]; exact .int i
  | .float b => by simp [opaqueDiags]; exact .float b
  | .string => by simp [opaqueDiags]; exact .string
  | .boolean => by simp [opaqueDiags]; exact .boolean
  | .null => by simp [opaqueDiags]; exact .null
  | .enum e => by simp [opaqueDiags]; exact .enum e
  | .variable n => by
    simp only [opaqueDiags, varDefined, List.any_nil, Bool.false_eq_true, if_false]
    constructor
    · intro h; cases h
    · intro h; cases h
  | .list vs => by
    simp only [opaqueDiags]
    rw [opaqueList_iff vs]
    constructor
    · intro h; exact .list vs h
    · intro h; cases h with | list _ h => exact h
  | .object fs => by
    simp only [opaqueDiags]
    rw [List.append_eq_nil_iff, uniqueDiags_iff, opaqueFields_iff fs]
    constructor
    · intro ⟨h1, h2⟩; exact .object fs h1 h2
    · intro h; cases h with | object _ h1 h2 => exact ⟨h1, h2⟩
theorem opaqueList_iff : ∀ (vs : Values), opaqueList [] vs = [] ↔ ∀ v ∈ vs.toList, LiteralOK v
  | .nil => by simp [opaqueList, Values.toList]
  | .cons v tl => by
    simp only [opaqueList, Values.toList, List.mem_cons, forall_eq_or_imp]
    rw [List.append_eq_nil_iff, opaque_iff v, opaqueList_iff tl]
theorem opaqueFields_iff : ∀ (fs : Fields), opaqueFields [] fs = [] ↔ ∀ p ∈ fs.toList, LiteralOK p.2
  | .nil => by simp [opaqueFields, Fields.toList]
  | .cons n v tl => by
    simp only [opaqueFields, Fields.toList, List.mem_cons, forall_eq_or_imp]
    rw [List.append_eq_nil_iff, opaque_iff v, opaqueFields_iff tl]
end


/-! ### values that are neither null nor a list see only the named type -/

def Plain (v : Value) : Prop := v ≠ .null ∧ ∀ vs, v ≠ .list vs

theorem check_plain (S : Schema) (vars : List VarDef) (ty : Ty) (v : Value) (hv : Plain v) :
    check S vars ty v = check S vars (.named ty.innerNamed) v := by
  cases v with
  | null => exact absurd rfl hv.1
  | list vs => exact absurd rfl (hv.2 vs)
  | int i => simp [check, Ty.innerNamed]
  | float b => simp [check, Ty.innerNamed]
  | string => simp [check, Ty.innerNamed]
  | boolean => simp [check, Ty.innerNamed]
  | enum e => simp [check, Ty.innerNamed]
  | «variable» n => simp [check, Ty.innerNamed, variableDiags]
  | object fs => simp [check, Ty.innerNamed]

/-- for a custom scalar, `Coerces` is `LiteralOK` -/
theorem coerces_custom_named {S : Schema} {n : Name} (hn : S.lookup n = some (.scalar false)) (v : Value) :
    Coerces S (.named n) v ↔ LiteralOK v := by
  constructor
  · intro h
    cases h with
    | null _ _ => exact .null
    | custom _ _ _ h => exact h
    | int i h => rw [hn] at h; cases h
    | floatOfInt i h => rw [hn] at h; cases h
    | float h => rw [hn] at h; cases h
    | string h => rw [hn] at h; cases h
    | boolean h => rw [hn] at h; cases h
    | idOfString h => rw [hn] at h; cases h
    | idOfInt i h => rw [hn] at h; cases h
    | enum _ values e h => rw [hn] at h; cases h
    | inputObject _ fields fs h => rw [hn] at h; cases h
  · intro h; exact .custom n v hn h

theorem coerces_nonNullNamed (S : Schema) (n : Name) (v : Value) :
    Coerces S (.nonNullNamed n) v ↔ v ≠ .null ∧ Coerces S (.named n) v := by
  constructor
  · intro h
    cases h with
    | null _ h => simp [Ty.isNonNull] at h
    | nonNullNamed _ _ h1 h2 => exact ⟨h1, h2⟩
  · intro ⟨h1, h2⟩; exact .nonNullNamed n v h1 h2

theorem coerces_plain (S : Schema) (v : Value) (hv : Plain v) : ∀ (ty : Ty),
    Coerces S ty v ↔ Coerces S (.named ty.innerNamed) v := by
  intro ty
  induction ty with
  | named n => rfl
  | nonNullNamed n =>
    simp only [Ty.innerNamed]
    rw [coerces_nonNullNamed]
    exact ⟨fun h => h.2, fun h => ⟨hv.1, h⟩⟩
  | list t ih =>
    simp only [Ty.innerNamed]
    rw [← ih]
    constructor
    · intro h
      cases h with
      | null _ _ => exact absurd rfl hv.1
      | listItems _ vs _ => exact absurd rfl (hv.2 vs)
      | listSingle _ _ _ _ h => exact h
    · intro h; exact .listSingle t v hv.1 hv.2 h
  | nonNullList t ih =>
    simp only [Ty.innerNamed]
    rw [← ih]
    constructor
    · intro h
      cases h with
      | null _ h => simp [Ty.isNonNull] at h
      | nonNullList _ _ _ h =>
        cases h with
        | null _ _ => exact absurd rfl hv.1
        | listItems _ vs _ => exact absurd rfl (hv.2 vs)
        | listSingle _ _ _ _ h => exact h
    · intro h; exact .nonNullList t v hv.1 (.listSingle t v hv.1 hv.2 h)


/-! ### custom scalars -/

theorem itemType_of_not_list (ty : Ty) (h : ty.isList = false) : ty.itemType = ty := by
  cases ty <;> simp_all [Ty.isList, Ty.itemType]

theorem literalOK_object (fs : Fields) :
    (uniqueDiags [] fs.names ++ opaqueFields [] fs = []) ↔ LiteralOK (.object fs) := by
  rw [List.append_eq_nil_iff, uniqueDiags_iff, opaqueFields_iff fs]
  constructor
  · intro ⟨h1, h2⟩; exact .object fs h1 h2
  · intro h; cases h with | object _ h1 h2 => exact ⟨h1, h2⟩

theorem check_custom (S : Schema) (n : Name) (hn : S.lookup n = some (.scalar false)) : ∀ (v : Value) (ty : Ty),
    ty.innerNamed = n → ty.isList = false → (check S [] ty v = [] ↔ (LiteralOK v ∧ (ty.isNonNull = true → v ≠ .null)))
  | .int i, ty, hi, _ => by simp [check, hi, hn, intDiags]; exact .int i
  | .float b, ty, hi, _ => by simp [check, hi, hn, floatDiags]; exact .float b
  | .string, ty, hi, _ => by simp [check, hi, hn, stringDiags]; exact .string
  | .boolean, ty, hi, _ => by simp [check, hi, hn, booleanDiags]; exact .boolean
  | .enum e, ty, hi, _ => by simp [check, hi, hn, enumDiags]; exact .enum e
  | .null, ty, hi, _ => by
    simp only [check, hi, hn]
    cases hnn : ty.isNonNull with
    | false => simp; exact .null
    | true => simp
  | .variable x, ty, hi, _ => by
    simp only [check, hi, hn, variableDiags, List.find?_nil]
    constructor
    · intro h; cases h
    · intro h; cases h.1
  | .list vs, ty, hi, hl => by
    simp only [check, hi, hn, hl, Bool.false_or, Bool.not_true, Bool.false_eq_true, if_false, Bool.not_false, if_true]
    rw [opaqueList_iff vs]
    constructor
    · intro h; exact ⟨.list vs h, fun _ => by simp⟩
    · intro h; cases h.1 with | list _ h => exact h
  | .object fs, ty, hi, _ => by
    simp only [check, hi, hn]
    rw [literalOK_object]
    exact ⟨fun h => ⟨h, fun _ => by simp⟩, fun h => h.1⟩

/-! ### scalar and enum literals against a named type -/

theorem inI32_iff (i : Int) : Num.inI32 i = true ↔ (-2147483648 ≤ i ∧ i ≤ 2147483647) := by
  simp [Num.inI32]

theorem check_named_int (S : Schema) (n : Name) (td : TypeDef) (i : Int) (hl : S.lookup n = some td)
    (hc : td ≠ .scalar false) : check S [] (.named n) (.int i) = [] ↔ Coerces S (.named n) (.int i) := by
  simp only [check, Ty.innerNamed, hl]
  constructor
  · intro h
    cases td with
    | scalar b =>
      cases b with
      | false => exact absurd rfl hc
      | true =>
        unfold intDiags at h
        by_cases h1 : n = "ID"
        · subst h1; exact .idOfInt i hl
        · by_cases h2 : n = "Int"
          · subst h2
            simp [inI32_iff] at h
            exact .int i hl h.1 h.2
          · by_cases h3 : n = "Float"
            · subst h3
              by_cases hf : intFitsF64 i = true
              · exact .floatOfInt i hl (of_decide_eq_true hf)
              · simp [hf] at h
            · simp [h1, h2, h3] at h
    | enum vs => simp [intDiags] at h
    | input fs => simp [intDiags] at h
    | other => simp [intDiags] at h
  · intro h
    cases h with
    | int _ h1 h2 h3 => rw [h1] at hl; cases hl; simp [intDiags, inI32_iff, h2, h3]
    | floatOfInt _ h1 h2 =>
      rw [h1] at hl; cases hl
      have hf : intFitsF64 i = true := decide_eq_true h2
      simp [intDiags, hf]
    | idOfInt _ h1 => rw [h1] at hl; cases hl; simp [intDiags]
    | custom _ _ h1 _ => rw [h1] at hl; cases hl; exact absurd rfl hc

theorem check_named_float (S : Schema) (n : Name) (td : TypeDef) (b : Bool) (hl : S.lookup n = some td)
    (hc : td ≠ .scalar false) : check S [] (.named n) (.float b) = [] ↔ Coerces S (.named n) (.float b) := by
  simp only [check, Ty.innerNamed, hl]
  constructor
  · intro h
    cases td with
    | scalar x =>
      cases x with
      | false => exact absurd rfl hc
      | true =>
        unfold floatDiags at h
        by_cases h1 : n = "Float"
        · subst h1
          cases b with
          | true => exact .float hl
          | false => simp at h
        · simp [h1] at h
    | enum vs => simp [floatDiags] at h
    | input fs => simp [floatDiags] at h
    | other => simp [floatDiags] at h
  · intro h
    cases h with
    | float h1 => rw [h1] at hl; cases hl; simp [floatDiags]
    | custom _ _ h1 _ => rw [h1] at hl; cases hl; exact absurd rfl hc

theorem check_named_string (S : Schema) (n : Name) (td : TypeDef) (hl : S.lookup n = some td)
    (hc : td ≠ .scalar false) : check S [] (.named n) .string = [] ↔ Coerces S (.named n) .string := by
  simp only [check, Ty.innerNamed, hl]
  constructor
  · intro h
    cases td with
    | scalar x =>
      cases x with
      | false => exact absurd rfl hc
      | true =>
        unfold stringDiags at h
        by_cases h1 : n = "String"
        · subst h1; exact .string hl
        · by_cases h2 : n = "ID"
          · subst h2; exact .idOfString hl
          · simp [h1, h2] at h
    | enum vs => simp [stringDiags] at h
    | input fs => simp [stringDiags] at h
    | other => simp [stringDiags] at h
  · intro h
    cases h with
    | string h1 => rw [h1] at hl; cases hl; simp [stringDiags]
    | idOfString h1 => rw [h1] at hl; cases hl; simp [stringDiags]
    | custom _ _ h1 _ => rw [h1] at hl; cases hl; exact absurd rfl hc

theorem check_named_boolean (S : Schema) (n : Name) (td : TypeDef) (hl : S.lookup n = some td)
    (hc : td ≠ .scalar false) : check S [] (.named n) .boolean = [] ↔ Coerces S (.named n) .boolean := by
  simp only [check, Ty.innerNamed, hl]
  constructor
  · intro h
    cases td with
    | scalar x =>
      cases x with
      | false => exact absurd rfl hc
      | true =>
        unfold booleanDiags at h
        by_cases h1 : n = "Boolean"
        · subst h1; exact .boolean hl
        · simp [h1] at h
    | enum vs => simp [booleanDiags] at h
    | input fs => simp [booleanDiags] at h
    | other => simp [booleanDiags] at h
  · intro h
    cases h with
    | boolean h1 => rw [h1] at hl; cases hl; simp [booleanDiags]
    | custom _ _ h1 _ => rw [h1] at hl; cases hl; exact absurd rfl hc

theorem check_named_enum (S : Schema) (n : Name) (td : TypeDef) (e : Name) (hl : S.lookup n = some td)
    (hc : td ≠ .scalar false) : check S [] (.named n) (.enum e) = [] ↔ Coerces S (.named n) (.enum e) := by
  simp only [check, Ty.innerNamed, hl]
  constructor
  · intro h
    cases td with
    | scalar x =>
      cases x with
      | false => exact absurd rfl hc
      | true => simp [enumDiags] at h
    | enum vs =>
      unfold enumDiags at h
      by_cases hm : vs.contains e = true
      · exact .enum n vs e hl (by simpa using hm)
      · change (if vs.contains e = true then [] else [Diag.undefinedEnumValue]) = [] at h
        rw [if_neg hm] at h; cases h
    | input fs => simp [enumDiags] at h
    | other => simp [enumDiags] at h
  · intro h
    cases h with
    | enum _ vs _ h1 h2 =>
      rw [h1] at hl; cases hl
      have : vs.contains e = true := by simpa using h2
      show (if vs.contains e = true then [] else [Diag.undefinedEnumValue]) = []
      rw [if_pos this]
    | custom _ _ h1 _ => rw [h1] at hl; cases hl; exact absurd rfl hc

theorem check_named_variable (S : Schema) (n : Name) (td : TypeDef) (x : Name) (hl : S.lookup n = some td)
    (hc : td ≠ .scalar false) : check S [] (.named n) (.variable x) = [] ↔ Coerces S (.named n) (.variable x) := by
  simp only [check, Ty.innerNamed, hl, variableDiags, List.find?_nil]
  constructor
  · intro h; cases h
  · intro h
    cases h with
    | custom _ _ h1 h2 => cases h2

theorem check_null (S : Schema) (ty : Ty) (hd : Defined S ty) : check S [] ty .null = [] ↔ Coerces S ty .null := by
  obtain ⟨td, hl, _⟩ := hd
  simp only [check, hl]
  constructor
  · intro h
    cases hnn : ty.isNonNull with
    | false => exact .null ty hnn
    | true => simp [hnn] at h
  · intro h
    cases h with
    | null _ h => simp [h]
    | nonNullNamed _ _ h _ => exact absurd rfl h
    | nonNullList _ _ h => exact absurd rfl h
    | listSingle _ _ h => exact absurd rfl h
    | custom _ _ _ _ => simp [Ty.isNonNull]


/-! ### object literals -/

/-- `obj.iter().find(|(n, _)| n == name)` -/
def Fields.first (name : Name) : Fields → Option Value
  | .nil => none
  | .cons n v tl => if n == name then some v else tl.first name

theorem hasNull_false_iff (name : Name) : ∀ (fs : Fields),
    fs.hasNull name = false ↔ ∀ p ∈ fs.toList, p.1 = name → p.2 ≠ .null
  | .nil => by simp [Fields.hasNull, Fields.toList]
  | .cons n v tl => by
    simp only [Fields.hasNull, Fields.toList, Bool.or_eq_false_iff, List.mem_cons, forall_eq_or_imp]
    rw [hasNull_false_iff name tl]
    have : (n == name && v.isNull) = false ↔ (n = name → v ≠ .null) := by
      cases v <;> simp [Value.isNull]
    rw [this]

theorem mem_names_of_mem : ∀ (fs : Fields) (p : Name × Value), p ∈ fs.toList → p.1 ∈ fs.names
  | .nil, p, h => by cases h
  | .cons n v tl, p, h => by
    simp only [Fields.toList, List.mem_cons] at h
    simp only [Fields.names, List.mem_cons]
    rcases h with h | h
    · left; rw [h]
    · right; exact mem_names_of_mem tl p h

theorem first_iff_mem (name : Name) (v : Value) : ∀ (fs : Fields), fs.names.Nodup →
    (fs.first name = some v ↔ (name, v) ∈ fs.toList)
  | .nil, _ => by simp [Fields.first, Fields.toList]
  | .cons n x tl, hnd => by
    simp only [Fields.names, List.nodup_cons] at hnd
    simp only [Fields.first, Fields.toList, List.mem_cons]
    by_cases hn : n = name
    · subst hn
      simp only [beq_self_eq_true, if_true]
      constructor
      · intro h; left; rw [Option.some.inj h]
      · intro h
        rcases h with h | h
        · rw [(Prod.mk.inj h).2]
        · exact absurd (mem_names_of_mem tl _ h) hnd.1
    · have hb : (n == name) = false := beq_eq_false_iff_ne.mpr hn
      rw [hb]
      simp only [Bool.false_eq_true, if_false]
      rw [first_iff_mem name v tl hnd.2]
      constructor
      · intro h; exact Or.inr h
      · intro h
        rcases h with h | h
        · exact absurd (Prod.mk.inj h).1.symm hn
        · exact h

theorem first_mem (name : Name) (v : Value) : ∀ (fs : Fields), fs.first name = some v → (name, v) ∈ fs.toList
  | .nil, h => by simp [Fields.first] at h
  | .cons n x tl, h => by
    simp only [Fields.first] at h
    simp only [Fields.toList, List.mem_cons]
    by_cases hn : n = name
    · subst hn
      simp only [beq_self_eq_true, if_true] at h
      left; rw [Option.some.inj h]
    · have hb : (n == name) = false := beq_eq_false_iff_ne.mpr hn
      rw [hb] at h
      exact Or.inr (first_mem name v tl h)

theorem undefinedFieldDiags_iff (fields : List InField) (names : List Name) :
    undefinedFieldDiags fields names = [] ↔ ∀ name ∈ names, ∃ f ∈ fields, f.name = name := by
  unfold undefinedFieldDiags
  cases hf : names.find? (fun n => !(fields.any (fun f => f.name == n))) with
  | some x =>
    simp only [reduceCtorEq, false_iff]
    intro h
    have hx := List.find?_some hf
    have hm := List.mem_of_find?_eq_some hf
    obtain ⟨f, hfm, hfn⟩ := h x hm
    simp only [Bool.not_eq_true', List.any_eq_false, beq_iff_eq] at hx
    exact hx f hfm hfn
  | none =>
    simp only [true_iff]
    intro name hname
    rw [List.find?_eq_none] at hf
    have := hf name hname
    simp only [Bool.not_eq_true', Bool.not_eq_false, List.any_eq_true, beq_iff_eq] at this
    exact this

theorem requiredDiags_iff (f : InField) (fs : Fields) :
    requiredDiags f fs = [] ↔ (InField.required f → f.name ∈ fs.names ∧ ∀ p ∈ fs.toList, p.1 = f.name → p.2 ≠ .null) := by
  unfold requiredDiags InField.required
  rw [← hasNull_false_iff]
  by_cases hr : (f.ty.isNonNull && !f.hasDefault) = true
  · have hr' : f.ty.isNonNull = true ∧ f.hasDefault = false := by simpa using hr
    by_cases hm : (!(fs.names.contains f.name) || fs.hasNull f.name) = true
    · simp only [hr, hm, Bool.and_self, if_true, reduceCtorEq, false_iff]
      intro h
      obtain ⟨h1, h2⟩ := h hr'
      simp [h1, h2] at hm
    · simp only [hr, hm, Bool.and_false, Bool.false_eq_true, if_false, true_iff]
      intro _
      simpa using hm
  · have : ¬ (f.ty.isNonNull = true ∧ f.hasDefault = false) := by simpa using hr
    simp only [hr, Bool.false_and, Bool.false_eq_true, if_false, true_iff]
    intro h; exact absurd h this

theorem defined_list {S : Schema} {t : Ty} (h : Defined S (.list t)) : Defined S t := h
theorem defined_nonNullList {S : Schema} {t : Ty} (h : Defined S (.nonNullList t)) : Defined S t := h

theorem plain_case (S : Schema) (v : Value) (hp : Plain v)
    (hnamed : ∀ n td, S.lookup n = some td → td.isInputType = true → td ≠ .scalar false →
      (check S [] (.named n) v = [] ↔ Coerces S (.named n) v)) :
    ∀ ty, Defined S ty → (check S [] ty v = [] ↔ Coerces S ty v) := by
  intro ty ⟨td, hl, hin⟩
  rw [check_plain S [] ty v hp, coerces_plain S v hp ty]
  by_cases hc : td = .scalar false
  · subst hc
    rw [check_custom S _ hl v (.named ty.innerNamed) rfl rfl, coerces_custom_named hl]
    exact ⟨fun h => h.1, fun h => ⟨h, fun hx => by simp [Ty.isNonNull] at hx⟩⟩
  · exact hnamed _ td hl hin hc


/-! ### the theorem -/

theorem not_custom_match (td : TypeDef) (hc : td ≠ .scalar false) :
    (match td with | .scalar false => true | _ => false) = false := by
  cases td with
  | scalar b => cases b with
    | false => exact absurd rfl hc
    | true => rfl
  | enum vs => rfl
  | input fs => rfl
  | other => rfl

mutual
theorem check_iff (S : Schema) (hS : Closed S) : ∀ (v : Value) (ty : Ty), Defined S ty →
    (check S [] ty v = [] ↔ Coerces S ty v)
  | .int i, ty, hd =>
    plain_case S (.int i) ⟨by simp, by simp⟩ (fun n td hl _ hc => check_named_int S n td i hl hc) ty hd
  | .float b, ty, hd =>
    plain_case S (.float b) ⟨by simp, by simp⟩ (fun n td hl _ hc => check_named_float S n td b hl hc) ty hd
  | .string, ty, hd =>
    plain_case S .string ⟨by simp, by simp⟩ (fun n td hl _ hc => check_named_string S n td hl hc) ty hd
  | .boolean, ty, hd =>
    plain_case S .boolean ⟨by simp, by simp⟩ (fun n td hl _ hc => check_named_boolean S n td hl hc) ty hd
  | .enum e, ty, hd =>
    plain_case S (.enum e) ⟨by simp, by simp⟩ (fun n td hl _ hc => check_named_enum S n td e hl hc) ty hd
  | .variable x, ty, hd =>
    plain_case S (.variable x) ⟨by simp, by simp⟩ (fun n td hl _ hc => check_named_variable S n td x hl hc) ty hd
  | .null, ty, hd => check_null S ty hd
  | .object fs, ty, hd => by
    refine plain_case S (.object fs) ⟨by simp, by simp⟩ ?_ ty hd
    intro n td hl hin hc
    simp only [check, Ty.innerNamed, hl]
    cases td with
    | scalar b =>
      cases b with
      | false => exact absurd rfl hc
      | true =>
        simp only [reduceCtorEq, false_iff]
        intro h
        cases h with
        | custom _ _ h1 _ => rw [h1] at hl; cases hl
        | inputObject _ fields _ h1 => rw [h1] at hl; cases hl
    | enum vs =>
      simp only [reduceCtorEq, false_iff]
      intro h
      cases h with
      | custom _ _ h1 _ => rw [h1] at hl; cases hl
      | inputObject _ fields _ h1 => rw [h1] at hl; cases hl
    | other => simp [TypeDef.isInputType] at hin
    | input fields =>
      have hfields : ∀ f ∈ fields, Defined S f.ty := hS n fields hl
      rw [List.append_eq_nil_iff, List.append_eq_nil_iff, uniqueDiags_iff, undefinedFieldDiags_iff, List.flatMap_eq_nil_iff]
      constructor
      · intro ⟨⟨hnd, hdef⟩, hall⟩
        refine .inputObject n fields fs hl hnd hdef ?_ ?_
        · intro f hf
          have := hall f hf
          rw [List.append_eq_nil_iff] at this
          exact (requiredDiags_iff f fs).mp this.1
        · intro p hp f hf hname
          have := hall f hf
          rw [List.append_eq_nil_iff] at this
          have hfirst := (checkFirst_iff S hS fs f.ty f.name (hfields f hf)).mp this.2
          apply hfirst
          rw [first_iff_mem f.name p.2 fs hnd, hname]
          exact hp
      · intro h
        cases h with
        | custom _ _ h1 _ => rw [h1] at hl; cases hl
        | inputObject _ fields' _ h1 hnd hdef hreq hco =>
          rw [h1] at hl
          have : fields' = fields := by cases hl; rfl
          subst this
          refine ⟨⟨hnd, hdef⟩, ?_⟩
          intro f hf
          rw [List.append_eq_nil_iff]
          refine ⟨(requiredDiags_iff f fs).mpr (hreq f hf), ?_⟩
          rw [checkFirst_iff S hS fs f.ty f.name (hfields f hf)]
          intro v hv
          exact hco (f.name, v) (first_mem f.name v fs hv) f hf rfl
  | .list vs, ty, hd => by
    obtain ⟨td, hl, hin⟩ := hd
    cases ty with
    | named n =>
      by_cases hc : td = .scalar false
      · subst hc
        have hl' : S.lookup n = some (.scalar false) := hl
        rw [check_custom S n hl' (.list vs) (.named n) rfl rfl, coerces_custom_named hl']
        exact ⟨fun h => h.1, fun h => ⟨h, fun _ => by simp⟩⟩
      · simp only [check, Ty.innerNamed] at hl ⊢
        simp only [hl, Ty.isList, Bool.false_or, not_custom_match td hc, Bool.not_false, if_true, reduceCtorEq, false_iff]
        intro h
        cases h with
        | custom _ _ h1 _ => rw [h1] at hl; exact hc (Option.some.inj hl).symm
    | nonNullNamed n =>
      by_cases hc : td = .scalar false
      · subst hc
        have hl' : S.lookup n = some (.scalar false) := hl
        rw [check_custom S n hl' (.list vs) (.nonNullNamed n) rfl rfl, coerces_nonNullNamed, coerces_custom_named hl']
        exact ⟨fun h => ⟨by simp, h.1⟩, fun h => ⟨h.2, fun _ => by simp⟩⟩
      · simp only [check, Ty.innerNamed] at hl ⊢
        simp only [hl, Ty.isList, Bool.false_or, not_custom_match td hc, Bool.not_false, if_true, reduceCtorEq, false_iff]
        intro h
        cases h with
        | nonNullNamed _ _ _ h =>
          cases h with
          | custom _ _ h1 _ => rw [h1] at hl; exact hc (Option.some.inj hl).symm
    | list t =>
      have hdt : Defined S t := ⟨td, hl, hin⟩
      simp only [check, Ty.innerNamed] at hl ⊢
      simp only [hl, Ty.isList, Bool.true_or, Bool.not_true, Bool.false_eq_true, if_false, hin, if_true, Ty.itemType]
      rw [checkItems_iff S hS vs t hdt]
      constructor
      · intro h; exact .listItems t vs h
      · intro h
        cases h with
        | listItems _ _ h => exact h
        | listSingle _ _ _ h => exact absurd rfl (h vs)
    | nonNullList t =>
      have hdt : Defined S t := ⟨td, hl, hin⟩
      simp only [check, Ty.innerNamed] at hl ⊢
      simp only [hl, Ty.isList, Bool.true_or, Bool.not_true, Bool.false_eq_true, if_false, hin, if_true, Ty.itemType]
      rw [checkItems_iff S hS vs t hdt]
      constructor
      · intro h; exact .nonNullList t (.list vs) (by simp) (.listItems t vs h)
      · intro h
        cases h with
        | nonNullList _ _ _ h =>
          cases h with
          | listItems _ _ h => exact h
          | listSingle _ _ _ h => exact absurd rfl (h vs)
theorem checkItems_iff (S : Schema) (hS : Closed S) : ∀ (vs : Values) (ty : Ty), Defined S ty →
    (checkItems S [] ty vs = [] ↔ ∀ v ∈ vs.toList, Coerces S ty v)
  | .nil, ty, _ => by simp [checkItems, Values.toList]
  | .cons v tl, ty, hd => by
    simp only [checkItems, Values.toList, List.mem_cons, forall_eq_or_imp]
    rw [List.append_eq_nil_iff, check_iff S hS v ty hd, checkItems_iff S hS tl ty hd]
theorem checkFirst_iff (S : Schema) (hS : Closed S) : ∀ (fs : Fields) (ty : Ty) (name : Name), Defined S ty →
    (checkFirst S [] ty name fs = [] ↔ ∀ v, fs.first name = some v → Coerces S ty v)
  | .nil, ty, name, _ => by simp [checkFirst, Fields.first]
  | .cons n x tl, ty, name, hd => by
    simp only [checkFirst, Fields.first]
    by_cases hn : (n == name) = true
    · simp only [hn, if_true]
      rw [check_iff S hS x ty hd]
      constructor
      · intro h v hv; rw [← Option.some.inj hv]; exact h
      · intro h; exact h x rfl
    · simp only [hn, if_false]
      exact checkFirst_iff S hS tl ty name hd
end

/-- **values of correct type**: `value_of_correct_type` pushes no diagnostic for the constant `v` at the input type
    `ty` iff `v` coerces to `ty` (schema whose input fields have defined input types) -/
theorem value_rule_iff_spec (S : Schema) (hS : Closed S) (ty : Ty) (hty : Defined S ty) (v : Value) :
    check S [] ty v = [] ↔ Coerces S ty v := check_iff S hS v ty hty

end Apollo.ValueCheck
