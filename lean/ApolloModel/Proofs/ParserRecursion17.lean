import ApolloModel.Proofs.ParserRecursion16
import ApolloModel.Proofs.ParserRecursion13
import ApolloModel.Proofs.ParserTermination8
/-
C04 growth (recursion limit across runs), part 17: every entry point of the parser — the parse with
recursion limit `r` against the parse of the same text with a limit that is never hit.
-/
set_option linter.unusedSimpArgs false
set_option linter.unusedVariables false
namespace Apollo.Parse
open Apollo.Rowan hiding Str
open Apollo.Lex hiding Str

theorem xs_of_xc {α : Type} {m : PI α} (h : XC anyTok m) : XS Fresh m :=
  fun s r R ar aR sr sR h1 h2 h3 g _ hr hR => h s r R ar aR sr sR h1 h2 h3 g trivial hr hR

theorem plain_expectEndOfInput : Plain expectEndOfInput := by
  unfold expectEndOfInput
  refine plain_bind _ _ plain_skipIgnored (fun _ => plain_bind _ _ plain_peek (fun k => ?_))
  unfold errUnlessEnd
  split
  · exact plain_pure _
  · exact plain_err

/-- the grammar of every entry point has the cross-run property from a fresh state -/
theorem xs_entry (e : Entry) (n : Nat) : XS Fresh (e.grammar n) := by
  cases e with
  | document => exact xs_of_xc (xg_document n).x
  | selectionSet => exact xs_selectionSetEntry n
  | type => exact xs_of_xc (xg_bind _ _ (xg_ty n) (fun _ => xg_of_plain plain_expectEndOfInput)).x

/-- the state an entry point starts in, limit left at 0 -/
def entryStart (e : Entry) (src : Str) : PState :=
  match e.standalone with
  | some (k, _) => { initState src none 0 with builder := (initState src none 0).builder.startNode k }
  | none => initState src none 0

theorem entryStart_inv (e : Entry) (src : Str) (L : Nat) : Inv (setL L (entryStart e src)) := by
  cases e <;>
  exact ⟨fun _ => by simp [setL, entryStart, Entry.standalone, initState, Builder.new, Builder.startNode, textList, pendingText, curText],
    fun p hp => by
      simp [setL, entryStart, Entry.standalone, initState, Builder.new, Builder.startNode] at hp
      try simp [hp, setL, entryStart, Entry.standalone, initState, Builder.new, Builder.startNode],
    fun h => by simp [setL, entryStart, Entry.standalone, initState] at h,
    fun t h => by simp [setL, entryStart, Entry.standalone, initState] at h,
    fun h => by simp [setL, entryStart, Entry.standalone, initState] at h⟩

theorem parse_entry_run (e : Entry) (L : Nat) (src : Str) :
    ∃ s, (e.grammar (fuelFor src)).run (setL L (entryStart e src)) = .ok () s ∧
      (parse e none L src).errors = s.errors ∧ (parse e none L src).recHigh = s.recHigh := by
  have hterm := fun w => parse_terminates e none L src w
  have hpost := (e.grammar (fuelFor src)).ok _ (entryStart_inv e src L)
  cases e with
  | document =>
    unfold parse runEntry at hterm ⊢
    simp only [Entry.standalone] at hterm ⊢
    have e0 : initState src none L = setL L (entryStart .document src) := rfl
    rw [e0] at hterm ⊢
    cases hr : (Entry.document.grammar (fuelFor src)).run (setL L (entryStart .document src)) with
    | abort w => simp [hr] at hterm
    | panic m => simp [hr, Post] at hpost
    | ok a s => exact ⟨s, rfl, rfl, rfl⟩
  | selectionSet =>
    unfold parse runEntry at hterm ⊢
    simp only [Entry.standalone] at hterm ⊢
    have e0 : ({ initState src none L with builder := (initState src none L).builder.startNode "SELECTION_SET" } : PState) =
        setL L (entryStart .selectionSet src) := rfl
    rw [e0] at hterm ⊢
    cases hr : (Entry.selectionSet.grammar (fuelFor src)).run (setL L (entryStart .selectionSet src)) with
    | abort w => simp [hr] at hterm
    | panic m => simp [hr, Post] at hpost
    | ok a s => exact ⟨s, rfl, rfl, rfl⟩
  | type =>
    unfold parse runEntry at hterm ⊢
    simp only [Entry.standalone] at hterm ⊢
    have e0 : ({ initState src none L with builder := (initState src none L).builder.startNode "NAMED_TYPE" } : PState) =
        setL L (entryStart .type src) := rfl
    rw [e0] at hterm ⊢
    cases hr : (Entry.type.grammar (fuelFor src)).run (setL L (entryStart .type src)) with
    | abort w => simp [hr] at hterm
    | panic m => simp [hr, Post] at hpost
    | ok a s => exact ⟨s, rfl, rfl, rfl⟩

/-- Every entry point: the parse with recursion limit `r` against the parse with a limit `R ≥ r` that is never
    hit (no token limit).  The limited high-water mark is `min (unlimited high-water mark) (r + 1)`, and a limit
    error is reported exactly when the unlimited parse went deeper than `r`. -/
theorem parse_cross (e : Entry) (r R : Nat) (src : Str) (hrR : r ≤ R) (hfree : (parse e none R src).recHigh ≤ R) :
    (parse e none r src).recHigh = min (parse e none R src).recHigh (r + 1) ∧
    (HasLim (parse e none r src).errors ↔ ((parse e none R src).recHigh > r ∨ HasLim (parse e none R src).errors)) := by
  obtain ⟨sr, hr, er1, er2⟩ := parse_entry_run e r src
  obtain ⟨sR, hR, eR1, eR2⟩ := parse_entry_run e R src
  rw [er1, er2, eR1, eR2]
  rw [eR2] at hfree
  have g : GI (entryStart e src) := by
    cases e <;> exact ⟨rfl, fun h => by simp [entryStart, Entry.standalone, initState] at h,
      fun h => by simp [entryStart, Entry.standalone, initState] at h⟩
  have hf : Fresh (entryStart e src) := by cases e <;> exact fun _ => rfl
  have hc0 : (entryStart e src).recCur ≤ r := by cases e <;> exact Nat.zero_le _
  have hh0 : (entryStart e src).recHigh ≤ r := by cases e <;> exact Nat.zero_le _
  rcases xs_entry e (fuelFor src) (entryStart e src) r R () () sr sR hrR hc0 hh0 g hf hr hR
    with ⟨t, e1, e2, _, th, _, _⟩ | ⟨d1, d2, d3⟩
  · subst e1 e2
    refine ⟨?_, ?_⟩
    · show t.recHigh = min t.recHigh (r + 1)
      omega
    · show HasLim t.errors ↔ (t.recHigh > r ∨ HasLim t.errors)
      constructor
      · exact Or.inr
      · rintro (h | h)
        · omega
        · exact h
  · exact ⟨by omega, ⟨fun _ => Or.inl (by omega), fun _ => d1⟩⟩

end Apollo.Parse
