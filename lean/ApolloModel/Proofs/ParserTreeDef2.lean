import ApolloModel.Proofs.ParserTreeDef1
/-
C08 growth (pipeline), stage (v), part 2: input value definitions and the lists of them (arguments definition,
input fields definition) — tree shapes, conversion, parser side; the generic braced list.
-/
set_option linter.unusedSimpArgs false
set_option linter.unusedVariables false
namespace Apollo.FromCst
open Apollo.Rowan Apollo.Ast
open Apollo.Parse (isJunk isJunkKind sigE nameNode)

variable {R : List Loc}

theorem nodeP_ty_ne {t : Ty} {e : Elem} (ht : TyTree t e) (K : SK) (hK : isTypeKind K = false) : nodeP (· == K) e = false := by
  obtain ⟨k, cs, rfl, hk⟩ := ht.kind
  rw [nodeP_node]
  cases hkk : (k == K) with
  | false => rfl
  | true =>
    have : k = K := by simpa using hkk
    subst this
    rw [hK] at hk; cases hk

/-- `INPUT_VALUE_DEFINITION[Description? NAME : Type DefaultValue? Directives?]` -/
def IvdTree (v : InputValueDef) (e : Elem) : Prop :=
  ∃ cs pre col ety pd td, e = .node "INPUT_VALUE_DEFINITION" cs ∧ isValidName v.name = true ∧ DescPre v.desc pre ∧
    TyTree v.ty ety ∧ DefaultPre v.default pd ∧ OptDirs v.dirs td ∧
    sigE cs = pre ++ nameNode v.name :: .tok "COLON" col :: ety :: (pd ++ td)

theorem ivdTree_nodeP {v : InputValueDef} {e : Elem} (h : IvdTree v e) : nodeP (· == "INPUT_VALUE_DEFINITION") e = true := by
  obtain ⟨cs, _, _, _, _, _, rfl, _⟩ := h; simp [nodeP_node]

macro "find_defs" : tactic => `(tactic|
  (simp [List.find?_cons, List.find?_append, nodeP_node, nodeP_tok, nameNode, *]))

theorem cInputValueDefinition_conv (n : Nat) (v : InputValueDef) (e : Elem) (h : IvdTree v e) (hs : size e ≤ n + 1) :
    ConvE (fun R => @cInputValueDefinition R n) v e := by
  obtain ⟨cs, pre, col, ety, pd, td, rfl, hvn, hpre, hty, hpd, htd, hsig⟩ := h
  obtain ⟨desc, name, ty, dflt, dirs⟩ := v
  simp only at hvn hpre hty hpd htd hsig
  intro R s hp
  have t1 := nodeP_ty_ne hty "DESCRIPTION" rfl
  have t2 := nodeP_ty_ne hty "NAME" rfl
  have t3 := nodeP_ty_ne hty "DEFAULT_VALUE" rfl
  have t4 := nodeP_ty_ne hty "DIRECTIVES" rfl
  have t5 := hty.nodeP
  have hfd : (sigE cs).find? (nodeP (· == "DEFAULT_VALUE")) = pd.head? := by
    rw [hsig]
    rcases descPre_kinds hpre with rfl | ⟨c1, rfl⟩ <;> rcases defaultPre_kinds hpd with rfl | ⟨c2, rfl⟩ <;>
      rcases optDirs_kinds htd with rfl | ⟨c3, rfl⟩ <;> find_defs
  obtain ⟨l1, hl1⟩ := defaultOf_conv n _ cs dflt pd hpd hfd (by intro e he; rw [hsig]; simp [he]) hs R s hp
  have hft : (sigE cs).find? (nodeP isTypeKind) = some ety := by
    rw [hsig]
    rcases descPre_kinds hpre with rfl | ⟨c1, rfl⟩ <;> find_defs <;> simp [isTypeKind]
  obtain ⟨l2, hl2⟩ := typeOf_conv n _ cs ty ety hty hft hs R s hp
  have hfde : (sigE cs).find? (nodeP (· == "DESCRIPTION")) = pre.head? := by
    rw [hsig]
    rcases descPre_kinds hpre with rfl | ⟨c1, rfl⟩ <;> rcases defaultPre_kinds hpd with rfl | ⟨c2, rfl⟩ <;>
      rcases optDirs_kinds htd with rfl | ⟨c3, rfl⟩ <;> find_defs
  obtain ⟨l3, hl3⟩ := descOf_conv _ cs desc pre hpre hfde R s hp
  have hfn : (sigE cs).find? (nodeP (· == "NAME")) = some (nameNode name) := by
    rw [hsig]; rcases descPre_kinds hpre with rfl | ⟨c1, rfl⟩ <;> find_defs
  obtain ⟨l4, hl4⟩ := nameOf_node _ cs name hvn hfn R s hp
  have hfdir : (sigE cs).find? (nodeP (· == "DIRECTIVES")) = td.head? := by
    rw [hsig]
    rcases descPre_kinds hpre with rfl | ⟨c1, rfl⟩ <;> rcases defaultPre_kinds hpd with rfl | ⟨c2, rfl⟩ <;>
      rcases optDirs_kinds htd with rfl | ⟨c3, rfl⟩ <;> find_defs
  obtain ⟨l5, hl5⟩ := directivesOf_conv n _ cs dirs td htd hfdir (by intro e he; rw [hsig]; simp [he]) hs R s hp
  refine ⟨l1 ++ (l2 ++ (l3 ++ (l4 ++ (l5 ++ [])))), ?_⟩
  show cInputValueDefinition n _ = _
  unfold cInputValueDefinition
  exact bind_ok hl1 (bind_ok hl2 (bind_ok hl3 (bind_ok hl4 (bind_ok hl5 (pure_ok _)))))

/-- a container of input value definitions: `K[open Ivd+ close]` -/
def IvdsNode (K osk csk : SK) (vs : List InputValueDef) (e : Elem) : Prop :=
  ∃ cs o c es, e = .node K cs ∧ sigE cs = .tok osk o :: (es ++ [.tok csk c]) ∧ All2 (fun e v => IvdTree v e) es vs

def OptIvds (K osk csk : SK) (vs : List InputValueDef) (tail : List Elem) : Prop :=
  (vs = [] ∧ tail = []) ∨ (∃ e, tail = [e] ∧ IvdsNode K osk csk vs e)

theorem optIvds_kinds {K osk csk : SK} {vs : List InputValueDef} {t : List Elem} (h : OptIvds K osk csk vs t) :
    t = [] ∨ ∃ c, t = [.node K c] := by
  rcases h with ⟨_, rfl⟩ | ⟨_, rfl, c, _, _, _, rfl, _⟩
  · exact Or.inl rfl
  · exact Or.inr ⟨c, rfl⟩

theorem inputValuesOf_conv (n : Nat) (K osk csk : SK) (k : SK) (cs : List Elem) (vs : List InputValueDef) (tail : List Elem)
    (hopt : OptIvds K osk csk vs tail) (hfind : (sigE cs).find? (nodeP (· == K)) = tail.head?)
    (hmem : ∀ e ∈ tail, e ∈ sigE cs) (hs : size (.node k cs) ≤ n + 2) :
    ConvE (fun R => @inputValuesOf R n K) vs (.node k cs) := by
  intro R s hp
  rcases hopt with ⟨rfl, rfl⟩ | ⟨ea, rfl, cs', o, c, es, rfl, hsig, hall⟩
  · have := childP_none (R := R) (· == K) k cs s hp (by rw [find_nodeP_sigE]; exact hfind)
    refine ⟨[], ?_⟩
    show inputValuesOf n K _ = _
    unfold inputValuesOf
    rw [child_eq_childP, this]; rfl
  · obtain ⟨s', h', hc⟩ := childP_some (R := R) (· == K) k cs s hp _ (by rw [find_nodeP_sigE]; exact hfind)
    have hfilter : cs'.filter (nodeP (· == "INPUT_VALUE_DEFINITION")) = es := by
      rw [filter_nodeP_sigE, hsig]
      simp [List.filter_cons, nodeP_tok, List.filter_append, all2_filter _ _ (fun a e h => ivdTree_nodeP h) es vs hall]
    have hmap := childrenP_map (R := R) (· == "INPUT_VALUE_DEFINITION") K cs' s' h'
    rw [hfilter] at hmap
    have hszs : sizeList es ≤ n + 1 := by
      have h1 := size_le_sizeList (mem_sigE (hmem (Elem.node K cs') (by simp)))
      have h2 : sizeList (sigE cs') ≤ sizeList cs' := sizeList_sigE_le cs'
      rw [hsig] at h2
      simp only [sizeList, sizeList_append, size] at h1 h2 hs
      omega
    have hconv := all2_conv (fun R => @cInputValueDefinition R n) IvdTree (n + 1)
      (fun a e h hsz => cInputValueDefinition_conv n a e h hsz) es vs hall hszs
    obtain ⟨l, hl⟩ := collectM_conv (R := R) (fun R => @cInputValueDefinition R n) _ es vs hmap hconv
    refine ⟨l, ?_⟩
    show inputValuesOf n K _ = _
    unfold inputValuesOf
    rw [child_eq_childP, hc]
    exact hl

end Apollo.FromCst

namespace Apollo.Parse
open Apollo.Rowan hiding Str
open Apollo.Lex hiding Str
open Apollo.FromCst (TyTree ValTree DescPre DefaultPre OptDirs DirsNode All2 IvdTree IvdsNode OptIvds)

/-- `open first-item item* close` -/
theorem tr_braced (openK : Kind) (openSk : SK) (closeK : Kind) (closeSk : SK) (hjo : isJunkKind openSk = false)
    (hjc : isJunkKind closeSk = false) (first : Option Kind → Bool) (p : Kind → Bool) (item : PI Unit)
    (Q : List Tok → List Elem → Prop) (hnio : isIgnoredKind openK = false) (hneo : openK ≠ .eof)
    (hnic : isIgnoredKind closeK = false) (hnec : closeK ≠ .eof)
    (hfirst : ∀ k, first k = true → ∃ kk, k = some kk ∧ p kk = true)
    (hitem : Tr AtEof (KindP p) item (fun _ => Q)) :
    Tr NoE (KindP (· == openK)) (bracedBody openSk first p item closeK closeSk)
      (fun _ cs e => ∃ (to tc : Tok) (c1 ci : List Tok) (e1 ei : List Elem), to.kind = openK ∧ tc.kind = closeK ∧
        cs = to :: (c1 ++ ci) ++ [tc] ∧ e = Elem.tok openSk to.data :: (e1 ++ ei) ++ [Elem.tok closeSk tc.data] ∧
        Q c1 e1 ∧ ItemsT Q ci ei) := by
  unfold bracedBody
  have gtail : Good (bracedTail p item closeK closeSk) :=
    good_bind _ _ (good_peekWhile _ (good_itemsBody p item hitem.1)) (fun _ => good_expect _ _)
  have hloop := tr_itemsWhile (E := AtEof) early_atEof (H := fun _ => True) p item Q hitem
  have hsel : Tr NoE (fun _ => True) (peek >>= fun k => if first k then (item >>= fun _ => bracedTail p item closeK closeSk)
      else (err >>= fun _ => bracedTail p item closeK closeSk))
      (fun _ cs e => ∃ (tc : Tok) (c1 ci : List Tok) (e1 ei : List Elem), tc.kind = closeK ∧ cs = (c1 ++ ci) ++ [tc] ∧
        e = (e1 ++ ei) ++ [Elem.tok closeSk tc.data] ∧ Q c1 e1 ∧ ItemsT Q ci ei) := by
    apply tr_peek
    intro k
    refine tr_ite _ (fun hk => ?_) (fun _ => tr_never (acc_err' _ gtail))
    obtain ⟨kk, rfl, hp⟩ := hfirst k hk
    have hit : Tr AtEof (fun q => True ∧ q.head?.map (·.kind) = some kk) item (fun _ => Q) :=
      hitem.mono (fun q hq => by
        cases hh : q.head? with
        | none => rw [hh] at hq; cases hq.2
        | some t => exact ⟨t, hh, by have := hq.2; rw [hh] at this; simp at this; rw [this]; exact hp⟩) (fun _ _ _ h => h)
    have h12 := tr_bind early_atEof hit (fun _ => hloop)
    have hc := tr_close closeK closeSk hjc hnic hnec h12
    unfold bracedTail
    refine (hc.of_run (fun s => run_assoc _ _ _ s)).mono (fun _ h => h) ?_
    rintro _ cs e ⟨_, c1, e1, t, rfl, rfl, hkt, _, x1, x2, y1, y2, rfl, rfl, hfirst', hitems⟩
    exact ⟨t, x1, x2, y1, y2, hkt, rfl, rfl, hfirst', hitems⟩
  have hb := tr_bind early_false (tr_bump (E := NoE) openSk hjo (fun t => t.kind = openK)
    (by intro t h; rw [h]; exact ⟨hnio, hneo⟩)) (fun _ => hsel)
  refine hb.mono (fun q ⟨t, h1, h2⟩ => ⟨t, h1, by simpa using h2⟩) ?_
  rintro _ cs e ⟨_, c1, c2, e1, e2, rfl, rfl, ⟨t, hk, _, rfl, rfl⟩, tc, x1, ci, y1, ei, hkc, rfl, rfl, hq1, hit⟩
  exact ⟨t, tc, x1, ci, y1, ei, hk, hkc, by simp, by simp, hq1, hit⟩

/-! ### input value definition -/

def IvdR (cs : List Tok) (e : List Elem) : Prop :=
  ∃ (v : Ast.InputValueDef) (ev : Elem), TokIs cs (Ast.tIVD v) ∧ Ast.wfDefault v.default = true ∧ dirsOk true v.dirs ∧
    e = [ev] ∧ IvdTree v ev

theorem tr_ivd (n : Nat) : Tr AtEof (KindP isNameOrStringK) (inputValueDefinition n) (fun _ => IvdR) := by
  rw [inputValueDefinition_eq]
  have hAfter : Tr AtEof (fun _ => True) (ivdAfterTy n) (fun _ cs e => ∃ (d : Option Ast.Value) (ds : List Ast.Directive)
      (pd td : List Elem), TokIs cs (Ast.tDefault d ++ Ast.tDirectives ds) ∧ Ast.wfDefault d = true ∧ dirsOk true ds ∧
        e = pd ++ td ∧ DefaultPre d pd ∧ OptDirs ds td) := by
    refine (tr_optKind early_atEof .eq (defaultValue n) (optDirsEnd n) _ _ (tr_defaultValueD n) (tr_optDirsEnd n)).mono (fun _ h => h) ?_
    rintro _ cs e ⟨c1, c2, e1, e2, rfl, rfl, h1, ds, hd1, hd2, hd3⟩
    rcases h1 with ⟨v, hv1, hv2, hv3⟩ | ⟨rfl, rfl⟩
    · exact ⟨some v, ds, e1, e2, hv1.append hd1, valueOk_wf true v hv2, hd2, rfl, hv3, hd3⟩
    · exact ⟨none, ds, [], e2, by simpa [Ast.tDefault] using hd1, rfl, hd2, rfl, Or.inl ⟨rfl, rfl⟩, hd3⟩
  have hType : Tr AtEof (fun _ => True) (ivdType n) (fun _ cs e => ∃ (t : Ast.Ty) (ety : Elem) (d : Option Ast.Value)
      (ds : List Ast.Directive) (pd td : List Elem), TokIs cs (Ast.tTy t ++ Ast.tDefault d ++ Ast.tDirectives ds) ∧
        Ast.wfDefault d = true ∧ dirsOk true ds ∧ e = ety :: (pd ++ td) ∧ TyTree t ety ∧ DefaultPre d pd ∧ OptDirs ds td) := by
    unfold ivdType
    refine tr_peekIf _ _ _ _ ?_ tr_err
    refine (tr_bind early_atEof (tr_ty n) (fun _ => hAfter)).mono (fun _ h => h) ?_
    rintro _ cs e ⟨_, c1, c2, e1, e2, rfl, rfl, ⟨t, e0, ht1, rfl, ht3⟩, d, ds, pd, td, h1, h2, h3, rfl, h5, h6⟩
    exact ⟨t, e0, d, ds, pd, td, by simpa [List.append_assoc] using ht1.append h1, h2, h3, rfl, ht3, h5, h6⟩
  have hColon : Tr AtEof (fun _ => True) (ivdColon n) (fun _ cs e => ∃ (tc : Tok) (t : Ast.Ty) (ety : Elem) (d : Option Ast.Value)
      (ds : List Ast.Directive) (pd td : List Elem), TokIs cs (.p .colon :: Ast.tTy t ++ Ast.tDefault d ++ Ast.tDirectives ds) ∧
        Ast.wfDefault d = true ∧ dirsOk true ds ∧ e = Elem.tok "COLON" tc.data :: ety :: (pd ++ td) ∧ TyTree t ety ∧
        DefaultPre d pd ∧ OptDirs ds td) := by
    unfold ivdColon
    have hb := tr_bind early_atEof (tr_bump (E := AtEof) "COLON" (by decide) (fun t => t.kind = .colon)
      (by intro t h; rw [h]; exact ⟨rfl, by decide⟩)) (fun _ => hType)
    refine (tr_ifKind .colon _ _ _ (hb.mono (fun q ⟨t, h1, h2⟩ => ⟨t, h1, by simpa using h2⟩) (fun _ _ _ h => h)) tr_err).mono
      (fun _ h => h) ?_
    rintro _ cs e ⟨_, c1, c2, e1, e2, rfl, rfl, ⟨tc, hk, _, rfl, rfl⟩, t, ety, d, ds, pd, td, h1, h2, h3, rfl, h5, h6, h7⟩
    exact ⟨tc, t, ety, d, ds, pd, td, TokIs.cons (by simp [astOfV, hk]) (by simpa [List.append_assoc] using h1), h2, h3, rfl, h5, h6, h7⟩
  have hName := tr_bind early_atEof (tr_name (E := AtEof) (H := fun _ => True)) (fun _ => hColon)
  have hBody := tr_optDesc early_atEof (H := KindP isNameOrStringK) _ _ hName
  refine (tr_withNode early_atEof "INPUT_VALUE_DEFINITION" (kindP_sig _ nameOrString_sig) hBody).mono (fun _ h => h) ?_
  rintro _ cs e ⟨inner, rfl, desc, c1, c2, pre, e2, rfl, hin, hd1, hd2, _, c3, c4, e3, e4, rfl, rfl,
    ⟨tn, hkn, hvn, rfl, rfl⟩, tc, t, ety, d, ds, pd, td, h1, h2, h3, rfl, h5, h6, h7⟩
  refine ⟨⟨desc, tn.data, t, d, ds⟩, _, ?_, h2, h3, rfl, inner, pre, tc.data, ety, pd, td, rfl, hvn, hd2, h5, h6, h7, by rw [hin]; rfl⟩
  have := hd1.append (TokIs.cons (t := tn) (x := .name tn.data) (by simp [astOfV, hkn]) h1)
  simpa [Ast.tIVD, List.append_assoc] using this

theorem itemsT_ivds : ∀ (cs : List Tok) (e : List Elem), ItemsT IvdR cs e →
    ∃ vs : List Ast.InputValueDef, TokIs cs (Ast.tIVDItems vs) ∧ Ast.wfIVDs vs = true ∧ All2 (fun e v => IvdTree v e) e vs := by
  rintro cs e ⟨items, rfl, rfl, hall⟩
  induction items with
  | nil => exact ⟨[], TokIs.nil, rfl, All2.nil⟩
  | cons i items ih =>
    obtain ⟨vs, h1, h2, h3⟩ := ih (fun j hj => hall j (List.mem_cons_of_mem _ hj))
    obtain ⟨v, ev, hv1, hv2, hv3, hv4, hv5⟩ := hall i List.mem_cons_self
    refine ⟨v :: vs, ?_, ?_, ?_⟩
    · simp only [List.map_cons, List.flatten_cons, Ast.tIVDItems]
      exact hv1.append h1
    · simp only [Ast.wfIVDs, Bool.and_eq_true]
      exact ⟨⟨hv2, wfDirs_of_dirsOk true _ hv3⟩, h2⟩
    · simp only [List.map_cons, List.flatten_cons, hv4]
      exact All2.cons hv5 h3

/-- a non-empty list of input value definitions between `open` and `close`, as one `K` node -/
def IvdsR (K osk csk : SK) (xo xc : Ast.Tok) (cs : List Tok) (e : List Elem) : Prop :=
  ∃ (vs : List Ast.InputValueDef) (ea : Elem), vs ≠ [] ∧ TokIs cs (xo :: Ast.tIVDItems vs ++ [xc]) ∧ Ast.wfIVDs vs = true ∧
    e = [ea] ∧ IvdsNode K osk csk vs ea

theorem tr_ivdsBody (n : Nat) (openK : Kind) (osk : SK) (closeK : Kind) (csk : SK) (xo xc : Ast.Tok)
    (hjo : isJunkKind osk = false) (hjc : isJunkKind csk = false)
    (hxo : ∀ t : Tok, t.kind = openK → astOfV t = some xo) (hnio : isIgnoredKind openK = false) (hneo : openK ≠ .eof)
    (hxc : ∀ t : Tok, t.kind = closeK → astOfV t = some xc) (hnic : isIgnoredKind closeK = false) (hnec : closeK ≠ .eof) :
    Tr NoE (KindP (· == openK)) (bracedBody osk isNameOrString isNameOrStringK (inputValueDefinition n) closeK csk)
      (fun _ cs e => ∃ (vs : List Ast.InputValueDef) (o c : Str) (es : List Elem), vs ≠ [] ∧
        TokIs cs (xo :: Ast.tIVDItems vs ++ [xc]) ∧ Ast.wfIVDs vs = true ∧
        e = Elem.tok osk o :: (es ++ [Elem.tok csk c]) ∧ All2 (fun e v => IvdTree v e) es vs) := by
  refine (tr_braced openK osk closeK csk hjo hjc isNameOrString isNameOrStringK (inputValueDefinition n) IvdR hnio hneo hnic hnec
    isNameOrString_first (tr_ivd n)).mono (fun _ h => h) ?_
  rintro _ cs e ⟨to, tc, c1, ci, e1, ei, hko, hkc, rfl, rfl, hq1, hit⟩
  obtain ⟨vs, h1, h2, h3⟩ := itemsT_ivds _ _ (itemsT_cons hq1 hit)
  refine ⟨vs, to.data, tc.data, e1 ++ ei, ?_, ?_, h2, rfl, h3⟩
  · rintro rfl
    obtain ⟨v, ev, _, _, _, rfl, _⟩ := hq1
    cases h3
  · have := (TokIs.cons (hxo to hko) h1).append (TokIs.single tc xc (hxc tc hkc))
    simpa using this

theorem tr_argumentsDefinition (n : Nat) :
    Tr NoE (KindP (· == .lParen)) (argumentsDefinition n)
      (fun _ => IvdsR "ARGUMENTS_DEFINITION" "L_PAREN" "R_PAREN" (.p .lParen) (.p .rParen)) := by
  unfold argumentsDefinition
  rw [argumentsDefinitionBody_eq]
  refine (tr_withNode early_false "ARGUMENTS_DEFINITION" (kindP_sig _ lParen_sig)
    (tr_ivdsBody n .lParen "L_PAREN" .rParen "R_PAREN" (.p .lParen) (.p .rParen) (by decide) (by decide)
      (by intro t ht; simp [astOfV, ht]) rfl (by decide) (by intro t ht; simp [astOfV, ht]) rfl (by decide))).mono (fun _ h => h) ?_
  rintro _ cs e ⟨inner, rfl, vs, o, c, es, hne, h1, h2, hin, h3⟩
  exact ⟨vs, _, hne, h1, h2, rfl, inner, o, c, es, rfl, hin, h3⟩

theorem tr_inputFieldsDefinition (n : Nat) :
    Tr NoE (KindP (· == .lCurly)) (inputFieldsDefinition n)
      (fun _ => IvdsR "INPUT_FIELDS_DEFINITION" "L_CURLY" "R_CURLY" (.p .lCurly) (.p .rCurly)) := by
  rw [inputFieldsDefinition_eq]
  refine (tr_withNode early_false "INPUT_FIELDS_DEFINITION" (kindP_sig _ lCurly_sig)
    (tr_ivdsBody n .lCurly "L_CURLY" .rCurly "R_CURLY" (.p .lCurly) (.p .rCurly) (by decide) (by decide)
      (by intro t ht; simp [astOfV, ht]) rfl (by decide) (by intro t ht; simp [astOfV, ht]) rfl (by decide))).mono (fun _ h => h) ?_
  rintro _ cs e ⟨inner, rfl, vs, o, c, es, hne, h1, h2, hin, h3⟩
  exact ⟨vs, _, hne, h1, h2, rfl, inner, o, c, es, rfl, hin, h3⟩

end Apollo.Parse
