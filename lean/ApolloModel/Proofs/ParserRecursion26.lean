import ApolloModel.Proofs.ParserRecursion25
/-
C04 growth (closed form of the nesting depth), part 26: the depth of a syntax tree and the judgement that ties
the recursion tracker to it.

`gd e` / `gdl es`: the nesting depth of the guarded constructs in a tree — a `SELECTION_SET` or `LIST_TYPE` node
costs one level, a `LIST_VALUE` with at least one item costs one level, an `OBJECT_FIELD` with its `:` costs one
level (its value is parsed under the guard); every other node costs nothing.

`GD m`: every completed run of `m` appends to the error list and to the builder's children, never lowers the
high-water mark, and — when it added no error, errors were being accepted and the limit was not hit — leaves
the high-water mark at exactly `max high (current + depth of what it added to the tree)`.
-/
set_option linter.unusedSimpArgs false
set_option linter.unusedVariables false
namespace Apollo.Parse
open Apollo.Rowan hiding Str
open Apollo.Lex hiding Str

def hasNode : List Elem → Bool
  | [] => false
  | .node _ _ :: _ => true
  | .tok _ _ :: es => hasNode es

def hasTok (k : SK) : List Elem → Bool
  | [] => false
  | .tok k' _ :: es => k' == k || hasTok k es
  | .node _ _ :: es => hasTok k es

/-- what a node of kind `k` costs, given "has a `:` token child", the depth `d` of its children and the depth `i`
    of its children counted as list items -/
def nodeDepth (k : SK) (hc : Bool) (d i : Nat) : Nat :=
  if k = "SELECTION_SET" ∨ k = "LIST_TYPE" then d + 1
  else if k = "LIST_VALUE" then i
  else if k = "OBJECT_FIELD" then (if hc then d + 1 else d)
  else d

mutual
  /-- nesting depth of the recursion-guarded constructs in a syntax tree -/
  def gd : Elem → Nat
    | .tok _ _ => 0
    | .node k cs => nodeDepth k (hasTok "COLON" cs) (gdl cs) (idl cs)
  def gdl : List Elem → Nat
    | [] => 0
    | e :: es => max (gd e) (gdl es)
  /-- the same for the children of a list value: every item (node) is parsed one level down -/
  def idl : List Elem → Nat
    | [] => 0
    | .tok _ _ :: es => idl es
    | .node k cs :: es => max (nodeDepth k (hasTok "COLON" cs) (gdl cs) (idl cs) + 1) (idl es)
end

theorem idl_node (k : SK) (cs es : List Elem) : idl (.node k cs :: es) = max (gd (.node k cs) + 1) (idl es) := by
  simp [idl, gd]

theorem idl_append (a b : List Elem) : idl (a ++ b) = max (idl a) (idl b) := by
  induction a with
  | nil => simp [idl]
  | cons e es ih =>
    cases e with
    | tok k t => simp only [List.cons_append, idl, ih]
    | node k cs => simp only [List.cons_append, idl, ih]; omega

/-- with a node among them, the items are one level deeper than their depth; without, they have no depth -/
theorem idl_eq (es : List Elem) : idl es = (if hasNode es then gdl es + 1 else 0) ∧ (hasNode es = false → gdl es = 0) := by
  induction es with
  | nil => simp [idl, hasNode, gdl]
  | cons e es ih =>
    cases e with
    | tok k t =>
      simp only [idl, hasNode, gdl, gd]
      refine ⟨by rw [ih.1]; split <;> simp_all, fun h => by rw [ih.2 h]; rfl⟩
    | node k cs =>
      refine ⟨?_, fun h => by simp [hasNode] at h⟩
      rw [idl_node]
      simp only [hasNode, if_true, gdl]
      rw [ih.1]
      split
      · omega
      · rename_i h
        have := ih.2 (by simpa using h)
        omega

theorem gdl_append (a b : List Elem) : gdl (a ++ b) = max (gdl a) (gdl b) := by
  induction a with
  | nil => simp [gdl]
  | cons e es ih => simp only [List.cons_append, gdl, ih]; omega

theorem gdl_tok (k : SK) (t : Rowan.Str) : gdl [Elem.tok k t] = 0 := by simp [gdl, gd]

theorem gdl_single (e : Elem) : gdl [e] = gd e := by simp [gdl]

theorem gdl_pending (ps : List Pending) : gdl (ps.map pendingElem) = 0 := by
  induction ps with
  | nil => rfl
  | cons p ps ih =>
    cases p <;> simp only [List.map_cons, gdl, pendingElem, gd, ih] <;> omega

theorem hasNode_append (a b : List Elem) : hasNode (a ++ b) = (hasNode a || hasNode b) := by
  induction a with
  | nil => simp [hasNode]
  | cons e es ih => cases e <;> simp [hasNode, ih]

theorem hasTok_append (k : SK) (a b : List Elem) : hasTok k (a ++ b) = (hasTok k a || hasTok k b) := by
  induction a with
  | nil => simp [hasTok]
  | cons e es ih => cases e <;> simp [hasTok, ih, Bool.or_assoc]

theorem hasNode_pending (ps : List Pending) : hasNode (ps.map pendingElem) = false := by
  induction ps with
  | nil => rfl
  | cons p ps ih => cases p <;> simp [hasNode, pendingElem, ih]

/-- a node kind that costs nothing -/
def PlainKind (k : SK) : Prop := k ≠ "SELECTION_SET" ∧ k ≠ "LIST_TYPE" ∧ k ≠ "LIST_VALUE" ∧ k ≠ "OBJECT_FIELD"

instance (k : SK) : Decidable (PlainKind k) := by unfold PlainKind; infer_instance

theorem gd_plain {k : SK} (h : PlainKind k) (cs : List Elem) : gd (.node k cs) = gdl cs := by
  obtain ⟨h1, h2, h3, h4⟩ := h
  simp [gd, nodeDepth, h1, h2, h3, h4]

theorem gd_listValue (cs : List Elem) : gd (.node "LIST_VALUE" cs) = idl cs := by
  simp [gd, nodeDepth]

theorem gd_objectField (cs : List Elem) :
    gd (.node "OBJECT_FIELD" cs) = if hasTok "COLON" cs then gdl cs + 1 else gdl cs := by
  simp [gd, nodeDepth]

theorem gd_guard {k : SK} (h : k = "SELECTION_SET" ∨ k = "LIST_TYPE") (cs : List Elem) : gd (.node k cs) = gdl cs + 1 := by
  simp [gd, nodeDepth, h]

/-! ### the judgements -/

/-- the part that holds for every run -/
structure GWOut (s s' : PState) (extra : List PErr) (added : List Elem) : Prop where
  errs : s'.errors = s.errors ++ extra
  kids : s'.builder.children = s.builder.children ++ added
  mono : s.recHigh ≤ s'.recHigh
  acc : extra = [] → s'.acceptErrors = s.acceptErrors

structure GW {α : Type} (m : PI α) : Prop where
  w : ∀ s a s', Inv s → m.run s = .ok a s' → ∃ extra added, GWOut s s' extra added

/-- error-free, accepting, not hit: the high-water mark is the depth of what was added -/
def Exact (s s' : PState) (extra : List PErr) (added : List Elem) (off : Nat) : Prop :=
  extra = [] → s.acceptErrors = true → s'.recHigh ≤ s.recLimit → s.recCur ≤ s.recHigh →
    s'.recHigh = max s.recHigh (s.recCur + gdl added + off)

structure GD {α : Type} (m : PI α) : Prop where
  g : ∀ s a s', Inv s → m.run s = .ok a s' → ∃ extra added, GWOut s s' extra added ∧ Exact s s' extra added 0

/-- under a recursion guard: one level more -/
structure GD1 {α : Type} (m : PI α) : Prop where
  g : ∀ s a s', Inv s → m.run s = .ok a s' → ∃ extra added, GWOut s s' extra added ∧ Exact s s' extra added 1

/-- all tokens -/
def AllTok (es : List Elem) : Prop := ∀ e ∈ es, ∃ k t, e = Elem.tok k t

/-- adds only tokens to the tree and leaves the tracker alone -/
structure TKS {α : Type} (m : PI α) : Prop where
  z : ∀ s a s', Inv s → m.run s = .ok a s' → ∃ added, s'.builder.children = s.builder.children ++ added ∧ AllTok added ∧
    s'.recHigh = s.recHigh

theorem allTok_gdl {es : List Elem} (h : AllTok es) : gdl es = 0 := by
  induction es with
  | nil => rfl
  | cons e es ih =>
    obtain ⟨k, t, rfl⟩ := h e (by simp)
    simp only [gdl, gd, ih (fun x hx => h x (by simp [hx]))]
    rfl

theorem allTok_idl {es : List Elem} (h : AllTok es) : idl es = 0 := by
  induction es with
  | nil => rfl
  | cons e es ih =>
    obtain ⟨k, t, rfl⟩ := h e (by simp)
    simp only [idl, ih (fun x hx => h x (by simp [hx]))]

theorem allTok_hasNode {es : List Elem} (h : AllTok es) : hasNode es = false := by
  induction es with
  | nil => rfl
  | cons e es ih =>
    obtain ⟨k, t, rfl⟩ := h e (by simp)
    simp only [hasNode, ih (fun x hx => h x (by simp [hx]))]

theorem allTok_append {a b : List Elem} (ha : AllTok a) (hb : AllTok b) : AllTok (a ++ b) := by
  intro e he
  rcases List.mem_append.mp he with h | h
  · exact ha e h
  · exact hb e h

theorem allTok_pending (ps : List Pending) : AllTok (ps.map pendingElem) := by
  intro e he
  obtain ⟨p, _, rfl⟩ := List.mem_map.mp he
  cases p <;> exact ⟨_, _, rfl⟩

theorem gw_of_gd {α : Type} {m : PI α} (h : GD m) : GW m :=
  ⟨fun s a s' hi hr => by obtain ⟨e, a', w, _⟩ := h.g s a s' hi hr; exact ⟨e, a', w⟩⟩

theorem post_of_run {α : Type} (m : PI α) (s : PState) (hi : Inv s) (a : α) (s' : PState) (h : m.run s = .ok a s') :
    Inv s' ∧ Frame s s' := by
  have := m.ok s hi
  simp only [h, Post] at this
  exact this

theorem gd_pure {α : Type} (a : α) : GD (pure a : PI α) := by
  constructor
  intro s a' s' _ h
  rw [run_pure] at h
  injection h with _ h
  subst h
  exact ⟨[], [], ⟨by simp, by simp, Nat.le_refl _, fun _ => rfl⟩, fun _ _ _ hc => by simp [gdl]; omega⟩

theorem gd_bind {α β : Type} (m : PI α) (f : α → PI β) (hm : GD m) (hf : ∀ a, GD (f a)) : GD (m >>= f) := by
  constructor
  intro s b s'' hi h
  obtain ⟨a, s', h1, h2⟩ := bind_dec m f s s'' b h
  obtain ⟨hi', fr⟩ := post_of_run m s hi a s' h1
  obtain ⟨e1, a1, w1, x1⟩ := hm.g s a s' hi h1
  obtain ⟨e2, a2, w2, x2⟩ := (hf a).g s' b s'' hi' h2
  refine ⟨e1 ++ e2, a1 ++ a2, ⟨by rw [w2.errs, w1.errs, List.append_assoc], by rw [w2.kids, w1.kids, List.append_assoc],
    Nat.le_trans w1.mono w2.mono, fun he => ?_⟩, ?_⟩
  · obtain ⟨he1, he2⟩ := List.append_eq_nil_iff.mp he
    rw [w2.acc he2, w1.acc he1]
  · intro he ha hh hc
    obtain ⟨he1, he2⟩ := List.append_eq_nil_iff.mp he
    have r1 := x1 he1 ha (Nat.le_trans w2.mono hh) hc
    have hh2 : s''.recHigh ≤ s'.recLimit := by rw [fr.recLimit]; exact hh
    have r2 := x2 he2 (by rw [w1.acc he1]; exact ha) hh2 (by rw [fr.recCur]; exact Nat.le_trans hc w1.mono)
    rw [r2, r1, fr.recCur, gdl_append]
    omega

theorem gd_ite {α : Type} (c : Bool) (a b : PI α) (ha : GD a) (hb : GD b) : GD (if c then a else b) := by
  cases c <;> simp [ha, hb]

/-- a primitive that touches neither the tree, nor the errors, nor the tracker -/
theorem gd_same {α : Type} {m : PI α}
    (h : ∀ s a s', m.run s = .ok a s' → s'.builder.children = s.builder.children ∧ s'.errors = s.errors ∧
      s'.acceptErrors = s.acceptErrors ∧ s'.recHigh = s.recHigh) : GD m := by
  constructor
  intro s a s' _ hr
  obtain ⟨h1, h2, h3, h4⟩ := h s a s' hr
  exact ⟨[], [], ⟨by simp [h2], by simp [h1], by omega, fun _ => h3⟩, fun _ _ _ hc => by simp [gdl, h4]; omega⟩

/-- a primitive that only adds depth-free elements to the tree -/
theorem gd_flat {α : Type} {m : PI α}
    (h : ∀ s a s', m.run s = .ok a s' → (∃ added, s'.builder.children = s.builder.children ++ added ∧ gdl added = 0) ∧
      s'.errors = s.errors ∧ s'.acceptErrors = s.acceptErrors ∧ s'.recHigh = s.recHigh) : GD m := by
  constructor
  intro s a s' _ hr
  obtain ⟨⟨added, h1, h0⟩, h2, h3, h4⟩ := h s a s' hr
  exact ⟨[], added, ⟨by simp [h2], h1, by omega, fun _ => h3⟩, fun _ _ _ hc => by rw [h0, h4]; omega⟩

theorem gd_outOfFuel {α : Type} : GD (PI.outOfFuel : PI α) := ⟨fun s a s' _ h => by simp [PI.outOfFuel] at h⟩
theorem gd_stuck {α : Type} : GD (PI.stuck : PI α) := ⟨fun s a s' _ h => by simp [PI.stuck] at h⟩

/-- `next_token`: errors are appended; if none was, `accept_errors` is as before -/
theorem nextTokenRaw_errs : ∀ (fuel : Nat) (s : PState), ∃ extra, (nextTokenRaw fuel s).2.errors = s.errors ++ extra ∧
    (extra = [] → (nextTokenRaw fuel s).2.acceptErrors = s.acceptErrors ∧ (nextTokenRaw fuel s).2.pending = s.pending)
  | 0, s => ⟨[], by simp [nextTokenRaw], fun _ => by simp [nextTokenRaw]⟩
  | fuel + 1, s => by
    unfold nextTokenRaw
    cases hl : lexNext s.lx with
    | mk o l' =>
      cases o with
      | none => exact ⟨[], by simp, fun _ => ⟨rfl, rfl⟩⟩
      | some out =>
        cases out with
        | tok t => exact ⟨[], by simp, fun _ => ⟨rfl, rfl⟩⟩
        | err d i =>
          simp only []
          obtain ⟨ex, h1, _⟩ := nextTokenRaw_errs fuel { s with
            lx := l', pending := if d.isEmpty then s.pending else s.pending ++ [.error d],
            errors := s.errors ++ [⟨i, utf8Len d, .lexer⟩] }
          exact ⟨[⟨i, utf8Len d, .lexer⟩] ++ ex, by rw [h1]; simp, fun h => by simp at h⟩
        | limit i =>
          simp only []
          obtain ⟨ex, h1, _⟩ := nextTokenRaw_errs fuel { s with lx := l', acceptErrors := false, errors := s.errors ++ [⟨i, 0, .limit⟩] }
          exact ⟨[⟨i, 0, .limit⟩] ++ ex, by rw [h1]; simp, fun h => by simp at h⟩

/-- `peek_token` that records no error leaves the pending list alone -/
theorem peekToken_pending (s s' : PState) (o : Option Tok) (h : peekToken.run s = .ok o s') (he : s'.errors = s.errors) :
    s'.pending = s.pending := by
  unfold peekToken at h
  simp only [] at h
  cases hc : s.current with
  | some t => simp only [hc, Res.ok.injEq] at h; obtain ⟨_, rfl⟩ := h; rfl
  | none =>
    simp only [hc, Res.ok.injEq] at h
    obtain ⟨_, rfl⟩ := h
    obtain ⟨ex, h1, h2⟩ := nextTokenRaw_errs (s.lx.src.length + 3) s
    have hx : ex = [] := by
      have : (nextTokenRaw (s.lx.src.length + 3) s).2.errors = s.errors := he
      rw [h1] at this
      exact List.self_eq_append_right.mp this.symm
    exact (h2 hx).2

theorem gd_peekToken : GD peekToken := by
  constructor
  intro s o s' _ h
  have hp := plain_peekToken.out s o s' h
  unfold peekToken at h
  simp only [] at h
  cases hc : s.current with
  | some t =>
    simp only [hc, Res.ok.injEq] at h
    obtain ⟨_, rfl⟩ := h
    exact ⟨[], [], ⟨by simp, by simp, Nat.le_refl _, fun _ => rfl⟩, fun _ _ _ hc => by simp [gdl]; omega⟩
  | none =>
    simp only [hc, Res.ok.injEq] at h
    obtain ⟨_, rfl⟩ := h
    obtain ⟨ex, h1, h2⟩ := nextTokenRaw_errs (s.lx.src.length + 3) s
    have hb := (nextTokenRaw_spec (s.lx.src.length + 3) s).builder
    exact ⟨ex, [], ⟨h1, by show (nextTokenRaw (s.lx.src.length + 3) s).2.builder.children = _; simp [hb], by rw [hp.recHigh]; exact Nat.le_refl _, fun x => (h2 x).1⟩,
      fun _ _ _ hc => by rw [hp.recHigh]; simp [gdl]; omega⟩

theorem gd_moveCurToPending : GD moveCurToPending := by
  refine gd_same ?_
  intro s b s' h
  unfold moveCurToPending at h
  simp only [] at h
  cases hc : s.current with
  | none => simp only [hc] at h; injection h with _ h; subst h; exact ⟨rfl, rfl, rfl, rfl⟩
  | some t => simp only [hc] at h; split at h <;> (injection h with _ h; subst h; exact ⟨rfl, rfl, rfl, rfl⟩)

theorem gd_srcLen : GD srcLen :=
  gd_same (fun s a s' h => by unfold srcLen at h; simp only [] at h; injection h with _ h; subst h; exact ⟨rfl, rfl, rfl, rfl⟩)

theorem gd_getCurrent : GD getCurrent :=
  gd_same (fun s a s' h => by unfold getCurrent at h; simp only [] at h; injection h with _ h; subst h; exact ⟨rfl, rfl, rfl, rfl⟩)

theorem gd_pushIgnored : GD pushIgnored :=
  gd_flat (fun s a s' h => by
    unfold pushIgnored at h; simp only [] at h; injection h with _ h; subst h
    exact ⟨⟨_, rfl, gdl_pending _⟩, rfl, rfl, rfl⟩)

theorem gd_moveCurToTree (kind : SK) : GD (moveCurToTree kind) := by
  refine gd_flat ?_
  intro s a s' h
  unfold moveCurToTree at h
  simp only [] at h
  cases hc : s.current with
  | none => simp only [hc] at h; injection h with _ h; subst h; exact ⟨⟨[], by simp, rfl⟩, rfl, rfl, rfl⟩
  | some t =>
    simp only [hc] at h; injection h with _ h; subst h
    exact ⟨⟨s.pending.map pendingElem ++ [.tok kind t.data], by simp [List.append_assoc],
      by rw [gdl_append, gdl_pending, gdl_tok]; rfl⟩, rfl, rfl, rfl⟩

theorem gd_popDrop : GD popDrop := by
  refine gd_same ?_
  intro s a s' h
  unfold popDrop at h
  simp only [] at h
  cases hc : s.current with
  | none => simp only [hc] at h; injection h with _ h; subst h; exact ⟨rfl, rfl, rfl, rfl⟩
  | some t => simp only [hc] at h; injection h with _ h; subst h; exact ⟨rfl, rfl, rfl, rfl⟩

theorem gd_peekTokenN (n : Nat) : GD (peekTokenN n) :=
  gd_same (fun s a s' h => by unfold peekTokenN at h; simp only [] at h; injection h with _ h; subst h; exact ⟨rfl, rfl, rfl, rfl⟩)

theorem gd_assertRecZero : GD assertRecZero :=
  gd_same (fun s a s' h => by unfold assertRecZero at h; simp only [] at h; injection h with _ h; subst h; exact ⟨rfl, rfl, rfl, rfl⟩)

theorem gd_pushErr (e : PErr) : GD (pushErr e) := by
  constructor
  intro s a s' _ h
  unfold pushErr errUpdate at h
  simp only [] at h
  injection h with _ h
  subst h
  by_cases ha : s.acceptErrors = true
  · refine ⟨[e], [], ⟨by simp [ha], by simp, Nat.le_refl _, fun x => by cases x⟩, fun x => by cases x⟩
  · have ha' : s.acceptErrors = false := by simpa using ha
    exact ⟨[], [], ⟨by simp [ha'], by simp, Nat.le_refl _, fun _ => rfl⟩, fun _ _ _ hc => by simp [gdl]; omega⟩

/-- `limit_err` (the `on_limit` branch): only the part that holds for every run -/
theorem gw_limitErr : GW limitErr := by
  constructor
  intro s a s' hi h
  unfold limitErr at h
  obtain ⟨o, s1, h1, h2⟩ := bind_dec peekToken _ s s' () h
  obtain ⟨e1, a1, w1, _⟩ := gd_peekToken.g s o s1 hi h1
  cases o with
  | none =>
    simp only [] at h2
    rw [run_pure] at h2
    injection h2 with _ h2
    subst h2
    exact ⟨e1, a1, w1⟩
  | some t =>
    simp only [] at h2
    unfold errUpdate at h2
    simp only [] at h2
    injection h2 with _ h2
    subst h2
    by_cases ha : s1.acceptErrors = true
    · refine ⟨e1 ++ [⟨t.index, 0, .limit⟩], a1, ⟨by simp [ha, w1.errs], w1.kids, w1.mono, fun x => by simp at x⟩⟩
    · have ha' : s1.acceptErrors = false := by simpa using ha
      refine ⟨e1, a1, ⟨by simp [ha', w1.errs], w1.kids, w1.mono, fun x => ?_⟩⟩
      have := w1.acc x
      show false = s.acceptErrors
      rw [← this, ha']

theorem gw_bind_pure {α : Type} (a : α) : GW (limitErr >>= fun _ => (pure a : PI α)) := by
  constructor
  intro s b s'' hi h
  obtain ⟨u, s', h1, h2⟩ := bind_dec limitErr _ s s'' b h
  rw [run_pure] at h2
  injection h2 with _ h2
  subst h2
  exact gw_limitErr.w s u s' hi h1

/-! ### the recursion guard: one level -/

theorem gd1_withRec {α : Type} (onLimit body : PI α) (hl : GW onLimit) (hb : GD body) : GD1 (withRec onLimit body) := by
  constructor
  intro s a s' hi h
  rcases withRec_decH onLimit body s s' a h with ⟨hover, hrun⟩ | ⟨hunder, s2, hrun, hs'⟩
  · have hi0 : Inv { s with recHigh := max s.recHigh (s.recCur + 1) } := ⟨hi.text, hi.parents, hi.lexDone, hi.eofTok, hi.errNonempty⟩
    obtain ⟨e, ad, w⟩ := hl.w _ a s' hi0 hrun
    refine ⟨e, ad, ⟨w.errs, w.kids, Nat.le_trans (Nat.le_max_left _ _) w.mono, w.acc⟩, ?_⟩
    intro _ _ hh _
    exfalso
    have h1 := w.mono
    have h2 : s.recCur + 1 ≤ max s.recHigh (s.recCur + 1) := Nat.le_max_right _ _
    have h3 : max s.recHigh (s.recCur + 1) ≤ s'.recHigh := h1
    have h4 : s.recCur + 1 > s.recLimit := hover
    omega
  · subst hs'
    have hi0 : Inv { s with recCur := s.recCur + 1, recHigh := max s.recHigh (s.recCur + 1) } :=
      ⟨hi.text, hi.parents, hi.lexDone, hi.eofTok, hi.errNonempty⟩
    obtain ⟨e, ad, w, x⟩ := hb.g _ a s2 hi0 hrun
    refine ⟨e, ad, ⟨w.errs, w.kids, Nat.le_trans (Nat.le_max_left _ _) w.mono, w.acc⟩, ?_⟩
    intro he ha hh hc
    have r := x he ha hh (by show s.recCur + 1 ≤ max s.recHigh (s.recCur + 1); exact Nat.le_max_right _ _)
    show s2.recHigh = max s.recHigh (s.recCur + gdl ad + 1)
    rw [r]
    show max (max s.recHigh (s.recCur + 1)) (s.recCur + 1 + gdl ad + 0) = _
    omega

end Apollo.Parse
