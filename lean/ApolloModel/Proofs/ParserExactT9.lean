import ApolloModel.Proofs.ParserExactT8
/-
Exact soundness for the type-system family, part 9: extensions.  `directives` entered on `@` yields a NON-EMPTY list;
the two keywords `extend <kw>`; `Directives? Body?` with the `meets` flag; `scalar`, `enum`, `input` extensions in the
`DefSound` shape of ParserExactS14.
-/
set_option linter.unusedSimpArgs false
namespace Apollo.Parse.Exact
open Apollo.Rowan hiding Str
open Apollo.Lex hiding Str

/-- when `peek_while_kind(k, …)` returns, the head of the queue is not of kind `k` -/
theorem peekWhileKindLoop_exit (k : Kind) (body : PI Unit) : ∀ (fuel : Nat) (s s' : PState), TW s → Good body →
    (peekWhileKindLoop k body fuel).run s = .ok () s' → (Toks s').head?.map (·.kind) ≠ some k
  | 0, s, s', _, _, h => by simp [peekWhileKindLoop, PI.outOfFuel] at h
  | fuel + 1, s, s', w, gb, h => by
    unfold peekWhileKindLoop at h
    obtain ⟨ko, sP, hp, h2⟩ := bind_dec peek _ s s' () h
    obtain ⟨o, p, hko⟩ := peek_obs s sP ko w hp
    subst hko
    have hhead : (Toks sP).head? = o := by rw [p.toks]; exact p.head.symm
    cases o with
    | none =>
      simp only [Option.map_none] at h2
      rw [run_pure] at h2
      injection h2 with _ h2
      subst h2
      rw [hhead]; simp
    | some t =>
      simp only [Option.map_some] at h2
      by_cases hk : (t.kind != k) = true
      · simp only [hk, if_true] at h2
        rw [run_pure] at h2
        injection h2 with _ h2
        subst h2
        rw [hhead]
        simp only [Option.map_some]
        intro he
        injection he with he
        rw [he] at hk
        simp at hk
      · simp only [hk, Bool.false_eq_true, if_false] at h2
        have h3 := getCurrent_dec _ sP s' () h2
        obtain ⟨_, sB, hb, h4⟩ := bind_dec body _ sP s' () h3
        have aB := gb sP () sB p.w hb
        have h5 := getCurrent_dec _ sB s' () h4
        by_cases hst : (sP.current == sB.current) = true
        · simp only [hst, if_true] at h5
          simp [PI.stuck] at h5
        · simp only [hst, Bool.false_eq_true, if_false] at h5
          exact peekWhileKindLoop_exit k body fuel sB s' aB.w gb h5

/-- **`directives` entered on `@`**: a non-empty list of directives within the budget -/
theorem directives_at_sound (n : Nat) (s s' : PState) (t : Tok) (rest : List Tok) (w : TW s) (he : EofEnd s)
    (ht : Toks s = t :: rest) (hk : t.kind = .at) (h : (directives n true).run s = .ok () s') (hnd : ¬ Doomed s') :
    Cons s s' (fun x => ∃ ds, x = Ast.tDirectives ds ∧ ds ≠ [] ∧ dirsFit true (bud s) ds) := by
  have hni : isIgnoredKind t.kind = false := by rw [hk]; rfl
  obtain ⟨cs, ds, a1, a2, a3, a4, a5⟩ := directives_sound n true s s' w he h hnd
  refine ⟨cs, _, a1, a2, a3, a4, ds, rfl, ?_, a5⟩
  rintro rfl
  -- no token consumed, yet the loop stopped on `@`
  have hexit : (Toks s').head?.map (·.kind) ≠ some Kind.at := by
    unfold directives at h
    obtain ⟨s1, s2, e1, h1, o2⟩ := withNode_peeked _ _ s s' () t rest w ht hni h
    unfold peekWhileKind at h1
    obtain ⟨len, h2⟩ := srcLen_dec _ s1 s2 () h1
    rw [o2.toks]
    exact peekWhileKindLoop_exit .at _ _ s1 s2 e1.w (good_directive n true) h2
  have hsig : sig cs = [] := by
    have : (sig cs).map astOfV = [] := by simpa [TokIs, Ast.tDirectives] using a4
    simpa using this
  cases cs with
  | nil =>
    simp only [List.nil_append] at a1
    rw [← a1, ht] at hexit
    simp [hk] at hexit
  | cons c r =>
    rw [ht] at a1
    simp only [List.cons_append, List.cons.injEq] at a1
    have hc : c = t := a1.1.symm
    subst hc
    have : sig (c :: r) = c :: sig r := by simp [sig, hni]
    rw [this] at hsig
    cases hsig

/-- `extend <kw> tail` entered by `extensions()`: both keywords consumed, the tail at the budget of the start state -/
theorem ext2_sound (K : SK) (w2 : String) (hw2 : KwWord w2) (sk1 sk2 : SK) (tail : PI Unit) (L : Nat → Option Tok → List Ast.Tok → Prop)
    (gt : Good tail)
    (ht : ∀ s s', TW s → EofEnd s → tail.run s = .ok () s' → ¬ Doomed s' → Cons s s' (L (bud s) s'.current))
    (s s' : PState) (w : TW s) (he : EofEnd s) (hq : LexQ (Toks s)) (hs : EStart w2.toList (Toks s))
    (h : (withNode K (bump sk1 >>= fun _ => bump sk2 >>= fun _ => tail)).run s = .ok () s') (hnd : ¬ Doomed s') :
    Cons s s' (fun x => ∃ x2, x = .name "extend".toList :: .name w2.toList :: x2 ∧ L (bud s) s'.current x2) := by
  obtain ⟨t, rest, t2, htq, hkt, hdt, h2t, hd2⟩ := hs
  have hni : isIgnoredKind t.kind = false := by rw [hkt]; rfl
  obtain ⟨s1, s2, e1, h1, o2⟩ := withNode_peeked _ _ s s' () t rest w htq hni h
  have hnd2 : ¬ Doomed s2 := fun d => hnd (o2.doomed.mpr d)
  have he1 : EofEnd s1 := eofEnd_eat he e1 (by intro x hx; cases hx)
  have h0 : Toks s = Toks s1 := by simpa using e1.toks
  obtain ⟨_, sa, ha, h3⟩ := bind_dec (bump sk1) _ s1 s2 () h1
  obtain ⟨_, sb, hb, h4⟩ := bind_dec (bump sk2) _ sa s2 () h3
  have hpre : (bump sk1 >>= fun _ => bump sk2 >>= fun _ => (pure () : PI Unit)).run s1 = .ok () sb :=
    bind_intro _ _ s1 sa () _ ha (bind_intro _ _ sa sb () _ hb rfl)
  have hacc := accL_bump2 "extend" w2 kwWord_extend hw2 sk1 sk2 (pure () : PI Unit) (fun _ x => x = [])
    ((acc_pure E0 LexQ ()).mono (fun _ h => h) (fun _ _ h => h.2))
  have a1 := hacc.1 s1 () sb e1.w hpre
  have hndb : ¬ Doomed sb := fun d => hnd2 ((gt sb () s2 a1.w h4).doom d)
  have c1 := cons_of_acc hacc s1 sb () e1.w he1 ⟨by rw [← h0]; exact hq, t, rest, t2, by rw [← h0]; exact htq, hdt, h2t, hd2⟩ hpre hndb
  have c2 := ht sb s2 a1.w c1.eofEnd h4 hnd2
  refine ((c1.seq c2).transport h0 o2.toks (eofEnd_same _ _ c2.eofEnd o2.current o2.lx o2.errors)).weaken ?_
  rintro z ⟨x, y, rfl, ⟨x2, rfl, rfl⟩, hy⟩
  rw [bud_adv a1, bud_eat e1, ← o2.current] at hy
  exact ⟨y, by simp, hy⟩

theorem ext2_settled (K : SK) (sk1 sk2 : SK) (tail : PI Unit) (gt : Good tail) (ht : SP tail)
    (s s' : PState) (w : TW s) (h : (withNode K (bump sk1 >>= fun _ => bump sk2 >>= fun _ => tail)).run s = .ok () s') (hnd : ¬ Doomed s') :
    Settled s' := by
  have hse : SE (bump sk1 >>= fun _ => bump sk2 >>= fun _ => tail) :=
    se_bindR (good_bump _) (fun _ => se_bindL (good_bump _) (fun _ => gt) (se_bump _) (fun _ => ht))
  rcases se_withNode K _ hse.sp s () s' w h with h1 | h1
  · exact h1
  · exact absurd h1 hnd

/-- `if !meets { err }` -/
theorem extEnd_ok (meets : Bool) (s s' : PState) (w : TW s) (he : EofEnd s) (h : (extEnd meets).run s = .ok () s') (hnd : ¬ Doomed s') :
    meets = true ∧ s' = s := by
  unfold extEnd at h
  cases meets with
  | true =>
    simp only [Bool.not_true, Bool.false_eq_true, if_false] at h
    rw [run_pure] at h
    injection h with _ h
    exact ⟨rfl, h.symm⟩
  | false =>
    simp only [Bool.not_false, if_true] at h
    exact absurd ((err_adv s s' w h).2 (eofEnd_nonempty s he (fun d => hnd ((good_err s () s' w h).doom d)))) hnd

theorem good_extEnd (meets : Bool) : Good (extEnd meets) := by
  unfold extEnd; exact good_ite _ _ _ good_err (good_pure _)

theorem sp_extEnd (meets : Bool) : SP (extEnd meets) := by
  unfold extEnd; exact sp_ite _ _ _ se_err.sp (sp_pure _)

theorem good_extBodyK (body : PI Unit) (gb : Good body) (meets : Bool) : Good (extBodyK .lCurly body meets) := by
  unfold extBodyK optKind2
  exact good_bind _ _ good_peek (fun _ => good_ite _ _ _ (good_bind _ _ gb (fun _ => good_extEnd true)) (good_extEnd meets))

theorem sp_extBodyK (body : PI Unit) (gb : Good body) (hb : SP body) (meets : Bool) : SP (extBodyK .lCurly body meets) := by
  unfold extBodyK optKind2
  exact sp_bind good_peek (fun _ => good_ite _ _ _ (good_bind _ _ gb (fun _ => good_extEnd true)) (good_extEnd meets)) sp_peek
    (fun _ => sp_ite _ _ _ (sp_bind gb (fun _ => good_extEnd true) hb (fun _ => sp_extEnd true)) (sp_extEnd meets))

theorem good_extDirs (n : Nat) (next : Bool → PI Unit) (gn : ∀ m, Good (next m)) (meets : Bool) : Good (extDirs n next meets) := by
  unfold extDirs optKind2
  exact good_bind _ _ good_peek (fun _ => good_ite _ _ _ (good_bind _ _ (good_directives n true) (fun _ => gn true)) (gn meets))

theorem sp_extDirs (n : Nat) (next : Bool → PI Unit) (gn : ∀ m, Good (next m)) (hn : ∀ m, SP (next m)) (meets : Bool) : SP (extDirs n next meets) := by
  unfold extDirs optKind2
  exact sp_bind good_peek (fun _ => good_ite _ _ _ (good_bind _ _ (good_directives n true) (fun _ => gn true)) (gn meets)) sp_peek
    (fun _ => sp_ite _ _ _ (sp_bind (good_directives n true) (fun _ => gn true) (se_directives n true).sp (fun _ => hn true)) (hn meets))

/-- the optional braced body of an extension, with the `meets` flag -/
theorem extBodyK_sound (body : PI Unit) (LB : Nat → List Ast.Tok → Prop) (gb : Good body)
    (hb : ∀ s s' t rest, TW s → EofEnd s → Toks s = t :: rest → t.kind = .lCurly → body.run s = .ok () s' → ¬ Doomed s' → Cons s s' (LB (bud s)))
    (meets : Bool) (s s' : PState) (w : TW s) (he : EofEnd s) (h : (extBodyK .lCurly body meets).run s = .ok () s') (hnd : ¬ Doomed s') :
    Cons s s' (fun x => LB (bud s) x ∨ (x = [] ∧ meets = true ∧ ∀ t, s'.current = some t → t.kind ≠ .lCurly)) := by
  unfold extBodyK optKind2 at h
  obtain ⟨sP, o, p, hor⟩ := ifPeek_dec .lCurly _ _ s s' () w h
  have heP := p.eofEnd he
  rcases hor with ⟨hkc, h5⟩ | ⟨hkc, h5⟩
  · obtain ⟨tc, rfl, hkc2⟩ : ∃ tc, o = some tc ∧ tc.kind = .lCurly := by
      cases o with
      | none => simp at hkc
      | some tc => exact ⟨tc, rfl, by simpa using hkc⟩
    obtain ⟨_, sB, h6, h7⟩ := bind_dec body _ sP s' () h5
    have aB := gb sP () sB p.w h6
    have hndB : ¬ Doomed sB := fun d => hnd ((good_extEnd true sB () s' aB.w h7).doom d)
    have c2 := hb sP sB tc _ p.w heP p.head_cons hkc2 h6 hndB
    obtain ⟨_, rfl⟩ := extEnd_ok true sB s' aB.w c2.eofEnd h7 hnd
    refine (c2.transport p.toks.symm rfl c2.eofEnd).weaken ?_
    intro z hz
    rw [bud_peek p] at hz
    exact Or.inl hz
  · obtain ⟨hm, hss⟩ := extEnd_ok meets sP s' p.w heP h5 hnd
    rw [hss]
    refine (Cons.nil p.toks heP).weaken ?_
    rintro z rfl
    refine Or.inr ⟨rfl, hm, ?_⟩
    intro t ht hk
    rw [p.current] at ht
    subst ht
    exact hkc (by simp [hk])

/-- `Directives[Const]? Body?` of an extension: when `meets` is false at the start, something was written -/
theorem extDirsBody_sound (n : Nat) (body : PI Unit) (LB : Nat → List Ast.Tok → Prop) (gb : Good body)
    (hb : ∀ s s' t rest, TW s → EofEnd s → Toks s = t :: rest → t.kind = .lCurly → body.run s = .ok () s' → ¬ Doomed s' → Cons s s' (LB (bud s)))
    (meets : Bool) (s s' : PState) (w : TW s) (he : EofEnd s) (h : (extDirs n (extBodyK .lCurly body) meets).run s = .ok () s') (hnd : ¬ Doomed s') :
    Cons s s' (fun x => ∃ ds x2, x = Ast.tDirectives ds ++ x2 ∧ dirsFit true (bud s) ds ∧
      (LB (bud s) x2 ∨ (x2 = [] ∧ (ds ≠ [] ∨ meets = true) ∧ ∀ t, s'.current = some t → t.kind ≠ .lCurly))) := by
  unfold extDirs optKind2 at h
  obtain ⟨sP, o, p, hor⟩ := ifPeek_dec .at _ _ s s' () w h
  have heP := p.eofEnd he
  rcases hor with ⟨hkc, h5⟩ | ⟨hkc, h5⟩
  · obtain ⟨tc, rfl, hkc2⟩ : ∃ tc, o = some tc ∧ tc.kind = .at := by
      cases o with
      | none => simp at hkc
      | some tc => exact ⟨tc, rfl, by simpa using hkc⟩
    obtain ⟨_, sD, h6, h7⟩ := bind_dec (directives n true) _ sP s' () h5
    have aD := good_directives n true sP () sD p.w h6
    have hndD : ¬ Doomed sD := fun d => hnd ((good_extBodyK body gb true sD () s' aD.w h7).doom d)
    have c1 := directives_at_sound n sP sD tc _ p.w heP p.head_cons hkc2 h6 hndD
    have c2 := extBodyK_sound body LB gb hb true sD s' aD.w c1.eofEnd h7 hnd
    refine ((c1.seq c2).transport p.toks.symm rfl c2.eofEnd).weaken ?_
    rintro z ⟨x, y, rfl, ⟨ds, rfl, hne, hds⟩, hy⟩
    rw [bud_peek p] at hds
    rw [bud_adv aD, bud_peek p] at hy
    refine ⟨ds, y, rfl, hds, ?_⟩
    rcases hy with hy | ⟨rfl, _, hc⟩
    · exact Or.inl hy
    · exact Or.inr ⟨rfl, Or.inl hne, hc⟩
  · have c2 := extBodyK_sound body LB gb hb meets sP s' p.w heP h5 hnd
    refine (c2.transport p.toks.symm rfl c2.eofEnd).weaken ?_
    intro z hz
    rw [bud_peek p] at hz
    refine ⟨[], z, by simp [Ast.tDirectives], (by intro d hd; cases hd), ?_⟩
    rcases hz with hz | ⟨rfl, hm, hc⟩
    · exact Or.inl hz
    · exact Or.inr ⟨rfl, Or.inr hm, hc⟩

end Apollo.Parse.Exact
