import ApolloModel.Proofs.ParserTree39
/-
C08 growth (pipeline), part 40: the loop of `document()` with the tree calculus AND builderB/builderD's exact soundness
calculus on the SAME dispatch run: every item the tree calculus describes is also an item within the exact budget
(`Exact.itemFitX`) spelled by the same tokens.
-/
set_option linter.unusedSimpArgs false
set_option linter.unusedVariables false
namespace Apollo.Parse
open Apollo.Rowan hiding Str
open Apollo.Lex hiding Str

/-- one definition as the tree calculus sees it (`Q`) and as the exact soundness calculus sees it: the same tokens spell an
    item within the exact budget `B` -/
def FitQ (Q : List Tok → List Elem → Prop) (B : Nat) (cs : List Tok) (e : List Elem) : Prop :=
  Q cs e ∧ ∃ i : DocItem, TokIs cs i.toks ∧ Exact.itemFitX B i

/-- **the loop of `document()`**: an error-free run consumes a sequence of definitions, appends their elements, and
    stops in front of the EOF token -/
theorem docLoop_trS {n : Nat} {Q : List Tok → List Elem → Prop} (L : DefTrs n Q) (XL : Exact.X.DefExact n) (B : Nat) :
    ∀ (fuel : Nat) (s s' : PState), St s → Exact.bud s = B →
    (peekWhileLoop (documentStep n) fuel).run s = .ok () s' → ¬ Doomed s' → AtEof s' ∧ TrRes NoE s s' (ItemsT (FitQ Q B)) := by
  intro fuel
  induction fuel with
  | zero => intro s s' _ _ h; simp [peekWhileLoop, PI.outOfFuel] at h
  | succ fuel ih =>
    intro s s' st hB h hnd
    unfold peekWhileLoop at h
    obtain ⟨ko, sP, hp, h2⟩ := bind_dec peek _ s s' () h
    obtain ⟨o, p', hko⟩ := peek_obs s sP ko st.w hp
    subst hko
    have stP : St sP := ⟨p'.w, (run_inv_added peek s st.inv _ sP hp).1, p'.eofEnd st.eof, by rw [p'.toks]; exact st.lq⟩
    have hbP : sP.builder = s.builder := keeps_peek s _ sP hp
    have heP : EofEnd sP := stP.eof
    cases o with
    | none =>
      simp only [Option.map_none] at h2
      rw [run_pure] at h2
      injection h2 with _ h2
      subst h2
      exfalso
      have hndP : ¬ Doomed sP := hnd
      have hne := eofEnd_nonempty sP heP hndP
      have hh := p'.head
      rw [← p'.toks] at hh
      cases hq : Toks sP with
      | nil => exact hne hq
      | cons a b => rw [hq] at hh; cases hh
    | some t =>
      simp only [Option.map_some] at h2
      have h3 := getCurrent_dec _ sP s' () h2
      obtain ⟨b, sB, hb, h4⟩ := bind_dec (documentStep n t.kind) _ sP s' () h3
      have htP : Toks sP = t :: (Toks sP).tail := p'.head_cons
      unfold documentStep at hb
      by_cases hk : (t.kind == .eof) = true
      · simp only [hk, if_true] at hb
        obtain ⟨_, s0, e0, e1⟩ := bind_dec assertRecZero _ sP sB b hb
        rw [assertRecZero_run] at e0
        injection e0 with _ e0
        subst e0
        rw [run_pure] at e1
        injection e1 with e1 e2
        subst e1 e2
        simp only [Bool.false_eq_true, if_false] at h4
        rw [run_pure] at h4
        injection h4 with _ h4
        subst h4
        refine ⟨⟨t, by rw [toks_flagged, htP]; rfl, by simpa using hk⟩, [], [], by rw [toks_flagged, p'.toks]; rfl,
          (by intro x hx; cases hx), eofEnd_flagged heP, ?_, Or.inl ⟨[], rfl, rfl, by intro i hi; cases hi⟩⟩
        show sP.builder.children = _
        rw [hbP]; simp
      · simp only [hk, Bool.false_eq_true, if_false] at hb
        obtain ⟨_, s0, e0, eD⟩ := bind_dec assertRecZero _ sP sB b hb
        rw [assertRecZero_run] at e0
        injection e0 with _ e0
        subst e0
        obtain ⟨_, sD, eD2, e1⟩ := bind_dec (documentDispatch n t.kind) _ (flagged sP) sB b eD
        rw [run_pure] at e1
        injection e1 with e1 e2
        subst e1 e2
        simp only [if_true] at h4
        have h5 := getCurrent_dec _ sD s' () h4
        have stF := st_flagged stP
        have aD := good_documentDispatch (defLemmas n) t.kind (flagged sP) () sD stF.w eD2
        by_cases hsame : (sP.current == sD.current) = true
        · simp only [hsame, if_true] at h5
          exact absurd h5 (stuck_not_ok _ _ _)
        · simp only [hsame, Bool.false_eq_true, if_false] at h5
          have hndD : ¬ Doomed sD := fun d => hnd ((good_peekWhileLoop _ (good_documentStep (defLemmas n)) fuel sD () s' aD.w h5).doom d)
          obtain ⟨c1, d1, t1, n1, e1', b1, r1⟩ := documentDispatch_tr L (flagged sP) sD t (Toks sP).tail stF p'.current
            (by rw [toks_flagged]; exact htP) eD2 hndD
          obtain ⟨cs2, i', u1, _, _, u4, u5, _⟩ := Exact.X.dispatch_soundG XL (flagged sP) sD t (Toks sP).tail stF.w stF.eof stF.lq.1
            p'.current (by rw [toks_flagged]; exact htP) eD2 hndD
          have hcs : c1 = cs2 := List.append_cancel_right (t1.symm.trans u1)
          subst hcs
          have hBf : Exact.bud (flagged sP) = B := by rw [show Exact.bud (flagged sP) = Exact.bud sP from rfl, Exact.bud_peek p', hB]
          have hBD : Exact.bud sD = B := by rw [Exact.bud_adv aD, hBf]
          rw [hBf] at u5
          rw [toks_flagged] at t1
          have stD : St sD := ⟨aD.w, (run_inv_added (documentDispatch n t.kind) (flagged sP) stF.inv () sD eD2).1, e1',
            LQ.suffix (cs := c1) (by rw [← t1]; exact stP.lq)⟩
          obtain ⟨hat, c2, d2, t2, n2, e2', b2, r2⟩ := ih sD s' stD hBD h5 hnd
          have b1' : sD.builder.children = s.builder.children ++ d1 := by
            rw [b1]; show sP.builder.children ++ d1 = _; rw [hbP]
          rcases r1 with q1 | f
          · rcases r2 with ⟨items, hi1, hi2, hall⟩ | f
            · refine ⟨hat, c1 ++ c2, d1 ++ d2, by rw [← p'.toks, t1, t2, List.append_assoc], noEof_append n1 n2, e2',
                by rw [b2, b1', List.append_assoc], Or.inl ⟨(sig c1, sigE d1) :: items, ?_, ?_, ?_⟩⟩
              · simp [sig_append, hi1]
              · simp [sigE_append, hi2]
              · intro i hi'
                rcases List.mem_cons.mp hi' with rfl | hi'
                · exact ⟨q1, i', u4, u5⟩
                · exact hall i hi'
            · exact absurd f id
          · exact absurd f id

/-! ### `document()` -/

theorem documentBody_trS {n : Nat} {Q : List Tok → List Elem → Prop} (L : DefTrs n Q) (XL : Exact.X.DefExact n) (B : Nat)
    (s s' : PState) (st : St s) (hB : Exact.bud s = B)
    (hset : Settled s) (h : (documentBody n).run s = .ok () s') (hnd : ¬ Doomed s') :
    ∃ cs e added, Toks s = cs ++ [e] ∧ e.kind = .eof ∧ s'.builder.children = s.builder.children ++ added ∧
      ∃ items : List (List Tok × List Elem), items ≠ [] ∧ sig cs = (items.map (·.1)).flatten ∧
        sigE added = (items.map (·.2)).flatten ∧ ∀ i ∈ items, FitQ Q B i.1 i.2 := by
  unfold documentBody at h
  obtain ⟨ko, sP, hp, h2⟩ := bind_dec peek _ s s' () h
  obtain ⟨o, p, hko⟩ := peek_obs s sP ko st.w hp
  subst hko
  have stP : St sP := ⟨p.w, (run_inv_added peek s st.inv _ sP hp).1, p.eofEnd st.eof, by rw [p.toks]; exact st.lq⟩
  have hbP : sP.builder = s.builder := keeps_peek s _ sP hp
  have heP : EofEnd sP := stP.eof
  obtain ⟨_, sE, hE, h3⟩ := bind_dec (errIfEmpty _) _ sP s' () h2
  obtain ⟨_, sL, hL, h4⟩ := bind_dec (peekWhile (documentStep n)) _ sE s' () h3
  have o4 := pushIgnored_obs sL s' h4
  have hndL : ¬ Doomed sL := fun d => hnd (o4.doomed.mpr d)
  unfold errIfEmpty at hE
  by_cases hemp : (o.map (·.kind) == none || o.map (·.kind) == some .eof) = true
  · exfalso
    simp only [hemp, if_true] at hE
    have gE := good_err sP () sE p.w hE
    have gL := good_peekWhile _ (good_documentStep (defLemmas n)) sE () sL gE.w hL
    obtain ⟨_, d⟩ := err_adv sP sE p.w hE
    have hndP : ¬ Doomed sP := fun dd => hndL (gL.doom (gE.doom dd))
    exact hndL (gL.doom (d (eofEnd_nonempty sP heP hndP)))
  · simp only [hemp, Bool.false_eq_true, if_false] at hE
    rw [run_pure] at hE
    injection hE with _ hE
    subst hE
    obtain ⟨fuel, h5⟩ := srcLen_dec _ sP sL () hL
    obtain ⟨hat, cs, d, t1, n1, e1, b1, r⟩ := docLoop_trS L XL B _ sP sL stP (by rw [Exact.bud_peek p, hB]) h5 hndL
    obtain ⟨e, hte, hke⟩ := atEof_single sL e1 hndL hat
    obtain ⟨t, ht⟩ : ∃ t, o = some t := by
      cases o with
      | none => simp at hemp
      | some t => exact ⟨t, rfl⟩
    subst ht
    have hkt : t.kind ≠ .eof := by
      intro hk; simp [hk] at hemp
    have hni : isIgnoredKind t.kind = false := by
      have hcur : s.current = some t := by
        have h1 := hset.1
        have h2 := p.head
        rw [h1, ← h2]
      exact hset.2 t hcur
    have htP : Toks sP = t :: (Toks sP).tail := p.head_cons
    have hcs : ∃ cs', cs = t :: cs' := by
      cases cs with
      | nil =>
        exfalso
        rw [hte] at t1
        simp only [List.nil_append] at t1
        rw [t1] at htP
        injection htP with h1 _
        exact hkt (by rw [← h1]; exact hke)
      | cons a cs' =>
        rw [htP] at t1
        injection t1 with h1 _
        exact ⟨cs', by rw [h1]⟩
    obtain ⟨cs', rfl⟩ := hcs
    have e4 : pushIgnored.run sL = .ok () { sL with builder := { sL.builder with children := sL.builder.children ++ sL.pending.map pendingElem }, pending := [] } := rfl
    rw [e4] at h4
    injection h4 with _ h4
    rcases r with ⟨items, hi1, hi2, hall⟩ | f
    · refine ⟨t :: cs', e, d ++ sL.pending.map pendingElem, by rw [← p.toks, t1, hte], hke, ?_, items, ?_, hi1, ?_, hall⟩
      · rw [← h4]
        show sL.builder.children ++ sL.pending.map pendingElem = _
        rw [b1, hbP, List.append_assoc]
      · intro h0
        subst h0
        have : sig (t :: cs') = t :: sig cs' := by simp [sig, hni]
        rw [this] at hi1
        simp at hi1
      · rw [sigE_append, sigE_pending, List.append_nil]; exact hi2
    · exact absurd f id

/-- `document()`: the DOCUMENT node, the ignored tokens in front, the definitions -/
theorem document_trS {n : Nat} {Q : List Tok → List Elem → Prop} (L : DefTrs n Q) (XL : Exact.X.DefExact n) (B : Nat)
    (s s' : PState) (st : St s) (hB : Exact.bud s = B)
    (h : (document n).run s = .ok () s') (hnd : ¬ Doomed s') :
    ∃ ts e inner, sig (Toks s) = ts ++ [e] ∧ e.kind = .eof ∧
      s'.builder.children = s.builder.children ++ s.pending.map pendingElem ++ [Elem.node "DOCUMENT" inner] ∧
      ∃ items : List (List Tok × List Elem), items ≠ [] ∧ ts = (items.map (·.1)).flatten ∧
        sigE inner = (items.map (·.2)).flatten ∧ ∀ i ∈ items, FitQ Q B i.1 i.2 := by
  unfold document at h
  obtain ⟨s0, s2, inner, o0, hi0, hp0, hr0, o2, hin, hout⟩ := withNode_tree "DOCUMENT" (documentBody n) s st.inv () s' h
  obtain ⟨_, s1, hsk, hb⟩ := bind_dec skipIgnored _ s0 s2 () hr0
  have st0 : St s0 := st.obs o0 hi0
  obtain ⟨ign, e01, hall, hset⟩ := skipIgnored_spec s0 s1 st0.w hsk
  have he1 : EofEnd s1 := eofEnd_eat st0.eof e01 (noEof_ignored ign hall)
  have st1 : St s1 := ⟨e01.w, (run_inv_added skipIgnored s0 hi0 () s1 hsk).1, he1, LQ.suffix (cs := ign) (by rw [← e01.toks]; exact st0.lq)⟩
  have hk1 : s1.builder = s0.builder := keeps_skipIgnored s0 () s1 hsk
  have hnd2 : ¬ Doomed s2 := fun d => hnd (o2.doomed.mpr d)
  obtain ⟨cs, e, added, t1, hke, b1, items, hne, hi1, hi2, hallq⟩ := documentBody_trS L XL B s1 s2 st1 (by rw [Exact.bud_eat e01, Exact.bud_obs o0, hB]) hset hb hnd2
  have hinner : inner = added := by
    rw [hk1] at b1
    rw [hin] at b1
    exact List.append_cancel_left b1
  subst hinner
  refine ⟨sig cs, e, inner, ?_, hke, hout, items, hne, hi1, hi2, hallq⟩
  rw [← o0.toks, e01.toks, t1, sig_append, sig_append, sig_ignored ign hall]
  have : sig [e] = [e] := by simp [sig, isIgnoredKind, hke]
  rw [this]; rfl

/-- **The tree of an accepted document**, over the per-definition facts: `Parser::parse` (model; no token limit, any
    recursion limit) without error returns `DOCUMENT[…]` whose significant children are, definition by definition, the
    elements the definition parsers appended, and the significant tokens are the definitions' tokens, then EOF -/
theorem parseDocument_cstS {Q : List Tok → List Elem → Prop} (L : ∀ n, DefTrs n Q) (XL : ∀ n, Exact.X.DefExact n) (rl : Nat) (src : Str) (root : Elem)
    (h : (parse .document none rl src).outcome = .tree root) (herr : (parse .document none rl src).errors = []) :
    LexClean src ∧ ∃ ts e inner, sig (srcToks src) = ts ++ [e] ∧ e.kind = .eof ∧ root = Elem.node "DOCUMENT" inner ∧
      ∃ items : List (List Tok × List Elem), items ≠ [] ∧ ts = (items.map (·.1)).flatten ∧
        sigE inner = (items.map (·.2)).flatten ∧ ∀ i ∈ items, FitQ Q rl i.1 i.2 := by
  unfold parse runEntry at h herr
  simp only [Entry.standalone, Entry.grammar] at h herr
  have hinv := init_inv src none rl
  have w0 : TW (initState src none rl) := ⟨rfl, by intro h; simp [initState] at h⟩
  have htoks : Toks (initState src none rl) = srcToks src := rfl
  have hdoom : Doomed (initState src none rl) ↔ ¬ LexClean src := by
    unfold Doomed LexClean
    show ([] ≠ [] ∨ hasErr (stream (initState src none rl).lx) = true) ↔ _
    have : (initState src none rl).lx = (initState src none 0).lx := rfl
    rw [this]
    constructor
    · rintro (h | h)
      · exact absurd rfl h
      · simp [h]
    · intro h; right; simpa using h
  have he0 : EofEnd (initState src none rl) := by
    right
    obtain ⟨pre, e, hp, he, hno⟩ := stream_eof_end src.length (initState src none 0).lx (Nat.le_refl _) rfl rfl
    exact ⟨pre, e, by rw [htoks]; exact hp, he, hno⟩
  have st0 : St (initState src none rl) := ⟨w0, hinv, he0, by rw [htoks]; exact lq_srcToks src⟩
  cases hr : (document (fuelFor src)).run (initState src none rl) with
  | abort w => simp [hr] at h
  | panic m => simp [hr] at h
  | ok a s =>
    simp only [hr] at h herr
    have gd := good_withNode "DOCUMENT" _ (good_documentBody (defLemmas (fuelFor src))) _ a s w0 (by unfold document at hr; exact hr)
    obtain ⟨hfin, hlim⟩ := PI.run_ok (document (fuelFor src)) _ hinv a s hr
    obtain ⟨cs, s2, _, _, hrun, _, _, hlx, _, _, _⟩ :=
      withNode_result "DOCUMENT" (documentBody (fuelFor src)) _ hinv a s hr
    have hi0 : Inv (rawStartNode "DOCUMENT" { initState src none rl with builder := { (initState src none rl).builder with children := (initState src none rl).builder.children ++ (initState src none rl).pending.map pendingElem }, pending := [] }) :=
      ⟨fun _ => by simp [initState, Builder.new, rawStartNode, Builder.startNode, textList, pendingText, curText],
       fun p hp => by simp [initState, Builder.new, rawStartNode, Builder.startNode] at hp; simp [hp, initState, Builder.new, rawStartNode, Builder.startNode],
       fun hfin => by simp [initState, rawStartNode] at hfin, fun t ht => by simp [initState, rawStartNode] at ht,
       fun ha => by simp [initState, rawStartNode] at ha⟩
    obtain ⟨u, s1, hsk, hbody⟩ := bind_dec skipIgnored _ _ s2 a hrun
    obtain ⟨hi1, hl1⟩ := PI.run_ok skipIgnored _ hi0 u s1 hsk
    have hl1' : s1.lx.limit = none := by rw [hl1]; rfl
    obtain ⟨_, hex2, _⟩ := documentBody_final (fuelFor src) s1 s2 hi1 hl1' hbody
    have hsrc : s.lx.src = [] := by rw [hlx]; exact hex2.2
    have hnd : ¬ Doomed s := by
      rintro (d | d)
      · exact d herr
      · rw [hasErr_src_nil s.lx gd.w.limit hsrc] at d; cases d
    have hnd0 : ¬ Doomed (initState src none rl) := fun d => hnd (gd.doom d)
    refine ⟨Classical.byContradiction (fun hc => hnd0 (hdoom.mpr hc)), ?_⟩
    obtain ⟨ts, e, inner, h1, h2, h3, hitems⟩ := document_trS (L (fuelFor src)) (XL (fuelFor src)) rl _ s st0 (by simp [Exact.bud, initState]) hr hnd
    have hchild : s.builder.children = [Elem.node "DOCUMENT" inner] := by rw [h3]; rfl
    simp only [Builder.finish, hchild, Outcome.tree.injEq] at h
    rw [htoks] at h1
    exact ⟨ts, e, inner, h1, h2, h.symm, hitems⟩


end Apollo.Parse
