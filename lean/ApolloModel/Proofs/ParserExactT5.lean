import ApolloModel.Proofs.ParserExactT4
/-
Exact (budget-carrying) soundness for the type-system family, part 5: the common shape
`Description? keyword? Name tail` of the scalar / enum / input definitions splits into a budget-free prefix and the tail,
so the budget of the tail is the budget of the start state.
-/
set_option linter.unusedSimpArgs false
namespace Apollo.Parse.Exact
open Apollo.Rowan hiding Str
open Apollo.Lex hiding Str

theorem bind_intro {α β : Type} (m : PI α) (f : α → PI β) (s s1 : PState) (a : α) (r : Res β)
    (h1 : m.run s = .ok a s1) (h2 : (f a).run s1 = r) : (m >>= f).run s = r := by
  rw [run_bind, h1]; exact h2

/-- the run of `defShape … tail` is a run of the prefix `defShape … (pure ())` followed by a run of the tail -/
theorem defShape_split (word : String) (sk : SK) (n : Nat) (tail : PI Unit) (s s' : PState)
    (h : (defShape word sk n tail).run s = .ok () s') :
    ∃ s1, (defShape word sk n (pure ())).run s = .ok () s1 ∧ tail.run s1 = .ok () s' := by
  unfold defShape optKind optKw at *
  have hname : ∀ q q', (nameOrErr >>= fun _ => tail).run q = .ok () q' →
      ∃ s1, (nameOrErr >>= fun _ => (pure () : PI Unit)).run q = .ok () s1 ∧ tail.run s1 = .ok () q' := by
    intro q q' hq
    obtain ⟨_, s1, a, b⟩ := bind_dec nameOrErr _ q q' () hq
    exact ⟨s1, bind_intro _ _ q s1 () _ a rfl, b⟩
  have hkw : ∀ q q', (peekData >>= fun d => if kwOpt word d then (bump sk >>= fun _ => (nameOrErr >>= fun _ => tail)) else (nameOrErr >>= fun _ => tail)).run q = .ok () q' →
      ∃ s1, (peekData >>= fun d => if kwOpt word d then (bump sk >>= fun _ => (nameOrErr >>= fun _ => (pure () : PI Unit))) else (nameOrErr >>= fun _ => (pure () : PI Unit))).run q = .ok () s1 ∧
        tail.run s1 = .ok () q' := by
    intro q q' hq
    obtain ⟨d, qd, a, b⟩ := bind_dec peekData _ q q' () hq
    by_cases hc : kwOpt word d = true
    · simp only [hc, if_true] at b
      obtain ⟨_, qb, b1, b2⟩ := bind_dec (bump sk) _ qd q' () b
      obtain ⟨s1, c1, c2⟩ := hname qb q' b2
      exact ⟨s1, bind_intro _ _ q qd d _ a (by simp only [hc, if_true]; exact bind_intro _ _ qd qb () _ b1 c1), c2⟩
    · simp only [hc, Bool.false_eq_true, if_false] at b
      obtain ⟨s1, c1, c2⟩ := hname qd q' b
      exact ⟨s1, bind_intro _ _ q qd d _ a (by simp only [hc, Bool.false_eq_true, if_false]; exact c1), c2⟩
  obtain ⟨k, qp, a, b⟩ := bind_dec peek _ s s' () h
  by_cases hc : (k == some Kind.stringValue) = true
  · simp only [hc, if_true] at b
    obtain ⟨_, qb, b1, b2⟩ := bind_dec description _ qp s' () b
    obtain ⟨s1, c1, c2⟩ := hkw qb s' b2
    exact ⟨s1, bind_intro _ _ s qp k _ a (by simp only [hc, if_true]; exact bind_intro _ _ qp qb () _ b1 c1), c2⟩
  · simp only [hc, Bool.false_eq_true, if_false] at b
    obtain ⟨s1, c1, c2⟩ := hkw qp s' b
    exact ⟨s1, bind_intro _ _ s qp k _ a (by simp only [hc, Bool.false_eq_true, if_false]; exact c1), c2⟩

/-- **`Description? keyword? Name tail`**: the tail runs at the budget of the start state -/
theorem defShape_sound (word : String) (sk : SK) (hw : NameData word) (n : Nat) (tail : PI Unit) (L : Nat → List Ast.Tok → Prop)
    (gt : Good tail)
    (ht : ∀ s s', TW s → EofEnd s → tail.run s = .ok () s' → ¬ Doomed s' → Cons s s' (L (bud s)))
    (s s' : PState) (w : TW s) (he : EofEnd s) (h : (defShape word sk n tail).run s = .ok () s') (hnd : ¬ Doomed s') :
    Cons s s' (fun x => ∃ desc seen nm x2, x = Ast.tDescription desc ++ kwPart word seen ++ .name nm :: x2 ∧ L (bud s) x2) := by
  obtain ⟨s1, h1, h2⟩ := defShape_split word sk n tail s s' h
  have hacc := acc_defShape (E := fun _ => False) early_false (H := fun _ => True) word sk hw n (pure ()) (fun x => x = [])
    ((acc_pure (fun _ => False) (fun _ => True) ()).mono (fun _ _ => trivial) (fun _ _ h => h.2))
  have a1 := hacc.1 s () s1 w h1
  have hnd1 : ¬ Doomed s1 := fun d => hnd ((gt s1 () s' a1.w h2).doom d)
  have c1 := cons_of_acc hacc s s1 () w he trivial h1 hnd1
  have c2 := ht s1 s' a1.w c1.eofEnd h2 hnd
  refine (c1.seq c2).weaken ?_
  rintro z ⟨x, y, rfl, ⟨desc, seen, nm, x2, rfl, rfl⟩, hy⟩
  rw [bud_adv a1] at hy
  exact ⟨desc, seen, nm, y, by simp, hy⟩

/-- the same on a lexer queue (`LexQ`), where the keyword is known to be a Name token (`KwWord`) -/
theorem defShape_soundL (word : String) (sk : SK) (hw : KwWord word) (n : Nat) (tail : PI Unit) (L : Nat → List Ast.Tok → Prop)
    (gt : Good tail)
    (ht : ∀ s s', TW s → EofEnd s → tail.run s = .ok () s' → ¬ Doomed s' → Cons s s' (L (bud s)))
    (s s' : PState) (w : TW s) (he : EofEnd s) (hq : LexQ (Toks s)) (h : (defShape word sk n tail).run s = .ok () s') (hnd : ¬ Doomed s') :
    Cons s s' (fun x => ∃ desc seen nm x2, x = Ast.tDescription desc ++ kwPart word seen ++ .name nm :: x2 ∧ L (bud s) x2) := by
  obtain ⟨s1, h1, h2⟩ := defShape_split word sk n tail s s' h
  have hacc := accL_defShape word hw sk n (pure ()) (fun x => x = [])
    ((acc_pure E0 LexQ ()).mono (fun _ h => h) (fun _ _ h => h.2))
  have a1 := hacc.1 s () s1 w h1
  have hnd1 : ¬ Doomed s1 := fun d => hnd ((gt s1 () s' a1.w h2).doom d)
  have c1 := cons_of_acc hacc s s1 () w he hq h1 hnd1
  have c2 := ht s1 s' a1.w c1.eofEnd h2 hnd
  refine (c1.seq c2).weaken ?_
  rintro z ⟨x, y, rfl, ⟨desc, seen, nm, x2, rfl, rfl⟩, hy⟩
  rw [bud_adv a1] at hy
  exact ⟨desc, seen, nm, y, by simp, hy⟩

/-- **scalar type definition**, entered on a significant token of a lexer queue: `scalarToks` with the directives within the budget -/
theorem scalarTypeDefinition_sound (n : Nat) (s s' : PState) (t : Tok) (rest : List Tok) (w : TW s) (he : EofEnd s)
    (hq : LexQ (Toks s)) (ht : Toks s = t :: rest) (hni : isIgnoredKind t.kind = false)
    (h : (scalarTypeDefinition n).run s = .ok () s') (hnd : ¬ Doomed s') :
    Cons s s' (fun x => ∃ desc seen nm ds, x = scalarToks desc seen nm ds ∧ dirsFit true (bud s) ds) := by
  rw [scalarTypeDefinition_eq] at h
  obtain ⟨s1, s2, e1, h1, o2⟩ := withNode_peeked _ _ s s' () t rest w ht hni h
  have hnd2 : ¬ Doomed s2 := fun d => hnd (o2.doomed.mpr d)
  have he1 : EofEnd s1 := eofEnd_eat he e1 (by intro x hx; cases hx)
  have h0 : Toks s = Toks s1 := by simpa using e1.toks
  have c := defShape_soundL "scalar" "scalar_KW" kwWord_scalar n (optDirsEnd n) (fun b x => ∃ ds, x = Ast.tDirectives ds ∧ dirsFit true b ds)
    (good_optDirsEnd n) (fun q q' wq heq hr hndq => optDirsEnd_sound n q q' wq heq hr hndq) s1 s2 e1.w he1 (by rw [← h0]; exact hq) h1 hnd2
  refine (c.transport h0 o2.toks (eofEnd_same _ _ c.eofEnd o2.current o2.lx o2.errors)).weaken ?_
  rintro z ⟨desc, seen, nm, x2, rfl, ds, rfl, hds⟩
  rw [bud_eat e1] at hds
  exact ⟨desc, seen, nm, ds, rfl, hds⟩

end Apollo.Parse.Exact
