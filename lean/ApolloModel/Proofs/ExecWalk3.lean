import ApolloModel.Proofs.ExecWalk2
/-
C17, document level, typed rules, part 3: the completeness of the walk of one operation in MEMBERSHIP form (what a
reachable site reports is reported by the walk, whatever else is reported) — `Proofs/ExecWalk2.lean` has it for the
quiet walk; the marked set `validated_fragments` does not depend on what is reported.
-/
set_option linter.unusedSimpArgs false
set_option linter.unusedVariables false
namespace Apollo.ExecRules.Mem
open Apollo Apollo.Spec Apollo.ExecRules

variable (Q : TDiag → Prop)

/-- fragment definition `fr` has been validated quietly, and the spreads its body meets are all marked in `W` -/
def FragQ (s : RSchema) (doc : RBuilt) (vars : List RVarDef) (W : List String) (fr : RFrag) : Prop :=
  (∀ d ∈ dirsDiags s vars fr.dirs, Q d) ∧
    (isCompositeType s fr.tc = true → (reach doc fr.sels).contains fr.name = false →
      (∀ site ∈ localSites s doc (some fr.tc) fr.sels, ∀ d ∈ site.diags s vars, Q d) ∧
        ∀ h ∈ localSpreads s (some fr.tc) fr.sels, (doc.findFrag h).isSome → h ∈ W)

def DoneQ (s : RSchema) (doc : RBuilt) (vars : List RVarDef) (W : List String) (g : String) : Prop :=
  ∃ fr, doc.findFrag g = some fr ∧ FragQ Q s doc vars W fr

theorem DoneQ.mono {Q : TDiag → Prop} {s : RSchema} {doc : RBuilt} {vars : List RVarDef} {W W' : List String} {g : String}
    (h : DoneQ Q s doc vars W g) (hs : ∀ x ∈ W, x ∈ W') : DoneQ Q s doc vars W' g := by
  obtain ⟨fr, h1, h2, h3⟩ := h
  refine ⟨fr, h1, h2, fun a b => ⟨(h3 a b).1, fun x hx hd => hs x ((h3 a b).2 x hx hd)⟩⟩

/-- what a quiet walk from `V` to `V'` over `t` (under `ty`) achieves -/
structure WalkQ (s : RSchema) (doc : RBuilt) (vars : List RVarDef) (ty : Option String) (t : RSels) (V V' : List String) : Prop where
  mono : ∀ x ∈ V, x ∈ V'
  len : V.length ≤ V'.length
  nodup : V.Nodup → V'.Nodup
  defd : allDefined doc V → allDefined doc V'
  locals : ∀ site ∈ localSites s doc ty t, ∀ d ∈ site.diags s vars, Q d
  spreads : ∀ g ∈ localSpreads s ty t, (doc.findFrag g).isSome → g ∈ V'
  fresh : ∀ g ∈ V', g ∈ V ∨ DoneQ Q s doc vars V' g

theorem walkQ_nil (s : RSchema) (doc : RBuilt) (vars : List RVarDef) (ty : Option String) (V : List String) :
    WalkQ Q s doc vars ty .nil V V :=
  ⟨fun _ h => h, Nat.le_refl _, fun h => h, fun h => h, by simp [localSites], by simp [localSpreads], fun _ h => .inl h⟩

theorem WalkQ.seq {Q : TDiag → Prop} {s : RSchema} {doc : RBuilt} {vars : List RVarDef} {ta tb ty : Option String} {a b t : RSels}
    {V V1 V2 : List String} (extra : List Site)
    (h1 : WalkQ Q s doc vars ta a V V1) (h2 : WalkQ Q s doc vars tb b V1 V2)
    (hextra : ∀ site ∈ extra, ∀ d ∈ site.diags s vars, Q d)
    (hl : ∀ site ∈ localSites s doc ty t, site ∈ extra ++ localSites s doc ta a ++ localSites s doc tb b)
    (hs : ∀ g ∈ localSpreads s ty t, g ∈ localSpreads s ta a ++ localSpreads s tb b) : WalkQ Q s doc vars ty t V V2 := by
  refine ⟨fun x hx => h2.mono x (h1.mono x hx), Nat.le_trans h1.len h2.len, fun h => h2.nodup (h1.nodup h),
    fun h => h2.defd (h1.defd h), ?_, ?_, ?_⟩
  · intro site hsite
    have := hl site hsite
    simp only [List.mem_append] at this
    rcases this with (h | h) | h
    · exact hextra site h
    · exact h1.locals site h
    · exact h2.locals site h
  · intro g hg hd
    rcases List.mem_append.mp (hs g hg) with h | h
    · exact h2.mono g (h1.spreads g h hd)
    · exact h2.spreads g h hd
  · intro g hg
    rcases h2.fresh g hg with h | h
    · rcases h1.fresh g h with h' | h'
      · exact .inl h'
      · exact .inr (h'.mono h2.mono)
    · exact .inr h

/-- the fragment handler, on a marked set of at least `m` names -/
def HandlerQ (s : RSchema) (doc : RBuilt) (vars : List RVarDef) (m : Nat)
    (e : RFrag → List String → List TDiag × List String) : Prop :=
  ∀ fr W, W.Nodup → allDefined doc W → m ≤ W.length → (∀ d ∈ (e fr W).1, Q d) →
    FragQ Q s doc vars (e fr W).2 fr ∧ (∀ x ∈ W, x ∈ (e fr W).2) ∧ W.length ≤ (e fr W).2.length ∧ (e fr W).2.Nodup ∧
      allDefined doc (e fr W).2 ∧ ∀ g ∈ (e fr W).2, g ∈ W ∨ DoneQ Q s doc vars (e fr W).2 g


theorem walkSels_walkQ (s : RSchema) (doc : RBuilt) (vars : List RVarDef)
    (e : RFrag → List String → List TDiag × List String) (m : Nat) (he : HandlerQ Q s doc vars (m + 1) e) :
    ∀ (t : RSels) (ty : Option String) (V : List String), V.Nodup → allDefined doc V → m ≤ V.length →
      (∀ d ∈ (walkSels s doc vars e ty t V).1, Q d) → WalkQ Q s doc vars ty t V (walkSels s doc vars e ty t V).2 := by
  intro t
  induction t with
  | nil =>
    intro ty V _ _ _ _
    simp only [walkSels]
    exact walkQ_nil Q s doc vars ty V
  | field name dirs args sub rest ihs ihr =>
    intro ty V hnd hdf hm h
    simp only [walkSels, List.forall_mem_append] at h ⊢
    obtain ⟨⟨h1, h2⟩, h4⟩ := h
    have hx1 : ∀ site ∈ [Site.dirs dirs], ∀ d ∈ site.diags s vars, Q d := by
      intro site hs; simp only [List.mem_singleton] at hs; subst hs; exact h1
    cases ty with
    | none =>
      simp only at h2 h4 ⊢
      have e3 := ihs none V hnd hdf hm h2
      have e4 := ihr none _ (e3.nodup hnd) (e3.defd hdf) (Nat.le_trans hm e3.len) h4
      exact WalkQ.seq [.dirs dirs] e3 e4 hx1 (by intro site hs; simpa [localSites] using hs)
        (by intro g hg; simpa [localSpreads] using hg)
    | some t0 =>
      cases hfd : s.field t0 name with
      | none =>
        simp only [hfd] at h2 h4 ⊢
        have e4 := ihr (some t0) V hnd hdf hm h4
        exact WalkQ.seq [.dirs dirs] (walkQ_nil Q s doc vars none V) e4 hx1
          (by intro site hs; simpa [localSites, hfd] using hs) (by intro g hg; simpa [localSpreads, hfd] using hg)
      | some fd =>
        simp only [hfd] at h2 h4 ⊢
        by_cases hc : (sub.isNil && isCompositeType s fd.ty.innerNamedType) = true
        · simp only [hc, if_true] at h2 h4 ⊢
          have hx2 : ∀ site ∈ [Site.dirs dirs, Site.args fd.args args], ∀ d ∈ site.diags s vars, Q d := by
            intro site hs
            simp only [List.mem_cons, List.not_mem_nil, or_false] at hs
            rcases hs with rfl | rfl
            · exact h1
            · exact h2
          have e4 := ihr (some t0) V hnd hdf hm h4
          exact WalkQ.seq [.dirs dirs, .args fd.args args] (walkQ_nil Q s doc vars none V) e4 hx2
            (by intro site hs; simpa [localSites, hfd, hc] using hs) (by intro g hg; simpa [localSpreads, hfd, hc] using hg)
        · simp only [hc, Bool.false_eq_true, if_false, List.forall_mem_append] at h2 h4 ⊢
          have hx2 : ∀ site ∈ [Site.dirs dirs, Site.args fd.args args], ∀ d ∈ site.diags s vars, Q d := by
            intro site hs
            simp only [List.mem_cons, List.not_mem_nil, or_false] at hs
            rcases hs with rfl | rfl
            · exact h1
            · exact h2.1
          have e3 := ihs (some fd.ty.innerNamedType) V hnd hdf hm h2.2
          have e4 := ihr (some t0) _ (e3.nodup hnd) (e3.defd hdf) (Nat.le_trans hm e3.len) h4
          exact WalkQ.seq [.dirs dirs, .args fd.args args] e3 e4 hx2
            (by intro site hs; simpa [localSites, hfd, hc] using hs) (by intro g hg; simpa [localSpreads, hfd, hc] using hg)
  | spread f dirs rest ihr =>
    intro ty V hnd hdf hm h
    simp only [walkSels, List.forall_mem_append] at h ⊢
    obtain ⟨⟨h1, h2⟩, h4⟩ := h
    cases hf : doc.findFrag f with
    | none =>
      simp only [hf] at h2 h4 ⊢
      have e4 := ihr ty V hnd hdf hm h4
      refine ⟨e4.mono, e4.len, e4.nodup, e4.defd, ?_, ?_, e4.fresh⟩
      · intro site hs
        simp only [localSites, hf, List.append_nil, List.mem_append, List.mem_singleton] at hs
        rcases hs with rfl | hs
        · exact h1
        · exact e4.locals site hs
      · intro g hg hd
        simp only [localSpreads, List.mem_append, List.mem_singleton] at hg
        rcases hg with rfl | hg
        · rw [hf] at hd; cases hd
        · exact e4.spreads g hg hd
    | some d =>
      simp only [hf] at h2 h4 ⊢
      have hsp : ∀ site ∈ (match ty with | some t => [Site.spread t d.tc] | none => []), (∀ x ∈ (match ty with | some t => spreadDiags s t d.tc | none => []), Q x) →
          ∀ d ∈ site.diags s vars, Q d := by
        intro site hs hq
        cases ty with
        | none => simp at hs
        | some t => simp only [List.mem_singleton] at hs; subst hs; exact hq
      by_cases hv : V.contains f = true
      · simp only [hv, if_true] at h2 h4 ⊢
        have e4 := ihr ty V hnd hdf hm h4
        refine ⟨e4.mono, e4.len, e4.nodup, e4.defd, ?_, ?_, e4.fresh⟩
        · intro site hs
          simp only [localSites, hf, List.mem_append, List.mem_singleton] at hs
          rcases hs with (rfl | hs) | hs
          · exact h1
          · exact hsp site hs h2
          · exact e4.locals site hs
        · intro g hg hd
          simp only [localSpreads, List.mem_append, List.mem_singleton] at hg
          rcases hg with rfl | hg
          · exact e4.mono _ (mem_of_contains hv)
          · exact e4.spreads g hg hd
      · simp only [hv, Bool.false_eq_true, if_false, List.forall_mem_append] at h2 h4 ⊢
        have hnd1 : (f :: V).Nodup := List.nodup_cons.mpr ⟨not_mem_of_contains hv, hnd⟩
        have hdf1 : allDefined doc (f :: V) := by
          intro x hx
          rcases List.mem_cons.mp hx with rfl | hx
          · rw [hf]; rfl
          · exact hdf x hx
        obtain ⟨q1, q2, q3, q4, q5, q6⟩ := he d (f :: V) hnd1 hdf1 (by simp; omega) h2.2
        have hlen1 : m ≤ (e d (f :: V)).2.length := Nat.le_trans (by simp; omega : m ≤ (f :: V).length) q3
        have e4 := ihr ty _ q4 q5 hlen1 h4
        have hfW : f ∈ (e d (f :: V)).2 := q2 f (List.mem_cons_self ..)
        refine ⟨fun x hx => e4.mono x (q2 x (List.mem_cons_of_mem _ hx)), ?_, fun _ => e4.nodup q4,
          fun _ => e4.defd q5, ?_, ?_, ?_⟩
        · exact Nat.le_trans (Nat.le_trans (by simp : V.length ≤ (f :: V).length) q3) e4.len
        · intro site hs
          simp only [localSites, hf, List.mem_append, List.mem_singleton] at hs
          rcases hs with (rfl | hs) | hs
          · exact h1
          · exact hsp site hs h2.1
          · exact e4.locals site hs
        · intro g hg hd
          simp only [localSpreads, List.mem_append, List.mem_singleton] at hg
          rcases hg with rfl | hg
          · exact e4.mono _ hfW
          · exact e4.spreads g hg hd
        · intro g hg
          rcases e4.fresh g hg with hg1 | hg1
          · rcases q6 g hg1 with hg2 | hg2
            · rcases List.mem_cons.mp hg2 with hg2 | hg2
              · subst hg2
                exact .inr (DoneQ.mono ⟨d, hf, q1⟩ e4.mono)
              · exact .inl hg2
            · exact .inr (hg2.mono e4.mono)
          · exact .inr hg1
  | inline tc dirs sub rest ihs ihr =>
    intro ty V hnd hdf hm h
    simp only [walkSels, List.forall_mem_append] at h ⊢
    obtain ⟨⟨h1, h2⟩, h4⟩ := h
    have hx1 : ∀ site ∈ [Site.dirs dirs], ∀ d ∈ site.diags s vars, Q d := by
      intro site hs; simp only [List.mem_singleton] at hs; subst hs; exact h1
    cases tc with
    | none =>
      simp only at h2 h4 ⊢
      have e3 := ihs ty V hnd hdf hm h2
      have e4 := ihr ty _ (e3.nodup hnd) (e3.defd hdf) (Nat.le_trans hm e3.len) h4
      exact WalkQ.seq [.dirs dirs] e3 e4 hx1 (by intro site hs; simpa [localSites] using hs)
        (by intro g hg; simpa [localSpreads] using hg)
    | some c =>
      simp only at h2 h4 ⊢
      by_cases hc : isCompositeType s c = true
      · simp only [hc, Bool.not_true, Bool.false_eq_true, if_false, List.forall_mem_append] at h2 h4 ⊢
        have e3 := ihs (some c) V hnd hdf hm h2.2
        have e4 := ihr ty _ (e3.nodup hnd) (e3.defd hdf) (Nat.le_trans hm e3.len) h4
        cases ty with
        | none =>
          exact WalkQ.seq [.dirs dirs] e3 e4 hx1 (by intro site hs; simpa [localSites, hc] using hs)
            (by intro g hg; simpa [localSpreads, hc] using hg)
        | some t =>
          have hx2 : ∀ site ∈ [Site.dirs dirs, Site.spread t c], ∀ d ∈ site.diags s vars, Q d := by
            intro site hs
            simp only [List.mem_cons, List.not_mem_nil, or_false] at hs
            rcases hs with rfl | rfl
            · exact h1
            · exact h2.1
          exact WalkQ.seq [.dirs dirs, .spread t c] e3 e4 hx2 (by intro site hs; simpa [localSites, hc] using hs)
            (by intro g hg; simpa [localSpreads, hc] using hg)
      · have hcf : isCompositeType s c = false := by simpa using hc
        simp only [hcf, Bool.not_false, if_true] at h2 h4 ⊢
        have e4 := ihr ty V hnd hdf hm h4
        exact WalkQ.seq [.dirs dirs] (walkQ_nil Q s doc vars none V) e4 hx1
          (by intro site hs; simpa [localSites, hcf] using hs) (by intro g hg; simpa [localSpreads, hcf] using hg)


theorem enterFrag_handlerQ (s : RSchema) (doc : RBuilt) (vars : List RVarDef) :
    ∀ (n m : Nat), doc.frags.length < n + m → HandlerQ Q s doc vars m (enterFrag s doc vars n) := by
  intro n
  induction n with
  | zero =>
    intro m hlt fr W hnd hdf hm _
    have := marked_le_frags doc W hnd hdf
    omega
  | succ n ih =>
    intro m hlt fr W hnd hdf hm h
    simp only [enterFrag] at h ⊢
    by_cases hc : (!isCompositeType s fr.tc || (reach doc fr.sels).contains fr.name) = true
    · simp only [hc, if_true] at h ⊢
      refine ⟨⟨h, ?_⟩, fun _ hx => hx, Nat.le_refl _, hnd, hdf, fun _ hg => .inl hg⟩
      intro h1 h2
      rw [h1, h2] at hc
      cases hc
    · simp only [hc, Bool.false_eq_true, if_false, List.forall_mem_append] at h ⊢
      have w := walkSels_walkQ Q s doc vars _ m (ih (m + 1) (by omega)) fr.sels (some fr.tc) W hnd hdf hm h.2
      exact ⟨⟨h.1, fun _ _ => ⟨w.locals, w.spreads⟩⟩, w.mono, w.len, w.nodup hnd, w.defd hdf, w.fresh⟩

/-- on a marked set closed under `DoneQ`, everything reachable is quiet -/
theorem reaches_quiet (s : RSchema) (doc : RBuilt) (vars : List RVarDef) (W : List String)
    (hclosed : ∀ g ∈ W, DoneQ Q s doc vars W g) :
    ∀ (ty : Option String) (t : RSels) (site : Site), Reaches s doc ty t site →
      (∀ g ∈ localSpreads s ty t, (doc.findFrag g).isSome → g ∈ W) →
      (∀ x ∈ localSites s doc ty t, ∀ d ∈ x.diags s vars, Q d) → ∀ d ∈ site.diags s vars, Q d := by
  intro ty t site hr
  induction hr with
  | here h => intro _ hl; exact hl _ h
  | fragDirs hf hd =>
    intro hs _
    obtain ⟨fr', hd', hq, _⟩ := hclosed _ (hs _ hf (by rw [hd]; rfl))
    rw [hd] at hd'; cases hd'
    exact hq
  | frag hf hd hcomp hcyc _ ih =>
    intro hs _
    obtain ⟨fr', hd', _, hq⟩ := hclosed _ (hs _ hf (by rw [hd]; rfl))
    rw [hd] at hd'; cases hd'
    exact ih (hq hcomp hcyc).2 (hq hcomp hcyc).1

/-- COMPLETENESS of the walk of one operation (no hypothesis on the document; fuel = number of fragment definitions;
    `validated_fragments` starts empty): when it reports nothing, every reachable site is quiet -/
theorem walk_complete (s : RSchema) (doc : RBuilt) (vars : List RVarDef) (ty : Option String) (t : RSels)
    (h : ∀ d ∈ (walkSels s doc vars (enterFrag s doc vars doc.frags.length) ty t []).1, Q d) :
    ∀ site, Reaches s doc ty t site → ∀ d ∈ site.diags s vars, Q d := by
  have w := walkSels_walkQ Q s doc vars _ 0 (enterFrag_handlerQ Q s doc vars doc.frags.length 1 (by omega)) t ty []
    List.nodup_nil (by intro x hx; cases hx) (Nat.zero_le _) h
  have hclosed : ∀ g ∈ (walkSels s doc vars (enterFrag s doc vars doc.frags.length) ty t []).2,
      DoneQ Q s doc vars (walkSels s doc vars (enterFrag s doc vars doc.frags.length) ty t []).2 g := by
    intro g hg
    rcases w.fresh g hg with hn | hd
    · cases hn
    · exact hd
  intro site hr
  exact reaches_quiet Q s doc vars _ hclosed ty t site hr w.spreads w.locals



/-- the walk of one operation reports `d` EXACTLY when a reachable site does -/
theorem walk_mem_iff (s : RSchema) (doc : RBuilt) (vars : List RVarDef) (ty : Option String) (t : RSels) (d : TDiag) :
    d ∈ (walkSels s doc vars (enterFrag s doc vars doc.frags.length) ty t []).1 ↔
      ∃ site, Reaches s doc ty t site ∧ d ∈ site.diags s vars := by
  constructor
  · exact walk_diag_reaches s doc vars _ ty t [] d
  · rintro ⟨site, hr, hm⟩
    exact walk_complete (fun x => x ∈ (walkSels s doc vars (enterFrag s doc vars doc.frags.length) ty t []).1)
      s doc vars ty t (fun _ h => h) site hr d hm

theorem argsDiags_mem_iff (s : RSchema) (vars : List RVarDef) (defs : List InDef) (args : List RArg) (d : TDiag) :
    d ∈ argsDiags s vars defs args ↔ ∃ a ∈ args, ∃ df, defs.find? (·.name == a.name) = some df ∧ d ∈ argDiags s vars df a := by
  unfold argsDiags
  simp only [List.mem_flatMap]
  constructor
  · rintro ⟨a, ha, h⟩
    cases hd : defs.find? (·.name == a.name) with
    | none => rw [hd] at h; cases h
    | some df => rw [hd] at h; exact ⟨a, ha, df, hd, h⟩
  · rintro ⟨a, ha, df, hd, h⟩
    exact ⟨a, ha, by rw [hd]; exact h⟩

theorem dirsDiags_mem_iff (s : RSchema) (vars : List RVarDef) (dirs : List RDir) (d : TDiag) :
    d ∈ dirsDiags s vars dirs ↔ ∃ df a, (Site.dirs dirs).HasArg s df a ∧ d ∈ argDiags s vars df a := by
  unfold dirsDiags
  simp only [List.mem_flatMap, Site.HasArg]
  constructor
  · rintro ⟨dir, hdir, h⟩
    cases hdd : s.dirs.find? (·.name == dir.name) with
    | none => rw [hdd] at h; cases h
    | some dd =>
      rw [hdd] at h
      obtain ⟨a, ha, df, hdf, hm⟩ := (argsDiags_mem_iff s vars dd.args dir.args d).mp h
      exact ⟨df, a, ⟨dir, hdir, dd, hdd, ha, hdf⟩, hm⟩
  · rintro ⟨df, a, ⟨dir, hdir, dd, hdd, ha, hdf⟩, hm⟩
    exact ⟨dir, hdir, by rw [hdd]; exact (argsDiags_mem_iff s vars dd.args dir.args d).mpr ⟨a, ha, df, hdf, hm⟩⟩

/-- what a site reports: what the per-argument check reports for one of its arguments, or an impossible spread -/
theorem site_mem_iff (s : RSchema) (vars : List RVarDef) (site : Site) (d : TDiag) :
    d ∈ site.diags s vars ↔
      (∃ df a, site.HasArg s df a ∧ d ∈ argDiags s vars df a) ∨ (∃ t c, site = .spread t c ∧ d ∈ spreadDiags s t c) := by
  cases site with
  | dirs dirs =>
    simp only [Site.diags, dirsDiags_mem_iff]
    exact ⟨fun h => .inl h, fun h => h.elim id (fun ⟨_, _, hc, _⟩ => by cases hc)⟩
  | args defs args =>
    simp only [Site.diags, argsDiags_mem_iff, Site.HasArg]
    constructor
    · rintro ⟨a, ha, df, hdf, hm⟩; exact .inl ⟨df, a, ⟨ha, hdf⟩, hm⟩
    · rintro (⟨df, a, ⟨ha, hdf⟩, hm⟩ | ⟨_, _, hc, _⟩)
      · exact ⟨a, ha, df, hdf, hm⟩
      · cases hc
  | spread t c =>
    simp only [Site.diags, Site.HasArg]
    constructor
    · intro h; exact .inr ⟨t, c, rfl, h⟩
    · rintro (⟨_, _, hf, _⟩ | ⟨t', c', hc, hm⟩)
      · exact hf.elim
      · cases hc; exact hm

/-- argument `a` with definition `df` is checked for operation `o` with the variable definitions `vars`: an argument
    of a directive of the operation, of a directive of one of its variable definitions (no variables in scope), or
    of a field or directive the operation reaches -/
inductive OpArg (s : RSchema) (doc : RBuilt) (o : ROp) : List RVarDef → InDef → RArg → Prop
  | opDir {df a} : (Site.dirs o.dirs).HasArg s df a → OpArg s doc o o.vars df a
  | varDir {v df a} : v ∈ o.vars → (Site.dirs v.dirs).HasArg s df a → OpArg s doc o [] df a
  | reached {site df a} : Reaches s doc (s.root o.ty) o.sels site → site.HasArg s df a → OpArg s doc o o.vars df a

/-- THE DOCUMENT, typed rules, diagnostic by diagnostic: `d` is reported iff the per-argument check reports it for
    an argument some operation reaches (with its own definition and that operation's variable definitions), or a
    spread some operation reaches is impossible -/
theorem typedDiags_mem_iff (s : RSchema) (ast : RAst) (d : TDiag) :
    d ∈ typedDiags s ast ↔
      ∃ o ∈ (build s ast).ops,
        (∃ vars df a, OpArg s (build s ast) o vars df a ∧ d ∈ argDiags s vars df a) ∨
          (∃ t c, Reaches s (build s ast) (s.root o.ty) o.sels (.spread t c) ∧ d ∈ spreadDiags s t c) := by
  unfold typedDiags
  simp only [List.mem_flatMap, opDiags, List.mem_append, walk_mem_iff, dirsDiags_mem_iff, site_mem_iff]
  constructor
  · rintro ⟨o, ho, h⟩
    refine ⟨o, ho, ?_⟩
    rcases h with (⟨df, a, h1, h2⟩ | ⟨v, hv, df, a, h1, h2⟩) | ⟨site, hr, h⟩
    · exact .inl ⟨o.vars, df, a, .opDir h1, h2⟩
    · exact .inl ⟨[], df, a, .varDir hv h1, h2⟩
    · rcases h with ⟨df, a, h1, h2⟩ | ⟨t, c, rfl, h2⟩
      · exact .inl ⟨o.vars, df, a, .reached hr h1, h2⟩
      · exact .inr ⟨t, c, hr, h2⟩
  · rintro ⟨o, ho, h⟩
    refine ⟨o, ho, ?_⟩
    rcases h with ⟨vars, df, a, hoa, h2⟩ | ⟨t, c, hr, h2⟩
    · cases hoa with
      | opDir h1 => exact .inl (.inl ⟨df, a, h1, h2⟩)
      | varDir hv h1 => exact .inl (.inr ⟨_, hv, df, a, h1, h2⟩)
      | reached hr h1 => exact .inr ⟨_, hr, .inl ⟨df, a, h1, h2⟩⟩
    · exact .inr ⟨_, hr, .inr ⟨t, c, rfl, h2⟩⟩

end Apollo.ExecRules.Mem
