import ApolloModel.Proofs.ParserTree38
import ApolloModel.Proofs.ParserExactS16
/-
C08 growth (pipeline), part 39: the exact guards — `definitionFit` (exact) of the AST from `Exact.itemFit` of the strict
items, and `Exact.itemFitX → Exact.itemFit` on strict items (all root operation types have their named type).
-/
set_option linter.unusedSimpArgs false
set_option linter.unusedVariables false

namespace Apollo.Parse.Exact
open Apollo.Rowan hiding Str
open Apollo.Lex hiding Str

/-- the guard of the AST definition from the guard of the strict item -/
theorem definitionFit_of_strict_item (rl : Nat) (i : DocItem) (a : Ast.Item) (h : i.strict = some a) (hf : itemFit rl i) :
    definitionFit rl a.2 := by
  cases i with
  | exec oe d =>
    simp only [DocItem.strict, Option.some.injEq] at h
    subst h
    have hf' : execFit rl d := hf
    cases d <;> first | exact hf' | exact absurd hf' (by simp [execFit])
  | loose l =>
    simp only [DocItem.strict, Option.map_eq_some_iff] at h
    obtain ⟨d, hd, rfl⟩ := h
    show itemFit rl (itemOfDef false d)
    rw [itemOfDef_of_strict l d hd]
    exact hf

theorem definitionFit_of_strict_items (rl : Nat) : ∀ (its : List DocItem) (items : List Ast.Item), strictItems its = some items →
    (∀ i ∈ its, itemFit rl i) → ∀ x ∈ items.map (·.2), definitionFit rl x
  | [], items, h, _ => by
    simp only [strictItems, Option.some.injEq] at h
    subst h
    intro x hx; cases hx
  | i :: r, items, h, hf => by
    simp only [strictItems] at h
    cases hi : i.strict with
    | none => rw [hi] at h; simp at h
    | some a =>
      cases hr : strictItems r with
      | none => rw [hi, hr] at h; simp at h
      | some b =>
        rw [hi, hr] at h
        simp only [Option.some.injEq] at h
        subst h
        intro x hx
        simp only [List.map_cons, List.mem_cons] at hx
        rcases hx with rfl | hx
        · exact definitionFit_of_strict_item rl i a hi (hf i List.mem_cons_self)
        · exact definitionFit_of_strict_items rl r b hr (fun j hj => hf j (List.mem_cons_of_mem _ hj)) x hx


theorem fullRoots_named : ∀ (roots : List (Ast.OpType × Option Ast.Str)) (rs : List (Ast.OpType × Ast.Str)),
    fullRoots roots = some rs → ∀ r ∈ roots, r.2 ≠ none
  | [], _, _ => by intro r hr; cases hr
  | (op, some nm) :: t, rs, h => by
    simp only [fullRoots, Option.map_eq_some_iff] at h
    obtain ⟨r', hr', _⟩ := h
    intro r hr
    rcases List.mem_cons.mp hr with rfl | hr
    · intro h0; cases h0
    · exact fullRoots_named t r' hr' r hr
  | (_, none) :: _, _, h => by simp [fullRoots] at h

/-- **step (2)**: on a strict item the sound-side guard `itemFitX` is the complete-side guard `itemFit` -/
theorem itemFit_of_itemFitX_strict (b : Nat) (i : DocItem) (a : Ast.Item) (hs : i.strict = some a) (h : itemFitX b i) :
    itemFit b i := by
  cases i with
  | exec oe d => exact h
  | loose l =>
    simp only [DocItem.strict, Option.map_eq_some_iff] at hs
    obtain ⟨d, hd, _⟩ := hs
    refine looseFit_of_looseFitX b l ?_ h
    rintro dd ds roots (rfl | rfl)
    · simp only [LooseDef.strict, Option.map_eq_some_iff] at hd
      obtain ⟨rs, hr, _⟩ := hd
      exact fullRoots_named roots rs hr
    · simp only [LooseDef.strict, Option.map_eq_some_iff] at hd
      obtain ⟨rs, hr, _⟩ := hd
      exact fullRoots_named roots rs hr

end Apollo.Parse.Exact
