import ApolloModel.Proofs.SchemaBuild
/-
Helper lemmas for C13, part 2: moving the queued ("orphan") extensions of a type behind its definition.
-/
namespace Apollo.SchemaBuild

/-- `x` is a type extension for the name `n` -/
def isExtOf (n : Name) (x : Def) : Bool :=
  match x.tag with
  | .typeExt _ => x.name == n
  | _ => false

/-- `x` is a type definition for the name `n` -/
def isDefOf (n : Name) (x : Def) : Bool :=
  match x.tag with
  | .typeDef _ => x.name == n
  | _ => false

/-- the builder with the queued extensions of `n` removed -/
def strip (n : Name) (s : Builder) : Builder :=
  { s with orphanQ := s.orphanQ.filter (fun e => !(e.name == n)) }

/-- the queued extensions of `n` -/
def queued (n : Name) (s : Builder) : List Def := s.orphanQ.filter (fun e => e.name == n)

@[simp] theorem strip_types (n : Name) (s : Builder) : (strip n s).types = s.types := rfl
@[simp] theorem strip_errors (n : Name) (s : Builder) : (strip n s).errors = s.errors := rfl
@[simp] theorem push_types (s : Builder) (p : Pos) (d : Diag) : (push s p d).types = s.types := rfl
@[simp] theorem push_orphanQ (s : Builder) (p : Pos) (d : Diag) : (push s p d).orphanQ = s.orphanQ := rfl
theorem strip_push (n : Name) (s : Builder) (p : Pos) (d : Diag) : strip n (push s p d) = push (strip n s) p d := rfl

theorem filter_ne_eq {n m : Name} (h : m ≠ n) (q : List Def) :
    (q.filter (fun e => !(e.name == n))).filter (fun e => e.name == m) = q.filter (fun e => e.name == m) := by
  rw [List.filter_filter]
  congr 1
  funext e
  by_cases c : e.name = m
  · subst c; simp [h]
  · simp [c]

theorem filter_eq_ne {n m : Name} (h : m ≠ n) (q : List Def) :
    (q.filter (fun e => !(e.name == m))).filter (fun e => e.name == n) = q.filter (fun e => e.name == n) := by
  rw [List.filter_filter]
  congr 1
  funext e
  by_cases c : e.name = n
  · subst c; simp [Ne.symm h]
  · simp [c]

theorem filter_ne_comm (n m : Name) (q : List Def) :
    (q.filter (fun e => !(e.name == m))).filter (fun e => !(e.name == n))
      = (q.filter (fun e => !(e.name == n))).filter (fun e => !(e.name == m)) := by
  rw [List.filter_filter, List.filter_filter]
  congr 1
  funext e
  exact Bool.and_comm _ _

/-! #### a definition that does not mention `n` neither sees nor touches the queued extensions of `n` -/

theorem stepTypeDef_strip (n : Name) (s : Builder) (k : Kind) (x : Def) (hx : x.name ≠ n) :
    strip n (stepTypeDef s k x) = stepTypeDef (strip n s) k x := by
  unfold stepTypeDef
  simp only [strip_types]
  cases hf : findType s.types x.name with
  | none =>
    simp only [strip, filter_ne_eq hx, filter_ne_comm]
  | some prev =>
    simp only [show (strip n s).ignoreBuiltin = s.ignoreBuiltin from rfl]
    split
    · rfl
    · split <;> rfl

theorem stepTypeExt_strip (n : Name) (s : Builder) (k : Kind) (x : Def) (hx : x.name ≠ n) :
    strip n (stepTypeExt s k x) = stepTypeExt (strip n s) k x := by
  unfold stepTypeExt
  simp only [strip_types]
  cases hf : findType s.types x.name with
  | none =>
    simp [strip, List.filter_append, hx]
  | some t =>
    simp only []
    split
    · rfl
    · rfl

theorem stepDirectiveDef_strip (n : Name) (s : Builder) (x : Def) :
    strip n (stepDirectiveDef s x) = stepDirectiveDef (strip n s) x := by
  unfold stepDirectiveDef
  have : (strip n s).directiveDefs = s.directiveDefs := rfl
  rw [this]
  cases findDir s.directiveDefs x.name with
  | none => rfl
  | some prev =>
    simp only []
    split <;> rfl

theorem step_strip (n : Name) (s : Builder) (x : Def) (h1 : isExtOf n x = false) (h2 : isDefOf n x = false) :
    strip n (step s x) = step (strip n s) x := by
  unfold step
  cases ht : x.tag with
  | schemaDef =>
    simp only []
    have e1 : (strip n s).schemaFound = s.schemaFound := rfl
    rw [e1]
    split <;> rfl
  | schemaExt =>
    simp only []
    have e1 : (strip n s).schemaFound = s.schemaFound := rfl
    rw [e1]
    split <;> rfl
  | directiveDef => exact stepDirectiveDef_strip n s x
  | typeDef k =>
    have : x.name ≠ n := by
      intro hn; simp [isDefOf, ht, hn] at h2
    exact stepTypeDef_strip n s k x this
  | typeExt k =>
    have : x.name ≠ n := by
      intro hn; simp [isExtOf, ht, hn] at h1
    exact stepTypeExt_strip n s k x this
  | operation => rfl
  | fragment => rfl

/-! #### … and keeps `n` undefined and the queue of `n` unchanged -/

theorem findType_append_none (ts : List TypeEntry) (t : TypeEntry) (n : Name) (h : findType ts n = none)
    (ht : t.name ≠ n) : findType (ts ++ [t]) n = none := by
  unfold findType at *
  rw [List.find?_append, h]
  simp [ht]

theorem findType_setType_none (ts : List TypeEntry) (m : Name) (t' : TypeEntry) (n : Name)
    (h : findType ts n = none) (ht : t'.name ≠ n) : findType (setType ts m t') n = none := by
  unfold findType setType at *
  rw [List.find?_eq_none] at *
  intro x hx
  rw [List.mem_map] at hx
  obtain ⟨y, hy, rfl⟩ := hx
  have := h y hy
  split
  · simpa using ht
  · exact this

theorem extendType_name (t : TypeEntry) (e : Def) (errs : List Err) : (extendType t e errs).1.name = t.name := rfl
theorem extendType_kind (t : TypeEntry) (e : Def) (errs : List Err) : (extendType t e errs).1.kind = t.kind := rfl

theorem adoptStep_name (k : Kind) (acc : TypeEntry × List Err) (e : Def) : (adoptStep k acc e).1.name = acc.1.name := by
  unfold adoptStep; split <;> rfl
theorem adoptStep_kind (k : Kind) (acc : TypeEntry × List Err) (e : Def) : (adoptStep k acc e).1.kind = acc.1.kind := by
  unfold adoptStep; split <;> rfl

theorem foldl_adoptStep_name (k : Kind) (es : List Def) : ∀ (acc : TypeEntry × List Err),
    (es.foldl (adoptStep k) acc).1.name = acc.1.name ∧ (es.foldl (adoptStep k) acc).1.kind = acc.1.kind := by
  induction es with
  | nil => intro acc; simp
  | cons e es ih =>
    intro acc
    simp only [List.foldl_cons]
    rw [(ih _).1, (ih _).2, adoptStep_name, adoptStep_kind]
    exact ⟨rfl, rfl⟩

theorem typeFromAst_name (k : Kind) (d : Def) (exts : List Def) (errs : List Err) :
    (typeFromAst k d exts errs).1.name = d.name ∧ (typeFromAst k d exts errs).1.kind = k := by
  unfold typeFromAst
  rw [(foldl_adoptStep_name k exts _).1, (foldl_adoptStep_name k exts _).2]
  exact ⟨rfl, rfl⟩

theorem find_some_name (ts : List TypeEntry) (m : Name) (t : TypeEntry) (h : findType ts m = some t) : t.name = m := by
  unfold findType at h
  have := List.find?_some h
  simpa using this

theorem step_keeps_undefined (n : Name) (s : Builder) (x : Def) (h2 : isDefOf n x = false)
    (hn : findType s.types n = none) : findType (step s x).types n = none := by
  unfold step
  cases ht : x.tag with
  | schemaDef => simp only []; split <;> simpa using hn
  | schemaExt => simp only []; split <;> simpa using hn
  | directiveDef =>
    simp only []
    unfold stepDirectiveDef
    cases findDir s.directiveDefs x.name with
    | none => simpa using hn
    | some prev => simp only []; split <;> simpa using hn
  | typeDef k =>
    have hx : x.name ≠ n := by
      intro hn; simp [isDefOf, ht, hn] at h2
    simp only []
    unfold stepTypeDef
    cases hf : findType s.types x.name with
    | none =>
      simp only []
      apply findType_append_none _ _ _ hn
      rw [(typeFromAst_name _ _ _ _).1]; exact hx
    | some prev =>
      simp only []
      split
      · exact hn
      · split <;> simpa using hn
  | typeExt k =>
    simp only []
    unfold stepTypeExt
    cases hf : findType s.types x.name with
    | none => simpa using hn
    | some t =>
      simp only []
      split
      · simp only []
        apply findType_setType_none _ _ _ _ hn
        rw [extendType_name, find_some_name _ _ _ hf]
        intro hxn
        rw [hxn] at hf
        rw [hf] at hn
        cases hn
      · simpa using hn
  | operation => simpa [push] using hn
  | fragment => simpa [push] using hn

theorem step_queued (n : Name) (s : Builder) (x : Def) (h1 : isExtOf n x = false) (h2 : isDefOf n x = false) :
    queued n (step s x) = queued n s := by
  have h := step_strip n s x h1 h2
  unfold step
  cases ht : x.tag with
  | schemaDef => simp only []; split <;> rfl
  | schemaExt => simp only []; split <;> rfl
  | directiveDef =>
    simp only []
    unfold stepDirectiveDef
    cases findDir s.directiveDefs x.name with
    | none => rfl
    | some prev => simp only []; split <;> rfl
  | typeDef k =>
    have hx : x.name ≠ n := by
      intro hn; simp [isDefOf, ht, hn] at h2
    simp only []
    unfold stepTypeDef
    cases hf : findType s.types x.name with
    | none => simp only [queued]; exact filter_eq_ne hx _
    | some prev =>
      simp only []
      split
      · rfl
      · split <;> rfl
  | typeExt k =>
    have hx : x.name ≠ n := by
      intro hn; simp [isExtOf, ht, hn] at h1
    simp only []
    unfold stepTypeExt
    cases hf : findType s.types x.name with
    | none => simp [queued, List.filter_append, hx]
    | some t =>
      simp only []
      split <;> rfl
  | operation => rfl
  | fragment => rfl

/-! #### an extension of the still undefined `n` is just queued -/

theorem step_ext_orphan (n : Name) (s : Builder) (e : Def) (he : isExtOf n e = true)
    (hn : findType s.types n = none) : step s e = { s with orphanQ := s.orphanQ ++ [e] } := by
  unfold isExtOf at he
  cases ht : e.tag with
  | typeExt k =>
    rw [ht] at he
    have hname : e.name = n := by simpa using he
    unfold step
    rw [ht]
    simp only []
    unfold stepTypeExt
    rw [hname, hn]
  | _ => rw [ht] at he; cases he

theorem strip_ext_orphan (n : Name) (s : Builder) (e : Def) (he : isExtOf n e = true)
    (hn : findType s.types n = none) :
    strip n (step s e) = strip n s ∧ queued n (step s e) = queued n s ++ [e]
      ∧ findType (step s e).types n = none := by
  rw [step_ext_orphan n s e he hn]
  have hname : e.name = n := by
    unfold isExtOf at he
    cases ht : e.tag with
    | typeExt k => rw [ht] at he; simpa using he
    | _ => rw [ht] at he; cases he
  refine ⟨?_, ?_, hn⟩
  · simp [strip, List.filter_append, hname]
  · simp [queued, List.filter_append, hname]

/-- running a list of definitions none of which defines `n`: the queued extensions of `n` are
    collected in order, and everything else evolves as if they were not there -/
theorem addDocument_strip (n : Name) : ∀ (l : List Def) (s : Builder),
    (∀ x ∈ l, isDefOf n x = false) → findType s.types n = none →
    strip n (addDocument s l) = addDocument (strip n s) (l.filter (fun x => !(isExtOf n x)))
    ∧ queued n (addDocument s l) = queued n s ++ l.filter (isExtOf n)
    ∧ findType (addDocument s l).types n = none := by
  intro l
  induction l with
  | nil => intro s _ hn; simp [addDocument, hn]
  | cons x l ih =>
    intro s hl hn
    have hx := hl x (by simp)
    have hl' : ∀ y ∈ l, isDefOf n y = false := fun y hy => hl y (by simp [hy])
    simp only [addDocument, List.foldl_cons] at ih ⊢
    by_cases he : isExtOf n x = true
    · obtain ⟨a, b, c⟩ := strip_ext_orphan n s x he hn
      obtain ⟨i1, i2, i3⟩ := ih (step s x) hl' c
      refine ⟨?_, ?_, i3⟩
      · rw [i1, a]; simp [he]
      · rw [i2, b]; simp [he]
    · have he' : isExtOf n x = false := by simpa using he
      have c := step_keeps_undefined n s x hx hn
      obtain ⟨i1, i2, i3⟩ := ih (step s x) hl' c
      refine ⟨?_, ?_, i3⟩
      · rw [i1, step_strip n s x he' hx]; simp [he']
      · rw [i2, step_queued n s x he' hx]; simp [he']

/-! #### the definition of `n` arrives -/

/-- `type_definition!` for a fresh name, written in terms of the stripped builder and the queue of `n` -/
def defineWith (k : Kind) (d : Def) (u : Builder) (exts : List Def) : Builder :=
  let r := typeFromAst k d exts u.errors
  { u with types := u.types ++ [r.1], errors := r.2 }

theorem step_define (n : Name) (k : Kind) (d : Def) (s : Builder) (ht : d.tag = .typeDef k) (hname : d.name = n)
    (hn : findType s.types n = none) : step s d = defineWith k d (strip n s) (queued n s) := by
  unfold step
  rw [ht]
  simp only []
  unfold stepTypeDef
  rw [hname, hn]
  rfl

/-- after the definition, an extension is handled in place exactly as adopting it from the queue would
    have handled it: `extend_ast` for the definition's kind, the kind-mismatch diagnostic otherwise -/
theorem step_ext_defined (n : Name) (k : Kind) (u : Builder) (ts : List TypeEntry) (t : TypeEntry) (e : Def)
    (hu : u.types = ts ++ [t]) (hts : findType ts n = none) (htn : t.name = n) (htk : t.kind = k)
    (k' : Kind) (he : e.tag = .typeExt k') (hen : e.name = n) :
    step u e = { u with types := ts ++ [(adoptStep k (t, u.errors) e).1], errors := (adoptStep k (t, u.errors) e).2 } := by
  unfold step
  rw [he]
  simp only []
  unfold stepTypeExt
  have hfind : findType u.types e.name = some t := by
    rw [hu, hen]
    unfold findType at *
    rw [List.find?_append, hts]
    simp [htn]
  rw [hfind]
  by_cases hk : k' = k
  · subst hk
    simp only [htk, if_true, adoptStep, he]
    have hset : setType u.types e.name (extendType t e u.errors).1 = ts ++ [(extendType t e u.errors).1] := by
      rw [hu, hen]
      unfold setType
      rw [List.map_append]
      congr 1
      · unfold findType at hts
        rw [List.find?_eq_none] at hts
        have hm : List.map (fun t_1 => if (t_1.name == n) = true then (extendType t e u.errors).1 else t_1) ts
            = List.map id ts := by
          apply List.map_congr_left
          intro y hy
          have := hts y hy
          simp only [id]
          split
          · rename_i h; exact absurd h this
          · rfl
        rw [hm, List.map_id]
      · simp [htn]
    rw [hset]
  · have hk2 : ¬ (k = k') := fun h => hk h.symm
    have hk3 : ¬ (DefTag.typeExt k' = DefTag.typeExt k) := by intro h; injection h with h; exact hk h
    simp only [if_false, adoptStep, he, hk3, push, kindOfExt, htk, ← hu, hk2]

theorem addDocument_exts_defined (n : Name) (k : Kind) (ts : List TypeEntry) (hts : findType ts n = none) :
    ∀ (es : List Def) (u : Builder) (t : TypeEntry),
    u.types = ts ++ [t] → t.name = n → t.kind = k →
    (∀ e ∈ es, (∃ k', e.tag = .typeExt k') ∧ e.name = n) →
    addDocument u es = { u with types := ts ++ [(es.foldl (adoptStep k) (t, u.errors)).1],
                                errors := (es.foldl (adoptStep k) (t, u.errors)).2 } := by
  intro es
  induction es with
  | nil => intro u t hu _ _ _; simp [addDocument, ← hu]
  | cons e es ih =>
    intro u t hu htn htk hes
    obtain ⟨⟨k', he⟩, hen⟩ := hes e (by simp)
    simp only [addDocument, List.foldl_cons] at ih ⊢
    rw [step_ext_defined n k u ts t e hu hts htn htk k' he hen]
    have := ih { u with types := ts ++ [(adoptStep k (t, u.errors) e).1], errors := (adoptStep k (t, u.errors) e).2 }
      (adoptStep k (t, u.errors) e).1 rfl (by rw [adoptStep_name]; exact htn) (by rw [adoptStep_kind]; exact htk)
      (fun x hx => hes x (by simp [hx]))
    rw [this]

/-- the core of `ext_commutes`: extensions of the undefined type `n` (of any kind) interleaved with other definitions, then the definition of `n` = the other definitions,
    the definition of `n`, then the extensions, in their order -/
theorem type_ext_commutes_state (n : Name) (k : Kind) (d : Def) (s : Builder) (l : List Def)
    (hfresh : findType s.types n = none) (ht : d.tag = .typeDef k) (hname : d.name = n)
    (hnodef : ∀ x ∈ l, isDefOf n x = false) :
    addDocument s (l ++ [d]) =
      addDocument s (l.filter (fun x => !(isExtOf n x)) ++ d :: l.filter (isExtOf n)) := by
  let mid := l.filter (fun x => !(isExtOf n x))
  let es := l.filter (isExtOf n)
  obtain ⟨a1, a2, a3⟩ := addDocument_strip n l s hnodef hfresh
  have hmid_nodef : ∀ x ∈ mid, isDefOf n x = false := fun x hx => hnodef x (List.mem_filter.mp hx).1
  obtain ⟨b1, b2, b3⟩ := addDocument_strip n mid s hmid_nodef hfresh
  have hmidmid : mid.filter (fun x => !(isExtOf n x)) = mid := by
    apply List.filter_eq_self.mpr
    intro x hx
    exact (List.mem_filter.mp hx).2
  have hmidno : mid.filter (isExtOf n) = [] := by
    apply List.filter_eq_nil_iff.mpr
    intro x hx
    have := (List.mem_filter.mp hx).2
    simpa using this
  rw [hmidmid] at b1
  rw [hmidno, List.append_nil] at b2
  -- left: definition adopts queue ++ es
  rw [addDocument_append]
  have hL : addDocument (addDocument s l) [d] = step (addDocument s l) d := rfl
  rw [hL, step_define n k d _ ht hname a3, a1, a2]
  -- right
  have hR : addDocument s (mid ++ d :: es) = addDocument (step (addDocument s mid) d) es := by
    rw [addDocument_append]; rfl
  show _ = addDocument s (mid ++ d :: es)
  rw [hR, step_define n k d _ ht hname b3, b1, b2]
  -- apply the extensions one by one
  have hes : ∀ e ∈ es, (∃ k', e.tag = .typeExt k') ∧ e.name = n := by
    intro e he
    have hm := List.mem_filter.mp he
    have h2 := hm.2
    unfold isExtOf at h2
    cases hte : e.tag with
    | typeExt k' => rw [hte] at h2; exact ⟨⟨k', rfl⟩, by simpa using h2⟩
    | _ => rw [hte] at h2; cases h2
  have hts : findType (addDocument (strip n s) mid).types n = none := by
    rw [← b1]; simpa using b3
  have hname' := typeFromAst_name k d (queued n s) (addDocument (strip n s) mid).errors
  rw [addDocument_exts_defined n k (addDocument (strip n s) mid).types hts es
    (defineWith k d (addDocument (strip n s) mid) (queued n s))
    (typeFromAst k d (queued n s) (addDocument (strip n s) mid).errors).1 rfl
    (by rw [hname'.1]; exact hname) hname'.2 hes]
  simp only [defineWith, typeFromAst, List.foldl_append]
  rfl

end Apollo.SchemaBuild
