import ApolloModel.Proofs.ParserExactT5
/-
Exact soundness for the type-system family, part 6: a small calculus for `Settled` (the current token is the head of the
queue and is not ignored).  `SE m`: every successful run of `m` ends settled or doomed; `SP m`: it does so when it starts
settled.  Every `withNode` starts by skipping ignored tokens and every `bump` ends by doing so, hence the definitions
end settled — the fact `defSound_of_loose` (ParserExactS14) asks for.
-/
set_option linter.unusedSimpArgs false
namespace Apollo.Parse.Exact
open Apollo.Rowan hiding Str
open Apollo.Lex hiding Str

def SE {α : Type} (m : PI α) : Prop := ∀ s a s', TW s → m.run s = .ok a s' → Settled s' ∨ Doomed s'
def SP {α : Type} (m : PI α) : Prop := ∀ s a s', TW s → m.run s = .ok a s' → Settled s → Settled s' ∨ Doomed s'

theorem settled_nil (s : PState) (h : Toks s = []) : Settled s := by
  have hc : s.current = none := by
    unfold Toks at h
    cases hcur : s.current with
    | none => rfl
    | some t => rw [hcur] at h; simp at h
  exact ⟨by rw [hc, h]; rfl, by intro t ht; rw [hc] at ht; cases ht⟩

theorem SE.sp {α : Type} {m : PI α} (h : SE m) : SP m := fun s a s' w hr _ => h s a s' w hr

theorem sp_bind {α β : Type} {m : PI α} {f : α → PI β} (gm : Good m) (gf : ∀ a, Good (f a)) (hm : SP m) (hf : ∀ a, SP (f a)) :
    SP (m >>= f) := by
  intro s b s' w h hs
  obtain ⟨a, s1, h1, h2⟩ := bind_dec m f s s' b h
  have a1 := gm s a s1 w h1
  rcases hm s a s1 w h1 hs with h3 | h3
  · exact hf a s1 b s' a1.w h2 h3
  · exact Or.inr ((gf a s1 b s' a1.w h2).doom h3)

theorem se_bindR {α β : Type} {m : PI α} {f : α → PI β} (gm : Good m) (hf : ∀ a, SE (f a)) : SE (m >>= f) := by
  intro s b s' w h
  obtain ⟨a, s1, h1, h2⟩ := bind_dec m f s s' b h
  exact hf a s1 b s' (gm s a s1 w h1).w h2

theorem se_bindL {α β : Type} {m : PI α} {f : α → PI β} (gm : Good m) (gf : ∀ a, Good (f a)) (hm : SE m) (hf : ∀ a, SP (f a)) :
    SE (m >>= f) := by
  intro s b s' w h
  obtain ⟨a, s1, h1, h2⟩ := bind_dec m f s s' b h
  have a1 := gm s a s1 w h1
  rcases hm s a s1 w h1 with h3 | h3
  · exact hf a s1 b s' a1.w h2 h3
  · exact Or.inr ((gf a s1 b s' a1.w h2).doom h3)

theorem sp_pure {α : Type} (a : α) : SP (pure a : PI α) := by
  intro s a' s' _ h hs
  rw [run_pure] at h
  injection h with _ h; subst h
  exact Or.inl hs

theorem sp_ite {α : Type} (c : Bool) (a b : PI α) (ha : SP a) (hb : SP b) : SP (if c then a else b) := by
  cases c <;> simp [ha, hb]

theorem se_ite {α : Type} (c : Bool) (a b : PI α) (ha : SE a) (hb : SE b) : SE (if c then a else b) := by
  cases c <;> simp [ha, hb]

theorem settled_peekObs {s s' : PState} {o : Option Tok} (p : PeekObs s s' o) (h : Settled s) : Settled s' := by
  refine ⟨by rw [p.current, p.toks]; exact p.head, ?_⟩
  intro t ht
  rw [p.current, p.head] at ht
  exact h.2 t (by rw [h.1]; exact ht)

theorem sp_peekToken : SP peekToken := fun s o s' w h hs => Or.inl (settled_peekObs (peekToken_obs s s' o w h) hs)

theorem sp_peek : SP peek := by
  intro s k s' w h hs
  obtain ⟨o, p, _⟩ := peek_obs s s' k w h
  exact Or.inl (settled_peekObs p hs)

theorem sp_peekData : SP peekData := sp_bind good_peekToken (fun _ => good_pure _) sp_peekToken (fun _ => sp_pure _)

theorem sp_getCurrent : SP getCurrent := by
  intro s a s' w h hs
  unfold getCurrent at h
  simp only [] at h
  injection h with _ h; subst h
  exact Or.inl hs

theorem sp_srcLen : SP srcLen := by
  intro s a s' w h hs
  unfold srcLen at h
  simp only [] at h
  injection h with _ h; subst h
  exact Or.inl hs

theorem sp_stuck {α : Type} : SP (PI.stuck : PI α) := by
  intro s a s' _ h; simp [PI.stuck] at h

theorem sp_outOfFuel {α : Type} : SP (PI.outOfFuel : PI α) := by
  intro s a s' _ h; simp [PI.outOfFuel] at h

theorem se_err : SE err := by
  intro s _ s' w h
  unfold err at h
  obtain ⟨o, s1, h1, h2⟩ := bind_dec peekToken _ s s' () h
  have p := peekToken_obs s s1 o w h1
  cases o with
  | none =>
    simp only [] at h2
    rw [run_pure] at h2
    injection h2 with _ h2
    subst h2
    refine Or.inl (settled_nil _ ?_)
    rw [p.toks]
    have := p.head
    cases ht : Toks s with
    | nil => rfl
    | cons a b => rw [ht] at this; cases this
  | some t =>
    simp only [] at h2
    exact Or.inr (pushErr_adv _ s1 s' p.w h2).2

theorem se_bump (k : SK) : SE (bump k) := by
  intro s _ s' w h
  unfold bump at h
  obtain ⟨_, s1, h1, h2⟩ := bind_dec (eat k) _ s s' () h
  obtain ⟨_, _, _, hset⟩ := skipIgnored_spec s1 s' (good_eat k s () s1 w h1).w h2
  exact Or.inl hset

theorem se_expect (k : Kind) (sk : SK) : SE (expect k sk) := by
  intro s _ s' w h
  rcases (expect_spec k sk s s' w h).2 with ⟨_, e⟩ | hd | ⟨_, _, _, _, _, _, _, hset⟩
  · exact Or.inl (settled_nil _ (by have := e.toks; rw [‹Toks s = []›] at this; simpa using this.symm))
  · exact Or.inr hd
  · exact Or.inl hset

/-- a node starts by skipping ignored tokens, so a settled-preserving body makes it settled-establishing -/
theorem se_withNode {α : Type} (K : SK) (body : PI α) (hb : SP body) : SE (withNode K body) := by
  intro s a s' w h
  obtain ⟨s0, s2, o0, hr, o2⟩ := withNode_dec K body s s' a h
  obtain ⟨_, s1, hs, hbr⟩ := bind_dec skipIgnored _ s0 s2 a hr
  obtain ⟨_, e, _, hset⟩ := skipIgnored_spec s0 s1 (o0.w w) hs
  rcases hb s1 a s2 e.w hbr hset with h3 | h3
  · exact Or.inl (settled_obs o2 h3)
  · exact Or.inr (o2.doomed.mpr h3)

theorem se_name : SE name := by
  unfold name
  refine se_bindR good_peekToken ?_
  intro o
  cases o with
  | none => exact se_err
  | some t => exact se_ite _ _ _ (se_withNode _ _ (se_bump _).sp) se_err

theorem se_nameOrErr : SE nameOrErr := by
  unfold nameOrErr
  exact se_bindR good_peek (fun _ => se_ite _ _ _ se_name se_err)

theorem se_argumentsRest (n : Nat) (c : Bool) : SE (argumentsRest n c) :=
  se_bindR (good_peekWhileKind _ _ (good_argument n c)) (fun _ => se_expect _ _)

theorem se_arguments (n : Nat) (c : Bool) : SE (arguments n c) := by
  rw [arguments_eq]
  refine se_withNode _ _ (SE.sp (se_bindR (good_bump _) (fun _ => se_bindR good_peek (fun k => ?_))))
  exact se_ite _ _ _ (se_bindR (good_argument n c) (fun _ => se_argumentsRest n c)) (se_bindR good_err (fun _ => se_argumentsRest n c))

theorem se_directive (n : Nat) (c : Bool) : SE (directive n c) := by
  rw [directive_eq]
  refine se_withNode _ _ (SE.sp (se_bindR (good_expect _ _) (fun _ => ?_)))
  refine se_bindL good_name (fun _ => good_bind _ _ good_peek (fun k => good_ite _ _ _ (good_arguments n c) (good_pure _))) se_name (fun _ => ?_)
  exact sp_bind good_peek (fun k => good_ite _ _ _ (good_arguments n c) (good_pure _)) sp_peek
    (fun k => sp_ite _ _ _ (se_arguments n c).sp (sp_pure _))

theorem sp_peekWhileKindLoop (k : Kind) (body : PI Unit) (gb : Good body) (hb : SP body) : ∀ fuel, SP (peekWhileKindLoop k body fuel)
  | 0 => sp_outOfFuel
  | fuel + 1 => by
    unfold peekWhileKindLoop
    refine sp_bind good_peek ?_ sp_peek ?_
    · intro o
      cases o with
      | none => exact good_pure _
      | some kind =>
        refine good_ite _ _ _ (good_pure _) ?_
        refine good_bind _ _ good_getCurrent (fun before => good_bind _ _ gb (fun _ => good_bind _ _ good_getCurrent (fun after => ?_)))
        exact good_ite _ _ _ good_stuck (good_peekWhileKindLoop k body gb fuel)
    · intro o
      cases o with
      | none => exact sp_pure _
      | some kind =>
        refine sp_ite _ _ _ (sp_pure _) ?_
        refine sp_bind good_getCurrent (fun before => good_bind _ _ gb (fun _ => good_bind _ _ good_getCurrent (fun after =>
          good_ite _ _ _ good_stuck (good_peekWhileKindLoop k body gb fuel)))) sp_getCurrent (fun before => ?_)
        refine sp_bind gb (fun _ => good_bind _ _ good_getCurrent (fun after =>
          good_ite _ _ _ good_stuck (good_peekWhileKindLoop k body gb fuel))) hb (fun _ => ?_)
        refine sp_bind good_getCurrent (fun after => good_ite _ _ _ good_stuck (good_peekWhileKindLoop k body gb fuel)) sp_getCurrent (fun after => ?_)
        exact sp_ite _ _ _ sp_stuck (sp_peekWhileKindLoop k body gb hb fuel)

theorem sp_peekWhileKind (k : Kind) (body : PI Unit) (gb : Good body) (hb : SP body) : SP (peekWhileKind k body) :=
  sp_bind good_srcLen (fun _ => good_peekWhileKindLoop k body gb _) sp_srcLen (fun _ => sp_peekWhileKindLoop k body gb hb _)

theorem se_directives (n : Nat) (c : Bool) : SE (directives n c) := by
  unfold directives
  exact se_withNode _ _ (sp_peekWhileKind _ _ (good_directive n c) (se_directive n c).sp)

theorem sp_optDirsEnd (n : Nat) : SP (optDirsEnd n) := by
  unfold optDirsEnd
  exact sp_bind good_peek (fun _ => good_ite _ _ _ (good_directives n true) (good_pure _)) sp_peek
    (fun _ => sp_ite _ _ _ (se_directives n true).sp (sp_pure _))

/-- `{ Item+ }` (and `( Item+ )`) end with `expect close` -/
theorem se_bracedBody (openSk : SK) (first : Option Kind → Bool) (p : Kind → Bool) (item : PI Unit) (closeK : Kind) (closeSk : SK)
    (gi : Good item) : SE (bracedBody openSk first p item closeK closeSk) := by
  unfold bracedBody
  have ht : SE (bracedTail p item closeK closeSk) :=
    se_bindR (good_peekWhile _ (good_itemsBody p item gi)) (fun _ => se_expect _ _)
  exact se_bindR (good_bump _) (fun _ => se_bindR good_peek (fun k => se_ite _ _ _ (se_bindR gi (fun _ => ht)) (se_bindR good_err (fun _ => ht))))

theorem se_enumValuesDefinition (n : Nat) : SE (enumValuesDefinition n) := by
  rw [enumValuesDefinition_eq]
  exact se_withNode _ _ (se_bracedBody _ _ _ _ _ _ (acc_enumValueDefinition early_false n).1).sp

theorem se_inputFieldsDefinition (n : Nat) : SE (inputFieldsDefinition n) := by
  rw [inputFieldsDefinition_eq]
  exact se_withNode _ _ (se_bracedBody _ _ _ _ _ _ (acc_ivd n).1).sp

theorem se_fieldsDefinition (n : Nat) : SE (fieldsDefinition n) := by
  rw [fieldsDefinition_eq]
  exact se_withNode _ _ (se_bracedBody _ _ _ _ _ _ (acc_fieldDefinition early_false n).1).sp

/-- `Directives? Body?` -/
theorem sp_dirsBody (n : Nat) (k0 : Kind) (body : PI Unit) (gb : Good body) (hb : SP body) : SP (dirsBody n k0 body) := by
  unfold dirsBody optKind optBodyK
  have g2 : Good (peek >>= fun k => if k == some k0 then body else pure ()) := good_bind _ _ good_peek (fun _ => good_ite _ _ _ gb (good_pure _))
  have h2 : SP (peek >>= fun k => if k == some k0 then body else pure ()) :=
    sp_bind good_peek (fun _ => good_ite _ _ _ gb (good_pure _)) sp_peek (fun _ => sp_ite _ _ _ hb (sp_pure _))
  exact sp_bind good_peek (fun _ => good_ite _ _ _ (good_bind _ _ (good_directives n true) (fun _ => g2)) g2) sp_peek
    (fun _ => sp_ite _ _ _ (sp_bind (good_directives n true) (fun _ => g2) (se_directives n true).sp (fun _ => h2)) h2)

/-- `Description? keyword? Name tail` ends settled when the tail preserves it -/
theorem se_defShape (word : String) (sk : SK) (n : Nat) (tail : PI Unit) (gt : Good tail) (ht : SP tail) : SE (defShape word sk n tail) := by
  unfold defShape optKind optKw
  have gX : Good (nameOrErr >>= fun _ => tail) := good_bind _ _ (acc_nameOrErr (E := fun _ => False) (H := fun _ => True)).1 (fun _ => gt)
  have hX : SE (nameOrErr >>= fun _ => tail) := se_bindL (acc_nameOrErr (E := fun _ => False) (H := fun _ => True)).1 (fun _ => gt) se_nameOrErr (fun _ => ht)
  have hK : SE (peekData >>= fun d => if kwOpt word d then (bump sk >>= fun _ => (nameOrErr >>= fun _ => tail)) else (nameOrErr >>= fun _ => tail)) :=
    se_bindR good_peekData (fun _ => se_ite _ _ _ (se_bindR (good_bump _) (fun _ => hX)) hX)
  exact se_bindR good_peek (fun _ => se_ite _ _ _ (se_bindR (acc_description (E := fun _ => False) early_false).1 (fun _ => hK)) hK)

end Apollo.Parse.Exact
