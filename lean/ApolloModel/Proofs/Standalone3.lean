import ApolloModel.Proofs.Standalone2
/-
Property C20: the fuel of `enterFrag` (= number of fragment definitions) is never exhausted in a standalone
run: `validated_fragments` holds pairwise distinct names of defined fragments, so it cannot grow beyond
their number.
-/
namespace Apollo.Standalone

def Inv (doc : BuiltDoc) (V : List Name) : Prop := V.Nodup ∧ ∀ x ∈ V, x ∈ doc.frags.map (·.name)

theorem inv_length_le (doc : BuiltDoc) (V : List Name) (h : Inv doc V) : V.length ≤ doc.frags.length := by
  have := List.Nodup.length_le_of_subset h.1 (fun x hx => h.2 x hx)
  simpa using this

theorem inv_cons (doc : BuiltDoc) (V : List Name) (f : Name) (d : Frag) (h : Inv doc V) (hf : doc.findFrag f = some d)
    (hv : ¬ f ∈ V) : Inv doc (f :: V) := by
  refine ⟨List.nodup_cons.mpr ⟨hv, h.1⟩, ?_⟩
  intro x hx
  simp only [List.mem_cons] at hx
  rcases hx with hx | hx
  · subst hx
    have hm : d ∈ doc.frags := List.mem_of_find?_eq_some hf
    have hn : (d.name == x) = true := by
      have := List.find?_some hf
      simpa using this
    simp only [List.mem_map]
    exact ⟨d, hm, by simpa using hn⟩
  · exact h.2 x hx

/-- the handler does not run out of fuel when at least `K` fragments are already marked -/
def Good (doc : BuiltDoc) (K : Nat) (e : Frag → List Name → List Diag × List Name) : Prop :=
  ∀ f V, Inv doc V → K ≤ V.length →
    (∀ d ∈ (e f V).1, d ≠ .outOfFuel) ∧ Inv doc (e f V).2 ∧ V.length ≤ (e f V).2.length

theorem allowed_ne {p : Params} {d : Diag} (h : Allowed p d) (hne : d = .outOfFuel → False) :
    d.universal = true ∨ (d = .undefinedDirective ∧ p.undefinedDirectiveWithoutSchema = true) := by
  rcases h with h | h | h
  · exact .inl h
  · exact .inr h
  · exact (hne h).elim

theorem dirDiagsAux_ne (p : Params) (loc : Loc) (ds : List Dir) (seen : List Name) :
    ∀ d ∈ dirDiagsAux p none loc seen ds, d ≠ .outOfFuel := by
  induction ds generalizing seen with
  | nil => simp [dirDiagsAux]
  | cons x ds ih =>
    intro d hd
    simp only [dirDiagsAux, Option.bind_none, Option.map_none, Option.getD_none, ↓reduceIte, ite_self,
      List.append_nil, Option.isSome_none, Bool.false_or, List.mem_append] at hd
    rcases hd with (hd | hd) | hd
    · have := uniqueArgs_mem _ _ _ hd; simp [this]
    · split at hd
      · simp only [List.mem_singleton] at hd; simp [hd]
      · simp at hd
    · exact ih _ d hd

theorem dirDiags_ne (p : Params) (loc : Loc) (ds : List Dir) : ∀ d ∈ dirDiags p none loc ds, d ≠ .outOfFuel :=
  dirDiagsAux_ne p loc ds []

theorem varDefDiags_ne (p : Params) (vs : List VarDef) (seen : List Name) :
    ∀ d ∈ varDefDiags p none seen vs, d ≠ .outOfFuel := by
  induction vs generalizing seen with
  | nil => simp [varDefDiags]
  | cons v vs ih =>
    intro d hd
    simp only [varDefDiags, List.append_nil, List.mem_append] at hd
    rcases hd with (hd | hd) | hd
    · exact dirDiags_ne p _ _ d hd
    · split at hd
      · simp only [List.mem_singleton] at hd; simp [hd]
      · simp at hd
    · exact ih _ d hd

theorem walkSels_fuel (p : Params) (doc : BuiltDoc) (K : Nat) (e : Frag → List Name → List Diag × List Name)
    (he : Good doc (K + 1) e) (t : Sels) :
    ∀ (ty : Option Name) (V : List Name), Inv doc V → K ≤ V.length →
      (∀ d ∈ (walkSels p none doc e ty t V).1, d ≠ .outOfFuel) ∧ Inv doc (walkSels p none doc e ty t V).2 ∧
        V.length ≤ (walkSels p none doc e ty t V).2.length := by
  induction t with
  | nil => intro ty V hi hk; simp [walkSels, hi]
  | field name dirs args sub rest ihs ihr =>
    intro ty V hi hk
    obtain ⟨a1, a2, a3⟩ := ihs none V hi hk
    obtain ⟨b1, b2, b3⟩ := ihr ty _ a2 (Nat.le_trans hk a3)
    simp only [walkSels]
    refine ⟨?_, b2, Nat.le_trans a3 b3⟩
    intro d hd
    simp only [List.mem_append] at hd
    rcases hd with ((hd | hd) | hd) | hd
    · exact dirDiags_ne p _ _ d hd
    · have := uniqueArgs_mem _ _ _ hd; intro h; simp [h] at this
    · exact a1 d hd
    · exact b1 d hd
  | spread f dirs rest ihr =>
    intro ty V hi hk
    simp only [walkSels]
    cases hf : doc.findFrag f with
    | none =>
      obtain ⟨b1, b2, b3⟩ := ihr ty V hi hk
      refine ⟨?_, b2, b3⟩
      intro d hd
      simp only [List.mem_append, List.mem_singleton] at hd
      rcases hd with (hd | hd) | hd
      · exact dirDiags_ne p _ _ d hd
      · simp [hd]
      · exact b1 d hd
    | some g =>
      by_cases hv : f ∈ V
      · obtain ⟨b1, b2, b3⟩ := ihr ty V hi hk
        simp only [hv, ↓reduceIte]
        refine ⟨?_, b2, b3⟩
        intro d hd
        simp only [List.mem_append, List.not_mem_nil, or_false] at hd
        rcases hd with hd | hd
        · exact dirDiags_ne p _ _ d hd
        · exact b1 d hd
      · have hi' := inv_cons doc V f g hi hf hv
        obtain ⟨a1, a2, a3⟩ := he g (f :: V) hi' (by simp; omega)
        have a3' : V.length ≤ (e g (f :: V)).2.length := by simp at a3; omega
        obtain ⟨b1, b2, b3⟩ := ihr ty _ a2 (Nat.le_trans hk a3')
        simp only [hv, ↓reduceIte]
        refine ⟨?_, b2, Nat.le_trans a3' b3⟩
        intro d hd
        simp only [List.mem_append] at hd
        rcases hd with (hd | hd) | hd
        · exact dirDiags_ne p _ _ d hd
        · exact a1 d hd
        · exact b1 d hd
  | inline tc dirs sub rest ihs ihr =>
    intro ty V hi hk
    cases tc <;>
    · simp only [walkSels, List.isEmpty_nil, ↓reduceIte, List.append_nil]
      obtain ⟨a1, a2, a3⟩ := ihs ty V hi hk
      obtain ⟨b1, b2, b3⟩ := ihr ty _ a2 (Nat.le_trans hk a3)
      refine ⟨?_, b2, Nat.le_trans a3 b3⟩
      intro d hd
      simp only [List.mem_append] at hd
      rcases hd with (hd | hd) | hd
      · exact dirDiags_ne p _ _ d hd
      · exact a1 d hd
      · exact b1 d hd

theorem enterFrag_fuel (p : Params) (doc : BuiltDoc) (n : Nat) :
    Good doc (doc.frags.length + 1 - n) (enterFrag p none doc n) := by
  induction n with
  | zero =>
    intro f V hi hk
    have := inv_length_le doc V hi
    omega
  | succ n ih =>
    intro f V hi hk
    simp only [enterFrag, List.isEmpty_nil, Bool.true_and, List.append_nil]
    by_cases hy : f.name ∈ reach doc f.sels
    · simp only [hy, ↓reduceIte, List.isEmpty_cons, Bool.false_eq_true]
      refine ⟨?_, hi, Nat.le_refl _⟩
      intro d hd
      simp only [List.mem_append, List.mem_singleton] at hd
      rcases hd with hd | hd
      · exact dirDiags_ne p _ _ d hd
      · simp [hd]
    · simp only [hy, ↓reduceIte, List.isEmpty_nil]
      have hle := inv_length_le doc V hi
      have ih' : Good doc ((doc.frags.length - n) + 1) (enterFrag p none doc n) := by
        intro g W hiW hkW
        exact ih g W hiW (by omega)
      obtain ⟨a1, a2, a3⟩ := walkSels_fuel p doc (doc.frags.length - n) _ ih' f.sels (fragTy none f) V hi (by omega)
      refine ⟨?_, a2, a3⟩
      intro d hd
      simp only [List.mem_append] at hd
      rcases hd with hd | hd
      · exact dirDiags_ne p _ _ d hd
      · exact a1 d hd

theorem validateOp_fuel (p : Params) (doc : BuiltDoc) (o : Op) : ∀ d ∈ validateOp p none doc o, d ≠ .outOfFuel := by
  intro d hd
  simp only [validateOp, List.mem_append] at hd
  rcases hd with ((hd | hd) | hd) | hd
  · exact dirDiags_ne p _ _ d hd
  · exact varDefDiags_ne p _ _ d hd
  · simp only [unusedVarDiags, List.mem_map] at hd
    obtain ⟨_, _, hd⟩ := hd
    simp [← hd]
  · have hg : Good doc (0 + 1) (enterFrag p none doc doc.frags.length) := by
      have := enterFrag_fuel p doc doc.frags.length
      simpa using this
    exact (walkSels_fuel p doc 0 _ hg o.sels _ [] ⟨List.nodup_nil, by simp⟩ (Nat.le_refl _)).1 d hd


/-- a standalone run of the model never exhausts its fuel -/
theorem validate_none_fuel (p : Params) (ast : Ast) : ∀ d ∈ validate p none ast, d ≠ .outOfFuel := by
  intro d hd
  simp only [validate, List.append_nil, List.mem_append] at hd
  rcases hd with hd | hd
  · have := build_none_mem ast d hd
    intro he; subst he; simp [Diag.universal] at this
  · simp only [validateBuilt, List.mem_append, List.mem_flatMap, List.mem_map] at hd
    rcases hd with (⟨o, _, hd⟩ | hd) | ⟨n, _, hd⟩
    · exact validateOp_fuel p _ o d hd
    · simp only [fragmentsUsed, List.mem_map] at hd
      obtain ⟨_, _, hd⟩ := hd
      simp [← hd]
    · simp [← hd]

/-- …so every diagnostic of a standalone run is of a universal class, or `UndefinedDirective` when the code
    reports that without a schema -/
theorem validate_none_kinds (p : Params) (ast : Ast) : ∀ d ∈ validate p none ast,
    d.universal = true ∨ (d = .undefinedDirective ∧ p.undefinedDirectiveWithoutSchema = true) := by
  intro d hd
  exact allowed_ne (validate_none_mem p ast d hd) (validate_none_fuel p ast d hd)

end Apollo.Standalone
