import ApolloModel.Proofs.TypedVars2
/-
C18 on top of the typed executable rules, part 3: the walk of one operation (`walkSels` / `enterFrag` with the
operation's `validated_fragments`) is COMPLETE — when it reports nothing, every variable written in the tree is
declared and every fragment it marks has been entered with these variable definitions; the recursion fuel of
`enterFrag` (the number of fragment definitions) is never what ends it (pigeonhole on the marked names).
-/
namespace Apollo.ExecRules
open Apollo Apollo.Spec

def HandlerOk (s : RSchema) (vars : List RVarDef) (doc : RBuilt) (m : Nat)
    (e : RFrag → List String → List TDiag × List String) : Prop :=
  ∀ d W W', FragOk s doc d → W.Nodup → allDefined doc W → m ≤ W.length → e d W = ([], W') →
    (∀ n ∈ dirsVars d.dirs, declared vars n = true) ∧ WalkOk vars doc d.sels W W'

theorem mem_of_contains {V : List String} {f : String} (h : V.contains f = true) : f ∈ V := by simpa using h
theorem not_mem_of_contains {V : List String} {f : String} (h : ¬ V.contains f = true) : f ∉ V := by simpa using h

theorem walkSels_walkOk (s : RSchema) (doc : RBuilt) (vars : List RVarDef)
    (hfr : ∀ f d, doc.findFrag f = some d → FragOk s doc d)
    (e : RFrag → List String → List TDiag × List String) (m : Nat) (he : HandlerOk s vars doc (m + 1) e) (t : RSels) :
    ∀ (ty : String) (V V' : List String), SelsOk s doc ty t → V.Nodup → allDefined doc V → m ≤ V.length →
      walkSels s doc vars e (some ty) t V = ([], V') → WalkOk vars doc t V V' := by
  induction t with
  | nil =>
    intro ty V V' _ _ _ _ h
    simp only [walkSels, Prod.mk.injEq, true_and] at h
    subst h
    exact walkOk_nil vars doc V
  | field name dirs args sub rest ihs ihr =>
    intro ty V V' hok hnd hdf hm h
    obtain ⟨hdirs, ⟨fd, hfd, hargs, hsub⟩, hrest⟩ := hok
    simp only [walkSels, hfd] at h
    by_cases hc : (sub.isNil && isCompositeType s fd.ty.innerNamedType) = true
    · simp only [hc, if_true, Prod.mk.injEq, List.append_eq_nil_iff] at h
      obtain ⟨⟨⟨h1, h2⟩, h4⟩, hV⟩ := h
      have hnil : sub = .nil := by
        cases sub <;> simp [RSels.isNil] at hc ⊢
      subst hnil
      have e4 := ihr ty V V' hrest hnd hdf hm (Prod.ext h4 hV)
      refine WalkOk.seq (dirsVars dirs ++ argsVars args) (walkOk_nil vars doc V) e4 ?_ ?_ ?_
      · intro n hn
        rcases List.mem_append.mp hn with hn | hn
        · exact dirsDiags_complete s vars dirs hdirs h1 n hn
        · exact argsDiags_complete s vars fd.args args hargs h2 n hn
      · intro n hn
        simp only [localVars, List.mem_append] at hn ⊢
        rcases hn with ((hn | hn) | hn) | hn
        · exact .inl (.inl hn)
        · exact .inl (.inr hn)
        · exact .inr (.inl hn)
        · exact .inr (.inr hn)
      · intro g hg
        simpa [allSpreads] using hg
    · simp only [hc, Bool.false_eq_true, if_false, Prod.mk.injEq, List.append_eq_nil_iff] at h
      obtain ⟨⟨⟨h1, h2, h3⟩, h4⟩, hV⟩ := h
      have e3 := ihs fd.ty.innerNamedType V _ hsub hnd hdf hm (Prod.ext h3 rfl)
      have e4 := ihr ty _ V' hrest (e3.nodup hnd) (e3.defd hdf) (Nat.le_trans hm e3.len) (Prod.ext h4 hV)
      refine WalkOk.seq (dirsVars dirs ++ argsVars args) e3 e4 ?_ ?_ ?_
      · intro n hn
        rcases List.mem_append.mp hn with hn | hn
        · exact dirsDiags_complete s vars dirs hdirs h1 n hn
        · exact argsDiags_complete s vars fd.args args hargs h2 n hn
      · intro n hn
        simp only [localVars, List.mem_append] at hn ⊢
        rcases hn with ((hn | hn) | hn) | hn
        · exact .inl (.inl hn)
        · exact .inl (.inr hn)
        · exact .inr (.inl hn)
        · exact .inr (.inr hn)
      · intro g hg
        simpa [allSpreads] using hg
  | spread f dirs rest ihr =>
    intro ty V V' hok hnd hdf hm h
    obtain ⟨hdirs, hfound, hrest⟩ := hok
    cases hf : doc.findFrag f with
    | none => rw [hf] at hfound; cases hfound
    | some d =>
      simp only [walkSels, hf] at h
      by_cases hv : V.contains f = true
      · simp only [hv, if_true, Prod.mk.injEq, List.append_eq_nil_iff] at h
        obtain ⟨⟨⟨h1, _⟩, h4⟩, hV⟩ := h
        have e4 := ihr ty V V' hrest hnd hdf hm (Prod.ext h4 hV)
        refine ⟨e4.mono, e4.len, e4.nodup, e4.defd, ?_, ?_, e4.fresh⟩
        · intro n hn
          simp only [localVars, List.mem_append] at hn
          rcases hn with hn | hn
          · exact dirsDiags_complete s vars dirs hdirs h1 n hn
          · exact e4.locals n hn
        · intro g hg
          simp only [allSpreads, List.mem_cons] at hg
          rcases hg with hg | hg
          · subst hg; exact e4.mono _ (mem_of_contains hv)
          · exact e4.spreads g hg
      · simp only [hv, Bool.false_eq_true, if_false, Prod.mk.injEq, List.append_eq_nil_iff] at h
        obtain ⟨⟨⟨h1, _, h2⟩, h4⟩, hV⟩ := h
        have hfV : f ∉ V := not_mem_of_contains hv
        have hnd1 : (f :: V).Nodup := List.nodup_cons.mpr ⟨hfV, hnd⟩
        have hdf1 : allDefined doc (f :: V) := by
          intro x hx
          rcases List.mem_cons.mp hx with rfl | hx
          · rw [hf]; rfl
          · exact hdf x hx
        obtain ⟨hdd, e2⟩ := he d (f :: V) _ (hfr f d hf) hnd1 hdf1 (by simp; omega) (Prod.ext h2 rfl)
        have hlen1 : m ≤ (e d (f :: V)).2.length := Nat.le_trans (by simp; omega : m ≤ (f :: V).length) e2.len
        have e4 := ihr ty _ V' hrest (e2.nodup hnd1) (e2.defd hdf1) hlen1 (Prod.ext h4 hV)
        have hfW : f ∈ (e d (f :: V)).2 := e2.mono f (List.mem_cons_self ..)
        refine ⟨fun x hx => e4.mono x (e2.mono x (List.mem_cons_of_mem _ hx)), ?_, fun _ => e4.nodup (e2.nodup hnd1),
          fun _ => e4.defd (e2.defd hdf1), ?_, ?_, ?_⟩
        · exact Nat.le_trans (Nat.le_trans (by simp : V.length ≤ (f :: V).length) e2.len) e4.len
        · intro n hn
          simp only [localVars, List.mem_append] at hn
          rcases hn with hn | hn
          · exact dirsDiags_complete s vars dirs hdirs h1 n hn
          · exact e4.locals n hn
        · intro g hg
          simp only [allSpreads, List.mem_cons] at hg
          rcases hg with hg | hg
          · subst hg; exact e4.mono _ hfW
          · exact e4.spreads g hg
        · intro g hg
          rcases e4.fresh g hg with hg1 | hg1
          · rcases e2.fresh g hg1 with hg2 | hg2
            · rcases List.mem_cons.mp hg2 with hg2 | hg2
              · subst hg2
                refine .inr ⟨d, hf, ?_, fun x hx => e4.mono x (e2.spreads x hx)⟩
                intro n hn
                rcases List.mem_append.mp hn with hn | hn
                · exact hdd n hn
                · exact e2.locals n hn
              · exact .inl hg2
            · exact .inr (hg2.mono e4.mono)
          · exact .inr hg1
  | inline tc dirs sub rest ihs ihr =>
    intro ty V V' hok hnd hdf hm h
    obtain ⟨hdirs, hsub, hrest⟩ := hok
    have fin : ∀ (c : String) (V1 : List String), SelsOk s doc c sub →
        walkSels s doc vars e (some c) sub V = ([], V1) → dirsDiags s vars dirs = [] →
        walkSels s doc vars e (some ty) rest V1 = ([], V') → WalkOk vars doc (.inline tc dirs sub rest) V V' := by
      intro c V1 hsc h3 h1 h4
      have e3 := ihs c V V1 hsc hnd hdf hm h3
      have e4 := ihr ty V1 V' hrest (e3.nodup hnd) (e3.defd hdf) (Nat.le_trans hm e3.len) h4
      refine WalkOk.seq (dirsVars dirs) e3 e4 (dirsDiags_complete s vars dirs hdirs h1) ?_ ?_
      · intro n hn
        simp only [localVars, List.mem_append] at hn ⊢
        rcases hn with (hn | hn) | hn
        · exact .inl hn
        · exact .inr (.inl hn)
        · exact .inr (.inr hn)
      · intro g hg
        simpa [allSpreads] using hg
    cases tc with
    | none =>
      simp only [walkSels, Prod.mk.injEq, List.append_eq_nil_iff] at h
      obtain ⟨⟨⟨h1, h3⟩, h4⟩, hV⟩ := h
      exact fin ty _ hsub (Prod.ext h3 rfl) h1 (Prod.ext h4 hV)
    | some c =>
      obtain ⟨hcomp, hsc⟩ := hsub
      simp only [walkSels, hcomp, Bool.not_true, Bool.false_eq_true, if_false, Prod.mk.injEq, List.append_eq_nil_iff] at h
      obtain ⟨⟨⟨h1, _, h3⟩, h4⟩, hV⟩ := h
      exact fin c _ hsc (Prod.ext h3 rfl) h1 (Prod.ext h4 hV)

/-- marked names are names of distinct fragment definitions: there are at most `frags.length` of them -/
theorem marked_le_frags (doc : RBuilt) (W : List String) (hn : W.Nodup) (hd : allDefined doc W) : W.length ≤ doc.frags.length := by
  have hsub : ∀ x ∈ W, x ∈ doc.frags.map (·.name) := by
    intro x hx
    have := hd x hx
    cases hf : doc.findFrag x with
    | none => rw [hf] at this; cases this
    | some d =>
      unfold RBuilt.findFrag at hf
      refine List.mem_map.mpr ⟨d, List.mem_of_find?_eq_some hf, ?_⟩
      simpa using List.find?_some hf
  have := List.Nodup.length_le_of_subset hn hsub
  simpa using this

theorem enterFrag_handlerOk (s : RSchema) (doc : RBuilt) (vars : List RVarDef)
    (hfr : ∀ f d, doc.findFrag f = some d → FragOk s doc d) :
    ∀ (n m : Nat), doc.frags.length < n + m → HandlerOk s vars doc m (enterFrag s doc vars n) := by
  intro n
  induction n with
  | zero =>
    intro m hlt d W W' _ hnd hdf hm _
    have := marked_le_frags doc W hnd hdf
    omega
  | succ n ih =>
    intro m hlt d W W' hok hnd hdf hm h
    obtain ⟨hdirs, hcomp, hcyc, hsels⟩ := hok
    simp only [enterFrag, hcomp, hcyc, Bool.not_true, Bool.false_eq_true, Bool.or_self, if_false, Prod.mk.injEq,
      List.append_eq_nil_iff] at h
    obtain ⟨⟨h1, h2⟩, hV⟩ := h
    refine ⟨dirsDiags_complete s vars d.dirs hdirs h1, ?_⟩
    exact walkSels_walkOk s doc vars hfr _ m (ih (m + 1) (by omega)) d.sels d.tc W W' hsels hnd hdf hm (Prod.ext h2 hV)

end Apollo.ExecRules
