import ApolloModel.Proofs.ParserExactT2
/-
Exact (budget-carrying) soundness for the type-system family, part 3: the parenthesised / braced lists
`( InputValueDefinition+ )`, `{ InputValueDefinition+ }`, `{ EnumValueDefinition+ }` in builderB's predicates
`LArgsDef`, `LInputFields`, `LEnumVals` (ParserExactC18) at the budget of the start state.
-/
set_option linter.unusedSimpArgs false
namespace Apollo.Parse.Exact
open Apollo.Rowan hiding Str
open Apollo.Lex hiding Str

/-- flattening items of a given shape into the printer's item list, keeping a property of every item -/
theorem flatten_itemsF {β : Type} (Q : List Ast.Tok → Prop) (F : β → Prop) (pr : β → List Ast.Tok) (prAll : List β → List Ast.Tok)
    (hnil : prAll [] = []) (hcons : ∀ v r, prAll (v :: r) = pr v ++ prAll r)
    (hQ : ∀ x, Q x → ∃ v, x = pr v ∧ F v) : ∀ items : List (List Ast.Tok), (∀ i ∈ items, Q i) →
      ∃ vs : List β, items.flatten = prAll vs ∧ vs.length = items.length ∧ ∀ v ∈ vs, F v
  | [], _ => ⟨[], by simp [hnil], rfl, by intro v hv; cases hv⟩
  | x :: items, h => by
    obtain ⟨v, hv, hf⟩ := hQ x (h x (by simp))
    obtain ⟨vs, hvs, hl, hF⟩ := flatten_itemsF Q F pr prAll hnil hcons hQ items (fun i hi => h i (by simp [hi]))
    refine ⟨v :: vs, by simp [hcons, hv, hvs], by simp [hl], ?_⟩
    intro u hu
    rcases List.mem_cons.mp hu with rfl | hu
    · exact hf
    · exact hF u hu

theorem ivd_item (n B : Nat) : ItemSpecP B isNameOrStringK (inputValueDefinition n) (LIVD B) := by
  intro s s' t rest w he hB ht hp h hnd
  exact (ivd_sound n s s' t rest w he ht hp h hnd).weaken (by rintro x ⟨v, rfl, hv⟩; rw [hB] at hv; exact ⟨v, rfl, hv⟩)

theorem enumVal_item (n B : Nat) : ItemSpecP B isNameOrStringK (enumValueDefinition n) (LEnumVal B) := by
  intro s s' t rest w he hB ht hp h hnd
  exact ((enumValueDefinition_sound n s s' t rest w he ht hp h hnd).weaken
    (by rintro x ⟨v, rfl, hv⟩; rw [hB] at hv; exact (⟨v, rfl, hv⟩ : LEnumVal B _))).toE

theorem bracedR_nonempty {β : Type} {F : β → Prop} {items : List (List Ast.Tok)} {vs : List β} (hne : items ≠ [])
    (hl : vs.length = items.length) : vs ≠ [] ∧ vs.isEmpty = false := by
  have hvne : vs ≠ [] := by
    intro h0; rw [h0] at hl; exact hne (List.eq_nil_of_length_eq_zero hl.symm)
  exact ⟨hvne, by cases vs with | nil => exact absurd rfl hvne | cons _ _ => rfl⟩

/-- **`( InputValueDefinition+ )`**, entered on the `(` -/
theorem argumentsDefinition_sound (n : Nat) (s s' : PState) (t : Tok) (rest : List Tok) (w : TW s) (he : EofEnd s)
    (ht : Toks s = t :: rest) (hk : t.kind = .lParen)
    (h : (argumentsDefinition n).run s = .ok () s') (hnd : ¬ Doomed s') : Cons s s' (LArgsDef (bud s)) := by
  have hni : isIgnoredKind t.kind = false := by rw [hk]; rfl
  unfold argumentsDefinition at h
  obtain ⟨s1, s2, e1, h1, o2⟩ := withNode_peeked _ _ s s' () t rest w ht hni h
  have hnd2 : ¬ Doomed s2 := fun d => hnd (o2.doomed.mpr d)
  have he1 : EofEnd s1 := eofEnd_eat he e1 (by intro x hx; cases hx)
  have h0 : Toks s = Toks s1 := by simpa using e1.toks
  rw [argumentsDefinitionBody_eq] at h1
  have c := braced_soundB (bud s) .lParen "L_PAREN" (.p .lParen) .rParen "R_PAREN" (.p .rParen) isNameOrString isNameOrStringK
    (inputValueDefinition n) (LIVD (bud s)) (by intro t ht; simp [astOfV, ht]) rfl (by decide) (by intro t ht; simp [astOfV, ht]) rfl
    (by decide) isNameOrString_first (acc_ivd n).1 (ivd_item n (bud s)) s1 s2 t rest e1.w he1 (bud_eat e1) (by rw [← h0]; exact ht) hk h1 hnd2
  refine (c.transport h0 o2.toks (eofEnd_same _ _ c.eofEnd o2.current o2.lx o2.errors)).weaken ?_
  rintro x ⟨items, hne, e, hall⟩
  obtain ⟨vs, hvs, hl, hF⟩ := flatten_itemsF (LIVD (bud s)) (ivdFit (bud s)) Ast.tIVD Ast.tIVDItems rfl (fun _ _ => rfl) (fun _ h => h) items hall
  obtain ⟨hvne, hemp⟩ := bracedR_nonempty (F := ivdFit (bud s)) hne hl
  exact ⟨vs, hvne, by rw [e, hvs]; simp [Ast.tArgsDef, hemp], hF⟩

/-- a braced list inside its node, entered on the `{` -/
theorem bracedNode_sound (sk : SK) (item : PI Unit) (Q : List Ast.Tok → Prop) (hg : Good item)
    (s s' : PState) (t : Tok) (rest : List Tok) (w : TW s) (he : EofEnd s)
    (hitem : ItemSpecP (bud s) isNameOrStringK item Q)
    (ht : Toks s = t :: rest) (hk : t.kind = .lCurly)
    (h : (withNode sk (bracedBody "L_CURLY" isNameOrString isNameOrStringK item .rCurly "R_CURLY")).run s = .ok () s') (hnd : ¬ Doomed s') :
    Cons s s' (BracedR (.p .lCurly) (.p .rCurly) Q) := by
  have hni : isIgnoredKind t.kind = false := by rw [hk]; rfl
  obtain ⟨s1, s2, e1, h1, o2⟩ := withNode_peeked _ _ s s' () t rest w ht hni h
  have hnd2 : ¬ Doomed s2 := fun d => hnd (o2.doomed.mpr d)
  have he1 : EofEnd s1 := eofEnd_eat he e1 (by intro x hx; cases hx)
  have h0 : Toks s = Toks s1 := by simpa using e1.toks
  have c := braced_soundB (bud s) .lCurly "L_CURLY" (.p .lCurly) .rCurly "R_CURLY" (.p .rCurly) isNameOrString isNameOrStringK
    item Q (by intro t ht; simp [astOfV, ht]) rfl (by decide) (by intro t ht; simp [astOfV, ht]) rfl
    (by decide) isNameOrString_first hg hitem s1 s2 t rest e1.w he1 (bud_eat e1) (by rw [← h0]; exact ht) hk h1 hnd2
  exact c.transport h0 o2.toks (eofEnd_same _ _ c.eofEnd o2.current o2.lx o2.errors)

/-- **`{ InputValueDefinition+ }`**, entered on the `{` -/
theorem inputFieldsDefinition_sound (n : Nat) (s s' : PState) (t : Tok) (rest : List Tok) (w : TW s) (he : EofEnd s)
    (ht : Toks s = t :: rest) (hk : t.kind = .lCurly)
    (h : (inputFieldsDefinition n).run s = .ok () s') (hnd : ¬ Doomed s') : Cons s s' (LInputFields (bud s)) := by
  rw [inputFieldsDefinition_eq] at h
  refine (bracedNode_sound _ _ (LIVD (bud s)) (acc_ivd n).1 s s' t rest w he (ivd_item n (bud s)) ht hk h hnd).weaken ?_
  rintro x ⟨items, hne, e, hall⟩
  obtain ⟨vs, hvs, hl, hF⟩ := flatten_itemsF (LIVD (bud s)) (ivdFit (bud s)) Ast.tIVD Ast.tIVDItems rfl (fun _ _ => rfl) (fun _ h => h) items hall
  obtain ⟨hvne, hemp⟩ := bracedR_nonempty (F := ivdFit (bud s)) hne hl
  exact ⟨vs, hvne, by rw [e, hvs]; simp [Ast.tBraced, hemp], hF⟩

/-- **`{ EnumValueDefinition+ }`**, entered on the `{` -/
theorem enumValuesDefinition_sound (n : Nat) (s s' : PState) (t : Tok) (rest : List Tok) (w : TW s) (he : EofEnd s)
    (ht : Toks s = t :: rest) (hk : t.kind = .lCurly)
    (h : (enumValuesDefinition n).run s = .ok () s') (hnd : ¬ Doomed s') : Cons s s' (LEnumVals (bud s)) := by
  rw [enumValuesDefinition_eq] at h
  refine (bracedNode_sound _ _ (LEnumVal (bud s)) (acc_enumValueDefinition early_false n).1 s s' t rest w he (enumVal_item n (bud s)) ht hk h hnd).weaken ?_
  rintro x ⟨items, hne, e, hall⟩
  obtain ⟨vs, hvs, hl, hF⟩ := flatten_itemsF (LEnumVal (bud s)) (enumValFit (bud s)) Ast.tEnumValueDef Ast.tEnumValueDefItems rfl (fun _ _ => rfl) (fun _ h => h) items hall
  obtain ⟨hvne, hemp⟩ := bracedR_nonempty (F := enumValFit (bud s)) hne hl
  exact ⟨vs, hvne, by rw [e, hvs]; simp [Ast.tBraced, hemp], hF⟩

end Apollo.Parse.Exact
