import ApolloModel.Model.Strings
namespace Apollo.Strs

theorem unescape_plain (fuel : Nat) (c : Char) (rest : Str) (h : c ≠ '\\') :
    unescapeStringAux (fuel + 1) (c :: rest) = (unescapeStringAux fuel rest).map (c :: ·) := by
  rw [unescapeStringAux]
  all_goals first | rfl | (intros; simp_all)

theorem unescape_esc (fuel : Nat) (c2 : Char) (rest : Str) (h : c2 ≠ 'u') :
    unescapeStringAux (fuel + 1) ('\\' :: c2 :: rest) =
      match escapedChar? c2 with
      | some x => (unescapeStringAux fuel rest).map (x :: ·)
      | none => unescapeStringAux fuel rest := by
  rw [unescapeStringAux]
  all_goals first | rfl | (intros; simp_all)

theorem unescape_u (fuel : Nat) (rest : Str) :
    unescapeStringAux (fuel + 1) ('\\' :: 'u' :: rest) =
      match hexFold (rest.take 4) with
      | none => none
      | some v => match charFromU32? v with
        | none => none
        | some ch => (unescapeStringAux fuel (rest.drop 4)).map (ch :: ·) := by
  simp only [unescapeStringAux]
  cases hexFold (List.take 4 rest) with
  | none => rfl
  | some v => simp only []; cases charFromU32? v <;> rfl

theorem hexUpper_digit (d : Nat) (h : d < 16) : hexDigit? (hexUpper d) = some d := by
  have : d = 0 ∨ d = 1 ∨ d = 2 ∨ d = 3 ∨ d = 4 ∨ d = 5 ∨ d = 6 ∨ d = 7 ∨ d = 8 ∨ d = 9 ∨ d = 10 ∨ d = 11 ∨
      d = 12 ∨ d = 13 ∨ d = 14 ∨ d = 15 := by omega
  rcases this with rfl | rfl | rfl | rfl | rfl | rfl | rfl | rfl | rfl | rfl | rfl | rfl | rfl | rfl | rfl | rfl <;> decide

/-- one escaped character decodes to the character, whatever follows -/
theorem unescape_escapeChar (fuel : Nat) (c : Char) (rest : Str) :
    unescapeStringAux (fuel + 1) (escapeChar c ++ rest) = (unescapeStringAux fuel rest).map (c :: ·) := by
  unfold escapeChar
  split
  · rename_i h; have : c = Char.ofNat 8 := by simpa using h
    subst this; simp [unescape_esc, escapedChar?]
  · split
    · rename_i h; have : c = '\n' := by simpa using h
      subst this; simp [unescape_esc, escapedChar?]
    · split
      · rename_i h; have : c = Char.ofNat 12 := by simpa using h
        subst this; simp [unescape_esc, escapedChar?]
      · split
        · rename_i h; have : c = '\r' := by simpa using h
          subst this; simp [unescape_esc, escapedChar?]
        · split
          · rename_i h; have : c = '"' := by simpa using h
            subst this; simp [unescape_esc, escapedChar?]
          · split
            · rename_i h; have : c = '\\' := by simpa using h
              subst this; simp [unescape_esc, escapedChar?]
            · split
              · rename_i h1 h2 h3 h4 h5 h6 h7
                simp only [Bool.and_eq_true, decide_eq_true_eq, bne_iff_ne] at h7
                have hlt : c.toNat < 32 := h7.1
                simp only [List.cons_append, List.nil_append, List.length_cons, List.length_nil]
                rw [unescape_u]
                have hd1 := hexUpper_digit (c.toNat / 16) (by omega)
                have hd2 := hexUpper_digit (c.toNat % 16) (by omega)
                have hf : hexFold (List.take 4 ('0' :: '0' :: hexUpper (c.toNat / 16) :: hexUpper (c.toNat % 16) :: rest)) = some c.toNat := by
                  simp only [List.take, hexFold, List.foldl, hd1, hd2]
                  have : hexDigit? '0' = some 0 := by decide
                  simp only [this]
                  congr 1
                  omega
                simp only [hf]
                have hc : charFromU32? c.toNat = some c := by
                  unfold charFromU32?
                  have h1' : ¬ (0xD800 ≤ c.toNat ∧ c.toNat ≤ 0xDFFF) := by omega
                  simp only [Bool.and_eq_true, decide_eq_true_eq, h1', if_false]
                  have : c.toNat < 0x110000 := by omega
                  simp [this, Char.ofNat_toNat]
                simp [hc]
              · rename_i h1 h2 h3 h4 h5 h6 h7
                have hne : c ≠ '\\' := by simpa using h6
                simp [unescape_plain _ c rest hne]

end Apollo.Strs
