import ApolloModel.Proofs.ParserTree33
import ApolloModel.Proofs.ParserTreeInj1
/-
C08 growth (pipeline), part 34: printed documents through the real pipeline — the parser's decomposition of a strict
document of the completeness language is the given one (ParserTree33), the tokens of each type-system item determine
its definition (builderA's `loose_tokens_determine_definition`), hence `Document::from_cst` returns the document.
-/
set_option linter.unusedSimpArgs false
set_option linter.unusedVariables false

namespace Apollo.Parse
open Apollo.Rowan hiding Str
open Apollo.Lex hiding Str
open Apollo.FromCst (All2 looseConv)

theorem execFit_executable {rl : Nat} {d : Ast.Definition} (h : execFit rl d) : isExecutable d = true := by
  cases d <;> first | rfl | exact absurd h (by simp [execFit])

theorem tokIs_inj {ts : List Tok} {x y : List Ast.Tok} (h1 : TokIs ts x) (h2 : TokIs ts y) : x = y := by
  unfold TokIs at h1 h2
  exact map_some_inj (h1.symm.trans h2)

/-- the items the parser built for a strict document of the completeness language convert to its definitions -/
theorem aligned_conv (rl : Nat) : ∀ (its : List DocItem) (trs : List (List Tok × List Elem)) (items0 : List Ast.Item),
    strictItems its = some items0 → (∀ a ∈ items0, Ast.wfDefinition a.2 = true) → (∀ i ∈ its, itemFit rl i) →
    Aligned (fun cs e => ExecItemR cs e ∨ TsAny cs e) trs (its.map DocItem.toks) →
    ∃ eds, (trs.map (·.2)).flatten = eds ∧ All2 (fun e (a : Ast.Item) => DefConv a.2 e) eds items0
  | [], trs, items0, hs, _, _, hal => by
    simp only [strictItems, Option.some.injEq] at hs
    subst hs
    cases hal
    exact ⟨[], rfl, All2.nil⟩
  | i :: r, trs, items0, hs, hw, hfit, hal => by
    simp only [strictItems] at hs
    cases hi : i.strict with
    | none => rw [hi] at hs; simp at hs
    | some a =>
      cases hr : strictItems r with
      | none => rw [hi, hr] at hs; simp at hs
      | some b =>
        rw [hi, hr] at hs
        simp only [Option.some.injEq] at hs
        subst hs
        simp only [List.map_cons] at hal
        cases hal with
        | @cons tr x trs' xs hhead htail =>
          obtain ⟨eds, g1, g2⟩ := aligned_conv rl r trs' b hr (fun y hy => hw y (List.mem_cons_of_mem _ hy))
            (fun j hj => hfit j (List.mem_cons_of_mem _ hj)) htail
          have hwa : Ast.wfDefinition a.2 = true := hw a List.mem_cons_self
          have hfi := hfit i List.mem_cons_self
          obtain ⟨hq, htok⟩ := hhead
          have key : ∃ ed, tr.2 = [ed] ∧ DefConv a.2 ed := by
            cases i with
            | exec oe d =>
              simp only [DocItem.strict, Option.some.injEq] at hi
              subst hi
              have hex : isExecutable d = true := execFit_executable hfi
              rcases hq with ⟨it, ed, h1, h2, h3, h4, h5, _⟩ | ⟨l', ed, h1, _, _, _⟩
              · have heq : Ast.tDefinition it.1 it.2 = Ast.tDefinition oe d := tokIs_inj h1 htok
                have p1 := Ast.closed_roundtrip it.1 it.2 (max (Ast.szDefinition it.2) (Ast.szDefinition d)) []
                  (exec_closed h5) h2 (Nat.le_max_left _ _)
                have p2 := Ast.closed_roundtrip oe d (max (Ast.szDefinition it.2) (Ast.szDefinition d)) []
                  (exec_closed hex) hwa (Nat.le_max_right _ _)
                rw [heq, p2] at p1
                simp only [Option.some.injEq, Prod.mk.injEq, and_true] at p1
                exact ⟨ed, h3, by rw [p1]; exact h4⟩
              · exfalso
                have heq : l'.toks = Ast.tDefinition oe d := tokIs_inj h1 htok
                have e1 := looseDef_tsStart l'
                have e2 := exec_head oe d [] hex
                rw [List.append_nil, ← heq, e1] at e2
                cases e2
            | loose l =>
              simp only [DocItem.strict, Option.map_eq_some_iff] at hi
              obtain ⟨d, hd, rfl⟩ := hi
              have hlt : l.toks = Ast.tDefinition false d := LooseDef.toks_strict l d hd
              rcases hq with ⟨it, ed, h1, h2, h3, h4, h5, _⟩ | ⟨l', ed, h1, h2, h3, h4⟩
              · exfalso
                have heq : Ast.tDefinition it.1 it.2 = l.toks := tokIs_inj h1 htok
                have e1 := looseDef_tsStart l
                have e2 := exec_head it.1 it.2 [] h5
                rw [List.append_nil, heq, e1] at e2
                cases e2
              · have heq : l'.toks = Ast.tDefinition false d := (tokIs_inj h1 htok).trans hlt
                have hconv := loose_tokens_determine_definition l' d h2 hwa heq
                obtain ⟨K, kcs, rfl, hk, _⟩ := FromCst.defTree_kind l' ed h4
                refine ⟨_, h3, ?_⟩
                rw [← hconv]
                exact ⟨by rw [FromCst.nodeP_node]; exact hk, fun m hm => FromCst.cDefinition_defTree m l' _ h4 hm⟩
          obtain ⟨ed, he, hc⟩ := key
          exact ⟨ed :: eds, by simp only [List.map_cons, List.flatten_cons, he, g1]; rfl, All2.cons hc g2⟩

/-- **pipeline, strict documents of the completeness language, token level**: a source without lexer error whose
    significant tokens are the printer's tokens of the strict items `its` (within the recursion limit, each definition
    allowed before the next) is accepted, and `Document::from_cst` on the tree returns exactly the definitions -/
theorem pipeline_strict_document (rl : Nat) (src : Str) (its : List DocItem) (items0 : List Ast.Item)
    (hstrict : strictItems its = some items0) (hwf : ∀ a ∈ items0, Ast.wfDefinition a.2 = true)
    (hne : its ≠ []) (hfit : ∀ i ∈ its, itemFit rl i) (hfol : DocFollowOk its)
    (ts : List Tok) (e : Tok) (hclean : LexClean src) (hsig : sig (srcToks src) = ts ++ [e]) (he : e.kind = .eof)
    (hx : TokIs ts (Ast.itemsToks items0)) :
    (parse .document none rl src).errors = [] ∧
    ∃ root, (parse .document none rl src).outcome = .tree root ∧ (FromCst.fromCst root).1 = items0.map (·.2) := by
  have htoks := (strictItems_toks its items0 hstrict).1
  have hx' : TokIs ts (its.map DocItem.toks).flatten := by
    have : (its.map DocItem.toks).flatten = docToks its := rfl
    rw [this, htoks]; exact hx
  have herr := parseDocument_complete_items rl src its ts e hclean hsig he (by rw [htoks]; exact hx) hne hfit hfol
  obtain ⟨root, hroot⟩ := parseDocument_tree none rl src
  refine ⟨herr, root, hroot, ?_⟩
  obtain ⟨inner, trs, g1, g2, g3⟩ := parseDocument_cstG (fun n => defTrs_of_ts n TsAny (tsTrs n)) rl src root hroot
    (its.map DocItem.toks) (by simpa using hne) (docOk_of_items rl its hfit hfol) ts e hclean hsig he hx'
  obtain ⟨eds, k1, k2⟩ := aligned_conv rl its trs items0 hstrict hwf hfit g3
  rw [g1]
  exact fromCst_document inner eds items0 (by rw [g2, k1]) k2

end Apollo.Parse
