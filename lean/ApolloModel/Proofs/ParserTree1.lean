import ApolloModel.Proofs.ParserDef19
import ApolloModel.Proofs.ParserSel9
import ApolloModel.Model.Name
import ApolloModel.Proofs.ParserStrQ
/-
C08 growth (pipeline), part 1: the acceptance calculus extended to the syntax tree.

`Tr E H m R`: `m` is `Good`, and every error-free run of `m` from an `Inv` state whose queue satisfies `H` consumes
tokens `cs` from the front of the queue and APPENDS elements `added` to the children vector of the rowan builder such
that `R a (sig cs) (sigE added)` — `sig cs` the consumed tokens without the ignored ones, `sigE added` the appended
elements without the "junk" tokens (`WHITESPACE`, `COMMENT`, `COMMA`, and the `ERROR` / `UNREACHABLE` tokens a
flush of the pending list may produce) — or the run stopped early in a state satisfying `E`.

The relation `R` is over PARSER tokens (kind, text, position); the grammar statements have the form
`∃ ast, TokIs cs (tX ast) ∧ Spec ast elems`.
-/
set_option linter.unusedSimpArgs false
set_option linter.unusedVariables false
namespace Apollo.Parse
open Apollo.Rowan hiding Str
open Apollo.Lex hiding Str

/-! ### junk elements -/

def isJunkKind (k : SK) : Bool :=
  k == "WHITESPACE" || k == "COMMENT" || k == "COMMA" || k == "ERROR" || k == "UNREACHABLE"

def isJunk : Elem → Bool
  | .tok k _ => isJunkKind k
  | .node _ _ => false

/-- the appended elements that matter: everything but junk tokens (top level only) -/
def sigE (es : List Elem) : List Elem := es.filter (fun e => !isJunk e)

theorem sigE_append (a b : List Elem) : sigE (a ++ b) = sigE a ++ sigE b := by simp [sigE]

theorem sigE_nil : sigE [] = [] := rfl

theorem isJunk_pendingElem (p : Pending) : isJunk (pendingElem p) = true := by
  cases p with
  | ignored t => cases hk : t.kind <;> simp [pendingElem, isJunk, isJunkKind, hk]
  | error d => simp [pendingElem, isJunk, isJunkKind]

theorem sigE_pending (ps : List Pending) : sigE (ps.map pendingElem) = [] := by
  induction ps with
  | nil => rfl
  | cons p ps ih =>
    simp only [List.map_cons, sigE, List.filter_cons, isJunk_pendingElem, Bool.not_true, Bool.false_eq_true, if_false]
    exact ih

theorem sigE_node (k : SK) (cs : List Elem) : sigE [Elem.node k cs] = [Elem.node k cs] := by simp [sigE, isJunk]

theorem sigE_tok (k : SK) (d : Str) (h : isJunkKind k = false) : sigE [Elem.tok k d] = [Elem.tok k d] := by
  simp [sigE, isJunk, h]

/-! ### lexer facts about the queue -/

/-- every Name token of the queue is a valid GraphQL name (a fact about the lexer, see `lq_srcToks`) -/
def NameQ (q : List Tok) : Prop := ∀ t ∈ q, t.kind = .name → isValidName t.data = true

/-- the lexer facts the calculus carries along: `LexQ` (text starting like a name ⇒ Name token), `NameQ`, and
    `StrQ` (every String token is decoded by `String::from(&cst::StringValue)`) -/
def LQ (q : List Tok) : Prop := LexQ q ∧ NameQ q ∧ StrQ q

theorem LQ.suffix {cs q : List Tok} (h : LQ (cs ++ q)) : LQ q :=
  ⟨h.1.suffix, fun t ht => h.2.1 t (List.mem_append_right _ ht), fun t ht => h.2.2 t (List.mem_append_right _ ht)⟩

/-- what the lexer guarantees of one token -/
def TokFact (t : Tok) : Prop :=
  (t.kind = .name → isValidName t.data = true) ∧
  (t.kind = .stringValue → (Strs.decodeStringToken t.data).isSome = true)

theorem LQ.fact {q : List Tok} (h : LQ q) (t : Tok) (ht : t ∈ q) : TokFact t := ⟨h.2.1 t ht, h.2.2 t ht⟩

theorem LQ.of_eq {q q' : List Tok} (h : LQ q) (e : q' = q) : LQ q' := e ▸ h

/-! ### the judgement -/

@[reducible] def TrRes (E : PState → Prop) (s s' : PState) (L : List Tok → List Elem → Prop) : Prop :=
  ∃ cs added, Toks s = cs ++ Toks s' ∧ NoEof cs ∧ EofEnd s' ∧ s'.builder.children = s.builder.children ++ added ∧
    (L (sig cs) (sigE added) ∨ E s')

def Tr {α : Type} (E : PState → Prop) (H : List Tok → Prop) (m : PI α) (R : α → List Tok → List Elem → Prop) : Prop :=
  Good m ∧ ∀ s a s', TW s → Inv s → EofEnd s → LQ (Toks s) → H (Toks s) → m.run s = .ok a s' → ¬ Doomed s' → TrRes E s s' (R a)

theorem Tr.good {α : Type} {E H} {m : PI α} {R} (h : Tr E H m R) : Good m := h.1

theorem Tr.mono {α : Type} {E : PState → Prop} {H H' : List Tok → Prop} {m : PI α} {R R' : α → List Tok → List Elem → Prop}
    (h : Tr E H m R) (hH : ∀ q, H' q → H q) (hR : ∀ a x e, R a x e → R' a x e) : Tr E H' m R' := by
  refine ⟨h.1, ?_⟩
  intro s a s' w hi he hlq hq hr hnd
  obtain ⟨cs, ad, a1, a2, a3, a4, a5⟩ := h.2 s a s' w hi he hlq (hH _ hq) hr hnd
  refine ⟨cs, ad, a1, a2, a3, a4, ?_⟩
  rcases a5 with r | e
  · exact Or.inl (hR a _ _ r)
  · exact Or.inr e

/-- every run only appends to the children vector (`Frame`), and keeps `Inv` -/
theorem run_inv_added {α : Type} (m : PI α) (s : PState) (hi : Inv s) (a : α) (s' : PState) (h : m.run s = .ok a s') :
    Inv s' ∧ ∃ added, s'.builder.children = s.builder.children ++ added := by
  have := m.ok s hi
  simp only [h, Post] at this
  exact ⟨this.1, this.2.children⟩

/-- the builder is not touched -/
def Keeps {α : Type} (m : PI α) : Prop := ∀ s a s', m.run s = .ok a s' → s'.builder = s.builder

theorem keeps_pure {α : Type} (a : α) : Keeps (pure a : PI α) := by
  intro s a' s' h
  rw [run_pure] at h
  injection h with _ h
  rw [← h]

theorem keeps_bind {α β : Type} (m : PI α) (f : α → PI β) (hm : Keeps m) (hf : ∀ a, Keeps (f a)) : Keeps (m >>= f) := by
  intro s b s'' h
  rw [run_bind] at h
  cases hr : m.run s with
  | ok a s1 =>
    rw [hr] at h
    simp only [] at h
    rw [hf a s1 b s'' h, hm s a s1 hr]
  | abort w => rw [hr] at h; cases h
  | panic msg => rw [hr] at h; cases h

theorem keeps_ite {α : Type} (c : Bool) (a b : PI α) (ha : Keeps a) (hb : Keeps b) : Keeps (if c then a else b) := by
  cases c <;> simp [ha, hb]

theorem keeps_peekToken : Keeps peekToken := by
  intro s o s' h
  unfold peekToken at h
  simp only [] at h
  cases hc : s.current with
  | some t =>
    simp only [hc, Res.ok.injEq] at h
    rw [← h.2]
  | none =>
    simp only [hc, Res.ok.injEq] at h
    rw [← h.2]
    exact (nextToken_spec s).builder

theorem keeps_peek : Keeps peek := keeps_bind _ _ keeps_peekToken (fun _ => keeps_pure _)
theorem keeps_peekData : Keeps peekData := keeps_bind _ _ keeps_peekToken (fun _ => keeps_pure _)

theorem keeps_moveCurToPending : Keeps moveCurToPending := by
  intro s b s' h
  unfold moveCurToPending at h
  simp only [] at h
  cases hc : s.current with
  | none => simp only [hc, Res.ok.injEq] at h; rw [← h.2]
  | some t =>
    simp only [hc] at h
    split at h
    · simp only [Res.ok.injEq] at h; rw [← h.2]
    · simp only [Res.ok.injEq] at h; rw [← h.2]

theorem keeps_skipIgnoredLoop : ∀ fuel, Keeps (skipIgnoredLoop fuel)
  | 0 => by intro s a s' h; simp [skipIgnoredLoop, PI.outOfFuel] at h
  | fuel + 1 => by
    unfold skipIgnoredLoop
    refine keeps_bind _ _ keeps_peekToken (fun _ => keeps_bind _ _ keeps_moveCurToPending (fun b => ?_))
    cases b
    · exact keeps_pure _
    · exact keeps_skipIgnoredLoop fuel

theorem keeps_srcLen : Keeps srcLen := by
  intro s a s' h
  unfold srcLen at h
  simp only [Res.ok.injEq] at h
  rw [← h.2]

theorem keeps_skipIgnored : Keeps skipIgnored := keeps_bind _ _ keeps_srcLen (fun _ => keeps_skipIgnoredLoop _)

theorem keeps_pushErr (e : PErr) : Keeps (pushErr e) := by
  intro s a s' h
  unfold pushErr errUpdate at h
  simp only [Res.ok.injEq] at h
  rw [← h.2]

theorem keeps_errAtToken (t : Tok) : Keeps (errAtToken t) := keeps_pushErr _

theorem keeps_err : Keeps err := by
  unfold err
  refine keeps_bind _ _ keeps_peekToken (fun o => ?_)
  cases o with
  | none => first | exact keeps_pure _ | exact keeps_pushErr _
  | some t => first | exact keeps_pushErr _ | exact keeps_errAtToken _

theorem keeps_getCurrent : Keeps getCurrent := by
  intro s a s' h
  unfold getCurrent at h
  simp only [Res.ok.injEq] at h
  rw [← h.2]

/-! ### lifting `Acc` facts -/

/-- an `Acc` fact about a computation that does not touch the builder -/
theorem tr_keep {α : Type} {E : PState → Prop} {H : List Tok → Prop} {m : PI α} {R : α → List Ast.Tok → Prop}
    (h : Acc E H m R) (hk : Keeps m) : Tr E H m (fun a cs e => (∃ x, TokIs cs x ∧ R a x) ∧ e = []) := by
  refine ⟨h.1, ?_⟩
  intro s a s' w hi he hlq hq hr hnd
  obtain ⟨cs, a1, a2, a3, a4⟩ := h.2 s a s' w he hq hr hnd
  refine ⟨cs, [], a1, a2, a3, by rw [hk s a s' hr]; simp, ?_⟩
  rcases a4 with ⟨x, hx, hR⟩ | e
  · exact Or.inl ⟨⟨x, hx, hR⟩, rfl⟩
  · exact Or.inr e

/-- an `Acc` fact saying that no error-free run exists (`err`, `err_and_pop`, …) -/
theorem tr_never {α : Type} {E : PState → Prop} {H : List Tok → Prop} {m : PI α} {R : α → List Tok → List Elem → Prop}
    (h : Acc E H m (fun _ _ => False)) : Tr E H m R := by
  refine ⟨h.1, ?_⟩
  intro s a s' w hi he hlq hq hr hnd
  obtain ⟨cs, a1, a2, a3, a4⟩ := h.2 s a s' w he hq hr hnd
  obtain ⟨_, added, hadd⟩ := run_inv_added m s hi a s' hr
  refine ⟨cs, added, a1, a2, a3, hadd, ?_⟩
  rcases a4 with ⟨x, _, hf⟩ | e
  · exact absurd hf id
  · exact Or.inr e

theorem tr_absurd {α : Type} {E : PState → Prop} {H : List Tok → Prop} {m : PI α} {R : α → List Tok → List Elem → Prop}
    (hg : Good m) (hH : ∀ q, H q → False) : Tr E H m R :=
  ⟨hg, fun s _ _ _ _ _ _ hq _ _ => absurd hq (hH (Toks s))⟩

theorem tr_err {E : PState → Prop} {H : List Tok → Prop} {R : Unit → List Tok → List Elem → Prop} : Tr E H err R :=
  tr_never acc_err

theorem tr_errAndPop {E : PState → Prop} {H : List Tok → Prop} {R : Unit → List Tok → List Elem → Prop} : Tr E H errAndPop R :=
  tr_never acc_errAndPop

/-! ### structure -/

theorem tr_pure {α : Type} (E : PState → Prop) (H : List Tok → Prop) (a : α) :
    Tr E H (pure a : PI α) (fun a' cs e => a' = a ∧ cs = [] ∧ e = []) := by
  refine ⟨good_pure a, ?_⟩
  intro s a' s' w hi he _ _ hr _
  rw [run_pure] at hr
  injection hr with h1 h2
  subst h1 h2
  exact ⟨[], [], rfl, (by intro x hx; cases hx), he, by simp, Or.inl ⟨rfl, rfl, rfl⟩⟩

theorem tr_bind {α β : Type} {E : PState → Prop} (hE : Early E) {H : List Tok → Prop} {m : PI α} {f : α → PI β}
    {R1 : α → List Tok → List Elem → Prop} {R2 : α → β → List Tok → List Elem → Prop}
    (h1 : Tr E H m R1) (h2 : ∀ a, Tr E (fun _ => True) (f a) (R2 a)) :
    Tr E H (m >>= f) (fun b cs e => ∃ a c1 c2 e1 e2, cs = c1 ++ c2 ∧ e = e1 ++ e2 ∧ R1 a c1 e1 ∧ R2 a b c2 e2) := by
  refine ⟨good_bind _ _ h1.1 (fun a => (h2 a).1), ?_⟩
  intro s b s'' w hi he hlq hq hr hnd
  obtain ⟨a, s', hr1, hr2⟩ := bind_dec m f s s'' b hr
  have ad := h1.1 s a s' w hr1
  have hi' := (run_inv_added m s hi a s' hr1).1
  have hnd' : ¬ Doomed s' := fun d => hnd (((h2 a).1 s' b s'' ad.w hr2).doom d)
  obtain ⟨c1, d1, t1, n1, e1, b1, r1⟩ := h1.2 s a s' w hi he hlq hq hr1 hnd'
  obtain ⟨c2, d2, t2, n2, e2, b2, r2⟩ := (h2 a).2 s' b s'' ad.w hi' e1 (LQ.suffix (cs := c1) (by rw [← t1]; exact hlq)) trivial hr2 hnd
  refine ⟨c1 ++ c2, d1 ++ d2, by rw [t1, t2, List.append_assoc], noEof_append n1 n2, e2,
    by rw [b2, b1, List.append_assoc], ?_⟩
  rcases r1 with r1 | ev
  · rcases r2 with r2 | ev2
    · exact Or.inl ⟨a, sig c1, sig c2, sigE d1, sigE d2, sig_append _ _, sigE_append _ _, r1, r2⟩
    · exact Or.inr ev2
  · exact Or.inr (hE.carries s' s'' c2 e1 hnd' ev t2 n2)

theorem tr_peek {α : Type} {E : PState → Prop} {H : List Tok → Prop} {f : Option Kind → PI α} {R : α → List Tok → List Elem → Prop}
    (h : ∀ k, Tr E (fun q => H q ∧ q.head?.map (·.kind) = k) (f k) R) : Tr E H (peek >>= f) R := by
  refine ⟨good_bind _ _ good_peek (fun k => (h k).1), ?_⟩
  intro s a s' w hi he hlq hq hr hnd
  obtain ⟨k, sP, hp, h2⟩ := bind_dec peek f s s' a hr
  obtain ⟨o, p, hk⟩ := peek_obs s sP k w hp
  have heP : EofEnd sP := eofEnd_eat he p.eat (by intro x hx; cases hx)
  have hiP := (run_inv_added peek s hi k sP hp).1
  have hqP : H (Toks sP) ∧ (Toks sP).head?.map (·.kind) = k := by
    rw [p.toks]; exact ⟨hq, by rw [← p.head]; exact hk.symm⟩
  obtain ⟨cs, ad, a1, a2, a3, a4, a5⟩ := (h k).2 sP a s' p.w hiP heP (hlq.of_eq p.toks) hqP h2 hnd
  exact ⟨cs, ad, by rw [← p.toks]; exact a1, a2, a3, by rw [a4, keeps_peek s k sP hp], a5⟩

theorem tr_peekToken {α : Type} {E : PState → Prop} {H : List Tok → Prop} {f : Option Tok → PI α} {R : α → List Tok → List Elem → Prop}
    (h : ∀ o, Tr E (fun q => H q ∧ q.head? = o) (f o) R) : Tr E H (peekToken >>= f) R := by
  refine ⟨good_bind _ _ good_peekToken (fun k => (h k).1), ?_⟩
  intro s a s' w hi he hlq hq hr hnd
  obtain ⟨o, sP, hp, h2⟩ := bind_dec peekToken f s s' a hr
  have p := peekToken_obs s sP o w hp
  have heP : EofEnd sP := eofEnd_eat he p.eat (by intro x hx; cases hx)
  have hiP := (run_inv_added peekToken s hi o sP hp).1
  have hqP : H (Toks sP) ∧ (Toks sP).head? = o := by
    rw [p.toks]; exact ⟨hq, p.head.symm⟩
  obtain ⟨cs, ad, a1, a2, a3, a4, a5⟩ := (h o).2 sP a s' p.w hiP heP (hlq.of_eq p.toks) hqP h2 hnd
  exact ⟨cs, ad, by rw [← p.toks]; exact a1, a2, a3, by rw [a4, keeps_peekToken s o sP hp], a5⟩

theorem tr_peekData {α : Type} {E : PState → Prop} {H : List Tok → Prop} {f : Option Str → PI α} {R : α → List Tok → List Elem → Prop}
    (h : ∀ o : Option Tok, Tr E (fun q => H q ∧ q.head? = o) (f (o.map (·.data))) R) : Tr E H (peekData >>= f) R := by
  refine ⟨good_bind _ _ good_peekData (fun d => ?_), ?_⟩
  · intro s a s' w hr
    cases d with
    | none => exact (h none).1 s a s' w hr
    | some d => exact (h (some ⟨.name, d, 0⟩)).1 s a s' w hr
  intro s a s' w hi he hlq hq hr hnd
  obtain ⟨d, sP, hp, h2⟩ := bind_dec peekData f s s' a hr
  obtain ⟨o, sQ, hp1, hp2⟩ := bind_dec peekToken _ s sP d hp
  rw [run_pure] at hp2
  injection hp2 with hd hs
  subst hs hd
  have p := peekToken_obs s sQ o w hp1
  have heP : EofEnd sQ := eofEnd_eat he p.eat (by intro x hx; cases hx)
  have hiP := (run_inv_added peekToken s hi o sQ hp1).1
  have hqP : H (Toks sQ) ∧ (Toks sQ).head? = o := by
    rw [p.toks]; exact ⟨hq, p.head.symm⟩
  obtain ⟨cs, ad, a1, a2, a3, a4, a5⟩ := (h o).2 sQ a s' p.w hiP heP (hlq.of_eq p.toks) hqP h2 hnd
  exact ⟨cs, ad, by rw [← p.toks]; exact a1, a2, a3, by rw [a4, keeps_peekToken s o sQ hp1], a5⟩

theorem tr_ite {α : Type} {E H} (c : Bool) {a b : PI α} {R : α → List Tok → List Elem → Prop}
    (ha : c = true → Tr E H a R) (hb : c = false → Tr E H b R) : Tr E H (if c then a else b) R := by
  cases c
  · simpa using hb rfl
  · simpa using ha rfl

/-! ### nodes -/

/-- `withNode`: the state in which the body starts, the state in which it ends, and the new node -/
theorem withNode_tree {α : Type} (kind : SK) (body : PI α) (s : PState) (hi : Inv s) (a : α) (s' : PState)
    (hr : (withNode kind body).run s = .ok a s') :
    ∃ s1 s2 inner, ObsEq s s1 ∧ Inv s1 ∧ s1.pending = [] ∧ (skipIgnored >>= fun _ => body).run s1 = .ok a s2 ∧ ObsEq s2 s' ∧
      s2.builder.children = s1.builder.children ++ inner ∧
      s'.builder.children = s.builder.children ++ s.pending.map pendingElem ++ [Elem.node kind inner] := by
  have h1 := pushIgnored.ok s hi
  have e1 : pushIgnored.run s = .ok () { s with builder := { s.builder with children := s.builder.children ++ s.pending.map pendingElem }, pending := [] } := rfl
  simp only [e1, Post] at h1
  obtain ⟨hi1, _⟩ := h1
  simp only [withNode, e1] at hr
  have hi1' : Inv (rawStartNode kind { s with builder := { s.builder with children := s.builder.children ++ s.pending.map pendingElem }, pending := [] }) := by
    refine ⟨hi1.text, ?_, hi1.lexDone, hi1.eofTok, hi1.errNonempty⟩
    intro p hp
    simp only [rawStartNode, Builder.startNode, List.mem_cons] at hp ⊢
    rcases hp with rfl | hp
    · exact Nat.le_refl _
    · exact hi1.parents p hp
  have h2 := (skipIgnored >>= fun _ => body).ok _ hi1'
  cases hr2 : (skipIgnored >>= fun _ => body).run (rawStartNode kind { s with builder := { s.builder with children := s.builder.children ++ s.pending.map pendingElem }, pending := [] }) with
  | abort w => simp [hr2] at hr
  | panic m => simp [hr2] at hr
  | ok a2 s2 =>
    simp only [hr2, Post] at h2 hr
    obtain ⟨_, hf2⟩ := h2
    have hp : s2.builder.parents = (kind, (s.builder.children ++ s.pending.map pendingElem).length) :: s.builder.parents := by
      rw [hf2.parents]; rfl
    obtain ⟨added, hadd⟩ := hf2.children
    simp only [rawStartNode, Builder.startNode] at hadd
    simp only [Builder.finishNode, hp, Res.ok.injEq] at hr
    obtain ⟨rfl, rfl⟩ := hr
    refine ⟨rawStartNode kind { s with builder := { s.builder with children := s.builder.children ++ s.pending.map pendingElem }, pending := [] },
      s2, added, ⟨rfl, rfl, rfl, rfl, rfl, rfl⟩, hi1', rfl, hr2, ⟨rfl, rfl, rfl, rfl, rfl, rfl⟩, hadd, ?_⟩
    simp only [hadd]
    have ht : List.take (s.builder.children ++ s.pending.map pendingElem).length
        (s.builder.children ++ s.pending.map pendingElem ++ added) = s.builder.children ++ s.pending.map pendingElem :=
      List.take_left' rfl
    have hd : List.drop (s.builder.children ++ s.pending.map pendingElem).length
        (s.builder.children ++ s.pending.map pendingElem ++ added) = added :=
      List.drop_left' rfl
    rw [ht, hd]

theorem eofEnd_obs {s s' : PState} (he : EofEnd s) (o : ObsEq s s') : EofEnd s' :=
  eofEnd_same _ _ he o.current o.lx o.errors

/-- a node: everything the body appends becomes the children of ONE new element -/
theorem tr_withNodeAny {α : Type} {E : PState → Prop} (hE : Early E) {H : List Tok → Prop} (K : SK) {body : PI α}
    {R : α → List Tok → List Elem → Prop} (h : Tr E (fun _ => True) body R) :
    Tr E H (withNode K body) (fun a cs e => ∃ inner, e = [Elem.node K inner] ∧ R a cs (sigE inner)) := by
  refine ⟨good_withNode K body h.1, ?_⟩
  intro s a s' w hi he hlq _ hr hnd
  obtain ⟨s0, s2, inner, o0, hi0, _, hr2, o2, hin, hout⟩ := withNode_tree K body s hi a s' hr
  obtain ⟨_, s1, hs, hb⟩ := bind_dec skipIgnored _ s0 s2 a hr2
  obtain ⟨ign, e, hall, _⟩ := skipIgnored_spec s0 s1 (o0.w w) hs
  have e01 : Eat s s1 ign := by simpa using (Eat.ofObsEq o0 w).trans e
  have he1 : EofEnd s1 := eofEnd_eat he e01 (noEof_ignored ign hall)
  have hi1 := (run_inv_added skipIgnored s0 hi0 () s1 hs).1
  have hnd2 : ¬ Doomed s2 := fun d => hnd (o2.doomed.mpr d)
  obtain ⟨cs, ad, a1, a2, a3, a4, a5⟩ := h.2 s1 a s2 e01.w hi1 he1 (LQ.suffix (cs := ign) (by rw [← e01.toks]; exact hlq)) trivial hb hnd2
  have hk1 : s1.builder = s0.builder := keeps_skipIgnored s0 () s1 hs
  have hinner : inner = ad := by
    rw [hk1] at a4
    rw [a4] at hin
    exact (List.append_cancel_left hin).symm
  subst hinner
  refine ⟨ign ++ cs, s.pending.map pendingElem ++ [Elem.node K inner], ?_, noEof_append (noEof_ignored ign hall) a2,
    eofEnd_obs a3 o2, by rw [hout, List.append_assoc], ?_⟩
  · rw [e01.toks, a1, o2.toks, List.append_assoc]
  · rcases a5 with r | ev
    · left
      rw [sig_append, sig_ignored ign hall, List.nil_append, sigE_append, sigE_pending, List.nil_append, sigE_node]
      exact ⟨inner, rfl, r⟩
    · exact Or.inr (hE.toks s2 s' o2.toks ev)

/-- the same, the head of the queue being known (it is significant, so `start_node` skips nothing) -/
theorem tr_withNode {α : Type} {E : PState → Prop} (hE : Early E) {H : List Tok → Prop} (K : SK) {body : PI α}
    {R : α → List Tok → List Elem → Prop}
    (hsig : ∀ q, H q → ∃ t rest, q = t :: rest ∧ isIgnoredKind t.kind = false)
    (h : Tr E H body R) :
    Tr E H (withNode K body) (fun a cs e => ∃ inner, e = [Elem.node K inner] ∧ R a cs (sigE inner)) := by
  refine ⟨good_withNode K body h.1, ?_⟩
  intro s a s' w hi he hlq hq hr hnd
  obtain ⟨t, rest, ht, hni⟩ := hsig _ hq
  obtain ⟨s0, s2, inner, o0, hi0, _, hr2, o2, hin, hout⟩ := withNode_tree K body s hi a s' hr
  obtain ⟨_, s1, hs, hb⟩ := bind_dec skipIgnored _ s0 s2 a hr2
  obtain ⟨ign, e, hall, _⟩ := skipIgnored_spec s0 s1 (o0.w w) hs
  have : ign = [] := skip_nothing s0 s1 t rest ign (by rw [o0.toks]; exact ht) hni e hall
  subst this
  have e01 : Eat s s1 [] := by simpa using (Eat.ofObsEq o0 w).trans e
  have ht1 : Toks s1 = Toks s := by have := e01.toks; simpa using this.symm
  have he1 : EofEnd s1 := eofEnd_eat he e01 (by intro x hx; cases hx)
  have hi1 := (run_inv_added skipIgnored s0 hi0 () s1 hs).1
  have hnd2 : ¬ Doomed s2 := fun d => hnd (o2.doomed.mpr d)
  obtain ⟨cs, ad, a1, a2, a3, a4, a5⟩ := h.2 s1 a s2 e01.w hi1 he1 (hlq.of_eq ht1) (by rw [ht1]; exact hq) hb hnd2
  have hk1 : s1.builder = s0.builder := keeps_skipIgnored s0 () s1 hs
  have hinner : inner = ad := by
    rw [hk1] at a4
    rw [a4] at hin
    exact (List.append_cancel_left hin).symm
  subst hinner
  refine ⟨cs, s.pending.map pendingElem ++ [Elem.node K inner], ?_, a2, eofEnd_obs a3 o2, by rw [hout, List.append_assoc], ?_⟩
  · rw [← ht1, a1, o2.toks]
  · rcases a5 with r | ev
    · left
      rw [sigE_append, sigE_pending, List.nil_append, sigE_node]
      exact ⟨inner, rfl, r⟩
    · exact Or.inr (hE.toks s2 s' o2.toks ev)

/-! ### tokens -/

theorem pushIgnored_children (s s' : PState) (h : pushIgnored.run s = .ok () s') :
    s'.builder.children = s.builder.children ++ s.pending.map pendingElem ∧ s'.pending = [] := by
  have e1 : pushIgnored.run s = .ok () { s with builder := { s.builder with children := s.builder.children ++ s.pending.map pendingElem }, pending := [] } := rfl
  rw [e1] at h
  injection h with _ h
  subst h
  exact ⟨rfl, rfl⟩

theorem moveCurToTree_children (kind : SK) (s s' : PState) (t : Tok) (hc : s.current = some t)
    (h : (moveCurToTree kind).run s = .ok () s') :
    s'.builder.children = s.builder.children ++ s.pending.map pendingElem ++ [Elem.tok kind t.data] := by
  unfold moveCurToTree at h
  simp only [hc] at h
  injection h with _ h
  subst h
  rfl

/-- `eat` on a non-empty queue: the pending (junk) elements, then the token -/
theorem eat_children (kind : SK) (s s' : PState) (w : TW s) (t : Tok) (rest : List Tok) (ht : Toks s = t :: rest)
    (h : (eat kind).run s = .ok () s') :
    ∃ junk, sigE junk = [] ∧ s'.builder.children = s.builder.children ++ junk ++ [Elem.tok kind t.data] := by
  unfold eat at h
  obtain ⟨_, s1, h1, h2⟩ := bind_dec pushIgnored _ s s' () h
  have o1 := pushIgnored_obs s s1 h1
  obtain ⟨c1, p1⟩ := pushIgnored_children s s1 h1
  obtain ⟨o, s2, h3, h4⟩ := bind_dec peekToken _ s1 s' () h2
  have p := peekToken_obs s1 s2 o (o1.w w) h3
  have ho : o = some t := by rw [p.head, o1.toks, ht]; rfl
  subst ho
  have hb2 : s2.builder = s1.builder := keeps_peekToken s1 _ s2 h3
  have := moveCurToTree_children kind s2 s' t p.current h4
  refine ⟨s.pending.map pendingElem ++ s2.pending.map pendingElem, by rw [sigE_append, sigE_pending, sigE_pending]; rfl, ?_⟩
  rw [this, hb2, c1]
  simp [List.append_assoc]

theorem keeps_bump_skip (kind : SK) (s s1 s' : PState) (h2 : skipIgnored.run s1 = .ok () s') : s'.builder = s1.builder :=
  keeps_skipIgnored s1 () s' h2

/-- `bump` on a token satisfying `P`: exactly that token, as a `kind` token of the tree -/
theorem tr_bump {E : PState → Prop} (k : SK) (hk : isJunkKind k = false) (P : Tok → Prop)
    (hP : ∀ t, P t → isIgnoredKind t.kind = false ∧ t.kind ≠ .eof) :
    Tr E (HeadP P) (bump k) (fun _ cs e => ∃ t, P t ∧ TokFact t ∧ cs = [t] ∧ e = [Elem.tok k t.data]) := by
  refine ⟨good_bump k, ?_⟩
  intro s a s' w hi he hlq ⟨t, hh, hp⟩ hr _
  obtain ⟨hni, hne⟩ := hP t hp
  have ht := toks_head_cons s t hh
  obtain ⟨ign, e, hall, _⟩ := bump_spec k s s' w t _ ht hr
  unfold bump at hr
  obtain ⟨_, s1, h1, h2⟩ := bind_dec (eat k) _ s s' () hr
  obtain ⟨junk, hj, hc⟩ := eat_children k s s1 w t _ ht h1
  refine ⟨t :: ign, junk ++ [Elem.tok k t.data], e.toks, noEof_cons hne hall, eofEnd_eat he e (noEof_cons hne hall),
    by rw [keeps_skipIgnored s1 () s' h2, hc, List.append_assoc], Or.inl ⟨t, hp, hlq.fact t (by rw [ht]; exact List.mem_cons_self ..), ?_, ?_⟩⟩
  · have : t :: ign = [t] ++ ign := rfl
    rw [this, sig_append, sig_ignored ign hall, sig_single t hni]; rfl
  · rw [sigE_append, hj, sigE_tok k t.data hk]; rfl

/-- `eat` (no `skip_ignored` afterwards) -/
theorem tr_eat {E : PState → Prop} (k : SK) (hk : isJunkKind k = false) (P : Tok → Prop)
    (hP : ∀ t, P t → isIgnoredKind t.kind = false ∧ t.kind ≠ .eof) :
    Tr E (HeadP P) (eat k) (fun _ cs e => ∃ t, P t ∧ TokFact t ∧ cs = [t] ∧ e = [Elem.tok k t.data]) := by
  refine ⟨good_eat k, ?_⟩
  intro s a s' w hi he hlq ⟨t, hh, hp⟩ hr _
  obtain ⟨hni, hne⟩ := hP t hp
  have ht := toks_head_cons s t hh
  have e1 : Eat s s' [t] := by
    rcases eat_spec k s s' w hr with ⟨t', rest', hq, e, _⟩ | ⟨hq, _⟩
    · rw [ht] at hq; injection hq with hq _; subst hq; exact e
    · rw [ht] at hq; cases hq
  obtain ⟨junk, hj, hc⟩ := eat_children k s s' w t _ ht hr
  have hno : NoEof [t] := by intro x hx; simp at hx; subst hx; exact hne
  refine ⟨[t], junk ++ [Elem.tok k t.data], e1.toks, hno, eofEnd_eat he e1 hno, by rw [hc, List.append_assoc],
    Or.inl ⟨t, hp, hlq.fact t (by rw [ht]; exact List.mem_cons_self ..), sig_single t hni, ?_⟩⟩
  rw [sigE_append, hj, sigE_tok k t.data hk]; rfl

end Apollo.Parse
