import ApolloModel.Proofs.ParserRecursion18
/-
C04 growth (recursion limit across runs), part 19: "no hit ⇒ no limit error" (`NG`) for every loop, every
primitive and every grammar function, by the same automation as part 16.
-/
set_option linter.unusedSimpArgs false
set_option linter.unusedVariables false
namespace Apollo.Parse
open Apollo.Rowan hiding Str
open Apollo.Lex hiding Str

syntax "ng_leaf" : tactic
macro_rules | `(tactic| ng_leaf) => `(tactic| assumption)
macro_rules | `(tactic| ng_leaf) => `(tactic| first
  | exact ng_pure _
  | exact ng_of_plainQ plainQ_peekToken | exact ng_of_plainQ plainQ_moveCurToPending | exact ng_of_plainQ plainQ_srcLen
  | exact ng_of_plainQ plainQ_getCurrent | exact ng_of_plainQ plainQ_pushIgnored | exact ng_of_plainQ (plainQ_moveCurToTree _)
  | exact ng_of_plainQ plainQ_popDrop | exact ng_of_plainQ (plainQ_peekTokenN _) | exact ng_of_plainQ plainQ_assertRecZero
  | exact ng_of_plainQ plainQ_outOfFuel | exact ng_of_plainQ plainQ_stuck
  | exact ng_of_plainQ (plainQ_pushErr _ (tokErr_kind _))
  | exact plain_limitErr | exact plain_bind _ _ plain_limitErr (fun _ => plain_pure _))

syntax "ng_auto" : tactic
macro_rules | `(tactic| ng_auto) => `(tactic| repeat (first
  | (with_reducible ng_leaf)
  | (with_reducible apply_assumption)
  | (with_reducible apply ng_bind) | (with_reducible apply ng_ite) | (with_reducible apply ng_withRec)
  | (with_reducible apply ng_wrapIf)
  | (extract_lets jp
     have hjp : ∀ r, NG (jp r) := by
       intro r
       dsimp (config := { zeta := false }) only [jp]
       ng_auto
     clear_value jp)
  | intro _
  | split))

theorem ng_skipIgnoredLoop : ∀ (fuel : Nat), NG (skipIgnoredLoop fuel)
  | 0 => ng_of_plainQ plainQ_outOfFuel
  | fuel + 1 => by
    have ih := ng_skipIgnoredLoop fuel
    unfold skipIgnoredLoop
    ng_auto

theorem ng_skipIgnored : NG skipIgnored := by
  unfold skipIgnored
  exact ng_bind _ _ (ng_of_plainQ plainQ_srcLen) (fun n => ng_skipIgnoredLoop (n + 3))
macro_rules | `(tactic| ng_leaf) => `(tactic| exact ng_skipIgnored)

theorem ng_withNode' {α : Type} (kind : SK) (body : PI α) (hb : NG body) : NG (withNode kind body) :=
  ng_withNode kind body ng_skipIgnored hb
macro_rules | `(tactic| ng_auto) => `(tactic| repeat (first
  | (with_reducible ng_leaf)
  | (with_reducible apply_assumption)
  | (with_reducible apply ng_withNode')
  | (with_reducible apply ng_bind) | (with_reducible apply ng_ite) | (with_reducible apply ng_withRec)
  | (with_reducible apply ng_wrapIf)
  | (extract_lets jp
     have hjp : ∀ r, NG (jp r) := by
       intro r
       dsimp (config := { zeta := false }) only [jp]
       ng_auto
     clear_value jp)
  | intro _
  | split))

theorem ng_peek : NG peek := by unfold peek; ng_auto
macro_rules | `(tactic| ng_leaf) => `(tactic| exact ng_peek)
theorem ng_peekData : NG peekData := by unfold peekData; ng_auto
macro_rules | `(tactic| ng_leaf) => `(tactic| exact ng_peekData)
theorem ng_peekN (n : Nat) : NG (peekN n) := by unfold peekN; ng_auto
macro_rules | `(tactic| ng_leaf) => `(tactic| exact ng_peekN _)
theorem ng_peekDataN (n : Nat) : NG (peekDataN n) := by unfold peekDataN; ng_auto
macro_rules | `(tactic| ng_leaf) => `(tactic| exact ng_peekDataN _)
theorem ng_eat (k : SK) : NG (eat k) := by unfold eat; ng_auto
macro_rules | `(tactic| ng_leaf) => `(tactic| exact ng_eat _)
theorem ng_bump (k : SK) : NG (bump k) := by unfold bump; ng_auto
macro_rules | `(tactic| ng_leaf) => `(tactic| exact ng_bump _)
theorem ng_errAtToken (t : Tok) : NG (errAtToken t) := ng_of_plainQ (plainQ_pushErr _ (tokErr_kind t))
macro_rules | `(tactic| ng_leaf) => `(tactic| exact ng_errAtToken _)
theorem ng_err : NG err := by unfold err; ng_auto
macro_rules | `(tactic| ng_leaf) => `(tactic| exact ng_err)
theorem ng_errAndPop : NG errAndPop := by unfold errAndPop; ng_auto
macro_rules | `(tactic| ng_leaf) => `(tactic| exact ng_errAndPop)
theorem ng_expect (t : Kind) (k : SK) : NG (expect t k) := by unfold expect; ng_auto
macro_rules | `(tactic| ng_leaf) => `(tactic| exact ng_expect _ _)
theorem ng_name : NG name := by unfold name; ng_auto
macro_rules | `(tactic| ng_leaf) => `(tactic| exact ng_name)

/-! ### loops -/

theorem ng_peekWhileLoop (body : Kind → PI Bool) (hb : ∀ k, NG (body k)) : ∀ fuel, NG (peekWhileLoop body fuel)
  | 0 => ng_of_plainQ plainQ_outOfFuel
  | fuel + 1 => by
    have ih := ng_peekWhileLoop body hb fuel
    unfold peekWhileLoop
    ng_auto

theorem ng_peekWhile (body : Kind → PI Bool) (hb : ∀ k, NG (body k)) : NG (peekWhile body) :=
  ng_bind _ _ (ng_of_plainQ plainQ_srcLen) (fun _ => ng_peekWhileLoop body hb _)

theorem ng_peekWhileKindLoop (k : Kind) (body : PI Unit) (hb : NG body) : ∀ fuel, NG (peekWhileKindLoop k body fuel)
  | 0 => ng_of_plainQ plainQ_outOfFuel
  | fuel + 1 => by
    have ih := ng_peekWhileKindLoop k body hb fuel
    unfold peekWhileKindLoop
    ng_auto

theorem ng_peekWhileKind (k : Kind) (body : PI Unit) (hb : NG body) : NG (peekWhileKind k body) :=
  ng_bind _ _ (ng_of_plainQ plainQ_srcLen) (fun _ => ng_peekWhileKindLoop k body hb _)

theorem ng_peekWhileFlagLoop (body : Kind → PI (Bool × Bool)) (hb : ∀ k, NG (body k)) :
    ∀ fuel flag, NG (peekWhileFlagLoop body fuel flag)
  | 0, _ => ng_of_plainQ plainQ_outOfFuel
  | fuel + 1, flag => by
    have ih := ng_peekWhileFlagLoop body hb fuel
    unfold peekWhileFlagLoop
    ng_auto

theorem ng_peekWhileKindFlagLoop (k : Kind) (body : PI Unit) (hb : NG body) :
    ∀ fuel flag, NG (peekWhileKindFlagLoop k body fuel flag)
  | 0, _ => ng_of_plainQ plainQ_outOfFuel
  | fuel + 1, flag => by
    have ih := ng_peekWhileKindFlagLoop k body hb fuel
    unfold peekWhileKindFlagLoop
    ng_auto

theorem ng_parseSeparatedList (sep : Kind) (syn : SK) (run : PI Unit) (hr : NG run) : NG (parseSeparatedList sep syn run) := by
  have hk : NG (peekWhileKind sep (bump syn >>= fun _ => run)) := ng_peekWhileKind _ _ (ng_bind _ _ (ng_bump _) (fun _ => hr))
  unfold parseSeparatedList
  ng_auto

macro_rules | `(tactic| ng_auto) => `(tactic| repeat (first
  | (with_reducible ng_leaf)
  | (with_reducible apply_assumption)
  | (with_reducible apply ng_withNode')
  | (with_reducible apply ng_bind) | (with_reducible apply ng_ite) | (with_reducible apply ng_withRec)
  | (with_reducible apply ng_wrapIf)
  | (with_reducible apply ng_peekWhile) | (with_reducible apply ng_peekWhileKind)
  | (with_reducible apply ng_parseSeparatedList) | (with_reducible apply ng_peekWhileKindFlagLoop)
  | (with_reducible apply ng_peekWhileFlagLoop)
  | (extract_lets jp
     have hjp : ∀ r, NG (jp r) := by
       intro r
       dsimp (config := { zeta := false }) only [jp]
       ng_auto
     clear_value jp)
  | intro _
  | split))

end Apollo.Parse
