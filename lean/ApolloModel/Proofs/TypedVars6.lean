import ApolloModel.Proofs.TypedVars5
/-
C18: reducing the hypothesis `DocOk` of the variable theorems.
 * what `document_from_ast` (ExecRules.build) itself guarantees needs no hypothesis: every field of a built
   selection set is defined on the type it is selected on (undefined fields are dropped with a build diagnostic),
   every operation has its root type;
 * with a schema whose input types are closed, the shape facts about literals reduce to "the argument's type is known".
What remains (`DocOkW`): arguments and directives are defined, spreads name fragments, type conditions are
composite types, no fragment is on a spread cycle — one structural rule each.
-/
namespace Apollo.ExecRules
open Apollo Apollo.Spec

/-- every field is defined on the type it is selected on -/
def FieldsDefined (s : RSchema) : String → RSels → Prop
  | _, .nil => True
  | t, .field name _ _ sub rest =>
    (∃ fd, s.field t name = some fd ∧ FieldsDefined s fd.ty.innerNamedType sub) ∧ FieldsDefined s t rest
  | t, .spread _ _ rest => FieldsDefined s t rest
  | t, .inline tc _ sub rest =>
    (match tc with
     | none => FieldsDefined s t sub
     | some c => FieldsDefined s c sub) ∧ FieldsDefined s t rest

theorem buildSels_fieldsDefined (s : RSchema) : ∀ (raw : RSels) (parent : String), FieldsDefined s parent (buildSels s parent raw) := by
  intro raw
  induction raw with
  | nil => intro parent; simp [buildSels, FieldsDefined]
  | field name dirs args sub rest ihs ihr =>
    intro parent
    simp only [buildSels]
    cases hf : s.field parent name with
    | none => exact ihr parent
    | some fd =>
      simp only
      split
      · exact ihr parent
      · exact ⟨⟨fd, hf, ihs _⟩, ihr parent⟩
  | spread f dirs rest ihr => intro parent; simp only [buildSels, FieldsDefined]; exact ihr parent
  | inline tc dirs sub rest ihs ihr =>
    intro parent
    cases tc with
    | none => simp only [buildSels, FieldsDefined]; exact ⟨ihs parent, ihr parent⟩
    | some t =>
      simp only [buildSels]
      split
      · exact ihr parent
      · exact ⟨ihs t, ihr parent⟩

/-- `SelsOk` without the clause "the field is defined on its parent type" -/
def SelsOkW (s : RSchema) (doc : RBuilt) : String → RSels → Prop
  | _, .nil => True
  | t, .field name dirs args sub rest =>
    dirsOk s dirs ∧ (∀ fd, s.field t name = some fd → argsOk s fd.args args ∧ SelsOkW s doc fd.ty.innerNamedType sub) ∧
      SelsOkW s doc t rest
  | t, .spread f dirs rest => dirsOk s dirs ∧ (doc.findFrag f).isSome ∧ SelsOkW s doc t rest
  | t, .inline tc dirs sub rest =>
    dirsOk s dirs ∧
      (match tc with
       | none => SelsOkW s doc t sub
       | some c => isCompositeType s c = true ∧ SelsOkW s doc c sub) ∧
      SelsOkW s doc t rest

theorem selsOk_of_defined (s : RSchema) (doc : RBuilt) : ∀ (t : RSels) (ty : String),
    FieldsDefined s ty t → SelsOkW s doc ty t → SelsOk s doc ty t := by
  intro t
  induction t with
  | nil => intro ty _ _; trivial
  | field name dirs args sub rest ihs ihr =>
    intro ty hd hw
    obtain ⟨⟨fd, hf, hds⟩, hdr⟩ := hd
    obtain ⟨h1, h2, h3⟩ := hw
    obtain ⟨ha, hs⟩ := h2 fd hf
    exact ⟨h1, ⟨fd, hf, ha, ihs _ hds hs⟩, ihr ty hdr h3⟩
  | spread f dirs rest ihr =>
    intro ty hd hw
    exact ⟨hw.1, hw.2.1, ihr ty hd hw.2.2⟩
  | inline tc dirs sub rest ihs ihr =>
    intro ty hd hw
    obtain ⟨hds, hdr⟩ := hd
    obtain ⟨h1, h2, h3⟩ := hw
    refine ⟨h1, ?_, ihr ty hdr h3⟩
    cases tc with
    | none => exact ihs ty hds h2
    | some c => exact ⟨h2.1, ihs c hds h2.2⟩

/-- what `document_from_ast` guarantees for everything it keeps -/
structure BuiltInv (s : RSchema) (st : RBuilt) : Prop where
  ops : ∀ o ∈ st.ops, ∃ t, s.root o.ty = some t ∧ FieldsDefined s t o.sels
  frags : ∀ f ∈ st.frags, FieldsDefined s f.tc f.sels

theorem buildDef_inv (s : RSchema) (st : RBuilt) (d : RDef) (h : BuiltInv s st) : BuiltInv s (buildDef s st d) := by
  cases d with
  | typeSystem => exact h
  | frag f =>
    simp only [buildDef]
    split
    · exact h
    · split
      · exact h
      · refine ⟨h.ops, ?_⟩
        intro g hg
        simp only [List.mem_append, List.mem_singleton] at hg
        rcases hg with hg | rfl
        · exact h.frags g hg
        · exact buildSels_fieldsDefined s f.sels f.tc
  | op o =>
    simp only [buildDef]
    cases hr : s.root o.ty with
    | none =>
      simp only [Option.map_none]
      cases o.name with
      | some n => simp only; split <;> exact h
      | none => simp only; split <;> exact h
    | some t =>
      simp only [Option.map_some]
      have hnew : FieldsDefined s t (buildSels s t o.sels) := buildSels_fieldsDefined s o.sels t
      cases o.name with
      | some n =>
        simp only
        split
        · exact h
        · refine ⟨?_, h.frags⟩
          intro x hx
          simp only [RBuilt.ops, List.mem_append, List.mem_singleton] at hx
          rcases hx with hx | hx | rfl
          · exact h.ops x (by simp [RBuilt.ops, hx])
          · exact h.ops x (by simp [RBuilt.ops, hx])
          · exact ⟨t, hr, hnew⟩
      | none =>
        simp only
        split
        · exact h
        · refine ⟨?_, h.frags⟩
          intro x hx
          simp only [RBuilt.ops, List.mem_append, Option.mem_toList] at hx
          rcases hx with hx | hx
          · injection hx with hx
            subst hx
            exact ⟨t, hr, hnew⟩
          · exact h.ops x (by simp [RBuilt.ops, hx])

theorem build_inv (s : RSchema) (ast : RAst) : BuiltInv s (build s ast) := by
  unfold build
  have : ∀ (l : RAst) (st : RBuilt), BuiltInv s st → BuiltInv s (l.foldl (buildDef s) st) := by
    intro l
    induction l with
    | nil => intro st h; exact h
    | cons d l ih => intro st h; exact ih _ (buildDef_inv s st d h)
  exact this ast {} ⟨by intro o ho; simp [RBuilt.ops] at ho, by intro f hf; cases hf⟩

/-- the remaining structural hypotheses -/
structure DocOkW (s : RSchema) (doc : RBuilt) : Prop where
  frags : ∀ f d, doc.findFrag f = some d →
    dirsOk s d.dirs ∧ isCompositeType s d.tc = true ∧ (reach doc d.sels).contains d.name = false ∧ SelsOkW s doc d.tc d.sels
  ops : ∀ o ∈ doc.ops, dirsOk s o.dirs ∧ ∀ t, s.root o.ty = some t → SelsOkW s doc t o.sels

theorem docOk_of_built (s : RSchema) (ast : RAst) (h : DocOkW s (build s ast)) : DocOk s (build s ast) := by
  have inv := build_inv s ast
  refine ⟨?_, ?_⟩
  · intro f d hf
    obtain ⟨h1, h2, h3, h4⟩ := h.frags f d hf
    have hmem : d ∈ (build s ast).frags := List.mem_of_find?_eq_some hf
    exact ⟨h1, h2, h3, selsOk_of_defined s _ d.sels d.tc (inv.frags d hmem) h4⟩
  · intro o ho
    obtain ⟨h1, h2⟩ := h.ops o ho
    obtain ⟨t, hr, hd⟩ := inv.ops o ho
    exact ⟨h1, t, hr, selsOk_of_defined s _ o.sels t hd (h2 t hr)⟩

/-- with closed input types, an argument list is fine as soon as every argument is defined with a type the schema knows -/
theorem argsOk_of_closed (s : RSchema) (hc : InputClosed s) (defs : List InDef) (args : List RArg)
    (h : ∀ a ∈ args, ∃ d, defs.find? (·.name == a.name) = some d ∧ (s.kindForValue d.ty.innerNamedType).isSome) :
    argsOk s defs args := by
  intro a ha
  obtain ⟨d, hd, hk⟩ := h a ha
  exact ⟨d, hd, litOk_of_closed s hc _ d.ty a.value hk⟩

end Apollo.ExecRules
