import ApolloModel.Proofs.AstTokens
/-
Property C08/C19, text level, part 1: the serializer never glues two tokens together.

`scan` walks a command list keeping the class of the last token written since the last *guaranteed*
ignored text (a write that happens in every configuration: `raw " "`, `raw ","`, `new_line_or_space`,
`indent_or_space`, `dedent_or_space`; NOT `indent` / `dedent` / `rawIfNewlines`, which write nothing when
newlines are disabled).  It fails when a token would directly follow a token it cannot follow:
name/number after name/number, string after string, `...` after a number.
`separated_document`: it never fails on the commands of a document.
-/
namespace Apollo.Ast

inductive Cls where
  | word | num | str | spread | other
  deriving DecidableEq, Repr

def clsTok : Tok → Cls
  | .name _ => .word
  | .int _ | .float _ => .num
  | .str _ => .str
  | .p .spread => .spread
  | .p _ => .other

/-- `conflict a b`: a token of class `b` written directly after a token of class `a` would not lex back
    to the two tokens (`ab`, `a1`, `1a`, `12`, `""""`, `1...`) -/
def conflict : Cls → Cls → Bool
  | .word, .word | .word, .num | .num, .word | .num, .num => true
  | .str, .str => true
  | .num, .spread => true
  | _, _ => false

def conflictO (st : Option Cls) (c : Cls) : Bool :=
  match st with
  | some p => conflict p c
  | none => false

def isIgnoredChar (c : Char) : Bool := c == ' ' || c == ',' || c == '\t' || c == '\n' || c == '\r' || c == '﻿'

def sepStep (st : Option Cls) : Cmd → Option (Option Cls)
  | .tok t => if conflictO st (clsTok t) then none else some (some (clsTok t))
  | .str _ _ => if conflictO st .str then none else some (some .str)
  | .raw s => if s.isEmpty then some st else if s.all isIgnoredChar then some none else none
  | .indentOrSpace | .dedentOrSpace | .newLineOrSpace => some none
  | .indent | .dedent | .beginSingle | .endSingle => some st
  | .rawIfNewlines s => if s.all isIgnoredChar then some st else none

def scan : Option Cls → List Cmd → Option (Option Cls)
  | st, [] => some st
  | st, c :: cs => (sepStep st c).bind (fun e => scan e cs)

/-- no two tokens are glued, in any configuration -/
def separated (cs : List Cmd) : Prop := (scan none cs).isSome = true

def Ok (st : Option Cls) (cs : List Cmd) : Prop := (scan st cs).isSome = true
def Any (cs : List Cmd) : Prop := ∀ st, Ok st cs
def Clean (st : Option Cls) : Prop := st = none ∨ st = some .other

theorem clean_none : Clean none := .inl rfl
theorem clean_other : Clean (some .other) := .inr rfl

theorem scan_append (st : Option Cls) (a b : List Cmd) :
    scan st (a ++ b) = (scan st a).bind (fun e => scan e b) := by
  induction a generalizing st with
  | nil => simp [scan]
  | cons c cs ih =>
    simp only [List.cons_append, scan]
    cases sepStep st c with
    | none => simp
    | some e => simp [ih]

theorem ok_append {st : Option Cls} {a b : List Cmd} (h1 : Ok st a) (h2 : ∀ e, scan st a = some e → Ok e b) :
    Ok st (a ++ b) := by
  unfold Ok at *
  rw [scan_append]
  cases h : scan st a with
  | none => simp [h] at h1
  | some e => simpa using h2 e h

theorem ok_append_any {st : Option Cls} {a b : List Cmd} (h1 : Ok st a) (h2 : Any b) : Ok st (a ++ b) :=
  ok_append h1 (fun e _ => h2 e)

theorem any_append {a b : List Cmd} (h1 : Any a) (h2 : Any b) : Any (a ++ b) :=
  fun st => ok_append_any (h1 st) h2

theorem ok_nil (st : Option Cls) : Ok st [] := by simp [Ok, scan]
theorem any_nil : Any [] := fun st => ok_nil st

/-! peeling literal commands -/

theorem ok_sp {st : Option Cls} {cs : List Cmd} (h : Ok none cs) : Ok st (sp :: cs) := by
  simpa [Ok, scan, sepStep, sp, isIgnoredChar] using h
theorem ok_comma {st : Option Cls} {cs : List Cmd} (h : Ok none cs) : Ok st (.raw [','] :: cs) := by
  simpa [Ok, scan, sepStep, isIgnoredChar] using h
theorem ok_nl {st : Option Cls} {cs : List Cmd} (h : Ok none cs) : Ok st (.newLineOrSpace :: cs) := by
  simpa [Ok, scan, sepStep] using h
theorem ok_indentOrSpace {st : Option Cls} {cs : List Cmd} (h : Ok none cs) : Ok st (.indentOrSpace :: cs) := by
  simpa [Ok, scan, sepStep] using h
theorem ok_dedentOrSpace {st : Option Cls} {cs : List Cmd} (h : Ok none cs) : Ok st (.dedentOrSpace :: cs) := by
  simpa [Ok, scan, sepStep] using h
theorem ok_indent {st : Option Cls} {cs : List Cmd} (h : Ok st cs) : Ok st (.indent :: cs) := by
  simpa [Ok, scan, sepStep] using h
theorem ok_dedent {st : Option Cls} {cs : List Cmd} (h : Ok st cs) : Ok st (.dedent :: cs) := by
  simpa [Ok, scan, sepStep] using h
theorem ok_beginSingle {st : Option Cls} {cs : List Cmd} (h : Ok st cs) : Ok st (.beginSingle :: cs) := by
  simpa [Ok, scan, sepStep] using h
theorem ok_endSingle {st : Option Cls} {cs : List Cmd} (h : Ok st cs) : Ok st (.endSingle :: cs) := by
  simpa [Ok, scan, sepStep] using h
theorem ok_rawIfNl_comma {st : Option Cls} {cs : List Cmd} (h : Ok st cs) : Ok st (.rawIfNewlines [','] :: cs) := by
  simpa [Ok, scan, sepStep, isIgnoredChar] using h
theorem ok_rawIfNl_nl {st : Option Cls} {cs : List Cmd} (h : Ok st cs) : Ok st (.rawIfNewlines ['\n'] :: cs) := by
  simpa [Ok, scan, sepStep, isIgnoredChar] using h
theorem ok_tok {st : Option Cls} {t : Tok} {cs : List Cmd} (hc : conflictO st (clsTok t) = false)
    (h : Ok (some (clsTok t)) cs) : Ok st (.tok t :: cs) := by
  simpa [Ok, scan, sepStep, hc] using h
/-- a punctuator other than `...` may follow anything -/
theorem ok_pn {st : Option Cls} {k : P} {cs : List Cmd} (hk : k ≠ .spread) (h : Ok (some .other) cs) :
    Ok st (pn k :: cs) := by
  have hcls : clsTok (.p k) = .other := by cases k <;> simp_all [clsTok]
  refine ok_tok ?_ (by rw [hcls]; exact h)
  rw [hcls]; cases st with
  | none => rfl
  | some p => cases p <;> rfl
/-- `...` may follow anything but a number -/
theorem ok_spread {st : Option Cls} {cs : List Cmd} (hs : st ≠ some .num) (h : Ok (some .spread) cs) :
    Ok st (pn .spread :: cs) := by
  refine ok_tok ?_ h
  cases st with
  | none => rfl
  | some p => cases p <;> simp_all [conflictO, conflict, clsTok]
/-- a name may follow a separator or a punctuator -/
theorem ok_nm {st : Option Cls} {n : Str} {cs : List Cmd} (hs : st = none ∨ st = some .other ∨ st = some .spread)
    (h : Ok (some .word) cs) : Ok st (nm n :: cs) := by
  refine ok_tok ?_ h
  rcases hs with hs | hs | hs <;> subst hs <;> rfl
theorem ok_kw {st : Option Cls} {n : String} {cs : List Cmd} (hs : st = none ∨ st = some .other ∨ st = some .spread)
    (h : Ok (some .word) cs) : Ok st (kw n :: cs) := ok_nm (n := n.toList) hs h
theorem ok_str {st : Option Cls} {b : Bool} {s : Str} {cs : List Cmd} (hs : st ≠ some .str)
    (h : Ok (some .str) cs) : Ok st (.str b s :: cs) := by
  have : conflictO st .str = false := by
    cases st with
    | none => rfl
    | some p => cases p <;> simp_all [conflictO, conflict]
  simpa [Ok, scan, sepStep, this] using h

theorem Clean.nm {st : Option Cls} (h : Clean st) : st = none ∨ st = some .other ∨ st = some .spread := by
  rcases h with h | h
  · exact .inl h
  · exact .inr (.inl h)
theorem Clean.ne_str {st : Option Cls} (h : Clean st) : st ≠ some .str := by
  rcases h with h | h <;> subst h <;> simp
theorem Clean.ne_num {st : Option Cls} (h : Clean st) : st ≠ some .num := by
  rcases h with h | h <;> subst h <;> simp

/-! containers -/

/-- items of a flattened `sep ++ item` list, each started from a clean state -/
theorem ok_flatten_sep (sep : List Cmd) (hsep : ∀ st cs, Ok none cs → Ok st (sep ++ cs))
    (items : List (List Cmd)) (hi : ∀ item ∈ items, Ok none item) (tail : List Cmd) (ht : Any tail) :
    Any ((items.map fun v => sep ++ v).flatten ++ tail) := by
  induction items with
  | nil => simpa using ht
  | cons v r ih =>
    intro st
    simp only [List.map_cons, List.flatten_cons, List.append_assoc]
    exact hsep st _ (ok_append_any (hi v (List.mem_cons_self ..)) (ih (fun i hi' => hi i (List.mem_cons_of_mem _ hi'))))

theorem any_curly (items : List (List Cmd)) (hi : ∀ item ∈ items, Ok none item) : Any (curly items) := by
  intro st
  cases items with
  | nil => exact ok_pn (by simp) (ok_pn (by simp) (ok_nil _))
  | cons first rest =>
    simp only [curly, List.cons_append, List.nil_append, List.append_assoc]
    refine ok_pn (by simp) (ok_indentOrSpace ?_)
    refine ok_append_any (hi first (List.mem_cons_self ..)) ?_
    have := ok_flatten_sep [.newLineOrSpace] (fun st cs h => ok_nl h) rest
      (fun i hi' => hi i (List.mem_cons_of_mem _ hi')) [.dedentOrSpace, pn .rCurly]
      (fun st => ok_dedentOrSpace (ok_pn (by simp) (ok_nil _)))
    simpa using this

theorem any_commaSeparated (o c : P) (ho : o ≠ .spread) (hc : c ≠ .spread) (items : List (List Cmd))
    (hi : ∀ item ∈ items, ∀ st, Clean st → Ok st item) : Any (commaSeparated o c items) := by
  intro st
  cases items with
  | nil => exact ok_pn ho (ok_pn hc (ok_nil _))
  | cons first rest =>
    simp only [commaSeparated, List.cons_append, List.nil_append, List.append_assoc]
    refine ok_pn ho (ok_indent ?_)
    refine ok_append_any (hi first (List.mem_cons_self ..) _ clean_other) ?_
    have := ok_flatten_sep [.raw [','], .newLineOrSpace] (fun st cs h => ok_comma (ok_nl h)) rest
      (fun i hi' => hi i (List.mem_cons_of_mem _ hi') none clean_none) [.rawIfNewlines [','], .dedent, pn c]
      (fun st => ok_rawIfNl_comma (ok_dedent (ok_pn hc (ok_nil _))))
    simpa using this

end Apollo.Ast
