import ApolloModel.Proofs.ParserTree22
/-
C08 growth (pipeline), part 23 (stage iv): fragment definitions — the shape of FRAGMENT_DEFINITION nodes, what
`impl Convert for cst::FragmentDefinition` reads from them, and that fragment.rs builds them.
-/
set_option linter.unusedSimpArgs false
set_option linter.unusedVariables false

namespace Apollo.FromCst
open Apollo.Rowan Apollo.Ast
open Apollo.Parse (isJunk isJunkKind sigE nameNode)

variable {R : List Loc}

/-- `selection_set()?` then `convert_selection_set`, on a node whose SELECTION_SET child is known -/
theorem selectionSetOf_conv (n : Nat) (k : SK) (cs : List Elem) (sels : Sels) (ess : Elem) (hnode : SelSetNode sels ess)
    (hfind : (sigE cs).find? (nodeP (· == "SELECTION_SET")) = some ess) (hs : size (.node k cs) ≤ n + 1) :
    ConvE (fun R => @selectionSetOf R n) sels (.node k cs) := by
  intro R s hp
  obtain ⟨s', h', hc⟩ := childP_some (R := R) (· == "SELECTION_SET") k cs s hp _ (by rw [find_nodeP_sigE]; exact hfind)
  have hmem : ess ∈ sigE cs := List.mem_of_find?_eq_some hfind
  have hsz : size ess ≤ n + 1 := by
    have := size_le_sizeList (mem_sigE hmem)
    rw [size_node] at hs; omega
  obtain ⟨l3, hl3⟩ := selSet_collect n sels _ hnode (fun es hes hsz' => cSels_selsTree n sels es hes hsz') hsz R s' h'
  refine ⟨[] ++ (l3 ++ []), ?_⟩
  show selectionSetOf n _ = _
  unfold selectionSetOf
  rw [child_eq_childP, hc]
  refine bind_ok rfl (bind_ok hl3 ?_)
  rw [listToSels_toList]; rfl

/-- `FRAGMENT_DEFINITION[fragment FRAGMENT_NAME[NAME] TYPE_CONDITION[on NAMED_TYPE[NAME]] Directives? SelectionSet]` -/
def FragDefTree (name tc : Ast.Str) (dirs : List Directive) (sels : Sels) (e : Elem) : Prop :=
  ∃ cs kw fcs tcs ncs on td ess, e = .node "FRAGMENT_DEFINITION" cs ∧ isValidName name = true ∧ isValidName tc = true ∧
    sigE fcs = [nameNode name] ∧ sigE tcs = [.tok "on_KW" on, .node "NAMED_TYPE" ncs] ∧ sigE ncs = [nameNode tc] ∧
    OptDirs dirs td ∧ SelSetNode sels ess ∧
    sigE cs = .tok "fragment_KW" kw :: .node "FRAGMENT_NAME" fcs :: .node "TYPE_CONDITION" tcs :: (td ++ [ess])

theorem cDefinition_fragment_eq (n : Nat) (p : PE R) (hk : p.kind = "FRAGMENT_DEFINITION") :
    cDefinition n p = (M.ofOpt (child "FRAGMENT_NAME" p) >>= fun fname => nameOf fname >>= fun name =>
      M.ofOpt (child "TYPE_CONDITION" p) >>= fun tcn => cTypeCondition tcn >>= fun tc =>
      directivesOf n p >>= fun dirs => selectionSetOf n p >>= fun sels => pure (Definition.fragment name tc dirs sels)) := by
  simp [cDefinition, hk]

/-- `impl Convert for cst::FragmentDefinition` -/
theorem cDefinition_fragment (n : Nat) (name tc : Ast.Str) (dirs : List Directive) (sels : Sels) (e : Elem)
    (h : FragDefTree name tc dirs sels e) (hs : size e ≤ n + 1) :
    ConvE (fun R => @cDefinition R n) (.fragment name tc dirs sels) e := by
  obtain ⟨cs, kw, fcs, tcs, ncs, on, td, ess, rfl, hvn, hvt, hfcs, htcs, hncs, htd, hnode, hsig⟩ := h
  intro R s hp
  have hk : ∃ c, ess = .node "SELECTION_SET" c := by cases hnode with | mk _ c _ _ _ _ _ => exact ⟨c, rfl⟩
  obtain ⟨c4, rfl⟩ := hk
  have hff : cs.find? (nodeP (· == "FRAGMENT_NAME")) = some (.node "FRAGMENT_NAME" fcs) := by
    rw [find_nodeP_sigE, hsig]; find_groups
  obtain ⟨s1, h1, hc1⟩ := childP_some (R := R) _ "FRAGMENT_DEFINITION" cs s hp _ hff
  obtain ⟨l1, hl1⟩ := nameOf_node "FRAGMENT_NAME" fcs name hvn (by rw [hfcs]; rfl) R s1 h1
  have hft : cs.find? (nodeP (· == "TYPE_CONDITION")) = some (.node "TYPE_CONDITION" tcs) := by
    rw [find_nodeP_sigE, hsig]; find_groups
  obtain ⟨s2, h2, hc2⟩ := childP_some (R := R) _ "FRAGMENT_DEFINITION" cs s hp _ hft
  obtain ⟨l2, hl2⟩ := cTypeCondition_conv tc tcs ncs on hvt htcs hncs R s2 h2
  have hfd : (sigE cs).find? (nodeP (· == "DIRECTIVES")) = td.head? := by
    rw [hsig]; rcases optDirs_kinds htd with rfl | ⟨c3, rfl⟩ <;> find_groups
  obtain ⟨l3, hl3⟩ := directivesOf_conv n "FRAGMENT_DEFINITION" cs dirs td htd hfd
    (by intro e he; rw [hsig]; simp [he]) hs R s hp
  have hfs : (sigE cs).find? (nodeP (· == "SELECTION_SET")) = some (.node "SELECTION_SET" c4) := by
    rw [hsig]; rcases optDirs_kinds htd with rfl | ⟨c3, rfl⟩ <;> find_groups
  obtain ⟨l4, hl4⟩ := selectionSetOf_conv n "FRAGMENT_DEFINITION" cs sels _ hnode hfs hs R s hp
  refine ⟨[] ++ (l1 ++ ([] ++ (l2 ++ (l3 ++ (l4 ++ []))))), ?_⟩
  show cDefinition n _ = _
  rw [cDefinition_fragment_eq n _ rfl, child_eq_childP, hc1, child_eq_childP, hc2]
  exact bind_ok rfl (bind_ok hl1 (bind_ok rfl (bind_ok hl2 (bind_ok hl3 (bind_ok hl4 (pure_ok _))))))

end Apollo.FromCst

namespace Apollo.Parse
open Apollo.Rowan hiding Str
open Apollo.Lex hiding Str
open Apollo.FromCst (OptDirs DirsNode SelSetNode FragDefTree)

/-- one fragment definition -/
def FragDefR (cs : List Tok) (e : List Elem) : Prop :=
  ∃ (name tc : Ast.Str) (dirs : List Ast.Directive) (sels : Ast.Sels) (ed : Elem),
    TokIs cs (Ast.tDefinition false (.fragment name tc dirs sels)) ∧ Ast.wfDefinition (.fragment name tc dirs sels) = true ∧
    e = [ed] ∧ FragDefTree name tc dirs sels ed

/-- **fragment.rs `fragment_definition`** entered on the `fragment` keyword -/
theorem tr_fragmentDefinition (n : Nat) :
    Tr NoE (HeadP (fun t : Tok => t.kind = .name ∧ t.data = "fragment".toList)) (fragmentDefinition n) (fun _ => FragDefR) := by
  rw [fragmentDefinition_eq]
  unfold fragGuard fragBody fragSel
  have hss : Tr NoE (fun _ => True) (peek >>= fun k => if k == some Kind.lCurly then selectionSet n else err) (fun _ => SelSetR) :=
    tr_ifKind .lCurly _ _ _ ((tr_selSet n).mono (fun _ h => kindP_headK h) (fun _ _ _ h => h)) tr_err
  have hd := tr_optDirectives n false _ hss (H := fun _ => True)
  have htc := tr_bind early_false (tr_typeCondition (H := fun _ => True)) (fun _ => hd)
  have hfn := tr_bind early_false (tr_fragmentName (H := fun _ => True)) (fun _ => htc)
  have hb := tr_bind early_false (tr_bump (E := NoE) "fragment_KW" (by decide) (fun t => t.kind = .name ∧ t.data = "fragment".toList)
    (by rintro t ⟨h, _⟩; rw [h]; exact ⟨rfl, by decide⟩)) (fun _ => hfn)
  have hg := tr_peek (E := NoE) (H := HeadP (fun t : Tok => t.kind = .name ∧ t.data = "fragment".toList))
    (f := fun k => if k == some Kind.stringValue then
        (errAndPop >>= fun _ => (bump "fragment_KW" >>= fun _ => fragmentName >>= fun _ => typeCondition >>= fun _ =>
          optKind .at (directives n false) (peek >>= fun k => if k == some Kind.lCurly then selectionSet n else err)))
      else (bump "fragment_KW" >>= fun _ => fragmentName >>= fun _ => typeCondition >>= fun _ =>
          optKind .at (directives n false) (peek >>= fun k => if k == some Kind.lCurly then selectionSet n else err)))
    (fun k => tr_ite _
      (fun hk => tr_absurd (good_bind _ _ good_errAndPop (fun _ => hb.1)) (by
        rintro q ⟨⟨t, hh, hkt, _⟩, h2⟩
        rw [hh] at h2
        simp only [Option.map_some] at h2
        rw [← h2, hkt] at hk
        simp at hk))
      (fun _ => hb.mono (fun _ h => h.1) (fun _ _ _ hh => hh)))
  refine (tr_withNode early_false "FRAGMENT_DEFINITION" ?_ hg).mono (fun _ h => h) ?_
  · rintro q ⟨t, hh, hk, _⟩
    cases q with
    | nil => cases hh
    | cons a b => simp only [List.head?_cons, Option.some.injEq] at hh; subst hh; exact ⟨a, b, rfl, by rw [hk]; rfl⟩
  rintro _ cs e ⟨inner, rfl, _, c1, c2, e1, e2, rfl, hin, ⟨tk, ⟨hkk, hkd⟩, _, rfl, rfl⟩, _, c3, c4, e3, e4, rfl, rfl,
    ⟨tn, fcs, hn1, hn2, hn3, rfl, rfl, hn6⟩, _, c5, c6, e5, e6, rfl, rfl,
    ⟨t1, t2, tcs, ncs, hk1, hd1', hk2, hv2, rfl, rfl, htcs, hncs⟩,
    ds, c7, c8, td, e8, rfl, rfl, hd1, hd2, hd3, sels, ess, hne, hwf, hs1, rfl, hs3⟩
  refine ⟨tn.data, t2.data, ds, sels, _, ?_, ?_, rfl, inner, tk.data, fcs, tcs, ncs, t1.data, td, ess, rfl, hn2, hv2, hn6, htcs, hncs,
    hd3, hs3, by rw [hin]; simp⟩
  · have ha : TokIs [tk] [Ast.Tok.name "fragment".toList] := TokIs.single tk _ (by simp [astOfV, hkk, hkd])
    have hb' : TokIs [tn] [Ast.Tok.name tn.data] := TokIs.single tn _ (by simp [astOfV, hn1])
    have hc : TokIs [t1, t2] [Ast.Tok.name Ast.sOn, Ast.Tok.name t2.data] :=
      TokIs.cons (by simp [astOfV, hk1, hd1', Ast.sOn]) (TokIs.single t2 _ (by simp [astOfV, hk2]))
    have := ha.append (hb'.append (hc.append (hd1.append hs1)))
    simpa [Ast.tDefinition, Ast.tSelSet, List.append_assoc] using this
  · simp only [Ast.wfDefinition, Bool.and_eq_true, bne_iff_ne, ne_eq]
    refine ⟨⟨⟨?_, dirsOk_wf false ds hd2⟩, hwf⟩, ?_⟩
    · simpa [Ast.sOn] using hn3
    · cases sels with
      | nil => exact absurd rfl hne
      | cons a b => rfl

end Apollo.Parse
