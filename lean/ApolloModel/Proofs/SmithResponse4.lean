import ApolloModel.Proofs.SmithResponse3
/-
The relation between apollo-smith's `collect_fields` (every spread expands its fragment again) and
the specification's CollectFields (each named fragment at most once), for acyclic fragment tables.
-/
namespace Apollo.Smith

/-! ### `Redundant seen l r`: `r` is `l` without some elements that occurred earlier -/

inductive Redundant {α : Type} : List α → List α → List α → Prop where
  | nil (seen : List α) : Redundant seen [] []
  | keep {seen l r : List α} (x : α) : Redundant (x :: seen) l r → Redundant seen (x :: l) (x :: r)
  | skip {seen l r : List α} (x : α) : x ∈ seen → Redundant seen l r → Redundant seen (x :: l) r

namespace Redundant
variable {α : Type}

theorem mono {seen l r : List α} (h : Redundant seen l r) : ∀ {seen' : List α}, (∀ x ∈ seen, x ∈ seen') → Redundant seen' l r := by
  induction h with
  | nil _ => intro _ _; exact .nil _
  | keep x _ ih =>
    intro seen' hs
    exact .keep x (ih (fun y hy => by
      rcases List.mem_cons.mp hy with e | e
      · subst e; simp
      · exact List.mem_cons_of_mem _ (hs y e)))
  | skip x hx _ ih => intro seen' hs; exact .skip x (hs x hx) (ih hs)

theorem refl (seen l : List α) : Redundant seen l l := by
  induction l generalizing seen with
  | nil => exact .nil _
  | cons x l ih => exact .keep x (ih _)

theorem append {seen l1 r1 : List α} (h1 : Redundant seen l1 r1) : ∀ {l2 r2 : List α},
    Redundant (l1 ++ seen) l2 r2 → Redundant seen (l1 ++ l2) (r1 ++ r2) := by
  induction h1 with
  | nil _ => intro l2 r2 h2; simpa using h2
  | keep x _ ih =>
    intro l2 r2 h2
    exact .keep x (ih (h2.mono (fun y hy => by
      simp at hy ⊢
      rcases hy with e | e | e
      · exact Or.inr (Or.inl e)
      · exact Or.inl e
      · exact Or.inr (Or.inr e))))
  | skip x hx _ ih =>
    intro l2 r2 h2
    exact .skip x hx (ih (h2.mono (fun y hy => by
      simp at hy ⊢
      rcases hy with e | e | e
      · subst e; exact Or.inr hx
      · exact Or.inl e
      · exact Or.inr e)))

theorem skipAll {seen l r : List α} (le : List α) (hle : ∀ x ∈ le, x ∈ seen) (h : Redundant seen l r) :
    Redundant seen (le ++ l) r := by
  induction le with
  | nil => exact h
  | cons x le ih => exact .skip x (hle x (by simp)) (ih (fun y hy => hle y (by simp [hy])))

/-- nothing is lost and nothing is invented -/
theorem mem_iff {seen l r : List α} (h : Redundant seen l r) : (∀ x ∈ r, x ∈ l) ∧ (∀ x ∈ l, x ∈ seen ∨ x ∈ r) := by
  induction h with
  | nil _ => simp
  | keep x _ ih =>
    refine ⟨fun y hy => ?_, fun y hy => ?_⟩
    · rcases List.mem_cons.mp hy with e | e
      · subst e; simp
      · exact List.mem_cons_of_mem _ (ih.1 y e)
    · rcases List.mem_cons.mp hy with e | e
      · subst e; simp
      · rcases ih.2 y e with h | h
        · rcases List.mem_cons.mp h with e' | e'
          · subst e'; simp
          · exact Or.inl e'
        · exact Or.inr (List.mem_cons_of_mem _ h)
  | skip x hx _ ih =>
    refine ⟨fun y hy => List.mem_cons_of_mem _ (ih.1 y hy), fun y hy => ?_⟩
    rcases List.mem_cons.mp hy with e | e
    · subst e; exact Or.inl hx
    · exact ih.2 y e

theorem map {β : Type} (g : α → β) {seen l r : List α} (h : Redundant seen l r) :
    Redundant (seen.map g) (l.map g) (r.map g) := by
  induction h with
  | nil _ => exact .nil _
  | keep x _ ih => exact .keep (g x) (by simpa using ih)
  | skip x hx _ ih => exact .skip (g x) (List.mem_map_of_mem hx) ih

theorem filter (p : α → Bool) {seen l r : List α} (h : Redundant seen l r) :
    Redundant (seen.filter p) (l.filter p) (r.filter p) := by
  induction h with
  | nil _ => exact .nil _
  | keep x _ ih =>
    by_cases hp : p x = true
    · simp only [List.filter_cons, hp, if_true] at ih ⊢; exact .keep x ih
    · simp only [List.filter_cons, hp] at ih ⊢; exact ih
  | skip x hx _ ih =>
    by_cases hp : p x = true
    · simp only [List.filter_cons, hp, if_true]; exact .skip x (List.mem_filter.mpr ⟨hx, hp⟩) ih
    · simp only [List.filter_cons, hp]; exact ih

end Redundant

/-- the response keys in order of first occurrence are not affected by redundant repeats -/
theorem redundant_keys {seen l r : Flat} (h : Redundant seen l r) : ∀ ks : List String, (∀ x ∈ seen, x.1 ∈ ks) →
    mergeKeys ks (l.map (·.1)) = mergeKeys ks (r.map (·.1)) := by
  induction h with
  | nil _ => intro _ _; rfl
  | keep x _ ih =>
    intro ks hs
    simp only [List.map_cons]
    show mergeKeys (if x.1 ∈ ks then ks else ks ++ [x.1]) _ = mergeKeys (if x.1 ∈ ks then ks else ks ++ [x.1]) _
    apply ih
    intro y hy
    rcases List.mem_cons.mp hy with e | e
    · subst e; split <;> simp_all
    · have := hs y e; split <;> simp_all
  | skip x hx _ ih =>
    intro ks hs
    simp only [List.map_cons]
    show mergeKeys (if x.1 ∈ ks then ks else ks ++ [x.1]) _ = _
    rw [if_pos (hs x hx)]
    exact ih ks hs

/-! ### fragment spreads and acyclicity -/

mutual
/-- the fragment names spread in a selection set, at any depth of inline fragments
    (the sub-selections of fields are not part of this level's CollectFields) -/
def Sel.spreads : Sel → List Name
  | .field _ _ _ _ _ => []
  | .spread n => [n]
  | .inline _ sub => sub.spreads
def Sels.spreads : Sels → List Name
  | .nil => []
  | .cons s tl => s.spreads ++ tl.spreads
end

/-- the spread graph is acyclic: a rank that strictly decreases along fragment → spread-in-its-body
    (valid documents have one: "fragment spreads must not form cycles") -/
def Acyclic (frags : Fragments) (rank : Name → Nat) : Prop :=
  ∀ n cond fsels, frags.get? n = some (cond, fsels) → ∀ m ∈ fsels.spreads, rank m < rank n

/-! ### the flat traversal does not depend on the fuel once it succeeds -/

theorem combineF_some {a b : Option Flat} {l : Flat} (h : combineF a b = some l) :
    ∃ la lb, a = some la ∧ b = some lb ∧ l = la ++ lb := by
  cases a <;> cases b <;> simp [combineF] at h
  exact ⟨_, _, rfl, rfl, h.symm⟩

theorem modelFlat_mono (s : Schema) (frags : Fragments) (c : Name) : ∀ (f : Nat) (sels : Sels) (l : Flat),
    modelFlat s frags c f sels = some l → modelFlat s frags c (f + 1) sels = some l := by
  intro f
  induction f with
  | zero => intro sels l h; simp [modelFlat] at h
  | succ f ih =>
    intro sels l h
    cases sels with
    | nil => simp only [modelFlat] at h ⊢; exact h
    | cons sel tl =>
      rw [modelFlat_cons] at h ⊢
      obtain ⟨la, lb, ha, hb, rfl⟩ := combineF_some h
      rw [ih tl lb hb]
      cases sel with
      | field alias name ty subTy sub => simp only at ha ⊢; rw [ha]; rfl
      | spread name =>
        simp only at ha ⊢
        cases hfr : frags.get? name with
        | none => rw [hfr] at ha; simp only at ha ⊢; rw [ha]; rfl
        | some p =>
          obtain ⟨cond, fsels⟩ := p
          rw [hfr] at ha
          simp only at ha ⊢
          split at ha
          · rename_i hm; rw [if_pos hm, ih fsels la ha]; rfl
          · rename_i hm; rw [if_neg hm, ha]; rfl
      | inline tc sub =>
        cases tc with
        | none =>
          simp only [if_true] at ha ⊢
          rw [ih sub la ha]; rfl
        | some c1 =>
          simp only at ha ⊢
          split at ha
          · rename_i hm; rw [if_pos hm, ih sub la ha]; rfl
          · rename_i hm; rw [if_neg hm, ha]; rfl

theorem modelFlat_mono_add (s : Schema) (frags : Fragments) (c : Name) (f : Nat) (sels : Sels) (l : Flat)
    (h : modelFlat s frags c f sels = some l) : ∀ k, modelFlat s frags c (f + k) sels = some l := by
  intro k
  induction k with
  | zero => exact h
  | succ k ih => exact modelFlat_mono s frags c (f + k) sels l ih

theorem modelFlat_fuel_indep (s : Schema) (frags : Fragments) (c : Name) (f1 f2 : Nat) (sels : Sels) (l1 l2 : Flat)
    (h1 : modelFlat s frags c f1 sels = some l1) (h2 : modelFlat s frags c f2 sels = some l2) : l1 = l2 := by
  have a := modelFlat_mono_add s frags c f1 sels l1 h1 f2
  have b := modelFlat_mono_add s frags c f2 sels l2 h2 f1
  rw [Nat.add_comm] at b
  rw [a] at b
  exact Option.some.inj b

/-! ### the two traversals -/

section Related
variable (s : Schema) (frags : Fragments) (concrete : Name) (rank : Name → Nat)

/-- every fragment already visited (and not an ancestor of the current position: rank below `B`) has had
    its whole expansion emitted -/
def Inv (B : Nat) (visited : List Name) (seen : Flat) : Prop :=
  ∀ n ∈ visited, rank n < B → ∀ cond fsels, frags.get? n = some (cond, fsels) →
    typeConditionMatches s cond concrete = true →
    ∀ fm l, modelFlat s frags concrete fm fsels = some l → ∀ x ∈ l, x ∈ seen

theorem Inv.mono {B : Nat} {visited : List Name} {seen seen' : Flat} (h : Inv s frags concrete rank B visited seen)
    (hs : ∀ x ∈ seen, x ∈ seen') : Inv s frags concrete rank B visited seen' :=
  fun n hn hr cond fsels hf hm fm l hl x hx => hs x (h n hn hr cond fsels hf hm fm l hl x hx)

theorem flat_related (hac : Acyclic frags rank)
    (hmatch : ∀ cond, typeConditionMatches s cond concrete = doesFragmentTypeApply s concrete cond) :
    ∀ (fs B : Nat) (visited : List Name) (seen : Flat) (sels : Sels) (fm : Nat) (ls : Flat) (v' : List Name) (lm : Flat),
      (∀ m ∈ sels.spreads, rank m < B) → Inv s frags concrete rank B visited seen →
      specFlat s frags concrete fs visited sels = some (ls, v') → modelFlat s frags concrete fm sels = some lm →
      Redundant seen lm ls ∧ Inv s frags concrete rank B v' (lm ++ seen) ∧
        (∀ n ∈ v', n ∈ visited ∨ rank n < B) ∧ (∀ n ∈ visited, n ∈ v') := by
  intro fs
  induction fs with
  | zero => intro B visited seen sels fm ls v' lm _ _ hs _; simp [specFlat] at hs
  | succ fs ih =>
    intro B visited seen sels fm ls v' lm hB hinv hs hm
    cases fm with
    | zero => simp [modelFlat] at hm
    | succ fm =>
    cases sels with
    | nil =>
      simp only [specFlat, Option.some.injEq, Prod.mk.injEq] at hs
      simp only [modelFlat, Option.some.injEq] at hm
      obtain ⟨rfl, rfl⟩ := hs
      subst hm
      exact ⟨.nil _, by simpa using hinv, fun n hn => Or.inl hn, fun n hn => hn⟩
    | cons sel tl =>
      rw [modelFlat_cons] at hm
      obtain ⟨le, lm', hle, hlm', rfl⟩ := combineF_some hm
      have hBtl : ∀ m ∈ tl.spreads, rank m < B := fun m hm' => hB m (by simp [Sels.spreads, hm'])
      -- the common ending: the model emitted `le`, the spec emitted `lf` (related), the tail follows
      have finish : ∀ (lf : Flat) (v2 : List Name) (rest : Option (Flat × List Name)),
          rest = (specFlat s frags concrete fs v2 tl).map (fun r => (lf ++ r.1, r.2)) → rest = some (ls, v') →
          Redundant seen le lf → Inv s frags concrete rank B v2 (le ++ seen) →
          (∀ n ∈ v2, n ∈ visited ∨ rank n < B) → (∀ n ∈ visited, n ∈ v2) →
          Redundant seen (le ++ lm') ls ∧ Inv s frags concrete rank B v' ((le ++ lm') ++ seen) ∧
            (∀ n ∈ v', n ∈ visited ∨ rank n < B) ∧ (∀ n ∈ visited, n ∈ v') := by
        intro lf v2 rest hrest hsome hred hinv2 hv2 hsub
        rw [hrest] at hsome
        cases htl : specFlat s frags concrete fs v2 tl with
        | none => rw [htl] at hsome; cases hsome
        | some r =>
          obtain ⟨ltl, vv⟩ := r
          rw [htl] at hsome
          simp only [Option.map_some, Option.some.injEq, Prod.mk.injEq] at hsome
          obtain ⟨rfl, rfl⟩ := hsome
          obtain ⟨r1, r2, r3, r4⟩ := ih B v2 (le ++ seen) tl fm ltl vv lm' hBtl hinv2 htl hlm'
          refine ⟨hred.append r1, r2.mono s frags concrete rank (fun x hx => by simp at hx ⊢; rcases hx with e | e | e <;> simp [e]), ?_, ?_⟩
          · intro n hn
            rcases r3 n hn with e | e
            · exact hv2 n e
            · exact Or.inr e
          · intro n hn; exact r4 n (hsub n hn)
      cases sel with
      | field alias name ty subTy sub =>
        simp only at hle
        cases hle
        simp only [specFlat] at hs
        exact finish [fieldEntry alias name ty subTy sub] visited _ (by simp [fieldEntry]) hs
          (Redundant.refl _ _) (hinv.mono s frags concrete rank (fun x hx => by simp [hx]))
          (fun n hn => Or.inl hn) (fun n hn => hn)
      | spread name =>
        have hrk : rank name < B := hB name (by simp [Sels.spreads, Sel.spreads])
        simp only at hle
        simp only [specFlat] at hs
        by_cases hvis : visited.contains name = true
        · -- already visited: the spec skips, the model repeats an expansion that was already emitted
          rw [if_pos hvis] at hs
          have hvis' : name ∈ visited := by simpa using hvis
          have hle_seen : ∀ x ∈ le, x ∈ seen := by
            cases hfr : frags.get? name with
            | none => rw [hfr] at hle; simp at hle; subst hle; intro x hx; cases hx
            | some p =>
              obtain ⟨cond, fsels⟩ := p
              rw [hfr] at hle
              simp only at hle
              split at hle
              · rename_i hmt
                exact hinv name hvis' hrk cond fsels hfr hmt fm le hle
              · simp at hle; subst hle; intro x hx; cases hx
          obtain ⟨r1, r2, r3, r4⟩ := ih B visited seen tl fm ls v' lm' hBtl hinv hs hlm'
          exact ⟨Redundant.skipAll le hle_seen r1,
            r2.mono s frags concrete rank (fun x hx => by simp at hx ⊢; rcases hx with e | e <;> simp [e]), r3, r4⟩
        · rw [if_neg hvis] at hs
          -- helper for the two cases in which nothing is emitted for this spread
          have nothing : le = [] → (∀ cond fsels, frags.get? name = some (cond, fsels) → typeConditionMatches s cond concrete = false) →
              specFlat s frags concrete fs (name :: visited) tl = some (ls, v') →
              Redundant seen (le ++ lm') ls ∧ Inv s frags concrete rank B v' ((le ++ lm') ++ seen) ∧
                (∀ n ∈ v', n ∈ visited ∨ rank n < B) ∧ (∀ n ∈ visited, n ∈ v') := by
            intro hle0 hno hs'
            subst hle0
            have hinv' : Inv s frags concrete rank B (name :: visited) seen := by
              intro n hn hr cond fsels hf hmt
              rcases List.mem_cons.mp hn with e | e
              · subst e; rw [hno cond fsels hf] at hmt; cases hmt
              · exact hinv n e hr cond fsels hf hmt
            obtain ⟨r1, r2, r3, r4⟩ := ih B (name :: visited) seen tl fm ls v' lm' hBtl hinv' hs' hlm'
            refine ⟨by simpa using r1, by simpa using r2, ?_, fun n hn => r4 n (List.mem_cons_of_mem _ hn)⟩
            intro n hn
            rcases r3 n hn with e | e
            · rcases List.mem_cons.mp e with e' | e'
              · subst e'; exact Or.inr hrk
              · exact Or.inl e'
            · exact Or.inr e
          cases hfr : frags.get? name with
          | none =>
            rw [hfr] at hs hle
            simp only at hs hle
            exact nothing (by simpa using hle.symm) (fun cond fsels h => by rw [hfr] at h; cases h) hs
          | some p =>
            obtain ⟨cond, fsels⟩ := p
            rw [hfr] at hs hle
            simp only at hs hle
            by_cases hap : typeConditionMatches s cond concrete = true
            · have hap' : doesFragmentTypeApply s concrete cond = true := by rw [← hmatch]; exact hap
              rw [if_pos hap] at hle
              simp only [hap', Bool.not_true, Bool.false_eq_true, if_false] at hs
              cases hfs : specFlat s frags concrete fs (name :: visited) fsels with
              | none => rw [hfs] at hs; cases hs
              | some r =>
                obtain ⟨lf, v2⟩ := r
                rw [hfs] at hs
                simp only at hs
                -- inside the fragment the bound is its own rank
                have hinv1 : Inv s frags concrete rank (rank name) (name :: visited) seen := by
                  intro n hn hr cond' fsels' hf hmt
                  rcases List.mem_cons.mp hn with e | e
                  · subst e; omega
                  · exact hinv n e (by omega) cond' fsels' hf hmt
                obtain ⟨q1, q2, q3, q4⟩ := ih (rank name) (name :: visited) seen fsels fm lf v2 le
                  (hac name cond fsels hfr) hinv1 hfs hle
                have hinv2 : Inv s frags concrete rank B v2 (le ++ seen) := by
                  intro n hn hr cond' fsels' hf hmt fm' l' hl' x hx
                  rcases q3 n hn with e | e
                  · rcases List.mem_cons.mp e with e' | e'
                    · subst e'
                      rw [hfr] at hf
                      simp only [Option.some.injEq, Prod.mk.injEq] at hf
                      obtain ⟨rfl, rfl⟩ := hf
                      have := modelFlat_fuel_indep s frags concrete fm' fm _ l' le hl' hle
                      subst this
                      simp [hx]
                    · have := hinv n e' hr cond' fsels' hf hmt fm' l' hl' x hx
                      simp [this]
                  · exact q2 n hn e cond' fsels' hf hmt fm' l' hl' x hx
                refine finish lf v2 _ rfl hs q1 hinv2 ?_ (fun n hn => q4 n (List.mem_cons_of_mem _ hn))
                intro n hn
                rcases q3 n hn with e | e
                · rcases List.mem_cons.mp e with e' | e'
                  · subst e'; exact Or.inr hrk
                  · exact Or.inl e'
                · exact Or.inr (by omega)
            · have hap0 : typeConditionMatches s cond concrete = false := by simpa using hap
              have hap' : doesFragmentTypeApply s concrete cond = false := by rw [← hmatch]; exact hap0
              rw [if_neg hap] at hle
              simp only [hap', Bool.not_false, if_true] at hs
              exact nothing (by simpa using hle.symm)
                (fun c' f' h => by rw [hfr] at h; simp at h; obtain ⟨rfl, _⟩ := h; exact hap0) hs
      | inline tc sub =>
        have hBsub : ∀ m ∈ sub.spreads, rank m < B := fun m hm' => hB m (by simp [Sels.spreads, Sel.spreads, hm'])
        have applies_case : (match specFlat s frags concrete fs visited sub with
              | none => none
              | some (li, visited') => (specFlat s frags concrete fs visited' tl).map (fun r => (li ++ r.1, r.2))) = some (ls, v') →
            modelFlat s frags concrete fm sub = some le →
            Redundant seen (le ++ lm') ls ∧ Inv s frags concrete rank B v' ((le ++ lm') ++ seen) ∧
              (∀ n ∈ v', n ∈ visited ∨ rank n < B) ∧ (∀ n ∈ visited, n ∈ v') := by
          intro hs hle
          cases hfs : specFlat s frags concrete fs visited sub with
          | none => rw [hfs] at hs; cases hs
          | some r =>
            obtain ⟨li, v2⟩ := r
            rw [hfs] at hs
            simp only at hs
            obtain ⟨q1, q2, q3, q4⟩ := ih B visited seen sub fm li v2 le hBsub hinv hfs hle
            exact finish li v2 _ rfl hs q1 q2 q3 q4
        have skip_case : specFlat s frags concrete fs visited tl = some (ls, v') → le = [] →
            Redundant seen (le ++ lm') ls ∧ Inv s frags concrete rank B v' ((le ++ lm') ++ seen) ∧
              (∀ n ∈ v', n ∈ visited ∨ rank n < B) ∧ (∀ n ∈ visited, n ∈ v') := by
          intro hs hle
          subst hle
          obtain ⟨r1, r2, r3, r4⟩ := ih B visited seen tl fm ls v' lm' hBtl hinv hs hlm'
          exact ⟨by simpa using r1, by simpa using r2, r3, r4⟩
        cases tc with
        | none =>
          simp only [if_true] at hle
          simp only [specFlat, Bool.not_true, Bool.false_eq_true, if_false] at hs
          exact applies_case hs hle
        | some c =>
          simp only at hle
          simp only [specFlat] at hs
          by_cases hap : typeConditionMatches s c concrete = true
          · have hap' : doesFragmentTypeApply s concrete c = true := by rw [← hmatch]; exact hap
            rw [if_pos hap] at hle
            simp only [hap', Bool.not_true, Bool.false_eq_true, if_false] at hs
            exact applies_case hs hle
          · have hap0 : typeConditionMatches s c concrete = false := by simpa using hap
            have hap' : doesFragmentTypeApply s concrete c = false := by rw [← hmatch]; exact hap0
            rw [if_neg hap] at hle
            simp only [hap', Bool.not_false, if_true] at hs
            exact skip_case hs (by simpa using hle.symm)

end Related

end Apollo.Smith
