import ApolloModel.Proofs.ParserTree18
/-
C08 growth (pipeline), part 19: fields (with the `peek_n(2)` alias look-ahead), the selection loop, selection sets,
and the induction over the nesting depth.
-/
set_option linter.unusedSimpArgs false
set_option linter.unusedVariables false
namespace Apollo.Parse
open Apollo.Rowan hiding Str
open Apollo.Lex hiding Str
open Apollo.FromCst (OptArgs OptDirs DirsNode ArgsNode SelTree SelSetNode SelsTree OptSS AliasPre TcPre)

/-! ### small rules -/

theorem tr_peekTokenN {α : Type} {E : PState → Prop} {H : List Tok → Prop} (k : Nat) {f : Option Tok → PI α}
    {R : α → List Tok → List Elem → Prop} (h : ∀ o, Tr E H (f o) R) : Tr E H (peekTokenN k >>= f) R := by
  refine ⟨good_bind _ _ (good_peekTokenN k) (fun o => (h o).1), ?_⟩
  intro s a s' w hi he hlq hq hr hnd
  obtain ⟨o, s1, h1, h2⟩ := bind_dec (peekTokenN k) f s s' a hr
  have : s1 = s := by
    unfold peekTokenN at h1
    simp only [] at h1
    injection h1 with _ h1
    exact h1.symm
  subst this
  exact (h o).2 s1 a s' w hi he hlq hq h2 hnd

theorem tr_srcLen {α : Type} {E : PState → Prop} {H : List Tok → Prop} {f : Nat → PI α}
    {R : α → List Tok → List Elem → Prop} (h : ∀ n, Tr E H (f n) R) : Tr E H (srcLen >>= f) R := by
  refine ⟨good_bind _ _ good_srcLen (fun n => (h n).1), ?_⟩
  intro s a s' w hi he hlq hq hr hnd
  obtain ⟨n, h5⟩ := srcLen_dec f s s' a hr
  exact (h n).2 s a s' w hi he hlq hq h5 hnd

/-- `alias` when the look-ahead saw `Name :` — the ALIAS node holds exactly the name and the colon -/
theorem alias_tr (s s' : PState) (st : St s) (t : Tok) (rest0 : List Tok) (t2 : Tok) (ht : Toks s = t :: rest0)
    (hk : t.kind = .name) (h2 : (sig rest0).head? = some t2) (hk2 : t2.kind = .colon)
    (h : alias.run s = .ok () s') (hnd : ¬ Doomed s') :
    St s' ∧ TrRes NoE s s' (fun cs e => ∃ inner, cs = [t, t2] ∧ isValidName t.data = true ∧ e = [Elem.node "ALIAS" inner] ∧
      sigE inner = [nameNode t.data, Elem.tok "COLON" t2.data]) := by
  have hni : isIgnoredKind t.kind = false := by rw [hk]; rfl
  have hiS' := (run_inv_added alias s st.inv () s' h).1
  unfold alias at h
  obtain ⟨s0, s3, inner, o0, hi0, hp0, hr2, o3, hin, hout⟩ := withNode_tree "ALIAS" _ s st.inv () s' h
  obtain ⟨_, s1, hs, hb⟩ := bind_dec skipIgnored _ s0 s3 () hr2
  have st0 : St s0 := st.obs o0 hi0
  have ht0 : Toks s0 = t :: rest0 := by rw [o0.toks]; exact ht
  have hpk := skipIgnored_sig s0 s1 st0.w t rest0 ht0 hni hs
  have p1 := peekToken_obs s0 s1 _ st0.w hpk
  have st1 : St s1 := ⟨p1.w, (run_inv_added peekToken s0 hi0 _ s1 hpk).1,
    eofEnd_eat st0.eof p1.eat (by intro x hx; cases hx), by rw [p1.toks]; exact st0.lq⟩
  have ht1 : Toks s1 = t :: rest0 := by rw [p1.toks]; exact ht0
  have hb1 : s1.builder = s0.builder := keeps_peekToken s0 _ s1 hpk
  have hnd3 : ¬ Doomed s3 := fun d => hnd (o3.doomed.mpr d)
  obtain ⟨_, s2, hn, hbump⟩ := bind_dec name _ s1 s3 () hb
  have a12 := good_name s1 () s2 st1.w hn
  have hnd2 : ¬ Doomed s2 := fun d => hnd3 ((good_bump "COLON" s2 () s3 a12.w hbump).doom d)
  obtain ⟨st2, r2⟩ := St.step (tr_nameAt (E := NoE) t) st1 (by rw [ht1]; rfl) hn hnd2
  obtain ⟨ign, e12, hall, hset⟩ := name_settled s1 s2 t rest0 st1.w ht1 hk hn
  have hh2 : (Toks s2).head? = some t2 := by
    have h1 := e12.toks
    rw [ht1] at h1
    simp only [List.cons_append, List.cons.injEq, true_and] at h1
    rw [← settled_sig_head s2 hset, ← h2, h1, sig_append, sig_ignored ign hall]; rfl
  obtain ⟨st3, r3⟩ := St.step (tr_bump (E := NoE) "COLON" (by decide) (fun t' => t' = t2)
    (by rintro t' rfl; rw [hk2]; exact ⟨rfl, by decide⟩)) st2 ⟨t2, hh2, rfl⟩ hbump hnd3
  obtain ⟨cs, added, t1, n1, e1, b1, rr⟩ := r2.seq r3
  rcases rr with ⟨c1, c2, e1', e2, hcs, hes, ⟨_, hv, rfl, rfl⟩, t', rfl, _, rfl, rfl⟩ | f
  · have hinner : inner = added := by
      rw [b1, hb1] at hin
      exact (List.append_cancel_left hin).symm
    subst hinner
    refine ⟨st3.obs o3 hiS', cs, s.pending.map pendingElem ++ [Elem.node "ALIAS" inner], ?_, n1, eofEnd_obs e1 o3,
      by rw [hout, List.append_assoc], Or.inl ⟨inner, hcs, hv, ?_, hes⟩⟩
    · rw [← o0.toks, ← p1.toks, t1, o3.toks]
    · rw [sigE_append, sigE_pending, sigE_node]; rfl
  · exact absurd f id


/-! ### fields -/

def fieldTail (n : Nat) : PI Unit :=
  optKind .lParen (arguments n false) (optKind .at (directives n false)
    (peek >>= fun k => if k == some Kind.lCurly then selectionSet n else pure ()))

theorem fieldBody_eq (n : Nat) : fieldBody n = (peek >>= fun k => if k == some Kind.name then
    (peekN 2 >>= fun k2 => if k2 == some Kind.colon then (alias >>= fun _ => name >>= fun _ => fieldTail n)
      else (name >>= fun _ => fieldTail n))
    else (err >>= fun _ => fieldTail n)) := rfl

/-- arguments?, directives?, sub-selections? of a field -/
def FieldTailR (cs : List Tok) (e : List Elem) : Prop :=
  ∃ (args : List (Ast.Str × Ast.Value)) (dirs : List Ast.Directive) (sels : Ast.Sels) (ta td ts : List Elem),
    TokIs cs (Ast.tArguments args ++ Ast.tDirectives dirs ++ Ast.tSubSels sels) ∧
    (Ast.wfArgs args && Ast.wfDirs dirs && Ast.wfSels sels) = true ∧ OptArgs args ta ∧ OptDirs dirs td ∧
    OptSS sels ts ∧ e = ta ++ (td ++ ts)

theorem tr_fieldTail (n : Nat) (ih : SelAll n) : Tr NoE (fun _ => True) (fieldTail n) (fun _ => FieldTailR) := by
  unfold fieldTail
  have hsub : Tr NoE (fun _ => True) (peek >>= fun k => if k == some Kind.lCurly then selectionSet n else pure ())
      (fun _ cs e => ∃ sels : Ast.Sels, TokIs cs (Ast.tSubSels sels) ∧ Ast.wfSels sels = true ∧ OptSS sels e) := by
    refine tr_ifKind .lCurly _ _ _ (ih.selSet.mono (fun _ h => kindP_headK h) ?_) ((tr_pure NoE _ ()).mono (fun _ h => h) ?_)
    · rintro _ cs e ⟨sels, es, hne, hwf, h1, rfl, h3⟩
      refine ⟨sels, ?_, hwf, OptSS.some sels es h3⟩
      cases sels with
      | nil => exact absurd rfl hne
      | cons sl tl => rw [Ast.tSubSels_cons]; exact h1
    · rintro _ cs e ⟨_, rfl, rfl⟩
      exact ⟨.nil, TokIs.nil, rfl, OptSS.none⟩
  refine (tr_optArgsThen n false _ (tr_optDirectives n false _ hsub (H := fun _ => True)) (H := fun _ => True)).mono (fun _ h => h) ?_
  rintro _ cs e ⟨args, c1, c2, ta, e2, rfl, rfl, ha1, ha2, ha3, dirs, c3, c4, td, e4, rfl, rfl, hd1, hd2, hd3, sels, hs1, hwf, hs2⟩
  exact ⟨args, dirs, sels, ta, td, e4, by simpa [List.append_assoc] using ha1.append (hd1.append hs1),
    by simp [argsOk_wf false args ha2, dirsOk_wf false dirs hd2, hwf], ha3, hd3, hs2, rfl⟩

/-- the children of a FIELD node -/
def FieldBodyR (cs : List Tok) (e : List Elem) : Prop :=
  ∃ (alias : Option Ast.Str) (nm : Ast.Str) (args : List (Ast.Str × Ast.Value)) (dirs : List Ast.Directive) (sels : Ast.Sels)
    (pre ta td ts : List Elem), TokIs cs (Ast.tSel (.field alias nm args dirs sels)) ∧
    Ast.wfSel (.field alias nm args dirs sels) = true ∧ isValidName nm = true ∧
    AliasPre alias pre ∧ OptArgs args ta ∧ OptDirs dirs td ∧ OptSS sels ts ∧ e = pre ++ nameNode nm :: (ta ++ (td ++ ts))

theorem tr_nameTail (n : Nat) (ih : SelAll n) :
    Tr NoE (fun _ => True) (name >>= fun _ => fieldTail n)
      (fun _ cs e => ∃ (t : Tok) (c2 : List Tok) (e2 : List Elem), t.kind = .name ∧ isValidName t.data = true ∧
        cs = t :: c2 ∧ e = nameNode t.data :: e2 ∧ FieldTailR c2 e2) := by
  refine (tr_bind early_false (tr_name (E := NoE) (H := fun _ => True)) (fun _ => tr_fieldTail n ih)).mono (fun _ h => h) ?_
  rintro _ cs e ⟨_, c1, c2, e1, e2, rfl, rfl, ⟨t, hk, hv, rfl, rfl⟩, h2⟩
  exact ⟨t, c2, e2, hk, hv, rfl, rfl, h2⟩

theorem tr_fieldBody (n : Nat) (ih : SelAll n) : Tr NoE (HeadK .name) (fieldBody n) (fun _ => FieldBodyR) := by
  refine ⟨good_fieldBody n (goodSel n), ?_⟩
  intro s a s' w hi he hlq hq hr hnd
  rw [fieldBody_eq] at hr
  obtain ⟨k, sP, hp, h2⟩ := bind_dec peek _ s s' a hr
  obtain ⟨o, p, hk⟩ := peek_obs s sP k w hp
  subst hk
  obtain ⟨t, hh, hkt⟩ := headP_of_headK hq
  have ho : o = some t := by rw [p.head, hh]
  subst ho
  have hni : isIgnoredKind t.kind = false := by rw [hkt]; rfl
  simp only [Option.map_some, hkt, beq_self_eq_true, if_true] at h2
  have stP : St sP := ⟨p.w, (run_inv_added peek s hi _ sP hp).1, p.eofEnd he, by rw [p.toks]; exact hlq⟩
  have hbP : sP.builder = s.builder := keeps_peek s _ sP hp
  have htP : Toks sP = t :: (Toks sP).tail := p.head_cons
  have back : TrRes NoE sP s' FieldBodyR → TrRes NoE s s' FieldBodyR := by
    rintro ⟨c, d, t1, n1, e1, b1, r1⟩
    exact ⟨c, d, by rw [← p.toks]; exact t1, n1, e1, by rw [b1, hbP], r1⟩
  apply back
  -- the look-ahead
  obtain ⟨k2, sQ, hq2, h3⟩ := bind_dec (peekN 2) _ sP s' a h2
  unfold peekN at hq2
  obtain ⟨o2, sQ', hq3, hq4⟩ := bind_dec (peekTokenN 2) _ sP sQ k2 hq2
  obtain ⟨rfl, ho2⟩ := peekTokenN2_spec sP sQ' o2 t _ p.w p.current htP hni hq3
  rw [run_pure] at hq4
  injection hq4 with hk2 hsq
  subst hsq hk2
  by_cases hc : (o2.map (·.kind) == some Kind.colon) = true
  · simp only [hc, if_true] at h3
    have ht2 : ∃ t2, o2 = some t2 ∧ t2.kind = .colon := by
      cases o2 with
      | none => simp at hc
      | some t2 => exact ⟨t2, rfl, by simpa using hc⟩
    obtain ⟨t2, rfl, hk2⟩ := ht2
    obtain ⟨_, sA, hal, hrest⟩ := bind_dec alias _ sQ' s' a h3
    have aA := good_alias sQ' () sA p.w hal
    have hndA : ¬ Doomed sA := fun d => hnd (((tr_nameTail n ih).1 sA a s' aA.w hrest).doom d)
    obtain ⟨stA, rA⟩ := alias_tr sQ' sA stP t _ t2 htP hkt ho2.symm hk2 hal hndA
    obtain ⟨_, rB⟩ := St.step (tr_nameTail n ih) stA trivial hrest hnd
    refine (rA.seq rB).weaken ?_
    rintro cs e ⟨c1, c2, e1, e2, rfl, rfl, ⟨inner, rfl, hv, rfl, hin⟩, t3, c3, e3, hk3, hv3, rfl, rfl,
      args, dirs, sels, ta, td, ts, h1, hwf, h2', h3', h4', rfl⟩
    refine ⟨some t.data, t3.data, args, dirs, sels, [Elem.node "ALIAS" inner], ta, td, ts, ?_, hwf, hv3,
      Or.inr ⟨t.data, inner, t2.data, rfl, hv, rfl, hin⟩, h2', h3', h4', rfl⟩
    have ha : TokIs [t, t2] [Ast.Tok.name t.data, Ast.Tok.p .colon] :=
      TokIs.cons (by simp [astOfV, hkt]) (TokIs.single t2 _ (by simp [astOfV, hk2]))
    have hn : TokIs [t3] [Ast.Tok.name t3.data] := TokIs.single t3 _ (by simp [astOfV, hk3])
    have := ha.append (hn.append h1)
    simpa [Ast.tSel, List.append_assoc] using this
  · simp only [hc, Bool.false_eq_true, if_false] at h3
    obtain ⟨_, rB⟩ := St.step (tr_nameTail n ih) stP trivial h3 hnd
    refine rB.weaken ?_
    rintro cs e ⟨t3, c3, e3, hk3, hv3, rfl, rfl, args, dirs, sels, ta, td, ts, h1, hwf, h2', h3', h4', rfl⟩
    refine ⟨none, t3.data, args, dirs, sels, [], ta, td, ts, ?_, hwf, hv3, Or.inl ⟨rfl, rfl⟩, h2', h3', h4', rfl⟩
    have hn : TokIs [t3] [Ast.Tok.name t3.data] := TokIs.single t3 _ (by simp [astOfV, hk3])
    have := hn.append h1
    simpa [Ast.tSel, List.append_assoc] using this

theorem tr_field (n : Nat) (ih : SelAll n) : Tr NoE (HeadK .name) (field (n + 1)) (fun _ => SelR) := by
  rw [field_succ]
  refine (tr_withNode early_false "FIELD" (hsig_headK .name rfl) (tr_fieldBody n ih)).mono (fun _ h => h) ?_
  rintro _ cs e ⟨inner, rfl, alias, nm, args, dirs, sels, pre, ta, td, ts, h1, hwf, hv, h2, h3, h4, h5, hin⟩
  exact ⟨.field alias nm args dirs sels, _, h1, hwf, rfl, SelTree.field alias nm args dirs sels inner pre ta td ts hv h2 h3 h4 h5 hin⟩

end Apollo.Parse
