import ApolloModel.Model.BuiltinScalars
namespace Apollo.Scalars

theorem flatMap_filter_refs (p : Name × TypeDef → Bool) (l : List (Name × TypeDef))
    (h : ∀ e ∈ l, p e = false → e.2.refs = []) :
    (l.filter p).flatMap (·.2.refs) = l.flatMap (·.2.refs) := by
  induction l with
  | nil => rfl
  | cons e es ih =>
    have ih' := ih (fun x hx => h x (by simp [hx]))
    by_cases hp : p e = true
    · simp [List.filter_cons, hp, ih']
    · have hp' : p e = false := by simpa using hp
      simp [List.filter_cons, hp', ih', h e (by simp) hp']

/-- entries dropped by `retain` are built-in scalar definitions, which reference nothing -/
theorem dropped_refs (s : Schema) (wf : WellFormed s) (e : Name × TypeDef) (he : e ∈ s.types)
    (hk : keep s e = false) : e.2.refs = [] := by
  unfold keep at hk
  simp only [Bool.or_eq_false_iff, Bool.not_eq_false'] at hk
  have := wf.2 e he hk.1.1 hk.1.2
  rw [this]; rfl

theorem allRefs_bookkeeping (order : List Name → List Name) (s : Schema) (wf : WellFormed s) :
    (bookkeeping order s).allRefs = s.allRefs := by
  unfold bookkeeping Schema.allRefs
  simp only [List.flatMap_append]
  have hnew : ((order (usedAndUndefined s)).map fun n => (n, builtinDef)).flatMap (·.2.refs) = [] := by
    induction order (usedAndUndefined s) with
    | nil => rfl
    | cons x xs ih => simp [builtinDef, ih]
  rw [hnew, List.append_nil]
  split
  · rfl
  · rw [flatMap_filter_refs _ _ (fun e he hk => dropped_refs s wf e he hk)]

theorem mem_usedAndDefined (s : Schema) (b : Name) :
    b ∈ usedAndDefined s ↔ b ∈ builtinScalars ∧ s.allRefs.contains b = true ∧ s.defined b = true := by
  simp [usedAndDefined, List.mem_filter]

theorem mem_usedAndUndefined (s : Schema) (b : Name) :
    b ∈ usedAndUndefined s ↔ b ∈ builtinScalars ∧ s.allRefs.contains b = true ∧ s.defined b = false := by
  simp [usedAndUndefined, List.mem_filter]

theorem filter_split_length {α : Type} (p q : α → Bool) (l : List α) :
    (l.filter fun x => p x && q x).length + (l.filter fun x => p x && !q x).length = (l.filter p).length := by
  induction l with
  | nil => rfl
  | cons x xs ih =>
    cases hp : p x <;> cases hq : q x <;> simp [List.filter_cons, hp, hq] <;> omega

/-- when every built-in scalar is used, each of them is referenced -/
theorem allUsed_referenced (s : Schema) (h : allUsed s = true) (b : Name) (hb : b ∈ builtinScalars) :
    s.allRefs.contains b = true := by
  unfold allUsed usedAndDefined usedAndUndefined at h
  rw [filter_split_length (fun b => s.allRefs.contains b) (fun b => s.defined b)] at h
  have hlen : (builtinScalars.filter fun b => s.allRefs.contains b).length = builtinScalars.length := by
    simpa using h
  have hall := List.filter_eq_self.mp (List.Sublist.eq_of_length (List.filter_sublist) hlen)
  exact hall b hb

theorem defined_iff (s : Schema) (n : Name) : s.defined n = true ↔ ∃ e ∈ s.types, e.1 = n := by
  simp [Schema.defined, List.any_eq_true]

/-- after a pass, every referenced built-in scalar is defined -/
theorem referenced_defined_after (order : List Name → List Name) (horder : ∀ l x, x ∈ l → x ∈ order l)
    (s : Schema) (b : Name) (hb : b ∈ builtinScalars) (hr : s.allRefs.contains b = true) :
    (bookkeeping order s).defined b = true := by
  rw [defined_iff]
  by_cases hd : s.defined b = true
  · obtain ⟨e, he, hn⟩ := (defined_iff s b).mp hd
    refine ⟨e, ?_, hn⟩
    unfold bookkeeping
    simp only [List.mem_append]
    left
    split
    · exact he
    · rw [List.mem_filter]
      refine ⟨he, ?_⟩
      unfold keep
      have : e.1 ∈ usedAndDefined s := by
        rw [hn]; exact (mem_usedAndDefined s b).mpr ⟨hb, hr, hd⟩
      simp [this]
  · have hd' : s.defined b = false := by simpa using hd
    refine ⟨(b, builtinDef), ?_, rfl⟩
    unfold bookkeeping
    simp only [List.mem_append, List.mem_map]
    right
    exact ⟨b, horder _ _ ((mem_usedAndUndefined s b).mpr ⟨hb, hr, hd'⟩), rfl⟩

end Apollo.Scalars
