import ApolloModel.Proofs.ParserExactC9
/-
EXACT-BUDGET COPY of ParserComplete11 (namespace Apollo.Parse.Exact, exact `vdepth`).
C05 / C07 growth (completeness), part 11: type references in the `Cmp` calculus.  The completeness induction
of ParserType8 is repeated with the budget in the form `tyDepth t ≤ recLimit − recCur` (so that a type without
list brackets needs no budget at all), then wrapped as a `Cmp` judgement for `ty`.
-/
set_option linter.unusedSimpArgs false
namespace Apollo.Parse.Exact
open Apollo.Rowan hiding Str
open Apollo.Lex hiding Str

def TyCompB (n : Nat) : Prop :=
  ∀ s s' r t c q0 rest, TW s → (tyParse n).run s = .ok r s' → Spell t c → Toks s = c ++ q0 :: rest → Sigf q0 →
    NoBangAfter t q0 → tyDepth t ≤ s.recLimit - s.recCur →
    r = TyRes.ok ∧ Eat s s' c ∧ Toks s' = q0 :: rest ∧ s'.current = some q0

theorem tyBody_compB (n : Nat) (ih : TyCompB n) (s s' : PState) (r : TyRes) (u : Ast.Ty) (cb : List Tok) (q : Tok)
    (rest : List Tok) (w : TW s) (h : (tyBody n).run s = .ok r s') (hsb : SpellB u cb)
    (ht : Toks s = cb ++ q :: rest) (hq : Sigf q) (hrec : tyDepth u ≤ s.recLimit - s.recCur) :
    r = TyRes.ok ∧ ∃ cb' it, cb = cb' ++ it ∧ Ign it ∧ Eat s s' cb' ∧ Toks s' = it ++ q :: rest := by
  unfold tyBody at h
  obtain ⟨k, sP, hp, h2⟩ := bind_dec peek _ s s' r h
  cases hsb with
  | named t i hk hi =>
    have ht' : Toks s = t :: (i ++ q :: rest) := by rw [ht]; simp
    obtain ⟨hkk, eP, htP, _⟩ := peek_head s sP k t _ w ht' hp
    subst hkk
    simp only [hk] at h2
    obtain ⟨hr, e⟩ := nameBranch_sound sP s' r t _ eP.w htP hk h2
    refine ⟨hr, [t], i, rfl, hi, by simpa using eP.trans e, ?_⟩
    have := e.toks
    rw [htP] at this
    simpa using this.symm
  | list lb rb i1 i2 cu u' hkl hi1 hsu hkr hi2 =>
    have ht' : Toks s = lb :: (i1 ++ cu ++ rb :: i2 ++ q :: rest) := by rw [ht]; simp
    obtain ⟨hkk, eP, htP, _⟩ := peek_head s sP k lb _ w ht' hp
    subst hkk
    simp only [hkl] at h2
    have hnil : isIgnoredKind lb.kind = false := by rw [hkl]; rfl
    obtain ⟨s1, s2, e1, h1, o2⟩ := withNode_peeked _ _ sP s' r lb _ eP.w htP hnil h2
    have ht1 : Toks s1 = lb :: (i1 ++ cu ++ rb :: i2 ++ q :: rest) := by
      have := e1.toks; rw [htP] at this; simpa using this.symm
    unfold tyListBody at h1
    obtain ⟨_, s3, h3, h4⟩ := bind_dec (bump "L_BRACK") _ s1 s2 r h1
    unfold bump at h3
    obtain ⟨_, s3a, h3a, h3b⟩ := bind_dec (eat "L_BRACK") _ s1 s3 () h3
    obtain ⟨ea, hta⟩ := eat_head "L_BRACK" s1 s3a lb _ e1.w ht1 h3a
    obtain ⟨hd, tl, hcu, hsd⟩ := spell_head hsu
    have hta' : Toks s3a = i1 ++ hd :: (tl ++ rb :: i2 ++ q :: rest) := by rw [hta, hcu]; simp
    obtain ⟨es, ht3, _⟩ := skip_exact s3a s3 i1 hd _ ea.w h3b hta' hi1 hsd
    have e03 : Eat s s3 (lb :: i1) := by simpa using ((eP.trans e1).trans ea).trans es
    have ht3' : Toks s3 = cu ++ rb :: (i2 ++ q :: rest) := by rw [ht3, hcu]; simp
    -- recursion guard
    obtain ⟨inner, s4, h5, h6⟩ := bind_dec _ _ s3 s2 r h4
    rcases withRec_dec _ _ s3 s4 inner h5 with ⟨hlim, _⟩ | ⟨_, sr1, sr2, c1, l1, er1, a1, r1, rl1, hr, c2, l2, er2, a2, r2, rl2⟩
    · exfalso
      rw [e03.recCur, e03.recLimit] at hlim
      simp only [tyDepth] at hrec
      omega
    · have wr1 : TW sr1 := w_same _ _ e03.w er1 l1 a1
      obtain ⟨res, sr2', hr1, hr2⟩ := bind_dec (tyParse n) _ sr1 sr2 inner hr
      rw [run_pure] at hr2
      injection hr2 with hin hs
      subst hs hin
      have htr1 : Toks sr1 = cu ++ rb :: (i2 ++ q :: rest) := by unfold Toks; rw [c1, l1]; exact ht3'
      have hsr : Sigf rb := by unfold Sigf; rw [hkr]; rfl
      have hnb : NoBangAfter u' rb := by
        unfold NoBangAfter
        cases u' <;> simp [hkr]
      have hrec' : tyDepth u' ≤ sr1.recLimit - sr1.recCur := by
        rw [r1, rl1, e03.recCur, e03.recLimit]
        simp only [tyDepth] at hrec
        omega
      obtain ⟨hres, ei, hti, hci⟩ := ih sr1 sr2' res u' cu rb _ wr1 hr1 hsu htr1 hsr hnb hrec'
      subst hres
      simp only [] at h6
      have w4 : TW s4 := w_same _ _ ei.w er2 l2 a2
      have ht4 : Toks s4 = rb :: i2 ++ q :: rest := by unfold Toks; rw [c2, l2]; exact hti
      obtain ⟨_, s5, h7, h8⟩ := bind_dec (expect .rBracket "R_BRACK") _ s4 s2 r h6
      rw [run_pure] at h8
      injection h8 with h8 h9
      subst h9
      obtain ⟨ee, ht5, _⟩ := expect_match .rBracket "R_BRACK" s4 s5 rb q i2 rest w4 ht4 hkr hi2 hq h7
      refine ⟨h8.symm, lb :: i1 ++ cu ++ rb :: i2, [], ?_, ?_, ?_, ?_⟩
      · simp
      · intro x hx; cases hx
      · -- glue the pieces: s →(lb :: i1) s3 ≈ sr1 →cu sr2' ≈ s4 →(rb :: i2) s5 ≈ s'
        refine ⟨?_, ?_, o2.w ee.w, ?_, ?_, ?_⟩
        · rw [ht, o2.toks, ht5]
        · rw [o2.doomed, ee.doom, doomed_same _ _ er2 l2, ei.doom, doomed_same _ _ er1 l1, e03.doom]
        · rw [o2.accept, ee.accept, a2, ei.accept, a1, e03.accept]
        · rw [o2.recCur, ee.recCur, r2, ei.recCur, r1, e03.recCur]; omega
        · rw [o2.recLimit, ee.recLimit, rl2, ei.recLimit, rl1, e03.recLimit]
      · rw [o2.toks, ht5]; rfl

/-- `ty.rs::parse` on a queue that starts with a type without `!` (`cb`), followed by `pre` = nothing (and then
    no `!`) or `!` and ignored tokens, followed by the significant token `q0` -/
theorem tyParse_comp_stepB (n : Nat) (ih : TyCompB n) (s s' : PState) (r : TyRes) (u : Ast.Ty) (cb pre : List Tok)
    (q0 : Tok) (rest : List Tok) (w : TW s) (h : (tyParse (n + 1)).run s = .ok r s') (hsb : SpellB u cb)
    (ht : Toks s = cb ++ pre ++ q0 :: rest) (hq : Sigf q0) (hrec : tyDepth u ≤ s.recLimit - s.recCur)
    (hpre : (pre = [] ∧ q0.kind ≠ .bang) ∨ (∃ b i, pre = b :: i ∧ b.kind = .bang ∧ Ign i)) :
    r = TyRes.ok ∧ Eat s s' (cb ++ pre) ∧ Toks s' = q0 :: rest ∧ s'.current = some q0 := by
  rw [tyParse_succ] at h
  obtain ⟨r0, sW, hw, h2⟩ := bind_dec _ _ s s' r h
  obtain ⟨s1, s2, s3, c, o1, hb, hc, hrest⟩ := wrapIf_dec _ _ _ _ s sW r0 hw
  have w1 := o1.w w
  -- the first significant token behind `cb`
  obtain ⟨x0, xt, hx, hsx, hxb⟩ : ∃ x0 xt, pre ++ q0 :: rest = x0 :: xt ∧ Sigf x0 ∧ (x0.kind = .bang ↔ pre ≠ []) := by
    rcases hpre with ⟨rfl, hnb⟩ | ⟨b, i, rfl, hkb, _⟩
    · exact ⟨q0, rest, rfl, hq, by simp [hnb]⟩
    · exact ⟨b, i ++ q0 :: rest, by simp, by unfold Sigf; rw [hkb]; rfl, by simp [hkb]⟩
  have ht1 : Toks s1 = cb ++ x0 :: xt := by rw [o1.toks, ht, List.append_assoc, hx]
  obtain ⟨hr0, cb', it, hcb, hit, eb, ht2⟩ := tyBody_compB n ih s1 s2 r0 u cb x0 xt w1 hb hsb ht1 hsx
    (by rw [o1.recCur, o1.recLimit]; exact hrec)
  subst hr0
  -- condition: skip_ignored, peek == `!`
  have hc' : (skipIgnored >>= fun _ => peek >>= fun k => (pure (k == some .bang) : PI Bool)).run s2 = .ok c s3 := hc
  obtain ⟨_, sA, hsA, hc2⟩ := bind_dec skipIgnored _ s2 s3 c hc'
  obtain ⟨eA, htA, _⟩ := skip_exact s2 sA it x0 xt eb.w hsA ht2 hit hsx
  obtain ⟨kk, sP, hpk, hc3⟩ := bind_dec peek _ sA s3 c hc2
  rw [run_pure] at hc3
  injection hc3 with hc3 hc4
  subst hc4
  obtain ⟨hkk, eP, htP, _⟩ := peek_head sA sP kk x0 xt eA.w htA hpk
  subst hkk
  have e0P : Eat s sP cb := by
    have := (((Eat.ofObsEq o1 w).trans eb).trans eA).trans eP
    simpa [← hcb] using this
  -- the tail after the wrap
  simp only [] at h2
  obtain ⟨_, sF, hf, h3⟩ := bind_dec skipIgnored _ sW s' r h2
  rw [run_pure] at h3
  injection h3 with h3 h4
  subst h4
  refine ⟨h3.symm, ?_⟩
  rcases hpre with ⟨rfl, hnb⟩ | ⟨b, i, rfl, hkb, hi⟩
  · -- no `!`
    simp only [List.nil_append, List.cons.injEq] at hx
    obtain ⟨rfl, rfl⟩ := hx
    have hcf : c = false := by rw [← hc3]; simp [hnb]
    rcases hrest with ⟨_, rfl⟩ | ⟨hct, _⟩
    · obtain ⟨eF, htF, hcF⟩ := skip_exact _ sF [] q0 rest eP.w hf (by simpa using htP) (by intro x hx; cases hx) hq
      exact ⟨by simpa using e0P.trans eF, htF, hcF⟩
    · rw [hcf] at hct; cases hct
  · -- `!`
    simp only [List.cons_append, List.cons.injEq] at hx
    obtain ⟨rfl, rfl⟩ := hx
    have hct : c = true := by rw [← hc3]; simp [hkb]
    rcases hrest with ⟨hcf, _⟩ | ⟨_, s4, s5, o4, hi4, o5⟩
    · rw [hct] at hcf; cases hcf
    · have w4 : TW s4 := o4.w eP.w
      obtain ⟨e45, ht5⟩ := eat_head "BANG" s4 s5 b (i ++ q0 :: rest) w4 (by rw [o4.toks]; exact htP) hi4
      have wW : TW sW := o5.w e45.w
      obtain ⟨eF, htF, hcF⟩ := skip_exact sW sF i q0 rest wW hf (by rw [o5.toks]; exact ht5) hi hq
      refine ⟨?_, htF, hcF⟩
      have := ((((e0P.trans (Eat.ofObsEq o4 eP.w)).trans e45).trans (Eat.ofObsEq o5 e45.w)).trans eF)
      simpa using this

theorem tyParse_compB : ∀ (n : Nat), TyCompB n
  | 0 => by intro s s' r t c q0 rest _ h; simp [tyParse, PI.outOfFuel] at h
  | n + 1 => by
    intro s s' r t c q0 rest w h hsp ht hq hnb hrec
    cases hsp with
    | base u c hb =>
      have hnb' : q0.kind ≠ .bang := by
        cases hb <;> simpa [NoBangAfter] using hnb
      have := tyParse_comp_stepB n (tyParse_compB n) s s' r t c [] q0 rest w h hb (by simpa using ht) hq hrec (Or.inl ⟨rfl, hnb'⟩)
      simpa using this
    | bangNamed nm cb b i hb hkb hi =>
      have := tyParse_comp_stepB n (tyParse_compB n) s s' r (.named nm) cb (b :: i) q0 rest w h hb
        (by simp [ht]) hq (by simp [tyDepth]) (Or.inr ⟨b, i, rfl, hkb, hi⟩)
      exact this
    | bangList u cb b i hb hkb hi =>
      have := tyParse_comp_stepB n (tyParse_compB n) s s' r (.list u) cb (b :: i) q0 rest w h hb
        (by simp [ht]) hq (by simpa [tyDepth] using hrec) (Or.inr ⟨b, i, rfl, hkb, hi⟩)
      exact this


/-! ### `ty` as a `Cmp` judgement -/

def IsTyTok (a : Ast.Tok) : Prop := (∃ n, a = .name n) ∨ a = .p .bang ∨ a = .p .lBracket ∨ a = .p .rBracket

theorem tTy_toks (t : Ast.Ty) : ∀ a ∈ Ast.tTy t, IsTyTok a := by
  induction t with
  | named n => intro a ha; simp [Ast.tTy] at ha; exact Or.inl ⟨n, ha⟩
  | nonNullNamed n =>
    intro a ha; simp [Ast.tTy] at ha
    rcases ha with rfl | rfl
    · exact Or.inl ⟨n, rfl⟩
    · exact Or.inr (Or.inl rfl)
  | list t ih =>
    intro a ha; simp [Ast.tTy] at ha
    rcases ha with rfl | ha | rfl
    · exact Or.inr (Or.inr (Or.inl rfl))
    · exact ih a ha
    · exact Or.inr (Or.inr (Or.inr rfl))
  | nonNullList t ih =>
    intro a ha; simp [Ast.tTy] at ha
    rcases ha with rfl | ha | rfl | rfl
    · exact Or.inr (Or.inr (Or.inl rfl))
    · exact ih a ha
    · exact Or.inr (Or.inr (Or.inr rfl))
    · exact Or.inr (Or.inl rfl)

theorem astOf_of_astOfV {tk : Tok} {a : Ast.Tok} (h : astOfV tk = some a) (ha : IsTyTok a) : astOf tk = some a := by
  have hk := kind_of_astOfV h
  unfold astOfV at h
  unfold astOf
  rcases ha with ⟨n, rfl⟩ | rfl | rfl | rfl <;> simp only [kindOfA] at hk <;> rw [hk] at h ⊢ <;> exact h

theorem tokIs_astOf (ts : List Tok) (t : Ast.Ty) (h : TokIs ts (Ast.tTy t)) : ts.map astOf = (Ast.tTy t).map some := by
  unfold TokIs at h
  rw [← h]
  apply List.map_congr_left
  intro tk htk
  have hm : astOfV tk ∈ ts.map astOfV := List.mem_map_of_mem htk
  rw [h] at hm
  obtain ⟨a, ha, e⟩ := List.mem_map.mp hm
  rw [← e]
  exact astOf_of_astOfV e.symm (tTy_toks t a ha)

def LTy (b : Nat) (x : List Ast.Tok) : Prop := ∃ t, x = Ast.tTy t ∧ tyDepth t ≤ b

theorem tTy_head (t : Ast.Ty) : ∃ a x', Ast.tTy t = a :: x' ∧ (kindOfA a = .name ∨ kindOfA a = .lBracket) := by
  cases t with
  | named n => exact ⟨.name n, [], rfl, Or.inl rfl⟩
  | nonNullNamed n => exact ⟨.name n, [.p .bang], rfl, Or.inl rfl⟩
  | list t => exact ⟨.p .lBracket, Ast.tTy t ++ [.p .rBracket], rfl, Or.inr rfl⟩
  | nonNullList t => exact ⟨.p .lBracket, Ast.tTy t ++ [.p .rBracket, .p .bang], rfl, Or.inr rfl⟩

/-- **`ty` is complete**: every type reference within the budget, followed by anything but `!` -/
theorem cmp_ty (n : Nat) : Cmp (fun _ => True) (ty n) LTy (fun k => k ≠ .bang) (fun _ => True) := by
  intro s s' u c x q0 rest w hr hl hs ht hq hf _
  obtain ⟨t, rfl, hd⟩ := hl
  have hsp : Spell t c := spell_of_sig t c hs.2 (tokIs_astOf _ t hs.1)
  unfold ty at hr
  obtain ⟨r, sT, hT, h3⟩ := bind_dec (tyParse n) _ s s' u hr
  have hnb : NoBangAfter t q0 := by unfold NoBangAfter; cases t <;> simp [hf]
  obtain ⟨hr0, eT, htT, _⟩ := tyParse_compB n s sT r t c q0 rest w hT hsp ht hq hnb hd
  subst hr0
  simp only [] at h3
  rw [run_pure] at h3
  injection h3 with _ h3
  subst h3
  exact ⟨eT, htT, trivial⟩

/-! ### variable definitions -/

def LDefault (b : Nat) (x : List Ast.Tok) : Prop := ∃ v, x = .p .eq :: Ast.tValue v ∧ valueOk true v = true ∧ vdepth v ≤ b

theorem cmp_defaultValue (n : Nat) : Cmp (fun _ => True) (defaultValue n) LDefault (fun _ => True) (fun _ => True) := by
  unfold defaultValue
  refine cmp_withNode _ ?_
  have := cmp_bind (Hk := fun _ => True) (F := fun _ => True) (cmp_bump "EQ") (fun _ _ => value_complete n true false)
    (fun _ _ _ _ => trivial) (fun _ _ => trivial) (fun _ _ => trivial)
  refine this.mono (fun _ h => h) ?_ (fun _ h => h) (fun _ h => h)
  rintro b x ⟨v, rfl, h1, h2⟩
  exact ⟨[.p .eq], Ast.tValue v, rfl, ⟨_, rfl⟩, v, rfl, h1, h2⟩

theorem cmp_optDirsEnd {Hk : Kind → Prop} (n : Nat) :
    Cmp Hk (optDirsEnd n) (LDirs true) (fun k => k ≠ .at ∧ k ≠ .lParen) (fun _ => True) := by
  have := cmp_optU (Hk := Hk) .at (directives n true)
    (Lm := fun b x => ∃ ds, ds ≠ [] ∧ x = Ast.tDirectives ds ∧ dirsFit true b ds)
    ((directives_complete n true).mono (fun _ h => h) (by rintro b x ⟨ds, _, rfl, h⟩; exact ⟨ds, rfl, h⟩) (fun _ h => h) (fun _ h => h))
    (by rintro b x ⟨ds, hne, rfl, _⟩; obtain ⟨x', e⟩ := tDirectives_head ds hne; exact ⟨_, x', e, rfl⟩)
  refine this.mono (fun _ h => h) ?_ (fun k h => ⟨h.1, h⟩) (fun _ h => h)
  rintro b x ⟨ds, rfl, h⟩
  by_cases hne : ds = []
  · subst hne; exact Or.inr rfl
  · exact Or.inl ⟨ds, hne, rfl, h⟩

/-- what may follow the type of a variable definition's optional parts -/
def Fvd (k : Kind) : Prop := k ≠ .bang ∧ k ≠ .eq ∧ k ≠ .at ∧ k ≠ .lParen

def LAfterTy (b : Nat) (x : List Ast.Tok) : Prop := ∃ x1 x2, x = x1 ++ x2 ∧ (LDefault b x1 ∨ x1 = []) ∧ LDirs true b x2

theorem ldirs_head {c : Bool} {b : Nat} {a : Ast.Tok} {x : List Ast.Tok} (h : LDirs c b (a :: x)) : a = .p .at := by
  obtain ⟨ds, e, _⟩ := h
  cases ds with
  | nil => cases e
  | cons d r => simp [Ast.tDirectives] at e; exact e.1

theorem cmp_ivdAfterTy (n : Nat) : Cmp (fun _ => True) (ivdAfterTy n) LAfterTy (fun k => k ≠ .eq ∧ k ≠ .at ∧ k ≠ .lParen) (fun _ => True) :=
  cmp_optKind (Hk := fun _ => True) .eq (defaultValue n) (optDirsEnd n) (cmp_defaultValue n) (cmp_optDirsEnd n)
    (by rintro b x ⟨v, rfl, _⟩; exact ⟨_, _, rfl, rfl⟩)
    (by intro b a x h; rw [ldirs_head h]; simp [kindOfA])
    (by intro k h; exact ⟨h.1, trivial, h.2.1, h.2.2⟩)

theorem lafterTy_head {b : Nat} {a : Ast.Tok} {x : List Ast.Tok} (h : LAfterTy b (a :: x)) : a = .p .eq ∨ a = .p .at := by
  obtain ⟨x1, x2, e, h1, h2⟩ := h
  rcases h1 with ⟨v, rfl, _⟩ | rfl
  · simp only [List.cons_append] at e
    injection e with e _
    left; exact e
  · simp only [List.nil_append] at e
    subst e
    right; exact ldirs_head h2

def LVarTail (b : Nat) (x : List Ast.Tok) : Prop := ∃ x1 x2, x = x1 ++ x2 ∧ LTy b x1 ∧ LAfterTy b x2

theorem cmp_ivdType (n : Nat) : Cmp (fun _ => True) (ivdType n) LVarTail Fvd (fun _ => True) := by
  unfold ivdType
  have hb : Cmp (fun _ => True) (ty n >>= fun _ => ivdAfterTy n) LVarTail Fvd (fun _ => True) :=
    cmp_bind (Hk := fun _ => True) (cmp_ty n) (fun _ _ => cmp_ivdAfterTy n)
      (by intro b a x2 h; rcases lafterTy_head h with e | e <;> subst e <;> simp [kindOfA])
      (fun k h => h.1) (fun k h => ⟨h.2.1, h.2.2.1, h.2.2.2⟩)
  apply cmp_peek
  intro k _
  apply cmp_ite
  · intro _
    exact hb.mono (fun _ _ => trivial) (fun _ _ h => h) (fun _ h => h) (fun _ h => h)
  · intro hk
    apply cmp_absurd
    rintro b x cc q0 ⟨x1, x2, rfl, ⟨t, rfl, _⟩, _⟩ hs _ hkk
    obtain ⟨a, x', e, hka⟩ := tTy_head t
    rw [e] at hs
    obtain ⟨tk, tl, rfl, hta⟩ := spells_head (x := x' ++ x2) (by simpa using hs)
    simp only [headK] at hkk
    rw [kind_of_astOfV hta] at hkk
    rcases hka with h | h <;> simp [← hkk, h] at hk

theorem cmp_ivdColon (n : Nat) :
    Cmp (fun _ => True) (ivdColon n) (fun b x => ∃ x2, x = .p .colon :: x2 ∧ LVarTail b x2) Fvd (fun _ => True) := by
  unfold ivdColon
  apply cmp_peek
  intro k _
  apply cmp_ite
  · intro _
    have := cmp_bind (Hk := fun k' => k' = k) (F := Fvd) (F1 := fun _ => True)
      ((cmp_bump "COLON").mono (fun _ _ => trivial) (fun _ _ h => h) (fun _ h => h) (fun _ h => h))
      (fun _ _ => cmp_ivdType n) (fun _ _ _ _ => trivial) (fun _ _ => trivial) (fun _ h => h)
    refine this.mono (fun _ h => h) ?_ (fun _ h => h) (fun _ h => h)
    rintro b x ⟨x2, rfl, h⟩
    exact ⟨[.p .colon], x2, rfl, ⟨_, rfl⟩, h⟩
  · intro hk
    apply cmp_absurd
    rintro b x cc q0 ⟨x2, rfl, _⟩ hs _ hkk
    obtain ⟨tk, tl, rfl, hta⟩ := spells_head hs
    simp only [headK] at hkk
    rw [kind_of_astOfV hta] at hkk
    simp [← hkk, kindOfA] at hk

/-- a variable definition within the budget: the type's list nesting, the default value (constant), the directives -/
def varFit (b : Nat) (v : Ast.VarDef) : Prop :=
  tyDepth v.ty ≤ b ∧ (∀ d, v.default = some d → valueOk true d = true ∧ vdepth d ≤ b) ∧ dirsFit true b v.dirs

def LVarDef (b : Nat) (x : List Ast.Tok) : Prop := ∃ v : Ast.VarDef, x = Ast.tVarDef v ∧ varFit b v

theorem cmp_variableDefinition (n : Nat) : Cmp (fun _ => True) (variableDefinition n) LVarDef Fvd (fun _ => True) := by
  rw [variableDefinition_eq]
  refine cmp_withNode _ ?_
  have := cmp_bind (Hk := fun _ => True) (F := Fvd) (F1 := fun _ => True) cmp_variableNode (fun _ _ => cmp_ivdColon n)
    (fun _ _ _ _ => trivial) (fun _ _ => trivial) (fun _ h => h)
  refine this.mono (fun _ h => h) ?_ (fun _ h => h) (fun _ h => h)
  rintro b x ⟨v, rfl, hty, hdef, hdirs⟩
  refine ⟨[.p .dollar, .name v.name], .p .colon :: (Ast.tTy v.ty ++ (Ast.tDefault v.default ++ Ast.tDirectives v.dirs)),
    by simp [Ast.tVarDef, List.append_assoc], ⟨_, rfl⟩, _, rfl, Ast.tTy v.ty, _, rfl, ⟨v.ty, rfl, hty⟩,
    Ast.tDefault v.default, Ast.tDirectives v.dirs, rfl, ?_, ⟨v.dirs, rfl, hdirs⟩⟩
  cases hd : v.default with
  | none => right; rfl
  | some d => left; exact ⟨d, rfl, hdef d hd⟩

end Apollo.Parse.Exact
