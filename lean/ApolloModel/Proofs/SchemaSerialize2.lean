import ApolloModel.Proofs.SchemaSerialize
/-
C12 growth, part 1: `extensions()` of a regrouped body is `extensions()` of the body
(the hypothesis of `toAst_fixpoint_partial`, discharged in general).
-/
set_option linter.unusedSimpArgs false
namespace Apollo.SchemaSerialize
open Apollo.SchemaBuild

/-! ### first occurrences of concatenations and of grouped lists -/

theorem firstOcc_append : ∀ (A B : List Pos),
    firstOcc (A ++ B) = firstOcc A ++ (firstOcc B).filter (fun y => !decide (y ∈ A)) := by
  intro A
  induction A with
  | nil => intro B; exact (List.filter_eq_self.mpr (by intro y _; simp)).symm
  | cons a A ih =>
    intro B
    simp only [List.cons_append, firstOcc, ih, List.filter_append, List.filter_filter]
    congr 2
    apply List.filter_congr
    intro y _
    by_cases h : y = a <;> simp [h]

/-- `L` sorted into blocks in the order `E` -/
def grp (E L : List Pos) : List Pos := E.flatMap (fun e => L.filter (fun y => y == e))

theorem mem_grp (E L : List Pos) (y : Pos) : y ∈ grp E L ↔ y ∈ E ∧ y ∈ L := by
  unfold grp
  simp only [List.mem_flatMap, List.mem_filter]
  constructor
  · rintro ⟨e, he, hy, hye⟩
    have : y = e := by simpa using hye
    subst this
    exact ⟨he, hy⟩
  · rintro ⟨h1, h2⟩
    exact ⟨y, h1, h2, by simp⟩

theorem firstOcc_block (L : List Pos) (e : Pos) :
    firstOcc (L.filter (fun y => y == e)) = if e ∈ L then [e] else [] := by
  induction L with
  | nil => simp [firstOcc]
  | cons x xs ih =>
    by_cases h : x = e
    · subst h
      simp only [List.filter_cons, beq_self_eq_true, if_true, firstOcc, ih, List.mem_cons, true_or]
      by_cases h2 : x ∈ xs <;> simp [h2]
    · have h' : (x == e) = false := by simpa using h
      have h3 : ¬ (e = x) := fun c => h c.symm
      simp only [List.filter_cons, h', Bool.false_eq_true, if_false, ih, List.mem_cons, h3, false_or]

theorem firstOcc_grp (L : List Pos) : ∀ (E : List Pos), E.Nodup →
    firstOcc (grp E L) = E.filter (fun e => decide (e ∈ L)) := by
  intro E
  induction E with
  | nil => intro _; simp [grp, firstOcc]
  | cons e E ih =>
    intro hnd
    have hn := List.nodup_cons.mp hnd
    have hrest : grp (e :: E) L = L.filter (fun y => y == e) ++ grp E L := by simp [grp]
    rw [hrest, firstOcc_append, firstOcc_block, ih hn.2]
    have hf : (E.filter (fun e => decide (e ∈ L))).filter (fun y => !decide (y ∈ L.filter (fun y => y == e)))
        = E.filter (fun e => decide (e ∈ L)) := by
      apply List.filter_eq_self.mpr
      intro y hy
      have hyE := (List.mem_filter.mp hy).1
      have : y ≠ e := fun c => hn.1 (c ▸ hyE)
      simp [List.mem_filter, this]
    rw [hf]
    by_cases h : e ∈ L <;> simp [List.filter_cons, h]

/-! ### the extension origins of a regrouped list -/

theorem filterMap_origin_block (cs : List Comp) (e : Pos) :
    (cs.filter (fun c => c.origin == some e)).filterMap (·.origin)
      = (cs.filterMap (·.origin)).filter (fun y => y == e) := by
  induction cs with
  | nil => rfl
  | cons c cs ih =>
    cases ho : c.origin with
    | none => simp [List.filter_cons, List.filterMap_cons, ho, ih]
    | some p =>
      by_cases h : p = e
      · subst h; simp [List.filter_cons, List.filterMap_cons, ho, ih]
      · have h2 : ¬ (some p = some e) := by intro c; injection c with c; exact h c
        simp [List.filter_cons, List.filterMap_cons, ho, ih, h, h2]

theorem filterMap_origin_none (cs : List Comp) :
    (cs.filter (fun c => c.origin == none)).filterMap (·.origin) = [] := by
  induction cs with
  | nil => rfl
  | cons c cs ih =>
    cases ho : c.origin with
    | none => simp [List.filter_cons, ho, List.filterMap_cons, ih]
    | some p => simp [List.filter_cons, ho, ih]

theorem filterMap_origin_regroup (E : List Pos) (cs : List Comp) :
    (regroup E cs).filterMap (·.origin) = grp E (cs.filterMap (·.origin)) := by
  unfold regroup grp
  rw [List.filterMap_append, filterMap_origin_none, List.nil_append]
  induction E with
  | nil => rfl
  | cons e E ih => simp only [List.flatMap_cons, List.filterMap_append, filterMap_origin_block, ih]

/-! ### the main lemma on position lists -/

theorem filter_firstOcc_self (X : List Pos) :
    (firstOcc X).filter (fun e => decide (e ∈ X)) = firstOcc X := by
  apply List.filter_eq_self.mpr
  intro y hy
  simpa using (mem_firstOcc X y).mp hy

theorem firstOcc_grp3 (X Y Z : List Pos) :
    firstOcc (grp (firstOcc (X ++ Y ++ Z)) X ++ grp (firstOcc (X ++ Y ++ Z)) Y ++ grp (firstOcc (X ++ Y ++ Z)) Z)
      = firstOcc (X ++ Y ++ Z) := by
  have hnd := firstOcc_nodup (X ++ Y ++ Z)
  generalize hE : firstOcc (X ++ Y ++ Z) = E at hnd ⊢
  have hmem : ∀ y, y ∈ E ↔ (y ∈ X ∨ y ∈ Y ∨ y ∈ Z) := by
    intro y; rw [← hE, mem_firstOcc]; simp [or_assoc]
  -- decomposition of E
  have hdec : E = firstOcc X ++ (firstOcc Y).filter (fun y => !decide (y ∈ X))
      ++ (firstOcc Z).filter (fun y => !decide (y ∈ X ++ Y)) := by
    rw [← hE, firstOcc_append (X ++ Y) Z, firstOcc_append X Y]
  rw [firstOcc_append, firstOcc_append, firstOcc_grp X E hnd, firstOcc_grp Y E hnd, firstOcc_grp Z E hnd]
  simp only [List.filter_filter]
  -- rewrite the three filters of E through the decomposition
  have p1 : E.filter (fun e => decide (e ∈ X)) = firstOcc X := by
    rw [show E.filter (fun e => decide (e ∈ X)) = (firstOcc X ++ (firstOcc Y).filter (fun y => !decide (y ∈ X))
      ++ (firstOcc Z).filter (fun y => !decide (y ∈ X ++ Y))).filter (fun e => decide (e ∈ X)) from by rw [← hdec]]
    simp only [List.filter_append, List.filter_filter]
    rw [filter_firstOcc_self]
    have a : (firstOcc Y).filter (fun a => decide (a ∈ X) && !decide (a ∈ X)) = [] := by
      apply List.filter_eq_nil_iff.mpr; intro y _; simp
    have b : (firstOcc Z).filter (fun a => decide (a ∈ X) && !decide (a ∈ X ++ Y)) = [] := by
      apply List.filter_eq_nil_iff.mpr; intro y _
      by_cases hx : y ∈ X <;> simp [hx]
    rw [a, b]; simp
  have p2 : E.filter (fun a => !decide (a ∈ grp E X) && decide (a ∈ Y))
      = (firstOcc Y).filter (fun y => !decide (y ∈ X)) := by
    rw [show E.filter (fun a => !decide (a ∈ grp E X) && decide (a ∈ Y)) = (firstOcc X ++ (firstOcc Y).filter (fun y => !decide (y ∈ X))
      ++ (firstOcc Z).filter (fun y => !decide (y ∈ X ++ Y))).filter (fun a => !decide (a ∈ grp E X) && decide (a ∈ Y)) from by rw [← hdec]]
    simp only [List.filter_append, List.filter_filter]
    have a : (firstOcc X).filter (fun a => !decide (a ∈ grp E X) && decide (a ∈ Y)) = [] := by
      apply List.filter_eq_nil_iff.mpr
      intro y hy
      have hyX := (mem_firstOcc X y).mp hy
      have : y ∈ grp E X := (mem_grp E X y).mpr ⟨(hmem y).mpr (Or.inl hyX), hyX⟩
      simp [this]
    have b : (firstOcc Y).filter (fun a => (!decide (a ∈ grp E X) && decide (a ∈ Y)) && !decide (a ∈ X))
        = (firstOcc Y).filter (fun y => !decide (y ∈ X)) := by
      apply List.filter_congr
      intro y hy
      have hyY := (mem_firstOcc Y y).mp hy
      by_cases hx : y ∈ X
      · simp [hx]
      · have : y ∉ grp E X := fun c => hx ((mem_grp E X y).mp c).2
        simp [hx, this, hyY]
    have c : (firstOcc Z).filter (fun a => (!decide (a ∈ grp E X) && decide (a ∈ Y)) && !decide (a ∈ X ++ Y)) = [] := by
      apply List.filter_eq_nil_iff.mpr; intro y _
      by_cases hy : y ∈ Y <;> simp [hy]
    rw [a, b, c]; simp
  have p3 : E.filter (fun a => !decide (a ∈ grp E X ++ grp E Y) && decide (a ∈ Z))
      = (firstOcc Z).filter (fun y => !decide (y ∈ X ++ Y)) := by
    rw [show E.filter (fun a => !decide (a ∈ grp E X ++ grp E Y) && decide (a ∈ Z)) = (firstOcc X ++ (firstOcc Y).filter (fun y => !decide (y ∈ X))
      ++ (firstOcc Z).filter (fun y => !decide (y ∈ X ++ Y))).filter (fun a => !decide (a ∈ grp E X ++ grp E Y) && decide (a ∈ Z)) from by rw [← hdec]]
    simp only [List.filter_append, List.filter_filter]
    have a : (firstOcc X).filter (fun a => !decide (a ∈ grp E X ++ grp E Y) && decide (a ∈ Z)) = [] := by
      apply List.filter_eq_nil_iff.mpr
      intro y hy
      have hyX := (mem_firstOcc X y).mp hy
      have : y ∈ grp E X := (mem_grp E X y).mpr ⟨(hmem y).mpr (Or.inl hyX), hyX⟩
      simp [this]
    have b : (firstOcc Y).filter (fun a => (!decide (a ∈ grp E X ++ grp E Y) && decide (a ∈ Z)) && !decide (a ∈ X)) = [] := by
      apply List.filter_eq_nil_iff.mpr
      intro y hy
      have hyY := (mem_firstOcc Y y).mp hy
      have : y ∈ grp E Y := (mem_grp E Y y).mpr ⟨(hmem y).mpr (Or.inr (Or.inl hyY)), hyY⟩
      simp [this]
    have c : (firstOcc Z).filter (fun a => (!decide (a ∈ grp E X ++ grp E Y) && decide (a ∈ Z)) && !decide (a ∈ X ++ Y))
        = (firstOcc Z).filter (fun y => !decide (y ∈ X ++ Y)) := by
      apply List.filter_congr
      intro y hy
      have hyZ := (mem_firstOcc Z y).mp hy
      by_cases hx : y ∈ X ++ Y
      · simp [hx]
      · have hx' : y ∉ X ∧ y ∉ Y := by simpa using hx
        have h1 : y ∉ grp E X := fun c => hx'.1 ((mem_grp E X y).mp c).2
        have h2 : y ∉ grp E Y := fun c => hx'.2 ((mem_grp E Y y).mp c).2
        simp [hx, h1, h2, hyZ]
    rw [a, b, c]; simp
  rw [p1, p2, p3]
  exact hdec.symm

/-- `extensions()` of the re-built (regrouped) body is `extensions()` of the body -/
theorem extensionsOf_regroupBody (b : Body) : extensionsOf (regroupBody b) = extensionsOf b := by
  unfold extensionsOf extOrigins regroupBody
  simp only [List.filterMap_append, filterMap_origin_regroup]
  have := firstOcc_grp3 (b.directives.filterMap (·.origin)) (b.interfaces.filterMap (·.origin)) (b.members.filterMap (·.origin))
  simp only [extensionsOf, extOrigins, List.filterMap_append] at this ⊢
  exact this

end Apollo.SchemaSerialize
