import ApolloModel.Proofs.ExecutionFuel
/-
C26 growth: fuel sufficiency WITH fragment spreads.  The fragment table is acyclic: a rank function under
which every spread inside a fragment's body (at any nesting) names a fragment of smaller rank — what the
validation rule "fragment spreads must not form cycles" guarantees.  Potentials over the table bound how much
depth / weight fragment expansion can add below a given rank.
-/
namespace Apollo.Exec
open Apollo

/-! ### ranks, potentials -/

mutual
/-- spread bound: 0 when no fragment spread occurs below, else 1 + the largest rank of a spread fragment -/
def Sel.sb (rank : String → Nat) : Sel → Nat
  | .field _ _ _ _ sub => Sel.sbL rank sub
  | .spread n _ => rank n + 1
  | .inline _ _ sub => Sel.sbL rank sub
def Sel.sbL (rank : String → Nat) : List Sel → Nat
  | [] => 0
  | s :: rest => max (Sel.sb rank s) (Sel.sbL rank rest)
end

/-- the fragment spread graph is acyclic, witnessed by `rank` (spreads nested in fields included) -/
def Acyclic (frags : AList Frag) (rank : String → Nat) : Prop :=
  ∀ n fr, AList.get? frags n = some fr → Sel.sbL rank fr.sub ≤ rank n

/-- total `w` of the fragments of rank below `r` -/
def pot (w : List Sel → Nat) (rank : String → Nat) : AList Frag → Nat → Nat
  | [], _ => 0
  | (n, fr) :: rest, r => (if rank n < r then w fr.sub else 0) + pot w rank rest r

/-- total `w` of all fragments -/
def potAll (w : List Sel → Nat) : AList Frag → Nat
  | [] => 0
  | (_, fr) :: rest => w fr.sub + potAll w rest

/-- total weight of the fragments not yet visited -/
def wleft (visited : List String) : AList Frag → Nat
  | [] => 0
  | (n, fr) :: rest => (if n ∈ visited then 0 else Sel.weightL fr.sub) + wleft visited rest

theorem pot_mono (w : List Sel → Nat) (rank : String → Nat) : ∀ (frags : AList Frag) (r r' : Nat), r ≤ r' →
    pot w rank frags r ≤ pot w rank frags r' := by
  intro frags
  induction frags with
  | nil => intro r r' _; simp [pot]
  | cons e rest ih =>
    intro r r' h
    obtain ⟨n, fr⟩ := e
    have := ih r r' h
    simp only [pot]
    by_cases h1 : rank n < r
    · have h2 : rank n < r' := by omega
      simp [h1, h2]; omega
    · simp only [h1, if_false]
      by_cases h2 : rank n < r' <;> simp [h2] <;> omega

theorem pot_le_all (w : List Sel → Nat) (rank : String → Nat) : ∀ (frags : AList Frag) (r : Nat),
    pot w rank frags r ≤ potAll w frags := by
  intro frags
  induction frags with
  | nil => intro r; simp [pot, potAll]
  | cons e rest ih =>
    intro r
    obtain ⟨n, fr⟩ := e
    have := ih r
    simp only [pot, potAll]
    by_cases h1 : rank n < r <;> simp [h1] <;> omega

/-- entering a fragment of rank below `ρ` costs its own `w` and leaves the potential of its rank -/
theorem pot_step (w : List Sel → Nat) (rank : String → Nat) : ∀ (frags : AList Frag) (n : String) (fr : Frag) (ρ : Nat),
    AList.get? frags n = some fr → rank n < ρ → w fr.sub + pot w rank frags (rank n) ≤ pot w rank frags ρ := by
  intro frags
  induction frags with
  | nil => intro n fr ρ h; simp [AList.get?] at h
  | cons e rest ih =>
    intro n fr ρ hget hlt
    obtain ⟨k, v⟩ := e
    simp only [AList.get?] at hget
    simp only [pot]
    by_cases hk : k = n
    · simp only [hk, if_true, Option.some.injEq] at hget
      subst hget
      subst hk
      have hm := pot_mono w rank rest (rank k) ρ (Nat.le_of_lt hlt)
      simp [hlt]; omega
    · simp only [hk, if_false] at hget
      have := ih n fr ρ hget hlt
      by_cases h1 : rank k < rank n
      · have h2 : rank k < ρ := by omega
        simp [h1, h2]; omega
      · simp only [h1, if_false]
        by_cases h2 : rank k < ρ <;> simp [h2] <;> omega

theorem wleft_nil : ∀ (frags : AList Frag), wleft [] frags = potAll Sel.weightL frags := by
  intro frags
  induction frags with
  | nil => rfl
  | cons e rest ih => obtain ⟨n, fr⟩ := e; simp [wleft, potAll, ih]

theorem wleft_cons_le (x : String) (visited : List String) : ∀ (frags : AList Frag),
    wleft (x :: visited) frags ≤ wleft visited frags := by
  intro frags
  induction frags with
  | nil => simp [wleft]
  | cons e rest ih =>
    obtain ⟨n, fr⟩ := e
    simp only [wleft, List.mem_cons]
    by_cases h1 : n ∈ visited
    · simp only [h1, or_true, if_true]; omega
    · by_cases h2 : n = x
      · simp only [h2, true_or, if_true]; omega
      · simp only [h1, h2, or_self, if_false]; omega

theorem wleft_step (x : String) (visited : List String) (hx : x ∉ visited) :
    ∀ (frags : AList Frag) (fr : Frag), AList.get? frags x = some fr →
      wleft (x :: visited) frags + Sel.weightL fr.sub ≤ wleft visited frags := by
  intro frags
  induction frags with
  | nil => intro fr h; simp [AList.get?] at h
  | cons e rest ih =>
    intro fr hget
    obtain ⟨k, v⟩ := e
    simp only [AList.get?] at hget
    simp only [wleft, List.mem_cons]
    by_cases hk : k = x
    · simp only [hk, if_true, Option.some.injEq] at hget
      subst hget
      subst hk
      have hr := wleft_cons_le k visited rest
      simp only [true_or, if_true, hx, if_false]; omega
    · simp only [hk, if_false] at hget
      have := ih fr hget
      by_cases h1 : k ∈ visited
      · simp only [h1, or_true, if_true]; omega
      · simp only [hk, h1, or_self, if_false]; omega

/-! ### how deep fragment expansion can make a selection -/

abbrev phi (frags : AList Frag) (rank : String → Nat) (r : Nat) : Nat := pot Sel.depthL rank frags r
abbrev psi (frags : AList Frag) (rank : String → Nat) (r : Nat) : Nat := pot Sel.weightL rank frags r

mutual
/-- nesting depth of fields below a selection, fragment expansion included (an upper bound) -/
def Sel.m (frags : AList Frag) (rank : String → Nat) : Sel → Nat
  | .field _ _ _ _ sub => (Sel.depthL sub + 1) + phi frags rank (Sel.sbL rank sub)
  | .spread n _ => phi frags rank (rank n + 1)
  | .inline _ _ sub => Sel.mL frags rank sub
def Sel.mL (frags : AList Frag) (rank : String → Nat) : List Sel → Nat
  | [] => 0
  | s :: rest => max (Sel.m frags rank s) (Sel.mL frags rank rest)
end

mutual
theorem m_le (frags : AList Frag) (rank : String → Nat) : ∀ (s : Sel),
    Sel.m frags rank s ≤ s.depth + phi frags rank (Sel.sb rank s)
  | .field _ _ _ _ sub => by simp [Sel.m, Sel.depth, Sel.sb]
  | .spread n _ => by simp [Sel.m, Sel.depth, Sel.sb]
  | .inline _ _ sub => by simpa [Sel.m, Sel.depth, Sel.sb] using mL_le frags rank sub
theorem mL_le (frags : AList Frag) (rank : String → Nat) : ∀ (l : List Sel),
    Sel.mL frags rank l ≤ Sel.depthL l + phi frags rank (Sel.sbL rank l)
  | [] => by simp [Sel.mL]
  | s :: rest => by
    have h1 := m_le frags rank s
    have h2 := mL_le frags rank rest
    have m1 := pot_mono Sel.depthL rank frags (Sel.sb rank s) (max (Sel.sb rank s) (Sel.sbL rank rest)) (Nat.le_max_left _ _)
    have m2 := pot_mono Sel.depthL rank frags (Sel.sbL rank rest) (max (Sel.sb rank s) (Sel.sbL rank rest)) (Nat.le_max_right _ _)
    simp only [Sel.mL, Sel.depthL, Sel.sbL, phi] at *
    omega
end

theorem mL_append (frags : AList Frag) (rank : String → Nat) : ∀ (a b : List Sel),
    Sel.mL frags rank (a ++ b) = max (Sel.mL frags rank a) (Sel.mL frags rank b) := by
  intro a
  induction a with
  | nil => intro b; simp [Sel.mL]
  | cons x xs ih => intro b; simp [Sel.mL, ih, Nat.max_assoc]

/-- the sub-selections of a field are one level less deep -/
theorem mL_sub_field (frags : AList Frag) (rank : String → Nat) (a : Option String) (nm : String)
    (args : List (String × AVal)) (dd : Dirs) (sub : List Sel) :
    Sel.mL frags rank sub + 1 ≤ Sel.m frags rank (.field a nm args dd sub) := by
  have := mL_le frags rank sub
  simp only [Sel.m]
  omega

/-- a fragment's body is no deeper than what a spread of it is charged (acyclic table) -/
theorem mL_body (frags : AList Frag) (rank : String → Nat) (hac : Acyclic frags rank) (n : String) (fr : Frag)
    (h : AList.get? frags n = some fr) : Sel.mL frags rank fr.sub ≤ phi frags rank (rank n + 1) := by
  have h1 := mL_le frags rank fr.sub
  have h2 := pot_mono Sel.depthL rank frags _ _ (hac n fr h)
  have h3 := pot_step Sel.depthL rank frags n fr (rank n + 1) h (Nat.lt_succ_self _)
  simp only [phi] at *
  omega

/-- the same for the `collect_fields` fuel -/
theorem weight_body (frags : AList Frag) (rank : String → Nat) (hac : Acyclic frags rank) (n : String) (fr : Frag)
    (h : AList.get? frags n = some fr) :
    Sel.weightL fr.sub + psi frags rank (Sel.sbL rank fr.sub) ≤ psi frags rank (rank n + 1) := by
  have h2 := pot_mono Sel.weightL rank frags _ _ (hac n fr h)
  have h3 := pot_step Sel.weightL rank frags n fr (rank n + 1) h (Nat.lt_succ_self _)
  simp only [psi] at *
  omega

/-- what is known about every collected field: a field selection whose expansion is at most `d` levels deep -/
def FieldR (frags : AList Frag) (rank : String → Nat) (d : Nat) (s : Sel) : Prop :=
  s.isField = true ∧ Sel.m frags rank s ≤ d

def GroupsR (frags : AList Frag) (rank : String → Nat) (d : Nat) (g : AList (List Sel)) : Prop :=
  ∀ kv, kv ∈ g → ∀ s, s ∈ kv.2 → FieldR frags rank d s

theorem pushGroup_R (frags : AList Frag) (rank : String → Nat) (d : Nat) : ∀ (g : AList (List Sel)) (k : String) (s : Sel),
    GroupsR frags rank d g → FieldR frags rank d s → GroupsR frags rank d (pushGroup g k s) := by
  intro g
  induction g with
  | nil =>
    intro k s _ hs kv hkv x hx
    simp [pushGroup] at hkv
    subst hkv
    simp at hx
    subst hx
    exact hs
  | cons hd tl ih =>
    intro k s hg hs
    obtain ⟨k', fs⟩ := hd
    simp only [pushGroup]
    split
    · intro kv hkv x hx
      simp only [List.mem_cons] at hkv
      rcases hkv with rfl | hkv
      · simp only [List.mem_append, List.mem_singleton] at hx
        rcases hx with hx | rfl
        · exact hg (k', fs) (by simp) x hx
        · exact hs
      · exact hg kv (by simp [hkv]) x hx
    · intro kv hkv x hx
      simp only [List.mem_cons] at hkv
      rcases hkv with rfl | hkv
      · exact hg (k', fs) (by simp) x hx
      · exact ih k s (fun kv' h' => hg kv' (by simp [h'])) hs kv hkv x hx

/-- `collect_fields` with fragment spreads: enough fuel is the weight of the set plus the weight potential of
    the fragments it can reach; every collected selection is a field at most `d` levels deep; the collected
    weight is paid by the set and by the fragments that had not been visited. -/
theorem collect_okR (env : Env) (rank : String → Nat) (hac : Acyclic env.frags rank) (objTy : String) (d : Nat) :
    ∀ n sels visited groups,
      Sel.weightL sels + psi env.frags rank (Sel.sbL rank sels) < n → Sel.mL env.frags rank sels ≤ d →
      GroupsR env.frags rank d groups →
      ∃ v g, collectFields env objTy n sels visited groups = some (v, g) ∧ GroupsR env.frags rank d g ∧
        groupsWeight g + wleft v env.frags ≤ groupsWeight groups + wleft visited env.frags + Sel.weightL sels := by
  intro n
  induction n with
  | zero => intro sels visited groups h; omega
  | succ n ih =>
    intro sels visited groups hw hm hg
    cases sels with
    | nil => exact ⟨visited, groups, rfl, hg, by simp [Sel.weightL]⟩
    | cons sel rest =>
      simp only [Sel.weightL, Sel.sbL] at hw
      simp only [Sel.mL] at hm
      have hwsel : 1 ≤ sel.weight := by cases sel <;> simp [Sel.weight]
      have hpr : psi env.frags rank (Sel.sbL rank rest) ≤ psi env.frags rank (max (Sel.sb rank sel) (Sel.sbL rank rest)) :=
        pot_mono _ _ _ _ _ (Nat.le_max_right _ _)
      have hps : psi env.frags rank (Sel.sb rank sel) ≤ psi env.frags rank (max (Sel.sb rank sel) (Sel.sbL rank rest)) :=
        pot_mono _ _ _ _ _ (Nat.le_max_left _ _)
      have hrest := fun v g hg' => ih rest v g (by omega) (by omega) hg'
      simp only [collectFields]
      split
      · obtain ⟨v, g, h1, h2, h3⟩ := hrest visited groups hg
        exact ⟨v, g, h1, h2, by simp only [Sel.weightL]; omega⟩
      · cases sel with
        | field a nm args dirs sub =>
          simp only
          have hf : FieldR env.frags rank d (.field a nm args dirs sub) := ⟨rfl, by omega⟩
          obtain ⟨v, g, h1, h2, h3⟩ := hrest visited _ (pushGroup_R env.frags rank d groups _ _ hg hf)
          refine ⟨v, g, h1, h2, ?_⟩
          rw [pushGroup_weight] at h3
          simp only [Sel.weightL]
          omega
        | spread name dirs =>
          simp only
          simp only [Sel.sb] at hw hps
          simp only [Sel.m] at hm
          split
          · obtain ⟨v, g, h1, h2, h3⟩ := hrest visited groups hg
            exact ⟨v, g, h1, h2, by simp only [Sel.weightL]; omega⟩
          · next hvis =>
            have hnot : name ∉ visited := by simpa using hvis
            have hle := wleft_cons_le name visited env.frags
            cases hget : AList.get? env.frags name with
            | none =>
              simp only
              obtain ⟨v, g, h1, h2, h3⟩ := hrest (name :: visited) groups hg
              exact ⟨v, g, h1, h2, by simp only [Sel.weightL]; omega⟩
            | some frag =>
              simp only
              split
              · obtain ⟨v, g, h1, h2, h3⟩ := hrest (name :: visited) groups hg
                exact ⟨v, g, h1, h2, by simp only [Sel.weightL]; omega⟩
              · have hwb := weight_body env.frags rank hac name frag hget
                have hmb := mL_body env.frags rank hac name frag hget
                have hstep := wleft_step name visited hnot env.frags frag hget
                obtain ⟨v1, g1, e1, ok1, w1⟩ := ih frag.sub (name :: visited) groups (by omega) (by omega) hg
                rw [e1]
                obtain ⟨v, g, h1, h2, h3⟩ := hrest v1 g1 ok1
                refine ⟨v, g, h1, h2, ?_⟩
                simp only [Sel.weightL, Sel.weight]
                omega
        | inline cond dirs sub =>
          simp only
          simp only [Sel.weight] at hw hwsel
          simp only [Sel.sb] at hw hps
          simp only [Sel.m] at hm
          have key : ∀ b : Bool, ∃ v g,
              (if (!b) = true then collectFields env objTy n rest visited groups
               else
                 match collectFields env objTy n sub visited groups with
                 | none => none
                 | some (visited, groups) => collectFields env objTy n rest visited groups) = some (v, g) ∧
              GroupsR env.frags rank d g ∧
              groupsWeight g + wleft v env.frags ≤
                groupsWeight groups + wleft visited env.frags + Sel.weightL (Sel.inline cond dirs sub :: rest) := by
            intro b
            cases b with
            | false =>
              simp only [Bool.not_false, if_true]
              obtain ⟨v, g, h1, h2, h3⟩ := hrest visited groups hg
              exact ⟨v, g, h1, h2, by simp only [Sel.weightL, Sel.weight]; omega⟩
            | true =>
              simp only [Bool.not_true, Bool.false_eq_true, if_false]
              obtain ⟨v1, g1, e1, ok1, w1⟩ := ih sub visited groups (by omega) (by omega) hg
              rw [e1]
              obtain ⟨v, g, h1, h2, h3⟩ := hrest v1 g1 ok1
              refine ⟨v, g, h1, h2, ?_⟩
              simp only [Sel.weightL, Sel.weight]
              omega
          cases cond with
          | none => exact key true
          | some c => exact key (fragmentApplies env.schema objTy c)

theorem subSelections_R (frags : AList Frag) (rank : String → Nat) (d : Nat) : ∀ fields : List Sel,
    (∀ f, f ∈ fields → FieldR frags rank (d + 1) f) →
    Sel.mL frags rank (subSelections fields) ≤ d ∧ Sel.weightL (subSelections fields) ≤ Sel.weightL fields := by
  intro fields
  induction fields with
  | nil => intro _; simp [subSelections, Sel.mL, Sel.weightL]
  | cons f rest ih =>
    intro h
    obtain ⟨i1, i2⟩ := ih (fun x hx => h x (by simp [hx]))
    obtain ⟨hf, hm⟩ := h f (by simp)
    cases f with
    | spread n dd => simp [Sel.isField] at hf
    | inline c dd sub => simp [Sel.isField] at hf
    | field a nm args dd sub =>
      have hs := mL_sub_field frags rank a nm args dd sub
      simp only [subSelections, Sel.fsub]
      refine ⟨?_, ?_⟩
      · rw [mL_append]; omega
      · rw [weightL_append]
        simp only [Sel.weightL, Sel.weight]
        omega

theorem psi_le_wtot (frags : AList Frag) (rank : String → Nat) (r : Nat) :
    psi frags rank r ≤ potAll Sel.weightL frags := pot_le_all _ _ _ _

/-- `complete_value` with fragment spreads: no out-of-fuel when the fuel exceeds (levels) × (T + 1) + (type depth),
    `levels` bounding the expanded nesting of the fields, and the `collect_fields` fuel exceeds the weight of the
    fields plus one total fragment weight per remaining level. -/
theorem completeValue_nofuelR (env : Env) (rank : String → Nat) (hac : Acyclic env.frags rank) (T B : Nat)
    (hT : TypeDepthBound env.schema T) (hB : B < env.cfuel) :
    ∀ n d path ty rv fields st, (∀ f, f ∈ fields → FieldR env.frags rank d f) →
      Sel.weightL fields + d * potAll Sel.weightL env.frags ≤ B →
      d * (T + 1) + ty.depth < n → (completeValue env n path ty rv fields st).1 ≠ .error .fuel := by
  intro n
  induction n with
  | zero => intro d path ty rv fields st _ _ h; omega
  | succ n ih =>
    intro d path ty rv fields st hf hw hlt
    cases rv with
    | skip => simp [completeValue]
    | error => simp [completeValue]
    | echo => simp [completeValue]
    | leaf j =>
      cases j <;> simp only [completeValue] <;> (repeat' split) <;> simp_all [completeLeaf] <;> (repeat' split) <;> simp_all
    | list items =>
      simp only [completeValue, completeList]
      split
      · simp
      · next inner hsh =>
        have hd := shape_list_depth' hsh
        exact completeItems_nofuel _ path ty inner fields
          (fun p rv st => ih d p inner rv fields st hf hw (by omega)) items 0 [] st
    | object resolvedTy id =>
      simp only [completeValue]
      split
      · simp
      · next tyName _ =>
        split
        · simp
        · simp
        · next k _ _ =>
            split
            · cases d with
              | zero =>
                have hnil : fields = [] := by
                  cases fields with
                  | nil => rfl
                  | cons f tl =>
                    obtain ⟨h1, h3⟩ := hf f (by simp)
                    cases f <;> simp [Sel.isField, Sel.m] at h1 h3
                subst hnil
                have hc : ∃ v g, collectFields env resolvedTy env.cfuel (subSelections []) [] [] = some (v, g) ∧ g = [] := by
                  cases hcf : env.cfuel with
                  | zero => omega
                  | succ m => exact ⟨[], [], by simp [subSelections, collectFields], rfl⟩
                obtain ⟨v, g, e, rfl⟩ := hc
                simp [execSelSet, e, execGroups]
              | succ d' =>
                obtain ⟨s1, s3⟩ := subSelections_R env.frags rank d' fields hf
                have hW := psi_le_wtot env.frags rank (Sel.sbL rank (subSelections fields))
                have hmul : (d' + 1) * potAll Sel.weightL env.frags = d' * potAll Sel.weightL env.frags + potAll Sel.weightL env.frags :=
                  Nat.succ_mul _ _
                rw [hmul] at hw
                obtain ⟨v, g, e, gok, gw⟩ := collect_okR env rank hac resolvedTy d' env.cfuel (subSelections fields) [] []
                  (by omega) s1 (by intro kv h; simp at h)
                rw [wleft_nil] at gw
                have hgr := execGroups_nofuel (completeValue env n) env path resolvedTy id g [] st (by
                  intro kv hkv fdef p rv st'
                  by_cases htf : ∃ f0 tl, kv.2 = f0 :: tl ∧ env.schema.typeField? resolvedTy f0.fname = some fdef
                  · obtain ⟨f0, tl, _, htf⟩ := htf
                    left
                    refine ih d' p fdef.ty rv kv.2 st' (gok kv hkv) ?_ ?_
                    · have := group_weight_le g kv hkv
                      simp only [groupsWeight] at gw
                      omega
                    · have := hT resolvedTy f0.fname fdef htf
                      have hmul2 : (d' + 1) * (T + 1) = d' * (T + 1) + (T + 1) := Nat.succ_mul d' (T + 1)
                      rw [hmul2] at hlt
                      generalize d' * (T + 1) = A at *
                      omega
                  · right
                    intro f0 tl hkv2 h
                    exact htf ⟨f0, tl, hkv2, h⟩)
                simp only [execSelSet, e]
                generalize execGroups (completeValue env n) env path resolvedTy id g [] st = res at *
                obtain ⟨r, st1⟩ := res
                cases r with
                | ok m => simp
                | error e' =>
                  simp only
                  intro h
                  cases h
                  exact hgr rfl
            · simp

/-- the explicit bounds -/
def levelsBound (frags : AList Frag) (rank : String → Nat) (sels : List Sel) : Nat := Sel.mL frags rank sels
def cfuelBound (frags : AList Frag) (rank : String → Nat) (sels : List Sel) : Nat :=
  Sel.weightL sels + (levelsBound frags rank sels + 2) * potAll Sel.weightL frags + 1
def fuelBound (s : Schema) (frags : AList Frag) (rank : String → Nat) (sels : List Sel) : Nat :=
  (levelsBound frags rank sels + 1) * (maxObjDepth s.objects + 1) + 1

/-- **Fuel sufficiency with fragment spreads.**  For an acyclic fragment table, any `collect_fields` fuel of at
    least `cfuelBound` and any `complete_value` fuel of at least `fuelBound` make out-of-fuel impossible —
    whatever the schema, the variables and the world (cyclic object graphs, lists of any length, values of the
    wrong shape). -/
theorem execute_fuel_sufficientR (env : Env) (rank : String → Nat) (hac : Acyclic env.frags rank) (sels : List Sel)
    (fuel : Nat) (hc : cfuelBound env.frags rank sels ≤ env.cfuel)
    (hfuel : fuelBound env.schema env.frags rank sels ≤ fuel) :
    execute fuel env sels ≠ .outOfFuel := by
  have hT := typeDepthBound_schema env.schema
  unfold cfuelBound levelsBound at hc
  unfold fuelBound levelsBound at hfuel
  have hW := psi_le_wtot env.frags rank (Sel.sbL rank sels)
  have hmulc : (Sel.mL env.frags rank sels + 2) * potAll Sel.weightL env.frags =
      (Sel.mL env.frags rank sels + 1) * potAll Sel.weightL env.frags + potAll Sel.weightL env.frags := Nat.succ_mul _ _
  have hmulc2 : (Sel.mL env.frags rank sels + 1) * potAll Sel.weightL env.frags =
      Sel.mL env.frags rank sels * potAll Sel.weightL env.frags + potAll Sel.weightL env.frags := Nat.succ_mul _ _
  obtain ⟨v, g, e, gok, gw⟩ := collect_okR env rank hac env.schema.query (Sel.mL env.frags rank sels) env.cfuel sels [] []
    (by omega) (Nat.le_refl _) (by intro kv h; simp at h)
  rw [wleft_nil] at gw
  have hgr := execGroups_nofuel (completeValue env fuel) env [] env.schema.query 0 g [] { errors := [] } (by
    intro kv hkv fdef p rv st'
    by_cases htf : ∃ f0 tl, kv.2 = f0 :: tl ∧ env.schema.typeField? env.schema.query f0.fname = some fdef
    · obtain ⟨f0, tl, _, htf⟩ := htf
      left
      refine completeValue_nofuelR env rank hac _
        (Sel.weightL sels + (Sel.mL env.frags rank sels + 1) * potAll Sel.weightL env.frags) hT (by omega)
        fuel (Sel.mL env.frags rank sels) p fdef.ty rv kv.2 st' (gok kv hkv) ?_ ?_
      · have := group_weight_le g kv hkv
        simp only [groupsWeight] at gw
        omega
      · have := hT env.schema.query f0.fname fdef htf
        have hmul : (Sel.mL env.frags rank sels + 1) * (maxObjDepth env.schema.objects + 1) =
            Sel.mL env.frags rank sels * (maxObjDepth env.schema.objects + 1) + (maxObjDepth env.schema.objects + 1) := Nat.succ_mul _ _
        rw [hmul] at hfuel
        generalize Sel.mL env.frags rank sels * (maxObjDepth env.schema.objects + 1) = A at *
        omega
    · right
      intro f0 tl hkv2 h
      exact htf ⟨f0, tl, hkv2, h⟩)
  unfold execute
  simp only [execSelSet, e]
  generalize execGroups (completeValue env fuel) env [] env.schema.query 0 g [] { errors := [] } = res at *
  obtain ⟨r, st1⟩ := res
  cases r with
  | ok m => simp
  | error e' =>
    cases e' with
    | propagate => simp
    | fuel => exact absurd rfl hgr

end Apollo.Exec
