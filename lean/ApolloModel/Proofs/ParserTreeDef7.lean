import ApolloModel.Proofs.ParserTreeDef6
/-
C08 growth (pipeline), stage (v), part 7: the parser side of the named type-system definitions (scalar, enum, input
object, union, object, interface): every error-free run consumed the tokens of ONE loose definition `l` and appended
ONE element, a `NamedDefTree l`; the well-formedness facts are exported.
-/
set_option linter.unusedSimpArgs false
set_option linter.unusedVariables false
namespace Apollo.Parse
open Apollo.Rowan hiding Str
open Apollo.Lex hiding Str
open Apollo.FromCst (TyTree DescPre OptDirs All2 NamedTy NamesNode OptNames ItemsNode OptItems FieldTree EvTree IvdTree Hd AllToks
  NamedDefTree ScalarLike ObjLike UnionLike EnumLike InputLike)

theorem tr_nameOrErr {E : PState → Prop} {H : List Tok → Prop} :
    Tr E H nameOrErr (fun _ cs e => ∃ t : Tok, t.kind = .name ∧ isValidName t.data = true ∧ cs = [t] ∧ e = [nameNode t.data]) := by
  unfold nameOrErr
  exact tr_peekIf _ _ _ _ tr_name tr_err

/-- the optional keyword of a definition: `if peek_data == word { bump }` -/
def KwPartT (word : String) (sk : SK) (seen : Bool) (cs : List Tok) (e : List Elem) : Prop :=
  if seen then ∃ t : Tok, t.data = word.toList ∧ t.kind = .name ∧ cs = [t] ∧ e = [Elem.tok sk t.data] else cs = [] ∧ e = []

theorem tr_optKw {α : Type} {E : PState → Prop} (hE : Early E) {H : List Tok → Prop} (word : String) (hw : KwWord word) (sk : SK)
    (hk : isJunkKind sk = false) (rest : PI α) (R : α → List Tok → List Elem → Prop) (hr : Tr E (fun _ => True) rest R) :
    Tr E H (optKw word sk rest)
      (fun a cs e => ∃ (seen : Bool) (c1 c2 : List Tok) (e1 e2 : List Elem), cs = c1 ++ c2 ∧ e = e1 ++ e2 ∧
        KwPartT word sk seen c1 e1 ∧ R a c2 e2) := by
  unfold optKw
  apply tr_peekData
  intro o
  refine tr_ite _ (fun hkw => ?_) (fun _ => ?_)
  · have hb : Tr E (fun q => H q ∧ q.head? = o) (bump sk) _ := (tr_bumpKw (E := E) word hw sk hk).mono (by
      rintro q ⟨_, hq⟩
      cases o with
      | none => simp [kwOpt] at hkw
      | some t => exact ⟨t, hq, by simpa [kwOpt] using hkw⟩) (fun _ _ _ h => h)
    refine (tr_bind hE hb (fun _ => hr)).mono (fun _ h => h) ?_
    rintro a cs e ⟨_, c1, c2, e1, e2, rfl, rfl, h1, h2⟩
    exact ⟨true, c1, c2, e1, e2, rfl, rfl, by simpa [KwPartT] using h1, h2⟩
  · refine hr.mono (fun _ _ => trivial) ?_
    intro a cs e h
    exact ⟨false, [], cs, [], e, rfl, rfl, by simp [KwPartT], h⟩

theorem kwPartT_toks {word : String} {sk : SK} {seen : Bool} {cs : List Tok} {e : List Elem} (h : KwPartT word sk seen cs e) :
    TokIs cs (kwPart word seen) ∧ AllToks e := by
  cases seen with
  | false =>
    obtain ⟨rfl, rfl⟩ : cs = [] ∧ e = [] := by simpa [KwPartT] using h
    exact ⟨TokIs.nil, FromCst.allToks_nil⟩
  | true =>
    obtain ⟨t, hd, hk, rfl, rfl⟩ : ∃ t : Tok, t.data = word.toList ∧ t.kind = .name ∧ cs = [t] ∧ e = [Elem.tok sk t.data] := by
      simpa [KwPartT] using h
    refine ⟨TokIs.single t _ ?_, FromCst.allToks_cons _ _ FromCst.allToks_nil⟩
    rw [show astOfV t = some (.name t.data) from by simp [astOfV, hk], hd]

/-- weaken the entry condition, using that the queue comes from the lexer -/
theorem Tr.monoL {α : Type} {E : PState → Prop} {H H' : List Tok → Prop} {m : PI α} {R : α → List Tok → List Elem → Prop}
    (h : Tr E H' m R) (hH : ∀ q, LexQ q → H q → H' q) : Tr E H m R :=
  ⟨h.1, fun s a s' w hi he hlq hq hr hnd => h.2 s a s' w hi he hlq (hH _ hlq.1 hq) hr hnd⟩

/-- `bind` with a custom fact about the queue after the first part -/
theorem tr_bind_transfer {α β : Type} {E : PState → Prop} (hE : Early E) {H H2 : List Tok → Prop} {m : PI α} {f : α → PI β}
    {R1 : α → List Tok → List Elem → Prop} {R2 : α → β → List Tok → List Elem → Prop}
    (h1 : Tr E H m R1)
    (htr : ∀ s a s', TW s → LexQ (Toks s) → H (Toks s) → m.run s = .ok a s' → H2 (Toks s'))
    (h2 : ∀ a, Tr E H2 (f a) (R2 a)) :
    Tr E H (m >>= f) (fun b cs e => ∃ a c1 c2 e1 e2, cs = c1 ++ c2 ∧ e = e1 ++ e2 ∧ R1 a c1 e1 ∧ R2 a b c2 e2) := by
  refine ⟨good_bind _ _ h1.1 (fun a => (h2 a).1), ?_⟩
  intro s b s'' w hi he hlq hq hr hnd
  obtain ⟨a, s', hr1, hr2⟩ := bind_dec m f s s'' b hr
  have ad := h1.1 s a s' w hr1
  have hi' := (run_inv_added m s hi a s' hr1).1
  have hnd' : ¬ Doomed s' := fun d => hnd (((h2 a).1 s' b s'' ad.w hr2).doom d)
  obtain ⟨c1, d1, t1, n1, e1, b1, r1⟩ := h1.2 s a s' w hi he hlq hq hr1 hnd'
  obtain ⟨c2, d2, t2, n2, e2, b2, r2⟩ := (h2 a).2 s' b s'' ad.w hi' e1 (LQ.suffix (cs := c1) (by rw [← t1]; exact hlq))
    (htr s a s' w hlq.1 hq hr1) hr2 hnd
  refine ⟨c1 ++ c2, d1 ++ d2, by rw [t1, t2, List.append_assoc], noEof_append n1 n2, e2,
    by rw [b2, b1, List.append_assoc], ?_⟩
  rcases r1 with r1 | ev
  · rcases r2 with r2 | ev2
    · exact Or.inl ⟨a, sig c1, sig c2, sigE d1, sigE d2, sig_append _ _, sigE_append _ _, r1, r2⟩
    · exact Or.inr ev2
  · exact Or.inr (hE.carries s' s'' c2 e1 hnd' ev t2 n2)

/-- the keyword is there: it is consumed -/
theorem tr_optKw_there {α : Type} {E : PState → Prop} (hE : Early E) (word : String) (hw : KwWord word) (sk : SK)
    (hk : isJunkKind sk = false) (rest : PI α) (R : α → List Tok → List Elem → Prop) (hr : Tr E (fun _ => True) rest R) :
    Tr E (HeadData word) (optKw word sk rest)
      (fun a cs e => ∃ (c1 c2 : List Tok) (e1 e2 : List Elem), cs = c1 ++ c2 ∧ e = e1 ++ e2 ∧
        KwPartT word sk true c1 e1 ∧ R a c2 e2) := by
  unfold optKw
  apply tr_peekData
  intro o
  refine tr_ite _ (fun hkw => ?_) (fun hkw => ?_)
  · have hb : Tr E (fun q => HeadData word q ∧ q.head? = o) (bump sk) _ :=
      (tr_bumpKw (E := E) word hw sk hk).mono (fun q hq => hq.1) (fun _ _ _ h => h)
    refine (tr_bind hE hb (fun _ => hr)).mono (fun _ h => h) ?_
    rintro a cs e ⟨_, c1, c2, e1, e2, rfl, rfl, h1, h2⟩
    exact ⟨c1, c2, e1, e2, rfl, rfl, by simpa [KwPartT] using h1, h2⟩
  · refine tr_absurd hr.1 ?_
    rintro q ⟨⟨t, hh, hd⟩, h2⟩
    rw [hh] at h2
    subst h2
    simp [kwOpt, hd] at hkw

/-- the way the dispatcher enters a definition makes its first token significant -/
theorem defStart_sig {word : String} (hw : KwWord word) :
    ∀ q, LexQ q → DefStart word q → ∃ t rest, q = t :: rest ∧ isIgnoredKind t.kind = false := by
  intro q hl hs
  rcases hs with hs | ⟨t, rest, t2, hq, hk, _, _⟩
  · exact kwWord_sig hw q ⟨hl, hs⟩
  · exact ⟨t, rest, hq, by rw [hk]; rfl⟩

/-- `Description? keyword rest`, entered the way the dispatcher enters a definition: the keyword IS consumed -/
theorem tr_descKwEntered {α : Type} {E : PState → Prop} (hE : Early E) (word : String) (hw : KwWord word) (sk : SK)
    (hk : isJunkKind sk = false) (rest : PI α) (R : α → List Tok → List Elem → Prop) (hr : Tr E (fun _ => True) rest R) :
    Tr E (DefStart word) (optKind .stringValue description (optKw word sk rest))
      (fun a cs e => ∃ (d : Option Ast.Str) (c1 c2 : List Tok) (pre e2 : List Elem), cs = c1 ++ c2 ∧ e = pre ++ e2 ∧
        TokIs c1 (Ast.tDescription d) ∧ DescPre d pre ∧
        ∃ (c3 c4 : List Tok) (e3 e4 : List Elem), c2 = c3 ++ c4 ∧ e2 = e3 ++ e4 ∧ KwPartT word sk true c3 e3 ∧ R a c4 e4) := by
  have hkw := tr_optKw_there hE word hw sk hk rest R hr
  have hname : ∀ q t, LexQ q → q.head? = some t → t.data = word.toList → t.kind = .name := by
    intro q t hl hh hd
    obtain ⟨c, r, hc1, hc2⟩ := hw
    exact hl.headKw hh word c r hc1 hc2 hd
  unfold optKind
  apply tr_peek
  intro k
  refine tr_ite _ (fun hkk => ?_) (fun hkk => ?_)
  · have hk' : k = some Kind.stringValue := by simpa using hkk
    have hd : Tr E (fun q => DefStart word q ∧ q.head?.map (·.kind) = k) description _ :=
      (tr_description hE).mono (fun q hq => kindP_of_head hq.2 hkk) (fun _ _ _ h => h)
    refine (tr_bind_transfer hE (H2 := HeadData word) hd ?_ (fun _ => hkw)).mono (fun _ h => h) ?_
    · rintro s _ s1 w hl ⟨hs, hkind⟩ hrun
      rcases hs with ⟨t, hh, hd'⟩ | ⟨t, rest0, t2, hq, hkt, hh2, hd2⟩
      · exfalso
        have := hname _ t hl hh hd'
        rw [hh, hk'] at hkind
        simp [this] at hkind
      · obtain ⟨ign, e1, hall, set1⟩ := description_spec s s1 w t rest0 hq (by rw [hkt]; rfl) hrun
        have hrest : rest0 = ign ++ Toks s1 := by
          have := e1.toks; rw [hq] at this; simpa using this
        refine ⟨t2, ?_, hd2⟩
        rw [hrest, sig_append, sig_ignored ign hall] at hh2
        simp only [List.nil_append] at hh2
        cases hq1 : Toks s1 with
        | nil => rw [hq1] at hh2; cases hh2
        | cons a b =>
          have hsa : isIgnoredKind a.kind = false := set1.2 a (by rw [set1.1, hq1]; rfl)
          have hab : a :: b = [a] ++ b := rfl
          rw [hq1, hab, sig_append, sig_single a hsa] at hh2
          simpa using hh2
    · rintro a cs e ⟨_, c1, c2, e1, e2, rfl, rfl, ⟨t, sv, hkt, hsv, rfl, hpre⟩, h2⟩
      exact ⟨some sv, [t], c2, e1, e2, rfl, rfl, TokIs.single t _ (by simp [astOfV, hkt, hsv]), hpre, h2⟩
  · refine (hkw.monoL ?_).mono (fun _ h => h)
      (fun a cs e h => ⟨none, [], cs, [], e, rfl, rfl, TokIs.nil, Or.inl ⟨rfl, rfl⟩, h⟩)
    rintro q hl ⟨hs, hkind⟩
    rcases hs with hs | ⟨t, rest0, t2, hq, hkt, _, _⟩
    · exact hs
    · exfalso
      rw [hq] at hkind
      simp only [List.head?_cons, Option.map_some] at hkind
      rw [← hkind, hkt] at hkk
      simp at hkk

/-- the shape `Description? keyword Name tail`, entered the way the dispatcher enters it -/
theorem tr_defShape {E : PState → Prop} (hE : Early E) (word : String) (hw : KwWord word) (sk : SK)
    (hk : isJunkKind sk = false) (n : Nat) (tail : PI Unit) (Rt : List Tok → List Elem → Prop)
    (ht : Tr E (fun _ => True) tail (fun _ => Rt)) :
    Tr E (DefStart word) (defShape word sk n tail)
      (fun _ cs e => ∃ (desc : Option Ast.Str) (tn : Tok) (hd : List Elem) (c1 c2 : List Tok) (e2 : List Elem),
        cs = c1 ++ c2 ∧ e = hd ++ nameNode tn.data :: e2 ∧
        TokIs c1 (Ast.tDescription desc ++ kwPart word true ++ [.name tn.data]) ∧ isValidName tn.data = true ∧ Hd desc hd ∧
        Rt c2 e2) := by
  unfold defShape
  have h1 := tr_bind hE (tr_nameOrErr (E := E) (H := fun _ => True)) (fun _ => ht)
  refine (tr_descKwEntered hE word hw sk hk _ _ h1).mono (fun _ h => h) ?_
  rintro _ cs e ⟨desc, c1, c2, pre, e2, rfl, rfl, hd1, hd2, c3, c4, e3, e4, rfl, rfl, hkw, _, c5, c6, e5, e6, rfl, rfl,
    ⟨tn, hkn, hvn, rfl, rfl⟩, hrt⟩
  obtain ⟨hk1, hk2⟩ := kwPartT_toks hkw
  refine ⟨desc, tn, pre ++ e3, c1 ++ (c3 ++ [tn]), c6, e6, by simp, by simp, ?_, hvn, ⟨pre, e3, rfl, hd2, hk2⟩, hrt⟩
  have := hd1.append (hk1.append (TokIs.single tn (.name tn.data) (by simp [astOfV, hkn])))
  simpa [List.append_assoc] using this

theorem tr_optBodyK {E : PState → Prop} {H : List Tok → Prop} (k0 : Kind) (body : PI Unit) (L : List Tok → List Elem → Prop)
    (hb : Tr E (KindP (· == k0)) body (fun _ => L)) :
    Tr E H (optBodyK k0 body) (fun _ cs e => L cs e ∨ (cs = [] ∧ e = [])) := by
  unfold optBodyK
  refine tr_ifKind k0 _ _ _ (hb.mono (fun _ h => h) (fun _ _ _ h => Or.inl h)) ?_
  exact (tr_pure E _ ()).mono (fun _ _ => trivial) (fun _ _ _ h => Or.inr h.2)

/-- `Directives? Body?` -/
theorem tr_dirsBody (n : Nat) (k0 : Kind) (body : PI Unit) (L : List Tok → List Elem → Prop)
    (hb : Tr NoE (KindP (· == k0)) body (fun _ => L)) {H : List Tok → Prop} :
    Tr NoE H (dirsBody n k0 body)
      (fun _ cs e => ∃ (ds : List Ast.Directive) (c1 c2 : List Tok) (td e2 : List Elem), cs = c1 ++ c2 ∧ e = td ++ e2 ∧
        TokIs c1 (Ast.tDirectives ds) ∧ dirsOk true ds ∧ OptDirs ds td ∧ (L c2 e2 ∨ (c2 = [] ∧ e2 = []))) := by
  unfold dirsBody
  exact tr_optDirectives n true _ (tr_optBodyK (E := NoE) (H := fun _ => True) k0 body L hb)

/-! ### scalar -/

theorem tr_scalarTypeDefinition (n : Nat) :
    Tr NoE (DefStart "scalar") (scalarTypeDefinition n)
      (fun _ cs e => ∃ (desc : Option Ast.Str) (nm : Ast.Str) (ds : List Ast.Directive) (ed : Elem),
        TokIs cs (scalarToks desc true nm ds) ∧ Ast.wfDirs ds = true ∧ e = [ed] ∧ NamedDefTree (.scalar desc nm ds) ed) := by
  rw [scalarTypeDefinition_eq]
  refine (tr_withNodeL early_false "SCALAR_TYPE_DEFINITION" (defStart_sig kwWord_scalar)
    (tr_defShape early_false "scalar" kwWord_scalar "scalar_KW" (by decide) n _ _ (tr_optDirsEnd (E := NoE) (H := fun _ => True) n))).mono
    (fun _ h => h) ?_
  rintro _ cs e ⟨inner, rfl, desc, tn, hd, c1, c2, e2, rfl, hin, h1, hv, hhd, ds, hd1, hd2, hd3⟩
  refine ⟨desc, tn.data, ds, _, ?_, wfDirs_of_dirsOk true ds hd2, rfl, inner, hd, e2, rfl, hv, hhd, hd3, hin⟩
  have := h1.append hd1
  simpa [scalarToks, List.append_assoc] using this

/-! ### enum, input object -/

theorem tBraced_ne {α : Type} (items : List Ast.Tok) : Ast.tBraced items false = .p .lCurly :: items ++ [.p .rCurly] := by
  simp [Ast.tBraced]

theorem tr_enumTypeDefinition (n : Nat) :
    Tr NoE (DefStart "enum") (enumTypeDefinition n)
      (fun _ cs e => ∃ (desc : Option Ast.Str) (nm : Ast.Str) (ds : List Ast.Directive) (vs : List Ast.EnumValueDef)
        (ed : Elem), TokIs cs (enumToks desc true nm ds vs) ∧ Ast.wfDirs ds = true ∧ Ast.wfEnumValueDefs vs = true ∧
        (∀ v ∈ vs, isValueKeyword v.value = false) ∧ e = [ed] ∧ NamedDefTree (.enum desc nm ds vs) ed) := by
  rw [enumTypeDefinition_eq']
  refine (tr_withNodeL early_false "ENUM_TYPE_DEFINITION" (defStart_sig kwWord_enum)
    (tr_defShape early_false "enum" kwWord_enum "enum_KW" (by decide) n _ _
      (tr_dirsBody n .lCurly _ _ (tr_enumValuesDefinition n) (H := fun _ => True)))).mono (fun _ h => h) ?_
  rintro _ cs e ⟨inner, rfl, desc, tn, hd, c1, c2, e2, rfl, hin, h1, hv, hhd, ds, c3, c4, td, e4, rfl, rfl, hd1, hd2, hd3, hb⟩
  rcases hb with ⟨vs, ea, hne, hv1, hv2, hv3, rfl, hv5⟩ | ⟨rfl, rfl⟩
  · refine ⟨desc, tn.data, ds, vs, _, ?_, wfDirs_of_dirsOk true ds hd2, hv2, hv3, rfl, inner, hd, td, [ea], rfl, hv, hhd, hd3,
      Or.inr ⟨ea, rfl, hv5⟩, hin⟩
    have hemp : vs.isEmpty = false := by cases vs with | nil => exact absurd rfl hne | cons _ _ => rfl
    have := h1.append (hd1.append hv1)
    simpa [enumToks, Ast.tEnumBody, Ast.tBraced, hemp, List.append_assoc] using this
  · refine ⟨desc, tn.data, ds, [], _, ?_, wfDirs_of_dirsOk true ds hd2, rfl, (by intro v hv; cases hv), rfl, inner, hd, td, [], rfl,
      hv, hhd, hd3, Or.inl ⟨rfl, rfl⟩, hin⟩
    have := h1.append hd1
    simpa [enumToks, Ast.tEnumBody, Ast.tBraced, Ast.tEnumValueDefItems, List.append_assoc] using this

theorem ivdsR_items {cs : List Tok} {e : List Elem}
    (h : IvdsR "INPUT_FIELDS_DEFINITION" "L_CURLY" "R_CURLY" (.p .lCurly) (.p .rCurly) cs e) :
    ∃ (vs : List Ast.InputValueDef) (ea : Elem), vs ≠ [] ∧ TokIs cs (.p .lCurly :: Ast.tIVDItems vs ++ [.p .rCurly]) ∧
      Ast.wfIVDs vs = true ∧ e = [ea] ∧ ItemsNode "INPUT_FIELDS_DEFINITION" "L_CURLY" "R_CURLY" IvdTree vs ea := h

theorem tr_inputObjectTypeDefinition (n : Nat) :
    Tr NoE (DefStart "input") (inputObjectTypeDefinition n)
      (fun _ cs e => ∃ (desc : Option Ast.Str) (nm : Ast.Str) (ds : List Ast.Directive) (fs : List Ast.InputValueDef)
        (ed : Elem), TokIs cs (inputToks desc true nm ds fs) ∧ Ast.wfDirs ds = true ∧ Ast.wfIVDs fs = true ∧ e = [ed] ∧
        NamedDefTree (.input desc nm ds fs) ed) := by
  rw [inputObjectTypeDefinition_eq']
  refine (tr_withNodeL early_false "INPUT_OBJECT_TYPE_DEFINITION" (defStart_sig kwWord_input)
    (tr_defShape early_false "input" kwWord_input "input_KW" (by decide) n _ _
      (tr_dirsBody n .lCurly _ _ (tr_inputFieldsDefinition n) (H := fun _ => True)))).mono (fun _ h => h) ?_
  rintro _ cs e ⟨inner, rfl, desc, tn, hd, c1, c2, e2, rfl, hin, h1, hv, hhd, ds, c3, c4, td, e4, rfl, rfl, hd1, hd2, hd3, hb⟩
  rcases hb with hb | ⟨rfl, rfl⟩
  · obtain ⟨vs, ea, hne, hv1, hv2, rfl, hv5⟩ := ivdsR_items hb
    refine ⟨desc, tn.data, ds, vs, _, ?_, wfDirs_of_dirsOk true ds hd2, hv2, rfl, inner, hd, td, [ea], rfl, hv, hhd, hd3,
      Or.inr ⟨ea, rfl, hv5⟩, hin⟩
    have hemp : vs.isEmpty = false := by cases vs with | nil => exact absurd rfl hne | cons _ _ => rfl
    have := h1.append (hd1.append hv1)
    simpa [inputToks, Ast.tInputBody, Ast.tBraced, hemp, List.append_assoc] using this
  · refine ⟨desc, tn.data, ds, [], _, ?_, wfDirs_of_dirsOk true ds hd2, rfl, rfl, inner, hd, td, [], rfl,
      hv, hhd, hd3, Or.inl ⟨rfl, rfl⟩, hin⟩
    have := h1.append hd1
    simpa [inputToks, Ast.tInputBody, Ast.tBraced, Ast.tIVDItems, List.append_assoc] using this

/-! ### union -/

theorem tr_unionTypeDefinition (n : Nat) :
    Tr NoE (DefStart "union") (unionTypeDefinition n)
      (fun _ cs e => ∃ (desc : Option Ast.Str) (nm : Ast.Str) (ds : List Ast.Directive) (ms : SepC) (ed : Elem),
        TokIs cs (unionToks desc true nm ds ms) ∧ Ast.wfDirs ds = true ∧ e = [ed] ∧ NamedDefTree (.union desc nm ds ms) ed) := by
  rw [unionTypeDefinition_eq]
  refine (tr_withNodeL early_false "UNION_TYPE_DEFINITION" (defStart_sig kwWord_union)
    (tr_defShape early_false "union" kwWord_union "union_KW" (by decide) n _ _
      (tr_dirsBody n .eq _ _ (tr_unionMemberTypes early_false) (H := fun _ => True)))).mono (fun _ h => h) ?_
  rintro _ cs e ⟨inner, rfl, desc, tn, hd, c1, c2, e2, rfl, hin, h1, hv, hhd, ds, c3, c4, td, e4, rfl, rfl, hd1, hd2, hd3, hb⟩
  rcases hb with ⟨lead, first, rest, en, hm1, rfl, hm3⟩ | ⟨rfl, rfl⟩
  · refine ⟨desc, tn.data, ds, some (lead, first, rest), _, ?_, wfDirs_of_dirsOk true ds hd2, rfl, inner, hd, td, [en], rfl,
      hv, hhd, hd3, Or.inr ⟨en, rfl, hm3⟩, hin⟩
    have := h1.append (hd1.append hm1)
    simpa [unionToks, tSepOpt, List.append_assoc] using this
  · refine ⟨desc, tn.data, ds, none, _, ?_, wfDirs_of_dirsOk true ds hd2, rfl, inner, hd, td, [], rfl,
      hv, hhd, hd3, Or.inl ⟨rfl, rfl⟩, hin⟩
    have := h1.append hd1
    simpa [unionToks, tSepOpt, List.append_assoc] using this

end Apollo.Parse

namespace Apollo.Parse
open Apollo.Rowan hiding Str
open Apollo.Lex hiding Str
open Apollo.FromCst (TyTree DescPre OptDirs All2 NamedTy NamesNode OptNames ItemsNode OptItems FieldTree EvTree IvdTree Hd AllToks
  NamedDefTree ScalarLike ObjLike UnionLike EnumLike InputLike)

/-! ### object, interface -/

/-- the optional `implements …` clause, then `rest` -/
def ImplR (R : List Tok → List Elem → Prop) (cs : List Tok) (e : List Elem) : Prop :=
  ∃ (impl : SepC) (c1 c2 : List Tok) (ti e2 : List Elem), cs = c1 ++ c2 ∧ e = ti ++ e2 ∧
    TokIs c1 (tSepOpt [.name Ast.sImplements] .amp impl) ∧ OptNames "IMPLEMENTS_INTERFACES" (sepNames impl) ti ∧ R c2 e2

theorem implR_some {R : List Tok → List Elem → Prop} {cs : List Tok} {e : List Elem}
    (h : ∃ c1 c2 e1 e2, cs = c1 ++ c2 ∧ e = e1 ++ e2 ∧ NamesR "IMPLEMENTS_INTERFACES" [.name Ast.sImplements] .amp c1 e1 ∧ R c2 e2) :
    ImplR R cs e := by
  obtain ⟨c1, c2, e1, e2, rfl, rfl, ⟨lead, first, rest, en, h1, rfl, h3⟩, h4⟩ := h
  exact ⟨some (lead, first, rest), c1, c2, [en], e2, rfl, rfl, by simpa [tSepOpt] using h1, Or.inr ⟨en, rfl, h3⟩, h4⟩

theorem implR_none {R : List Tok → List Elem → Prop} {cs : List Tok} {e : List Elem} (h : R cs e) : ImplR R cs e :=
  ⟨none, [], cs, [], e, rfl, rfl, TokIs.nil, Or.inl ⟨rfl, rfl⟩, h⟩

theorem tr_optImplTok (rest : PI Unit) (R : List Tok → List Elem → Prop) (hr : Tr NoE (fun _ => True) rest (fun _ => R))
    {H : List Tok → Prop} : Tr NoE H (optImplTok rest) (fun _ => ImplR R) := by
  unfold optImplTok
  apply tr_peekToken
  intro o
  cases o with
  | none => exact hr.mono (fun _ _ => trivial) (fun _ _ _ h => implR_none h)
  | some t =>
    simp only []
    refine tr_ite _ (fun hk => ?_) (fun _ => hr.mono (fun _ _ => trivial) (fun _ _ _ h => implR_none h))
    have hd : t.data = "implements".toList := by
      have : kw "implements" t.data = true := by
        cases h1 : (t.kind == Kind.name) <;> simp [h1] at hk ⊢; exact hk
      simpa [kw] using this
    have hb : Tr NoE (fun q => H q ∧ q.head? = some t) implementsInterfaces _ :=
      (tr_implementsInterfaces early_false).mono (fun q hq => ⟨t, hq.2, hd⟩) (fun _ _ _ h => h)
    refine (tr_bind early_false hb (fun _ => hr)).mono (fun _ h => h) ?_
    rintro _ cs e ⟨_, c1, c2, e1, e2, h1, h2, h3, h4⟩
    exact implR_some ⟨c1, c2, e1, e2, h1, h2, h3, h4⟩

theorem tr_optImplData (restT restF : PI Unit) (R : List Tok → List Elem → Prop) (hT : Tr NoE (fun _ => True) restT (fun _ => R))
    (hF : Tr NoE (fun _ => True) restF (fun _ => R)) {H : List Tok → Prop} :
    Tr NoE H (optData2 "implements" implementsInterfaces restT restF) (fun _ => ImplR R) := by
  unfold optData2
  apply tr_peekData
  intro o
  refine tr_ite _ (fun hk => ?_) (fun _ => hF.mono (fun _ _ => trivial) (fun _ _ _ h => implR_none h))
  have hb : Tr NoE (fun q => H q ∧ q.head? = o) implementsInterfaces _ :=
    (tr_implementsInterfaces early_false).mono (by
      rintro q ⟨_, hq⟩
      cases o with
      | none => simp [kwOpt] at hk
      | some t => exact ⟨t, hq, by simpa [kwOpt] using hk⟩) (fun _ _ _ h => h)
  refine (tr_bind early_false hb (fun _ => hT)).mono (fun _ h => h) ?_
  rintro _ cs e ⟨_, c1, c2, e1, e2, h1, h2, h3, h4⟩
  exact implR_some ⟨c1, c2, e1, e2, h1, h2, h3, h4⟩

/-- `Directives? FieldsDefinition?` -/
def FieldsTailR (cs : List Tok) (e : List Elem) : Prop :=
  ∃ (ds : List Ast.Directive) (fs : List Ast.FieldDef) (td tf : List Elem),
    TokIs cs (Ast.tDirectives ds ++ Ast.tBraced (Ast.tFieldDefItems fs) fs.isEmpty) ∧ Ast.wfDirs ds = true ∧ Ast.wfFieldDefs fs = true ∧
    e = td ++ tf ∧ OptDirs ds td ∧ OptItems "FIELDS_DEFINITION" "L_CURLY" "R_CURLY" FieldTree fs tf

theorem tr_fieldsTail (n : Nat) {H : List Tok → Prop} : Tr NoE H (dirsBody n .lCurly (fieldsDefinition n)) (fun _ => FieldsTailR) := by
  refine (tr_dirsBody n .lCurly _ _ (tr_fieldsDefinition n)).mono (fun _ h => h) ?_
  rintro _ cs e ⟨ds, c1, c2, td, e2, rfl, rfl, hd1, hd2, hd3, hb⟩
  rcases hb with ⟨fs, ea, hne, hf1, hf2, rfl, hf4⟩ | ⟨rfl, rfl⟩
  · have hemp : fs.isEmpty = false := by cases fs with | nil => exact absurd rfl hne | cons _ _ => rfl
    refine ⟨ds, fs, td, [ea], ?_, wfDirs_of_dirsOk true ds hd2, hf2, rfl, hd3, Or.inr ⟨ea, rfl, hf4⟩⟩
    have := hd1.append hf1
    simpa [Ast.tBraced, hemp] using this
  · exact ⟨ds, [], td, [], by simpa [Ast.tBraced, Ast.tFieldDefItems] using hd1, wfDirs_of_dirsOk true ds hd2, rfl, by simp, hd3,
      Or.inl ⟨rfl, rfl⟩⟩

/-- what an object-like definition contributes after its keyword(s) and name -/
theorem objLike_assemble (K : SK) (desc : Option Ast.Str) (tn : Tok) (hd inner : List Elem) (cs' : List Tok) (e2 : List Elem)
    (hv : isValidName tn.data = true) (hhd : Hd desc hd) (hin : sigE inner = hd ++ nameNode tn.data :: e2)
    (h : ImplR FieldsTailR cs' e2) :
    ∃ (impl : SepC) (ds : List Ast.Directive) (fs : List Ast.FieldDef),
      TokIs cs' (tSepOpt [.name Ast.sImplements] .amp impl ++ Ast.tDirectives ds ++ Ast.tBraced (Ast.tFieldDefItems fs) fs.isEmpty) ∧
      Ast.wfDirs ds = true ∧ Ast.wfFieldDefs fs = true ∧ ObjLike K desc tn.data (sepNames impl) ds fs (.node K inner) := by
  obtain ⟨impl, c1, c2, ti, e3, rfl, rfl, h1, h2, ds, fs, td, tf, h3, h4, h5, rfl, h7, h8⟩ := h
  refine ⟨impl, ds, fs, ?_, h4, h5, inner, hd, ti, td, tf, rfl, hv, hhd, h2, h7, h8, hin⟩
  have := h1.append h3
  simpa [List.append_assoc] using this

theorem tr_objectTypeDefinition (n : Nat) :
    Tr NoE (DefStart "type") (objectTypeDefinition n)
      (fun _ cs e => ∃ (desc : Option Ast.Str) (nm : Ast.Str) (impl : SepC) (ds : List Ast.Directive)
        (fs : List Ast.FieldDef) (ed : Elem), TokIs cs (Ast.tDescription desc ++ kwPart "type" true ++ objectLikeToks nm impl ds fs) ∧
        Ast.wfDirs ds = true ∧ Ast.wfFieldDefs fs = true ∧ e = [ed] ∧ NamedDefTree (.object desc nm impl ds fs) ed) := by
  rw [objectTypeDefinition_eq]
  refine (tr_withNodeL early_false "OBJECT_TYPE_DEFINITION" (defStart_sig kwWord_type)
    (tr_defShape early_false "type" kwWord_type "type_KW" (by decide) n _ _
      (tr_optImplTok _ _ (tr_fieldsTail n (H := fun _ => True)) (H := fun _ => True)))).mono (fun _ h => h) ?_
  rintro _ cs e ⟨inner, rfl, desc, tn, hd, c1, c2, e2, rfl, hin, h1, hv, hhd, himpl⟩
  obtain ⟨impl, ds, fs, h2, h3, h4, h5⟩ := objLike_assemble "OBJECT_TYPE_DEFINITION" desc tn hd inner c2 e2 hv hhd hin himpl
  refine ⟨desc, tn.data, impl, ds, fs, _, ?_, h3, h4, rfl, h5⟩
  have := h1.append h2
  simpa [objectLikeToks, List.append_assoc] using this

theorem tr_interfaceTypeDefinition (n : Nat) :
    Tr NoE (DefStart "interface") (interfaceTypeDefinition n)
      (fun _ cs e => ∃ (desc : Option Ast.Str) (nm : Ast.Str) (impl : SepC) (ds : List Ast.Directive)
        (fs : List Ast.FieldDef) (ed : Elem), TokIs cs (Ast.tDescription desc ++ kwPart "interface" true ++ objectLikeToks nm impl ds fs) ∧
        Ast.wfDirs ds = true ∧ Ast.wfFieldDefs fs = true ∧ e = [ed] ∧ NamedDefTree (.interface desc nm impl ds fs) ed) := by
  rw [interfaceTypeDefinition_eq]
  refine (tr_withNodeL early_false "INTERFACE_TYPE_DEFINITION" (defStart_sig kwWord_interface)
    (tr_defShape early_false "interface" kwWord_interface "interface_KW" (by decide) n _ _
      (tr_optImplData _ _ _ (tr_fieldsTail n (H := fun _ => True)) (tr_fieldsTail n (H := fun _ => True)) (H := fun _ => True)))).mono
    (fun _ h => h) ?_
  rintro _ cs e ⟨inner, rfl, desc, tn, hd, c1, c2, e2, rfl, hin, h1, hv, hhd, himpl⟩
  obtain ⟨impl, ds, fs, h2, h3, h4, h5⟩ := objLike_assemble "INTERFACE_TYPE_DEFINITION" desc tn hd inner c2 e2 hv hhd hin himpl
  refine ⟨desc, tn.data, impl, ds, fs, _, ?_, h3, h4, rfl, h5⟩
  have := h1.append h2
  simpa [objectLikeToks, List.append_assoc] using this

end Apollo.Parse
