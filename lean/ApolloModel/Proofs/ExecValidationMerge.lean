import ApolloModel.Spec.ExecValidation
/-
Field merging (grouping lemmas of the XING algorithm) and the used-fragments walk.
-/
namespace Apollo.ExecVal
open Apollo Apollo.Spec Apollo.Spec.ExecVal

theorem allPairs_const (f : AField → String) (c : String) :
    ∀ g : List AField, (∀ x ∈ g, f x = c) → allPairs (fun a b => f a == f b) g = true := by
  intro g
  induction g with
  | nil => intro _; rfl
  | cons a rest ih =>
    intro h
    simp only [allPairs, Bool.and_eq_true, List.all_eq_true]
    refine ⟨?_, ih (fun x hx => h x (by simp [hx]))⟩
    intro x hx
    have h1 := h a (by simp)
    have h2 := h x (by simp [hx])
    simp [h1, h2]

theorem firstVsRest_eq_allPairs (f : AField → String) (g : List AField) :
    firstVsRest (fun a b => f a == f b) g = allPairs (fun a b => f a == f b) g := by
  cases g with
  | nil => rfl
  | cons a rest =>
    simp only [firstVsRest, allPairs]
    cases h : rest.all (fun b => f a == f b) with
    | false => simp
    | true =>
      have : ∀ x ∈ rest, f x = f a := by
        intro x hx
        have h3 := (List.all_eq_true.mp h) x hx
        have h4 : f a = f x := by simpa using h3
        exact h4.symm
      simp [allPairs_const f (f a) rest this]

theorem mem_dedup (ks : List String) (k : String) : k ∈ dedup ks ↔ k ∈ ks := by
  induction ks with
  | nil => simp [dedup]
  | cons a rest ih =>
    simp only [dedup, List.mem_cons, List.mem_filter, ih]
    constructor
    · rintro (h | ⟨h, _⟩)
      · exact Or.inl h
      · exact Or.inr h
    · rintro (h | h)
      · exact Or.inl h
      · by_cases hk : k = a
        · exact Or.inl hk
        · exact Or.inr ⟨h, by simpa using hk⟩

theorem commonParents_iff (g : List AField) (a b : AField) (ha : a ∈ g) (hb : b ∈ g) :
    (∃ pg ∈ groupByCommonParents g, a ∈ pg ∧ b ∈ pg) ↔
      ((a.parentIsObject = true ∧ b.parentIsObject = true → a.parent = b.parent)) := by
  have hmemc : ∀ x ∈ g, x.parentIsObject = true →
      x.parent ∈ dedup ((g.filter (·.parentIsObject)).map AField.parent) := by
    intro x hx ho
    rw [mem_dedup]
    exact List.mem_map.mpr ⟨x, List.mem_filter.mpr ⟨hx, ho⟩, rfl⟩
  have hin : ∀ x ∈ g, ∀ p, (x.parentIsObject = true → x.parent = p) →
      x ∈ g.filter (fun f => f.parentIsObject && f.parent == p) ++ g.filter (!·.parentIsObject) := by
    intro x hx p hp
    rw [List.mem_append]
    cases ho : x.parentIsObject with
    | true => left; exact List.mem_filter.mpr ⟨hx, by simp [ho, hp ho]⟩
    | false => right; exact List.mem_filter.mpr ⟨hx, by simp [ho]⟩
  have hout : ∀ x p, x ∈ g.filter (fun f => f.parentIsObject && f.parent == p) ++ g.filter (!·.parentIsObject) →
      (x.parentIsObject = true → x.parent = p) := by
    intro x p hx ho
    rw [List.mem_append] at hx
    rcases hx with hx | hx
    · have := (List.mem_filter.mp hx).2; simp at this; exact this.2
    · have := (List.mem_filter.mp hx).2; simp [ho] at this
  unfold groupByCommonParents
  by_cases hc : (dedup ((g.filter (·.parentIsObject)).map AField.parent)).isEmpty = true
  · simp only [hc, if_true]
    have hnone : ∀ x ∈ g, x.parentIsObject = false := by
      intro x hx
      cases ho : x.parentIsObject with
      | false => rfl
      | true =>
        have := hmemc x hx ho
        have he : dedup ((g.filter (·.parentIsObject)).map AField.parent) = [] := by simpa using hc
        rw [he] at this; simp at this
    constructor
    · intro _ ⟨h1, _⟩; rw [hnone a ha] at h1; simp at h1
    · intro _
      refine ⟨_, List.mem_singleton.mpr rfl, ?_, ?_⟩
      · exact List.mem_filter.mpr ⟨ha, by simp [hnone a ha]⟩
      · exact List.mem_filter.mpr ⟨hb, by simp [hnone b hb]⟩
  · simp only [hc, Bool.false_eq_true, if_false]
    constructor
    · rintro ⟨pg, hpg, hapg, hbpg⟩ ⟨hoa, hob⟩
      obtain ⟨p, _, rfl⟩ := List.mem_map.mp hpg
      rw [hout a p hapg hoa, hout b p hbpg hob]
    · intro h
      -- choose the group: the parent of whichever of the two has an object parent, else any
      have hne : ∃ p, p ∈ dedup ((g.filter (·.parentIsObject)).map AField.parent) := by
        cases hd : dedup ((g.filter (·.parentIsObject)).map AField.parent) with
        | nil => simp [hd] at hc
        | cons p _ => exact ⟨p, by simp⟩
      cases hoa : a.parentIsObject with
      | true =>
        refine ⟨_, List.mem_map.mpr ⟨a.parent, hmemc a ha hoa, rfl⟩, hin a ha _ (fun _ => rfl), hin b hb _ ?_⟩
        intro hob; exact (h ⟨hoa, hob⟩).symm
      | false =>
        cases hob : b.parentIsObject with
        | true =>
          refine ⟨_, List.mem_map.mpr ⟨b.parent, hmemc b hb hob, rfl⟩, hin a ha _ ?_, hin b hb _ (fun _ => rfl)⟩
          intro h'; rw [hoa] at h'; simp at h'
        | false =>
          obtain ⟨p, hp⟩ := hne
          refine ⟨_, List.mem_map.mpr ⟨p, hp, rfl⟩, hin a ha _ ?_, hin b hb _ ?_⟩
          · intro h'; rw [hoa] at h'; simp at h'
          · intro h'; rw [hob] at h'; simp at h'

/-! ### used fragments -/

theorem goUsed_sound (frags ops : List (List Nat))
    (rec : List Nat → List Nat × List Nat → List Nat × List Nat)
    (hrec : ∀ body st, (∀ j ∈ body, Used frags ops j) → (∀ j ∈ st.2, Used frags ops j) →
      ∀ j ∈ (rec body st).2, Used frags ops j) :
    ∀ sp st, (∀ j ∈ sp, Used frags ops j) → (∀ j ∈ st.2, Used frags ops j) →
      ∀ j ∈ (goUsed frags rec sp st).2, Used frags ops j := by
  intro sp
  induction sp with
  | nil => intro st _ h; simpa [goUsed] using h
  | cons x rest ih =>
    intro st hsp hst
    obtain ⟨seen, names⟩ := st
    have hx : Used frags ops x := hsp x (by simp)
    have hrest : ∀ j ∈ rest, Used frags ops j := fun j hj => hsp j (by simp [hj])
    have hnames : ∀ j ∈ (if names.contains x then names else x :: names), Used frags ops j := by
      intro j hj
      by_cases hc : names.contains x = true
      · rw [if_pos hc] at hj; exact hst j hj
      · rw [if_neg hc] at hj
        rcases List.mem_cons.mp hj with rfl | hj
        · exact hx
        · exact hst j hj
    simp only [goUsed]
    by_cases hs : seen.contains x = true
    · rw [if_pos hs]; exact ih _ hrest hnames
    · rw [if_neg hs]
      cases hf : frags[x]? with
      | none => exact ih _ hrest hnames
      | some body =>
        refine ih _ hrest (hrec body _ ?_ hnames)
        intro j hj; exact Used.step hx hf hj

theorem walkUsed_sound (frags ops : List (List Nat)) :
    ∀ k sp st, (∀ j ∈ sp, Used frags ops j) → (∀ j ∈ st.2, Used frags ops j) →
      ∀ j ∈ (walkUsed frags k sp st).2, Used frags ops j := by
  intro k
  induction k with
  | zero => exact goUsed_sound frags ops _ (fun _ _ _ h => h)
  | succ k ih => exact goUsed_sound frags ops _ ih

theorem collectUsed_sound (frags ops : List (List Nat)) (j : Nat) (h : j ∈ collectUsed frags ops) :
    Used frags ops j := by
  unfold collectUsed at h
  have key : ∀ (done : List (List Nat)) (names : List Nat), (∀ op ∈ done, op ∈ ops) →
      (∀ j ∈ names, Used frags ops j) →
      ∀ j ∈ done.foldl (fun names op => (walkUsed frags frags.length op ([], names)).2) names, Used frags ops j := by
    intro done
    induction done with
    | nil => intro names _ h; simpa using h
    | cons op rest ih =>
      intro names hsub hn
      simp only [List.foldl_cons]
      apply ih
      · intro o ho; exact hsub o (by simp [ho])
      · exact walkUsed_sound frags ops frags.length op ([], names)
          (fun j hj => Used.root (hsub op (by simp)) hj) hn
  exact key ops [] (fun _ h => h) (by simp) j h

end Apollo.ExecVal

/-! ### soundness of the XING algorithm -/
namespace Apollo.ExecVal
open Apollo Apollo.Spec Apollo.Spec.ExecVal

theorem allPairs_of_forall {α : Type} (rel : α → α → Bool) :
    ∀ l : List α, (∀ x ∈ l, ∀ y ∈ l, rel x y = true) → allPairs rel l = true := by
  intro l
  induction l with
  | nil => intro _; rfl
  | cons a rest ih =>
    intro h
    simp only [allPairs, Bool.and_eq_true, List.all_eq_true]
    exact ⟨fun x hx => h a (by simp) x (by simp [hx]),
      ih (fun x hx y hy => h x (by simp [hx]) y (by simp [hy]))⟩

theorem mem_group (fs : List AField) (a : AField) (ha : a ∈ fs) :
    fs.filter (·.key == a.key) ∈ groupByOutputName fs := by
  unfold groupByOutputName
  exact List.mem_map.mpr ⟨a.key, (mem_dedup _ _).mpr (List.mem_map.mpr ⟨a, ha, rfl⟩), rfl⟩

theorem firstVsRest_all_eq (f : AField → String) (g : List AField)
    (h : firstVsRest (fun a b => f a == f b) g = true) : ∀ x ∈ g, ∀ y ∈ g, f x = f y := by
  cases g with
  | nil => intro x hx; simp at hx
  | cons a rest =>
    simp only [firstVsRest, List.all_eq_true] at h
    have hall : ∀ x ∈ a :: rest, f x = f a := by
      intro x hx
      rcases List.mem_cons.mp hx with rfl | hx
      · rfl
      · have := h x hx; have h4 : f a = f x := by simpa using this
        exact h4.symm
    intro x hx y hy
    rw [hall x hx, hall y hy]

/-- soundness of the shape half of the XING algorithm -/
theorem shapeByName_sound : ∀ (n : Nat) (fs : List AField), sameResponseShapeByName n fs = true →
    ∀ a ∈ fs, ∀ b ∈ fs, a.key = b.key → sameResponseShape n a b = true := by
  intro n
  induction n with
  | zero => intro fs _ a _ b _ _; rfl
  | succ n ih =>
    intro fs h a ha b hb hk
    simp only [sameResponseShapeByName, List.all_eq_true, Bool.and_eq_true, Bool.or_eq_true] at h
    have hg := h _ (mem_group fs a ha)
    have hag : a ∈ fs.filter (·.key == a.key) := List.mem_filter.mpr ⟨ha, by simp⟩
    have hbg : b ∈ fs.filter (·.key == a.key) := List.mem_filter.mpr ⟨hb, by simp [hk]⟩
    have hshape := firstVsRest_all_eq AField.shape _ hg.1 a hag b hbg
    simp only [sameResponseShape, Bool.and_eq_true]
    refine ⟨by simp [hshape], ?_⟩
    apply allPairs_of_forall
    intro x hx y hy
    have hsub : ∀ z ∈ a.subs ++ b.subs, z ∈ nestedSets (fs.filter (·.key == a.key)) := by
      intro z hz
      unfold nestedSets
      rw [List.mem_flatMap]
      rcases List.mem_append.mp hz with hz | hz
      · exact ⟨a, hag, hz⟩
      · exact ⟨b, hbg, hz⟩
    rcases hg.2 with he | hn
    · have : nestedSets (fs.filter (·.key == a.key)) = [] := by simpa using he
      have := hsub x hx; simp_all
    · by_cases hxy : x.key = y.key
      · simp [ih _ hn x (hsub x hx) y (hsub y hy) hxy]
      · simp [hxy]

end Apollo.ExecVal

namespace Apollo.ExecVal
open Apollo Apollo.Spec Apollo.Spec.ExecVal

theorem group_subset (g : List AField) (pg : List AField) (h : pg ∈ groupByCommonParents g) :
    ∀ x ∈ pg, x ∈ g := by
  unfold groupByCommonParents at h
  by_cases hc : (dedup ((g.filter (·.parentIsObject)).map AField.parent)).isEmpty = true
  · simp only [hc, if_true, List.mem_singleton] at h
    subst h
    intro x hx; exact (List.mem_filter.mp hx).1
  · simp only [hc, Bool.false_eq_true, if_false] at h
    obtain ⟨p, _, rfl⟩ := List.mem_map.mp h
    intro x hx
    rcases List.mem_append.mp hx with hx | hx
    · exact (List.mem_filter.mp hx).1
    · exact (List.mem_filter.mp hx).1

theorem nested_mono (s t : List AField) (h : ∀ x ∈ s, x ∈ t) : ∀ z ∈ nestedSets s, z ∈ nestedSets t := by
  intro z hz
  unfold nestedSets at *
  obtain ⟨a, ha, hz⟩ := List.mem_flatMap.mp hz
  exact List.mem_flatMap.mpr ⟨a, h a ha, hz⟩

/-- soundness of the XING algorithm w.r.t. the pairwise definition, in the generality the induction
    needs: `S ⊆ fs ⊆ fsShape` -/
theorem xing_sound_gen : ∀ (n : Nat) (fsShape fs S : List AField),
    (∀ x ∈ S, x ∈ fs) → (∀ x ∈ fs, x ∈ fsShape) →
    sameResponseShapeByName n fsShape = true → sameForCommonParentsByName n fs = true →
    documentFieldsCanMerge n S = true := by
  intro n
  induction n with
  | zero => intros; rfl
  | succ n ih =>
    intro fsShape fs S hS hfs hshape hpar
    have hshape' := hshape
    simp only [sameResponseShapeByName, List.all_eq_true, Bool.and_eq_true, Bool.or_eq_true] at hshape'
    simp only [sameForCommonParentsByName, List.all_eq_true, Bool.and_eq_true, Bool.or_eq_true] at hpar
    -- for a field `a ∈ fs` and a common-parents group `pg` of its name group: what the algorithm established below it
    have below : ∀ a ∈ fs, ∀ pg ∈ groupByCommonParents (fs.filter (·.key == a.key)), ∀ S' : List AField,
        (∀ z ∈ S', z ∈ nestedSets pg) → documentFieldsCanMerge n S' = true := by
      intro a ha pg hpg S' hS'
      have hgp := hpar _ (mem_group fs a ha) pg hpg
      have hgs := hshape' _ (mem_group fsShape a (hfs a ha))
      have hsub1 : ∀ x ∈ pg, x ∈ fsShape.filter (·.key == a.key) := by
        intro x hx
        have := group_subset _ pg hpg x hx
        have := List.mem_filter.mp this
        exact List.mem_filter.mpr ⟨hfs x this.1, this.2⟩
      rcases hgp.2 with he | hp
      · have hnil : nestedSets pg = [] := by simpa using he
        cases S' with
        | nil => cases n <;> simp [documentFieldsCanMerge, fieldsInSetCanMerge, allPairs]
        | cons z _ => have := hS' z (by simp); rw [hnil] at this; simp at this
      · rcases hgs.2 with he | hs
        · have hnil : nestedSets (fsShape.filter (·.key == a.key)) = [] := by simpa using he
          cases S' with
          | nil => cases n <;> simp [documentFieldsCanMerge, fieldsInSetCanMerge, allPairs]
          | cons z _ =>
            have := nested_mono _ _ hsub1 z (hS' z (by simp)); rw [hnil] at this; simp at this
        · exact ih _ _ S' hS' (nested_mono _ _ hsub1) hs hp
    simp only [documentFieldsCanMerge, Bool.and_eq_true, List.all_eq_true]
    constructor
    · simp only [fieldsInSetCanMerge]
      apply allPairs_of_forall
      intro a ha b hb
      by_cases hk : a.key = b.key
      · have hsrs := shapeByName_sound (n + 1) fsShape hshape a (hfs a (hS a ha)) b (hfs b (hS b hb)) hk
        simp only [hk, bne_self_eq_false, Bool.false_or, hsrs, Bool.true_and, Bool.or_eq_true,
          Bool.not_eq_true', Bool.and_eq_true, beq_iff_eq]
        by_cases hcond : (a.parent == b.parent || !a.parentIsObject || !b.parentIsObject) = true
        · right
          have hag : a ∈ fs.filter (·.key == a.key) := List.mem_filter.mpr ⟨hS a ha, by simp⟩
          have hbg : b ∈ fs.filter (·.key == a.key) := List.mem_filter.mpr ⟨hS b hb, by simp [hk]⟩
          have hcp : a.parentIsObject = true ∧ b.parentIsObject = true → a.parent = b.parent := by
            intro ⟨h1, h2⟩; simpa [h1, h2] using hcond
          obtain ⟨pg, hpg, hapg, hbpg⟩ := (commonParents_iff _ a b hag hbg).mpr hcp
          have hgp := hpar _ (mem_group fs a (hS a ha)) pg hpg
          refine ⟨firstVsRest_all_eq AField.nameArgs pg hgp.1 a hapg b hbpg, ?_⟩
          have hdoc := below a (hS a ha) pg hpg (a.subs ++ b.subs) (by
            intro z hz
            unfold nestedSets
            rcases List.mem_append.mp hz with hz | hz
            · exact List.mem_flatMap.mpr ⟨a, hapg, hz⟩
            · exact List.mem_flatMap.mpr ⟨b, hbpg, hz⟩)
          cases n with
          | zero => rfl
          | succ n => simp only [documentFieldsCanMerge, Bool.and_eq_true] at hdoc; exact hdoc.1
        · left; simpa using hcond
      · simp [hk]
    · intro f hf
      have hfg : f ∈ fs.filter (·.key == f.key) := List.mem_filter.mpr ⟨hS f hf, by simp⟩
      obtain ⟨pg, hpg, hfpg, _⟩ := (commonParents_iff _ f f hfg hfg).mpr (fun _ => rfl)
      exact below f (hS f hf) pg hpg f.subs (by
        intro z hz
        unfold nestedSets
        exact List.mem_flatMap.mpr ⟨f, hfpg, hz⟩)

theorem xing_sound (n : Nat) (fs : List AField) (h : xingCanMerge n fs = true) :
    documentFieldsCanMerge n fs = true := by
  simp only [xingCanMerge, Bool.and_eq_true] at h
  exact xing_sound_gen n fs fs fs (fun _ h => h) (fun _ h => h) h.1 h.2

end Apollo.ExecVal

namespace Apollo.ExecVal
open Apollo Apollo.Spec Apollo.Spec.ExecVal

/-! ### completeness of the used-fragments walk -/

theorem filter_len_le {p q : Nat → Bool} (h : ∀ i, p i = true → q i = true) :
    ∀ l : List Nat, (l.filter p).length ≤ (l.filter q).length := by
  intro l
  induction l with
  | nil => simp
  | cons a l ih =>
    simp only [List.filter_cons]
    cases hp : p a with
    | false => cases hq : q a <;> simp <;> omega
    | true => simp [h a hp]; omega

theorem filter_len_lt {p q : Nat → Bool} (h : ∀ i, p i = true → q i = true) (j : Nat)
    (hq : q j = true) (hp : p j = false) :
    ∀ l : List Nat, j ∈ l → (l.filter p).length < (l.filter q).length := by
  intro l
  induction l with
  | nil => intro hj; simp at hj
  | cons a l ih =>
    intro hj
    simp only [List.filter_cons]
    by_cases haj : a = j
    · subst haj
      have := filter_len_le h l
      simp [hp, hq]; omega
    · have hjl : j ∈ l := by
        rcases List.mem_cons.mp hj with h' | h'
        · exact absurd h'.symm haj
        · exact h'
      have := ih hjl
      cases hpa : p a with
      | false => cases hqa : q a <;> simp <;> omega
      | true => simp [h a hpa]; omega

/-- number of fragment indices not yet in `seen` -/
def unseen (len : Nat) (seen : List Nat) : Nat := ((List.range len).filter fun i => !seen.contains i).length

theorem unseen_mono (len : Nat) (s s' : List Nat) (h : ∀ i ∈ s, i ∈ s') : unseen len s' ≤ unseen len s := by
  unfold unseen
  apply filter_len_le
  intro i hi
  simp only [Bool.not_eq_true', List.contains_eq_mem, decide_eq_false_iff_not] at hi ⊢
  exact fun hc => hi (h i hc)

theorem unseen_cons (len : Nat) (s : List Nat) (j : Nat) (hj : j < len) (hs : s.contains j = false) :
    unseen len (j :: s) < unseen len s := by
  unfold unseen
  apply filter_len_lt (j := j)
  · intro i hi
    simp only [Bool.not_eq_true', List.contains_eq_mem, decide_eq_false_iff_not, List.mem_cons, not_or] at hi ⊢
    exact hi.2
  · have : j ∉ s := by simpa using hs
    simp [this]
  · simp
  · simp [hj]

/-- `names` is closed under "spreads of a defined fragment", except for the fragments in `O`
    (those whose body is being walked right now) -/
def ClosedExcept (frags : List (List Nat)) (O names : List Nat) : Prop :=
  ∀ i ∈ names, i ∉ O → ∀ body, frags[i]? = some body → ∀ j ∈ body, j ∈ names

structure Post (frags : List (List Nat)) (O sp : List Nat) (st st' : List Nat × List Nat) : Prop where
  seenMono : ∀ i ∈ st.1, i ∈ st'.1
  namesMono : ∀ i ∈ st.2, i ∈ st'.2
  seenNames : ∀ i ∈ st'.1, i ∈ st'.2
  visited : ∀ j ∈ sp, j ∈ st'.2
  closed : ClosedExcept frags O st'.2

theorem goUsed_complete (frags : List (List Nat)) (k : Nat)
    (rec : List Nat → List Nat × List Nat → List Nat × List Nat)
    (hrec : ∀ O body st, unseen frags.length st.1 ≤ k → (∀ i ∈ st.1, i ∈ st.2) → (∀ i ∈ O, i ∈ st.1) →
      ClosedExcept frags O st.2 → Post frags O body st (rec body st)) :
    ∀ sp O st, unseen frags.length st.1 ≤ k + 1 → (∀ i ∈ st.1, i ∈ st.2) → (∀ i ∈ O, i ∈ st.1) →
      ClosedExcept frags O st.2 → Post frags O sp st (goUsed frags rec sp st) := by
  intro sp
  induction sp with
  | nil =>
    intro O st _ hsn _ hcl
    exact ⟨fun _ h => h, fun _ h => h, hsn, by simp, hcl⟩
  | cons x rest ih =>
    intro O st hu hsn hO hcl
    obtain ⟨seen, names⟩ := st
    simp only at hu hsn hO hcl
    simp only [goUsed]
    by_cases hs : seen.contains x = true
    · -- already seen in this operation: `names` already has it
      have hxn : x ∈ names := hsn x (by simpa using hs)
      have hnm : (if names.contains x then names else x :: names) = names := by
        rw [if_pos (by simpa using hxn)]
      rw [if_pos hs, hnm]
      have p := ih O (seen, names) hu hsn hO hcl
      exact ⟨p.seenMono, p.namesMono, p.seenNames,
        by intro j hj; rcases List.mem_cons.mp hj with rfl | hj
           · exact p.namesMono _ hxn
           · exact p.visited j hj, p.closed⟩
    · rw [if_neg hs]
      have hsf : seen.contains x = false := by simpa using hs
      have hxO : x ∉ O := fun h => by have := hO x h; simp [this] at hsf
      -- names with x added
      have hmem1 : ∀ i, i ∈ (if names.contains x then names else x :: names) ↔ (i = x ∨ i ∈ names) := by
        intro i
        by_cases hc : names.contains x = true
        · rw [if_pos hc]
          constructor
          · exact Or.inr
          · rintro (rfl | h)
            · simpa using hc
            · exact h
        · rw [if_neg hc]; simp
      generalize hn1 : (if names.contains x then names else x :: names) = names1 at *
      have hsn1 : ∀ i ∈ x :: seen, i ∈ names1 := by
        intro i hi
        rcases List.mem_cons.mp hi with rfl | hi
        · exact (hmem1 _).mpr (Or.inl rfl)
        · exact (hmem1 i).mpr (Or.inr (hsn i hi))
      have hcl1 : ClosedExcept frags (x :: O) names1 := by
        intro i hi hiO body hb j hj
        have hix : i ≠ x := fun h => hiO (by simp [h])
        have hin : i ∈ names := by
          rcases (hmem1 i).mp hi with h | h
          · exact absurd h hix
          · exact h
        exact (hmem1 j).mpr (Or.inr (hcl i hin (fun h => hiO (by simp [h])) body hb j hj))
      cases hf : frags[x]? with
      | none =>
        simp only []
        have hcl1' : ClosedExcept frags O names1 := by
          intro i hi hiO body hb j hj
          by_cases hix : i = x
          · subst hix; rw [hf] at hb; cases hb
          · exact hcl1 i hi (by simp [hix, hiO]) body hb j hj
        have hu' : unseen frags.length (x :: seen) ≤ k + 1 :=
          Nat.le_trans (unseen_mono _ _ _ (fun i hi => by simp [hi])) hu
        have p := ih O (x :: seen, names1) hu' hsn1 (fun i hi => by simp [hO i hi]) hcl1'
        exact ⟨fun i hi => p.seenMono i (by simp [hi]),
          fun i hi => p.namesMono i ((hmem1 i).mpr (Or.inr hi)), p.seenNames,
          by intro j hj; rcases List.mem_cons.mp hj with rfl | hj
             · exact p.namesMono _ ((hmem1 _).mpr (Or.inl rfl))
             · exact p.visited j hj, p.closed⟩
      | some body =>
        simp only []
        have hxlen : x < frags.length := by
          have := List.getElem?_eq_some_iff.mp hf
          exact this.1
        have hu1 : unseen frags.length (x :: seen) ≤ k := by
          have := unseen_cons frags.length seen x hxlen hsf
          omega
        have q := hrec (x :: O) body (x :: seen, names1) hu1 hsn1
          (fun i hi => by rcases List.mem_cons.mp hi with rfl | hi
                          · simp
                          · simp [hO i hi]) hcl1
        -- after the body: x is closed
        have hcl2 : ClosedExcept frags O (rec body (x :: seen, names1)).2 := by
          intro i hi hiO b hb j hj
          by_cases hix : i = x
          · subst hix; rw [hf] at hb; cases hb; exact q.visited j hj
          · exact q.closed i hi (by simp [hix, hiO]) b hb j hj
        have hu2 : unseen frags.length (rec body (x :: seen, names1)).1 ≤ k + 1 :=
          Nat.le_trans (unseen_mono _ _ _ q.seenMono) (Nat.le_succ_of_le hu1)
        have p := ih O (rec body (x :: seen, names1)) hu2 q.seenNames
          (fun i hi => q.seenMono i (by simp [hO i hi])) hcl2
        exact ⟨fun i hi => p.seenMono i (q.seenMono i (by simp [hi])),
          fun i hi => p.namesMono i (q.namesMono i ((hmem1 i).mpr (Or.inr hi))), p.seenNames,
          by intro j hj; rcases List.mem_cons.mp hj with rfl | hj
             · exact p.namesMono _ (q.namesMono _ ((hmem1 _).mpr (Or.inl rfl)))
             · exact p.visited j hj, p.closed⟩

theorem walkUsed_complete (frags : List (List Nat)) :
    ∀ k O sp st, unseen frags.length st.1 ≤ k → (∀ i ∈ st.1, i ∈ st.2) → (∀ i ∈ O, i ∈ st.1) →
      ClosedExcept frags O st.2 → Post frags O sp st (walkUsed frags k sp st) := by
  intro k
  induction k with
  | zero =>
    intro O sp st hu hsn hO hcl
    -- with nothing unseen, no defined fragment can be entered: prove the contract of the dummy `rec` vacuously
    induction sp generalizing st with
    | nil => exact ⟨fun _ h => h, fun _ h => h, hsn, by simp, hcl⟩
    | cons x rest ih =>
      obtain ⟨seen, names⟩ := st
      simp only at hu hsn hO hcl
      have hall : ∀ i, i < frags.length → i ∈ seen := by
        intro i hi
        by_cases hm : i ∈ seen
        · exact hm
        · have := unseen_cons frags.length seen i hi (by simpa using hm)
          omega
      simp only [walkUsed, goUsed]
      by_cases hs : seen.contains x = true
      · have hxn : x ∈ names := hsn x (by simpa using hs)
        rw [if_pos hs, if_pos (by simpa using hxn)]
        have p := ih (seen, names) hu hsn hO hcl
        simp only [walkUsed] at p
        exact ⟨p.seenMono, p.namesMono, p.seenNames,
          by intro j hj; rcases List.mem_cons.mp hj with rfl | hj
             · exact p.namesMono _ hxn
             · exact p.visited j hj, p.closed⟩
      · rw [if_neg hs]
        have hnone : frags[x]? = none := by
          cases hf : frags[x]? with
          | none => rfl
          | some b =>
            have := (List.getElem?_eq_some_iff.mp hf).1
            exact absurd (hall x this) (by simpa using hs)
        rw [hnone]
        simp only []
        have hmem1 : ∀ i, i ∈ (if names.contains x then names else x :: names) ↔ (i = x ∨ i ∈ names) := by
          intro i
          by_cases hc : names.contains x = true
          · rw [if_pos hc]
            constructor
            · exact Or.inr
            · rintro (rfl | h)
              · simpa using hc
              · exact h
          · rw [if_neg hc]; simp
        generalize (if names.contains x then names else x :: names) = names1 at *
        have hcl1 : ClosedExcept frags O names1 := by
          intro i hi hiO body hb j hj
          by_cases hix : i = x
          · subst hix; rw [hnone] at hb; cases hb
          · have hin : i ∈ names := by
              rcases (hmem1 i).mp hi with h | h
              · exact absurd h hix
              · exact h
            exact (hmem1 j).mpr (Or.inr (hcl i hin hiO body hb j hj))
        have hu' : unseen frags.length (x :: seen) ≤ 0 :=
          Nat.le_trans (unseen_mono _ _ _ (fun i hi => by simp [hi])) hu
        have p := ih (x :: seen, names1) hu'
          (fun i hi => by rcases List.mem_cons.mp hi with rfl | hi
                          · exact (hmem1 _).mpr (Or.inl rfl)
                          · exact (hmem1 i).mpr (Or.inr (hsn i hi)))
          (fun i hi => by simp [hO i hi]) hcl1
        simp only [walkUsed] at p
        exact ⟨fun i hi => p.seenMono i (by simp [hi]),
          fun i hi => p.namesMono i ((hmem1 i).mpr (Or.inr hi)), p.seenNames,
          by intro j hj; rcases List.mem_cons.mp hj with rfl | hj
             · exact p.namesMono _ ((hmem1 _).mpr (Or.inl rfl))
             · exact p.visited j hj, p.closed⟩
  | succ k ih =>
    intro O sp st hu hsn hO hcl
    exact goUsed_complete frags k (walkUsed frags k) (fun O body st h1 h2 h3 h4 => ih O body st h1 h2 h3 h4)
      sp O st hu hsn hO hcl

theorem unseen_le (len : Nat) (s : List Nat) : unseen len s ≤ len := by
  unfold unseen
  have := List.length_filter_le (fun i => !s.contains i) (List.range len)
  simpa using this

theorem collectUsed_complete (frags ops : List (List Nat)) (j : Nat) (h : Used frags ops j) :
    j ∈ collectUsed frags ops := by
  unfold collectUsed
  -- invariant of the fold over the operations
  have key : ∀ (todo : List (List Nat)) (names : List Nat), ClosedExcept frags [] names →
      let res := todo.foldl (fun names op => (walkUsed frags frags.length op ([], names)).2) names
      ClosedExcept frags [] res ∧ (∀ i ∈ names, i ∈ res) ∧ (∀ op ∈ todo, ∀ i ∈ op, i ∈ res) := by
    intro todo
    induction todo with
    | nil => intro names hcl; exact ⟨hcl, fun _ h => h, by simp⟩
    | cons op rest ih =>
      intro names hcl
      have p := walkUsed_complete frags frags.length [] op ([], names) (unseen_le _ _) (by simp) (by simp) hcl
      have r := ih _ p.closed
      simp only [List.foldl_cons]
      refine ⟨r.1, fun i hi => r.2.1 i (p.namesMono i hi), ?_⟩
      intro o ho i hi
      rcases List.mem_cons.mp ho with rfl | ho
      · exact r.2.1 i (p.visited i hi)
      · exact r.2.2 o ho i hi
  have k0 := key ops [] (by intro i hi; simp at hi)
  induction h with
  | root hop hj => exact k0.2.2 _ hop _ hj
  | step _ hb hj ih => exact k0.1 _ ih (by simp) _ hb _ hj

end Apollo.ExecVal
