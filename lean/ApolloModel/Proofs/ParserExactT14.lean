import ApolloModel.Proofs.ParserExactC31
import ApolloModel.Proofs.ParserExactT13
/-
Exact soundness for the type-system family, part 14: the soundness side of `looseFitXX` — in an error-free run only the
LAST root operation type of `{ … }` can lack its named type: after a nameless root the head of the queue is not a Name,
so the `peek_while_kind(Name)` loop stops.
-/
set_option linter.unusedSimpArgs false
namespace Apollo.Parse.Exact
open Apollo.Rowan hiding Str
open Apollo.Lex hiding Str

/-- the head of the queue is not a Name -/
def NotNameHead (s : PState) : Prop := (Toks s).head?.map (·.kind) ≠ some Kind.name

theorem good_colonTail : Good (peek >>= fun k => if k == some Kind.colon then (bump "COLON" >>= fun _ => namedType) else err) :=
  good_bind _ _ good_peek (fun _ => good_ite _ _ _ (good_bind _ _ (good_bump _) (fun _ => good_namedTypeT)) good_err)

/-- `named_type` from any state: a Name was consumed, or nothing and the head is not a Name -/
theorem namedType_sound (s s' : PState) (w : TW s) (he : EofEnd s) (h : namedType.run s = .ok () s') (hnd : ¬ Doomed s') :
    Cons s s' (fun x => (∃ nm, x = [.name nm]) ∨ (x = [] ∧ NotNameHead s')) := by
  by_cases hk : KindP (· == Kind.name) (Toks s)
  · exact (cons_of_acc (acc_namedTypeAtName early_false) s s' () w he hk h hnd).weaken (fun _ hx => Or.inl hx)
  · unfold namedType at h
    obtain ⟨sP, o, p, hor⟩ := ifPeek_dec .name _ _ s s' () w h
    have heP := p.eofEnd he
    rcases hor with ⟨hkc, _⟩ | ⟨hkc, h5⟩
    · exfalso
      apply hk
      cases o with
      | none => simp at hkc
      | some t => exact ⟨t, p.head.symm, by simpa using hkc⟩
    · rw [run_pure] at h5
      injection h5 with _ h5
      subst h5
      refine (Cons.nil p.toks heP).weaken ?_
      rintro z rfl
      refine Or.inr ⟨rfl, ?_⟩
      unfold NotNameHead
      rw [p.toks, ← p.head]
      exact hkc

/-- **one root operation type**, entered on a Name: `op : Name`, or `op :` and then the head is not a Name -/
theorem rootOp_sound (s s' : PState) (t : Tok) (rest : List Tok) (w : TW s) (he : EofEnd s) (ht : Toks s = t :: rest)
    (hk : t.kind = .name) (h : rootOperationTypeDefinition.run s = .ok () s') (hnd : ¬ Doomed s') :
    Cons s s' (fun x => ∃ r : Ast.OpType × Option Ast.Str, x = tRootOpF r ∧ (r.2 = none → NotNameHead s')) := by
  have hni : isIgnoredKind t.kind = false := by rw [hk]; rfl
  unfold rootOperationTypeDefinition at h
  obtain ⟨s1, s2, e1, h1, o2⟩ := withNode_peeked _ _ s s' () t rest w ht hni h
  have hnd2 : ¬ Doomed s2 := fun d => hnd (o2.doomed.mpr d)
  have he1 : EofEnd s1 := eofEnd_eat he e1 (by intro x hx; cases hx)
  have h0 : Toks s = Toks s1 := by simpa using e1.toks
  obtain ⟨_, s3, h3, h4⟩ := bind_dec operationType _ s1 s2 () h1
  have hop := acc_operationType (E := fun _ => False) early_false
  have a3 := hop.1 s1 () s3 e1.w h3
  have hnd3 : ¬ Doomed s3 := fun d => hnd2 ((good_colonTail s3 () s2 a3.w h4).doom d)
  have c1 := cons_of_acc hop s1 s3 () e1.w he1 ⟨t, by rw [← h0, ht]; rfl, by simp [hk]⟩ h3 hnd3
  obtain ⟨sP, o, p, hor⟩ := ifPeek_dec .colon _ _ s3 s2 () a3.w h4
  have heP := p.eofEnd c1.eofEnd
  rcases hor with ⟨hkc, h5⟩ | ⟨_, h5⟩
  · obtain ⟨tc, rfl, hkc2⟩ : ∃ tc, o = some tc ∧ tc.kind = .colon := by
      cases o with
      | none => simp at hkc
      | some tc => exact ⟨tc, rfl, by simpa using hkc⟩
    have hnic : isIgnoredKind tc.kind = false := by rw [hkc2]; rfl
    obtain ⟨_, s5, h6, h7⟩ := bind_dec (bump "COLON") _ sP s2 () h5
    obtain ⟨ign2, ec, hall2, _⟩ := bump_spec "COLON" sP s5 p.w tc _ p.head_cons h6
    have c2 : Cons sP s5 (fun x => x = [.p .colon]) :=
      Cons.ofEat ec heP (noEof_cons (by rw [hkc2]; decide) hall2) (tokIs_punct tc ign2 .colon hnic (by simp [astOfV, hkc2]) hall2)
    have c2' : Cons s3 s5 (fun x => x = [.p .colon]) := c2.transport p.toks.symm rfl c2.eofEnd
    have c3 := namedType_sound s5 s2 ec.w c2.eofEnd h7 hnd2
    have c := ((c1.seq c2').seq c3).transport h0 o2.toks (eofEnd_same _ _ c3.eofEnd o2.current o2.lx o2.errors)
    refine c.weaken ?_
    rintro z ⟨xy, y, rfl, ⟨x1, x2, rfl, ⟨op, rfl⟩, rfl⟩, hy⟩
    rcases hy with ⟨nm, rfl⟩ | ⟨rfl, hh⟩
    · exact ⟨(op, some nm), by simp [tRootOpF], by intro h; cases h⟩
    · refine ⟨(op, none), by simp [tRootOpF], fun _ => ?_⟩
      unfold NotNameHead at hh ⊢
      rw [o2.toks]; exact hh
  · exfalso
    exact hnd2 ((err_adv sP s2 p.w h5).2 (eofEnd_nonempty sP heP (fun d => hnd2 ((good_err sP () s2 p.w h5).doom d))))

theorem rootsLastOnly_cons (r : Ast.OpType × Option Ast.Str) (roots : List (Ast.OpType × Option Ast.Str))
    (h1 : r.2 = none → roots = []) (h2 : rootsLastOnly roots) : rootsLastOnly (r :: roots) := by
  cases roots with
  | nil => intro x hx; simp at hx
  | cons r2 rs =>
    intro x hx
    rw [List.dropLast_cons_cons] at hx
    rcases List.mem_cons.mp hx with rfl | hx
    · intro hn; exact absurd (h1 hn) (by simp)
    · exact h2 x hx

/-- the flag loop over root operation types: only the last root can be nameless -/
theorem rootsLoop_sound : ∀ (fuel : Nat) (flag : Bool) (s : PState) (has : Bool) (s' : PState),
    TW s → EofEnd s → (peekWhileKindFlagLoop .name rootOperationTypeDefinition fuel flag).run s = .ok has s' → ¬ Doomed s' →
    Cons s s' (fun x => ∃ roots : List (Ast.OpType × Option Ast.Str), x = tRootOpItemsF roots ∧ rootsLastOnly roots ∧
      has = (flag || !roots.isEmpty) ∧ (NotNameHead s → roots = [])) := by
  intro fuel
  induction fuel with
  | zero => intro flag s has s' _ _ h; simp [peekWhileKindFlagLoop, PI.outOfFuel] at h
  | succ fuel ih =>
    intro flag s has s' w he h hnd
    unfold peekWhileKindFlagLoop at h
    obtain ⟨ko, sP, hp, h2⟩ := bind_dec peek _ s s' has h
    obtain ⟨o, p', hko⟩ := peek_obs s sP ko w hp
    subst hko
    have heP : EofEnd sP := p'.eofEnd he
    have stop : s' = sP → has = flag → Cons s s' (fun x => ∃ roots : List (Ast.OpType × Option Ast.Str), x = tRootOpItemsF roots ∧
        rootsLastOnly roots ∧ has = (flag || !roots.isEmpty) ∧ (NotNameHead s → roots = [])) := by
      intro e e2
      rw [e, e2]
      exact (Cons.nil p'.toks heP).weaken (by
        rintro z rfl
        exact ⟨[], rfl, (by intro x hx; simp at hx), by simp, fun _ => rfl⟩)
    cases o with
    | none =>
      simp only [Option.map_none] at h2
      rw [run_pure] at h2
      injection h2 with h2a h2
      exact stop h2.symm h2a.symm
    | some t =>
      simp only [Option.map_some] at h2
      by_cases hk : (t.kind != Kind.name) = true
      · simp only [hk, if_true] at h2
        rw [run_pure] at h2
        injection h2 with h2a h2
        exact stop h2.symm h2a.symm
      · simp only [hk, Bool.false_eq_true, if_false] at h2
        have hk' : t.kind = .name := by simpa using hk
        have h3 := getCurrent_dec _ sP s' has h2
        obtain ⟨_, sI, hi, h4⟩ := bind_dec rootOperationTypeDefinition _ sP s' has h3
        have h5 := getCurrent_dec _ sI s' has h4
        have aI := good_rootOp sP () sI p'.w hi
        by_cases hsame : (sP.current == sI.current) = true
        · simp only [hsame, if_true] at h5
          exact absurd h5 (stuck_not_ok _ _ _)
        · simp only [hsame, Bool.false_eq_true, if_false] at h5
          have hndI : ¬ Doomed sI := fun d => hnd ((good_flagLoop .name rootOperationTypeDefinition good_rootOp fuel true sI has s' aI.w h5).doom d)
          have c1 := rootOp_sound sP sI t _ p'.w heP p'.head_cons hk' hi hndI
          have c2 := ih true sI has s' aI.w c1.eofEnd h5 hnd
          refine ((c1.seq c2).transport p'.toks.symm rfl c2.eofEnd).weaken ?_
          rintro z ⟨x, y, rfl, ⟨r, rfl, hr⟩, roots, rfl, hlast, hhas, hstop⟩
          refine ⟨r :: roots, by simp [tRootOpItemsF], rootsLastOnly_cons r roots (fun hn => hstop (hr hn)) hlast, by rw [hhas]; simp, ?_⟩
          intro hnn
          exfalso
          apply hnn
          rw [p'.head.symm]
          simp [hk']

end Apollo.Parse.Exact
