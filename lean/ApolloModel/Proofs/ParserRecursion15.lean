import ApolloModel.Proofs.ParserRecursion14
/-
C04 growth (recursion limit across runs), part 15: `ty.rs` in the two-run calculus (the guard of a list type
follows `bump(L_BRACK)`), and an automation for guard-free compositions.
-/
set_option linter.unusedSimpArgs false
set_option linter.unusedVariables false
namespace Apollo.Parse
open Apollo.Rowan hiding Str
open Apollo.Lex hiding Str

theorem plain_errAtToken (t : Tok) : Plain (errAtToken t) := plain_pushErr _

theorem plain_tyCond (r : TyRes) : Plain (tyCond r) := by
  cases r <;> first
    | exact plain_pure _
    | exact plain_bind _ _ plain_skipIgnored (fun _ => plain_bind _ _ plain_peek (fun _ => plain_pure _))

theorem plain_tyJoin : Plain (expect .rBracket "R_BRACK" >>= fun _ => (pure TyRes.ok : PI TyRes)) :=
  plain_bind _ _ (plain_expect _ _) (fun _ => plain_pure _)

theorem xc_tyListBody (n : Nat) (ih : XG (tyParse n)) :
    XC (fun cur => cur.map (·.kind) = some .lBracket) (tyListBody n) ∧ BG (tyListBody n) := by
  unfold tyListBody
  have hrecB : BG (withRec (limitErr >>= fun _ => (pure none : PI (Option TyRes))) (tyParse n >>= fun r => pure (some r))) :=
    bg_withRec _ _ (plain_bind _ _ plain_limitErr (fun _ => plain_pure _)) (bg_bind _ _ ih.b (fun _ => bg_of_plain (plain_pure _)))
  have tailP : ∀ inner : Option TyRes, Plain (match inner with
      | none => (pure TyRes.early : PI TyRes)
      | some res => do
        match res with
        | .errTok t => errAtToken t
        | _ => pure ()
        expect .rBracket "R_BRACK"
        pure TyRes.ok) := by
    intro inner
    cases inner with
    | none => exact plain_pure _
    | some res =>
      cases res with
      | errTok t => exact plain_bind _ _ (plain_errAtToken t) (fun _ => plain_tyJoin)
      | ok => exact plain_tyJoin
      | early => exact plain_tyJoin
      | errNone => exact plain_tyJoin
  refine ⟨?_, bg_bind _ _ (bg_of_plain (plain_bump _)) (fun _ => bg_bind _ _ hrecB (fun inner => bg_of_plain (tailP inner)))⟩
  refine xc_bind (c' := fun _ cur => cur.isSome = true) _ _ (xc_of_plain (plain_bump _)) (bg_of_plain (plain_bump _)) ?_ ?_ ?_
  · intro s a s' g hc h
    refine post_bump "L_BRACK" s a s' g ?_ h
    cases hcur : s.current with
    | none => rw [hcur] at hc; cases hc
    | some t =>
      rw [hcur] at hc
      simp only [Option.map_some, Option.some.injEq] at hc
      exact ⟨t, rfl, by rw [hc]; decide⟩
  · intro _
    refine xc_bind (c' := fun _ _ => True) _ _ ?_ hrecB (post_trivial _ _) (fun inner => xc_of_plain (tailP inner))
      (fun inner => bg_of_plain (tailP inner))
    exact xc_withRec _ _ (plain_bind _ _ plain_limitErr (fun _ => plain_pure _))
      (fun s a s' g hc h => limitErrPure_records none s a s' g hc h)
      (xc_weaken (xc_bind' _ _ ih.x ih.b (fun _ => xc_of_plain (plain_pure _)) (fun _ => bg_of_plain (plain_pure _))))
      (bg_bind _ _ ih.b (fun _ => bg_of_plain (plain_pure _)))
  · intro _
    exact bg_bind _ _ hrecB (fun inner => bg_of_plain (tailP inner))

theorem plain_tyOther (k : Kind) (hk : k ≠ .lBracket) (n : Nat) :
    Plain (match some k with
        | some .lBracket => withNode "LIST_TYPE" (tyListBody n)
        | some .name => withNode "NAMED_TYPE" (withNode "NAME" (do eat "IDENT"; pure TyRes.ok))
        | some _ => do
          match ← popDrop with
          | some t => pure (TyRes.errTok t)
          | none => pure TyRes.errNone
        | none => pure TyRes.errNone) := by
  cases k <;> first
    | exact absurd rfl hk
    | exact plain_withNode _ _ (plain_withNode _ _ (plain_bind _ _ (plain_eat _) (fun _ => plain_pure _)))
    | (refine plain_bind _ _ plain_popDrop ?_
       intro o
       cases o <;> exact plain_pure _)

theorem xg_tyBody (n : Nat) (ih : XG (tyParse n)) : XG (tyBody n) := by
  obtain ⟨lx, lb⟩ := xc_tyListBody n ih
  unfold tyBody
  have brB : ∀ k : Option Kind, BG (match k with
        | some .lBracket => withNode "LIST_TYPE" (tyListBody n)
        | some .name => withNode "NAMED_TYPE" (withNode "NAME" (do eat "IDENT"; pure TyRes.ok))
        | some _ => do
          match ← popDrop with
          | some t => pure (TyRes.errTok t)
          | none => pure TyRes.errNone
        | none => pure TyRes.errNone) := by
    intro k
    cases k with
    | none => exact bg_of_plain (plain_pure _)
    | some k =>
      by_cases hk : k = .lBracket
      · subst hk; exact bg_withNode _ _ lb
      · exact bg_of_plain (plain_tyOther k hk n)
  refine ⟨?_, bg_bind _ _ (bg_of_plain plain_peek) brB⟩
  refine xc_bind (c' := fun k cur => cur.map (·.kind) = k) _ _ (xc_of_plain plain_peek) (bg_of_plain plain_peek) (post_peek _) ?_ brB
  intro k
  cases k with
  | none => exact xc_of_plain (plain_pure _)
  | some k =>
    by_cases hk : k = .lBracket
    · subst hk
      refine xc_withNode _ _ ?_
      exact xc_bind (c' := fun _ cur => cur.map (·.kind) = some .lBracket) _ _ (xc_of_plain plain_skipIgnored)
        (bg_of_plain plain_skipIgnored) (post_skipIgnored_keep .lBracket rfl) (fun _ => lx) (fun _ => lb)
    · exact xc_of_plain (plain_tyOther k hk n)

theorem xg_tyParse : ∀ n, XG (tyParse n)
  | 0 => by unfold tyParse; exact xg_of_plain plain_outOfFuel
  | n + 1 => by
    have ih := xg_tyParse n
    have hb := xg_tyBody n ih
    rw [tyParse_succ]
    have hw : XG (wrapIf "NON_NULL_TYPE" (tyBody n) tyCond (eat "BANG")) :=
      ⟨xc_wrapIf _ _ _ _ hb.x hb.b (fun a => xg_of_plain (plain_tyCond a)) (xg_of_plain (plain_eat _)),
       bg_wrapIf _ _ _ _ hb.b (fun a => bg_of_plain (plain_tyCond a)) (bg_of_plain (plain_eat _))⟩
    refine xg_bind _ _ hw (fun r => ?_)
    cases r with
    | ok => exact xg_bind _ _ (xg_of_plain plain_skipIgnored) (fun _ => xg_pure _)
    | early => exact xg_bind (pure ()) _ (xg_pure ()) (fun _ => xg_pure _)
    | errTok t => exact xg_bind (pure ()) _ (xg_pure ()) (fun _ => xg_pure _)
    | errNone => exact xg_bind (pure ()) _ (xg_pure ()) (fun _ => xg_pure _)

theorem xg_ty (n : Nat) : XG (ty n) := by
  unfold ty
  refine xg_bind _ _ (xg_tyParse n) (fun r => ?_)
  cases r with
  | errTok t => exact xg_of_plain (plain_errAtToken t)
  | errNone => exact xg_err
  | ok => exact xg_pure _
  | early => exact xg_pure _

end Apollo.Parse
