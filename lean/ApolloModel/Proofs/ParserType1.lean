import ApolloModel.Proofs.ParserWhole
/-
C07 / C05 growth (type entry point), part 1: the parser's token queue.

`stream l` is everything the lexer will still hand out (tokens and error items, lazily in the code, eagerly
here); `Toks s` is the parser's token queue (the current token followed by the tokens of the stream);
`Doomed s` says that an error has been recorded or that a lexer error is still waiting in the stream.
`peek_token` / `next_token` do not change either.
-/
set_option linter.unusedSimpArgs false
namespace Apollo.Parse
open Apollo.Rowan hiding Str
open Apollo.Lex hiding Str

def pull : Nat → LexSt → List LexOut
  | 0, _ => []
  | f + 1, l =>
    match lexNext l with
    | (none, _) => []
    | (some o, l') => o :: pull f l'

def stream (l : LexSt) : List LexOut := pull (l.src.length + 2) l

def outTok : LexOut → Option Tok
  | .tok t => some t
  | _ => none

def toksOf (xs : List LexOut) : List Tok := xs.filterMap outTok

def outBad : LexOut → Bool
  | .tok _ => false
  | _ => true

def hasErr (xs : List LexOut) : Bool := xs.any outBad

/-- the parser's token queue -/
def Toks (s : PState) : List Tok := s.current.toList ++ toksOf (stream s.lx)

/-- an error is recorded, or a lexer error waits in the unread input -/
def Doomed (s : PState) : Prop := s.errors ≠ [] ∨ hasErr (stream s.lx) = true

/-! ### one step of the lexer without a token limit -/

theorem lexNext_cases (l : LexSt) (hl : l.limit = none) :
    (l.finished = true ∧ lexNext l = (none, l))
    ∨ (l.finished = false ∧ l.src = [] ∧ ∃ l', lexNext l = (some (.tok ⟨.eof, [], l.total⟩), l') ∧ l'.finished = true
        ∧ l'.limit = none ∧ l'.src = [])
    ∨ (l.finished = false ∧ ∃ o l', lexNext l = (some o, l') ∧ l'.src.length < l.src.length ∧ l'.finished = false
        ∧ l'.limit = none ∧ (∀ t, o = .tok t → t.kind ≠ .eof)) := by
  by_cases hf : l.finished = true
  · exact Or.inl ⟨hf, lexNext_finished l hf⟩
  · have hf' : l.finished = false := by simpa using hf
    have hc : (lexCheck l).1 = false := lexCheck_no_limit l hl
    cases hs : l.src with
    | nil =>
      refine Or.inr (Or.inl ⟨hf', rfl, ?_⟩)
      unfold lexNext
      simp only [hf', Bool.false_eq_true, if_false, hc, hs]
      exact ⟨_, rfl, rfl, hl, rfl⟩
    | cons c rest =>
      refine Or.inr (Or.inr ⟨hf', ?_⟩)
      have hp := Lex.advance_progress c rest
      unfold lexNext
      simp only [hf', Bool.false_eq_true, if_false, hc, hs]
      cases hr : (advance (c :: rest)).1 with
      | tok k d =>
        refine ⟨_, _, rfl, by simpa using hp.2, rfl, hl, ?_⟩
        intro t ht
        injection ht with ht
        subst ht
        exact Lex.advance_kind_ne_eof c rest k d hr
      | err d => exact ⟨_, _, rfl, by simpa using hp.2, rfl, hl, by intro t ht; cases ht⟩
      | limit => exact absurd hr (advance_ne_limit _)

theorem pull_succ (f : Nat) (l : LexSt) :
    pull (f + 1) l = match lexNext l with
      | (none, _) => []
      | (some o, l') => o :: pull f l' := rfl

theorem pull_finished (f : Nat) (l : LexSt) (h : l.finished = true) : pull f l = [] := by
  cases f with
  | zero => rfl
  | succ f => simp [pull, lexNext_finished l h]

/-- more fuel than the input is long changes nothing -/
theorem pull_stable : ∀ (f : Nat) (l : LexSt), l.limit = none → l.src.length + 2 ≤ f → pull (f + 1) l = pull f l := by
  intro f
  induction f with
  | zero => intro l _ h; omega
  | succ f ih =>
    intro l hl hf
    rcases lexNext_cases l hl with ⟨_, h⟩ | ⟨_, _, l', h, hfin, _, _⟩ | ⟨_, o, l', h, hlen, _, hl', _⟩
    · rw [pull_succ, pull_succ, h]
    · rw [pull_succ, pull_succ f, h]
      simp only []
      rw [pull_finished _ l' hfin, pull_finished _ l' hfin]
    · rw [pull_succ, pull_succ f, h]
      simp only []
      rw [ih l' hl' (by omega)]

theorem pull_stable' (l : LexSt) (hl : l.limit = none) : ∀ (k : Nat), pull (l.src.length + 2 + k) l = pull (l.src.length + 2) l := by
  intro k
  induction k with
  | zero => rfl
  | succ k ih => rw [← ih, ← Nat.add_assoc]; exact pull_stable _ l hl (by omega)

theorem stream_unfold (l : LexSt) (hl : l.limit = none) :
    stream l = match lexNext l with
      | (none, _) => []
      | (some o, l') => o :: stream l' := by
  unfold stream
  rcases lexNext_cases l hl with ⟨_, h⟩ | ⟨_, _, l', h, hfin, _, _⟩ | ⟨_, o, l', h, hlen, _, hl', _⟩
  · rw [show l.src.length + 2 = (l.src.length + 1) + 1 from rfl, pull_succ, h]
  · rw [show l.src.length + 2 = (l.src.length + 1) + 1 from rfl, pull_succ, h]
    simp only []
    rw [pull_finished _ l' hfin, pull_finished _ l' hfin]
  · rw [show l.src.length + 2 = (l.src.length + 1) + 1 from rfl, pull_succ, h]
    simp only []
    obtain ⟨k, hk⟩ : ∃ k, l.src.length + 1 = l'.src.length + 2 + k := ⟨l.src.length + 1 - (l'.src.length + 2), by omega⟩
    rw [hk, pull_stable' l' hl' k]

/-! ### `next_token` / `peek_token` as seen through the queue -/

structure NextObs (s : PState) (r : Option Tok × PState) : Prop where
  toks : r.1.toList ++ toksOf (stream r.2.lx) = toksOf (stream s.lx)
  doom : (r.2.errors ≠ [] ∨ hasErr (stream r.2.lx) = true) ↔ (s.errors ≠ [] ∨ hasErr (stream s.lx) = true)
  limit : r.2.lx.limit = none
  accept : r.2.acceptErrors = s.acceptErrors
  accOk : (s.acceptErrors = false → s.errors ≠ []) → (r.2.acceptErrors = false → r.2.errors ≠ [])

theorem nextTokenRaw_obs : ∀ (fuel : Nat) (s : PState), s.lx.limit = none → NextObs s (nextTokenRaw fuel s)
  | 0, s, hl => ⟨by simp [nextTokenRaw], Iff.rfl, hl, rfl, fun h => h⟩
  | fuel + 1, s, hl => by
    have hu := stream_unfold s.lx hl
    unfold nextTokenRaw
    rcases lexNext_cases s.lx hl with ⟨_, h⟩ | ⟨_, _, l', h, _, hl', _⟩ | ⟨_, o, l', h, _, _, hl', _⟩
    · rw [h] at hu
      simp only [h]
      exact ⟨by simp, Iff.rfl, hl, rfl, fun h => h⟩
    · rw [h] at hu
      simp only [h]
      simp only [] at hu
      exact ⟨by simp [hu, toksOf, outTok], by simp [hu, hasErr, outBad], hl', rfl, fun h => h⟩
    · rw [h] at hu
      simp only [h]
      simp only [] at hu
      cases o with
      | tok t => exact ⟨by simp [hu, toksOf, outTok], by simp [hu, hasErr, outBad], hl', rfl, fun h => h⟩
      | err d i =>
        simp only []
        have ih := nextTokenRaw_obs fuel { s with
          lx := l', pending := if d.isEmpty then s.pending else s.pending ++ [.error d],
          errors := s.errors ++ [⟨i, utf8Len d, .lexer⟩] } hl'
        refine ⟨?_, ?_, ih.limit, ih.accept, fun _ => ih.accOk (fun _ => by simp)⟩
        · rw [ih.toks]; simp [hu, toksOf, outTok, List.filterMap_cons]
        · rw [ih.doom]; simp [hu, hasErr, outBad]
      | limit i =>
        simp only []
        exfalso
        -- without a limit the lexer never reports one
        have : (lexNext s.lx).1 = some (.limit i) := by rw [h]
        unfold lexNext at this
        by_cases hf : s.lx.finished = true
        · simp [hf] at this
        · simp only [hf, Bool.false_eq_true, if_false, lexCheck_no_limit s.lx hl] at this
          cases hs : s.lx.src with
          | nil => simp [hs] at this
          | cons c rest =>
            simp only [hs] at this
            cases hr : (advance (c :: rest)).1 <;> simp [hr] at this

/-- what the rest of the development knows about a parser state: no token limit, and the error list is
    non-empty once the parser stopped accepting errors -/
structure TW (s : PState) : Prop where
  limit : s.lx.limit = none
  acc : s.acceptErrors = false → s.errors ≠ []

/-- the fields that the token-level behaviour of the parser depends on (everything but the tree) -/
structure ObsEq (s s' : PState) : Prop where
  current : s'.current = s.current
  lx : s'.lx = s.lx
  errors : s'.errors = s.errors
  accept : s'.acceptErrors = s.acceptErrors
  recCur : s'.recCur = s.recCur
  recLimit : s'.recLimit = s.recLimit

theorem ObsEq.refl (s : PState) : ObsEq s s := ⟨rfl, rfl, rfl, rfl, rfl, rfl⟩

theorem ObsEq.toks {s s' : PState} (h : ObsEq s s') : Toks s' = Toks s := by
  unfold Toks; rw [h.current, h.lx]

theorem ObsEq.doomed {s s' : PState} (h : ObsEq s s') : Doomed s' ↔ Doomed s := by
  unfold Doomed; rw [h.errors, h.lx]

theorem ObsEq.w {s s' : PState} (h : ObsEq s s') (w : TW s) : TW s' :=
  ⟨by rw [h.lx]; exact w.limit, by rw [h.accept, h.errors]; exact w.acc⟩

structure PeekObs (s s' : PState) (o : Option Tok) : Prop where
  toks : Toks s' = Toks s
  doom : Doomed s' ↔ Doomed s
  w : TW s'
  current : s'.current = o
  head : o = (Toks s).head?
  accept : s'.acceptErrors = s.acceptErrors
  recCur : s'.recCur = s.recCur
  recLimit : s'.recLimit = s.recLimit

theorem peekToken_obs (s s' : PState) (o : Option Tok) (w : TW s) (h : peekToken.run s = .ok o s') : PeekObs s s' o := by
  unfold peekToken at h
  simp only [] at h
  cases hc : s.current with
  | some t =>
    simp only [hc, Res.ok.injEq] at h
    obtain ⟨rfl, rfl⟩ := h
    exact ⟨rfl, Iff.rfl, w, hc, by simp [Toks, hc], rfl, rfl, rfl⟩
  | none =>
    simp only [hc, Res.ok.injEq] at h
    obtain ⟨rfl, rfl⟩ := h
    have ob := nextTokenRaw_obs (s.lx.src.length + 3) s w.limit
    have sp := nextToken_spec s
    have hnone : (nextToken s).1 = none → toksOf (stream (nextToken s).2.lx) = [] := by
      intro hn
      have hfin : (nextToken s).2.lx.finished = true := nextTokenRaw_none_finished _ s (by omega) hn
      show toksOf (pull _ _) = []
      rw [pull_finished _ _ hfin]
      rfl
    refine ⟨?_, ?_, ⟨ob.limit, ob.accOk w.acc⟩, rfl, ?_, ob.accept, sp.recCur, sp.recLimit⟩
    · simp only [Toks, hc, Option.toList]
      exact ob.toks
    · exact ob.doom
    · simp only [Toks, hc, Option.toList, List.nil_append]
      have e := ob.toks
      change (nextToken s).1.toList ++ toksOf (stream (nextToken s).2.lx) = _ at e
      rw [← e]
      cases hn : (nextToken s).1 with
      | none => rw [hnone hn]; rfl
      | some t => rfl

end Apollo.Parse
