import ApolloModel.Proofs.ParserTree10
/-
C08 growth (pipeline), part 11: value.rs — `value`, `list_value`, `object_value`, `object_field` in the tree calculus.
The "early" alternative is `AtEof` (a list value not closed at the end of input, reported by the caller's closing token).
-/
set_option linter.unusedSimpArgs false
set_option linter.unusedVariables false
namespace Apollo.Parse
open Apollo.Rowan hiding Str
open Apollo.Lex hiding Str
open Apollo.FromCst (ValTree ValsTree FieldsTree)

/-- ONE value `v` (well-formed for the context), built as the tree `ValTree v` -/
def ValueR (c : Bool) (cs : List Tok) (e : List Elem) : Prop :=
  ∃ v ev, TokIs cs (Ast.tValue v) ∧ valueOk c v = true ∧ e = [ev] ∧ ValTree v ev

/-! ### leaves -/

theorem tr_valueLeaf (K k : SK) (hk : isJunkKind k = false) (kd : Kind) (hni : isIgnoredKind kd = false) (hne : kd ≠ .eof)
    (c : Bool) (mk : Tok → Option (Ast.Value × Elem))
    (hmk : ∀ t, t.kind = kd → TokFact t → ∃ v, (∃ x, astOfV t = some x ∧ Ast.tValue v = [x]) ∧ valueOk c v = true ∧
      ValTree v (.node K [.tok k t.data])) :
    Tr AtEof (HeadK kd) (withNode K (bump k)) (fun _ => ValueR c) := by
  refine (tr_leaf (E := AtEof) K k hk (fun t => t.kind = kd) (by intro t h; rw [h]; exact ⟨hni, hne⟩)).mono
    (fun _ h => headP_of_headK h) ?_
  rintro _ cs e ⟨t, hkt, hf, rfl, rfl⟩
  obtain ⟨v, ⟨x, hx, hv⟩, hok, htree⟩ := hmk t hkt hf
  exact ⟨v, _, by rw [hv]; exact TokIs.single t x hx, hok, rfl, htree⟩

theorem tr_intValue (c : Bool) : Tr AtEof (HeadK .int) (withNode "INT_VALUE" (bump "INT")) (fun _ => ValueR c) :=
  tr_valueLeaf "INT_VALUE" "INT" (by decide) .int rfl (by decide) c (fun _ => none) (by
    intro t hk _
    exact ⟨.int t.data, ⟨_, by simp [astOfV, hk], rfl⟩, rfl, ValTree.int t.data⟩)

theorem tr_floatValue (c : Bool) : Tr AtEof (HeadK .float) (withNode "FLOAT_VALUE" (bump "FLOAT")) (fun _ => ValueR c) :=
  tr_valueLeaf "FLOAT_VALUE" "FLOAT" (by decide) .float rfl (by decide) c (fun _ => none) (by
    intro t hk _
    exact ⟨.float t.data, ⟨_, by simp [astOfV, hk], rfl⟩, rfl, ValTree.float t.data⟩)

theorem tr_stringValue (c : Bool) : Tr AtEof (HeadK .stringValue) (withNode "STRING_VALUE" (bump "STRING")) (fun _ => ValueR c) :=
  tr_valueLeaf "STRING_VALUE" "STRING" (by decide) .stringValue rfl (by decide) c (fun _ => none) (by
    intro t hk hf
    have hsome := hf.2 hk
    obtain ⟨sv, hsv⟩ := Option.isSome_iff_exists.mp hsome
    exact ⟨.str sv, ⟨_, by simp [astOfV, hk, hsv], rfl⟩, rfl, ValTree.str t.data sv hsv⟩)

/-- `$name` (not in a constant context) -/
theorem tr_variableNode :
    Tr AtEof (HeadK .dollar) variableNode (fun _ => ValueR false) := by
  unfold variableNode
  have hb := tr_bind (E := AtEof) early_atEof
    (tr_bump (E := AtEof) "DOLLAR" (by decide) (fun t => t.kind = .dollar) (by intro t h; rw [h]; exact ⟨rfl, by decide⟩))
    (fun _ => tr_name (E := AtEof) (H := fun _ => True))
  have hn := tr_withNode early_atEof "VARIABLE" (H := HeadP (fun t : Tok => t.kind = .dollar))
    (by rintro q ⟨t, hh, hk⟩
        cases q with
        | nil => cases hh
        | cons a b => simp only [List.head?_cons, Option.some.injEq] at hh; subst hh; exact ⟨a, b, rfl, by rw [hk]; rfl⟩) hb
  refine hn.mono (fun _ h => headP_of_headK h) ?_
  rintro _ cs e ⟨inner, rfl, _, c1, c2, e1, e2, rfl, hin, ⟨t, hk, _, rfl, rfl⟩, t2, hk2, hv2, rfl, rfl⟩
  refine ⟨.var t2.data, _, ?_, rfl, rfl, ValTree.var t2.data inner t.data hv2 (by rw [hin]; rfl)⟩
  exact TokIs.cons (by simp [astOfV, hk]) (TokIs.single t2 _ (by simp [astOfV, hk2]))

/-- `name` when the head of the queue is known: it is that token -/
theorem tr_nameAt {E : PState → Prop} (t0 : Tok) :
    Tr E (fun q => q.head? = some t0) name
      (fun _ cs e => t0.kind = .name ∧ isValidName t0.data = true ∧ cs = [t0] ∧ e = [nameNode t0.data]) := by
  unfold name
  apply tr_peekToken
  intro o
  cases o with
  | none => exact tr_absurd good_err (by rintro q ⟨h1, h2⟩; rw [h1] at h2; cases h2)
  | some t =>
    simp only []
    refine tr_ite _ (fun hk => ?_) (fun _ => tr_err)
    have hk' : t.kind = .name := by simpa using hk
    refine (tr_leaf "NAME" "IDENT" (by decide) (fun t' => t' = t ∧ t = t0)
      (by rintro t' ⟨rfl, _⟩; rw [hk']; exact ⟨rfl, by decide⟩)).mono ?_ ?_
    · rintro q ⟨h1, h2⟩
      exact ⟨t, h2, rfl, by rw [h1] at h2; injection h2 with h2; exact h2.symm⟩
    · rintro _ cs e ⟨t', ⟨rfl, rfl⟩, hv, hcs, he⟩
      exact ⟨hk', hv.1 hk', hcs, he⟩

/-- `enum_value` on a Name that is not `true`, `false`, `null` -/
theorem tr_enumValue (c : Bool) (t : Tok) (hk : t.kind = .name) (hnk : isValueKeyword t.data = false) :
    Tr AtEof (fun q => q.head? = some t) enumValue (fun _ => ValueR c) := by
  unfold enumValue
  have hsig : ∀ q : List Tok, q.head? = some t → ∃ t' rest, q = t' :: rest ∧ isIgnoredKind t'.kind = false := by
    intro q hq
    cases q with
    | nil => cases hq
    | cons a b => simp only [List.head?_cons, Option.some.injEq] at hq; subst hq; exact ⟨a, b, rfl, by rw [hk]; rfl⟩
  refine (tr_withNode (R := fun _ cs e => t.kind = .name ∧ isValidName t.data = true ∧ cs = [t] ∧ e = [nameNode t.data])
    early_atEof "ENUM_VALUE" hsig ?_).mono (fun _ h => h) ?_
  · apply tr_peekToken
    intro o
    cases o with
    | none => exact tr_absurd (good_err) (by rintro q ⟨h1, h2⟩; rw [h1] at h2; cases h2)
    | some t' =>
      simp only []
      refine tr_ite _ (fun _ => ?_) (fun _ => tr_err)
      have hkw : (kw "true" t'.data || kw "false" t'.data || kw "null" t'.data) = true → t' ≠ t := by
        intro hx he
        subst he
        simp only [isValueKeyword] at hnk
        rw [hnk] at hx
        cases hx
      refine tr_ite _ (fun hx => tr_absurd (good_bind _ _ good_err (fun _ => good_name)) ?_) (fun _ => ?_)
      · rintro q ⟨h1, h2⟩
        rw [h1] at h2
        exact hkw hx (by injection h2 with h2; exact h2.symm)
      · exact (tr_nameAt (E := AtEof) t).mono (fun _ h => h.1) (fun _ _ _ h => h)
  · rintro _ cs e ⟨inner, rfl, hk2, hv, rfl, hin⟩
    exact ⟨.enum t.data, _, TokIs.single t _ (by simp [astOfV, hk2]),
      by simp [valueOk, hnk], rfl, ValTree.enum t.data inner hv hin⟩


/-! ### lists -/

def ListFin (cs : List Tok) (e : List Elem) : Prop := ∃ t, t.kind = .rBracket ∧ cs = [t] ∧ e = [Elem.tok "R_BRACK" t.data]

def listStep (n : Nat) (c : Bool) (node : Kind) : PI Bool :=
  if node == .rBracket then (bump "R_BRACK" >>= fun _ => pure false)
  else if node == .eof then pure false
  else withRec (limitErr >>= fun _ => pure false) (value n c true >>= fun _ => pure true)

theorem listValue_eq (n : Nat) (c : Bool) :
    listValue (n + 1) c = withNode "LIST_VALUE" (bump "L_BRACK" >>= fun _ => peekWhile (listStep n c)) := rfl

theorem tr_outOfFuel {α : Type} {E : PState → Prop} {H : List Tok → Prop} {R : α → List Tok → List Elem → Prop} :
    Tr E H (PI.outOfFuel : PI α) R :=
  ⟨good_outOfFuel, by intro s a s' _ _ _ _ _ h; simp [PI.outOfFuel] at h⟩

theorem tr_listStep (n : Nat) (c : Bool) (hv : Tr AtEof (fun _ => True) (value n c true) (fun _ => ValueR c)) (k : Kind) :
    Tr AtEof (HeadK k) (listStep n c k) (fun b cs e => (b = true ∧ ValueR c cs e) ∨ (b = false ∧ ListFin cs e)) := by
  unfold listStep
  refine tr_ite _ (fun hk => ?_) (fun hk => tr_ite _ (fun hk2 => ?_) (fun _ => ?_))
  · have hk' : k = .rBracket := by simpa using hk
    subst hk'
    refine (tr_bind early_atEof (tr_bump (E := AtEof) "R_BRACK" (by decide) (fun t => t.kind = .rBracket)
      (by intro t h; rw [h]; exact ⟨rfl, by decide⟩)) (fun _ => tr_pure AtEof _ false)).mono (fun _ h => headP_of_headK h) ?_
    rintro b cs e ⟨_, c1, c2, e1, e2, rfl, rfl, ⟨t, hk, _, rfl, rfl⟩, rfl, rfl, rfl⟩
    exact Or.inr ⟨rfl, t, hk, by simp, by simp⟩
  · have hk' : k = .eof := by simpa using hk2
    subst hk'
    exact tr_stopAtEof false
  · refine (tr_withRec early_atEof (tr_limitErr_then _ (good_pure _))
      (tr_bind early_atEof hv (fun _ => tr_pure AtEof _ true))).mono (fun _ _ => trivial) ?_
    rintro b cs e ⟨_, c1, c2, e1, e2, rfl, rfl, hval, rfl, rfl, rfl⟩
    exact Or.inl ⟨rfl, by simpa using hval⟩

theorem itemsT_values (c : Bool) : ∀ (cs : List Tok) (e : List Elem), ItemsT (ValueR c) cs e →
    ∃ vs, TokIs cs (Ast.tValues vs) ∧ valuesOk c vs = true ∧ ValsTree vs e := by
  rintro cs e ⟨items, rfl, rfl, hall⟩
  induction items with
  | nil => exact ⟨.nil, TokIs.nil, rfl, ValsTree.nil⟩
  | cons i items ih =>
    obtain ⟨vs, h1, h2, h3⟩ := ih (fun j hj => hall j (List.mem_cons_of_mem _ hj))
    obtain ⟨v, ev, hv1, hv2, hv3, hv4⟩ := hall i List.mem_cons_self
    refine ⟨.cons v vs, ?_, by simp [valuesOk, hv2, h2], ?_⟩
    · simp only [List.map_cons, List.flatten_cons, Ast.tValues]
      exact hv1.append h1
    · simp only [List.map_cons, List.flatten_cons, hv3]
      exact ValsTree.cons v ev vs _ hv4 h3

theorem hsig_headK (k : Kind) (hni : isIgnoredKind k = false) :
    ∀ q : List Tok, HeadK k q → ∃ t rest, q = t :: rest ∧ isIgnoredKind t.kind = false := by
  intro q hq
  obtain ⟨t, hh, hk⟩ := headP_of_headK hq
  cases q with
  | nil => cases hh
  | cons a b => simp only [List.head?_cons, Option.some.injEq] at hh; subst hh; exact ⟨a, b, rfl, by rw [hk]; exact hni⟩

/-- `[ Value* ]` -/
theorem tr_listValue (n : Nat) (c : Bool) (hv : Tr AtEof (fun _ => True) (value n c true) (fun _ => ValueR c)) :
    Tr AtEof (HeadK .lBracket) (listValue (n + 1) c) (fun _ => ValueR c) := by
  rw [listValue_eq]
  have hloop := tr_while (E := AtEof) early_atEof (H := fun _ => True) (listStep n c) (ValueR c) ListFin (tr_listStep n c hv)
  have hb := tr_bind early_atEof (tr_bump (E := AtEof) "L_BRACK" (by decide) (fun t => t.kind = .lBracket)
    (by intro t h; rw [h]; exact ⟨rfl, by decide⟩)) (fun _ => hloop)
  refine (tr_withNode early_atEof "LIST_VALUE" (headP_sig (P := fun t : Tok => t.kind = .lBracket) (L := fun _ => True) (by
    intro t hk; exact ⟨by rw [hk]; rfl, by rw [hk]; decide, .p .lBracket, by simp [astOfV, hk], trivial⟩)) hb).mono
    (fun _ h => headP_of_headK h) ?_
  rintro _ cs e ⟨inner, rfl, _, c1, c2, e1, e2, rfl, hin, ⟨t, hk, _, rfl, rfl⟩, x1, x2, y1, y2, rfl, rfl, hitems, t2, hk2, rfl, rfl⟩
  obtain ⟨vs, h1, h2, h3⟩ := itemsT_values c x1 y1 hitems
  refine ⟨.list vs, _, ?_, by simpa [valueOk] using h2, rfl, ValTree.list vs inner y1 t.data t2.data h3 (by rw [hin]; simp)⟩
  have ha : TokIs [t] [Ast.Tok.p .lBracket] := TokIs.single t _ (by simp [astOfV, hk])
  have hb' : TokIs [t2] [Ast.Tok.p .rBracket] := TokIs.single t2 _ (by simp [astOfV, hk2])
  have := ha.append (h1.append hb')
  simpa [Ast.tValue] using this

/-! ### objects -/

/-- one object field `name : Value`, built as `OBJECT_FIELD[NAME, COLON, value]` -/
def FieldR (c : Bool) (cs : List Tok) (e : List Elem) : Prop :=
  ∃ nm v ev inner col, TokIs cs (.name nm :: .p .colon :: Ast.tValue v) ∧ valueOk c v = true ∧ isValidName nm = true ∧
    e = [Elem.node "OBJECT_FIELD" inner] ∧ sigE inner = [nameNode nm, .tok "COLON" col, ev] ∧ ValTree v ev

theorem tr_objectField (n : Nat) (c : Bool) (hv : Tr AtEof (fun _ => True) (value n c true) (fun _ => ValueR c)) :
    Tr AtEof (HeadK .name) (objectField (n + 1) c) (fun _ => FieldR c) := by
  unfold objectField
  have hval : Tr AtEof (fun _ => True) (withRec limitErr (value n c true)) (fun _ => ValueR c) :=
    tr_withRec early_atEof (tr_never acc_limitErr) hv
  have hcolon := tr_bind early_atEof (tr_bump (E := AtEof) "COLON" (by decide) (fun t => t.kind = .colon)
    (by intro t h; rw [h]; exact ⟨rfl, by decide⟩)) (fun _ => hval)
  have hrest : Tr AtEof (fun _ => True) (peek >>= fun k => if k == some Kind.colon then
      (bump "COLON" >>= fun _ => withRec limitErr (value n c true)) else err)
      (fun _ cs e => ∃ (t : Tok) (v : Ast.Value) (ev : Elem), t.kind = Kind.colon ∧ TokIs cs (.p .colon :: Ast.tValue v) ∧ valueOk c v = true ∧
        e = [Elem.tok "COLON" t.data, ev] ∧ ValTree v ev) := by
    refine (tr_ifKind .colon _ _ _ (hcolon.mono (fun q hq => ?_) (fun _ _ _ h => h)) tr_err).mono (fun _ h => h) ?_
    · obtain ⟨t, hh, hk⟩ := hq; exact ⟨t, hh, by simpa using hk⟩
    · rintro _ cs e ⟨_, c1, c2, e1, e2, rfl, rfl, ⟨t, hk, _, rfl, rfl⟩, v, ev, h1, h2, rfl, h4⟩
      exact ⟨t, v, ev, hk, TokIs.cons (by simp [astOfV, hk]) h1, h2, rfl, h4⟩
  have hb := tr_bind early_atEof (tr_name (E := AtEof) (H := HeadK .name)) (fun _ => hrest)
  refine (tr_withNode early_atEof "OBJECT_FIELD" (hsig_headK .name rfl) hb).mono (fun _ h => h) ?_
  rintro _ cs e ⟨inner, rfl, _, c1, c2, e1, e2, rfl, hin, ⟨t, hk, hvn, rfl, rfl⟩, t2, v, ev, hk2, h1, h2, rfl, h4⟩
  exact ⟨t.data, v, ev, inner, t2.data, TokIs.cons (by simp [astOfV, hk]) h1, h2, hvn, rfl, by rw [hin]; rfl, h4⟩

theorem itemsT_fields (c : Bool) : ∀ (cs : List Tok) (e : List Elem), ItemsT (FieldR c) cs e →
    ∃ fs, TokIs cs (Ast.tObjFields fs) ∧ fieldsOk c fs = true ∧ FieldsTree fs e := by
  rintro cs e ⟨items, rfl, rfl, hall⟩
  induction items with
  | nil => exact ⟨.nil, TokIs.nil, rfl, FieldsTree.nil⟩
  | cons i items ih =>
    obtain ⟨fs, h1, h2, h3⟩ := ih (fun j hj => hall j (List.mem_cons_of_mem _ hj))
    obtain ⟨nm, v, ev, inner, col, hv1, hv2, hvn, hv3, hv4, hv5⟩ := hall i List.mem_cons_self
    refine ⟨.cons nm v fs, ?_, by simp [fieldsOk, hv2, h2], ?_⟩
    · simp only [List.map_cons, List.flatten_cons, Ast.tObjFields]
      have := hv1.append h1
      simpa [List.append_assoc] using this
    · simp only [List.map_cons, List.flatten_cons, hv3]
      exact FieldsTree.cons nm v ev inner col fs _ hvn hv5 hv4 h3

/-- `{ ObjectField* }` -/
theorem tr_objectValue (n : Nat) (c : Bool) (hf : Tr AtEof (HeadK .name) (objectField n c) (fun _ => FieldR c)) :
    Tr AtEof (HeadK .lCurly) (objectValue (n + 1) c) (fun _ => ValueR c) := by
  unfold objectValue
  have hloop := tr_kindWhile (E := AtEof) early_atEof (H := fun _ => True) .name (objectField n c) (FieldR c)
    (hf.mono (fun q hq => by obtain ⟨t, hh, hk⟩ := hq; unfold HeadK; rw [hh]; simpa using hk) (fun _ _ _ h => h))
  have hclose := tr_expect (E := AtEof) (H := fun _ => True) .rCurly "R_CURLY" (by decide) rfl (by decide)
  have hb := tr_bind early_atEof (tr_bump (E := AtEof) "L_CURLY" (by decide) (fun t => t.kind = .lCurly)
    (by intro t h; rw [h]; exact ⟨rfl, by decide⟩)) (fun _ => tr_bind early_atEof hloop (fun _ => hclose))
  refine (tr_withNode early_atEof "OBJECT_VALUE" (hsig_headK .lCurly rfl) (hb.mono (fun _ h => headP_of_headK h) (fun _ _ _ h => h))).mono
    (fun _ h => h) ?_
  rintro _ cs e ⟨inner, rfl, _, c1, c2, e1, e2, rfl, hin, ⟨t, hk, _, rfl, rfl⟩, _, x1, x2, y1, y2, rfl, rfl, hitems, t2, hk2, rfl, rfl⟩
  obtain ⟨fs, h1, h2, h3⟩ := itemsT_fields c x1 y1 hitems
  refine ⟨.obj fs, _, ?_, by simpa [valueOk] using h2, rfl, ValTree.obj fs inner y1 t.data t2.data h3 (by rw [hin]; simp)⟩
  have ha : TokIs [t] [Ast.Tok.p .lCurly] := TokIs.single t _ (by simp [astOfV, hk])
  have hb' : TokIs [t2] [Ast.Tok.p .rCurly] := TokIs.single t2 _ (by simp [astOfV, hk2])
  have := ha.append (h1.append hb')
  simpa [Ast.tValue] using this


/-! ### `value` -/

theorem acc_errThen {α : Type} {E : PState → Prop} {H : List Tok → Prop} (p : Bool) (rest : PI α) (hg : Good rest) :
    Acc E H ((if p = true then errAndPop else err) >>= fun _ => rest) (fun _ _ => False) := by
  cases p
  · simpa using acc_err' (E := E) (H := H) rest hg (R := fun _ _ => False)
  · simpa using acc_errAndPop' (E := E) (H := H) rest hg (R := fun _ _ => False)

theorem good_variableNode' : Good variableNode :=
  good_withNode _ _ (good_bind _ _ (good_bump _) (fun _ => good_name))

theorem tr_errOrPop {E : PState → Prop} {H : List Tok → Prop} (p : Bool) {R : Unit → List Tok → List Elem → Prop} :
    Tr E H (if p = true then errAndPop else err) R := by
  cases p
  · simpa using (tr_err (E := E) (H := H) (R := R))
  · simpa using (tr_errAndPop (E := E) (H := H) (R := R))

/-- a keyword leaf (`true`, `false`, `null`) -/
theorem tr_kwLeaf (K k : SK) (hk : isJunkKind k = false) (c : Bool) (t : Tok) (hkn : t.kind = .name) (v : Ast.Value)
    (hv : Ast.tValue v = [.name t.data]) (hok : valueOk c v = true) (htree : ValTree v (.node K [.tok k t.data])) :
    Tr AtEof (fun q => q.head? = some t) (withNode K (bump k)) (fun _ => ValueR c) := by
  refine (tr_leaf (E := AtEof) K k hk (fun t' => t' = t) (by rintro t' rfl; rw [hkn]; exact ⟨rfl, by decide⟩)).mono
    (fun q hq => ⟨t, hq, rfl⟩) ?_
  rintro _ cs e ⟨t', rfl, _, rfl, rfl⟩
  exact ⟨v, _, by rw [hv]; exact TokIs.single t' _ (by simp [astOfV, hkn]), hok, rfl, htree⟩

theorem tr_assume {α : Type} {E : PState → Prop} {H : List Tok → Prop} {m : PI α} {R : α → List Tok → List Elem → Prop}
    {P : Prop} (hg : Good m) (h : P → Tr E H m R) : Tr E (fun q => H q ∧ P) m R :=
  ⟨hg, fun s a s' w hi he hlq hq hr hnd => (h hq.2).2 s a s' w hi he hlq hq.1 hr hnd⟩

theorem tr_valueStep (n : Nat) (hl : ∀ c, Tr AtEof (HeadK .lBracket) (listValue n c) (fun _ => ValueR c))
    (ho : ∀ c, Tr AtEof (HeadK .lCurly) (objectValue n c) (fun _ => ValueR c)) (c p : Bool) :
    Tr AtEof (fun _ => True) (value (n + 1) c p) (fun _ => ValueR c) := by
  unfold value
  apply tr_peek
  intro k
  cases k with
  | none => exact tr_errOrPop p
  | some kk =>
    cases kk <;> simp only [] <;> first
      | exact tr_errOrPop p
      | exact (tr_intValue c).mono (fun _ h => h.2) (fun _ _ _ h => h)
      | exact (tr_floatValue c).mono (fun _ h => h.2) (fun _ _ _ h => h)
      | exact (tr_stringValue c).mono (fun _ h => h.2) (fun _ _ _ h => h)
      | exact (hl c).mono (fun _ h => h.2) (fun _ _ _ h => h)
      | exact (ho c).mono (fun _ h => h.2) (fun _ _ _ h => h)
      | (-- `$`
         refine tr_ite _ (fun _ => tr_never (acc_errThen p _ good_variableNode')) (fun hc => ?_)
         have hc' : c = false := by simpa using hc
         subst hc'
         exact tr_variableNode.mono (fun _ h => h.2) (fun _ _ _ h => h))
      | (-- a Name
         apply tr_peekToken
         intro o
         cases o with
         | none => exact tr_absurd (good_pure _) (by rintro q ⟨⟨_, h1⟩, h2⟩; rw [h2] at h1; cases h1)
         | some t =>
           simp only []
           refine Tr.mono (H := fun q => q.head? = some t ∧ t.kind = Kind.name) ?_
             (by rintro q ⟨⟨_, h1⟩, h2⟩; refine ⟨h2, ?_⟩; rw [h2] at h1; simpa using h1) (fun _ _ _ h => h)
           refine tr_ite _ (fun h1 => ?_) (fun h1 => tr_ite _ (fun h2 => ?_) (fun h2 => tr_ite _ (fun h3 => ?_) (fun h3 => ?_)))
           · refine tr_assume (good_withNode _ _ (good_bump _)) (fun hkn => ?_)
             exact tr_kwLeaf "BOOLEAN_VALUE" "true_KW" (by decide) c t hkn (.bool true) (by rw [kw_eq h1]; rfl) rfl
               (by rw [kw_eq h1]; exact ValTree.tru)
           · refine tr_assume (good_withNode _ _ (good_bump _)) (fun hkn => ?_)
             exact tr_kwLeaf "BOOLEAN_VALUE" "false_KW" (by decide) c t hkn (.bool false) (by rw [kw_eq h2]; rfl) rfl
               (by rw [kw_eq h2]; exact ValTree.fls)
           · refine tr_assume (good_withNode _ _ (good_bump _)) (fun hkn => ?_)
             exact tr_kwLeaf "NULL_VALUE" "null_KW" (by decide) c t hkn .null (by rw [kw_eq h3]; rfl) rfl (ValTree.null _)
           · refine tr_assume good_enumValue (fun hkn => ?_)
             refine tr_enumValue c t hkn ?_
             simp only [isValueKeyword]
             simp [h1, h2, h3])


/-! ### the induction -/

structure ValAll (n : Nat) : Prop where
  value : ∀ c p, Tr AtEof (fun _ => True) (value n c p) (fun _ => ValueR c)
  list : ∀ c, Tr AtEof (HeadK .lBracket) (listValue n c) (fun _ => ValueR c)
  obj : ∀ c, Tr AtEof (HeadK .lCurly) (objectValue n c) (fun _ => ValueR c)
  field : ∀ c, Tr AtEof (HeadK .name) (objectField n c) (fun _ => FieldR c)

theorem valAll : ∀ n, ValAll n
  | 0 => ⟨fun _ _ => by unfold value; exact tr_outOfFuel, fun _ => by unfold listValue; exact tr_outOfFuel,
      fun _ => by unfold objectValue; exact tr_outOfFuel, fun _ => by unfold objectField; exact tr_outOfFuel⟩
  | n + 1 =>
    have ih := valAll n
    ⟨fun c p => tr_valueStep n ih.list ih.obj c p, fun c => tr_listValue n c (ih.value c true),
      fun c => tr_objectValue n c (ih.field c), fun c => tr_objectField n c (ih.value c true)⟩

/-- **value.rs**: an error-free run of `value` consumed the tokens `tValue v` of ONE value `v` (well-formed for the
    context) and appended exactly one element (after junk), the tree `ValTree v` — or it stopped at the end of input
    inside an unclosed list -/
theorem tr_value (n : Nat) (c p : Bool) : Tr AtEof (fun _ => True) (value n c p) (fun _ => ValueR c) := (valAll n).value c p

/-- `expect` on a closing token rules out the "stopped at the end of input" alternative of what precedes -/
theorem tr_close {α : Type} {H : List Tok → Prop} {m : PI α} {R : α → List Tok → List Elem → Prop}
    (token : Kind) (sk : SK) (hk : isJunkKind sk = false) (hni : isIgnoredKind token = false) (hne : token ≠ .eof)
    (h : Tr AtEof H m R) :
    Tr NoE H (m >>= fun _ => expect token sk)
      (fun _ cs e => ∃ a c1 e1 t, cs = c1 ++ [t] ∧ e = e1 ++ [Elem.tok sk t.data] ∧ t.kind = token ∧ R a c1 e1) := by
  refine ⟨good_bind _ _ h.1 (fun _ => good_expect token sk), ?_⟩
  intro s b s'' w hi he hlq hq hr hnd
  obtain ⟨a, s', hr1, hr2⟩ := bind_dec m _ s s'' b hr
  have ad := h.1 s a s' w hr1
  have hi' := (run_inv_added m s hi a s' hr1).1
  have hnd' : ¬ Doomed s' := fun d => hnd ((good_expect token sk s' b s'' ad.w hr2).doom d)
  obtain ⟨c1, d1, t1, n1, e1, b1, r1⟩ := h.2 s a s' w hi he hlq hq hr1 hnd'
  obtain ⟨c2, d2, t2, n2, e2, b2, r2⟩ := (tr_expect (E := NoE) (H := fun _ => True) token sk hk hni hne).2 s' b s'' ad.w hi' e1
    (LQ.suffix (cs := c1) (by rw [← t1]; exact hlq)) trivial hr2 hnd
  refine ⟨c1 ++ c2, d1 ++ d2, by rw [t1, t2, List.append_assoc], noEof_append n1 n2, e2, by rw [b2, b1, List.append_assoc], Or.inl ?_⟩
  rcases r2 with ⟨t, hkt, hc2, hd2⟩ | f
  · rcases r1 with r1 | ⟨e0, hh, hke⟩
    · exact ⟨a, sig c1, sigE d1, t, by rw [sig_append, hc2], by rw [sigE_append, hd2], hkt, r1⟩
    · -- at the end of input the closing token cannot have been there
      exfalso
      have hsig : sig c2 = [t] := hc2
      have hmem : t ∈ c2 := by
        have : t ∈ sig c2 := by rw [hsig]; simp
        exact (List.mem_filter.mp this).1
      have hne0 : c2 ≠ [] := by intro h0; rw [h0] at hmem; cases hmem
      cases c2 with
      | nil => exact hne0 rfl
      | cons x xs =>
        rw [t2] at hh
        simp only [List.cons_append, List.head?_cons, Option.some.injEq] at hh
        subst hh
        exact n2 x (by simp) hke
  · exact absurd f id

end Apollo.Parse
