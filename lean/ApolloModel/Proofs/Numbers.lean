import ApolloModel.Model.Numbers
import ApolloModel.Proofs.Coordinate
namespace Apollo.Num
open Apollo
open Apollo.Coord (splitOnce splitOnce_spec splitOnce_append splitOnce_none)

def isE (c : Char) : Bool := c == 'e' || c == 'E'

theorem splitOnceE_spec : ∀ (s a b : Str), splitOnceE s = some (a, b) →
    ∃ c, s = a ++ c :: b ∧ isE c = true ∧ ∀ x ∈ a, isE x = false
  | [], a, b, h => by simp [splitOnceE] at h
  | x :: xs, a, b, h => by
    unfold splitOnceE at h
    by_cases hx : (x == 'e' || x == 'E') = true
    · simp only [hx, if_true, Option.some.injEq, Prod.mk.injEq] at h
      obtain ⟨rfl, rfl⟩ := h
      exact ⟨x, by simp, hx, by simp⟩
    · simp only [hx, Bool.false_eq_true, if_false] at h
      cases hr : splitOnceE xs with
      | none => simp [hr] at h
      | some p =>
        obtain ⟨a', b'⟩ := p
        simp only [hr, Option.some.injEq, Prod.mk.injEq] at h
        obtain ⟨rfl, rfl⟩ := h
        obtain ⟨c, e, hc, ha⟩ := splitOnceE_spec xs a' b' hr
        refine ⟨c, by simp [e], hc, ?_⟩
        intro y hy
        rcases List.mem_cons.mp hy with rfl | hy
        · simpa [isE] using hx
        · exact ha y hy

theorem splitOnceE_append : ∀ (a : Str) (c : Char) (b : Str), isE c = true → (∀ x ∈ a, isE x = false) →
    splitOnceE (a ++ c :: b) = some (a, b)
  | [], c, b, hc, _ => by
    have : (c == 'e' || c == 'E') = true := hc
    simp [splitOnceE, this]
  | x :: xs, c, b, hc, h => by
    have hx : (x == 'e' || x == 'E') = false := h x (by simp)
    have ih := splitOnceE_append xs c b hc (fun y hy => h y (by simp [hy]))
    simp [splitOnceE, hx, ih]

theorem splitOnceE_none : ∀ (s : Str), (∀ x ∈ s, isE x = false) → splitOnceE s = none
  | [], _ => rfl
  | x :: xs, h => by
    have hx : (x == 'e' || x == 'E') = false := h x (by simp)
    simp [splitOnceE, hx, splitOnceE_none xs (fun y hy => h y (by simp [hy]))]

/-! ### the October 2021 grammar, as explicit decompositions -/

/-- IntegerPart :: NegativeSign? 0 | NegativeSign? NonZeroDigit Digit* -/
def SpecIntegerPart (s : Str) : Prop :=
  ∃ ds, (s = ds ∨ s = '-' :: ds) ∧
    (ds = ['0'] ∨ ∃ d rest, ds = d :: rest ∧ isNonZeroDigit d = true ∧ allDigits rest = true)

/-- FractionalPart :: . Digit+ -/
def SpecFractionalPart (f : Str) : Prop := ∃ ds, f = '.' :: ds ∧ ds ≠ [] ∧ allDigits ds = true

/-- ExponentPart :: ExponentIndicator Sign? Digit+ -/
def SpecExponentPart (e : Str) : Prop :=
  ∃ c sign ds, e = c :: (sign ++ ds) ∧ isE c = true ∧ (sign = [] ∨ sign = ['+'] ∨ sign = ['-']) ∧
    ds ≠ [] ∧ allDigits ds = true

/-- FloatValue :: IntegerPart FractionalPart ExponentPart | IntegerPart FractionalPart | IntegerPart ExponentPart -/
def SpecFloat (s : Str) : Prop :=
  ∃ i f e, s = i ++ f ++ e ∧ SpecIntegerPart i ∧
    ((SpecFractionalPart f ∧ SpecExponentPart e) ∨ (SpecFractionalPart f ∧ e = []) ∨ (f = [] ∧ SpecExponentPart e))

theorem nonzero_is_digit {c : Char} (h : isNonZeroDigit c = true) : isAsciiDigit c = true := by
  simp only [isNonZeroDigit, isAsciiDigit, Bool.and_eq_true, decide_eq_true_eq] at *
  refine ⟨?_, h.2⟩
  exact Char.le_trans (by decide) h.1

theorem digit_ne {c : Char} (h : isAsciiDigit c = true) : c ≠ '-' ∧ c ≠ '+' ∧ c ≠ '.' ∧ isE c = false := by
  simp only [isAsciiDigit, Bool.and_eq_true, decide_eq_true_eq] at h
  have h1 : 48 ≤ c.toNat := h.1
  have h2 : c.toNat ≤ 57 := h.2
  refine ⟨?_, ?_, ?_, ?_⟩
  · rintro rfl; simp at h1
  · rintro rfl; simp at h1
  · rintro rfl; simp at h1
  · simp only [isE, Bool.or_eq_false_iff, beq_eq_false_iff_ne]
    constructor <;> (rintro rfl; simp at h2)

theorem validUnsigned_iff (ds : Str) :
    validUnsigned ds = true ↔ (ds = ['0'] ∨ ∃ d rest, ds = d :: rest ∧ isNonZeroDigit d = true ∧ allDigits rest = true) := by
  match ds with
  | [] => simp [validUnsigned]
  | [c] =>
    simp only [validUnsigned]
    constructor
    · intro h
      by_cases hz : c = '0'
      · left; simp [hz]
      · right
        refine ⟨c, [], rfl, ?_, by simp [allDigits]⟩
        simp only [isAsciiDigit, isNonZeroDigit, Bool.and_eq_true, decide_eq_true_eq] at *
        refine ⟨?_, h.2⟩
        have h1 : 48 ≤ c.toNat := h.1
        have : c.toNat ≠ 48 := fun e => hz (by have h0 := Char.ofNat_toNat c; rw [e] at h0; exact h0.symm)
        show 49 ≤ c.toNat
        omega
    · rintro (h | ⟨d, rest, h, hd, _⟩)
      · simp only [List.cons.injEq, and_true] at h; subst h; decide
      · simp only [List.cons.injEq] at h; obtain ⟨rfl, _⟩ := h; exact nonzero_is_digit hd
  | c :: c' :: rest =>
    simp only [validUnsigned, Bool.and_eq_true]
    constructor
    · intro h; right; exact ⟨c, c' :: rest, rfl, h.1, h.2⟩
    · rintro (h | ⟨d, r, h, hd, hr⟩)
      · simp at h
      · simp only [List.cons.injEq] at h; obtain ⟨rfl, rfl⟩ := h; exact ⟨hd, hr⟩

theorem unsigned_head_ne_minus {ds : Str} (h : validUnsigned ds = true) : ∀ r, ds ≠ '-' :: r := by
  intro r e
  subst e
  rcases (validUnsigned_iff _).mp h with h | ⟨d, rest, h, hd, _⟩
  · simp at h
  · simp only [List.cons.injEq] at h
    obtain ⟨rfl, _⟩ := h
    exact absurd rfl (digit_ne (nonzero_is_digit hd)).1

/-- `IntValue::valid_syntax` accepts exactly the spec's IntegerPart (= IntValue token text). -/
theorem int_valid_iff_spec (s : Str) : validInt s = true ↔ SpecIntegerPart s := by
  unfold validInt SpecIntegerPart
  constructor
  · intro h
    match s, h with
    | '-' :: rest, h => exact ⟨rest, Or.inr rfl, (validUnsigned_iff _).mp (by simpa [stripMinus] using h)⟩
    | [], h => simp [stripMinus, validUnsigned] at h
    | c :: rest, h =>
      by_cases hc : c = '-'
      · subst hc; exact ⟨rest, Or.inr rfl, (validUnsigned_iff _).mp (by simpa [stripMinus] using h)⟩
      · have : stripMinus (c :: rest) = c :: rest := by
          unfold stripMinus; split
          · rename_i heq; simp at heq; exact absurd heq.1 hc
          · rfl
        rw [this] at h
        exact ⟨c :: rest, Or.inl rfl, (validUnsigned_iff _).mp h⟩
  · rintro ⟨ds, hs, hds⟩
    have hv := (validUnsigned_iff ds).mpr hds
    rcases hs with hs | hs
    · rw [hs]
      have : stripMinus ds = ds := by
        unfold stripMinus; split
        · rename_i r; exact absurd rfl (unsigned_head_ne_minus hv r)
        · rfl
      rw [this]; exact hv
    · rw [hs]; simpa [stripMinus] using hv

end Apollo.Num
