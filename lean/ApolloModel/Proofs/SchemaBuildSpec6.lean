import ApolloModel.Proofs.SchemaBuildSpec5
import ApolloModel.Model.SchemaNames
/-
C14 growth 3, sixth part: the non-emptiness rule on the built schema.  Needs two more (unconditional)
invariants of the builder: the names of `schema.types` are pairwise different, and an entry is flagged
built-in iff it is one of the initial entries.
-/
namespace Apollo.SchemaBuild
open Apollo.SchemaNames

structure Inv2 (pre : List Def) (s : Builder) : Prop where
  nodup : (s.types.map (·.name)).Nodup
  flag : ∀ t ∈ s.types, (t.builtin = true ∧ t.name ∈ builtinTypeNames) ∨ (t.builtin = false ∧ t.name ∈ typeDefNames pre)

theorem adoptFold_builtin (k : Kind) : ∀ (exts : List Def) (acc : TypeEntry × List Err),
    (exts.foldl (adoptStep k) acc).1.builtin = acc.1.builtin := by
  intro exts
  induction exts with
  | nil => intro acc; rfl
  | cons e r ih =>
    intro acc
    rw [List.foldl_cons, ih]
    unfold adoptStep
    by_cases h : e.tag = .typeExt k
    · rw [if_pos h]; rfl
    · rw [if_neg h]

theorem typeFromAst_builtin (k : Kind) (d : Def) (exts : List Def) (errs : List Err) :
    (typeFromAst k d exts errs).1.builtin = false := by
  unfold typeFromAst
  rw [adoptFold_builtin]; rfl

theorem typeDefNames_mono (pre : List Def) (d : Def) {n : Name} (h : n ∈ typeDefNames pre) : n ∈ typeDefNames (pre ++ [d]) := by
  rw [typeDefNames_snoc]; exact List.mem_append_left _ h

theorem Inv2_same {pre : List Def} {s s' : Builder} {d : Def} (h : Inv2 pre s) (ht : s'.types = s.types) : Inv2 (pre ++ [d]) s' := by
  refine ⟨by rw [ht]; exact h.nodup, ?_⟩
  intro t hmem
  rw [ht] at hmem
  rcases h.flag t hmem with h1 | h1
  · exact Or.inl h1
  · exact Or.inr ⟨h1.1, typeDefNames_mono pre d h1.2⟩

theorem find_none_not_mem {ts : List TypeEntry} {n : Name} (h : findType ts n = none) : n ∉ ts.map (fun t : TypeEntry => t.name) := by
  unfold findType at h
  rw [List.find?_eq_none] at h
  intro hmem
  obtain ⟨t, ht, hn⟩ := List.mem_map.mp hmem
  exact h t ht (by simp [hn])

theorem setType_names (ts : List TypeEntry) (n : Name) (t' : TypeEntry) (h : t'.name = n) :
    (setType ts n t').map (·.name) = ts.map (·.name) := by
  unfold setType
  rw [List.map_map]
  apply List.map_congr_left
  intro t _
  by_cases hn : t.name = n
  · simp [hn, h]
  · simp [hn]

theorem step_Inv2 (pre : List Def) (s : Builder) (d : Def) (h : Inv2 pre s) : Inv2 (pre ++ [d]) (step s d) := by
  cases htag : d.tag with
  | schemaDef => rw [step_schemaDef s d htag]; exact Inv2_same h (stepSchemaDef_frame s d).2.2.1
  | schemaExt => rw [step_schemaExt s d htag]; exact Inv2_same h (stepSchemaExt_frame s d).2.2.1
  | directiveDef =>
    have heq : step s d = stepDirectiveDef s d := by unfold step; rw [htag]
    rw [heq]; exact Inv2_same h (stepDirectiveDef_frame s d).2.2.1
  | operation =>
    have heq : step s d = push s d.pos (.executableDefinition false) := by unfold step; rw [htag]
    rw [heq]; exact Inv2_same h rfl
  | fragment =>
    have heq : step s d = push s d.pos (.executableDefinition true) := by unfold step; rw [htag]
    rw [heq]; exact Inv2_same h rfl
  | typeDef k =>
    have heq : step s d = stepTypeDef s k d := by unfold step; rw [htag]
    rw [heq]
    have hdk : d.defKind = some k := (defKind_some d k).mpr htag
    cases hf : findType s.types d.name with
    | none =>
      have heq : stepTypeDef s k d = { s with types := s.types ++ [(typeFromAst k d (s.orphanQ.filter (fun e => e.name == d.name)) s.errors).1], orphanQ := s.orphanQ.filter (fun e => !(e.name == d.name)), errors := (typeFromAst k d (s.orphanQ.filter (fun e => e.name == d.name)) s.errors).2 } := by
        unfold stepTypeDef; rw [hf]
      rw [heq]
      have hname := (typeFromAst_spec k d (s.orphanQ.filter (fun e => e.name == d.name)) s.errors).1
      refine ⟨?_, ?_⟩
      · show ((s.types ++ [_]).map (fun t : TypeEntry => t.name)).Nodup
        rw [List.map_append, List.nodup_append]
        refine ⟨h.nodup, by simp, ?_⟩
        intro a ha b hb hab
        have : b = d.name := by simpa [hname] using hb
        exact find_none_not_mem hf (by rw [← this, ← hab]; exact ha)
      · intro t hmem
        change t ∈ s.types ++ [_] at hmem
        rcases List.mem_append.mp hmem with hm | hm
        · rcases h.flag t hm with h1 | h1
          · exact Or.inl h1
          · exact Or.inr ⟨h1.1, typeDefNames_mono pre d h1.2⟩
        · have : t = (typeFromAst k d (s.orphanQ.filter (fun e => e.name == d.name)) s.errors).1 := by simpa using hm
          right
          rw [this]
          refine ⟨typeFromAst_builtin _ _ _ _, ?_⟩
          rw [hname, typeDefNames_snoc, hdk]
          simp
    | some prev =>
      have : (stepTypeDef s k d).types = s.types := by
        unfold stepTypeDef
        rw [hf]
        by_cases h1 : (s.ignoreBuiltin && prev.builtin) = true
        · simp only [h1, if_true]
        · by_cases h2 : (k == Kind.scalar && prev.builtin) = true
          · simp only [h1, h2]; rfl
          · simp only [h1, h2]; rfl
      exact Inv2_same h this
  | typeExt k =>
    have heq : step s d = stepTypeExt s k d := by unfold step; rw [htag]
    rw [heq]
    cases hf : findType s.types d.name with
    | none =>
      have : (stepTypeExt s k d).types = s.types := by unfold stepTypeExt; rw [hf]
      exact Inv2_same h this
    | some t =>
      by_cases hk : t.kind = k
      · have heq : stepTypeExt s k d = { s with types := setType s.types d.name (extendType t d s.errors).1, errors := (extendType t d s.errors).2 } := by
          unfold stepTypeExt; rw [hf]; simp [hk]
        rw [heq]
        have hname0 : t.name = d.name := findType_name hf
        have hname : (extendType t d s.errors).1.name = d.name := hname0
        have htm : t ∈ s.types := List.mem_of_find?_eq_some hf
        refine ⟨?_, ?_⟩
        · show ((setType s.types d.name _).map (fun t : TypeEntry => t.name)).Nodup
          rw [setType_names _ _ _ hname]; exact h.nodup
        · intro t2 hmem
          change t2 ∈ setType s.types d.name _ at hmem
          unfold setType at hmem
          obtain ⟨t0, ht0, hx⟩ := List.mem_map.mp hmem
          have key : (t0.builtin = true ∧ t0.name ∈ builtinTypeNames) ∨ (t0.builtin = false ∧ t0.name ∈ typeDefNames (pre ++ [d])) := by
            rcases h.flag t0 ht0 with h1 | h1
            · exact Or.inl h1
            · exact Or.inr ⟨h1.1, typeDefNames_mono pre d h1.2⟩
          by_cases hn : t0.name = d.name
          · have : t2 = (extendType t d s.errors).1 := by simpa [hn] using hx.symm
            have hb : t2.builtin = t.builtin := by rw [this]; rfl
            have hnm : t2.name = t.name := by rw [this]; rfl
            have key2 : (t.builtin = true ∧ t.name ∈ builtinTypeNames) ∨ (t.builtin = false ∧ t.name ∈ typeDefNames (pre ++ [d])) := by
              rcases h.flag t htm with h1 | h1
              · exact Or.inl h1
              · exact Or.inr ⟨h1.1, typeDefNames_mono pre d h1.2⟩
            rw [hb, hnm]; exact key2
          · have : t2 = t0 := by simpa [hn] using hx.symm
            rw [this]; exact key
      · have : (stepTypeExt s k d).types = s.types := by
          unfold stepTypeExt; rw [hf]; simp [hk, push]
        exact Inv2_same h this

theorem Inv2_init : Inv2 [] (Builder.new false false) := by
  refine ⟨by decide, ?_⟩
  intro t ht
  left
  change t ∈ builtinTypes at ht
  refine ⟨?_, List.mem_map.mpr ⟨t, ht, rfl⟩⟩
  simp only [builtinTypes, List.map_cons, List.map_nil, List.mem_cons, List.not_mem_nil, or_false] at ht
  rcases ht with h | h | h | h | h | h | h | h | h | h | h | h | h <;> rw [h]

theorem scan_Inv2 : ∀ (ds : List Def), Inv2 ds (addDocument (Builder.new false false) ds) := by
  apply snoc_induction
  · exact Inv2_init
  · intro pre d ih
    have hfold : addDocument (Builder.new false false) (pre ++ [d]) = step (addDocument (Builder.new false false) pre) d := by
      unfold addDocument; rw [List.foldl_append]; rfl
    rw [hfold]; exact step_Inv2 pre _ d ih

theorem finishRaw_types (s : Builder) (ha : s.adopt = false) : (finishRaw s).types = s.types := by
  unfold finishRaw
  simp only [ha, Bool.false_eq_true, if_false]
  rw [orphanOuter]
  dsimp only
  by_cases hf : s.schemaFound = true
  · simp only [hf, if_true] <;> rfl
  · simp only [hf]
    by_cases hr : (!(implicitRoots s.types).isEmpty) = true
    · simp only [hr, if_true] <;> rfl
    · simp only [hr]
      rw [schemaOrphanFold] <;> rfl

theorem find_of_mem_nodup {ts : List TypeEntry} (hnd : (ts.map (·.name)).Nodup) {t : TypeEntry} (ht : t ∈ ts) :
    findType ts t.name = some t := by
  induction ts with
  | nil => cases ht
  | cons x r ih =>
    unfold findType
    rw [List.map_cons, List.nodup_cons] at hnd
    by_cases hx : x.name = t.name
    · rcases List.mem_cons.mp ht with h | h
      · rw [h]; simp
      · exact absurd (List.mem_map.mpr ⟨t, h, hx.symm⟩) hnd.1
    · rcases List.mem_cons.mp ht with h | h
      · exact absurd (by rw [h]) hx
      · rw [List.find?_cons_of_neg (by simp [hx])]
        exact ih hnd.2 h

/-- [object-has-fields] … [input-has-fields], on names: every non-scalar type the document defines has a member,
    in its definition or in one of its extensions -/
def NonEmptyNames (ds : List Def) : Prop :=
  ∀ n k, kindOfName ds n = some k → n ∉ builtinTypeNames → k ≠ Kind.scalar → memberNames ds n ≠ []

/-- **non-emptiness**: on an error-free build, `validate_schema` pushes no `Empty…Set` diagnostic iff every
    non-scalar type of the document has a member in its definition or one of its extensions -/
theorem nonempty_rule_iff_spec (ds : List Def) (hwf : WellFormed ds)
    (hb : (build (Builder.new false false) [ds]).errors = []) :
    emptyTypeDiags (build (Builder.new false false) [ds]).types = [] ↔ NonEmptyNames ds := by
  have hspec := ((build_errors_iff_spec ds hwf).mp hb)
  have he : (addDocument (Builder.new false false) ds).errors = [] := by
    have h1 : (build (Builder.new false false) [ds]).errors =
      sortBy Err.lt (finishRaw (addDocument (Builder.new false false) ds)).errors := rfl
    rw [h1, sortBy_nil_iff] at hb
    exact Classical.byContradiction fun hne =>
      (finishRaw_mono _ (addDocument_adopt ds (Builder.new false false))).ne_nil hne hb
  have hinv := (scan_spec ds hwf).2 he
  have hinv2 := scan_Inv2 ds
  have htypes : (build (Builder.new false false) [ds]).types = (addDocument (Builder.new false false) ds).types :=
    finishRaw_types _ hinv.adopt
  rw [htypes]
  unfold emptyTypeDiags NonEmptyNames
  rw [List.map_eq_nil_iff, List.filter_eq_nil_iff]
  constructor
  · intro h n k hk hnb hks hmem
    have hkinds := hinv.t.kinds n
    rw [hk] at hkinds
    cases hf : findType (addDocument (Builder.new false false) ds).types n with
    | none => rw [hf] at hkinds; cases hkinds
    | some t =>
      rw [hf] at hkinds
      have hkind : t.kind = k := by simpa using hkinds
      have htm : t ∈ (addDocument (Builder.new false false) ds).types := List.mem_of_find?_eq_some hf
      have hname := findType_name hf
      have hflag : t.builtin = false := by
        rcases hinv2.flag t htm with h1 | h1
        · exact absurd (hname ▸ h1.2) hnb
        · exact h1.1
      have hv := hinv.t.members n t hf
      apply h t htm
      have hmem0 : t.body.members = [] := by
        cases hl : t.body.members with
        | nil => rfl
        | cons c r =>
          have := (hv c.name).mp (by rw [hl]; simp [hasName])
          rw [hmem] at this; cases this
      simp [hflag, hkind, hks, hmem0]
  · intro h t htm hc
    simp only [Bool.and_eq_true, Bool.not_eq_true', bne_iff_ne, ne_eq, List.isEmpty_iff] at hc
    obtain ⟨⟨hflag, hks⟩, hmem0⟩ := hc
    have hf := find_of_mem_nodup hinv2.nodup htm
    have hk := kind_of_find hinv.t hf
    have hnd : t.name ∈ typeDefNames ds := by
      rcases hinv2.flag t htm with h1 | h1
      · rw [hflag] at h1; cases h1.1
      · exact h1.2
    have hnb : t.name ∉ builtinTypeNames := by
      intro hx
      have := hspec.uniqueTypes
      rw [List.nodup_append] at this
      exact this.2.2 _ hx _ hnd rfl
    have hne := h t.name t.kind hk hnb hks
    have hv := hinv.t.members t.name t hf
    apply hne
    cases hl : memberNames ds t.name with
    | nil => rfl
    | cons c r =>
      have := (hv c).mpr (by rw [hl]; simp)
      rw [hmem0] at this
      simp [hasName] at this

end Apollo.SchemaBuild
