import ApolloModel.Proofs.SchemaValidation
/-
C14 growth 3: the two remaining diagnostics of `validate_implements_interfaces` — a name after `implements`
that is not an interface (`UndefinedDefinition`), and an interface listing itself
(`RecursiveInterfaceDefinition`) — against §3.6 / §3.7 type validation.
-/
namespace Apollo.SchemaValidation
open Apollo.SchemaValidation.Spec

/-- [implements-exists-interface]: everything after `implements` is a defined interface type;
    [interface-self-implementation]: "an interface type may not implement itself" (§3.7) -/
def ImplementsValid (s : ISchema) : Prop :=
  (∀ a b, Declares s a b → ∃ t, s[b]? = some t ∧ t.isInterface = true) ∧
  (∀ (a : Nat) (t : TypeInfo), s[a]? = some t → t.isInterface = true → a ∉ t.implements)

theorem getInterface_isNone_iff (s : ISchema) (n : Nat) :
    (getInterface s n).isNone = true ↔ ¬ ∃ t, s[n]? = some t ∧ t.isInterface = true := by
  unfold getInterface
  cases h : s[n]? with
  | none => simp
  | some t =>
    by_cases hi : t.isInterface = true
    · simp [hi]
    · simp [hi]

theorem implements_rule_iff (s : ISchema) :
    (∀ (a : Nat) (t : TypeInfo), s[a]? = some t → undefinedImplements s t = [] ∧ selfImplements a t = []) ↔
      ImplementsValid s := by
  unfold ImplementsValid undefinedImplements selfImplements Declares
  constructor
  · intro h
    constructor
    · intro a b ⟨t, ht, hb⟩
      have := (h a t ht).1
      rw [List.filter_eq_nil_iff] at this
      have hb' := this b hb
      rw [getInterface_isNone_iff] at hb'
      exact Classical.not_not.mp hb'
    · intro a t ht hi hmem
      have := (h a t ht).2
      rw [if_pos hi, List.filter_eq_nil_iff] at this
      exact this a hmem (by simp)
  · intro ⟨h1, h2⟩ a t ht
    constructor
    · rw [List.filter_eq_nil_iff]
      intro b hb
      rw [getInterface_isNone_iff]
      exact fun hn => hn (h1 a b ⟨t, ht, hb⟩)
    · by_cases hi : t.isInterface = true
      · rw [if_pos hi, List.filter_eq_nil_iff]
        intro b hb hba
        have : b = a := by simpa using hba
        exact h2 a t ht hi (this ▸ hb)
      · rw [if_neg hi]

end Apollo.SchemaValidation
