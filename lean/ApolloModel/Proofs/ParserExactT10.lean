import ApolloModel.Proofs.ParserExactT9
/-
Exact soundness for the type-system family, part 10: the `scalar`, `enum`, `input` extensions in the `DefSound` shape of
ParserExactS14 (the fields `DefExact.scalarExt`, `.enumExt`, `.inputExt`).
-/
set_option linter.unusedSimpArgs false
namespace Apollo.Parse.Exact
open Apollo.Rowan hiding Str
open Apollo.Lex hiding Str

theorem good_nameOrErr : Good nameOrErr := (acc_nameOrErr (E := fun _ => False) (H := fun _ => True)).1

theorem good_scalarExtTail (n : Nat) : Good (scalarExtTail n) :=
  good_bind _ _ good_nameOrErr (fun _ => good_bind _ _ good_peek (fun _ => good_ite _ _ _ (good_directives n true) good_err))

/-- `Name Directives[Const]` of a scalar extension: the directives are there, within the budget -/
theorem scalarExtTail_sound (n : Nat) (s s' : PState) (w : TW s) (he : EofEnd s)
    (h : (scalarExtTail n).run s = .ok () s') (hnd : ¬ Doomed s') :
    Cons s s' (fun x => ∃ nm ds, x = .name nm :: Ast.tDirectives ds ∧ ds ≠ [] ∧ dirsFit true (bud s) ds) := by
  unfold scalarExtTail at h
  obtain ⟨_, s1, h1, h2⟩ := bind_dec nameOrErr _ s s' () h
  have a1 := good_nameOrErr s () s1 w h1
  have g2 : Good (peek >>= fun k => if k == some Kind.at then directives n true else err) :=
    good_bind _ _ good_peek (fun _ => good_ite _ _ _ (good_directives n true) good_err)
  have hnd1 : ¬ Doomed s1 := fun d => hnd ((g2 s1 () s' a1.w h2).doom d)
  have c1 := cons_of_acc (acc_nameOrErr (E := fun _ => False) (H := fun _ => True)) s s1 () w he trivial h1 hnd1
  obtain ⟨sP, o, p, hor⟩ := ifPeek_dec .at _ _ s1 s' () a1.w h2
  have heP := p.eofEnd c1.eofEnd
  rcases hor with ⟨hkc, h5⟩ | ⟨_, h5⟩
  · obtain ⟨tc, rfl, hkc2⟩ : ∃ tc, o = some tc ∧ tc.kind = .at := by
      cases o with
      | none => simp at hkc
      | some tc => exact ⟨tc, rfl, by simpa using hkc⟩
    have c2 := directives_at_sound n sP s' tc _ p.w heP p.head_cons hkc2 h5 hnd
    refine (c1.seq (c2.transport p.toks.symm rfl c2.eofEnd)).weaken ?_
    rintro z ⟨x, y, rfl, ⟨nm, rfl⟩, ds, rfl, hne, hds⟩
    rw [bud_peek p, bud_adv a1] at hds
    exact ⟨nm, ds, rfl, hne, hds⟩
  · exfalso
    exact hnd ((err_adv sP s' p.w h5).2 (eofEnd_nonempty sP heP (fun d => hnd ((good_err sP () s' p.w h5).doom d))))

/-- **scalar type extension**, exact -/
theorem scalarExt_sound (n : Nat) : DefSound (EStart "scalar".toList) (scalarTypeExtension n) := by
  intro s s' w he hq hr hnd
  rw [scalarTypeExtension_eq] at hr
  have c := ext2_sound "SCALAR_TYPE_EXTENSION" "scalar" kwWord_scalar "extend_KW" "scalar_KW" (scalarExtTail n)
    (fun b _ x => ∃ nm ds, x = .name nm :: Ast.tDirectives ds ∧ ds ≠ [] ∧ dirsFit true b ds) (good_scalarExtTail n)
    (fun q q' wq heq hrq hndq => scalarExtTail_sound n q q' wq heq hrq hndq) s s' w he hq.1 hq.2 hr hnd
  obtain ⟨cs, x, a, b, e, d, x2, rfl, nm, ds, rfl, hne, hds⟩ := c
  exact ⟨cs, .loose (.scalarExt nm ds), a, b, e, by simpa [DocItem.toks, LooseDef.toks, kwE] using d, ⟨hne, hds⟩,
    fun q _ ho => ho.elim⟩

theorem good_nameDirsBodyExt (n : Nat) (body : PI Unit) (gb : Good body) : Good (nameDirsBodyExt n .lCurly body) :=
  good_bind _ _ good_nameOrErr (fun _ => good_extDirs n _ (good_extBodyK body gb) false)

theorem sp_nameDirsBodyExt (n : Nat) (body : PI Unit) (gb : Good body) (hb : SP body) : SP (nameDirsBodyExt n .lCurly body) :=
  sp_bind good_nameOrErr (fun _ => good_extDirs n _ (good_extBodyK body gb) false) se_nameOrErr.sp
    (fun _ => sp_extDirs n _ (good_extBodyK body gb) (sp_extBodyK body gb hb) false)

/-- `Name Directives[Const]? Body?` of an extension: not both absent -/
theorem nameDirsBodyExt_sound (n : Nat) (body : PI Unit) (LB : Nat → List Ast.Tok → Prop) (gb : Good body)
    (hb : ∀ s s' t rest, TW s → EofEnd s → Toks s = t :: rest → t.kind = .lCurly → body.run s = .ok () s' → ¬ Doomed s' → Cons s s' (LB (bud s)))
    (s s' : PState) (w : TW s) (he : EofEnd s) (h : (nameDirsBodyExt n .lCurly body).run s = .ok () s') (hnd : ¬ Doomed s') :
    Cons s s' (fun x => ∃ nm ds x2, x = .name nm :: (Ast.tDirectives ds ++ x2) ∧ dirsFit true (bud s) ds ∧
      (LB (bud s) x2 ∨ (x2 = [] ∧ ds ≠ [] ∧ ∀ t, s'.current = some t → t.kind ≠ .lCurly))) := by
  unfold nameDirsBodyExt at h
  obtain ⟨_, s1, h1, h2⟩ := bind_dec nameOrErr _ s s' () h
  have a1 := good_nameOrErr s () s1 w h1
  have hnd1 : ¬ Doomed s1 := fun d => hnd ((good_extDirs n _ (good_extBodyK body gb) false s1 () s' a1.w h2).doom d)
  have c1 := cons_of_acc (acc_nameOrErr (E := fun _ => False) (H := fun _ => True)) s s1 () w he trivial h1 hnd1
  have c2 := extDirsBody_sound n body LB gb hb false s1 s' a1.w c1.eofEnd h2 hnd
  refine (c1.seq c2).weaken ?_
  rintro z ⟨x, y, rfl, ⟨nm, rfl⟩, ds, x2, rfl, hds, hor⟩
  rw [bud_adv a1] at hds hor
  refine ⟨nm, ds, x2, rfl, hds, ?_⟩
  rcases hor with hl | ⟨rfl, hm, hc⟩
  · exact Or.inl hl
  · refine Or.inr ⟨rfl, ?_, hc⟩
    rcases hm with hm | hm
    · exact hm
    · cases hm

/-- **enum type extension**, exact -/
theorem enumExt_sound (n : Nat) : DefSound (EStart "enum".toList) (enumTypeExtension n) := by
  refine defSound_of_loose _ _ ?_
  intro s s' w he hq hs hr hnd
  rw [enumTypeExtension_eq] at hr
  have gb : Good (enumValuesDefinition n) := (acc_enumValuesDefinition n).1
  have hset := ext2_settled "ENUM_TYPE_EXTENSION" "extend_KW" "enum_KW" _ (good_nameDirsBodyExt n _ gb)
    (sp_nameDirsBodyExt n _ gb (se_enumValuesDefinition n).sp) s s' w hr hnd
  have c := ext2_sound "ENUM_TYPE_EXTENSION" "enum" kwWord_enum "extend_KW" "enum_KW" (nameDirsBodyExt n .lCurly (enumValuesDefinition n))
    (fun b cur x => ∃ nm ds x2, x = .name nm :: (Ast.tDirectives ds ++ x2) ∧ dirsFit true b ds ∧
      (LEnumVals b x2 ∨ (x2 = [] ∧ ds ≠ [] ∧ ∀ t, cur = some t → t.kind ≠ .lCurly))) (good_nameDirsBodyExt n _ gb)
    (fun q q' wq heq hrq hndq => nameDirsBodyExt_sound n _ LEnumVals gb
      (fun q1 q2 t rest w1 he1 ht hk h1 hnd1 => enumValuesDefinition_sound n q1 q2 t rest w1 he1 ht hk h1 hnd1) q q' wq heq hrq hndq)
    s s' w he hq hs hr hnd
  obtain ⟨cs, x, a, b, e, d, x1, rfl, nm, ds, x2, rfl, hds, hor⟩ := c
  rcases hor with ⟨vs, hne, rfl, hvs⟩ | ⟨rfl, hdne, hcur⟩
  · refine ⟨cs, .enumExt nm ds vs, a, b, e, ?_, ⟨Or.inr hne, hds, hvs⟩, hset, ?_⟩
    · simpa [LooseDef.toks, kwE, Ast.tEnumBody, List.append_assoc] using d
    · intro ho; exact absurd ho hne
  · refine ⟨cs, .enumExt nm ds [], a, b, e, ?_, ⟨Or.inl hdne, hds, by intro v hv; cases hv⟩, hset, fun _ => hcur⟩
    simpa [LooseDef.toks, kwE, Ast.tEnumBody, Ast.tBraced, List.append_assoc] using d

/-- **input object type extension**, exact -/
theorem inputExt_sound (n : Nat) : DefSound (EStart "input".toList) (inputObjectTypeExtension n) := by
  refine defSound_of_loose _ _ ?_
  intro s s' w he hq hs hr hnd
  rw [inputObjectTypeExtension_eq] at hr
  have gb : Good (inputFieldsDefinition n) := (acc_inputFieldsDefinition n).1
  have hset := ext2_settled "INPUT_OBJECT_TYPE_EXTENSION" "extend_KW" "input_KW" _ (good_nameDirsBodyExt n _ gb)
    (sp_nameDirsBodyExt n _ gb (se_inputFieldsDefinition n).sp) s s' w hr hnd
  have c := ext2_sound "INPUT_OBJECT_TYPE_EXTENSION" "input" kwWord_input "extend_KW" "input_KW" (nameDirsBodyExt n .lCurly (inputFieldsDefinition n))
    (fun b cur x => ∃ nm ds x2, x = .name nm :: (Ast.tDirectives ds ++ x2) ∧ dirsFit true b ds ∧
      (LInputFields b x2 ∨ (x2 = [] ∧ ds ≠ [] ∧ ∀ t, cur = some t → t.kind ≠ .lCurly))) (good_nameDirsBodyExt n _ gb)
    (fun q q' wq heq hrq hndq => nameDirsBodyExt_sound n _ LInputFields gb
      (fun q1 q2 t rest w1 he1 ht hk h1 hnd1 => inputFieldsDefinition_sound n q1 q2 t rest w1 he1 ht hk h1 hnd1) q q' wq heq hrq hndq)
    s s' w he hq hs hr hnd
  obtain ⟨cs, x, a, b, e, d, x1, rfl, nm, ds, x2, rfl, hds, hor⟩ := c
  rcases hor with ⟨vs, hne, rfl, hvs⟩ | ⟨rfl, hdne, hcur⟩
  · refine ⟨cs, .inputExt nm ds vs, a, b, e, ?_, ⟨Or.inr hne, hds, hvs⟩, hset, ?_⟩
    · simpa [LooseDef.toks, kwE, Ast.tInputBody, List.append_assoc] using d
    · intro ho; exact absurd ho hne
  · refine ⟨cs, .inputExt nm ds [], a, b, e, ?_, ⟨Or.inl hdne, hds, by intro v hv; cases hv⟩, hset, fun _ => hcur⟩
    simpa [LooseDef.toks, kwE, Ast.tInputBody, Ast.tBraced, List.append_assoc] using d

end Apollo.Parse.Exact
