import ApolloModel.Model.Smith
/-
`saturate` computes exactly the names reachable from the roots (soundness, completeness and fuel
sufficiency); consequences for `closure`, `expand_transitive_*_implementations` and fragment pruning.
-/
namespace Apollo.SmithGen

/-! ### insertNew / foldl -/

theorem mem_insertNew {s : List Name} {x y : Name} : y ∈ insertNew s x ↔ y ∈ s ∨ y = x := by
  unfold insertNew
  by_cases h : s.contains x = true
  · simp only [h, if_true]
    constructor
    · exact Or.inl
    · rintro (h1 | h1)
      · exact h1
      · subst h1; simpa using h
  · simp only [h, Bool.false_eq_true, if_false, List.mem_append, List.mem_singleton]

theorem nodup_insertNew {s : List Name} {x : Name} (h : s.Nodup) : (insertNew s x).Nodup := by
  unfold insertNew
  by_cases hc : s.contains x = true
  · simp only [hc, if_true]; exact h
  · simp only [hc, Bool.false_eq_true, if_false]
    have hx : x ∉ s := by simpa using hc
    rw [List.nodup_append]
    refine ⟨h, by simp, ?_⟩
    intro a ha b hb e
    simp at hb; subst hb; subst e; exact hx ha

theorem length_insertNew_ge (s : List Name) (x : Name) : s.length ≤ (insertNew s x).length := by
  unfold insertNew; split <;> simp

theorem length_insertNew_new {s : List Name} {x : Name} (h : x ∉ s) : (insertNew s x).length = s.length + 1 := by
  unfold insertNew
  simp [h]

theorem mem_foldl_insertNew {l : List Name} : ∀ {s : List Name} {y : Name}, y ∈ l.foldl insertNew s ↔ y ∈ s ∨ y ∈ l := by
  induction l with
  | nil => intro s y; simp
  | cons x l ih =>
    intro s y
    simp only [List.foldl_cons, ih, mem_insertNew, List.mem_cons]
    constructor
    · rintro ((h | h) | h)
      · exact Or.inl h
      · exact Or.inr (Or.inl h)
      · exact Or.inr (Or.inr h)
    · rintro (h | h | h)
      · exact Or.inl (Or.inl h)
      · exact Or.inl (Or.inr h)
      · exact Or.inr h

theorem nodup_foldl_insertNew {l : List Name} : ∀ {s : List Name}, s.Nodup → (l.foldl insertNew s).Nodup := by
  induction l with
  | nil => intro s h; exact h
  | cons x l ih => intro s h; exact ih (nodup_insertNew h)

theorem length_foldl_ge {l : List Name} : ∀ {s : List Name}, s.length ≤ (l.foldl insertNew s).length := by
  induction l with
  | nil => intro s; exact Nat.le_refl _
  | cons x l ih => intro s; exact Nat.le_trans (length_insertNew_ge s x) ih

theorem length_foldl_gt {l : List Name} : ∀ {s : List Name}, (∃ y ∈ l, y ∉ s) → s.length + 1 ≤ (l.foldl insertNew s).length := by
  induction l with
  | nil => intro s ⟨y, hy, _⟩; cases hy
  | cons x l ih =>
    intro s ⟨y, hy, hys⟩
    simp only [List.foldl_cons]
    by_cases hx : x ∈ s
    · -- x already present: y must come from l
      have e : insertNew s x = s := by
        unfold insertNew
        simp [hx]
      rw [e]
      rcases List.mem_cons.mp hy with h | h
      · subst h; exact absurd hx hys
      · exact ih ⟨y, h, hys⟩
    · have := length_insertNew_new hx
      have h2 := length_foldl_ge (l := l) (s := insertNew s x)
      omega

/-! ### saturation -/

section Sat
variable (succ : Name → List Name)

def Stable (s : List Name) : Prop := ∀ x ∈ s, ∀ y ∈ succ x, y ∈ s

theorem stableB_iff (s : List Name) : stableB succ s = true ↔ Stable succ s := by
  unfold stableB Stable
  simp only [List.all_eq_true, List.mem_flatMap, List.contains_iff_mem]
  constructor
  · intro h x hx y hy; exact h y ⟨x, hx, hy⟩
  · rintro h y ⟨x, hx, hy⟩; exact h x hx y hy

theorem mem_expand {s : List Name} {y : Name} : y ∈ expand succ s ↔ y ∈ s ∨ ∃ x ∈ s, y ∈ succ x := by
  unfold expand
  rw [mem_foldl_insertNew, List.mem_flatMap]

theorem subset_saturate : ∀ (fuel : Nat) (s : List Name) (x : Name), x ∈ s → x ∈ saturate succ fuel s := by
  intro fuel
  induction fuel with
  | zero => intro s x h; exact h
  | succ fuel ih =>
    intro s x h
    simp only [saturate]
    split
    · exact h
    · exact ih _ x ((mem_expand succ).mpr (Or.inl h))

/-- everything `saturate` returns satisfies any property that holds on the start set and is
    inherited along `succ` (used with "is reachable" and with "belongs to the universe") -/
theorem saturate_induct (P : Name → Prop) (hstep : ∀ x y, P x → y ∈ succ x → P y) :
    ∀ (fuel : Nat) (s : List Name), (∀ x ∈ s, P x) → ∀ x ∈ saturate succ fuel s, P x := by
  intro fuel
  induction fuel with
  | zero => intro s h x hx; exact h x hx
  | succ fuel ih =>
    intro s h x hx
    simp only [saturate] at hx
    split at hx
    · exact h x hx
    · refine ih _ ?_ x hx
      intro y hy
      rcases (mem_expand succ).mp hy with h1 | ⟨z, hz, hyz⟩
      · exact h y h1
      · exact hstep z y (h z hz) hyz

theorem nodup_saturate : ∀ (fuel : Nat) (s : List Name), s.Nodup → (saturate succ fuel s).Nodup := by
  intro fuel
  induction fuel with
  | zero => intro s h; exact h
  | succ fuel ih =>
    intro s h
    simp only [saturate]
    split
    · exact h
    · exact ih _ (nodup_foldl_insertNew h)

/-- either the result is stable or every round added a new name -/
theorem saturate_progress : ∀ (fuel : Nat) (s : List Name),
    Stable succ (saturate succ fuel s) ∨ s.length + fuel ≤ (saturate succ fuel s).length := by
  intro fuel
  induction fuel with
  | zero => intro s; right; simp [saturate]
  | succ fuel ih =>
    intro s
    simp only [saturate]
    split
    · rename_i h; left; exact (stableB_iff succ s).mp h
    · rename_i h
      have hns : ¬ Stable succ s := fun hs => h ((stableB_iff succ s).mpr hs)
      have hgt : s.length + 1 ≤ (expand succ s).length := by
        apply length_foldl_gt
        unfold Stable at hns
        simp only [Classical.not_forall] at hns
        obtain ⟨x, hx, y, hy, hys⟩ := hns
        exact ⟨y, List.mem_flatMap.mpr ⟨x, hx, hy⟩, hys⟩
      rcases ih (expand succ s) with h1 | h1
      · left; exact h1
      · right; omega

/-- fuel sufficiency: with a finite universe closed under `succ`, `|U| + 1` rounds reach a fixed point -/
theorem saturate_stable (U s : List Name) (fuel : Nat) (hs : s.Nodup) (hsU : ∀ x ∈ s, x ∈ U)
    (hU : ∀ x ∈ U, ∀ y ∈ succ x, y ∈ U) (hf : U.length < fuel) : Stable succ (saturate succ fuel s) := by
  rcases saturate_progress succ fuel s with h | h
  · exact h
  · exfalso
    have hnd := nodup_saturate succ fuel s hs
    have hsub : saturate succ fuel s ⊆ U := by
      intro x hx
      exact saturate_induct succ (· ∈ U) (fun a b ha hb => hU a ha b hb) fuel s hsU x hx
    have := hnd.length_le_of_subset hsub
    omega

/-- reachability from a set of roots -/
inductive Reach (roots : List Name) : Name → Prop where
  | root {x : Name} : x ∈ roots → Reach roots x
  | step {x y : Name} : Reach roots x → y ∈ succ x → Reach roots y

theorem saturate_sound (roots : List Name) (fuel : Nat) (s : List Name) (h : ∀ x ∈ s, Reach succ roots x) :
    ∀ x ∈ saturate succ fuel s, Reach succ roots x :=
  saturate_induct succ (Reach succ roots) (fun _ _ hx hy => Reach.step hx hy) fuel s h

theorem stable_complete (roots r : List Name) (hroots : ∀ x ∈ roots, x ∈ r) (hst : Stable succ r) :
    ∀ x, Reach succ roots x → x ∈ r := by
  intro x hx
  induction hx with
  | root h => exact hroots _ h
  | step _ hy ih => exact hst _ ih _ hy

end Sat

/-! ### closure of the implements graph -/

theorem Graph.succ_mem (g : Graph) {x y : Name} : y ∈ g.succ x ↔ (x, y) ∈ g.edges := by
  unfold Graph.succ
  simp only [List.mem_map, List.mem_filter]
  constructor
  · rintro ⟨⟨a, b⟩, ⟨h1, h2⟩, h3⟩
    simp at h2 h3; subst h2; subst h3; exact h1
  · intro h; exact ⟨(x, y), ⟨h, by simp⟩, rfl⟩

/-- `closure(start)` is exactly: `start` (when it is a node) and everything reachable along edges -/
theorem Graph.mem_closure (g : Graph) (start x : Name) :
    x ∈ g.closure start ↔ start ∈ g.nodes ∧ Reach g.succ [start] x := by
  unfold Graph.closure
  by_cases hn : g.nodes.contains start = true
  · have hn' : start ∈ g.nodes := by simpa using hn
    simp only [hn, if_true, hn', true_and]
    constructor
    · intro hx
      exact saturate_sound g.succ [start] _ [start] (fun y hy => Reach.root hy) x hx
    · intro hr
      refine stable_complete g.succ [start] _ (fun y hy => subset_saturate g.succ _ [start] y hy) ?_ x hr
      apply saturate_stable g.succ (g.universe [start]) [start] _ (by simp)
      · intro y hy; simp at hy; subst hy; simp [Graph.universe]
      · intro a _ b hb
        have := (g.succ_mem).mp hb
        simp only [Graph.universe, List.mem_append, List.mem_map]
        exact Or.inr ⟨(a, b), this, rfl⟩
      · omega
  · have hn' : ¬ start ∈ g.nodes := by simpa using hn
    simp [hn, hn']

/-! ### backfill of the transitive interfaces -/

theorem declared_modifyFirst (p : Def → Bool) (f : Def → Def) (name : Name) (extra : List Name)
    (hp : ∀ d, p d = true → d.name = name)
    (hf : ∀ d, (f d).name = d.name ∧ ∀ q, q ∈ (f d).interfaces ↔ q ∈ d.interfaces ∨ q ∈ extra) :
    ∀ (defs : List Def), defs.any p = true →
      ∀ q, q ∈ declared (modifyFirst p f defs) name ↔ q ∈ declared defs name ∨ q ∈ extra := by
  intro defs
  induction defs with
  | nil => intro h; simp at h
  | cons d ds ih =>
    intro h q
    simp only [modifyFirst]
    by_cases hd : p d = true
    · have hname := hp d hd
      have hfd := hf d
      simp only [hd, if_true, declared, List.filter_cons, hfd.1, hname, beq_self_eq_true, List.flatMap_cons,
        List.mem_append, hfd.2 q]
      constructor
      · rintro ((h1 | h1) | h1)
        · exact Or.inl (Or.inl h1)
        · exact Or.inr h1
        · exact Or.inl (Or.inr h1)
      · rintro ((h1 | h1) | h1)
        · exact Or.inl (Or.inl h1)
        · exact Or.inr h1
        · exact Or.inl (Or.inr h1)
    · have hany : ds.any p = true := by
        simp only [List.any_cons, Bool.or_eq_true] at h
        rcases h with h | h
        · exact absurd h hd
        · exact h
      have := ih hany q
      simp only [hd, Bool.false_eq_true, if_false, declared, List.filter_cons] at this ⊢
      by_cases hn : (d.name == name) = true
      · simp only [hn, if_true, List.flatMap_cons, List.mem_append]
        rw [this]
        constructor
        · rintro (h1 | h1 | h1)
          · exact Or.inl (Or.inl h1)
          · exact Or.inl (Or.inr h1)
          · exact Or.inr h1
        · rintro ((h1 | h1) | h1)
          · exact Or.inl h1
          · exact Or.inr (Or.inl h1)
          · exact Or.inr (Or.inr h1)
      · simp only [hn, Bool.false_eq_true, if_false]
        exact this

theorem declared_modifyFirst_other (p : Def → Bool) (f : Def → Def) (name other : Name) (hne : other ≠ name)
    (hp : ∀ d, p d = true → d.name = name) (hf : ∀ d, (f d).name = d.name) :
    ∀ (defs : List Def), declared (modifyFirst p f defs) other = declared defs other := by
  intro defs
  induction defs with
  | nil => rfl
  | cons d ds ih =>
    simp only [modifyFirst]
    by_cases hd : p d = true
    · have hname := hp d hd
      have : (d.name == other) = false := by
        rw [hname]; simp; exact fun e => hne e.symm
      simp [hd, declared, List.filter_cons, hf d, this]
    · simp only [hd, Bool.false_eq_true, if_false, declared, List.filter_cons]
      simp only [declared] at ih
      split <;> simp [ih]

/-- what `expandTransitive` adds: the closure minus the type itself minus what extensions declare -/
def toAddOf (g : Graph) (defs : List Def) (name : Name) : List Name :=
  ((g.closure name).filter (· != name)).filter fun p =>
    !((defs.filter fun d => d.extend && d.name == name).flatMap (·.interfaces)).contains p

theorem byExt_subset_declared (defs : List Def) (name q : Name)
    (h : q ∈ (defs.filter fun d => d.extend && d.name == name).flatMap (·.interfaces)) : q ∈ declared defs name := by
  simp only [declared, List.mem_flatMap, List.mem_filter, Bool.and_eq_true] at h ⊢
  obtain ⟨d, ⟨hd, _, hn⟩, hq⟩ := h
  exact ⟨d, ⟨hd, hn⟩, hq⟩

theorem expandTransitive_declared (g : Graph) (defs : List Def) (name : Name)
    (hex : defs.any (fun d => d.name == name) = true) (q : Name) :
    q ∈ declared (expandTransitive g defs name) name ↔ q ∈ declared defs name ∨ (q ∈ g.closure name ∧ q ≠ name) := by
  have hf : ∀ d : Def, ({ d with interfaces := (toAddOf g defs name).foldl insertNew d.interfaces } : Def).name = d.name ∧
      ∀ q, q ∈ ({ d with interfaces := (toAddOf g defs name).foldl insertNew d.interfaces } : Def).interfaces ↔
        q ∈ d.interfaces ∨ q ∈ toAddOf g defs name := fun d => ⟨rfl, fun q => mem_foldl_insertNew⟩
  have key : q ∈ declared (expandTransitive g defs name) name ↔ q ∈ declared defs name ∨ q ∈ toAddOf g defs name := by
    unfold expandTransitive
    simp only
    split
    · rename_i hb
      exact declared_modifyFirst (fun d => !d.extend && d.name == name) _ name (toAddOf g defs name)
        (fun d hd => by simp at hd; exact hd.2) hf defs hb q
    · exact declared_modifyFirst (fun d => d.name == name) _ name (toAddOf g defs name)
        (fun d hd => by simpa using hd) hf defs hex q
  rw [key]
  constructor
  · rintro (h | h)
    · exact Or.inl h
    · simp only [toAddOf, List.mem_filter] at h
      exact Or.inr ⟨h.1.1, by simpa using h.1.2⟩
  · rintro (h | ⟨h1, h2⟩)
    · exact Or.inl h
    · by_cases hb : q ∈ (defs.filter fun d => d.extend && d.name == name).flatMap (·.interfaces)
      · exact Or.inl (byExt_subset_declared defs name q hb)
      · right
        simp only [toAddOf, List.mem_filter]
        exact ⟨⟨h1, by simpa using h2⟩, by simpa using hb⟩

theorem expandTransitive_other (g : Graph) (defs : List Def) (name other : Name) (hne : other ≠ name) :
    declared (expandTransitive g defs name) other = declared defs other := by
  unfold expandTransitive
  simp only
  split
  · apply declared_modifyFirst_other _ _ name other hne
    · intro d hd; simp at hd; exact hd.2
    · intro d; rfl
  · apply declared_modifyFirst_other _ _ name other hne
    · intro d hd; simpa using hd
    · intro d; rfl

/-! ### fragments -/

theorem mem_reachable (ops : List (List Name)) (frags : List Frag) (x : Name) :
    x ∈ reachable ops frags ↔ Reach (fragSucc frags) ops.flatten x := by
  unfold reachable
  have hroots : ∀ y, y ∈ ops.flatten.foldl insertNew [] ↔ y ∈ ops.flatten := by
    intro y; rw [mem_foldl_insertNew]; simp
  constructor
  · intro hx
    exact saturate_sound _ ops.flatten _ _ (fun y hy => Reach.root ((hroots y).mp hy)) x hx
  · intro hr
    refine stable_complete _ ops.flatten _ (fun y hy => subset_saturate _ _ _ y ((hroots y).mpr hy)) ?_ x hr
    apply saturate_stable _ (fragUniverse ops frags) _ _ (nodup_foldl_insertNew List.nodup_nil)
    · intro y hy
      simp only [fragUniverse, List.mem_append]
      exact Or.inl ((hroots y).mp hy)
    · intro a _ b hb
      simp only [fragUniverse, List.mem_append, List.mem_flatMap]
      right
      unfold fragSucc at hb
      split at hb
      · rename_i f hf
        exact ⟨f, List.mem_of_find?_eq_some hf, hb⟩
      · cases hb
    · omega

end Apollo.SmithGen
