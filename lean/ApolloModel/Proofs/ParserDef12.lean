import ApolloModel.Proofs.ParserDef11
/-
C05 growth (type-system definitions), part 12: the flag loop of `schema { … }`, generic optional parts with
different continuations (extensions thread a `meets` flag), keyword-guarded parts.
-/
set_option linter.unusedSimpArgs false
namespace Apollo.Parse
open Apollo.Rowan hiding Str
open Apollo.Lex hiding Str

theorem good_flagLoop (k : Kind) (body : PI Unit) (hb : Good body) : ∀ fuel flag, Good (peekWhileKindFlagLoop k body fuel flag)
  | 0, _ => good_outOfFuel
  | fuel + 1, flag => by
    unfold peekWhileKindFlagLoop
    refine good_bind _ _ good_peek ?_
    intro o
    cases o with
    | none => exact good_pure _
    | some kind =>
      refine good_ite _ _ _ (good_pure _) ?_
      refine good_bind _ _ good_getCurrent (fun before => good_bind _ _ hb (fun _ => good_bind _ _ good_getCurrent (fun after => ?_)))
      exact good_ite _ _ _ good_stuck (good_flagLoop k body hb fuel true)

/-- result of the flag loop: the items, and the flag says whether there was one -/
def FlagR (Q : List Ast.Tok → Prop) (flag has : Bool) (x : List Ast.Tok) : Prop :=
  ∃ items : List (List Ast.Tok), x = items.flatten ∧ (∀ i ∈ items, Q i) ∧ has = (flag || !items.isEmpty)

theorem flagLoop_res {E : PState → Prop} (hE : Early E) (k : Kind) (item : PI Unit) (Q : List Ast.Tok → Prop)
    (hitem : Acc E (KindP (· == k)) item (fun _ => Q)) : ∀ (fuel : Nat) (flag : Bool) (s : PState) (has : Bool) (s' : PState),
    TW s → EofEnd s → (peekWhileKindFlagLoop k item fuel flag).run s = .ok has s' → ¬ Doomed s' →
    AccRes E s s' (FlagR Q flag has) := by
  intro fuel
  induction fuel with
  | zero => intro flag s has s' _ _ h; simp [peekWhileKindFlagLoop, PI.outOfFuel] at h
  | succ fuel ih =>
    intro flag s has s' w he h hnd
    unfold peekWhileKindFlagLoop at h
    obtain ⟨ko, sP, hp, h2⟩ := bind_dec peek _ s s' has h
    obtain ⟨o, p', hko⟩ := peek_obs s sP ko w hp
    subst hko
    have heP : EofEnd sP := eofEnd_eat he p'.eat (by intro x hx; cases hx)
    have stop : s' = sP → has = flag → AccRes E s s' (FlagR Q flag has) := by
      intro e e2
      rw [e, e2]
      exact ⟨[], (by rw [p'.toks]; rfl), (by intro x hx; cases hx), heP,
        Or.inl ⟨[], TokIs.nil, [], rfl, (by intro i hi; cases hi), by simp⟩⟩
    cases o with
    | none =>
      simp only [Option.map_none] at h2
      rw [run_pure] at h2
      injection h2 with h2a h2
      exact stop h2.symm h2a.symm
    | some t =>
      simp only [Option.map_some] at h2
      by_cases hk : (t.kind != k) = true
      · simp only [hk, if_true] at h2
        rw [run_pure] at h2
        injection h2 with h2a h2
        exact stop h2.symm h2a.symm
      · simp only [hk, Bool.false_eq_true, if_false] at h2
        have hk' : (t.kind == k) = true := by simpa using hk
        have h3 := getCurrent_dec _ sP s' has h2
        obtain ⟨_, sI, hi, h4⟩ := bind_dec item _ sP s' has h3
        have h5 := getCurrent_dec _ sI s' has h4
        have aI := hitem.1 sP () sI p'.w hi
        by_cases hsame : (sP.current == sI.current) = true
        · simp only [hsame, if_true] at h5
          exact absurd h5 (stuck_not_ok _ _ _)
        · simp only [hsame, Bool.false_eq_true, if_false] at h5
          have hndI : ¬ Doomed sI := fun d => hnd ((good_flagLoop k item hitem.1 fuel true sI has s' aI.w h5).doom d)
          have hq : KindP (· == k) (Toks sP) := ⟨t, by rw [p'.toks]; exact p'.head.symm, hk'⟩
          obtain ⟨c1, t1, n1, e1, r1⟩ := hitem.2 sP () sI p'.w heP hq hi hndI
          obtain ⟨c2, t2, n2, e2, r2⟩ := ih true sI has s' aI.w e1 h5 hnd
          refine ⟨c1 ++ c2, by rw [← p'.toks, t1, t2, List.append_assoc], noEof_append n1 n2, e2, ?_⟩
          rcases r1 with ⟨x1, hx1, hq1⟩ | ev
          · rcases r2 with ⟨x2, hx2, items, hxi, hall, hhas⟩ | ev2
            · refine Or.inl ⟨x1 ++ x2, ?_, x1 :: items, by simp [hxi], ?_, ?_⟩
              · rw [sig_append]; exact hx1.append hx2
              · intro i hi'
                rcases List.mem_cons.mp hi' with rfl | hi'
                · exact hq1
                · exact hall i hi'
              · rw [hhas]; simp
            · exact Or.inr ev2
          · exact Or.inr (hE.carries sI s' c2 e1 hndI ev t2 n2)

theorem acc_flagLoop {E : PState → Prop} (hE : Early E) {H : List Tok → Prop} (k : Kind) (item : PI Unit) (Q : List Ast.Tok → Prop)
    (hitem : Acc E (KindP (· == k)) item (fun _ => Q)) (fuel : Nat) (flag : Bool) :
    Acc E H (peekWhileKindFlagLoop k item fuel flag) (FlagR Q flag) :=
  ⟨good_flagLoop k item hitem.1 fuel flag, fun s a s' w he _ h hnd => flagLoop_res hE k item Q hitem fuel flag s a s' w he h hnd⟩

theorem acc_srcLen {α : Type} {E : PState → Prop} {H : List Tok → Prop} {f : Nat → PI α} {R : α → List Ast.Tok → Prop}
    (h : ∀ n, Acc E H (f n) R) : Acc E H (srcLen >>= f) R := by
  refine ⟨good_bind _ _ good_srcLen (fun n => (h n).1), ?_⟩
  intro s a s' w he hq hr hnd
  obtain ⟨n, h5⟩ := srcLen_dec _ s s' a hr
  exact (h n).2 s a s' w he hq h5 hnd

/-! ### optional parts with two continuations -/

/-- `if peek == k0 { m; restT } else { restF }` -/
def optKind2 {α : Type} (k0 : Kind) (m : PI Unit) (restT restF : PI α) : PI α :=
  peek >>= fun k => if k == some k0 then (m >>= fun _ => restT) else restF

theorem accL_optKind2 {α : Type} {E : PState → Prop} (hE : Early E) (k0 : Kind) (m : PI Unit)
    (restT restF : PI α) (Lm : List Ast.Tok → Prop) (R : α → List Ast.Tok → Prop)
    (hm : Acc E (KindP (· == k0)) m (fun _ => Lm)) (hT : Acc E LexQ restT R) (hF : Acc E LexQ restF R) :
    Acc E LexQ (optKind2 k0 m restT restF) (fun a x => ∃ x1 x2, x = x1 ++ x2 ∧ (Lm x1 ∨ x1 = []) ∧ R a x2) := by
  unfold optKind2
  apply acc_peek
  intro k
  apply acc_ite
  · intro hk
    have := accL_bind hE (H := fun q => LexQ q ∧ q.head?.map (·.kind) = k) (fun _ h => h.1)
      (hm.mono (fun q hq => kindP_of_head hq.2 hk) (fun _ _ h => h)) (fun _ => hT)
    exact this.mono (fun _ h => h) (fun a x ⟨_, x1, x2, e, h1, h2⟩ => ⟨x1, x2, e, Or.inl h1, h2⟩)
  · intro _
    exact hF.mono (fun _ h => h.1) (fun a x h => ⟨[], x, rfl, Or.inr rfl, h⟩)

/-- `if peek_data == word { m; restT } else { restF }`: `m` starts on the keyword token -/
def optData2 {α : Type} (word : String) (m : PI Unit) (restT restF : PI α) : PI α :=
  peekData >>= fun d => if kwOpt word d then (m >>= fun _ => restT) else restF

theorem accL_optData2 {α : Type} {E : PState → Prop} (hE : Early E) (word : String) (m : PI Unit)
    (restT restF : PI α) (Lm : List Ast.Tok → Prop) (R : α → List Ast.Tok → Prop)
    (hm : Acc E (fun q => LexQ q ∧ HeadData word q) m (fun _ => Lm)) (hT : Acc E LexQ restT R) (hF : Acc E LexQ restF R) :
    Acc E LexQ (optData2 word m restT restF) (fun a x => ∃ x1 x2, x = x1 ++ x2 ∧ (Lm x1 ∨ x1 = []) ∧ R a x2) := by
  unfold optData2
  apply acc_peekData
  intro o
  apply acc_ite
  · intro hk
    have hb : Acc E (fun q => LexQ q ∧ q.head? = o) m (fun _ => Lm) := by
      refine hm.mono ?_ (fun _ _ h => h)
      intro q ⟨hl, hq⟩
      cases o with
      | none => simp [kwOpt] at hk
      | some t => exact ⟨hl, t, hq, by simpa [kwOpt] using hk⟩
    have := accL_bind hE (fun _ h => h.1) hb (fun _ => hT)
    exact this.mono (fun _ h => h) (fun a x ⟨_, x1, x2, e, h1, h2⟩ => ⟨x1, x2, e, Or.inl h1, h2⟩)
  · intro _
    exact hF.mono (fun _ h => h.1) (fun a x h => ⟨[], x, rfl, Or.inr rfl, h⟩)

/-- a trailing optional part: `if peek == k { body }` -/
def optBodyK (k0 : Kind) (body : PI Unit) : PI Unit := peek >>= fun k => if k == some k0 then body else pure ()

theorem acc_optBodyK {E : PState → Prop} {H : List Tok → Prop} (k0 : Kind) (body : PI Unit) (L : List Ast.Tok → Prop)
    (hb : Acc E (KindP (· == k0)) body (fun _ => L)) :
    Acc E H (optBodyK k0 body) (fun _ x => L x ∨ x = []) := by
  unfold optBodyK
  refine acc_ifKind k0 _ _ _ (hb.mono (fun _ h => h) (fun _ _ h => Or.inl h)) ?_
  exact (acc_pure E _ ()).mono (fun _ _ => trivial) (fun _ _ h => Or.inr h.2)

/-- the end of every extension with a `meets` flag -/
def extEnd (meets : Bool) : PI Unit := if !meets then err else pure ()

theorem acc_extEnd {E : PState → Prop} {H : List Tok → Prop} (meets : Bool) : Acc E H (extEnd meets) (fun _ x => x = []) := by
  unfold extEnd
  apply acc_ite
  · intro _; exact acc_err
  · intro _; exact (acc_pure E _ ()).mono (fun _ _ => trivial) (fun _ _ h => h.2)

end Apollo.Parse
