import ApolloModel.Proofs.ParserTree24
import ApolloModel.Proofs.AstDocument3
/-
C08 growth (pipeline), stage (v) type-system definitions, part 1: descriptions, default values, the type of a
definition — tree shapes, conversion lemmas, and the parser side (`ty`, `description`, `default_value`).
-/
set_option linter.unusedSimpArgs false
set_option linter.unusedVariables false
namespace Apollo.FromCst
open Apollo.Rowan Apollo.Ast
open Apollo.Parse (isJunk isJunkKind sigE nameNode)

variable {R : List Loc}

/-- the optional `DESCRIPTION[STRING_VALUE[STRING]]` in front of a definition -/
def DescPre (d : Option Ast.Str) (pre : List Elem) : Prop :=
  (d = none ∧ pre = []) ∨
  (∃ dcs tk s, d = some s ∧ pre = [.node "DESCRIPTION" dcs] ∧ sigE dcs = [.node "STRING_VALUE" [.tok "STRING" tk]] ∧
    Strs.decodeStringToken tk = some s)

theorem descPre_kinds {d : Option Ast.Str} {pre : List Elem} (h : DescPre d pre) : pre = [] ∨ ∃ c, pre = [.node "DESCRIPTION" c] := by
  rcases h with ⟨_, rfl⟩ | ⟨c, _, _, _, rfl, _⟩
  · exact Or.inl rfl
  · exact Or.inr ⟨c, rfl⟩

/-- `self.description().convert()?` on a node whose DESCRIPTION child (if any) is known -/
theorem descOf_conv (k : SK) (cs : List Elem) (d : Option Ast.Str) (pre : List Elem) (hpre : DescPre d pre)
    (hfind : (sigE cs).find? (nodeP (· == "DESCRIPTION")) = pre.head?) :
    ConvE (fun R => @descOf R) d (.node k cs) := by
  intro R s hp
  rcases hpre with ⟨rfl, rfl⟩ | ⟨dcs, tk, sv, rfl, rfl, hsig, hdec⟩
  · have := childP_none (R := R) (· == "DESCRIPTION") k cs s hp (by rw [find_nodeP_sigE]; exact hfind)
    refine ⟨[], ?_⟩
    show optM (child "DESCRIPTION" _) _ = _
    rw [child_eq_childP, this]; rfl
  · obtain ⟨s', h', hc⟩ := childP_some (R := R) (· == "DESCRIPTION") k cs s hp _ (by rw [find_nodeP_sigE]; exact hfind)
    have hf2 : dcs.find? (nodeP (· == "STRING_VALUE")) = some (.node "STRING_VALUE" [.tok "STRING" tk]) := by
      rw [find_nodeP_sigE, hsig]; simp [List.find?_cons, nodeP_node]
    obtain ⟨s'', h'', hc2⟩ := childP_some (R := R) (· == "STRING_VALUE") "DESCRIPTION" dcs s' h' _ hf2
    refine ⟨[] ++ [], ?_⟩
    show optM (child "DESCRIPTION" _) _ = _
    rw [child_eq_childP, hc]
    refine optM_some _ _ _ _ ?_
    simp only [child_eq_childP, hc2]
    simp [cStringValue, textOfFirstToken, hdec, M.ofOpt]

/-- the optional `DEFAULT_VALUE[= value]` -/
def DefaultPre (d : Option Value) (pre : List Elem) : Prop :=
  (d = none ∧ pre = []) ∨
  (∃ v dcs eq ev, d = some v ∧ pre = [.node "DEFAULT_VALUE" dcs] ∧ sigE dcs = [.tok "EQ" eq, ev] ∧ ValTree v ev)

theorem defaultPre_kinds {d : Option Value} {pre : List Elem} (h : DefaultPre d pre) :
    pre = [] ∨ ∃ c, pre = [.node "DEFAULT_VALUE" c] := by
  rcases h with ⟨_, rfl⟩ | ⟨_, c, _, _, _, rfl, _⟩
  · exact Or.inl rfl
  · exact Or.inr ⟨c, rfl⟩

theorem defaultOf_conv (n : Nat) (k : SK) (cs : List Elem) (d : Option Value) (pre : List Elem) (hpre : DefaultPre d pre)
    (hfind : (sigE cs).find? (nodeP (· == "DEFAULT_VALUE")) = pre.head?) (hmem : ∀ e ∈ pre, e ∈ sigE cs)
    (hs : size (.node k cs) ≤ n + 1) : ConvE (fun R => @defaultOf R n) d (.node k cs) := by
  intro R s hp
  rcases hpre with ⟨rfl, rfl⟩ | ⟨v, dcs, eq, ev, rfl, rfl, hsig, hv⟩
  · have := childP_none (R := R) (· == "DEFAULT_VALUE") k cs s hp (by rw [find_nodeP_sigE]; exact hfind)
    refine ⟨[], ?_⟩
    show optM (child "DEFAULT_VALUE" _) _ = _
    rw [child_eq_childP, this]; rfl
  · obtain ⟨s', h', hc⟩ := childP_some (R := R) (· == "DEFAULT_VALUE") k cs s hp _ (by rw [find_nodeP_sigE]; exact hfind)
    have hfv : dcs.find? (nodeP isValueKind) = some ev := by
      rw [find_nodeP_sigE, hsig]; simp [List.find?_cons, nodeP_tok, hv.nodeP]
    obtain ⟨s'', h'', hc2⟩ := childP_some (R := R) isValueKind "DEFAULT_VALUE" dcs s' h' ev hfv
    have hsz : size ev ≤ n := by
      have h1 := size_le_sizeList (mem_sigE (hmem (Elem.node "DEFAULT_VALUE" dcs) (by simp)))
      have h2 := size_le_sizeList (mem_sigE (cs := dcs) (e := ev) (by rw [hsig]; simp))
      rw [size_node] at hs h1; omega
    obtain ⟨l2, hl2⟩ := cValue_valTree n v ev hv hsz R s'' h''
    refine ⟨([] ++ l2) ++ [], ?_⟩
    show optM (child "DEFAULT_VALUE" _) _ = _
    rw [child_eq_childP, hc]
    refine optM_some _ _ _ _ ?_
    unfold valueOf
    rw [hc2]
    exact bind_ok rfl hl2

/-- `x.ty()?` then convert -/
theorem typeOf_conv (n : Nat) (k : SK) (cs : List Elem) (t : Ty) (ety : Elem) (ht : TyTree t ety)
    (hfind : (sigE cs).find? (nodeP isTypeKind) = some ety) (hs : size (.node k cs) ≤ n + 1) :
    ConvE (fun R => @typeOf R n) t (.node k cs) := by
  intro R s hp
  obtain ⟨s', h', hc⟩ := childP_some (R := R) isTypeKind k cs s hp ety (by rw [find_nodeP_sigE]; exact hfind)
  have hsz : size ety ≤ n := by
    have hm : ety ∈ sigE cs := by
      have := List.find?_some (p := nodeP isTypeKind) (l := sigE cs) hfind
      exact List.mem_of_find?_eq_some hfind
    have h1 := size_le_sizeList (mem_sigE hm)
    rw [size_node] at hs; omega
  obtain ⟨l, hl⟩ := cType_tyTree n t ety ht hsz R s' h'
  refine ⟨[] ++ l, ?_⟩
  show typeOf n _ = _
  unfold typeOf
  rw [hc]
  exact bind_ok rfl hl

end Apollo.FromCst

namespace Apollo.Parse
open Apollo.Rowan hiding Str
open Apollo.Lex hiding Str
open Apollo.FromCst (TyTree ValTree DescPre DefaultPre OptDirs DirsNode All2)

/-- a judgement without early exit holds with any -/
theorem Tr.anyE {α : Type} {E : PState → Prop} {H : List Tok → Prop} {m : PI α} {R : α → List Tok → List Elem → Prop}
    (h : Tr NoE H m R) : Tr E H m R := by
  refine ⟨h.1, ?_⟩
  intro s a s' w hi he hlq hq hr hnd
  obtain ⟨cs, ad, a1, a2, a3, a4, a5⟩ := h.2 s a s' w hi he hlq hq hr hnd
  refine ⟨cs, ad, a1, a2, a3, a4, ?_⟩
  rcases a5 with r | f
  · exact Or.inl r
  · exact absurd f id

theorem tr_peekIf {α : Type} {E : PState → Prop} {H : List Tok → Prop} (c : Option Kind → Bool) (a b : PI α)
    (R : α → List Tok → List Elem → Prop) (ha : Tr E (fun _ => True) a R) (hb : Tr E (fun _ => True) b R) :
    Tr E H (peek >>= fun k => if c k then a else b) R := by
  apply tr_peek
  intro k
  apply tr_ite
  · intro _; exact ha.mono (fun _ _ => trivial) (fun _ _ _ h => h)
  · intro _; exact hb.mono (fun _ _ => trivial) (fun _ _ _ h => h)

/-- one type reference -/
def TyR (cs : List Tok) (e : List Elem) : Prop := ∃ t e0, TokIs cs (Ast.tTy t) ∧ e = [e0] ∧ TyTree t e0

/-- `description`: a String token under `DESCRIPTION[STRING_VALUE[…]]` -/
theorem tr_description {E : PState → Prop} (hE : Early E) :
    Tr E (KindP (· == .stringValue)) description
      (fun _ cs e => ∃ (t : Tok) (sv : Ast.Str), t.kind = .stringValue ∧ Strs.decodeStringToken t.data = some sv ∧ cs = [t] ∧
        DescPre (some sv) e) := by
  unfold description
  have hleaf := tr_leaf (E := E) "STRING_VALUE" "STRING" (by decide) (fun t => t.kind = .stringValue)
    (by intro t h; rw [h]; exact ⟨rfl, by decide⟩)
  have hH : ∀ q, KindP (· == Kind.stringValue) q → HeadP (fun t : Tok => t.kind = .stringValue) q := by
    intro q ⟨t, h1, h2⟩; exact ⟨t, h1, by simpa using h2⟩
  refine (tr_withNode hE "DESCRIPTION" ?_ hleaf).mono hH ?_
  · rintro q ⟨t, hh, hk⟩
    cases q with
    | nil => cases hh
    | cons a b =>
      simp only [List.head?_cons, Option.some.injEq] at hh
      subst hh
      exact ⟨a, b, rfl, by rw [hk]; rfl⟩
  · rintro _ cs e ⟨inner, rfl, t, hk, hf, rfl, hin⟩
    obtain ⟨sv, hsv⟩ := Option.isSome_iff_exists.mp (hf.2 hk)
    exact ⟨t, sv, hk, hsv, rfl, Or.inr ⟨inner, t.data, sv, rfl, rfl, hin, hsv⟩⟩

/-- an optional description followed by `rest` -/
theorem tr_optDesc {α : Type} {E : PState → Prop} (hE : Early E) {H : List Tok → Prop} (rest : PI α)
    (R : α → List Tok → List Elem → Prop) (hr : Tr E (fun _ => True) rest R) :
    Tr E H (optKind .stringValue description rest)
      (fun a cs e => ∃ (d : Option Ast.Str) (c1 c2 : List Tok) (pre e2 : List Elem), cs = c1 ++ c2 ∧ e = pre ++ e2 ∧
        TokIs c1 (Ast.tDescription d) ∧ DescPre d pre ∧ R a c2 e2) := by
  refine (tr_optKind hE .stringValue description rest _ R (tr_description hE) hr).mono (fun _ h => h) ?_
  rintro a cs e ⟨c1, c2, e1, e2, rfl, rfl, h1, h2⟩
  rcases h1 with ⟨t, sv, hk, hsv, rfl, hpre⟩ | ⟨rfl, rfl⟩
  · exact ⟨some sv, [t], c2, e1, e2, rfl, rfl, TokIs.single t _ (by simp [astOfV, hk, hsv]), hpre, h2⟩
  · exact ⟨none, [], c2, [], e2, rfl, rfl, TokIs.nil, Or.inl ⟨rfl, rfl⟩, h2⟩

/-- `default_value`: `= Value` (constant) under one DEFAULT_VALUE node -/
theorem tr_defaultValueD (n : Nat) :
    Tr AtEof (KindP (· == .eq)) (defaultValue n)
      (fun _ cs e => ∃ (v : Ast.Value), TokIs cs (Ast.tDefault (some v)) ∧ valueOk true v = true ∧ DefaultPre (some v) e) := by
  unfold defaultValue
  have hb := tr_bind early_atEof (tr_bump (E := AtEof) "EQ" (by decide) (fun t => t.kind = .eq)
    (by intro t h; rw [h]; exact ⟨rfl, by decide⟩)) (fun _ => tr_value n true false)
  have hH : ∀ q, KindP (· == Kind.eq) q → HeadP (fun t : Tok => t.kind = .eq) q := by
    intro q ⟨t, h1, h2⟩; exact ⟨t, h1, by simpa using h2⟩
  refine (tr_withNode early_atEof "DEFAULT_VALUE" ?_ (hb.mono hH (fun _ _ _ h => h))).mono (fun _ h => h) ?_
  · rintro q ⟨t, hh, hk⟩
    cases q with
    | nil => cases hh
    | cons a b =>
      simp only [List.head?_cons, Option.some.injEq] at hh
      subst hh
      have : a.kind = .eq := by simpa using hk
      exact ⟨a, b, rfl, by rw [this]; rfl⟩
  · rintro _ cs e ⟨inner, rfl, _, c1, c2, e1, e2, rfl, hin, ⟨t, hk, _, rfl, rfl⟩, v, ev, h1, h2, rfl, h4⟩
    exact ⟨v, TokIs.cons (by simp [astOfV, hk]) h1, h2, Or.inr ⟨v, inner, t.data, ev, rfl, rfl, by rw [hin]; rfl, h4⟩⟩

/-- directives (constant) at the end of a definition -/
theorem tr_optDirsEnd (n : Nat) {E : PState → Prop} {H : List Tok → Prop} :
    Tr E H (optDirsEnd n) (fun _ cs e => ∃ (ds : List Ast.Directive), TokIs cs (Ast.tDirectives ds) ∧ dirsOk true ds ∧ OptDirs ds e) := by
  unfold optDirsEnd
  exact Tr.anyE (tr_optDirs n true)

theorem wfArgs_of_argsOk (c : Bool) : ∀ (args : List (Ast.Str × Ast.Value)), argsOk c args → Ast.wfArgs args = true
  | [], _ => rfl
  | a :: r, h => by
    simp only [Ast.wfArgs, Bool.and_eq_true]
    exact ⟨valueOk_wf c a.2 (h a (by simp)), wfArgs_of_argsOk c r (fun b hb => h b (by simp [hb]))⟩

theorem wfDirs_of_dirsOk (c : Bool) : ∀ (ds : List Ast.Directive), dirsOk c ds → Ast.wfDirs ds = true
  | [], _ => rfl
  | d :: r, h => by
    simp only [Ast.wfDirs, Bool.and_eq_true]
    exact ⟨wfArgs_of_argsOk c d.args (h d (by simp)), wfDirs_of_dirsOk c r (fun b hb => h b (by simp [hb]))⟩

end Apollo.Parse
