import ApolloModel.Spec.ExecValidation
/-
`same_value` vs the specification's equality of argument values.
-/
namespace Apollo.ExecVal
open Apollo Apollo.Spec Apollo.Spec.ExecVal

mutual
/-- no input-object literal with two fields of the same name anywhere inside (rule 5.6.3) -/
def uniqueFields : Value → Bool
  | .list l => uniqueFieldsList l
  | .object fs => uniqueKeys fs && uniqueFieldsFields fs
  | _ => true
def uniqueFieldsList : List Value → Bool
  | [] => true
  | a :: l => uniqueFields a && uniqueFieldsList l
def uniqueFieldsFields : List (String × Value) → Bool
  | [] => true
  | kv :: rest => uniqueFields kv.2 && uniqueFieldsFields rest
def uniqueKeys : List (String × Value) → Bool
  | [] => true
  | kv :: rest => (lookupFirst kv.1 rest).isNone && uniqueKeys rest
end

theorem listEq_length {l r : List Value} (h : ListEq l r) : l.length = r.length := by
  induction l generalizing r with
  | nil => cases h; rfl
  | cons a l ih => cases h with | cons _ h => simp [ih h]

/-- pigeonhole on lists without repetition -/
theorem subset_of_nodup_length : ∀ (l r : List String), l.Nodup → r.Nodup → l.length = r.length →
    (∀ k ∈ l, k ∈ r) → ∀ k ∈ r, k ∈ l := by
  intro l
  induction l with
  | nil => intro r _ _ hlen _ k hk; cases r with
    | nil => simp at hk
    | cons _ _ => simp at hlen
  | cons a l ih =>
    intro r hl hr hlen hsub k hk
    have har : a ∈ r := hsub a (by simp)
    have hl' := List.nodup_cons.mp hl
    have hsub' : ∀ x ∈ l, x ∈ r.erase a := by
      intro x hx
      have hxa : x ≠ a := fun h => hl'.1 (h ▸ hx)
      exact (List.mem_erase_of_ne hxa).mpr (hsub x (by simp [hx]))
    have hlen' : l.length = (r.erase a).length := by
      rw [List.length_erase_of_mem har]; simp at hlen; omega
    have := ih (r.erase a) hl'.2 (hr.erase a) hlen' hsub'
    by_cases hka : k = a
    · simp [hka]
    · exact List.mem_cons_of_mem _ (this k ((List.mem_erase_of_ne hka).mpr hk))

theorem length_le_of_nodup_subset : ∀ (l r : List String), l.Nodup → (∀ k ∈ l, k ∈ r) → l.length ≤ r.length := by
  intro l
  induction l with
  | nil => intro r _ _; simp
  | cons a l ih =>
    intro r hl hsub
    have har : a ∈ r := hsub a (by simp)
    have hl' := List.nodup_cons.mp hl
    have hsub' : ∀ x ∈ l, x ∈ r.erase a := by
      intro x hx
      have hxa : x ≠ a := fun h => hl'.1 (h ▸ hx)
      exact (List.mem_erase_of_ne hxa).mpr (hsub x (by simp [hx]))
    have := ih (r.erase a) hl'.2 hsub'
    rw [List.length_erase_of_mem har] at this
    have : 0 < r.length := List.length_pos_of_mem har
    simp; omega

abbrev Fields := List (String × Value)

theorem lookup_none_iff (k : String) (r : Fields) : lookupFirst k r = none ↔ k ∉ r.map Prod.fst := by
  induction r with
  | nil => simp [lookupFirst]
  | cons kv r ih =>
    obtain ⟨k', w⟩ := kv
    by_cases h : k = k'
    · subst h; simp [lookupFirst]
    · have h' : (k == k') = false := by simpa using h
      simp [lookupFirst, h', ih, h]

theorem lookup_mem (k : String) (v : Value) (r : Fields) (h : lookupFirst k r = some v) : (k, v) ∈ r := by
  induction r with
  | nil => simp [lookupFirst] at h
  | cons kv r ih =>
    obtain ⟨k', w⟩ := kv
    by_cases hk : k = k'
    · subst hk; simp [lookupFirst] at h; simp [h]
    · have h' : (k == k') = false := by simpa using hk
      simp only [lookupFirst, h', Bool.false_eq_true, if_false] at h
      exact List.mem_cons_of_mem _ (ih h)

theorem lookup_unique (k : String) (v : Value) (r : Fields) (hu : uniqueKeys r = true) (hm : (k, v) ∈ r) :
    lookupFirst k r = some v := by
  induction r with
  | nil => simp at hm
  | cons kv r ih =>
    obtain ⟨k', w⟩ := kv
    simp only [uniqueKeys, Bool.and_eq_true, Option.isNone_iff_eq_none] at hu
    rcases List.mem_cons.mp hm with h | h
    · cases h; simp [lookupFirst]
    · by_cases hk : k = k'
      · subst hk
        have := (lookup_none_iff k r).mp hu.1
        exact absurd (List.mem_map.mpr ⟨(k, v), h, rfl⟩) this
      · have h' : (k == k') = false := by simpa using hk
        simp only [lookupFirst, h', Bool.false_eq_true, if_false]
        exact ih hu.2 h

theorem uniqueKeys_nodup (l : Fields) (h : uniqueKeys l = true) : (l.map Prod.fst).Nodup := by
  induction l with
  | nil => simp
  | cons kv l ih =>
    simp only [uniqueKeys, Bool.and_eq_true, Option.isNone_iff_eq_none] at h
    simp only [List.map_cons, List.nodup_cons]
    exact ⟨(lookup_none_iff _ _).mp h.1, ih h.2⟩

theorem uniqueFields_of_mem (l : Fields) (h : uniqueFieldsFields l = true) (k : String) (v : Value)
    (hm : (k, v) ∈ l) : uniqueFields v = true := by
  induction l with
  | nil => simp at hm
  | cons kv l ih =>
    simp only [uniqueFieldsFields, Bool.and_eq_true] at h
    rcases List.mem_cons.mp hm with hm | hm
    · subst hm; exact h.1
    · exact ih h.2 hm

theorem hasField_iff (k : String) (v : Value) (r : Fields) :
    HasField k v r ↔ ∃ v', (k, v') ∈ r ∧ SpecEq v v' := by
  induction r with
  | nil => constructor
           · intro h; cases h
           · rintro ⟨_, h, _⟩; simp at h
  | cons kv r ih =>
    constructor
    · intro h
      cases h with
      | here he => exact ⟨_, by simp, he⟩
      | there ht => obtain ⟨v', hm, he⟩ := ih.mp ht; exact ⟨v', List.mem_cons_of_mem _ hm, he⟩
    · rintro ⟨v', hm, he⟩
      rcases List.mem_cons.mp hm with hm | hm
      · subst hm; exact HasField.here he
      · exact HasField.there (ih.mpr ⟨v', hm, he⟩)

theorem fieldOf_iff (k : String) (v : Value) (l : Fields) :
    FieldOf k v l ↔ ∃ v', (k, v') ∈ l ∧ SpecEq v' v := by
  induction l with
  | nil => constructor
           · intro h; cases h
           · rintro ⟨_, h, _⟩; simp at h
  | cons kv l ih =>
    constructor
    · intro h
      cases h with
      | here he => exact ⟨_, by simp, he⟩
      | there ht => obtain ⟨v', hm, he⟩ := ih.mp ht; exact ⟨v', List.mem_cons_of_mem _ hm, he⟩
    · rintro ⟨v', hm, he⟩
      rcases List.mem_cons.mp hm with hm | hm
      · subst hm; exact FieldOf.here he
      · exact FieldOf.there (ih.mpr ⟨v', hm, he⟩)

theorem fieldsSub_iff (l r : Fields) : FieldsSub l r ↔ ∀ k v, (k, v) ∈ l → HasField k v r := by
  induction l with
  | nil => constructor
           · intro _ k v h; simp at h
           · intro _; exact FieldsSub.nil
  | cons kv l ih =>
    obtain ⟨k0, v0⟩ := kv
    constructor
    · intro h k v hm
      cases h with
      | cons hf hs =>
        rcases List.mem_cons.mp hm with hm | hm
        · cases hm; exact hf
        · exact ih.mp hs k v hm
    · intro h
      exact FieldsSub.cons (h k0 v0 (by simp)) (ih.mpr fun k v hm => h k v (List.mem_cons_of_mem _ hm))

theorem fieldsSup_iff (l r : Fields) : FieldsSup l r ↔ ∀ k v, (k, v) ∈ r → FieldOf k v l := by
  induction r with
  | nil => constructor
           · intro _ k v h; simp at h
           · intro _; exact FieldsSup.nil
  | cons kv r ih =>
    obtain ⟨k0, v0⟩ := kv
    constructor
    · intro h k v hm
      cases h with
      | cons hf hs =>
        rcases List.mem_cons.mp hm with hm | hm
        · cases hm; exact hf
        · exact ih.mp hs k v hm
    · intro h
      exact FieldsSup.cons (h k0 v0 (by simp)) (ih.mpr fun k v hm => h k v (List.mem_cons_of_mem _ hm))

theorem allFields_iff (l r : Fields) :
    allFields l r = true ↔ ∀ k v, (k, v) ∈ l → ∃ v', lookupFirst k r = some v' ∧ sameValue v v' = true := by
  induction l with
  | nil => simp [allFields]
  | cons kv l ih =>
    obtain ⟨k0, v0⟩ := kv
    simp only [allFields, Bool.and_eq_true, ih]
    have hf : fieldIn (k0, v0) r = true ↔ ∃ v', lookupFirst k0 r = some v' ∧ sameValue v0 v' = true := by
      simp only [fieldIn]
      cases lookupFirst k0 r with
      | none => simp
      | some w => simp
    rw [hf]
    constructor
    · rintro ⟨h0, hr⟩ k v hm
      rcases List.mem_cons.mp hm with hm | hm
      · cases hm; exact h0
      · exact hr k v hm
    · intro h
      exact ⟨h k0 v0 (by simp), fun k v hm => h k v (List.mem_cons_of_mem _ hm)⟩

theorem sizeOf_field_lt (l : Fields) (k : String) (v : Value) (hm : (k, v) ∈ l) :
    sizeOf v < sizeOf (Value.object l) := by
  have := List.sizeOf_lt_of_mem hm
  simp only [Value.object.sizeOf_spec, Prod.mk.sizeOf_spec] at *
  omega

theorem zipAll_iff_listEq_u (n : Nat)
    (ih : ∀ a : Value, sizeOf a < n → ∀ b, uniqueFields a = true → uniqueFields b = true →
      (sameValue a b = true ↔ SpecEq a b)) :
    ∀ l r : List Value, (∀ a ∈ l, sizeOf a < n) → uniqueFieldsList l = true → uniqueFieldsList r = true →
      l.length = r.length → (zipAll l r = true ↔ ListEq l r) := by
  intro l
  induction l with
  | nil =>
    intro r _ _ _ hlen
    cases r with
    | nil => simp [zipAll]; exact ListEq.nil
    | cons b r => simp at hlen
  | cons a l ihl =>
    intro r hsz hfl hfr hlen
    cases r with
    | nil => simp at hlen
    | cons b r =>
      simp only [uniqueFieldsList, Bool.and_eq_true] at hfl hfr
      have ha := ih a (hsz a (by simp)) b hfl.1 hfr.1
      have hl := ihl r (fun x hx => hsz x (by simp [hx])) hfl.2 hfr.2 (by simpa using hlen)
      simp only [zipAll, Bool.and_eq_true]
      constructor
      · intro ⟨h1, h2⟩; exact ListEq.cons (ha.mp h1) (hl.mp h2)
      · intro h
        cases h with
        | cons h1 h2 => exact ⟨ha.mpr h1, hl.mpr h2⟩

theorem object_case (n : Nat)
    (ih : ∀ a : Value, sizeOf a < n → ∀ b, uniqueFields a = true → uniqueFields b = true →
      (sameValue a b = true ↔ SpecEq a b))
    (l r : Fields) (hsz : ∀ k v, (k, v) ∈ l → sizeOf v < n)
    (hul : uniqueKeys l = true) (hfl : uniqueFieldsFields l = true)
    (hur : uniqueKeys r = true) (hfr : uniqueFieldsFields r = true) :
    ((l.length == r.length) = true ∧ allFields l r = true) ↔ (FieldsSub l r ∧ FieldsSup l r) := by
  have hnl := uniqueKeys_nodup l hul
  have hnr := uniqueKeys_nodup r hur
  constructor
  · rintro ⟨hlen, hall⟩
    have hlen : l.length = r.length := by simpa using hlen
    have hall := (allFields_iff l r).mp hall
    have hsub : ∀ k v, (k, v) ∈ l → ∃ v', (k, v') ∈ r ∧ SpecEq v v' := by
      intro k v hm
      obtain ⟨v', hl', hs⟩ := hall k v hm
      have hm' := lookup_mem k v' r hl'
      exact ⟨v', hm', (ih v (hsz k v hm) v' (uniqueFields_of_mem l hfl k v hm) (uniqueFields_of_mem r hfr k v' hm')).mp hs⟩
    refine ⟨(fieldsSub_iff l r).mpr fun k v hm => (hasField_iff k v r).mpr (hsub k v hm), ?_⟩
    apply (fieldsSup_iff l r).mpr
    intro k v' hm'
    -- pigeonhole: every key of r is a key of l
    have hkeys : ∀ x ∈ l.map Prod.fst, x ∈ r.map Prod.fst := by
      intro x hx
      obtain ⟨⟨k0, v0⟩, hm0, rfl⟩ := List.mem_map.mp hx
      obtain ⟨w, hw, _⟩ := hsub k0 v0 hm0
      exact List.mem_map.mpr ⟨(k0, w), hw, rfl⟩
    have hk : k ∈ l.map Prod.fst :=
      subset_of_nodup_length _ _ hnl hnr (by simpa using hlen) hkeys k (List.mem_map.mpr ⟨(k, v'), hm', rfl⟩)
    obtain ⟨⟨k1, v⟩, hm, hk1⟩ := List.mem_map.mp hk
    simp only at hk1; subst hk1
    obtain ⟨w, hw, hs⟩ := hsub k1 v hm
    have e1 := lookup_unique k1 w r hur hw
    have e2 := lookup_unique k1 v' r hur hm'
    have : w = v' := by rw [e1] at e2; exact Option.some.inj e2
    subst this
    exact (fieldOf_iff k1 w l).mpr ⟨v, hm, hs⟩
  · rintro ⟨hsub, hsup⟩
    have hsub := (fieldsSub_iff l r).mp hsub
    have hsup := (fieldsSup_iff l r).mp hsup
    have h1 : ∀ x ∈ l.map Prod.fst, x ∈ r.map Prod.fst := by
      intro x hx
      obtain ⟨⟨k0, v0⟩, hm0, rfl⟩ := List.mem_map.mp hx
      obtain ⟨w, hw, _⟩ := (hasField_iff k0 v0 r).mp (hsub k0 v0 hm0)
      exact List.mem_map.mpr ⟨(k0, w), hw, rfl⟩
    have h2 : ∀ x ∈ r.map Prod.fst, x ∈ l.map Prod.fst := by
      intro x hx
      obtain ⟨⟨k0, v0⟩, hm0, rfl⟩ := List.mem_map.mp hx
      obtain ⟨w, hw, _⟩ := (fieldOf_iff k0 v0 l).mp (hsup k0 v0 hm0)
      exact List.mem_map.mpr ⟨(k0, w), hw, rfl⟩
    have l1 := length_le_of_nodup_subset _ _ hnl h1
    have l2 := length_le_of_nodup_subset _ _ hnr h2
    simp only [List.length_map] at l1 l2
    refine ⟨by simp; omega, (allFields_iff l r).mpr ?_⟩
    intro k v hm
    obtain ⟨w, hw, hs⟩ := (hasField_iff k v r).mp (hsub k v hm)
    exact ⟨w, lookup_unique k w r hur hw,
      (ih v (hsz k v hm) w (uniqueFields_of_mem l hfl k v hm) (uniqueFields_of_mem r hfr k w hw)).mpr hs⟩

theorem sameValue_iff_unique_aux : ∀ n : Nat, ∀ a : Value, sizeOf a < n → ∀ b,
    uniqueFields a = true → uniqueFields b = true → (sameValue a b = true ↔ SpecEq a b) := by
  intro n
  induction n with
  | zero => intro a h; omega
  | succ n ih =>
    intro a hsz b hfa hfb
    cases a with
    | null => cases b <;> simp [sameValue] <;> first | exact SpecEq.null | (intro h; cases h)
    | enum x =>
      cases b <;> simp [sameValue] <;> try (intro h; cases h)
      case enum y => constructor
                     · intro h; subst h; exact SpecEq.enum x
                     · intro h; cases h; rfl
    | var x =>
      cases b <;> simp [sameValue] <;> try (intro h; cases h)
      case var y => constructor
                    · intro h; subst h; exact SpecEq.var x
                    · intro h; cases h; rfl
    | str x =>
      cases b <;> simp [sameValue] <;> try (intro h; cases h)
      case str y => constructor
                    · intro h; subst h; exact SpecEq.str x
                    · intro h; cases h; rfl
    | float x =>
      cases b <;> simp [sameValue] <;> try (intro h; cases h)
      case float y => constructor
                      · intro h; subst h; exact SpecEq.float x
                      · intro h; cases h; rfl
    | int x =>
      cases b <;> simp [sameValue] <;> try (intro h; cases h)
      case int y => constructor
                    · intro h; subst h; exact SpecEq.int x
                    · intro h; cases h; rfl
    | bool x =>
      cases b <;> simp [sameValue] <;> try (intro h; cases h)
      case bool y => constructor
                     · intro h; subst h; exact SpecEq.bool x
                     · intro h; cases h; rfl
    | object l =>
      cases b with
      | object r =>
        simp only [uniqueFields, Bool.and_eq_true] at hfa hfb
        have hsz' : ∀ k v, (k, v) ∈ l → sizeOf v < n := by
          intro k v hm
          have := sizeOf_field_lt l k v hm
          omega
        have hobj := object_case n ih l r hsz' hfa.1 hfa.2 hfb.1 hfb.2
        simp only [sameValue]
        constructor
        · intro h
          by_cases hlen : (l.length == r.length) = true
          · rw [if_pos hlen] at h
            have := hobj.mp ⟨hlen, h⟩
            exact SpecEq.object this.1 this.2
          · rw [if_neg hlen] at h; cases h
        · intro h
          cases h with
          | object h1 h2 =>
            have := hobj.mpr ⟨h1, h2⟩
            rw [if_pos this.1]; exact this.2
      | list r => simp [sameValue]; intro h; cases h
      | null => simp [sameValue]; intro h; cases h
      | enum y => simp [sameValue]; intro h; cases h
      | var y => simp [sameValue]; intro h; cases h
      | str y => simp [sameValue]; intro h; cases h
      | float y => simp [sameValue]; intro h; cases h
      | int y => simp [sameValue]; intro h; cases h
      | bool y => simp [sameValue]; intro h; cases h
    | list l =>
      cases b with
      | list r =>
        simp only [uniqueFields] at hfa hfb
        have hsz' : ∀ x ∈ l, sizeOf x < n := by
          intro x hx
          have := List.sizeOf_lt_of_mem hx
          simp only [Value.list.sizeOf_spec] at hsz
          omega
        simp only [sameValue, Bool.and_eq_true, beq_iff_eq]
        constructor
        · intro ⟨hlen, h⟩
          exact SpecEq.list ((zipAll_iff_listEq_u n ih l r hsz' hfa hfb hlen).mp h)
        · intro h
          cases h with
          | list h =>
            have hlen : l.length = r.length := listEq_length h
            exact ⟨hlen, (zipAll_iff_listEq_u n ih l r hsz' hfa hfb hlen).mpr h⟩
      | object fs => simp [sameValue]; intro h; cases h
      | null => simp [sameValue]; intro h; cases h
      | enum y => simp [sameValue]; intro h; cases h
      | var y => simp [sameValue]; intro h; cases h
      | str y => simp [sameValue]; intro h; cases h
      | float y => simp [sameValue]; intro h; cases h
      | int y => simp [sameValue]; intro h; cases h
      | bool y => simp [sameValue]; intro h; cases h

end Apollo.ExecVal
