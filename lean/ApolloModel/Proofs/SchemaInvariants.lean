import ApolloModel.Model.SchemaInvariants
import ApolloModel.Proofs.SchemaValidation
import ApolloModel.Proofs.BuiltinScalars2
/-
Lemmas for C15: the Boolean invariant evaluators against the declarative predicates, and the
"present ⇒ referenced" half of the built-in scalar bookkeeping.
-/
namespace Apollo.SchemaInvariants
open Apollo.SchemaValidation Apollo.SchemaValidation.Spec

theorem isObject_iff (t : RootTarget) : RootTarget.isObject t = true ↔ ∃ n, t = RootTarget.object n := by
  cases t <;> simp [RootTarget.isObject]

theorem rootsInv_iff (q m sub : Option RootTarget) : rootsInv q m sub = true ↔ RootsValid q m sub := by
  unfold rootsInv RootsValid
  simp only [Bool.and_eq_true, List.all_eq_true, decide_eq_true_eq, isObject_iff, and_assoc]

theorem forall_mem_iff_getElem? {α} (l : List α) (p : α → Prop) :
    (∀ t ∈ l, p t) ↔ ∀ (a : Nat) (t : α), l[a]? = some t → p t := by
  constructor
  · intro h a t ht; exact h t (List.mem_of_getElem? ht)
  · intro h t ht
    obtain ⟨a, ha⟩ := List.getElem?_of_mem ht
    exact h a t ha

theorem transInv_iff (s : ISchema) : transInv s = true ↔ TransitiveClosed s := by
  rw [← transitive_closed_iff]
  unfold transInv
  simp only [List.all_eq_true, List.isEmpty_iff]
  exact forall_mem_iff_getElem? s _

theorem ireach_lt (g : IGraph) {a b : Nat} (h : IReach g a b) : b < g.length := by
  induction h with
  | single e => obtain ⟨_, _, _, _, hlt⟩ := e; exact hlt
  | cons _ _ ih => exact ih

theorem inputInv_iff (g : IGraph) : inputInv g = true ↔ ∀ r, ¬ InputCycleThrough g r := by
  unfold inputInv
  rw [List.isEmpty_iff]
  unfold failingInputs
  rw [List.filter_eq_nil_iff]
  have hg : g.length ≤ max 32 g.length := Nat.le_max_right _ _
  constructor
  · intro h r hcyc
    have hr := ireach_lt g hcyc
    have hok := h r (List.mem_range.mpr hr)
    obtain ⟨ws, hp, hnd, hrw, _⟩ := ireach_simple_path g hcyc
    have := search_complete_path g (max 32 g.length) ws (max 32 g.length + 1) [r] r r rfl hp
      (fun w hw hmem => hrw (by have : w = r := by simpa using hmem
                                exact this ▸ hw)) hnd
    exact this (by simpa [checkInput] using hok)
  · intro h r hr
    have hr' := List.mem_range.mp hr
    have h1 : checkInput g (max 32 g.length) r ≠ .outOfFuel :=
      search_fuel g _ _ [r] (g.fields r) (by simp) (by simp)
    have h2 : checkInput g (max 32 g.length) r ≠ .limit :=
      search_no_limit g _ hg _ [r] (g.fields r) (by simp)
        (fun x hx => by have : x = r := by simpa using hx
                        exact this ▸ hr')
    have h3 : checkInput g (max 32 g.length) r ≠ .recursed := fun hc =>
      h r (search_sound g _ _ [r] (g.fields r) r r rfl hr' (fun _ h => h) hc)
    cases hc : checkInput g (max 32 g.length) r <;> simp_all

end Apollo.SchemaInvariants

namespace Apollo.Scalars

/-- after a pass, a built-in scalar that is in the map is referenced -/
theorem defined_after_referenced (order : List Name → List Name) (ho : IsOrder order) (s : Schema)
    (hbuilt : ∀ e ∈ s.types, builtinScalars.contains e.1 = true → e.2.isBuiltIn = true)
    (b : Name) (hb : b ∈ builtinScalars) (hd : (bookkeeping order s).defined b = true) :
    s.allRefs.contains b = true := by
  rw [defined_iff] at hd
  obtain ⟨e, he, hn⟩ := hd
  unfold bookkeeping at he
  simp only [List.mem_append] at he
  rcases he with he | he
  · by_cases hall : allUsed s = true
    · exact allUsed_referenced s hall b hb
    · simp only [hall, Bool.false_eq_true, if_false] at he
      rw [List.mem_filter] at he
      obtain ⟨hmem, hkeep⟩ := he
      have hc : builtinScalars.contains e.1 = true := by rw [hn]; simpa using hb
      have hbi := hbuilt e hmem hc
      unfold keep at hkeep
      simp only [hbi, hc, Bool.not_true, Bool.false_or] at hkeep
      have : e.1 ∈ usedAndDefined s := by simpa using hkeep
      rw [hn] at this
      exact ((mem_usedAndDefined s b).mp this).2.1
  · obtain ⟨n, hnmem, rfl⟩ := List.mem_map.mp he
    have : n ∈ usedAndUndefined s := (ho.mem _ _).mp hnmem
    simp only at hn
    rw [hn] at this
    exact ((mem_usedAndUndefined s b).mp this).2.1

end Apollo.Scalars
