import ApolloModel.Model.Guards
import ApolloModel.Proofs.Guards
/-
A stable sort makes the order in which a hash map was iterated unobservable, provided the entries that
came out of the hash map have pairwise distinct sort keys (C22).
-/
namespace Apollo.Guards

theorem pair_sublist_antisymm {α : Type} : ∀ (l : List α) (a b : α), l.Nodup → [a, b].Sublist l → [b, a].Sublist l → False
  | [], _, _, _, h, _ => by cases h
  | x :: l, a, b, hn, h1, h2 => by
    have hx : x ∉ l := (List.nodup_cons.mp hn).1
    have hl : l.Nodup := (List.nodup_cons.mp hn).2
    cases h1 with
    | cons _ h1' =>
      cases h2 with
      | cons _ h2' => exact pair_sublist_antisymm l a b hl h1' h2'
      | cons_cons _ h2' =>
        -- x = b, [a] <+ l ; but [a, b] <+ l gives b ∈ l
        exact hx (h1'.subset (by simp))
    | cons_cons _ h1' =>
      -- x = a
      cases h2 with
      | cons _ h2' => exact hx (h2'.subset (by simp))
      | cons_cons _ h2' => exact hx (h1'.subset (by simp))

theorem pair_sublist_or {α : Type} : ∀ (l : List α) (a b : α), a ∈ l → b ∈ l → a ≠ b → [a, b].Sublist l ∨ [b, a].Sublist l
  | [], _, _, h, _, _ => by cases h
  | x :: l, a, b, ha, hb, hne => by
    rcases List.mem_cons.mp ha with rfl | ha'
    · rcases List.mem_cons.mp hb with rfl | hb'
      · exact absurd rfl hne
      · exact Or.inl (List.Sublist.cons_cons _ (List.singleton_sublist.mpr hb'))
    · rcases List.mem_cons.mp hb with rfl | hb'
      · exact Or.inr (List.Sublist.cons_cons _ (List.singleton_sublist.mpr ha'))
      · rcases pair_sublist_or l a b ha' hb' hne with h | h
        · exact Or.inl (List.Sublist.cons _ h)
        · exact Or.inr (List.Sublist.cons _ h)

/-- two sorted arrangements of the same distinct elements that order every tied pair the same way are
    equal -/
theorem stable_sorted_unique {α : Type} (le : α → α → Bool) :
    ∀ (r1 r2 : List α), r1.Perm r2 → r1.Nodup →
      r1.Pairwise (fun a b => le a b = true) → r2.Pairwise (fun a b => le a b = true) →
      (∀ a b, le a b = true → le b a = true → [a, b].Sublist r1 → [a, b].Sublist r2) → r1 = r2
  | [], r2, hp, _, _, _, _ => by simpa using hp.symm.eq_nil
  | a :: t, r2, hp, hn, s1, s2, ties => by
    have ha2 : a ∈ r2 := hp.subset (by simp)
    have hn2 : r2.Nodup := hp.nodup_iff.mp hn
    have hat : a ∉ t := (List.nodup_cons.mp hn).1
    obtain ⟨p, q, rfl⟩ := List.append_of_mem ha2
    have hpnil : p = [] := by
      cases p with
      | nil => rfl
      | cons b p' =>
        exfalso
        have hb2 : b ∈ (b :: p') ++ a :: q := by simp
        have hbne : b ≠ a := by
          intro h; subst h
          have : (b :: (p' ++ b :: q)).Nodup := by simpa using hn2
          exact (List.nodup_cons.mp this).1 (by simp)
        have hbt : b ∈ t := by
          have := hp.symm.subset hb2
          rcases List.mem_cons.mp this with h | h
          · exact absurd h hbne
          · exact h
        have hab : le a b = true := List.rel_of_pairwise_cons s1 hbt
        have hba : le b a = true := by
          have : ((b :: p') ++ a :: q).Pairwise (fun a b => le a b = true) := s2
          rw [List.cons_append] at this
          exact List.rel_of_pairwise_cons this (by simp)
        have h1 : [a, b].Sublist (a :: t) := List.Sublist.cons_cons _ (List.singleton_sublist.mpr hbt)
        have h2 := ties a b hab hba h1
        have h3 : [b, a].Sublist ((b :: p') ++ a :: q) := by
          rw [List.cons_append]
          exact List.Sublist.cons_cons _ (List.singleton_sublist.mpr (by simp))
        exact pair_sublist_antisymm _ a b hn2 h2 h3
    subst hpnil
    simp only [List.nil_append] at hp s2 ties hn2 ⊢
    have hp' : t.Perm q := hp.cons_inv
    have ih := stable_sorted_unique le t q hp' (List.nodup_cons.mp hn).2 (List.Pairwise.of_cons s1) (List.Pairwise.of_cons s2)
      (by
        intro x y hxy hyx hsub
        have h := ties x y hxy hyx (List.Sublist.cons _ hsub)
        cases h with
        | cons _ h' => exact h'
        | cons_cons _ h' => exact absurd (hsub.subset (by simp)) hat)
    rw [ih]

theorem keyLe_antisymm (a b : Key) (h1 : keyLe a b = true) (h2 : keyLe b a = true) : a = b := by
  cases a with
  | none => cases b with
    | none => rfl
    | some y => simp [keyLe] at h2
  | some x => cases b with
    | none => simp [keyLe] at h1
    | some y =>
      obtain ⟨f1, o1⟩ := x; obtain ⟨f2, o2⟩ := y
      simp only [keyLe, Bool.or_eq_true, Bool.and_eq_true, decide_eq_true_eq, beq_iff_eq] at h1 h2
      have : f1 = f2 ∧ o1 = o2 := by omega
      rw [this.1, this.2]

/-- The diagnostics pushed before (`pre`) followed by diagnostics pushed while iterating a hash map, in
    iteration order `l1` or `l2`: if the hash-map diagnostics have pairwise distinct locations, the sorted
    list does not depend on the iteration order. -/
theorem sort_hash_order_independent {α : Type} (pre l1 l2 : List (Key × α)) (hp : l1.Perm l2)
    (hn : (pre ++ l1).Nodup) (hk : (l1.map (·.1)).Nodup) :
    sortDiagnostics (pre ++ l1) = sortDiagnostics (pre ++ l2) := by
  have tr : ∀ (a b c : Key × α), keyLe a.1 b.1 = true → keyLe b.1 c.1 = true → keyLe a.1 c.1 = true :=
    fun a b c h1 h2 => keyLe_trans a.1 b.1 c.1 h1 h2
  have tot : ∀ (a b : Key × α), (keyLe a.1 b.1 || keyLe b.1 a.1) = true := fun a b => keyLe_total a.1 b.1
  have pin : (pre ++ l1).Perm (pre ++ l2) := List.Perm.append_left pre hp
  have p1 : (sortDiagnostics (pre ++ l1)).Perm (pre ++ l1) := List.mergeSort_perm _ _
  have p2 : (sortDiagnostics (pre ++ l2)).Perm (pre ++ l2) := List.mergeSort_perm _ _
  have n1 : (sortDiagnostics (pre ++ l1)).Nodup := p1.nodup_iff.mpr hn
  apply stable_sorted_unique (fun a b => keyLe a.1 b.1) _ _ (p1.trans (pin.trans p2.symm)) n1
    (List.pairwise_mergeSort tr tot _) (List.pairwise_mergeSort tr tot _)
  intro a b hab hba hsub
  have hne : a ≠ b := by
    intro h; subst h
    have : [a, a].Nodup := hsub.nodup n1
    simp at this
  have ha : a ∈ pre ++ l1 := p1.subset (hsub.subset (by simp))
  have hb : b ∈ pre ++ l1 := p1.subset (hsub.subset (by simp))
  -- orientation in the input
  have hin : [a, b].Sublist (pre ++ l1) := by
    rcases pair_sublist_or _ a b ha hb hne with h | h
    · exact h
    · exact absurd (List.pair_sublist_mergeSort tr tot hba h) (fun h' => pair_sublist_antisymm _ a b n1 hsub h')
  -- same orientation in the other input
  have hin2 : [a, b].Sublist (pre ++ l2) := by
    obtain ⟨x, y, hxy, hx, hy⟩ := List.sublist_append_iff.mp hin
    match x, y, hxy with
    | [], y, hxy =>
      simp only [List.nil_append] at hxy; subst hxy
      -- both in l1 with equal keys: impossible
      exfalso
      have hkeys : [a.1, b.1].Sublist (l1.map (·.1)) := by simpa using hy.map (·.1)
      have : [a.1, b.1].Nodup := hkeys.nodup hk
      have hkab := keyLe_antisymm a.1 b.1 hab hba
      simp [hkab] at this
    | [x1], y, hxy =>
      simp only [List.singleton_append, List.cons.injEq] at hxy
      obtain ⟨rfl, rfl⟩ := hxy
      have hb2 : b ∈ l2 := hp.subset (hy.subset (by simp))
      have : ([a] ++ [b]).Sublist (pre ++ l2) := List.Sublist.append hx (List.singleton_sublist.mpr hb2)
      simpa using this
    | [x1, x2], y, hxy =>
      simp only [List.cons_append, List.nil_append, List.cons.injEq] at hxy
      obtain ⟨rfl, rfl, rfl⟩ := hxy
      exact hx.trans (List.sublist_append_left _ _)
    | x1 :: x2 :: x3 :: xs, y, hxy => simp at hxy
  exact List.pair_sublist_mergeSort tr tot hab hin2

end Apollo.Guards
