import ApolloModel.Proofs.ParserTreeDef4
/-
C08 growth (pipeline), stage (v), part 5: the tree shapes of the type-system definitions and extensions that have a
name (scalar, object, interface, union, enum, input object), what `from_cst` makes of a loose definition
(`LooseDef.conv`), and the conversion lemmas.
-/
set_option linter.unusedSimpArgs false
set_option linter.unusedVariables false
namespace Apollo.FromCst
open Apollo.Rowan Apollo.Ast
open Apollo.Parse (isJunk isJunkKind sigE nameNode LooseDef sepNames sepLead fullRoots)

variable {R : List Loc}

/-- all tokens -/
def AllToks (es : List Elem) : Prop := ∀ e ∈ es, ∃ k d, e = Elem.tok k d

theorem allToks_nil : AllToks [] := fun _ h => by cases h
theorem allToks_cons (k : SK) (d : Rowan.Str) {es : List Elem} (h : AllToks es) : AllToks (.tok k d :: es) := by
  intro e he
  rcases List.mem_cons.mp he with rfl | he
  · exact ⟨k, d, rfl⟩
  · exact h e he

theorem find_skip_toks (pr : SK → Bool) : ∀ (toks rest : List Elem), AllToks toks →
    (toks ++ rest).find? (nodeP pr) = rest.find? (nodeP pr)
  | [], _, _ => rfl
  | t :: ts, rest, h => by
    obtain ⟨k, d, rfl⟩ := h t (by simp)
    simp only [List.cons_append, List.find?_cons, nodeP_tok]
    exact find_skip_toks pr ts rest (fun e he => h e (by simp [he]))

/-- the header of a definition node: the optional description, then tokens (keywords, `@`) -/
def Hd (desc : Option Ast.Str) (hd : List Elem) : Prop := ∃ pre toks, hd = pre ++ toks ∧ DescPre desc pre ∧ AllToks toks

theorem hd_find {desc : Option Ast.Str} {hd : List Elem} (h : Hd desc hd) (pr : SK → Bool) (hpr : pr "DESCRIPTION" = false)
    (rest : List Elem) : (hd ++ rest).find? (nodeP pr) = rest.find? (nodeP pr) := by
  obtain ⟨pre, toks, rfl, hpre, ht⟩ := h
  rw [List.append_assoc]
  rcases descPre_kinds hpre with rfl | ⟨c, rfl⟩
  · simpa using find_skip_toks pr toks rest ht
  · simp only [List.cons_append, List.nil_append, List.find?_cons, nodeP_node, hpr]
    exact find_skip_toks pr toks rest ht

theorem hd_find_desc {desc : Option Ast.Str} {hd : List Elem} (h : Hd desc hd) (rest : List Elem)
    (hrest : rest.find? (nodeP (· == "DESCRIPTION")) = none) :
    ∃ pre, DescPre desc pre ∧ (hd ++ rest).find? (nodeP (· == "DESCRIPTION")) = pre.head? := by
  obtain ⟨pre, toks, rfl, hpre, ht⟩ := h
  refine ⟨pre, hpre, ?_⟩
  rw [List.append_assoc]
  rcases descPre_kinds hpre with rfl | ⟨c, rfl⟩
  · simp only [List.nil_append, List.head?_nil]
    rw [find_skip_toks _ toks rest ht]; exact hrest
  · simp [List.find?_cons, nodeP_node]

/-- description and name of a definition node `K[hd NAME tail]` -/
theorem descName_conv (K : SK) (cs hd tail : List Elem) (desc : Option Ast.Str) (nm : Ast.Str) (hv : isValidName nm = true)
    (hhd : Hd desc hd) (hsig : sigE cs = hd ++ nameNode nm :: tail)
    (htail : tail.find? (nodeP (· == "DESCRIPTION")) = none) :
    ConvE (fun R => @descOf R) desc (.node K cs) ∧ ConvE (fun R => @nameOf R) nm (.node K cs) := by
  constructor
  · obtain ⟨pre, hpre, hf⟩ := hd_find_desc hhd (nameNode nm :: tail) (by simp [List.find?_cons, nameNode, nodeP_node, htail])
    exact descOf_conv K cs desc pre hpre (by rw [hsig]; exact hf)
  · exact nameOf_node K cs nm hv (by rw [hsig, hd_find hhd _ rfl]; simp [List.find?_cons, nameNode, nodeP_node])

/-! ### the families -/

/-- `K[hd NAME Directives?]` -/
def ScalarLike (K : SK) (desc : Option Ast.Str) (nm : Ast.Str) (ds : List Directive) (e : Elem) : Prop :=
  ∃ cs hd td, e = .node K cs ∧ isValidName nm = true ∧ Hd desc hd ∧ OptDirs ds td ∧ sigE cs = hd ++ nameNode nm :: td

/-- `K[hd NAME ImplementsInterfaces? Directives? FieldsDefinition?]` -/
def ObjLike (K : SK) (desc : Option Ast.Str) (nm : Ast.Str) (impls : List Ast.Str) (ds : List Directive) (fs : List FieldDef)
    (e : Elem) : Prop :=
  ∃ cs hd ti td tf, e = .node K cs ∧ isValidName nm = true ∧ Hd desc hd ∧ OptNames "IMPLEMENTS_INTERFACES" impls ti ∧
    OptDirs ds td ∧ OptItems "FIELDS_DEFINITION" "L_CURLY" "R_CURLY" FieldTree fs tf ∧
    sigE cs = hd ++ nameNode nm :: (ti ++ (td ++ tf))

/-- `K[hd NAME Directives? UnionMemberTypes?]` -/
def UnionLike (K : SK) (desc : Option Ast.Str) (nm : Ast.Str) (ds : List Directive) (ms : List Ast.Str) (e : Elem) : Prop :=
  ∃ cs hd td tm, e = .node K cs ∧ isValidName nm = true ∧ Hd desc hd ∧ OptDirs ds td ∧ OptNames "UNION_MEMBER_TYPES" ms tm ∧
    sigE cs = hd ++ nameNode nm :: (td ++ tm)

/-- `K[hd NAME Directives? EnumValuesDefinition?]` -/
def EnumLike (K : SK) (desc : Option Ast.Str) (nm : Ast.Str) (ds : List Directive) (vs : List EnumValueDef) (e : Elem) : Prop :=
  ∃ cs hd td tv, e = .node K cs ∧ isValidName nm = true ∧ Hd desc hd ∧ OptDirs ds td ∧
    OptItems "ENUM_VALUES_DEFINITION" "L_CURLY" "R_CURLY" EvTree vs tv ∧ sigE cs = hd ++ nameNode nm :: (td ++ tv)

/-- `K[hd NAME Directives? InputFieldsDefinition?]` -/
def InputLike (K : SK) (desc : Option Ast.Str) (nm : Ast.Str) (ds : List Directive) (fs : List InputValueDef) (e : Elem) : Prop :=
  ∃ cs hd td tf, e = .node K cs ∧ isValidName nm = true ∧ Hd desc hd ∧ OptDirs ds td ∧
    OptItems "INPUT_FIELDS_DEFINITION" "L_CURLY" "R_CURLY" IvdTree fs tf ∧ sigE cs = hd ++ nameNode nm :: (td ++ tf)

/-- `fieldsOf` / `enumValuesOf` through the generic container lemma -/
theorem fieldsOf_conv (n : Nat) (k : SK) (cs : List Elem) (fs : List FieldDef) (tail : List Elem)
    (hopt : OptItems "FIELDS_DEFINITION" "L_CURLY" "R_CURLY" FieldTree fs tail)
    (hfind : (sigE cs).find? (nodeP (· == "FIELDS_DEFINITION")) = tail.head?) (hmem : ∀ e ∈ tail, e ∈ sigE cs)
    (hs : size (.node k cs) ≤ n + 2) : ConvE (fun R => @fieldsOf R n) fs (.node k cs) := by
  intro R s hp
  exact itemsOf_conv (fun R => @cFieldDefinition R n) FieldTree "FIELD_DEFINITION" "FIELDS_DEFINITION" "L_CURLY" "R_CURLY" (n + 1)
    (fun a e h => fieldTree_nodeP h) (fun a e h hsz => cFieldDefinition_conv n a e h hsz) k cs fs tail hopt hfind hmem hs R s hp

theorem enumValuesOf_conv (n : Nat) (k : SK) (cs : List Elem) (vs : List EnumValueDef) (tail : List Elem)
    (hopt : OptItems "ENUM_VALUES_DEFINITION" "L_CURLY" "R_CURLY" EvTree vs tail)
    (hfind : (sigE cs).find? (nodeP (· == "ENUM_VALUES_DEFINITION")) = tail.head?) (hmem : ∀ e ∈ tail, e ∈ sigE cs)
    (hs : size (.node k cs) ≤ n + 2) : ConvE (fun R => @enumValuesOf R n) vs (.node k cs) := by
  intro R s hp
  exact itemsOf_conv (fun R => @cEnumValueDefinition R n) EvTree "ENUM_VALUE_DEFINITION" "ENUM_VALUES_DEFINITION" "L_CURLY" "R_CURLY"
    (n + 1) (fun a e h => evTree_nodeP h) (fun a e h hsz => cEnumValueDefinition_conv n a e h hsz) k cs vs tail hopt hfind hmem hs R s hp

theorem inputFieldsOf_conv (n : Nat) (k : SK) (cs : List Elem) (fs : List InputValueDef) (tail : List Elem)
    (hopt : OptItems "INPUT_FIELDS_DEFINITION" "L_CURLY" "R_CURLY" IvdTree fs tail)
    (hfind : (sigE cs).find? (nodeP (· == "INPUT_FIELDS_DEFINITION")) = tail.head?) (hmem : ∀ e ∈ tail, e ∈ sigE cs)
    (hs : size (.node k cs) ≤ n + 2) : ConvE (fun R => @inputValuesOf R n "INPUT_FIELDS_DEFINITION") fs (.node k cs) := by
  intro R s hp
  exact itemsOf_conv (fun R => @cInputValueDefinition R n) IvdTree "INPUT_VALUE_DEFINITION" "INPUT_FIELDS_DEFINITION" "L_CURLY" "R_CURLY"
    (n + 1) (fun a e h => ivdTree_nodeP h) (fun a e h hsz => cInputValueDefinition_conv n a e h hsz) k cs fs tail hopt hfind hmem hs R s hp

macro "find_tail" : tactic => `(tactic|
  (simp [List.find?_cons, List.find?_append, nodeP_node, nodeP_tok, nameNode]))

theorem scalarLike_conv (n : Nat) (K : SK) (desc : Option Ast.Str) (nm : Ast.Str) (ds : List Directive) (e : Elem)
    (h : ScalarLike K desc nm ds e) (hs : size e ≤ n + 1) :
    ConvE (fun R => @descOf R) desc e ∧ ConvE (fun R => @nameOf R) nm e ∧ ConvE (fun R => @directivesOf R n) ds e := by
  obtain ⟨cs, hd, td, rfl, hv, hhd, htd, hsig⟩ := h
  have hdn := descName_conv K cs hd td desc nm hv hhd hsig (by rcases optDirs_kinds htd with rfl | ⟨c, rfl⟩ <;> find_tail)
  refine ⟨hdn.1, hdn.2, ?_⟩
  exact directivesOf_conv n K cs ds td htd (by
    rw [hsig, hd_find hhd _ rfl]; rcases optDirs_kinds htd with rfl | ⟨c, rfl⟩ <;> find_tail)
    (by intro e he; rw [hsig]; simp [he]) hs

theorem objLike_conv (n : Nat) (K : SK) (desc : Option Ast.Str) (nm : Ast.Str) (impls : List Ast.Str) (ds : List Directive)
    (fs : List FieldDef) (e : Elem) (h : ObjLike K desc nm impls ds fs e) (hs : size e ≤ n + 1) :
    ConvE (fun R => @descOf R) desc e ∧ ConvE (fun R => @nameOf R) nm e ∧
    ConvE (fun R => @namedTypesOf R "IMPLEMENTS_INTERFACES") impls e ∧ ConvE (fun R => @directivesOf R n) ds e ∧
    ConvE (fun R => @fieldsOf R n) fs e := by
  obtain ⟨cs, hd, ti, td, tf, rfl, hv, hhd, hti, htd, htf, hsig⟩ := h
  have hdn := descName_conv K cs hd _ desc nm hv hhd hsig (by
    rcases optNames_kinds hti with rfl | ⟨c1, rfl⟩ <;> rcases optDirs_kinds htd with rfl | ⟨c2, rfl⟩ <;>
      rcases optItems_kinds htf with rfl | ⟨c3, rfl⟩ <;> find_tail)
  refine ⟨hdn.1, hdn.2, ?_, ?_, ?_⟩
  · exact namedTypesOf_conv _ K cs impls ti hti (by
      rw [hsig, hd_find hhd _ rfl]
      rcases optNames_kinds hti with rfl | ⟨c1, rfl⟩ <;> rcases optDirs_kinds htd with rfl | ⟨c2, rfl⟩ <;>
        rcases optItems_kinds htf with rfl | ⟨c3, rfl⟩ <;> find_tail)
  · exact directivesOf_conv n K cs ds td htd (by
      rw [hsig, hd_find hhd _ rfl]
      rcases optNames_kinds hti with rfl | ⟨c1, rfl⟩ <;> rcases optDirs_kinds htd with rfl | ⟨c2, rfl⟩ <;>
        rcases optItems_kinds htf with rfl | ⟨c3, rfl⟩ <;> find_tail)
      (by intro e he; rw [hsig]; simp [he]) hs
  · exact fieldsOf_conv n K cs fs tf htf (by
      rw [hsig, hd_find hhd _ rfl]
      rcases optNames_kinds hti with rfl | ⟨c1, rfl⟩ <;> rcases optDirs_kinds htd with rfl | ⟨c2, rfl⟩ <;>
        rcases optItems_kinds htf with rfl | ⟨c3, rfl⟩ <;> find_tail)
      (by intro e he; rw [hsig]; simp [he]) (by omega)

theorem unionLike_conv (n : Nat) (K : SK) (desc : Option Ast.Str) (nm : Ast.Str) (ds : List Directive) (ms : List Ast.Str)
    (e : Elem) (h : UnionLike K desc nm ds ms e) (hs : size e ≤ n + 1) :
    ConvE (fun R => @descOf R) desc e ∧ ConvE (fun R => @nameOf R) nm e ∧ ConvE (fun R => @directivesOf R n) ds e ∧
    ConvE (fun R => @namedTypesOf R "UNION_MEMBER_TYPES") ms e := by
  obtain ⟨cs, hd, td, tm, rfl, hv, hhd, htd, htm, hsig⟩ := h
  have hdn := descName_conv K cs hd _ desc nm hv hhd hsig (by
    rcases optDirs_kinds htd with rfl | ⟨c2, rfl⟩ <;> rcases optNames_kinds htm with rfl | ⟨c1, rfl⟩ <;> find_tail)
  refine ⟨hdn.1, hdn.2, ?_, ?_⟩
  · exact directivesOf_conv n K cs ds td htd (by
      rw [hsig, hd_find hhd _ rfl]
      rcases optDirs_kinds htd with rfl | ⟨c2, rfl⟩ <;> rcases optNames_kinds htm with rfl | ⟨c1, rfl⟩ <;> find_tail)
      (by intro e he; rw [hsig]; simp [he]) hs
  · exact namedTypesOf_conv _ K cs ms tm htm (by
      rw [hsig, hd_find hhd _ rfl]
      rcases optDirs_kinds htd with rfl | ⟨c2, rfl⟩ <;> rcases optNames_kinds htm with rfl | ⟨c1, rfl⟩ <;> find_tail)

theorem enumLike_conv (n : Nat) (K : SK) (desc : Option Ast.Str) (nm : Ast.Str) (ds : List Directive) (vs : List EnumValueDef)
    (e : Elem) (h : EnumLike K desc nm ds vs e) (hs : size e ≤ n + 1) :
    ConvE (fun R => @descOf R) desc e ∧ ConvE (fun R => @nameOf R) nm e ∧ ConvE (fun R => @directivesOf R n) ds e ∧
    ConvE (fun R => @enumValuesOf R n) vs e := by
  obtain ⟨cs, hd, td, tv, rfl, hv, hhd, htd, htv, hsig⟩ := h
  have hdn := descName_conv K cs hd _ desc nm hv hhd hsig (by
    rcases optDirs_kinds htd with rfl | ⟨c2, rfl⟩ <;> rcases optItems_kinds htv with rfl | ⟨c1, rfl⟩ <;> find_tail)
  refine ⟨hdn.1, hdn.2, ?_, ?_⟩
  · exact directivesOf_conv n K cs ds td htd (by
      rw [hsig, hd_find hhd _ rfl]
      rcases optDirs_kinds htd with rfl | ⟨c2, rfl⟩ <;> rcases optItems_kinds htv with rfl | ⟨c1, rfl⟩ <;> find_tail)
      (by intro e he; rw [hsig]; simp [he]) hs
  · exact enumValuesOf_conv n K cs vs tv htv (by
      rw [hsig, hd_find hhd _ rfl]
      rcases optDirs_kinds htd with rfl | ⟨c2, rfl⟩ <;> rcases optItems_kinds htv with rfl | ⟨c1, rfl⟩ <;> find_tail)
      (by intro e he; rw [hsig]; simp [he]) (by omega)

theorem inputLike_conv (n : Nat) (K : SK) (desc : Option Ast.Str) (nm : Ast.Str) (ds : List Directive) (fs : List InputValueDef)
    (e : Elem) (h : InputLike K desc nm ds fs e) (hs : size e ≤ n + 1) :
    ConvE (fun R => @descOf R) desc e ∧ ConvE (fun R => @nameOf R) nm e ∧ ConvE (fun R => @directivesOf R n) ds e ∧
    ConvE (fun R => @inputValuesOf R n "INPUT_FIELDS_DEFINITION") fs e := by
  obtain ⟨cs, hd, td, tf, rfl, hv, hhd, htd, htf, hsig⟩ := h
  have hdn := descName_conv K cs hd _ desc nm hv hhd hsig (by
    rcases optDirs_kinds htd with rfl | ⟨c2, rfl⟩ <;> rcases optItems_kinds htf with rfl | ⟨c1, rfl⟩ <;> find_tail)
  refine ⟨hdn.1, hdn.2, ?_, ?_⟩
  · exact directivesOf_conv n K cs ds td htd (by
      rw [hsig, hd_find hhd _ rfl]
      rcases optDirs_kinds htd with rfl | ⟨c2, rfl⟩ <;> rcases optItems_kinds htf with rfl | ⟨c1, rfl⟩ <;> find_tail)
      (by intro e he; rw [hsig]; simp [he]) hs
  · exact inputFieldsOf_conv n K cs fs tf htf (by
      rw [hsig, hd_find hhd _ rfl]
      rcases optDirs_kinds htd with rfl | ⟨c2, rfl⟩ <;> rcases optItems_kinds htf with rfl | ⟨c1, rfl⟩ <;> find_tail)
      (by intro e he; rw [hsig]; simp [he]) (by omega)

end Apollo.FromCst

namespace Apollo.FromCst
open Apollo.Rowan Apollo.Ast
open Apollo.Parse (isJunk isJunkKind sigE nameNode LooseDef sepNames sepLead fullRoots)

variable {R : List Loc}

/-- what `Document::from_cst` makes of a loose definition: a leading separator is not represented, a root operation
    type without its named type is dropped -/
def looseConv : LooseDef → Definition
  | .scalar desc nm ds => .scalarDef desc nm ds
  | .object desc nm impl ds fs => .objectDef desc nm (sepNames impl) ds fs
  | .interface desc nm impl ds fs => .interfaceDef desc nm (sepNames impl) ds fs
  | .union desc nm ds ms => .unionDef desc nm ds (sepNames ms)
  | .enum desc nm ds vs => .enumDef desc nm ds vs
  | .input desc nm ds fs => .inputDef desc nm ds fs
  | .directive desc nm args rep _ first rest => .directiveDef desc nm args rep (first :: rest)
  | .schema desc ds roots => .schemaDef desc ds (rootsConv roots)
  | .scalarExt nm ds => .scalarExt nm ds
  | .objectExt nm impl ds fs => .objectExt nm (sepNames impl) ds fs
  | .interfaceExt nm impl ds fs => .interfaceExt nm (sepNames impl) ds fs
  | .unionExt nm ds ms => .unionExt nm ds (sepNames ms)
  | .enumExt nm ds vs => .enumExt nm ds vs
  | .inputExt nm ds fs => .inputExt nm ds fs
  | .schemaExt ds roots => .schemaExt ds (rootsConv roots)

theorem rootsConv_full : ∀ (rs : List (OpType × Option Ast.Str)) (rs' : List (OpType × Ast.Str)), fullRoots rs = some rs' →
    rootsConv rs = rs'
  | [], rs', h => by simp [fullRoots] at h; subst h; rfl
  | (op, some nm) :: r, rs', h => by
    simp only [fullRoots, Option.map_eq_some_iff] at h
    obtain ⟨r', hr', e⟩ := h
    subst e
    simp [rootsConv, rootsConv_full r r' hr']
  | (_, none) :: _, _, h => by simp [fullRoots] at h

/-- without the two deviations, `from_cst` yields exactly the definition whose tokens were consumed -/
theorem looseConv_strict (l : LooseDef) (d : Definition) (h : l.strict = some d) : looseConv l = d := by
  cases l <;> simp only [LooseDef.strict] at h
  case scalar => injection h
  case object desc nm impl ds fs => split at h <;> injection h
  case interface desc nm impl ds fs => split at h <;> injection h
  case union desc nm ds ms => split at h <;> injection h
  case enum => injection h
  case input => injection h
  case directive desc nm args rep lead first rest => split at h <;> injection h
  case schema desc ds roots =>
    simp only [Option.map_eq_some_iff] at h
    obtain ⟨rs', hr, e⟩ := h
    subst e
    simp [looseConv, rootsConv_full roots rs' hr]
  case scalarExt => injection h
  case objectExt nm impl ds fs => split at h <;> injection h
  case interfaceExt nm impl ds fs => split at h <;> injection h
  case unionExt nm ds ms => split at h <;> injection h
  case enumExt => injection h
  case inputExt => injection h
  case schemaExt ds roots =>
    simp only [Option.map_eq_some_iff] at h
    obtain ⟨rs', hr, e⟩ := h
    subst e
    simp [looseConv, rootsConv_full roots rs' hr]

end Apollo.FromCst
