import ApolloModel.Proofs.AstDocument2
/-
Documents: a list of definitions, the first of which may be written in the shorthand form.
-/
namespace Apollo.Ast

/-- the first tokens of a definition that is not in shorthand form: a description or a definition keyword -/
theorem defFollow_tDefinition (d : Definition) (X : List Tok) : defFollow (tDefinition false d ++ X) = true := by
  cases d with
  | operation ty name vars dirs sels =>
    cases ty <;> simp [tDefinition, isShorthand, defFollow, isDefKeyword, OpType.name]
  | fragment name tc dirs sels => simp [tDefinition, defFollow, isDefKeyword]
  | directiveDef desc name args rep locs => cases desc <;> simp [tDefinition, tDescription, defFollow, isDefKeyword]
  | schemaDef desc dirs roots => cases desc <;> simp [tDefinition, tDescription, defFollow, isDefKeyword]
  | scalarDef desc name dirs => cases desc <;> simp [tDefinition, tDescription, defFollow, isDefKeyword]
  | objectDef desc name impls dirs fields => cases desc <;> simp [tDefinition, tDescription, defFollow, isDefKeyword]
  | interfaceDef desc name impls dirs fields => cases desc <;> simp [tDefinition, tDescription, defFollow, isDefKeyword]
  | unionDef desc name dirs members => cases desc <;> simp [tDefinition, tDescription, defFollow, isDefKeyword]
  | enumDef desc name dirs values => cases desc <;> simp [tDefinition, tDescription, defFollow, isDefKeyword]
  | inputDef desc name dirs fields => cases desc <;> simp [tDefinition, tDescription, defFollow, isDefKeyword]
  | schemaExt dirs roots => simp [tDefinition, defFollow, isDefKeyword]
  | scalarExt name dirs => simp [tDefinition, defFollow, isDefKeyword]
  | objectExt name impls dirs fields => simp [tDefinition, defFollow, isDefKeyword]
  | interfaceExt name impls dirs fields => simp [tDefinition, defFollow, isDefKeyword]
  | unionExt name dirs members => simp [tDefinition, defFollow, isDefKeyword]
  | enumExt name dirs values => simp [tDefinition, defFollow, isDefKeyword]
  | inputExt name dirs fields => simp [tDefinition, defFollow, isDefKeyword]

def tDefinitions (ds : List Definition) : List Tok := (ds.map (tDefinition false)).flatten

theorem defFollow_tDefinitions (ds : List Definition) : defFollow (tDefinitions ds) = true := by
  cases ds with
  | nil => rfl
  | cons d r => simpa [tDefinitions] using defFollow_tDefinition d _

def wfDefinitions : List Definition → Bool
  | [] => true
  | d :: r => wfDefinition d && wfDefinitions r

def szDefinitions : List Definition → Nat
  | [] => 1
  | d :: r => szDefinition d + szDefinitions r + 1

theorem pDefinitions_cons (f : Nat) (ts : List Tok) (hne : ts ≠ []) (d : Definition) (r : List Tok)
    (ds : List Definition) (h1 : pDefinition f ts = some (d, r)) (h2 : pDefinitions f r = some ds) :
    pDefinitions (f + 1) ts = some (d :: ds) := by
  cases ts with
  | nil => exact absurd rfl hne
  | cons a t => simp [pDefinitions, h1, h2]

theorem defFollow_cons_ne_nil {d : Definition} {X : List Tok} : tDefinition false d ++ X ≠ [] := by
  intro e
  have h := defFollow_tDefinition d X
  cases d <;> simp_all [tDefinition, isShorthand]

theorem definitions_roundtrip : ∀ (ds : List Definition) (f : Nat), wfDefinitions ds = true → szDefinitions ds ≤ f →
    pDefinitions f (tDefinitions ds) = some ds
  | [], f + 1, _, _ => by simp [tDefinitions, pDefinitions]
  | d :: r, f + 1, h, hs => by
      simp [wfDefinitions] at h
      simp [szDefinitions] at hs
      have h1 := definition_roundtrip d f (tDefinitions r) h.1 (by omega) (defFollow_tDefinitions r)
      have h2 := definitions_roundtrip r f h.2 (by omega)
      have e : tDefinitions (d :: r) = tDefinition false d ++ tDefinitions r := by simp [tDefinitions]
      rw [e]
      exact pDefinitions_cons f _ defFollow_cons_ne_nil d _ r h1 h2
  | [], 0, _, hs | _ :: _, 0, _, hs => by simp [szDefinitions] at hs

/-- the shorthand form `{ … }` of the first definition reads back as the anonymous query it abbreviates -/
theorem shorthand_roundtrip (ty : OpType) (name : Option Str) (vars : List VarDef) (dirs : List Directive) (sels : Sels)
    (f : Nat) (rest : List Tok) (hsh : isShorthand true ty name vars dirs = true) (h : wfSels sels = true)
    (hne : sels ≠ .nil) (hs : szSels sels ≤ f) :
    pDefinition f (tDefinition true (.operation ty name vars dirs sels) ++ rest)
      = some (.operation ty name vars dirs sels, rest) := by
  simp only [isShorthand, Bool.true_and, Bool.and_eq_true, beq_iff_eq, Option.isNone_iff_eq_none,
    List.isEmpty_iff] at hsh
  obtain ⟨⟨⟨rfl, rfl⟩, rfl⟩, rfl⟩ := hsh
  have := selsNE_roundtrip sels f rest hne h hs
  simp only [tDefinition, isShorthand, tSelSet, List.cons_append, List.append_assoc, List.nil_append]
  simp [pDefinition, pSelectionSet, this]

theorem isShorthand_false (ty : OpType) (name : Option Str) (vars : List VarDef) (dirs : List Directive) :
    isShorthand false ty name vars dirs = false := by simp [isShorthand]

/-- when the shorthand form does not apply, `output_empty` makes no difference -/
theorem tDefinition_noShorthand (d : Definition)
    (h : ∀ ty name vars dirs sels, d = .operation ty name vars dirs sels → isShorthand true ty name vars dirs = false) :
    tDefinition true d = tDefinition false d := by
  cases d with
  | operation ty name vars dirs sels =>
    have h' := h ty name vars dirs sels rfl
    simp only [tDefinition, h', isShorthand_false]
  | _ => rfl

/-- the first definition, with `output_empty` either way -/
theorem first_definition_roundtrip (oe : Bool) (d : Definition) (f : Nat) (rest : List Tok) (h : wfDefinition d = true)
    (hs : szDefinition d ≤ f) (hr : defFollow rest = true) :
    pDefinition f (tDefinition oe d ++ rest) = some (d, rest) := by
  cases oe with
  | false => exact definition_roundtrip d f rest h hs hr
  | true =>
    cases d with
    | operation ty name vars dirs sels =>
      by_cases hsh : isShorthand true ty name vars dirs = true
      · simp only [wfDefinition, Bool.and_eq_true] at h
        simp only [szDefinition] at hs
        exact shorthand_roundtrip ty name vars dirs sels f rest hsh h.1.2 (nonNil_ne h.2) (by omega)
      · rw [tDefinition_noShorthand _ (by
          intro ty' name' vars' dirs' sels' e
          cases e
          simpa using hsh)]
        exact definition_roundtrip _ f rest h hs hr
    | _ =>
      rw [tDefinition_noShorthand _ (by intro ty' name' vars' dirs' sels' e; cases e)]
      exact definition_roundtrip _ f rest h hs hr

theorem tDefinition_ne_nil (oe : Bool) (d : Definition) (X : List Tok) : tDefinition oe d ++ X ≠ [] := by
  cases oe with
  | false => exact defFollow_cons_ne_nil
  | true =>
    cases d with
    | operation ty name vars dirs sels =>
      by_cases hsh : isShorthand true ty name vars dirs = true
      · simp [tDefinition, hsh, tSelSet]
      · rw [tDefinition_noShorthand _ (by
          intro ty' name' vars' dirs' sels' e
          cases e
          simpa using hsh)]
        exact defFollow_cons_ne_nil
    | _ =>
      rw [tDefinition_noShorthand _ (by intro ty' name' vars' dirs' sels' e; cases e)]
      exact defFollow_cons_ne_nil

/-- **Document round trip at token level**: whatever `output_empty` was when the first definition was
    written, the reference parser reads the printed token stream back to exactly the document. -/
theorem document_roundtrip (oe : Bool) (doc : Document) (f : Nat) (hne : doc ≠ []) (h : wfDefinitions doc = true)
    (hs : szDefinitions doc ≤ f) : pDocument f (tDocument oe doc) = some doc := by
  cases doc with
  | nil => exact absurd rfl hne
  | cons d r =>
    cases f with
    | zero => simp [szDefinitions] at hs
    | succ f =>
      simp [wfDefinitions] at h
      simp [szDefinitions] at hs
      have h1 := first_definition_roundtrip oe d f (tDefinitions r) h.1 (by omega) (defFollow_tDefinitions r)
      have h2 := definitions_roundtrip r f h.2 (by omega)
      have := pDefinitions_cons f _ (tDefinition_ne_nil oe d (tDefinitions r)) d _ r h1 h2
      simp only [tDocument, pDocument]
      show (match pDefinitions (f + 1) (tDefinition oe d ++ tDefinitions r) with | some [] => none | x => x) = _
      rw [this]

end Apollo.Ast
