import ApolloModel.Proofs.ParserTreeInj1
/-
C08 growth (pipeline), injectivity, part 2: tokens that the serializer writes force the accepted loose definition to be
STRICT — no leading `&` / `|` (the token list would be one token longer than the printer's), every root operation type
with its named type (the reference parser fails otherwise).
-/
set_option linter.unusedSimpArgs false
set_option linter.unusedVariables false
namespace Apollo.Parse
open Apollo.FromCst (looseConv looseConv_strict rootsConv)

theorem schema_nameless_none (desc : Option Str) (ds : List Ast.Directive) (roots : List (Ast.OpType × Option Str))
    (hw : (LooseDef.schema desc ds roots).wf = true) (f : Nat) (hf : Ast.szDefinition (looseConv (.schema desc ds roots)) ≤ f)
    (hr : fullRoots roots = none) : Ast.pDefinition f (LooseDef.schema desc ds roots).toks = none := by
  simp only [LooseDef.wf, Bool.and_eq_true] at hw
  simp only [looseConv, Ast.szDefinition] at hf
  have b := Ast.directives_roundtrip ds f (.p .lCurly :: tRootOpItemsF roots ++ [.p .rCurly]) hw.1 (by omega)
    (by simp [Ast.dirFollow])
  have c := rootsTail_fail roots f [] hr
  simp only [LooseDef.toks, schemaToks, kwPart_true, List.append_assoc, List.cons_append, List.nil_append] at b c ⊢
  rw [Ast.typeSystem_dispatch f desc _ _ (by simp [Ast.opTypeOf]) (by simp) (by simp)]
  simp [Ast.pTypeSystemRest, b, Ast.pRootOps, c]

theorem schemaExt_nameless_none (ds : List Ast.Directive) (roots : List (Ast.OpType × Option Str))
    (hw : (LooseDef.schemaExt ds roots).wf = true) (f : Nat) (hf : Ast.szDefinition (looseConv (.schemaExt ds roots)) ≤ f)
    (hr : fullRoots roots = none) : Ast.pDefinition f (LooseDef.schemaExt ds roots).toks = none := by
  simp only [LooseDef.wf] at hw
  simp only [looseConv, Ast.szDefinition] at hf
  have hne := fullRoots_nil_ne hr
  have hemp : roots.isEmpty = false := by cases roots with | nil => exact absurd rfl hne | cons _ _ => rfl
  have b := Ast.directives_roundtrip ds f (.p .lCurly :: tRootOpItemsF roots ++ [.p .rCurly]) hw (by omega)
    (by simp [Ast.dirFollow])
  have c := rootsTail_fail roots f [] hr
  simp only [LooseDef.toks, kwE, Ast.tBraced, hemp, Bool.false_eq_true, if_false, List.append_assoc, List.cons_append,
    List.nil_append] at b c ⊢
  rw [Ast.extension_dispatch]
  simp [Ast.pExtensionRest, b, Ast.pRootOps, c]

theorem sepLead_true {i : SepC} (h : sepLead i = true) : ∃ first ns, i = some (true, first, ns) := by
  cases i with
  | none => simp [sepLead] at h
  | some v => obtain ⟨lead, first, ns⟩ := v; simp only [sepLead] at h; subst h; exact ⟨first, ns, rfl⟩

/-- the same loose definition without the leading separator -/
def LooseDef.unlead : LooseDef → LooseDef
  | .object desc nm (some (_, first, ns)) ds fs => .object desc nm (some (false, first, ns)) ds fs
  | .interface desc nm (some (_, first, ns)) ds fs => .interface desc nm (some (false, first, ns)) ds fs
  | .union desc nm ds (some (_, first, ns)) => .union desc nm ds (some (false, first, ns))
  | .directive desc nm args rep _ first rest => .directive desc nm args rep false first rest
  | .objectExt nm (some (_, first, ns)) ds fs => .objectExt nm (some (false, first, ns)) ds fs
  | .interfaceExt nm (some (_, first, ns)) ds fs => .interfaceExt nm (some (false, first, ns)) ds fs
  | .unionExt nm ds (some (_, first, ns)) => .unionExt nm ds (some (false, first, ns))
  | l => l

/-- **tokens the serializer writes force the accepted definition to be strict** -/
theorem loose_tokens_strict (l : LooseDef) (d : Ast.Definition) (hw : l.wf = true) (hd : Ast.wfDefinition d = true)
    (h : l.toks = Ast.tDefinition false d) : l.strict = some d := by
  have hc := loose_tokens_determine_definition l d hw hd h
  cases hs : l.strict with
  | some d' => rw [← looseConv_strict l d' hs, hc]
  | none =>
    exfalso
    have h2 := Ast.definition_roundtrip d (Ast.szDefinition (looseConv l) + Ast.szDefinition d) [] hd (by omega) rfl
    rw [List.append_nil, ← h] at h2
    subst hc
    -- a leading separator: the same tokens without it are the printer's tokens, too
    have lead : l.unlead.strict = some (looseConv l) → l.toks = l.unlead.toks := fun hu => by
      rw [h, LooseDef.toks_strict _ _ hu]
    cases l <;> simp [LooseDef.strict] at hs
    case object desc nm impl ds fs =>
      obtain ⟨first, ns, rfl⟩ := sepLead_true hs
      have e := lead rfl
      simp [LooseDef.unlead, LooseDef.toks, objectLikeToks, tSepOpt, tSepLead] at e
    case interface desc nm impl ds fs =>
      obtain ⟨first, ns, rfl⟩ := sepLead_true hs
      have e := lead rfl
      simp [LooseDef.unlead, LooseDef.toks, objectLikeToks, tSepOpt, tSepLead] at e
    case union desc nm ds ms =>
      obtain ⟨first, ns, rfl⟩ := sepLead_true hs
      have e := lead rfl
      simp [LooseDef.unlead, LooseDef.toks, unionToks, tSepOpt, tSepLead] at e
    case directive desc nm args rep lead' first rest =>
      subst hs
      have e := lead rfl
      simp [LooseDef.unlead, LooseDef.toks, directiveToks, tSepLead] at e
    case objectExt nm impl ds fs =>
      obtain ⟨first, ns, rfl⟩ := sepLead_true hs
      have e := lead rfl
      simp [LooseDef.unlead, LooseDef.toks, objectLikeToks, tSepOpt, tSepLead] at e
    case interfaceExt nm impl ds fs =>
      obtain ⟨first, ns, rfl⟩ := sepLead_true hs
      have e := lead rfl
      simp [LooseDef.unlead, LooseDef.toks, objectLikeToks, tSepOpt, tSepLead] at e
    case unionExt nm ds ms =>
      obtain ⟨first, ns, rfl⟩ := sepLead_true hs
      have e := lead rfl
      simp [LooseDef.unlead, LooseDef.toks, tSepOpt, tSepLead] at e
    case schema desc ds roots =>
      rw [schema_nameless_none desc ds roots hw _ (by omega) hs] at h2
      cases h2
    case schemaExt ds roots =>
      rw [schemaExt_nameless_none ds roots hw _ (by omega) hs] at h2
      cases h2

end Apollo.Parse
