import ApolloModel.Proofs.ParserTree20
import ApolloModel.Proofs.ParserComplete16
import ApolloModel.Proofs.ParserSel7
/-
C08 growth (pipeline), part 21: `Parser::parse_selection_set` — the entry point `selection::field_set`, the root handed
out by `finish_standalone`, `convert_selection_set` on it, and the agreement with the reference parser.
-/
set_option linter.unusedSimpArgs false
set_option linter.unusedVariables false

namespace Apollo.FromCst
open Apollo.Rowan Apollo.Ast
open Apollo.Parse (isJunk isJunkKind sigE nameNode)

variable {R : List Loc}

/-- the root of `Parser::parse_selection_set`: `SELECTION_SET[{ Selection+ }]` or, brace-less, `SELECTION_SET[Selection+]` -/
inductive FieldSetNode : Sels → Elem → Prop
  | braced (sels : Sels) (es : Elem) : SelSetNode sels es → FieldSetNode sels es
  | bare (sels : Sels) (cs : List Elem) : SelsTree sels (sigE cs) → FieldSetNode sels (.node "SELECTION_SET" cs)

theorem FieldSetNode.kind {sels : Sels} {e : Elem} (h : FieldSetNode sels e) : ∃ cs, e = .node "SELECTION_SET" cs := by
  match h with
  | .braced _ _ hss => cases hss with | mk _ cs _ _ _ _ _ => exact ⟨cs, rfl⟩
  | .bare _ cs _ => exact ⟨cs, rfl⟩

/-- `convert_selection_set` on the root of a field set -/
theorem fieldSet_collect (n : Nat) (sels : Sels) (root : Elem) (h : FieldSetNode sels root) (hs : size root ≤ n + 1)
    (R : List Loc) (s : Nat) (hp : ∀ x ∈ nameRanges root s, x ∈ R) :
    ∃ l, collectM (cSelection n) (childrenP isSelectionKind (⟨(root, s), hp⟩ : PE R)) = some (selsToList sels, l) := by
  match root, h, hs, hp with
  | root, .braced _ _ hss, hs, hp => exact selSet_collect n sels root hss (fun es h1 h2 => cSels_selsTree n sels es h1 h2) hs R s hp
  | _, .bare _ cs hes, hs, hp =>
    have hfilter : cs.filter (nodeP isSelectionKind) = sigE cs := by rw [filter_nodeP_sigE]; exact hes.filter
    have hmap := childrenP_map (R := R) isSelectionKind "SELECTION_SET" cs s hp
    rw [hfilter] at hmap
    have hsz : sizeList (sigE cs) ≤ n := by
      have := sizeList_sigE_le cs
      simp only [size] at hs
      omega
    exact collectM_conv (R := R) (fun R => @cSelection R n) _ (sigE cs) (selsToList sels) hmap
      (cSels_selsTree n sels _ hes hsz)

end Apollo.FromCst

namespace Apollo.Parse
open Apollo.Rowan hiding Str
open Apollo.Lex hiding Str
open Apollo.FromCst (SelTree SelSetNode SelsTree FieldSetNode selsToList)

/-- what `field_set` consumes and builds -/
def FieldSetR (cs : List Tok) (e : List Elem) : Prop :=
  ∃ (sels : Ast.Sels) (es : Elem), sels ≠ .nil ∧ Ast.wfSels sels = true ∧
    (TokIs cs (.p .lCurly :: Ast.tSels sels ++ [.p .rCurly]) ∨ TokIs cs (Ast.tSels sels)) ∧ e = [es] ∧ FieldSetNode sels es

theorem tr_limitErr {E : PState → Prop} {H : List Tok → Prop} {R : Unit → List Tok → List Elem → Prop} : Tr E H limitErr R := by
  apply tr_never
  refine ⟨good_limitErr, ?_⟩
  intro s a s' w he _ hr hnd
  exfalso
  obtain ⟨ad, d⟩ := limitErr_adv s s' w hr
  have hnds : ¬ Doomed s := fun dd => hnd (ad.doom dd)
  exact hnd (d (eofEnd_nonempty s he hnds))

/-- **selection.rs `field_set`** -/
theorem tr_fieldSet (n : Nat) : Tr NoE (fun _ => True) (fieldSet n) (fun _ => FieldSetR) := by
  unfold fieldSet
  refine tr_ifKind .lCurly _ _ _ ?_ ?_
  · refine (tr_selSet n).mono (fun _ h => kindP_headK h) ?_
    rintro _ cs e ⟨sels, es, hne, hwf, h1, rfl, h3⟩
    exact ⟨sels, es, hne, hwf, Or.inl h1, rfl, .braced sels es h3⟩
  · have hsel : Tr NoE (fun _ => True) (selection n) (fun _ => SelsR) := (selAll n).sel
    refine (tr_withNodeAny early_false "SELECTION_SET" (tr_withRec early_false tr_limitErr hsel)).mono (fun _ _ => trivial) ?_
    rintro _ cs e ⟨inner, rfl, sels, hne, hwf, h1, h2⟩
    exact ⟨sels, _, hne, hwf, Or.inr h1, rfl, .bare sels inner h2⟩

theorem peek_pending (s sP : PState) (k : Option Kind) (hp : peek.run s = .ok k sP) (hnd : ¬ Doomed sP) :
    sP.pending = s.pending := by
  unfold peek at hp
  obtain ⟨o', sQ, hq, hq2⟩ := bind_dec peekToken _ s sP _ hp
  rw [run_pure] at hq2
  injection hq2 with _ hq3
  subst hq3
  exact peekToken_pending s sQ o' hq hnd

/-- started with nothing pending, `field_set` appends at most one element -/
theorem fieldSet_exact (n : Nat) (s s' : PState) (st : St s) (hpend : s.pending = [])
    (h : (fieldSet n).run s = .ok () s') (hnd : ¬ Doomed s') :
    ∃ l : List Elem, l.length ≤ 1 ∧ s'.builder.children = s.builder.children ++ l := by
  have hnds : ¬ Doomed s := fun d => hnd ((good_fieldSet n s () s' st.w h).doom d)
  unfold fieldSet at h
  obtain ⟨k, sP, hp, h2⟩ := bind_dec peek _ s s' _ h
  obtain ⟨o, p, hk⟩ := peek_obs s sP k st.w hp
  have hiP := (run_inv_added peek s st.inv _ sP hp).1
  have hbP : sP.builder = s.builder := keeps_peek s _ sP hp
  have hndP : ¬ Doomed sP := fun d => hnds (p.doom.mp d)
  have hpP : sP.pending = [] := by rw [peek_pending s sP k hp hndP, hpend]
  by_cases hkc : (k == some Kind.lCurly) = true
  · simp only [hkc, if_true] at h2
    cases n with
    | zero => simp [selectionSet, PI.outOfFuel] at h2
    | succ m =>
      rw [selectionSet_succ] at h2
      obtain ⟨k2, sP2, hp2, h3⟩ := bind_dec peek _ sP s' _ h2
      obtain ⟨o2, p2, hk2⟩ := peek_obs sP sP2 k2 p.w hp2
      have hiP2 := (run_inv_added peek sP hiP _ sP2 hp2).1
      have hbP2 : sP2.builder = sP.builder := keeps_peek sP _ sP2 hp2
      have hndP2 : ¬ Doomed sP2 := fun d => hndP (p2.doom.mp d)
      have hpP2 : sP2.pending = [] := by rw [peek_pending sP sP2 k2 hp2 hndP2, hpP]
      by_cases hkc2 : (k2 == some Kind.lCurly) = true
      · simp only [hkc2, if_true] at h3
        obtain ⟨inner, hout⟩ := withNode_exact _ _ sP2 hiP2 _ s' h3
        exact ⟨[Elem.node "SELECTION_SET" inner], by simp, by rw [hout, hbP2, hbP, hpP2]; simp⟩
      · simp only [hkc2, Bool.false_eq_true, if_false] at h3
        have h3' : (pure () : PI Unit).run sP2 = .ok () s' := h3
        rw [run_pure] at h3'
        injection h3' with _ h4
        subst h4
        exact ⟨[], by simp, by rw [hbP2, hbP]; simp⟩
  · simp only [hkc, Bool.false_eq_true, if_false] at h2
    obtain ⟨inner, hout⟩ := withNode_exact _ _ sP hiP _ s' h2
    exact ⟨[Elem.node "SELECTION_SET" inner], by simp, by rw [hout, hbP, hpP]; simp⟩

/-- **The tree of an accepted field set.**  If `Parser::parse_selection_set` (model; no token limit, any recursion limit)
    returns a tree and no error, the source lexes cleanly, its significant tokens are `{ Selection+ }` or `Selection+`
    followed by the end of input, for a non-empty well-formed list of selections, and the tree returned IS
    `SELECTION_SET[{ … }]` resp. `SELECTION_SET[…]` with the selections' trees as its only child nodes. -/
theorem parseFieldSet_cst (rl : Nat) (src : Str) (root : Elem)
    (h : (parse .selectionSet none rl src).outcome = .tree root) (herr : (parse .selectionSet none rl src).errors = []) :
    LexClean src ∧ ∃ (sels : Ast.Sels) (ts : List Tok) (e : Tok), sig (srcToks src) = ts ++ [e] ∧ e.kind = .eof ∧
      sels ≠ .nil ∧ Ast.wfSels sels = true ∧
      (TokIs ts (.p .lCurly :: Ast.tSels sels ++ [.p .rCurly]) ∨ TokIs ts (Ast.tSels sels)) ∧ FieldSetNode sels root := by
  unfold parse runEntry at h herr
  simp only [Entry.standalone, Entry.grammar] at h herr
  generalize hs0 : ({ initState src none rl with builder := (initState src none rl).builder.startNode "SELECTION_SET" } : PState) = s0 at h herr
  have hinv : Inv s0 := by
    subst hs0
    exact ⟨fun _ => by simp [initState, Builder.new, Builder.startNode, textList, pendingText, curText],
      fun p hp => by simp [initState, Builder.new, Builder.startNode] at hp; simp [hp, initState, Builder.new],
      fun h => by simp [initState] at h, fun t h => by simp [initState] at h, fun h => by simp [initState] at h⟩
  have w0 : TW s0 := by subst hs0; exact ⟨rfl, by intro h; simp [initState] at h⟩
  have htoks : Toks s0 = srcToks src := by subst hs0; rfl
  have hch0 : s0.builder.children = [] := by subst hs0; rfl
  have hpa0 : s0.builder.parents = [("SELECTION_SET", 0)] := by subst hs0; rfl
  have hpe0 : s0.pending = [] := by subst hs0; rfl
  have hdoom : Doomed s0 ↔ ¬ LexClean src := by
    subst hs0
    unfold Doomed LexClean
    show ([] ≠ [] ∨ hasErr (stream (initState src none rl).lx) = true) ↔ _
    have : (initState src none rl).lx = (initState src none 0).lx := rfl
    rw [this]
    constructor
    · rintro (h | h)
      · exact absurd rfl h
      · simp [h]
    · intro h; right; simpa using h
  have he0 : EofEnd s0 := by
    right
    obtain ⟨pre, e, hp, he, hno⟩ := stream_eof_end src.length (initState src none 0).lx (Nat.le_refl _) rfl rfl
    exact ⟨pre, e, by rw [htoks]; exact hp, he, hno⟩
  have st0 : St s0 := ⟨w0, hinv, he0, by rw [htoks]; exact lq_srcToks src⟩
  cases hr : (fieldSet (fuelFor src) >>= fun _ => expectEndOfInput).run s0 with
  | abort w => simp [hr] at h
  | panic m => simp [hr] at h
  | ok a s =>
    simp only [hr] at h herr
    obtain ⟨_, s1, hfs, hend⟩ := bind_dec (fieldSet (fuelFor src)) _ s0 s () hr
    have a1 := good_fieldSet (fuelFor src) s0 () s1 w0 hfs
    have a2 := good_expectEndOfInput s1 () s a1.w hend
    obtain ⟨hi1, _⟩ := PI.run_ok _ s0 hinv _ s1 hfs
    have hex := expectEndOfInput_exhausted s1 s hi1 a1.w.limit hend herr
    have hnd : ¬ Doomed s := by
      rintro (hd | hd)
      · exact hd herr
      · rw [hasErr_src_nil s.lx a2.w.limit hex.2] at hd; cases hd
    have hnd1 : ¬ Doomed s1 := fun d => hnd (a2.doom d)
    have hnd0 : ¬ Doomed s0 := fun d => hnd1 (a1.doom d)
    have hclean : LexClean src := by
      by_cases hc : LexClean src
      · exact hc
      · exact absurd (hdoom.mpr hc) hnd0
    refine ⟨hclean, ?_⟩
    have hbs : s.builder = s1.builder := keeps_expectEndOfInput s1 () s hend
    obtain ⟨st1, cs, added, tc, nc, ec, bc, rc⟩ := St.step (tr_fieldSet (fuelFor src)) st0 trivial hfs hnd1
    rcases rc with ⟨sels, es, hne, hwf, htok, hsig, hnode⟩ | f
    · obtain ⟨l, hl1, hl2⟩ := fieldSet_exact _ s0 s1 st0 hpe0 hfs hnd1
      have hadd : added = l := by
        rw [hl2] at bc
        exact (List.append_cancel_left bc).symm
      have hl : l = [es] := by
        rw [hadd] at hsig
        cases l with
        | nil => simp [sigE] at hsig
        | cons x l' =>
          cases l' with
          | nil =>
            have hx : x = es := sigE_singleton_eq (junk := []) rfl (by simpa using hsig)
            rw [hx]
          | cons y l'' => simp at hl1
      have hchild : s.builder.children = [es] := by rw [hbs, hl2, hch0, hl]; rfl
      have hpar : s.builder.parents = [("SELECTION_SET", 0)] := by
        have hf := (fieldSet (fuelFor src) >>= fun _ => expectEndOfInput).ok s0 hinv
        simp only [hr, Post] at hf
        rw [hf.2.parents, hpa0]
      obtain ⟨cs', rfl⟩ := hnode.kind
      have hroot : finishStandalone s.builder ["SELECTION_SET"] = some (Elem.node "SELECTION_SET" cs') := by
        simp only [finishStandalone, Builder.finishNode, hpar, hchild, List.take_zero, List.nil_append, List.drop_zero,
          Builder.finish, List.mem_singleton, if_true]
      rw [hroot] at h
      simp only [Outcome.tree.injEq] at h
      subst h
      obtain ⟨ign, ee, hrest, hall, hek⟩ := expectEnd_eof s1 s a1.w ec hend hnd
      refine ⟨sels, sig cs, ee, ?_, hek, hne, hwf, htok, hnode⟩
      rw [← htoks, tc, hrest, sig_append, sig_append, sig_ignored ign hall]
      have : sig [ee] = [ee] := sig_single ee (by rw [hek]; rfl)
      rw [this]; simp
    · exact absurd f id

theorem tSels_head_ne_lCurly (ss : Ast.Sels) (r : List Ast.Tok) : Ast.tSels ss ≠ .p .lCurly :: r := by
  cases ss with
  | nil => simp [Ast.tSels]
  | cons s tl =>
    cases s with
    | field alias name args dirs sels => cases alias <;> simp [Ast.tSels, Ast.tSel]
    | spread name dirs => simp [Ast.tSels, Ast.tSel]
    | inline tc dirs sels => cases tc <;> simp [Ast.tSels, Ast.tSel]

/-- well-formed selections are determined by their tokens -/
theorem tSels_injective {a b : Ast.Sels} (ha : a ≠ .nil) (hb : b ≠ .nil) (hwa : Ast.wfSels a = true) (hwb : Ast.wfSels b = true)
    (h : Ast.tSels a = Ast.tSels b) : a = b := by
  have h1 := Ast.selsNE_roundtrip a (max (Ast.szSels a) (Ast.szSels b)) [] ha hwa (Nat.le_max_left _ _)
  have h2 := Ast.selsNE_roundtrip b (max (Ast.szSels a) (Ast.szSels b)) [] hb hwb (Nat.le_max_right _ _)
  rw [h] at h1
  rw [h1] at h2
  simpa using h2

/-- **stage (iii), entry point**: for an accepted field set, `convert_selection_set` on the tree of
    `Parser::parse_selection_set` and the reference parser on the significant tokens (in braces) return the same selections -/
theorem parseFieldSet_fromCst_agrees (rl : Nat) (src : Str) (root : Elem)
    (h : (parse .selectionSet none rl src).outcome = .tree root) (herr : (parse .selectionSet none rl src).errors = []) :
    ∃ (sels : Ast.Sels) (ts : List Tok) (e : Tok) (x : List Ast.Tok), sig (srcToks src) = ts ++ [e] ∧ e.kind = .eof ∧ TokIs ts x ∧
      sels ≠ .nil ∧ (x = .p .lCurly :: Ast.tSels sels ++ [.p .rCurly] ∨ x = Ast.tSels sels) ∧ FieldSetNode sels root ∧
      (∀ (R : List FromCst.Loc) (s : Nat) (hp : ∀ y ∈ nameRanges root s, y ∈ R),
        ∃ l, FromCst.collectM (FromCst.cSelection (FromCst.size root))
          (FromCst.childrenP FromCst.isSelectionKind (⟨(root, s), hp⟩ : FromCst.PE R)) = some (selsToList sels, l)) ∧
      Ast.pSelectionSet (Ast.szSels sels) (.p .lCurly :: Ast.tSels sels ++ [.p .rCurly]) = some (sels, []) := by
  obtain ⟨_, sels, ts, e, h1, h2, hne, hwf, h3, h4⟩ := parseFieldSet_cst rl src root h herr
  have hconv := FromCst.fieldSet_collect (FromCst.size root) sels root h4 (Nat.le_succ _)
  have href : Ast.pSelectionSet (Ast.szSels sels) (.p .lCurly :: Ast.tSels sels ++ [.p .rCurly]) = some (sels, []) := by
    simpa [Ast.pSelectionSet] using Ast.selsNE_roundtrip sels _ [] hne hwf (Nat.le_refl _)
  rcases h3 with h3 | h3
  · exact ⟨sels, ts, e, _, h1, h2, h3, hne, Or.inl rfl, h4, hconv, href⟩
  · exact ⟨sels, ts, e, _, h1, h2, h3, hne, Or.inr rfl, h4, hconv, href⟩

/-- **pipeline_print_parse_fieldset**: whenever the significant tokens of a cleanly lexing source spell a non-empty
    well-formed list of selections `ss` — in braces (no ignored token in front) or brace-less — within the recursion
    limit, `Parser::parse_selection_set` accepts and `convert_selection_set` on its tree returns `ss` itself -/
theorem pipeline_print_parse_fieldset (rl : Nat) (src : Str) (ss : Ast.Sels) (ts : List Tok) (e : Tok)
    (hclean : LexClean src) (hsig : sig (srcToks src) = ts ++ [e]) (he : e.kind = .eof)
    (hne : ss ≠ Ast.Sels.nil) (hwf : Ast.wfSels ss = true) (hb : 1 ≤ rl) (hfit : fitSels ss (rl - 1))
    (hx : (TokIs ts (.p .lCurly :: Ast.tSels ss ++ [.p .rCurly]) ∧ HeadSig (srcToks src)) ∨ TokIs ts (Ast.tSels ss)) :
    (parse .selectionSet none rl src).errors = [] ∧
    ∃ root, (parse .selectionSet none rl src).outcome = .tree root ∧ FieldSetNode ss root ∧
      ∀ (R : List FromCst.Loc) (s : Nat) (hp : ∀ y ∈ nameRanges root s, y ∈ R),
        ∃ l, FromCst.collectM (FromCst.cSelection (FromCst.size root))
          (FromCst.childrenP FromCst.isSelectionKind (⟨(root, s), hp⟩ : FromCst.PE R)) = some (selsToList ss, l) := by
  have herr := parseFieldSet_complete_full rl src ss ts e hclean hsig he hne hb hfit hx
  obtain ⟨root, hroot⟩ := parseFieldSet_tree none rl src
  obtain ⟨_, sels, ts', e', h1, h2, hne', hwf', h3, h4⟩ := parseFieldSet_cst rl src root hroot herr
  have hts : ts' = ts := by
    have h := hsig.symm.trans h1
    have hl := congrArg List.length h
    simp at hl
    exact ((List.append_inj h hl).1).symm
  subst hts
  have hx' : TokIs ts' (.p .lCurly :: Ast.tSels ss ++ [.p .rCurly]) ∨ TokIs ts' (Ast.tSels ss) := by
    rcases hx with ⟨hx, _⟩ | hx
    · exact Or.inl hx
    · exact Or.inr hx
  have heq : sels = ss := by
    rcases h3 with h3 | h3 <;> rcases hx' with hx' | hx'
    · unfold TokIs at h3 hx'
      rw [h3] at hx'
      have := map_some_inj hx'
      simp only [List.cons_append, List.cons.injEq, true_and] at this
      exact tSels_injective hne' hne hwf' hwf (List.append_cancel_right this)
    · exfalso
      unfold TokIs at h3 hx'
      rw [h3] at hx'
      have := map_some_inj hx'
      exact tSels_head_ne_lCurly ss _ this.symm
    · exfalso
      unfold TokIs at h3 hx'
      rw [h3] at hx'
      have := map_some_inj hx'
      exact tSels_head_ne_lCurly sels _ this
    · unfold TokIs at h3 hx'
      rw [h3] at hx'
      exact tSels_injective hne' hne hwf' hwf (map_some_inj hx')
  subst heq
  exact ⟨herr, root, hroot, h4, FromCst.fieldSet_collect (FromCst.size root) sels root h4 (Nat.le_succ _)⟩

end Apollo.Parse
