import ApolloModel.Model.Smith
import ApolloModel.Proofs.Numbers3
/-
`type_name`: the candidates `base, base0, base1, …` are pairwise different, so among the first
`|used| + 1` of them one is free (pigeonhole): the loop terminates and returns a name outside `used`.
-/
namespace Apollo.SmithGen
open Apollo Apollo.Num

def digitVal (c : Char) : Nat := c.toNat - 48
def digitsVal (s : Str) : Nat := s.foldl (fun a c => 10 * a + digitVal c) 0

theorem digitVal_digitChar : ∀ d, d < 10 → digitVal (digitChar d) = d := by decide

theorem digitsVal_append (s : Str) (c : Char) : digitsVal (s ++ [c]) = 10 * digitsVal s + digitVal c := by
  simp [digitsVal, List.foldl_append]

theorem digitsVal_natDigits (n : Nat) : digitsVal (natDigits n) = n := by
  induction n using Nat.strongRecOn with
  | _ n ih =>
    by_cases h : n < 10
    · rw [natDigits_lt h]
      simp [digitsVal, digitVal_digitChar n h]
    · rw [natDigits_ge h, digitsVal_append, ih (n / 10) (by omega), digitVal_digitChar _ (by omega)]
      omega

theorem natDigits_inj {a b : Nat} (h : natDigits a = natDigits b) : a = b := by
  have := congrArg digitsVal h
  simpa [digitsVal_natDigits] using this

theorem natDigits_ne_nil (n : Nat) : natDigits n ≠ [] := by
  obtain ⟨d, rest, e, _⟩ := natDigits_shape n
  rw [e]; simp

theorem candidate_inj (base : Name) {i j : Nat} (h : candidate base i = candidate base j) : i = j := by
  cases i with
  | zero =>
    cases j with
    | zero => rfl
    | succ j =>
      simp only [candidate] at h
      have : natDigits j = [] := by
        have := congrArg List.length h
        simp at this
        first | exact this | exact List.eq_nil_of_length_eq_zero (by omega)
      exact absurd this (natDigits_ne_nil j)
  | succ i =>
    cases j with
    | zero =>
      simp only [candidate] at h
      have : natDigits i = [] := by
        have := congrArg List.length h
        simp at this
        first | exact this | exact List.eq_nil_of_length_eq_zero (by omega)
      exact absurd this (natDigits_ne_nil i)
    | succ j =>
      simp only [candidate] at h
      have := natDigits_inj (List.append_cancel_left h)
      omega

theorem firstFree_some {used : List Name} {base : Name} : ∀ (fuel k : Nat) (n : Name),
    firstFree used base fuel k = some n → n ∉ used ∧ ∃ j, k ≤ j ∧ n = candidate base j ∧ ∀ i, k ≤ i → i < j → candidate base i ∈ used := by
  intro fuel
  induction fuel with
  | zero => intro k n h; simp [firstFree] at h
  | succ fuel ih =>
    intro k n h
    simp only [firstFree] at h
    split at h
    · rename_i hc
      obtain ⟨h1, j, hj, e, hall⟩ := ih (k + 1) n h
      refine ⟨h1, j, by omega, e, ?_⟩
      intro i hi hij
      by_cases e' : i = k
      · subst e'; simpa using hc
      · exact hall i (by omega) hij
    · rename_i hc
      simp only [Option.some.injEq] at h
      subst h
      exact ⟨by simpa using hc, k, Nat.le_refl _, rfl, fun i h1 h2 => by omega⟩

theorem firstFree_none {used : List Name} {base : Name} : ∀ (fuel k : Nat),
    firstFree used base fuel k = none → ∀ i, i < fuel → candidate base (k + i) ∈ used := by
  intro fuel
  induction fuel with
  | zero => intro k _ i hi; omega
  | succ fuel ih =>
    intro k h i hi
    simp only [firstFree] at h
    split at h
    · rename_i hc
      cases i with
      | zero => simpa using hc
      | succ i =>
        have := ih (k + 1) h i (by omega)
        have e : k + 1 + i = k + (i + 1) := by omega
        rw [e] at this; exact this
    · cases h

/-- the loop of `type_name` always finds a free name within `|used| + 1` candidates -/
theorem firstFree_total (used : List Name) (base : Name) : ∃ n, firstFree used base (used.length + 1) 0 = some n := by
  cases h : firstFree used base (used.length + 1) 0 with
  | some n => exact ⟨n, rfl⟩
  | none =>
    exfalso
    have hall := firstFree_none (used.length + 1) 0 h
    let l := (List.range (used.length + 1)).map (candidate base)
    have hnd : l.Nodup := by
      exact List.Pairwise.map (candidate base) (fun a b hab e => hab (candidate_inj base e)) List.nodup_range
    have hsub : l ⊆ used := by
      intro x hx
      obtain ⟨i, hi, e⟩ := List.mem_map.mp hx
      rw [← e]
      have := hall i (List.mem_range.mp hi)
      simpa using this
    have := hnd.length_le_of_subset hsub
    simp [l] at this
    omega

theorem typeNameFrom_spec (used : List Name) (base : Name) :
    ∃ n, typeNameFrom used base = some (n, n :: used) ∧ n ∉ used := by
  obtain ⟨n, hn⟩ := firstFree_total used base
  refine ⟨n, by simp [typeNameFrom, hn], (firstFree_some _ _ _ hn).1⟩

/-- successive `type_name` calls: pairwise different names, all outside the initial set -/
theorem typeNames_nodup : ∀ (k : Nat) (used : List Name) (bytes : List Nat) (acc names : List Name),
    typeNames k used bytes acc = some names →
    (∀ a ∈ acc, a ∈ used) → acc.Nodup →
    names.Nodup ∧ ∀ n ∈ names, n ∈ acc ∨ n ∉ used := by
  intro k
  induction k with
  | zero =>
    intro used bytes acc names h _ hnd
    simp only [typeNames, Option.some.injEq] at h
    subst h
    exact ⟨List.pairwise_reverse.mpr (hnd.imp (fun h => h.symm)), fun n hn => Or.inl (List.mem_reverse.mp hn)⟩
  | succ k ih =>
    intro used bytes acc names h hacc hnd
    simp only [typeNames] at h
    split at h
    · cases h
    · rename_i n used' rest htn
      simp only [typeName] at htn
      split at htn
      · cases htn
      · rename_i base rest' _
        obtain ⟨m, hm, hfree⟩ := typeNameFrom_spec used base
        rw [hm] at htn
        simp only [Option.map_some, Option.some.injEq, Prod.mk.injEq] at htn
        obtain ⟨e1, e2, e3⟩ := htn
        subst e1 e2 e3
        have hnd' : (m :: acc).Nodup := List.nodup_cons.mpr ⟨fun hm' => hfree (hacc m hm'), hnd⟩
        have hacc' : ∀ a ∈ m :: acc, a ∈ m :: used := by
          intro a ha
          rcases List.mem_cons.mp ha with e | e
          · subst e; simp
          · exact List.mem_cons_of_mem _ (hacc a e)
        obtain ⟨r1, r2⟩ := ih (m :: used) rest' (m :: acc) names h hacc' hnd'
        refine ⟨r1, ?_⟩
        intro n hn
        rcases r2 n hn with e | e
        · rcases List.mem_cons.mp e with e' | e'
          · subst e'; exact Or.inr hfree
          · exact Or.inl e'
        · right; intro hu; exact e (List.mem_cons_of_mem _ hu)

/-! ### `limited_string` terminates: every failed attempt consumes a byte, exhausted input yields "A" -/

theorem takeInt_len (delta : Nat) : ∀ (fuel c acc : Nat) (bs : List Nat), (takeInt delta fuel c acc bs).2.length ≤ bs.length := by
  intro fuel
  induction fuel with
  | zero => intro c acc bs; simp [takeInt]
  | succ fuel ih =>
    intro c acc bs
    simp only [takeInt]
    split
    · cases bs with
      | nil => simp
      | cons b rest => exact Nat.le_trans (ih _ _ rest) (by simp)
    · exact Nat.le_refl _

theorem intInRange_len (a b : Nat) (bs : List Nat) : (intInRange a b bs).2.length ≤ bs.length := by
  unfold intInRange
  split
  · exact Nat.le_refl _
  · exact takeInt_len _ _ _ _ _

theorem takeChars_len : ∀ (n : Nat) (first : Bool) (bs : List Nat), (takeChars n first bs).2.length ≤ bs.length := by
  intro n
  induction n with
  | zero => intro f bs; simp [takeChars]
  | succ n ih =>
    intro f bs
    simp only [takeChars]
    exact Nat.le_trans (ih _ _) (intInRange_len _ _ _)

theorem size_consumes (b : Nat) (rest : List Nat) : (intInRange 1 30 (b :: rest)).2 = rest := by
  simp [intInRange, takeInt]

theorem limitedString_nil (fuel : Nat) : limitedString 30 (fuel + 1) [] = some (['A'], []) := by
  simp only [limitedString]
  rw [if_pos (by decide)]
  decide

theorem limitedString_total : ∀ (fuel : Nat) (bytes : List Nat), bytes.length < fuel → ∃ r, limitedString 30 fuel bytes = some r := by
  intro fuel
  induction fuel with
  | zero => intro bytes h; omega
  | succ fuel ih =>
    intro bytes h
    cases bytes with
    | nil => exact ⟨_, limitedString_nil fuel⟩
    | cons b rest =>
      simp only [limitedString]
      split
      · exact ⟨_, rfl⟩
      · apply ih
        have h1 := takeChars_len (intInRange 1 30 (b :: rest)).1 true (intInRange 1 30 (b :: rest)).2
        simp only [size_consumes] at h1 ⊢
        simp at h
        omega
end Apollo.SmithGen
