import ApolloModel.Proofs.ParserTree1
/-
C08 growth (pipeline), part 2: leaf nodes exactly.  A node opened on a significant token whose body is one
`bump` has exactly that token as its only child (no junk in front of it): `NAME[IDENT]`, `INT_VALUE[INT]`, ….
This matters because `from_cst.rs` reads such nodes through `text_of_first_token` / `first_token`.
-/
set_option linter.unusedSimpArgs false
set_option linter.unusedVariables false
namespace Apollo.Parse
open Apollo.Rowan hiding Str
open Apollo.Lex hiding Str

/-- `next_token` only adds to the pending list when it records a (lexer) error -/
theorem nextTokenRaw_pending : ∀ (fuel : Nat) (s : PState),
    ∃ l, (nextTokenRaw fuel s).2.errors = s.errors ++ l ∧ (l = [] → (nextTokenRaw fuel s).2.pending = s.pending)
  | 0, s => ⟨[], by simp [nextTokenRaw], fun _ => rfl⟩
  | fuel + 1, s => by
    unfold nextTokenRaw
    cases hn : lexNext s.lx with
    | mk o l' =>
      cases o with
      | none => exact ⟨[], by simp, fun _ => rfl⟩
      | some out =>
        cases out with
        | tok t => exact ⟨[], by simp, fun _ => rfl⟩
        | err d i =>
          simp only []
          obtain ⟨l, h1, _⟩ := nextTokenRaw_pending fuel { s with
            lx := l', pending := if d.isEmpty then s.pending else s.pending ++ [.error d],
            errors := s.errors ++ [⟨i, utf8Len d, .lexer⟩] }
          refine ⟨[⟨i, utf8Len d, .lexer⟩] ++ l, by rw [h1]; simp [List.append_assoc], ?_⟩
          intro h; simp at h
        | limit i =>
          simp only []
          obtain ⟨l, h1, _⟩ := nextTokenRaw_pending fuel { s with lx := l', acceptErrors := false, errors := s.errors ++ [⟨i, 0, .limit⟩] }
          refine ⟨[⟨i, 0, .limit⟩] ++ l, by rw [h1]; simp [List.append_assoc], ?_⟩
          intro h; simp at h

/-- in an error-free continuation, `peek_token` has not touched the pending list -/
theorem peekToken_pending (s s' : PState) (o : Option Tok) (h : peekToken.run s = .ok o s') (hnd : ¬ Doomed s') :
    s'.pending = s.pending := by
  unfold peekToken at h
  simp only [] at h
  cases hc : s.current with
  | some t =>
    simp only [hc, Res.ok.injEq] at h
    rw [← h.2]
  | none =>
    simp only [hc, Res.ok.injEq] at h
    obtain ⟨l, h1, h2⟩ := nextTokenRaw_pending (s.lx.src.length + 3) s
    have he : s'.errors = s.errors ++ l := by rw [← h.2]; exact h1
    have hl : l = [] := by
      cases l with
      | nil => rfl
      | cons a b => exact absurd (Or.inl (by rw [he]; simp)) hnd
    rw [← h.2]
    exact h2 hl

/-- `skip_ignored` when the head of the queue is significant: it only loads that token -/
theorem skipIgnored_sig (s s' : PState) (w : TW s) (t : Tok) (rest : List Tok) (ht : Toks s = t :: rest)
    (hni : isIgnoredKind t.kind = false) (h : skipIgnored.run s = .ok () s') :
    peekToken.run s = .ok (some t) s' := by
  unfold skipIgnored at h
  obtain ⟨n, s1, h1, h2⟩ := bind_dec srcLen _ s s' () h
  have : s1 = s := by
    unfold srcLen at h1
    simp only [] at h1
    injection h1 with _ h1
    exact h1.symm
  subst this
  unfold skipIgnoredLoop at h2
  obtain ⟨o, s2, h3, h4⟩ := bind_dec peekToken _ s1 s' () h2
  have p := peekToken_obs s1 s2 o w h3
  have ho : o = some t := by rw [p.head, ht]; rfl
  subst ho
  obtain ⟨b, s3, h5, h6⟩ := bind_dec moveCurToPending _ s2 s' () h4
  have hm : b = false ∧ s3 = s2 := by
    unfold moveCurToPending at h5
    simp only [p.current, hni, Bool.false_eq_true, if_false, Res.ok.injEq] at h5
    exact ⟨h5.1.symm, h5.2.symm⟩
  obtain ⟨rfl, rfl⟩ := hm
  simp only [Bool.false_eq_true, if_false] at h6
  rw [run_pure] at h6
  injection h6 with _ h6
  subst h6
  exact h3

/-- `eat` when nothing is pending and the token is already current: exactly one element is appended -/
theorem eat_exact (kind : SK) (s s' : PState) (t : Tok) (hc : s.current = some t) (hp : s.pending = [])
    (h : (eat kind).run s = .ok () s') :
    s'.builder.children = s.builder.children ++ [Elem.tok kind t.data] := by
  unfold eat at h
  obtain ⟨_, s1, h1, h2⟩ := bind_dec pushIgnored _ s s' () h
  have o1 := pushIgnored_obs s s1 h1
  obtain ⟨c1, p1⟩ := pushIgnored_children s s1 h1
  have hc1 : s1.current = some t := by rw [o1.current]; exact hc
  obtain ⟨o, s2, h3, h4⟩ := bind_dec peekToken _ s1 s' () h2
  have h32 : s2 = s1 := by
    unfold peekToken at h3
    simp only [hc1, Res.ok.injEq] at h3
    exact h3.2.symm
  subst h32
  have := moveCurToTree_children kind s2 s' t hc1 h4
  rw [this, p1, c1, hp]
  simp

/-- a body that, started on a current token with nothing pending, moves exactly that token into the tree -/
def LeafBody {α : Type} (body : PI α) (k : SK) (r : α) : Prop :=
  Good body ∧ ∀ s a s' t, TW s → s.current = some t → s.pending = [] → body.run s = .ok a s' →
    a = r ∧ (∃ ign, Eat s s' (t :: ign) ∧ ∀ x ∈ ign, isIgnoredKind x.kind = true) ∧
      s'.builder.children = s.builder.children ++ [Elem.tok k t.data]

theorem toks_of_current (s : PState) (t : Tok) (hc : s.current = some t) : Toks s = t :: toksOf (stream s.lx) := by
  simp [Toks, hc]

theorem leafBody_bump (k : SK) : LeafBody (bump k) k () := by
  refine ⟨good_bump k, ?_⟩
  intro s a s' t w hc hp hr
  obtain ⟨ign, e, hall, _⟩ := bump_spec k s s' w t _ (toks_of_current s t hc) hr
  unfold bump at hr
  obtain ⟨_, s3, h3, h4⟩ := bind_dec (eat k) _ s s' () hr
  have hc3 := eat_exact k s s3 t hc hp h3
  exact ⟨rfl, ⟨ign, e, hall⟩, by rw [keeps_skipIgnored s3 () s' h4, hc3]⟩

theorem leafBody_eat {α : Type} (k : SK) (r : α) : LeafBody (eat k >>= fun _ => (pure r : PI α)) k r := by
  refine ⟨good_bind _ _ (good_eat k) (fun _ => good_pure _), ?_⟩
  intro s a s' t w hc hp hr
  obtain ⟨_, s3, h3, h4⟩ := bind_dec (eat k) _ s s' a hr
  rw [run_pure] at h4
  injection h4 with h4 h5
  subst h5
  have ht := toks_of_current s t hc
  have e1 : Eat s s3 [t] := by
    rcases eat_spec k s s3 w h3 with ⟨t', rest', hq, e, _⟩ | ⟨hq, _⟩
    · rw [ht] at hq; injection hq with hq _; subst hq; exact e
    · rw [ht] at hq; cases hq
  exact ⟨h4.symm, ⟨[], e1, by intro x hx; cases hx⟩, eat_exact k s s3 t hc hp h3⟩

/-- **leaf nodes**: `start_node(K); body` with a `LeafBody` on a significant token `t` appends (after the junk that
    was pending) exactly `K[k(t.data)]` -/
theorem tr_leafG {α : Type} {E : PState → Prop} (K k : SK) (hk : isJunkKind k = false) (body : PI α) (r : α)
    (hbody : LeafBody body k r) (P : Tok → Prop)
    (hP : ∀ t, P t → isIgnoredKind t.kind = false ∧ t.kind ≠ .eof) :
    Tr E (HeadP P) (withNode K body)
      (fun a cs e => a = r ∧ ∃ t, P t ∧ TokFact t ∧ cs = [t] ∧
        e = [Elem.node K [Elem.tok k t.data]]) := by
  refine ⟨good_withNode K _ hbody.1, ?_⟩
  intro s a s' w hi he hlq ⟨t, hh, hp⟩ hr hnd
  obtain ⟨hni, hne⟩ := hP t hp
  have ht := toks_head_cons s t hh
  obtain ⟨s0, s2, inner, o0, hi0, hp0, hr2, o2, hin, hout⟩ := withNode_tree K body s hi a s' hr
  obtain ⟨_, s1, hs, hb⟩ := bind_dec skipIgnored _ s0 s2 a hr2
  have w0 := o0.w w
  have ht0 : Toks s0 = t :: (Toks s).tail := by rw [o0.toks]; exact ht
  have hpk := skipIgnored_sig s0 s1 w0 t _ ht0 hni hs
  have p1 := peekToken_obs s0 s1 _ w0 hpk
  have hnd2 : ¬ Doomed s2 := fun d => hnd (o2.doomed.mpr d)
  have hnd1 : ¬ Doomed s1 := fun d => hnd2 ((hbody.1 s1 a s2 p1.w hb).doom d)
  have hp1 : s1.pending = [] := by rw [peekToken_pending s0 s1 _ hpk hnd1]; exact hp0
  have hb1 : s1.builder = s0.builder := keeps_peekToken s0 _ s1 hpk
  obtain ⟨hres, ⟨ign, e12, hall⟩, hc3⟩ := hbody.2 s1 a s2 t p1.w p1.current hp1 hb
  have hinner : inner = [Elem.tok k t.data] := by
    rw [hc3, hb1] at hin
    exact (List.append_cancel_left hin).symm
  subst hinner
  have e02 : Eat s s2 (t :: ign) := by simpa using ((Eat.ofObsEq o0 w).trans p1.eat).trans e12
  refine ⟨t :: ign, s.pending.map pendingElem ++ [Elem.node K [Elem.tok k t.data]], ?_, noEof_cons hne hall,
    eofEnd_obs (eofEnd_eat he e02 (noEof_cons hne hall)) o2, by rw [hout, List.append_assoc],
    Or.inl ⟨hres, t, hp, hlq.fact t (by rw [ht]; exact List.mem_cons_self ..), ?_, ?_⟩⟩
  · rw [e02.toks, o2.toks]
  · have : t :: ign = [t] ++ ign := rfl
    rw [this, sig_append, sig_ignored ign hall, sig_single t hni]; rfl
  · rw [sigE_append, sigE_pending, sigE_node]; rfl

theorem tr_leaf {E : PState → Prop} (K k : SK) (hk : isJunkKind k = false) (P : Tok → Prop)
    (hP : ∀ t, P t → isIgnoredKind t.kind = false ∧ t.kind ≠ .eof) :
    Tr E (HeadP P) (withNode K (bump k))
      (fun _ cs e => ∃ t, P t ∧ TokFact t ∧ cs = [t] ∧
        e = [Elem.node K [Elem.tok k t.data]]) :=
  (tr_leafG K k hk (bump k) () (leafBody_bump k) P hP).mono (fun _ h => h) (fun _ _ _ h => h.2)

/-- the node of a Name: `NAME[IDENT]` -/
def nameNode (d : Str) : Elem := .node "NAME" [.tok "IDENT" d]

/-- **`name::name`**: a Name token `t` (valid GraphQL name), appended as `NAME[IDENT(t.data)]` -/
theorem tr_name {E : PState → Prop} {H : List Tok → Prop} :
    Tr E H name (fun _ cs e => ∃ t, t.kind = .name ∧ isValidName t.data = true ∧ cs = [t] ∧ e = [nameNode t.data]) := by
  unfold name
  apply tr_peekToken
  intro o
  cases o with
  | none => exact tr_err
  | some t =>
    simp only []
    refine tr_ite _ (fun hk => ?_) (fun _ => tr_err)
    have hk' : t.kind = .name := by simpa using hk
    refine (tr_leaf "NAME" "IDENT" (by decide) (fun t' => t' = t)
      (by rintro t' rfl; rw [hk']; exact ⟨rfl, by decide⟩)).mono ?_ ?_
    · rintro q ⟨_, hh⟩; exact ⟨t, hh, rfl⟩
    · rintro _ cs e ⟨t', rfl, hv, hcs, he⟩
      exact ⟨t', hk', hv.1 hk', hcs, he⟩

end Apollo.Parse
