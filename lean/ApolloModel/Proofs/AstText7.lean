import ApolloModel.Proofs.AstText6
import ApolloModel.Proofs.AstDocument3
/-
Text level: the pieces put together for a whole document.
-/
namespace Apollo.Ast
open Apollo.Lex (lex)

/-- the segments of the printed document -/
def docSegs (pre : Option Str) (level : Nat) (doc : Document) : List Seg :=
  render (initSt pre level) (cDocument (outputEmptyAtStart pre level) doc)

/-- the indentation written before anything else -/
def initialIndent (pre : Option Str) (level : Nat) : Str := (initSt pre level).out

theorem prefixIgnored_init (pre : Option Str) (level : Nat) (h : ∀ p, pre = some p → strIgnored p = true) :
    PrefixIgnored (initSt pre level) := ⟨h, by intro p hp; simp [initSt] at hp⟩

theorem initialIndent_ignored (pre : Option Str) (level : Nat) (h : ∀ p, pre = some p → strIgnored p = true) :
    strIgnored (initialIndent pre level) = true := by
  unfold initialIndent initSt
  cases pre with
  | none => rfl
  | some p => exact indentStr_ignored p level (h p rfl)

/-- a token segment carries `tokText` of its token, unless it is a string literal -/
theorem render_tok_text (cs : List Cmd) : ∀ (st : St) (t : Tok) (x : Str), Seg.tok t x ∈ render st cs →
    x = tokText t ∨ clsTok t = .str := by
  induction cs with
  | nil => intro st t x h; simp [render] at h
  | cons c cs ih =>
    intro st t x h
    simp only [render, List.mem_append] at h
    rcases h with h | h
    · cases c <;> simp only [segStep, List.mem_singleton, List.not_mem_nil, Seg.tok.injEq, reduceCtorEq] at h
      case tok t' => exact .inl (by rw [h.1, h.2])
      case str d s => exact .inr (by rw [h.1]; rfl)
    · exact ih _ t x h

/-- every name written is a GraphQL name (true of every AST the parser or `Name::new` produced: property C10) -/
def NamesWf (segs : List Seg) : Prop := ∀ n x, Seg.tok (.name n) x ∈ segs → wfName n = true

theorem segsWf_doc (pre : Option Str) (level : Nat) (doc : Document)
    (hpre : ∀ p, pre = some p → strIgnored p = true)
    (hn : NamesWf (docSegs pre level doc)) (hnum : NumbersLex (docSegs pre level doc))
    (hstr : StringsLex (docSegs pre level doc)) : SegsWf (docSegs pre level doc) := by
  intro g hg
  cases g with
  | ign s =>
    exact render_ignored _ _ none (prefixIgnored_init pre level hpre) (separated_document _ doc) s hg
  | tok t x =>
    show TokOk t x
    rcases render_tok_text _ _ t x hg with hx | hs
    · cases t with
      | name n => rw [hx]; exact tokOk_name n (hn n _ hg)
      | p k => rw [hx]; exact tokOk_punct k
      | int s => exact hnum _ _ hg rfl
      | float s => exact hnum _ _ hg rfl
      | str s => exact hstr _ _ hg rfl
    · exact hstr _ _ hg hs

/-- a decidable sufficient condition for the three hypotheses: only well-formed names and punctuators -/
def segsPlain (segs : List Seg) : Bool :=
  segs.all fun g =>
    match g with
    | .tok (.name n) _ => wfName n
    | .tok (.p _) _ => true
    | .tok _ _ => false
    | .ign _ => true

theorem plain_hyps (segs : List Seg) (h : segsPlain segs = true) :
    NamesWf segs ∧ NumbersLex segs ∧ StringsLex segs := by
  simp only [segsPlain, List.all_eq_true] at h
  refine ⟨?_, ?_, ?_⟩
  · intro n x hm; simpa using h _ hm
  · intro t x hm hc
    have := h _ hm
    cases t with
    | p k => cases k <;> simp [clsTok] at hc
    | _ => simp_all [clsTok]
  · intro t x hm hc
    have := h _ hm
    cases t with
    | p k => cases k <;> simp [clsTok] at hc
    | _ => simp_all [clsTok]

end Apollo.Ast
