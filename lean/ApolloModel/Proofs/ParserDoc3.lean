import ApolloModel.Proofs.ParserDoc2
/-
C05 growth (top level), part 3: `document()`, the entry point `parse .document`.
-/
set_option linter.unusedSimpArgs false
namespace Apollo.Parse
open Apollo.Rowan hiding Str
open Apollo.Lex hiding Str

/-- the tokens of a Document as accepted: `Definition+`, each `IsDef` -/
def IsDocumentToks (x : List Ast.Tok) : Prop := x ≠ [] ∧ IsDefs x

/-! ### `document()` -/

theorem good_documentBody {n : Nat} (L : DefLemmas n) : Good (documentBody n) :=
  good_bind _ _ good_peek (fun _ => good_bind _ _ (good_ite _ _ _ good_err (good_pure _))
    (fun _ => good_bind _ _ (good_peekWhile _ (good_documentStep L)) (fun _ => fun s _ s' w h => (Eat.ofObsEq (pushIgnored_obs s s' h) w).adv)))

theorem documentBody_sound {n : Nat} (L : DefLemmas n) (s s' : PState) (w : TW s) (he : EofEnd s) (hs : LexQ (Toks s))
    (hset : Settled s) (h : (documentBody n).run s = .ok () s') (hnd : ¬ Doomed s') :
    ∃ cs x e, Toks s = cs ++ [e] ∧ e.kind = .eof ∧ NoEof cs ∧ TokIs (sig cs) x ∧ IsDocumentToks x := by
  unfold documentBody at h
  obtain ⟨ko, sP, hp, h2⟩ := bind_dec peek _ s s' () h
  obtain ⟨o, p, hko⟩ := peek_obs s sP ko w hp
  subst hko
  have heP : EofEnd sP := p.eofEnd he
  obtain ⟨_, sE, hE, h3⟩ := bind_dec (errIfEmpty _) _ sP s' () h2
  obtain ⟨_, sL, hL, h4⟩ := bind_dec (peekWhile (documentStep n)) _ sE s' () h3
  have o4 := pushIgnored_obs sL s' h4
  have hndL : ¬ Doomed sL := fun d => hnd (o4.doomed.mpr d)
  -- `errIfEmpty`: an error unless a token other than EOF is there
  unfold errIfEmpty at hE
  by_cases hemp : (o.map (·.kind) == none || o.map (·.kind) == some .eof) = true
  · exfalso
    simp only [hemp, if_true] at hE
    have gE := good_err sP () sE p.w hE
    have gL := good_peekWhile _ (good_documentStep L) sE () sL gE.w hL
    obtain ⟨_, d⟩ := err_adv sP sE p.w hE
    have hndP : ¬ Doomed sP := fun dd => hndL (gL.doom (gE.doom dd))
    exact hndL (gL.doom (d (eofEnd_nonempty sP heP hndP)))
  · simp only [hemp, Bool.false_eq_true, if_false] at hE
    rw [run_pure] at hE
    injection hE with _ hE
    subst hE
    obtain ⟨fuel, h5⟩ := srcLen_dec _ sP sL () hL
    have hsP : LexQ (Toks sP) := by rw [p.toks]; exact hs
    obtain ⟨cs, x, t1, n1, e1, hx, hdefs, hat⟩ := docLoop_sound L _ sP sL p.w heP hsP h5 hndL
    obtain ⟨e, hte, hke⟩ := atEof_single sL e1 hndL hat
    -- the first token is significant and not EOF, so something was consumed
    obtain ⟨t, ht⟩ : ∃ t, o = some t := by
      cases o with
      | none => simp at hemp
      | some t => exact ⟨t, rfl⟩
    subst ht
    have hkt : t.kind ≠ .eof := by
      intro hk; simp [hk] at hemp
    have hni : isIgnoredKind t.kind = false := by
      have hcur : s.current = some t := by
        have h1 := hset.1
        have h2 := p.head
        rw [h1, ← h2]
      exact hset.2 t hcur
    have htP : Toks sP = t :: (Toks sP).tail := p.head_cons
    have hcs : ∃ cs', cs = t :: cs' := by
      cases cs with
      | nil =>
        exfalso
        rw [hte] at t1
        simp only [List.nil_append] at t1
        rw [t1] at htP
        injection htP with h1 _
        exact hkt (by rw [← h1]; exact hke)
      | cons a cs' =>
        rw [htP] at t1
        injection t1 with h1 _
        exact ⟨cs', by rw [h1]⟩
    obtain ⟨cs', rfl⟩ := hcs
    refine ⟨t :: cs', x, e, by rw [← p.toks, t1, hte], hke, n1, hx, ?_, hdefs⟩
    intro hx0
    subst hx0
    have : sig (t :: cs') = t :: sig cs' := by simp [sig, hni]
    rw [this] at hx
    simp [TokIs] at hx

/-- `document()`: the node, the ignored tokens in front, the body -/
theorem document_sound_run {n : Nat} (L : DefLemmas n) (s s' : PState) (w : TW s) (he : EofEnd s) (hs : LexQ (Toks s))
    (h : (document n).run s = .ok () s') (hnd : ¬ Doomed s') :
    ∃ ts x e, sig (Toks s) = ts ++ [e] ∧ e.kind = .eof ∧ TokIs ts x ∧ IsDocumentToks x := by
  unfold document at h
  obtain ⟨s0, s2, o0, hr0, o2⟩ := withNode_dec "DOCUMENT" (documentBody n) s s' () h
  obtain ⟨_, s1, hsk, hb⟩ := bind_dec skipIgnored _ s0 s2 () hr0
  obtain ⟨ign, e01', hall, hset⟩ := skipIgnored_spec s0 s1 (o0.w w) hsk
  have e01 : Eat s s1 ign := by simpa using (Eat.ofObsEq o0 w).trans e01'
  have he1 : EofEnd s1 := eofEnd_eat he e01 (noEof_ignored ign hall)
  have hnd2 : ¬ Doomed s2 := fun d => hnd (o2.doomed.mpr d)
  have hs1 : LexQ (Toks s1) := by rw [e01.toks] at hs; exact hs.suffix
  obtain ⟨cs, x, e, t1, hke, _, hx, hdoc⟩ := documentBody_sound L s1 s2 e01.w he1 hs1 hset hb hnd2
  refine ⟨sig cs, x, e, ?_, hke, hx, hdoc⟩
  rw [e01.toks, t1, sig_append, sig_append, sig_ignored ign hall]
  have : sig [e] = [e] := by simp [sig, isIgnoredKind, hke]
  rw [this]; rfl

/-- **document_accept_sound.**  If `Parser::parse` (model) returns a tree without any error, the source lexes
    cleanly and its significant tokens are the tokens of a Document of the grammar — one or more definitions,
    each in the long or the shorthand form — followed by the end of input.  Parametrised by `DefLemmas`. -/
theorem document_accept_sound (L : ∀ n, DefLemmas n) (rl : Nat) (src : Str) (root : Elem)
    (h : (parse .document none rl src).outcome = .tree root) (herr : (parse .document none rl src).errors = []) :
    LexClean src ∧ ∃ ts x e, sig (srcToks src) = ts ++ [e] ∧ e.kind = .eof ∧ TokIs ts x ∧ IsDocumentToks x := by
  unfold parse runEntry at h herr
  simp only [Entry.standalone, Entry.grammar] at h herr
  have hinv := init_inv src none rl
  have w0 : TW (initState src none rl) := ⟨rfl, by intro h; simp [initState] at h⟩
  have htoks : Toks (initState src none rl) = srcToks src := rfl
  have hdoom : Doomed (initState src none rl) ↔ ¬ LexClean src := by
    unfold Doomed LexClean
    show ([] ≠ [] ∨ hasErr (stream (initState src none rl).lx) = true) ↔ _
    have : (initState src none rl).lx = (initState src none 0).lx := rfl
    rw [this]
    constructor
    · rintro (h | h)
      · exact absurd rfl h
      · simp [h]
    · intro h; right; simpa using h
  have he0 : EofEnd (initState src none rl) := by
    right
    obtain ⟨pre, e, hp, he, hno⟩ := stream_eof_end src.length (initState src none 0).lx (Nat.le_refl _) rfl rfl
    exact ⟨pre, e, by rw [htoks]; exact hp, he, hno⟩
  cases hr : (document (fuelFor src)).run (initState src none rl) with
  | abort w => simp [hr] at h
  | panic m => simp [hr] at h
  | ok a s =>
    simp only [hr] at h herr
    have gd := good_withNode "DOCUMENT" _ (good_documentBody (L (fuelFor src))) _ a s w0 (by unfold document at hr; exact hr)
    -- the final state: no error recorded, and the lexer is exhausted
    obtain ⟨hfin, hlim⟩ := PI.run_ok (document (fuelFor src)) _ hinv a s hr
    obtain ⟨cs, s2, _, _, hrun, _, _, hlx, _, _, _⟩ :=
      withNode_result "DOCUMENT" (documentBody (fuelFor src)) _ hinv a s hr
    have hi0 : Inv (rawStartNode "DOCUMENT" { initState src none rl with builder := { (initState src none rl).builder with children := (initState src none rl).builder.children ++ (initState src none rl).pending.map pendingElem }, pending := [] }) :=
      ⟨fun _ => by simp [initState, Builder.new, rawStartNode, Builder.startNode, textList, pendingText, curText],
       fun p hp => by simp [initState, Builder.new, rawStartNode, Builder.startNode] at hp; simp [hp, initState, Builder.new, rawStartNode, Builder.startNode],
       fun hfin => by simp [initState, rawStartNode] at hfin, fun t ht => by simp [initState, rawStartNode] at ht,
       fun ha => by simp [initState, rawStartNode] at ha⟩
    obtain ⟨u, s1, hsk, hbody⟩ := bind_dec skipIgnored _ _ s2 a hrun
    obtain ⟨hi1, hl1⟩ := PI.run_ok skipIgnored _ hi0 u s1 hsk
    have hl1' : s1.lx.limit = none := by rw [hl1]; rfl
    obtain ⟨_, hex2, _⟩ := documentBody_final (fuelFor src) s1 s2 hi1 hl1' hbody
    have hsrc : s.lx.src = [] := by rw [hlx]; exact hex2.2
    have hnd : ¬ Doomed s := by
      rintro (d | d)
      · exact d herr
      · rw [hasErr_src_nil s.lx gd.w.limit hsrc] at d; cases d
    have hnd0 : ¬ Doomed (initState src none rl) := fun d => hnd (gd.doom d)
    refine ⟨Classical.byContradiction (fun hc => hnd0 (hdoom.mpr hc)), ?_⟩
    have := document_sound_run (L (fuelFor src)) _ s w0 he0 (by rw [htoks]; exact lexQ_srcToks src) hr hnd
    rw [htoks] at this
    exact this

end Apollo.Parse
