import ApolloModel.Proofs.ParserRecursion11
/-
C04 growth (recursion limit across runs), part 12: `selection::field_set` and `Parser::parse_selection_set`.
The guard of `field_set` (input not starting with `{`) sits before anything was consumed: that a token is
there to report the limit error at follows from the lexer not having finished, a fact about the start state.
-/
set_option linter.unusedSimpArgs false
set_option linter.unusedVariables false
namespace Apollo.Parse
open Apollo.Rowan hiding Str
open Apollo.Lex hiding Str

/-- nothing fetched yet, and the lexer still has (at least the EOF token) to hand out -/
def Fresh (s : PState) : Prop := s.current = none → s.lx.finished = false

/-- the cross-run property with a precondition on the whole start state -/
def XS {α : Type} (P : PState → Prop) (m : PI α) : Prop :=
  ∀ (s : PState) (r R : Nat) (ar aR : α) (sr sR : PState), r ≤ R → s.recCur ≤ r → s.recHigh ≤ r → GI s → P s →
    m.run (setL r s) = .ok ar sr → m.run (setL R s) = .ok aR sR →
    Sync s r R ar aR sr sR ∨ Div r sr sR

theorem xs_bind {α β : Type} {P : PState → Prop} {c' : α → Option Tok → Prop} (m : PI α) (f : α → PI β)
    (hP : ∀ s L, P s → P (setL L s))
    (xm : XS P m) (bm : BG m) (pm : ∀ s a s', GI s → P s → m.run s = .ok a s' → c' a s'.current)
    (xf : ∀ a, XC (c' a) (f a)) (bf : ∀ a, BG (f a)) : XS P (m >>= f) := by
  intro s r R br bR sr sR hrR hc hh g hcs hr hR
  obtain ⟨a1, s1r, h1r, h2r⟩ := bind_dec m f _ sr br hr
  obtain ⟨a1R, s1R, h1R, h2R⟩ := bind_dec m f _ sR bR hR
  have b1r := bm _ a1 s1r (by simpa [setL] using hc) h1r
  have b1R := bm _ a1R s1R (by simp only [setL]; omega) h1R
  have b2R := bf a1R s1R bR sR (by rw [b1R.recCur, b1R.recLimit]; simp only [setL]; omega) h2R
  rcases xm s r R a1 a1R s1r s1R hrR hc hh g hcs h1r h1R with ⟨t, e1, e2, ea, th, tc, tg⟩ | ⟨d1, d2, d3⟩
  · subst e1 e2 ea
    have hct : c' a1 t.current := pm (setL r s) a1 (setL r t) (gi_setL g r) (hP s r hcs) h1r
    rcases xf a1 t r R br bR sr sR hrR (by rw [tc]; exact hc) th tg hct h2r h2R with ⟨t2, e1, e2, ea, th2, tc2, tg2⟩ | d
    · exact Or.inl ⟨t2, e1, e2, ea, th2, tc2.trans tc, tg2⟩
    · exact Or.inr d
  · have b2r := bf a1 s1r br sr (by rw [b1r.recCur, b1r.recLimit]; simpa [setL] using hc) h2r
    refine Or.inr ⟨b2r.lim d1, ?_, Nat.le_trans d3 b2R.lo⟩
    have := b2r.lo
    have := b2r.hi
    have hl : s1r.recLimit = r := by rw [b1r.recLimit]; rfl
    omega

theorem xs_of_plain {α : Type} {P : PState → Prop} {m : PI α} (hm : Plain m) : XS P m :=
  fun s r R ar aR sr sR h1 h2 h3 g _ hr hR => xc_of_plain (c := anyTok) hm s r R ar aR sr sR h1 h2 h3 g trivial hr hR

/-- `peek` from a fresh state finds a token -/
theorem peek_fresh (s : PState) (k : Option Kind) (s' : PState) (g : GI s) (hf : Fresh s) (h : peek.run s = .ok k s') :
    s'.current.map (·.kind) = k ∧ s'.current.isSome = true := by
  refine ⟨post_peek anyTok s k s' g trivial h, ?_⟩
  obtain ⟨o, s1, h1, h2⟩ := bind_dec peekToken _ s s' k h
  rw [run_pure] at h2
  injection h2 with _ h3
  subst h3
  unfold peekToken at h1
  simp only [] at h1
  cases hc : s.current with
  | some t => simp only [hc, Res.ok.injEq] at h1; obtain ⟨_, rfl⟩ := h1; rw [hc]; rfl
  | none =>
    simp only [hc, Res.ok.injEq] at h1
    obtain ⟨_, rfl⟩ := h1
    obtain ⟨t, ht⟩ := nextTokenRaw_some (s.lx.src.length + 3) s g.lim (hf hc) (by omega)
    simp only []
    unfold nextToken
    rw [ht]; rfl

/-- `skip_ignored` started with a current token ends with a current token -/
theorem post_skipIgnored_some : PostC someTok skipIgnored (fun _ cur => cur.isSome = true) := by
  intro s a s' g hc h
  unfold skipIgnored at h
  obtain ⟨n, s1, h1, h2⟩ := bind_dec srcLen _ s s' () h
  have : s1 = s := by
    unfold srcLen at h1
    simp only [] at h1
    injection h1 with _ h1
    exact h1.symm
  subst this
  refine skipIgnoredLoop_some _ s1 s' g ?_ h2
  intro hn
  unfold someTok at hc
  rw [hn] at hc
  cases hc

theorem bg_fieldSetElse (n : Nat) : BG (withNode "SELECTION_SET" (withRec limitErr (selection n))) :=
  bg_withNode _ _ (bg_withRec _ _ plain_limitErr (xSel n).sel.b)

theorem xc_fieldSetElse (n : Nat) : XC someTok (withNode "SELECTION_SET" (withRec limitErr (selection n))) := by
  refine xc_withNode _ _ ?_
  exact xc_bind (c' := fun _ cur => cur.isSome = true) _ _ (xc_of_plain plain_skipIgnored) (bg_of_plain plain_skipIgnored)
    post_skipIgnored_some
    (fun _ => xc_withRec _ _ plain_limitErr (fun s a s' g hc h => limitErr_records s s' g hc h)
      (xc_weaken (xSel n).sel.x) (xSel n).sel.b)
    (fun _ => bg_withRec _ _ plain_limitErr (xSel n).sel.b)

theorem bg_fieldSet (n : Nat) : BG (fieldSet n) := by
  unfold fieldSet
  exact bg_bind _ _ (bg_of_plain plain_peek) (fun k => bg_ite _ _ _ (xSel n).selSet.b (bg_fieldSetElse n))

theorem xs_fieldSet (n : Nat) : XS Fresh (fieldSet n) := by
  unfold fieldSet
  refine xs_bind (c' := fun k cur => cur.isSome = true) _ _ (fun s L h => h) (xs_of_plain plain_peek) (bg_of_plain plain_peek) ?_ ?_ ?_
  · intro s k s' g hf h
    exact (peek_fresh s k s' g hf h).2
  · intro k
    exact xc_ite _ _ _ (xc_weaken (xSel n).selSet.x) (xc_fieldSetElse n)
  · intro k
    exact bg_ite _ _ _ (xSel n).selSet.b (bg_fieldSetElse n)

/-- the grammar of the `selectionSet` entry point -/
theorem xs_selectionSetEntry (n : Nat) : XS Fresh (fieldSet n >>= fun _ => expectEndOfInput) := by
  have pe : Plain expectEndOfInput := by
    unfold expectEndOfInput
    refine plain_bind _ _ plain_skipIgnored (fun _ => plain_bind _ _ plain_peek (fun k => ?_))
    unfold errUnlessEnd
    split
    · exact plain_pure _
    · exact plain_err
  exact xs_bind (c' := fun _ _ => True) _ _ (fun s L h => h) (xs_fieldSet n) (bg_fieldSet n)
    (fun _ _ _ _ _ _ => trivial) (fun _ => xc_of_plain pe) (fun _ => bg_of_plain pe)

end Apollo.Parse
