import ApolloModel.Proofs.ParserRecursion4
/-
C04 growth (recursion limit across runs), part 5: `Parser::parse_type` — the limited run against the nesting
depth of the input, which does not depend on the limit.
-/
set_option linter.unusedSimpArgs false
namespace Apollo.Parse
open Apollo.Rowan hiding Str
open Apollo.Lex hiding Str

/-- nesting depth of a type source text: the number of nested list types it opens, read off the token
    sequence of the lexer (no parser run, no limit involved) -/
def typeDepth (src : Str) : Nat := lead (srcToks src)

theorem qg_ty_tail (r : TyRes) :
    QG (match r with
        | .errTok t => errAtToken t
        | .errNone => err
        | _ => pure ()) := by
  cases r with
  | errTok t => exact qg_errAtToken t
  | errNone => exact qg_err
  | ok => exact qg_pure _
  | early => exact qg_pure _

theorem qg_expectEndOfInput : QG expectEndOfInput := by
  unfold expectEndOfInput
  refine qg_bind _ _ good_skipIgnored qg_skipIgnored (fun _ => qg_bind _ _ good_peek qg_peek ?_)
  intro k
  unfold errUnlessEnd
  split
  · exact qg_pure _
  · exact qg_err

/-- the run of the `type` entry point, from the state `Parser::parse_type` starts in -/
theorem type_rec_run (fuel : Nat) (s0 s : PState) (w : TW s0) (he : EofE s0)
    (h0 : s0.recCur = 0 ∧ s0.recHigh = 0 ∧ s0.errors = [] ∧ s0.acceptErrors = true)
    (h : (ty fuel >>= fun _ => expectEndOfInput).run s0 = .ok () s) :
    (HasLim s.errors ↔ lead (Toks s0) > s0.recLimit) ∧ s.recHigh = min (lead (Toks s0)) (s0.recLimit + 1) := by
  obtain ⟨hc, hh, herr, hacc⟩ := h0
  obtain ⟨_, s1, h1, h2⟩ := bind_dec (ty fuel) _ s0 s () h
  have a1 := good_ty fuel s0 () s1 w h1
  have q2 : Q s1 s := qg_expectEndOfInput s1 () s a1.w h2
  unfold ty at h1
  obtain ⟨r, sT, hT, h3⟩ := bind_dec (tyParse fuel) _ s0 s1 () h1
  have aT := good_tyParse fuel s0 r sT w hT
  have q3 : Q sT s1 := qg_ty_tail r sT () s1 aT.w h3
  have ro := tyParse_rec fuel s0 sT r w he (by omega) (by omega) hT
  have ro' := recOut_post (recOut_post ro q3) q2
  have hnl : ¬ HasLim s0.errors := by rw [herr]; rintro ⟨e, he', _⟩; cases he'
  by_cases hu : lead (Toks s0) ≤ s0.recLimit
  · obtain ⟨e1, e2, _⟩ := ro'.under (by omega)
    refine ⟨⟨fun hl => absurd (e2.mp hl) hnl, fun hgt => by omega⟩, ?_⟩
    rw [e1, hh, hc]; omega
  · obtain ⟨e1, e2, _⟩ := ro'.over (by omega)
    refine ⟨⟨fun _ => by omega, fun _ => e2 hacc⟩, ?_⟩
    rw [e1, hh]; omega

/-- `Parser::parse_type` with recursion limit `r` and no token limit: a recursion-limit error is reported
    exactly when the nesting depth of the input exceeds `r`, and the tracker's high-water mark is exactly
    `min depth (r + 1)` — the limit stops the descent at level `r + 1`, never earlier, never later. -/
theorem parseType_rec_limit (r : Nat) (src : Str) (hterm : ∀ w, (parse .type none r src).outcome ≠ .abort w) :
    (HasLim (parse .type none r src).errors ↔ typeDepth src > r) ∧
    (parse .type none r src).recHigh = min (typeDepth src) (r + 1) := by
  unfold parse runEntry at hterm ⊢
  simp only [Entry.standalone, Entry.grammar] at hterm ⊢
  generalize hs0 : ({ initState src none r with builder := (initState src none r).builder.startNode "NAMED_TYPE" } : PState) = s0 at hterm ⊢
  have hinv : Inv s0 := by
    subst hs0
    exact ⟨fun _ => by simp [initState, Builder.new, Builder.startNode, textList, pendingText, curText],
      fun p hp => by simp [initState, Builder.new, Builder.startNode] at hp; simp [hp, initState, Builder.new],
      fun h => by simp [initState] at h, fun t h => by simp [initState] at h, fun h => by simp [initState] at h⟩
  have w0 : TW s0 := by subst hs0; exact ⟨rfl, by intro h; simp [initState] at h⟩
  have htoks : Toks s0 = srcToks src := by subst hs0; rfl
  have hlim : s0.recLimit = r := by subst hs0; rfl
  have h0 : s0.recCur = 0 ∧ s0.recHigh = 0 ∧ s0.errors = [] ∧ s0.acceptErrors = true := by
    subst hs0; exact ⟨rfl, rfl, rfl, rfl⟩
  have he0 : EofE s0 := by
    obtain ⟨pre, e, hp, he, hno⟩ := stream_eof_end src.length (initState src none 0).lx (Nat.le_refl _) rfl rfl
    exact ⟨pre, e, by rw [htoks]; exact hp, he, hno⟩
  have hpost := (ty (fuelFor src) >>= fun _ => expectEndOfInput).ok s0 hinv
  cases hr : (ty (fuelFor src) >>= fun _ => expectEndOfInput).run s0 with
  | abort w => simp [hr] at hterm
  | panic m => simp [hr, Post] at hpost
  | ok a s =>
    simp only [hr]
    have := type_rec_run (fuelFor src) s0 s w0 he0 h0 hr
    rw [htoks, hlim] at this
    exact this

end Apollo.Parse
