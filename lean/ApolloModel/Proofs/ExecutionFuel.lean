import ApolloModel.Proofs.Execution
/- C26: a fuel bound for operations without fragment spreads (inline fragments allowed):
   `collect_fields` and `complete_value` never run out of fuel. -/
namespace Apollo.Exec
open Apollo

mutual
/-- number of selection nodes, sub-selections of fields included -/
def Sel.weight : Sel → Nat
  | .field _ _ _ _ sub => Sel.weightL sub + 1
  | .spread _ _ => 1
  | .inline _ _ sub => Sel.weightL sub + 1
def Sel.weightL : List Sel → Nat
  | [] => 0
  | s :: rest => Sel.weight s + Sel.weightL rest
end

mutual
/-- nesting depth of field selections (inline fragments do not add a level) -/
def Sel.depth : Sel → Nat
  | .field _ _ _ _ sub => Sel.depthL sub + 1
  | .spread _ _ => 0
  | .inline _ _ sub => Sel.depthL sub
def Sel.depthL : List Sel → Nat
  | [] => 0
  | s :: rest => max (Sel.depth s) (Sel.depthL rest)
end

mutual
/-- no fragment spread anywhere below -/
def Sel.noSpread : Sel → Bool
  | .field _ _ _ _ sub => Sel.noSpreadL sub
  | .spread _ _ => false
  | .inline _ _ sub => Sel.noSpreadL sub
def Sel.noSpreadL : List Sel → Bool
  | [] => true
  | s :: rest => Sel.noSpread s && Sel.noSpreadL rest
end

def Sel.isField : Sel → Bool
  | .field _ _ _ _ _ => true
  | _ => false

/-- what is known about every collected field: a field selection without spreads below it, of depth ≤ d -/
def FieldOk (d : Nat) (s : Sel) : Prop := s.isField = true ∧ s.noSpread = true ∧ s.depth ≤ d

def GroupsOk (d : Nat) (g : AList (List Sel)) : Prop := ∀ kv, kv ∈ g → ∀ s, s ∈ kv.2 → FieldOk d s

def groupsWeight : AList (List Sel) → Nat
  | [] => 0
  | (_, fs) :: rest => Sel.weightL fs + groupsWeight rest

theorem weightL_append (a b : List Sel) : Sel.weightL (a ++ b) = Sel.weightL a + Sel.weightL b := by
  induction a with
  | nil => simp [Sel.weightL]
  | cons x xs ih => simp [Sel.weightL, ih]; omega

theorem pushGroup_ok (d : Nat) : ∀ (g : AList (List Sel)) (k : String) (s : Sel), GroupsOk d g → FieldOk d s →
    GroupsOk d (pushGroup g k s) := by
  intro g
  induction g with
  | nil =>
    intro k s _ hs kv hkv x hx
    simp [pushGroup] at hkv
    subst hkv
    simp at hx
    subst hx
    exact hs
  | cons hd tl ih =>
    intro k s hg hs
    obtain ⟨k', fs⟩ := hd
    simp only [pushGroup]
    split
    · intro kv hkv x hx
      simp only [List.mem_cons] at hkv
      rcases hkv with rfl | hkv
      · simp only [List.mem_append, List.mem_singleton] at hx
        rcases hx with hx | rfl
        · exact hg (k', fs) (by simp) x hx
        · exact hs
      · exact hg kv (by simp [hkv]) x hx
    · intro kv hkv x hx
      simp only [List.mem_cons] at hkv
      rcases hkv with rfl | hkv
      · exact hg (k', fs) (by simp) x hx
      · exact ih k s (fun kv' h' => hg kv' (by simp [h'])) hs kv hkv x hx

theorem pushGroup_weight : ∀ (g : AList (List Sel)) (k : String) (s : Sel),
    groupsWeight (pushGroup g k s) = groupsWeight g + s.weight := by
  intro g
  induction g with
  | nil => intro k s; simp [pushGroup, groupsWeight, Sel.weightL]
  | cons hd tl ih =>
    intro k s
    obtain ⟨k', fs⟩ := hd
    simp only [pushGroup]
    split
    · simp [groupsWeight, weightL_append, Sel.weightL]; omega
    · simp [groupsWeight, ih]; omega

theorem group_weight_le : ∀ (g : AList (List Sel)) kv, kv ∈ g → Sel.weightL kv.2 ≤ groupsWeight g := by
  intro g
  induction g with
  | nil => intro kv h; simp at h
  | cons hd tl ih =>
    intro kv h
    obtain ⟨k', fs⟩ := hd
    simp only [List.mem_cons] at h
    simp only [groupsWeight]
    rcases h with rfl | h
    · simp
    · have := ih kv h; omega

/-- `collect_fields` on a selection set without spreads: enough fuel is its weight; every collected
    selection is a field of the set (reached through inline fragments), so no deeper than the set. -/
theorem collect_ok (env : Env) (objTy : String) (d : Nat) : ∀ n sels visited groups,
    Sel.weightL sels < n → Sel.noSpreadL sels = true → Sel.depthL sels ≤ d → GroupsOk d groups →
    ∃ v g, collectFields env objTy n sels visited groups = some (v, g) ∧ GroupsOk d g ∧
      groupsWeight g ≤ groupsWeight groups + Sel.weightL sels := by
  intro n
  induction n with
  | zero => intro sels visited groups h; omega
  | succ n ih =>
    intro sels visited groups hw hns hd hg
    cases sels with
    | nil => exact ⟨visited, groups, rfl, hg, by simp [Sel.weightL]⟩
    | cons sel rest =>
      simp only [Sel.weightL] at hw
      simp only [Sel.noSpreadL, Bool.and_eq_true] at hns
      simp only [Sel.depthL] at hd
      have hwsel : 1 ≤ sel.weight := by cases sel <;> simp [Sel.weight]
      have hrest := fun v g hg' => ih rest v g (by omega) hns.2 (by omega) hg'
      simp only [collectFields]
      split
      · obtain ⟨v, g, h1, h2, h3⟩ := hrest visited groups hg
        exact ⟨v, g, h1, h2, by simp only [Sel.weightL]; omega⟩
      · cases sel with
        | spread name dirs => simp [Sel.noSpread] at hns
        | field a nm args dirs sub =>
          simp only
          have hf : FieldOk d (.field a nm args dirs sub) := ⟨rfl, hns.1, by omega⟩
          obtain ⟨v, g, h1, h2, h3⟩ := hrest visited _ (pushGroup_ok d groups _ _ hg hf)
          refine ⟨v, g, h1, h2, ?_⟩
          rw [pushGroup_weight] at h3
          simp only [Sel.weightL]
          omega
        | inline cond dirs sub =>
          simp only
          simp only [Sel.weight] at hw
          simp only [Sel.noSpread] at hns
          simp only [Sel.depth] at hd
          have key : ∀ b : Bool, ∃ v g,
              (if (!b) = true then collectFields env objTy n rest visited groups
               else
                 match collectFields env objTy n sub visited groups with
                 | none => none
                 | some (visited, groups) => collectFields env objTy n rest visited groups) = some (v, g) ∧
              GroupsOk d g ∧ groupsWeight g ≤ groupsWeight groups + Sel.weightL (Sel.inline cond dirs sub :: rest) := by
            intro b
            cases b with
            | false =>
              simp only [Bool.not_false, if_true]
              obtain ⟨v, g, h1, h2, h3⟩ := hrest visited groups hg
              exact ⟨v, g, h1, h2, by simp only [Sel.weightL]; omega⟩
            | true =>
              simp only [Bool.not_true, Bool.false_eq_true, if_false]
              obtain ⟨v1, g1, e1, ok1, w1⟩ := ih sub visited groups (by omega) hns.1 (by omega) hg
              rw [e1]
              obtain ⟨v, g, h1, h2, h3⟩ := hrest v1 g1 ok1
              refine ⟨v, g, h1, h2, ?_⟩
              simp only [Sel.weightL, Sel.weight]
              omega
          cases cond with
          | none => exact key true
          | some c => exact key (fragmentApplies env.schema objTy c)

/-- every field definition `type_field` can return has a type of list depth ≤ T -/
def TypeDepthBound (s : Schema) (T : Nat) : Prop :=
  ∀ objTy fname fdef, s.typeField? objTy fname = some fdef → fdef.ty.depth ≤ T

theorem tryNullify_fuel {ty : Ty} {r : Out} (h : tryNullify ty r = .error .fuel) : r = .error .fuel := by
  cases r with
  | ok v => cases h
  | error e =>
    cases e with
    | fuel => rfl
    | propagate => cases hn : ty.isNonNull <;> simp [tryNullify, hn] at h

theorem completeItems_nofuel (rec : Rec) (path : Path) (ty inner : Ty) (fields : List Sel)
    (hrec : ∀ p rv st, (rec p inner rv fields st).1 ≠ .error .fuel) :
    ∀ items i acc st, (completeItems rec path ty inner fields items i acc st).1 ≠ .error .fuel := by
  intro items
  induction items with
  | nil => intro i acc st h; simp [completeItems] at h
  | cons item rest ih =>
    intro i acc st
    by_cases he : item = RV.error
    · subst he
      simp [completeItems]
    · have hM : completeItems rec path ty inner fields (item :: rest) i acc st =
          (match rec (path ++ [.idx i]) inner item fields st with
          | (r, st1) =>
            match tryNullify inner r with
            | .ok none => completeItems rec path ty inner fields rest (i + 1) acc st1
            | .ok (some v) => completeItems rec path ty inner fields rest (i + 1) (acc ++ [v]) st1
            | .error .propagate => (tryNullify ty (.error .propagate), st1)
            | .error .fuel => (.error .fuel, st1)) := by
        cases item <;> first | rfl | exact absurd rfl he
      rw [hM]
      have hr := hrec (path ++ [.idx i]) item st
      generalize rec (path ++ [.idx i]) inner item fields st = res at *
      obtain ⟨r, st1⟩ := res
      simp only
      rcases tryNullify_cases inner r with ⟨j, _, e⟩ | ⟨_, _, e⟩ | ⟨_, _, e⟩ | ⟨hf, _⟩
      · rw [e]
        cases j with
        | none => exact ih (i + 1) acc st1
        | some v => exact ih (i + 1) (acc ++ [v]) st1
      · rw [e]
        simp only
        intro h
        have := tryNullify_fuel h
        cases this
      · rw [e]
        exact ih (i + 1) (acc ++ [.null]) st1
      · exact absurd hf hr

theorem execField_nofuel (rec : Rec) (env : Env) (path : Path) (objTy : String) (objId : Nat) (fdef : FieldDef)
    (fields : List Sel) (st : St) (hrec : ∀ rv st, (rec path fdef.ty rv fields st).1 ≠ .error .fuel) :
    (execField rec env path objTy objId fdef fields st).1 ≠ .error .fuel := by
  unfold execField
  split
  · simp
  · next f0 tl =>
    split
    · split <;> simp
    · simp only
      split
      · intro h
        have h' : tryNullify fdef.ty (.error .propagate) = .error .fuel := h
        have := tryNullify_fuel h'
        cases this
      · next rv _ =>
        have := hrec rv st
        generalize rec path fdef.ty rv (f0 :: tl) st = res at *
        obtain ⟨r, st1⟩ := res
        intro h
        exact this (tryNullify_fuel h)

theorem execGroups_nofuel (rec : Rec) (env : Env) (path : Path) (objTy : String) (objId : Nat) :
    ∀ groups acc st,
      (∀ kv, kv ∈ groups → ∀ fdef p rv st, (rec p fdef.ty rv kv.2 st).1 ≠ .error .fuel ∨
        ∀ f0 tl, kv.2 = f0 :: tl → env.schema.typeField? objTy f0.fname ≠ some fdef) →
      (execGroups rec env path objTy objId groups acc st).1 ≠ .error .fuel := by
  intro groups
  induction groups with
  | nil => intro acc st _ h; simp [execGroups] at h
  | cons g rest ih =>
    intro acc st hg
    obtain ⟨key, fields⟩ := g
    have hrest : ∀ acc st, (execGroups rec env path objTy objId rest acc st).1 ≠ .error .fuel :=
      fun acc st => ih acc st (fun kv hkv => hg kv (by simp [hkv]))
    simp only [execGroups]
    split
    · exact hrest acc st
    · next f0 tl =>
      split
      · exact hrest acc st
      · next fdef htf =>
        have hf := execField_nofuel rec env (path ++ [.key key]) objTy objId fdef (f0 :: tl) st (by
          intro rv st'
          rcases hg (key, f0 :: tl) (by simp) fdef (path ++ [.key key]) rv st' with h | h
          · exact h
          · exact absurd htf (h f0 tl rfl))
        generalize execField rec env (path ++ [.key key]) objTy objId fdef (f0 :: tl) st = res at *
        obtain ⟨r, st1⟩ := res
        cases r with
        | error e =>
          simp only
          intro h
          cases h
          exact hf rfl
        | ok o =>
          cases o with
          | none => exact hrest acc st1
          | some v => exact hrest _ st1

theorem shape_list_depth' {ty inner : Ty} (h : ty.shape = .list inner) : ty.depth = inner.depth + 1 := by
  cases ty <;> simp [Ty.shape] at h <;> subst h <;> simp [Ty.depth]

theorem subSelections_props (d : Nat) : ∀ fields : List Sel, (∀ f, f ∈ fields → FieldOk (d + 1) f) →
    Sel.noSpreadL (subSelections fields) = true ∧ Sel.depthL (subSelections fields) ≤ d ∧
    Sel.weightL (subSelections fields) ≤ Sel.weightL fields := by
  intro fields
  induction fields with
  | nil => intro _; simp [subSelections, Sel.noSpreadL, Sel.depthL, Sel.weightL]
  | cons f rest ih =>
    intro h
    obtain ⟨i1, i2, i3⟩ := ih (fun x hx => h x (by simp [hx]))
    obtain ⟨hf, hn, hd⟩ := h f (by simp)
    cases f with
    | spread n dd => simp [Sel.isField] at hf
    | inline c dd sub => simp [Sel.isField] at hf
    | field a nm args dd sub =>
      simp only [subSelections, Sel.fsub]
      simp only [Sel.noSpread] at hn
      simp only [Sel.depth] at hd
      have app_ns : ∀ (xs ys : List Sel), Sel.noSpreadL xs = true → Sel.noSpreadL ys = true → Sel.noSpreadL (xs ++ ys) = true := by
        intro xs
        induction xs with
        | nil => intro ys _ h; simpa using h
        | cons x xs ihx =>
          intro ys hx hy
          simp only [Sel.noSpreadL, Bool.and_eq_true] at hx
          simp [Sel.noSpreadL, hx.1, ihx ys hx.2 hy]
      have app_d : ∀ (xs ys : List Sel), Sel.depthL (xs ++ ys) = max (Sel.depthL xs) (Sel.depthL ys) := by
        intro xs
        induction xs with
        | nil => intro ys; simp [Sel.depthL]
        | cons x xs ihx => intro ys; simp [Sel.depthL, ihx ys, Nat.max_assoc]
      refine ⟨app_ns _ _ hn i1, ?_, ?_⟩
      · rw [app_d]; omega
      · rw [weightL_append]
        simp only [Sel.weightL, Sel.weight]
        omega

/-- `complete_value` never runs out of fuel when the fuel exceeds (selection depth) × (T + 1) + (type depth) -/
theorem completeValue_nofuel (env : Env) (T B : Nat) (hT : TypeDepthBound env.schema T) (hB : B < env.cfuel) :
    ∀ n d path ty rv fields st, (∀ f, f ∈ fields → FieldOk d f) → Sel.weightL fields ≤ B →
      d * (T + 1) + ty.depth < n → (completeValue env n path ty rv fields st).1 ≠ .error .fuel := by
  intro n
  induction n with
  | zero => intro d path ty rv fields st _ _ h; omega
  | succ n ih =>
    intro d path ty rv fields st hf hw hlt
    cases rv with
    | skip => simp [completeValue]
    | error => simp [completeValue]
    | echo => simp [completeValue]
    | leaf j =>
      cases j <;> simp only [completeValue] <;> (repeat' split) <;> simp_all [completeLeaf] <;> (repeat' split) <;> simp_all
    | list items =>
      simp only [completeValue, completeList]
      split
      · simp
      · next inner hsh =>
        have hd := shape_list_depth' hsh
        exact completeItems_nofuel _ path ty inner fields
          (fun p rv st => ih d p inner rv fields st hf hw (by omega)) items 0 [] st
    | object resolvedTy id =>
      simp only [completeValue]
      split
      · simp
      · next tyName _ =>
        split
        · simp
        · simp
        · next k _ _ =>
            split
            · -- the object arm: collect the merged sub-selections, run the groups one level down
              cases d with
              | zero =>
                -- no field has depth 0: `fields` is empty, so are the sub-selections
                have hnil : fields = [] := by
                  cases fields with
                  | nil => rfl
                  | cons f tl =>
                    obtain ⟨h1, _, h3⟩ := hf f (by simp)
                    cases f <;> simp [Sel.isField, Sel.depth] at h1 h3
                subst hnil
                have hc : ∃ v g, collectFields env resolvedTy env.cfuel (subSelections []) [] [] = some (v, g) ∧ g = [] := by
                  cases hcf : env.cfuel with
                  | zero => omega
                  | succ m => exact ⟨[], [], by simp [subSelections, collectFields], rfl⟩
                obtain ⟨v, g, e, rfl⟩ := hc
                simp [execSelSet, e, execGroups]
              | succ d' =>
                obtain ⟨s1, s2, s3⟩ := subSelections_props d' fields hf
                obtain ⟨v, g, e, gok, gw⟩ := collect_ok env resolvedTy d' env.cfuel (subSelections fields) [] []
                  (by omega) s1 s2 (by intro kv h; simp at h)
                have hgr := execGroups_nofuel (completeValue env n) env path resolvedTy id g [] st (by
                  intro kv hkv fdef p rv st'
                  by_cases htf : ∃ f0 tl, kv.2 = f0 :: tl ∧ env.schema.typeField? resolvedTy f0.fname = some fdef
                  · obtain ⟨f0, tl, _, htf⟩ := htf
                    left
                    refine ih d' p fdef.ty rv kv.2 st' (gok kv hkv) ?_ ?_
                    · have := group_weight_le g kv hkv
                      simp only [groupsWeight] at gw
                      omega
                    · have := hT resolvedTy f0.fname fdef htf
                      have hmul : (d' + 1) * (T + 1) = d' * (T + 1) + (T + 1) := Nat.succ_mul d' (T + 1)
                      rw [hmul] at hlt
                      generalize d' * (T + 1) = A at *
                      omega
                  · right
                    intro f0 tl hkv2 h
                    exact htf ⟨f0, tl, hkv2, h⟩)
                simp only [execSelSet, e]
                generalize execGroups (completeValue env n) env path resolvedTy id g [] st = res at *
                obtain ⟨r, st1⟩ := res
                cases r with
                | ok m => simp
                | error e' =>
                  simp only
                  intro h
                  cases h
                  exact hgr rfl
            · simp


def maxFieldDepth : List FieldDef → Nat
  | [] => 0
  | f :: rest => max f.ty.depth (maxFieldDepth rest)

def maxObjDepth : AList ObjectDef → Nat
  | [] => 0
  | (_, d) :: rest => max (maxFieldDepth d.fields) (maxObjDepth rest)

theorem maxFieldDepth_mem : ∀ (fs : List FieldDef) (f : FieldDef), f ∈ fs → f.ty.depth ≤ maxFieldDepth fs := by
  intro fs
  induction fs with
  | nil => intro f h; simp at h
  | cons x xs ih =>
    intro f h
    simp only [List.mem_cons] at h
    simp only [maxFieldDepth]
    rcases h with rfl | h
    · omega
    · have := ih f h; omega

theorem maxObjDepth_get : ∀ (objs : AList ObjectDef) (n : String) (d : ObjectDef), AList.get? objs n = some d →
    maxFieldDepth d.fields ≤ maxObjDepth objs := by
  intro objs
  induction objs with
  | nil => intro n d h; simp [AList.get?] at h
  | cons hd tl ih =>
    intro n d h
    obtain ⟨k, od⟩ := hd
    simp only [AList.get?] at h
    simp only [maxObjDepth]
    split at h
    · cases h; omega
    · have := ih n d h; omega

/-- the bound `T` can be read off the schema -/
theorem typeDepthBound_schema (s : Schema) : TypeDepthBound s (maxObjDepth s.objects) := by
  intro objTy fname fdef h
  unfold Schema.typeField? at h
  split at h
  · cases h; simp [typenameField, Ty.depth]
  · cases hg : AList.get? s.objects objTy with
    | none => simp [hg] at h
    | some d =>
      simp only [hg] at h
      have hm := List.mem_of_find?_eq_some h
      exact Nat.le_trans (maxFieldDepth_mem d.fields fdef hm) (maxObjDepth_get s.objects objTy d hg)

/-- Fuel sufficiency for operations without fragment spreads: with more `collect_fields` fuel than
    selection nodes and more `complete_value` fuel than (selection depth + 1) × (deepest field type + 1),
    execution never runs out of fuel — whatever the world returns (cyclic object graphs included). -/
theorem execute_fuel_sufficient (env : Env) (sels : List Sel) (fuel : Nat)
    (hns : Sel.noSpreadL sels = true) (hc : Sel.weightL sels < env.cfuel)
    (hfuel : (Sel.depthL sels + 1) * (maxObjDepth env.schema.objects + 1) < fuel) :
    execute fuel env sels ≠ .outOfFuel := by
  have hT := typeDepthBound_schema env.schema
  obtain ⟨v, g, e, gok, gw⟩ := collect_ok env env.schema.query (Sel.depthL sels) env.cfuel sels [] [] hc hns (Nat.le_refl _)
    (by intro kv h; simp at h)
  have hgr := execGroups_nofuel (completeValue env fuel) env [] env.schema.query 0 g [] { errors := [] } (by
    intro kv hkv fdef p rv st'
    by_cases htf : ∃ f0 tl, kv.2 = f0 :: tl ∧ env.schema.typeField? env.schema.query f0.fname = some fdef
    · obtain ⟨f0, tl, _, htf⟩ := htf
      left
      refine completeValue_nofuel env _ (Sel.weightL sels) hT hc fuel (Sel.depthL sels) p fdef.ty rv kv.2 st' (gok kv hkv) ?_ ?_
      · have := group_weight_le g kv hkv
        simp only [groupsWeight] at gw
        omega
      · have := hT env.schema.query f0.fname fdef htf
        have hmul : (Sel.depthL sels + 1) * (maxObjDepth env.schema.objects + 1) =
            Sel.depthL sels * (maxObjDepth env.schema.objects + 1) + (maxObjDepth env.schema.objects + 1) := Nat.succ_mul _ _
        rw [hmul] at hfuel
        generalize Sel.depthL sels * (maxObjDepth env.schema.objects + 1) = A at *
        omega
    · right
      intro f0 tl hkv2 h
      exact htf ⟨f0, tl, hkv2, h⟩)
  unfold execute
  simp only [execSelSet, e]
  generalize execGroups (completeValue env fuel) env [] env.schema.query 0 g [] { errors := [] } = res at *
  obtain ⟨r, st1⟩ := res
  cases r with
  | ok m => simp
  | error e' =>
    cases e' with
    | propagate => simp
    | fuel => exact absurd rfl hgr


end Apollo.Exec
