import ApolloModel.Proofs.ParserType5
import ApolloModel.Proofs.ParserTermination2
/-
C07 / C05 growth (type entry point), part 6: `parse_type` always yields a tree (no panic: C01
`parse_no_panic`; no abort: `parse_type_terminates`), so acceptance needs no hypothesis about the outcome.
-/
set_option linter.unusedSimpArgs false
namespace Apollo.Parse
open Apollo.Rowan hiding Str
open Apollo.Lex hiding Str

theorem parseType_tree (tl : Option Nat) (rl : Nat) (src : Str) : ∃ root, (parse .type tl rl src).outcome = .tree root := by
  cases h : (parse .type tl rl src).outcome with
  | tree root => exact ⟨root, rfl⟩
  | panic m => exact absurd h (parse_no_panic .type tl rl src m)
  | abort w => exact absurd h (parse_type_terminates tl rl src w)

theorem parseType_sound' (rl : Nat) (src : Str) (herr : (parse .type none rl src).errors = []) :
    LexClean src ∧ ∃ t ts e, sig (srcToks src) = ts ++ [e] ∧ e.kind = .eof ∧ IsTy ts t := by
  obtain ⟨root, h⟩ := parseType_tree none rl src
  exact parseType_sound rl src root h herr

end Apollo.Parse
