import ApolloModel.Proofs.ParserRecursion30
/-
C04 growth (closed form of the nesting depth), part 31: the entry points.  For every source text whose parse
reports no error and does not hit the recursion limit, the recursion tracker's high-water mark IS the nesting
depth `gd` of the syntax tree that is returned — for `Parser::parse`, `parse_selection_set` and `parse_type`.
-/
set_option linter.unusedSimpArgs false
set_option linter.unusedVariables false
namespace Apollo.Parse
open Apollo.Rowan hiding Str
open Apollo.Lex hiding Str

/-! ### computations that put nothing into the tree -/

structure KS {α : Type} (m : PI α) : Prop where
  k : ∀ s a s', m.run s = .ok a s' → s'.builder.children = s.builder.children

theorem ks_pure {α : Type} (a : α) : KS (pure a : PI α) :=
  ⟨fun s a' s' h => by rw [run_pure] at h; injection h with _ h; subst h; rfl⟩

theorem ks_bind {α β : Type} (m : PI α) (f : α → PI β) (hm : KS m) (hf : ∀ a, KS (f a)) : KS (m >>= f) := by
  constructor
  intro s b s'' h
  obtain ⟨a, s', h1, h2⟩ := bind_dec m f s s'' b h
  exact ((hf a).k s' b s'' h2).trans (hm.k s a s' h1)

theorem ks_ite {α : Type} (c : Bool) (a b : PI α) (ha : KS a) (hb : KS b) : KS (if c then a else b) := by
  cases c <;> simp [ha, hb]

theorem ks_peekToken : KS peekToken := ⟨fun s a s' h => (peekToken_kids s s' a h).1⟩

theorem ks_moveCurToPending : KS moveCurToPending := by
  constructor
  intro s b s' h
  unfold moveCurToPending at h
  simp only [] at h
  cases hc : s.current with
  | none => simp only [hc] at h; injection h with _ h; subst h; rfl
  | some t => simp only [hc] at h; split at h <;> (injection h with _ h; subst h; rfl)

theorem ks_srcLen : KS srcLen :=
  ⟨fun s a s' h => by unfold srcLen at h; simp only [] at h; injection h with _ h; subst h; rfl⟩

theorem ks_pushErr (e : PErr) : KS (pushErr e) :=
  ⟨fun s a s' h => by unfold pushErr errUpdate at h; simp only [] at h; injection h with _ h; subst h; rfl⟩

theorem ks_skipIgnoredLoop : ∀ fuel, KS (skipIgnoredLoop fuel)
  | 0 => ⟨fun s a s' h => by simp [skipIgnoredLoop, PI.outOfFuel] at h⟩
  | fuel + 1 => by
    unfold skipIgnoredLoop
    exact ks_bind _ _ ks_peekToken (fun _ => ks_bind _ _ ks_moveCurToPending
      (fun b => ks_ite b _ _ (ks_skipIgnoredLoop fuel) (ks_pure _)))

theorem ks_skipIgnored : KS skipIgnored := by
  unfold skipIgnored
  exact ks_bind _ _ ks_srcLen (fun n => ks_skipIgnoredLoop (n + 3))

theorem ks_peek : KS peek := by
  unfold peek
  exact ks_bind _ _ ks_peekToken (fun _ => ks_pure _)

theorem ks_err : KS err := by
  unfold err
  refine ks_bind _ _ ks_peekToken (fun o => ?_)
  cases o with
  | none => exact ks_pure _
  | some t => exact ks_pushErr _

theorem ks_expectEndOfInput : KS expectEndOfInput := by
  unfold expectEndOfInput errUnlessEnd
  exact ks_bind _ _ ks_skipIgnored (fun _ => ks_bind _ _ ks_peek (fun k => ks_ite _ _ _ (ks_pure _) ks_err))

/-! ### the root that `finish_standalone` returns -/

theorem finishStandalone_gd (b : Builder) (k : SK) (expected : List SK) (hk : PlainKind k) (hp : b.parents = [(k, 0)]) (e : Elem)
    (h : finishStandalone b expected = some e) : gd e = gdl b.children := by
  simp only [finishStandalone, Builder.finishNode, hp, List.take_zero, List.nil_append, List.drop_zero, Builder.finish] at h
  cases hc : b.children with
  | nil => rw [hc] at h; injection h with h; subst h; rw [gd_plain hk]
  | cons c cs =>
    rw [hc] at h
    cases c with
    | tok k' t => injection h with h; subst h; rw [gd_plain hk]
    | node k' cs' =>
      cases cs with
      | nil =>
        simp only [] at h
        split at h
        · injection h with h; subst h; rw [gdl_single]
        · injection h with h; subst h; rw [gd_plain hk]
      | cons c2 cs2 => injection h with h; subst h; rw [gd_plain hk]

theorem finishStandalone_single (b : Builder) (k : SK) (cs : List Elem) (hp : b.parents = [(k, 0)])
    (hc : b.children = [Elem.node k cs]) : finishStandalone b [k] = some (Elem.node k cs) := by
  simp [finishStandalone, Builder.finishNode, hp, Builder.finish, hc]

/-! ### `Parser::parse` -/

theorem entryStartT_fields (e : Entry) (src : Str) (R : Nat) :
    (entryStartT e src none R).errors = [] ∧ (entryStartT e src none R).acceptErrors = true ∧
    (entryStartT e src none R).recLimit = R ∧ (entryStartT e src none R).recCur = 0 ∧ (entryStartT e src none R).recHigh = 0 ∧
    (entryStartT e src none R).builder.children = [] ∧ (entryStartT e src none R).pending = [] ∧
    (entryStartT e src none R).current = none := by
  cases e <;> exact ⟨rfl, rfl, rfl, rfl, rfl, rfl, rfl, rfl⟩

/-- the end state of an error-free parse whose limit was not hit: the high-water mark is the depth of the
    builder's children -/
theorem parse_end_depth (e : Entry) (R : Nat) (src : Str) (s : PState)
    (hr : (e.grammar (fuelFor src)).run (entryStartT e src none R) = .ok () s) (herr : s.errors = []) (hfree : s.recHigh ≤ R) :
    s.recHigh = gdl s.builder.children := by
  obtain ⟨f1, f2, f3, f4, f5, f6, _, _⟩ := entryStartT_fields e src R
  have hg : GD (e.grammar (fuelFor src)) := by
    cases e with
    | document => exact gd_document _
    | selectionSet => exact gd_bind _ _ (gd_fieldSet _) (fun _ => gd_expectEndOfInput)
    | type => exact gd_bind _ _ (gd_ty _) (fun _ => gd_expectEndOfInput)
  obtain ⟨ex, ad, w, x⟩ := hg.g _ () s (entryStartT_inv e src none R) hr
  have hex : ex = [] := by
    have := w.errs
    rw [f1, herr] at this
    simpa using this.symm
  have r := x hex f2 (by rw [f3]; exact hfree) (by rw [f4]; exact Nat.zero_le _)
  rw [r, w.kids, f5, f4, f6]
  simp

theorem parse_document_depth (R : Nat) (src : Str) (herr : (parse .document none R src).errors = [])
    (hfree : (parse .document none R src).recHigh ≤ R) :
    ∃ root, (parse .document none R src).outcome = .tree root ∧ (parse .document none R src).recHigh = gd root := by
  obtain ⟨s, hr, h1, h2, _, _⟩ := parse_run .document none R src
  rw [h1] at herr
  rw [h2] at hfree ⊢
  have hd := parse_end_depth .document R src s hr herr hfree
  have hinv := entryStartT_inv .document src none R
  obtain ⟨cs, _, hc, _⟩ := withNode_result "DOCUMENT" (documentBody (fuelFor src)) _ hinv () s hr
  have hch : s.builder.children = [Elem.node "DOCUMENT" cs] := by
    simpa [entryStartT, Entry.standalone, initState, Builder.new] using hc
  refine ⟨Elem.node "DOCUMENT" cs, ?_, by rw [hd, hch, gdl_single]⟩
  unfold parse runEntry
  simp only [Entry.standalone]
  have e0 : initState src none R = entryStartT .document src none R := rfl
  rw [e0, hr]
  simp only [finish_single s.builder _ _ hch]

theorem parse_type_depth (R : Nat) (src : Str) (herr : (parse .type none R src).errors = [])
    (hfree : (parse .type none R src).recHigh ≤ R) :
    ∃ root, (parse .type none R src).outcome = .tree root ∧ (parse .type none R src).recHigh = gd root := by
  obtain ⟨s, hr, h1, h2, _, _⟩ := parse_run .type none R src
  rw [h1] at herr
  rw [h2] at hfree ⊢
  have hd := parse_end_depth .type R src s hr herr hfree
  have hinv := entryStartT_inv .type src none R
  obtain ⟨_, fr⟩ := post_of_run _ _ hinv () s hr
  have hp : s.builder.parents = [("NAMED_TYPE", 0)] := by rw [fr.parents]; rfl
  obtain ⟨root, hroot⟩ := finishStandalone_some s.builder _ ["NAMED_TYPE", "LIST_TYPE", "NON_NULL_TYPE"] hp
  refine ⟨root, ?_, by rw [hd, finishStandalone_gd _ _ _ (by decide) hp _ hroot]⟩
  unfold parse runEntry
  simp only [Entry.standalone]
  have e0 : ({ initState src none R with builder := (initState src none R).builder.startNode "NAMED_TYPE" } : PState) =
      entryStartT .type src none R := rfl
  rw [e0, hr]
  simp only [hroot]

/-! ### `Parser::parse_selection_set` -/

/-- `field_set` on a fresh builder, recording no error: exactly one `SELECTION_SET` node -/
theorem fieldSet_shape (n : Nat) (s0 s1 : PState) (hi : Inv s0) (hk : s0.builder.children = []) (hp : s0.pending = [])
    (h : (fieldSet n).run s0 = .ok () s1) (herr : s1.errors = s0.errors) :
    ∃ cs, s1.builder.children = [Elem.node "SELECTION_SET" cs] := by
  unfold fieldSet at h
  obtain ⟨k, sa, h1, h2⟩ := bind_dec peek _ s0 s1 () h
  obtain ⟨hia, _⟩ := post_of_run peek s0 hi k sa h1
  obtain ⟨e0, _, w0, _⟩ := gd_peek.g s0 k sa hi h1
  have hka : sa.builder.children = [] := by rw [ks_peek.k s0 k sa h1]; exact hk
  -- the second part only appends errors, so `peek` recorded none
  have hrest : ∃ e1, s1.errors = sa.errors ++ e1 := by
    obtain ⟨_, fr⟩ := post_of_run (peek >>= fun k => if k == some Kind.lCurly then selectionSet n
      else withNode "SELECTION_SET" (withRec limitErr (selection n))) s0 hi () s1 h
    have h1' : GD (if k == some Kind.lCurly then selectionSet n else withNode "SELECTION_SET" (withRec limitErr (selection n))) :=
      gd_ite _ _ _ (gd_selectionSet n)
        (gd_withNode_guard _ _ (Or.inl rfl) gd_skipIgnored (gd1_withRec _ _ gw_limitErr (gd_selection n)))
    obtain ⟨e1, _, w1, _⟩ := h1'.g sa () s1 hia h2
    exact ⟨e1, w1.errs⟩
  obtain ⟨e1, he1⟩ := hrest
  have he0 : sa.errors = s0.errors := by
    have := w0.errs
    rw [he1, this, List.append_assoc] at herr
    have h0 : e0 ++ e1 = [] := List.self_eq_append_right.mp herr.symm
    rw [(List.append_eq_nil_iff.mp h0).1, List.append_nil] at this
    exact this
  have hpa : sa.pending = [] := by
    obtain ⟨o, sx, hpt, hpk⟩ := peek_run s0
    rw [hpk] at h1
    injection h1 with _ h1
    subst h1
    rw [peekToken_pending s0 sx o hpt he0]; exact hp
  have fin : ∀ (body : PI Unit), (withNode "SELECTION_SET" body).run sa = .ok () s1 →
      ∃ cs, s1.builder.children = [Elem.node "SELECTION_SET" cs] := by
    intro body hr
    obtain ⟨s2, cs, b, _, _, _, rfl, hbc⟩ := withNode_added _ body sa s1 () hia hr
    exact ⟨cs, by show b.children = _; rw [hbc, hka, hpa]; rfl⟩
  by_cases hkc : (k == some Kind.lCurly) = true
  · simp only [hkc, if_true] at h2
    have hks : k = some Kind.lCurly := by simpa using hkc
    subst hks
    obtain ⟨t, hct, hkt⟩ := peek_some_cur s0 sa _ h1
    cases n with
    | zero => simp [selectionSet, PI.outOfFuel] at h2
    | succ m =>
      rw [selectionSet_succ, run_bind, peek_cur sa t hct] at h2
      simp only [hkt, beq_self_eq_true, if_true] at h2
      exact fin _ h2
  · simp only [hkc, Bool.false_eq_true, if_false] at h2
    exact fin _ h2

theorem parse_selection_set_depth (R : Nat) (src : Str) (herr : (parse .selectionSet none R src).errors = [])
    (hfree : (parse .selectionSet none R src).recHigh ≤ R) :
    ∃ root, (parse .selectionSet none R src).outcome = .tree root ∧ (parse .selectionSet none R src).recHigh = gd root := by
  obtain ⟨s, hr, h1, h2, _, _⟩ := parse_run .selectionSet none R src
  rw [h1] at herr
  rw [h2] at hfree ⊢
  have hd := parse_end_depth .selectionSet R src s hr herr hfree
  have hinv := entryStartT_inv .selectionSet src none R
  obtain ⟨f1, _, _, _, _, f6, f7, _⟩ := entryStartT_fields .selectionSet src R
  obtain ⟨_, fr⟩ := post_of_run _ _ hinv () s hr
  have hp : s.builder.parents = [("SELECTION_SET", 0)] := by rw [fr.parents]; rfl
  -- the shape of the children
  have hr' : (fieldSet (fuelFor src) >>= fun _ => expectEndOfInput).run (entryStartT .selectionSet src none R) = .ok () s := hr
  obtain ⟨u, s1, hf1, hf2⟩ := bind_dec (fieldSet (fuelFor src)) _ _ s () hr'
  obtain ⟨hi1, _⟩ := post_of_run _ _ hinv u s1 hf1
  obtain ⟨ea, _, wa, _⟩ := (gd_fieldSet (fuelFor src)).g _ u s1 hinv hf1
  obtain ⟨eb, _, wb, _⟩ := gd_expectEndOfInput.g s1 () s hi1 hf2
  have hes : s1.errors = (entryStartT .selectionSet src none R).errors := by
    have := wb.errs
    rw [herr, wa.errs, f1] at this
    have h0 : ea ++ eb = [] := by simpa using this.symm
    rw [wa.errs, (List.append_eq_nil_iff.mp h0).1, List.append_nil]
  obtain ⟨cs, hcs⟩ := fieldSet_shape (fuelFor src) _ s1 hinv f6 f7 hf1 hes
  have hch : s.builder.children = [Elem.node "SELECTION_SET" cs] := by
    rw [ks_expectEndOfInput.k s1 () s hf2]; exact hcs
  refine ⟨Elem.node "SELECTION_SET" cs, ?_, by rw [hd, hch, gdl_single]⟩
  unfold parse runEntry
  simp only [Entry.standalone]
  have e0 : ({ initState src none R with builder := (initState src none R).builder.startNode "SELECTION_SET" } : PState) =
      entryStartT .selectionSet src none R := rfl
  rw [e0, hr]
  simp only [finishStandalone_single s.builder _ cs hp hch]

/-- **The closed form, every entry point**: for a source text that parses without error under a recursion limit
    that is not hit, the tracker's high-water mark is the nesting depth `gd` of the returned syntax tree. -/
theorem parse_depth (e : Entry) (R : Nat) (src : Str) (herr : (parse e none R src).errors = [])
    (hfree : (parse e none R src).recHigh ≤ R) :
    ∃ root, (parse e none R src).outcome = .tree root ∧ (parse e none R src).recHigh = gd root := by
  cases e with
  | document => exact parse_document_depth R src herr hfree
  | selectionSet => exact parse_selection_set_depth R src herr hfree
  | type => exact parse_type_depth R src herr hfree

end Apollo.Parse
