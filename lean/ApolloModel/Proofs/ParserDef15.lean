import ApolloModel.Proofs.ParserDef14
/-
C05 growth (type-system definitions), part 15: the seven type-system extensions. Every extension starts with
two unconditional `bump`s; the precondition `Ext2` is what the dispatcher established by look-ahead: the
current token reads `extend` and the next significant token reads the kind keyword.
-/
set_option linter.unusedSimpArgs false
namespace Apollo.Parse
open Apollo.Rowan hiding Str
open Apollo.Lex hiding Str

/-- the queue starts with a token reading `w1`, and the next significant token reads `w2` -/
def Ext2 (w1 w2 : String) (q : List Tok) : Prop :=
  ∃ t1 rest t2, q = t1 :: rest ∧ t1.data = w1.toList ∧ (sig rest).head? = some t2 ∧ t2.data = w2.toList

theorem accL_bump2 {α : Type} (w1 w2 : String) (hw1 : KwWord w1) (hw2 : KwWord w2) (sk1 sk2 : SK) (rest : PI α)
    (R : α → List Ast.Tok → Prop) (hr : Acc E0 LexQ rest R) :
    Acc E0 (fun q => LexQ q ∧ Ext2 w1 w2 q) (bump sk1 >>= fun _ => bump sk2 >>= fun _ => rest)
      (fun a x => ∃ x2, x = .name w1.toList :: .name w2.toList :: x2 ∧ R a x2) := by
  have h2 := accL_bind early_false (fun _ h => h.1) (accL_bumpKw (E := E0) w2 hw2 sk2) (fun _ => hr)
  refine ⟨good_bind _ _ (good_bump sk1) (fun _ => h2.1), ?_⟩
  intro s a s' w he ⟨hl, t1, rest0, t2, hq, hd1, hh2, hd2⟩ hrun hnd
  obtain ⟨_, s1, hr1, hr'⟩ := bind_dec (bump sk1) _ s s' a hrun
  obtain ⟨ign1, e1, hall1, set1⟩ := bump_spec sk1 s s1 w t1 rest0 hq hr1
  obtain ⟨c, r, hc1, hc2⟩ := hw1
  have hk1 : t1.kind = .name := hl.headKw (by rw [hq]; rfl) w1 c r hc1 hc2 hd1
  have hni1 : isIgnoredKind t1.kind = false := by rw [hk1]; rfl
  have hne1 : t1.kind ≠ .eof := by rw [hk1]; decide
  have hrest : rest0 = ign1 ++ Toks s1 := by
    have := e1.toks; rw [hq] at this; simpa using this
  have hl1 : LexQ (Toks s1) := by
    have := hl; rw [e1.toks] at this; exact this.suffix
  have hhead : (Toks s1).head? = some t2 := by
    rw [hrest, sig_append, sig_ignored ign1 hall1] at hh2
    simp only [List.nil_append] at hh2
    cases hq1 : Toks s1 with
    | nil => rw [hq1] at hh2; cases hh2
    | cons a b =>
      have hsa : isIgnoredKind a.kind = false := set1.2 a (by rw [set1.1, hq1]; rfl)
      have hab : a :: b = [a] ++ b := rfl
      rw [hq1, hab, sig_append, sig_single a hsa] at hh2
      simpa using hh2
  have he1 : EofEnd s1 := eofEnd_eat he e1 (noEof_cons hne1 hall1)
  obtain ⟨c2, a1, a2, a3, a4⟩ := h2.2 s1 a s' e1.w he1 ⟨hl1, t2, hhead, hd2⟩ hr' hnd
  refine ⟨(t1 :: ign1) ++ c2, by rw [e1.toks, a1, List.append_assoc], noEof_append (noEof_cons hne1 hall1) a2, a3, ?_⟩
  rcases a4 with ⟨x, hx, _, x1, x2, e, h1, hR⟩ | h4
  · refine Or.inl ⟨.name w1.toList :: x, ?_, x2, by rw [e, h1]; rfl, hR⟩
    rw [sig_append, sig_cons_ignV t1 ign1 hni1 hall1]
    exact (TokIs.single t1 _ (by simp [astOfV, hk1, hd1])).append hx
  · exact absurd h4 id

/-! ### tails -/

/-- `if peek == k { body; meets = true }` … `if !meets { err }` -/
def extBodyK (k0 : Kind) (body : PI Unit) (meets : Bool) : PI Unit := optKind2 k0 body (extEnd true) (extEnd meets)

theorem accL_extBodyK (k0 : Kind) (body : PI Unit) (L : List Ast.Tok → Prop) (hb : Acc E0 (KindP (· == k0)) body (fun _ => L))
    (meets : Bool) : Acc E0 LexQ (extBodyK k0 body meets) (fun _ x => L x ∨ x = []) := by
  refine (accL_optKind2 early_false k0 body _ _ L (fun _ x => x = []) hb (acc_extEnd true) (acc_extEnd meets)).mono (fun _ h => h) ?_
  rintro _ x ⟨x1, x2, e, h1, h2⟩
  rcases h1 with h1 | h1
  · exact Or.inl (by rw [e, h2]; simpa using h1)
  · exact Or.inr (by rw [e, h1, h2]; rfl)

def extDirs (n : Nat) (next : Bool → PI Unit) (meets : Bool) : PI Unit :=
  optKind2 .at (directives n true) (next true) (next meets)

theorem accL_extDirs (n : Nat) (next : Bool → PI Unit) (R : List Ast.Tok → Prop) (hn : ∀ m, Acc E0 LexQ (next m) (fun _ => R))
    (meets : Bool) : Acc E0 LexQ (extDirs n next meets) (fun _ x => ∃ ds x2, x = Ast.tDirectives ds ++ x2 ∧ R x2) := by
  refine (accL_optKind2 early_false .at (directives n true) _ _ _ _ (acc_directives n true) (hn true) (hn meets)).mono (fun _ h => h) ?_
  rintro _ x ⟨x1, x2, e, h1, h2⟩
  rcases h1 with ⟨ds, hd, _⟩ | h1
  · exact ⟨ds, x2, by rw [e, hd], h2⟩
  · exact ⟨[], x2, by rw [e, h1]; rfl, h2⟩

/-! ### scalar -/

def scalarExtTail (n : Nat) : PI Unit :=
  nameOrErr >>= fun _ => peek >>= fun k => if k == some .at then directives n true else err

theorem scalarTypeExtension_eq (n : Nat) : scalarTypeExtension n = withNode "SCALAR_TYPE_EXTENSION"
    (bump "extend_KW" >>= fun _ => bump "scalar_KW" >>= fun _ => scalarExtTail n) := rfl

theorem ext2_sig {w1 w2 : String} (hw1 : KwWord w1) :
    ∀ q, (LexQ q ∧ Ext2 w1 w2 q) → ∃ t rest, q = t :: rest ∧ isIgnoredKind t.kind = false := by
  rintro q ⟨hl, t1, rest0, t2, hq, hd1, _, _⟩
  obtain ⟨c, r, hc1, hc2⟩ := hw1
  have hk1 : t1.kind = .name := hl.headKw (by rw [hq]; rfl) w1 c r hc1 hc2 hd1
  exact ⟨t1, rest0, hq, by rw [hk1]; rfl⟩

theorem accL_scalarTypeExtension (n : Nat) :
    Acc E0 (fun q => LexQ q ∧ Ext2 "extend" "scalar" q) (scalarTypeExtension n)
      (fun _ x => ∃ nm ds, x = .name "extend".toList :: .name "scalar".toList :: .name nm :: Ast.tDirectives ds) := by
  rw [scalarTypeExtension_eq]
  refine acc_withNode early_false _ (ext2_sig kwWord_extend) ?_
  have ht : Acc E0 LexQ (scalarExtTail n) (fun _ x => ∃ nm ds, x = .name nm :: Ast.tDirectives ds) := by
    unfold scalarExtTail
    refine (acc_bind early_false acc_nameOrErr (fun _ => acc_ifKind .at _ _ _ (acc_directives n true) acc_err)).mono (fun _ h => h) ?_
    rintro _ x ⟨_, x1, x2, e, ⟨nm, h1⟩, ds, h2, _⟩
    exact ⟨nm, ds, by rw [e, h1, h2]; rfl⟩
  refine (accL_bump2 "extend" "scalar" kwWord_extend kwWord_scalar _ _ _ _ ht).mono (fun _ h => h) ?_
  rintro _ x ⟨x2, e, nm, ds, h2⟩
  exact ⟨nm, ds, by rw [e, h2]⟩

/-! ### object, interface -/

def objExtTail (n : Nat) : PI Unit :=
  nameOrErr >>= fun _ => optData2 "implements" implementsInterfaces
    (extDirs n (extBodyK .lCurly (fieldsDefinition n)) true) (extDirs n (extBodyK .lCurly (fieldsDefinition n)) false)

theorem objectTypeExtension_eq (n : Nat) : objectTypeExtension n = withNode "OBJECT_TYPE_EXTENSION"
    (bump "extend_KW" >>= fun _ => bump "type_KW" >>= fun _ => objExtTail n) := rfl

theorem interfaceTypeExtension_eq (n : Nat) : interfaceTypeExtension n = withNode "INTERFACE_TYPE_EXTENSION"
    (bump "extend_KW" >>= fun _ => bump "interface_KW" >>= fun _ => objExtTail n) := rfl

theorem accL_objExtTail (n : Nat) :
    Acc E0 LexQ (objExtTail n) (fun _ x => ∃ nm impl ds fs, x = objectLikeToks nm impl ds fs) := by
  unfold objExtTail
  have hd : ∀ m, Acc E0 LexQ (extDirs n (extBodyK .lCurly (fieldsDefinition n)) m)
      (fun _ x => ∃ ds fs, x = Ast.tDirectives ds ++ Ast.tBraced (Ast.tFieldDefItems fs) fs.isEmpty) := by
    intro m
    refine (accL_extDirs n _ _ (fun m' => accL_extBodyK .lCurly _ _ (acc_fieldsDefinition n) m') m).mono (fun _ h => h) ?_
    rintro _ x ⟨ds, x2, e, h2⟩
    rcases h2 with ⟨fs, _, h2⟩ | h2
    · exact ⟨ds, fs, by rw [e, h2]⟩
    · exact ⟨ds, [], by rw [e, h2]; simp [Ast.tBraced]⟩
  refine (accL_bind early_false (fun _ h => h) acc_nameOrErr (fun _ => accL_optImplData _ _ _ (hd true) (hd false))).mono (fun _ h => h) ?_
  rintro _ x ⟨_, x1, x2, e, ⟨nm, h1⟩, impl, x3, e3, ds, fs, h3⟩
  exact ⟨nm, impl, ds, fs, by rw [e, h1, e3, h3]; simp [objectLikeToks]⟩

theorem accL_objectTypeExtension (n : Nat) :
    Acc E0 (fun q => LexQ q ∧ Ext2 "extend" "type" q) (objectTypeExtension n)
      (fun _ x => ∃ nm impl ds fs, x = .name "extend".toList :: .name "type".toList :: objectLikeToks nm impl ds fs) := by
  rw [objectTypeExtension_eq]
  refine acc_withNode early_false _ (ext2_sig kwWord_extend) ?_
  refine (accL_bump2 "extend" "type" kwWord_extend kwWord_type _ _ _ _ (accL_objExtTail n)).mono (fun _ h => h) ?_
  rintro _ x ⟨x2, e, nm, impl, ds, fs, h2⟩
  exact ⟨nm, impl, ds, fs, by rw [e, h2]⟩

theorem accL_interfaceTypeExtension (n : Nat) :
    Acc E0 (fun q => LexQ q ∧ Ext2 "extend" "interface" q) (interfaceTypeExtension n)
      (fun _ x => ∃ nm impl ds fs, x = .name "extend".toList :: .name "interface".toList :: objectLikeToks nm impl ds fs) := by
  rw [interfaceTypeExtension_eq]
  refine acc_withNode early_false _ (ext2_sig kwWord_extend) ?_
  refine (accL_bump2 "extend" "interface" kwWord_extend kwWord_interface _ _ _ _ (accL_objExtTail n)).mono (fun _ h => h) ?_
  rintro _ x ⟨x2, e, nm, impl, ds, fs, h2⟩
  exact ⟨nm, impl, ds, fs, by rw [e, h2]⟩

/-! ### union, enum, input object -/

def nameDirsBodyExt (n : Nat) (k0 : Kind) (body : PI Unit) : PI Unit :=
  nameOrErr >>= fun _ => extDirs n (extBodyK k0 body) false

theorem accL_nameDirsBodyExt (n : Nat) (k0 : Kind) (body : PI Unit) (L : List Ast.Tok → Prop)
    (hb : Acc E0 (KindP (· == k0)) body (fun _ => L)) :
    Acc E0 LexQ (nameDirsBodyExt n k0 body) (fun _ x => ∃ nm ds x2, x = .name nm :: Ast.tDirectives ds ++ x2 ∧ (L x2 ∨ x2 = [])) := by
  unfold nameDirsBodyExt
  refine (accL_bind early_false (fun _ h => h) acc_nameOrErr
    (fun _ => accL_extDirs n _ _ (fun m' => accL_extBodyK k0 _ _ hb m') false)).mono (fun _ h => h) ?_
  rintro _ x ⟨_, x1, x2, e, ⟨nm, h1⟩, ds, x3, e3, h3⟩
  exact ⟨nm, ds, x3, by rw [e, h1, e3]; rfl, h3⟩

theorem unionTypeExtension_eq (n : Nat) : unionTypeExtension n = withNode "UNION_TYPE_EXTENSION"
    (bump "extend_KW" >>= fun _ => bump "union_KW" >>= fun _ => nameDirsBodyExt n .eq unionMemberTypes) := rfl

theorem enumTypeExtension_eq (n : Nat) : enumTypeExtension n = withNode "ENUM_TYPE_EXTENSION"
    (bump "extend_KW" >>= fun _ => bump "enum_KW" >>= fun _ => nameDirsBodyExt n .lCurly (enumValuesDefinition n)) := rfl

theorem inputObjectTypeExtension_eq (n : Nat) : inputObjectTypeExtension n = withNode "INPUT_OBJECT_TYPE_EXTENSION"
    (bump "extend_KW" >>= fun _ => bump "input_KW" >>= fun _ => nameDirsBodyExt n .lCurly (inputFieldsDefinition n)) := rfl

theorem accL_unionTypeExtension (n : Nat) :
    Acc E0 (fun q => LexQ q ∧ Ext2 "extend" "union" q) (unionTypeExtension n)
      (fun _ x => ∃ nm ds ms, x = .name "extend".toList :: .name "union".toList :: .name nm :: Ast.tDirectives ds
        ++ tSepOpt [.p .eq] .pipe ms) := by
  rw [unionTypeExtension_eq]
  refine acc_withNode early_false _ (ext2_sig kwWord_extend) ?_
  refine (accL_bump2 "extend" "union" kwWord_extend kwWord_union _ _ _ _
    (accL_nameDirsBodyExt n .eq _ _ (acc_unionMemberTypes early_false))).mono (fun _ h => h) ?_
  rintro _ x ⟨x2, e, nm, ds, x3, e3, h3⟩
  rcases h3 with ⟨lead, first, rest, h3⟩ | h3
  · exact ⟨nm, ds, some (lead, first, rest), by rw [e, e3, h3]; simp [tSepOpt]⟩
  · exact ⟨nm, ds, none, by rw [e, e3, h3]; simp [tSepOpt]⟩

theorem accL_enumTypeExtension (n : Nat) :
    Acc E0 (fun q => LexQ q ∧ Ext2 "extend" "enum" q) (enumTypeExtension n)
      (fun _ x => ∃ nm ds vs, x = .name "extend".toList :: .name "enum".toList :: Ast.tEnumBody nm ds vs) := by
  rw [enumTypeExtension_eq]
  refine acc_withNode early_false _ (ext2_sig kwWord_extend) ?_
  refine (accL_bump2 "extend" "enum" kwWord_extend kwWord_enum _ _ _ _
    (accL_nameDirsBodyExt n .lCurly _ _ (acc_enumValuesDefinition n))).mono (fun _ h => h) ?_
  rintro _ x ⟨x2, e, nm, ds, x3, e3, h3⟩
  rcases h3 with ⟨vs, _, h3⟩ | h3
  · exact ⟨nm, ds, vs, by rw [e, e3, h3]; simp [Ast.tEnumBody]⟩
  · exact ⟨nm, ds, [], by rw [e, e3, h3]; simp [Ast.tEnumBody, Ast.tBraced, Ast.tEnumValueDefItems]⟩

theorem accL_inputObjectTypeExtension (n : Nat) :
    Acc E0 (fun q => LexQ q ∧ Ext2 "extend" "input" q) (inputObjectTypeExtension n)
      (fun _ x => ∃ nm ds fs, x = .name "extend".toList :: .name "input".toList :: Ast.tInputBody nm ds fs) := by
  rw [inputObjectTypeExtension_eq]
  refine acc_withNode early_false _ (ext2_sig kwWord_extend) ?_
  refine (accL_bump2 "extend" "input" kwWord_extend kwWord_input _ _ _ _
    (accL_nameDirsBodyExt n .lCurly _ _ (acc_inputFieldsDefinition n))).mono (fun _ h => h) ?_
  rintro _ x ⟨x2, e, nm, ds, x3, e3, h3⟩
  rcases h3 with ⟨vs, _, h3⟩ | h3
  · exact ⟨nm, ds, vs, by rw [e, e3, h3]; simp [Ast.tInputBody]⟩
  · exact ⟨nm, ds, [], by rw [e, e3, h3]; simp [Ast.tInputBody, Ast.tBraced, Ast.tIVDItems]⟩

/-! ### schema -/

def schemaExtBraces (meets : Bool) : PI Unit :=
  peek >>= fun k => if k == some .lCurly then rootsBlock (expect .rCurly "R_CURLY" >>= fun _ => extEnd true) else extEnd meets

theorem schemaExtension_eq (n : Nat) : schemaExtension n = withNode "SCHEMA_EXTENSION"
    (bump "extend_KW" >>= fun _ => bump "schema_KW" >>= fun _ => extDirs n schemaExtBraces false) := rfl

theorem accL_schemaExtension (n : Nat) :
    Acc E0 (fun q => LexQ q ∧ Ext2 "extend" "schema" q) (schemaExtension n)
      (fun _ x => ∃ ds roots, x = .name "extend".toList :: .name "schema".toList :: Ast.tDirectives ds
        ++ Ast.tBraced (tRootOpItemsF roots) roots.isEmpty) := by
  rw [schemaExtension_eq]
  refine acc_withNode early_false _ (ext2_sig kwWord_extend) ?_
  have hB : ∀ m, Acc E0 LexQ (schemaExtBraces m) (fun _ x => ∃ roots, x = Ast.tBraced (tRootOpItemsF roots) roots.isEmpty) := by
    intro m
    unfold schemaExtBraces
    refine acc_ifKind .lCurly _ _ _ ?_ ?_
    · have hK : Acc E0 (fun _ => True) (expect .rCurly "R_CURLY" >>= fun _ => extEnd true) (fun _ x => x = [.p .rCurly]) := by
        refine (acc_bind early_false (acc_expect .rCurly "R_CURLY" (.p .rCurly) (by intro t ht; simp [astOfV, ht]) rfl (by decide))
          (fun _ => acc_extEnd true)).mono (fun _ h => h) ?_
        rintro _ x ⟨_, x1, x2, e, h1, h2⟩
        rw [e, h1, h2]; rfl
      refine (acc_rootsBlock _ _ hK).mono (fun _ h => h) ?_
      rintro _ x ⟨roots, x2, hne, e, h2⟩
      refine ⟨roots, ?_⟩
      have : roots.isEmpty = false := by cases roots with | nil => exact absurd rfl hne | cons _ _ => rfl
      rw [e, h2]; simp [Ast.tBraced, this]
    · exact (acc_extEnd m).mono (fun _ _ => trivial) (fun _ x h => ⟨[], by rw [h]; rfl⟩)
  refine (accL_bump2 "extend" "schema" kwWord_extend kwWord_schema _ _ _ _ (accL_extDirs n _ _ hB false)).mono (fun _ h => h) ?_
  rintro _ x ⟨x2, e, ds, x3, e3, roots, h3⟩
  exact ⟨ds, roots, by rw [e, e3, h3]; simp⟩

end Apollo.Parse
