import ApolloModel.Proofs.Numbers
namespace Apollo.Num
open Apollo
open Apollo.Coord (splitOnce splitOnce_spec splitOnce_append splitOnce_none)

theorem digits_no_special {ds : Str} (h : allDigits ds = true) :
    ∀ x ∈ ds, isE x = false ∧ x ≠ '.' ∧ x ≠ '+' ∧ x ≠ '-' := by
  intro x hx
  have := digit_ne (List.all_eq_true.mp h x hx)
  exact ⟨this.2.2.2, this.2.2.1, this.2.1, this.1⟩

theorem int_no_special {i : Str} (h : SpecIntegerPart i) : ∀ x ∈ i, isE x = false ∧ x ≠ '.' := by
  obtain ⟨ds, hs, hds⟩ := h
  have hd : ∀ x ∈ ds, isE x = false ∧ x ≠ '.' := by
    rcases hds with rfl | ⟨d, rest, rfl, hd, hr⟩
    · intro x hx; simp at hx; subst hx; decide
    · intro x hx
      rcases List.mem_cons.mp hx with rfl | hx
      · have := digit_ne (nonzero_is_digit hd); exact ⟨this.2.2.2, this.2.2.1⟩
      · have := digits_no_special hr x hx; exact ⟨this.1, this.2.1⟩
  rcases hs with rfl | rfl
  · exact hd
  · intro x hx
    rcases List.mem_cons.mp hx with rfl | hx
    · decide
    · exact hd x hx

theorem stripSign_sign_digits {sign ds : Str} (hs : sign = [] ∨ sign = ['+'] ∨ sign = ['-'])
    (hne : ds ≠ []) (hd : allDigits ds = true) : stripSign (sign ++ ds) = ds := by
  rcases hs with rfl | rfl | rfl
  · match ds, hne, hd with
    | c :: rest, _, hd =>
      have := digits_no_special hd c (by simp)
      simp only [List.nil_append]
      unfold stripSign
      split
      · rename_i heq; simp at heq; exact absurd heq.1 this.2.2.1
      · rename_i heq; simp at heq; exact absurd heq.1 this.2.2.2
      · rfl
  · rfl
  · rfl

theorem stripSign_decomp (ex : Str) : ∃ sign, (sign = [] ∨ sign = ['+'] ∨ sign = ['-']) ∧ ex = sign ++ stripSign ex := by
  unfold stripSign
  split
  · exact ⟨['+'], by simp, rfl⟩
  · exact ⟨['-'], by simp, rfl⟩
  · exact ⟨[], by simp, rfl⟩

theorem isEmpty_false_iff {l : Str} : l.isEmpty = false ↔ l ≠ [] := by cases l <;> simp

/-- `FloatValue::valid_syntax` accepts exactly the spec's FloatValue token texts. -/
theorem float_valid_iff_spec (s : Str) : validFloat s = true ↔ SpecFloat s := by
  constructor
  · intro h
    unfold validFloat at h
    cases hE : splitOnceE s with
    | some p =>
      obtain ⟨m, ex⟩ := p
      simp only [hE] at h
      obtain ⟨c, hs, hc, _⟩ := splitOnceE_spec s m ex hE
      by_cases hx : ((stripSign ex).isEmpty || !allDigits (stripSign ex)) = true
      · simp [hx] at h
      · simp only [hx, Bool.false_eq_true, if_false] at h
        simp only [Bool.or_eq_true, Bool.not_eq_true', not_or, Bool.not_eq_true, Bool.not_eq_false] at hx
        obtain ⟨sign, hsign, hex⟩ := stripSign_decomp ex
        have hexp : SpecExponentPart (c :: ex) :=
          ⟨c, sign, stripSign ex, by rw [← hex], hc, hsign, isEmpty_false_iff.mp hx.1, hx.2⟩
        cases hd : splitOnce '.' m with
        | some q =>
          obtain ⟨int, fract⟩ := q
          simp only [hd, validFractional, Bool.and_eq_true, Bool.not_eq_true'] at h
          have hm := (splitOnce_spec '.' m int fract hd).1
          refine ⟨int, '.' :: fract, c :: ex, by simp [hs, hm], (int_valid_iff_spec int).mp h.1.1, Or.inl ⟨?_, hexp⟩⟩
          exact ⟨fract, rfl, isEmpty_false_iff.mp h.1.2, h.2⟩
        | none =>
          simp only [hd] at h
          exact ⟨m, [], c :: ex, by rw [hs]; simp, (int_valid_iff_spec m).mp h, Or.inr (Or.inr ⟨rfl, hexp⟩)⟩
    | none =>
      simp only [hE] at h
      cases hd : splitOnce '.' s with
      | some q =>
        obtain ⟨int, fract⟩ := q
        simp only [hd, validFractional, Bool.and_eq_true, Bool.not_eq_true'] at h
        have hm := (splitOnce_spec '.' s int fract hd).1
        exact ⟨int, '.' :: fract, [], by rw [hm]; simp, (int_valid_iff_spec int).mp h.1.1,
          Or.inr (Or.inl ⟨⟨fract, rfl, isEmpty_false_iff.mp h.1.2, h.2⟩, rfl⟩)⟩
      | none => simp [hd] at h
  · rintro ⟨i, f, e, rfl, hi, hfe⟩
    have hiv := (int_valid_iff_spec i).mpr hi
    have hin := int_no_special hi
    have dot_not_i : '.' ∉ i := fun hm => (hin '.' hm).2 rfl
    unfold validFloat
    rcases hfe with ⟨⟨fd, rfl, hfne, hfd⟩, ⟨c, sign, ed, rfl, hc, hsign, hene, hed⟩⟩ |
                    ⟨⟨fd, rfl, hfne, hfd⟩, rfl⟩ | ⟨rfl, ⟨c, sign, ed, rfl, hc, hsign, hene, hed⟩⟩
    · have hnoE : ∀ x ∈ i ++ '.' :: fd, isE x = false := by
        intro x hx
        rcases List.mem_append.mp hx with hx | hx
        · exact (hin x hx).1
        · rcases List.mem_cons.mp hx with rfl | hx
          · decide
          · exact (digits_no_special hfd x hx).1
      have h1 := splitOnceE_append (i ++ '.' :: fd) c (sign ++ ed) hc hnoE
      have h2 := splitOnce_append '.' i fd dot_not_i
      have h3 := stripSign_sign_digits hsign hene hed
      simp only [List.append_assoc] at h1 ⊢
      simp only [List.cons_append] at h1 ⊢
      simp [h1, h2, h3, validFractional, hiv, hfd, hed, isEmpty_false_iff.mpr hene, isEmpty_false_iff.mpr hfne]
    · have hnoE : ∀ x ∈ i ++ '.' :: fd, isE x = false := by
        intro x hx
        rcases List.mem_append.mp hx with hx | hx
        · exact (hin x hx).1
        · rcases List.mem_cons.mp hx with rfl | hx
          · decide
          · exact (digits_no_special hfd x hx).1
      have h1 := splitOnceE_none _ hnoE
      have h2 := splitOnce_append '.' i fd dot_not_i
      simp only [List.append_nil]
      simp [h1, h2, validFractional, hiv, hfd, isEmpty_false_iff.mpr hfne]
    · have h1 := splitOnceE_append i c (sign ++ ed) hc (fun x hx => (hin x hx).1)
      have h2 := splitOnce_none '.' i dot_not_i
      have h3 := stripSign_sign_digits hsign hene hed
      simp only [List.append_nil]
      simp [h1, h2, h3, hiv, hed, isEmpty_false_iff.mpr hene]

end Apollo.Num
