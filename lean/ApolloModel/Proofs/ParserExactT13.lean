import ApolloModel.Proofs.ParserExactT12
/-
Exact soundness for the type-system family, part 13: the directive definition in the `DefSound` shape of ParserExactS14
(the field `DefExact.directive`).  Only the arguments definition depends on the budget.
-/
set_option linter.unusedSimpArgs false
namespace Apollo.Parse.Exact
open Apollo.Rowan hiding Str
open Apollo.Lex hiding Str

def RepR (x : List Ast.Tok) : Prop := ∃ rep x2, x = kwPart "repeatable" rep ++ .name Ast.sOn :: x2 ∧ LocsR x2

theorem accL_dRep : Acc E0 LexQ (optKw "repeatable" "repeatable_KW" dOn) (fun _ => RepR) := by
  refine (accL_optKw early_false "repeatable" kwWord_repeatable _ _ _ accL_dOn).mono (fun _ h => h) ?_
  rintro _ x ⟨rep, x2, e, x3, e3, h3⟩
  exact ⟨rep, x3, by rw [e, e3], h3⟩

theorem good_dArgs (n : Nat) : Good (optKind .lParen (argumentsDefinition n) (optKw "repeatable" "repeatable_KW" dOn)) := by
  unfold optKind
  exact good_bind _ _ good_peek (fun _ => good_ite _ _ _ (good_bind _ _ (good_argumentsDefinition n) (fun _ => accL_dRep.1)) accL_dRep.1)

theorem good_dName (n : Nat) : Good (dName n) := good_bind _ _ good_name (fun _ => good_dArgs n)

theorem good_dAt (n : Nat) : Good (dAt n) :=
  good_bind _ _ good_peek (fun _ => good_ite _ _ _ (good_bind _ _ (good_bump _) (fun _ => good_dName n)) (good_bind _ _ good_err (fun _ => good_dName n)))

/-- an optional arguments definition -/
theorem optArgsDef_sound (n : Nat) (s s' : PState) (w : TW s) (he : EofEnd s)
    (h : (peek >>= fun k => if k == some Kind.lParen then argumentsDefinition n else pure ()).run s = .ok () s') (hnd : ¬ Doomed s') :
    Cons s s' (fun x => ∃ args, x = Ast.tArgsDef args ∧ ∀ a ∈ args, ivdFit (bud s) a) := by
  obtain ⟨sP, o, p, hor⟩ := ifPeek_dec .lParen _ _ s s' () w h
  have heP := p.eofEnd he
  rcases hor with ⟨hkc, h5⟩ | ⟨_, h5⟩
  · obtain ⟨tc, rfl, hkc2⟩ : ∃ tc, o = some tc ∧ tc.kind = .lParen := by
      cases o with
      | none => simp at hkc
      | some tc => exact ⟨tc, rfl, by simpa using hkc⟩
    have c := argumentsDefinition_sound n sP s' tc _ p.w heP p.head_cons hkc2 h5 hnd
    refine (c.transport p.toks.symm rfl c.eofEnd).weaken ?_
    rintro z ⟨args, _, rfl, hargs⟩
    rw [bud_peek p] at hargs
    exact ⟨args, rfl, hargs⟩
  · rw [run_pure] at h5
    injection h5 with _ h5
    subst h5
    exact (Cons.nil p.toks heP).weaken (by rintro z rfl; exact ⟨[], by simp [Ast.tArgsDef], by intro a ha; cases ha⟩)

/-- `@ Name ArgumentsDefinition? repeatable? on DirectiveLocations`, on a lexer queue -/
theorem dAt_sound (n : Nat) (s s' : PState) (w : TW s) (he : EofEnd s) (hl : LexQ (Toks s))
    (h : (dAt n).run s = .ok () s') (hnd : ¬ Doomed s') :
    Cons s s' (fun x => ∃ nm args rep lead first rest,
      x = .p .at :: .name nm :: Ast.tArgsDef args ++ kwPart "repeatable" rep ++ .name Ast.sOn :: tSepLead .pipe lead first rest ∧
      (∀ a ∈ args, ivdFit (bud s) a) ∧ IsDirLoc first ∧ ∀ r ∈ rest, IsDirLoc r) := by
  unfold dAt at h
  obtain ⟨sP, o, p, hor⟩ := ifPeek_dec .at _ _ s s' () w h
  have heP := p.eofEnd he
  rcases hor with ⟨hkc, h5⟩ | ⟨_, h5⟩
  · obtain ⟨tc, rfl, hkc2⟩ : ∃ tc, o = some tc ∧ tc.kind = .at := by
      cases o with
      | none => simp at hkc
      | some tc => exact ⟨tc, rfl, by simpa using hkc⟩
    have hnic : isIgnoredKind tc.kind = false := by rw [hkc2]; rfl
    obtain ⟨_, s3, h6, h7⟩ := bind_dec (bump "AT") _ sP s' () h5
    obtain ⟨ign2, ec, hall2, _⟩ := bump_spec "AT" sP s3 p.w tc _ p.head_cons h6
    have c1 : Cons sP s3 (fun x => x = [.p .at]) :=
      Cons.ofEat ec heP (noEof_cons (by rw [hkc2]; decide) hall2) (tokIs_punct tc ign2 .at hnic (by simp [astOfV, hkc2]) hall2)
    have c1' : Cons s s3 (fun x => x = [.p .at]) := c1.transport p.toks.symm rfl c1.eofEnd
    unfold dName at h7
    obtain ⟨_, s4, h8, h9⟩ := bind_dec name _ s3 s' () h7
    have a4 := good_name s3 () s4 ec.w h8
    have hnd4 : ¬ Doomed s4 := fun d => hnd ((good_dArgs n s4 () s' a4.w h9).doom d)
    have c2 := cons_of_acc (acc_name (E := fun _ => False) (H := fun _ => True)) s3 s4 () ec.w c1.eofEnd trivial h8 hnd4
    unfold optKind at h9
    obtain ⟨s5, h10, h11⟩ := optThen_dec .lParen (argumentsDefinition n) (optKw "repeatable" "repeatable_KW" dOn) s4 s' h9
    have a5 := good_opt .lParen _ (good_argumentsDefinition n) s4 () s5 a4.w h10
    have hnd5 : ¬ Doomed s5 := fun d => hnd ((accL_dRep.1 s5 () s' a5.w h11).doom d)
    have c3 := optArgsDef_sound n s4 s5 a4.w c2.eofEnd h10 hnd5
    have c13 := (c1'.seq c2).seq c3
    have hl5 : LexQ (Toks s5) := by
      obtain ⟨cs, _, a, _⟩ := c13
      rw [a] at hl; exact hl.suffix
    have c4 := cons_of_acc accL_dRep s5 s' () a5.w c3.eofEnd hl5 h11 hnd
    have hb4 : bud s4 = bud s := by rw [bud_adv a4, bud_eat ec, bud_peek p]
    refine (c13.seq c4).weaken ?_
    rintro z ⟨x, y, rfl, ⟨x1, x2, rfl, ⟨x3, x4, rfl, rfl, nm, rfl⟩, args, rfl, hargs⟩, rep, x5, rfl, lead, first, rest, rfl, hf, hr⟩
    rw [hb4] at hargs
    exact ⟨nm, args, rep, lead, first, rest, by simp [List.append_assoc], hargs, hf, hr⟩
  · exfalso
    obtain ⟨_, sE, h6, h7⟩ := bind_dec err _ sP s' () h5
    obtain ⟨aE, dE⟩ := err_adv sP sE p.w h6
    have hndP : ¬ Doomed sP := fun d => hnd ((good_dName n sE () s' aE.w h7).doom (aE.doom d))
    exact hnd ((good_dName n sE () s' aE.w h7).doom (dE (eofEnd_nonempty sP heP hndP)))

/-- **directive definition**, exact -/
theorem directiveDef_sound (n : Nat) : DefSound (DStart "directive".toList) (directiveDefinition n) := by
  intro s s' w he hq hr hnd
  obtain ⟨hl, hs⟩ := hq
  rw [directiveDefinition_eq] at hr
  obtain ⟨t, rest, htq, hni⟩ := dStart_sig "directive" _ hs
  obtain ⟨s1, s2, e1, h1, o2⟩ := withNode_peeked _ _ s s' () t rest w htq hni hr
  have hnd2 : ¬ Doomed s2 := fun d => hnd (o2.doomed.mpr d)
  have he1 : EofEnd s1 := eofEnd_eat he e1 (by intro x hx; cases hx)
  have h0 : Toks s = Toks s1 := by simpa using e1.toks
  obtain ⟨sm, hp, ht⟩ := kwShape_split "directive" "directive_KW" _ s1 s2 h1
  have hacc := accL_defEnteredBody "directive" kwWord_directive "directive_KW" (pure () : PI Unit) (fun x => x = []) acc_pureL
  have am := hacc.1 s1 () sm e1.w hp
  have hndm : ¬ Doomed sm := fun d => hnd2 ((good_dAt n sm () s2 am.w ht).doom d)
  have c1 := cons_of_acc hacc s1 sm () e1.w he1 ⟨by rw [← h0]; exact hl, by rw [← h0]; exact defStart_of_DStart "directive" _ hs⟩ hp hndm
  have hlm : LexQ (Toks sm) := by
    obtain ⟨cs, _, a, _⟩ := c1
    rw [h0, a] at hl; exact hl.suffix
  have c2 := dAt_sound n sm s2 am.w c1.eofEnd hlm ht hnd2
  have c := (c1.seq c2).transport h0 o2.toks (eofEnd_same _ _ c2.eofEnd o2.current o2.lx o2.errors)
  obtain ⟨cs, x, a, b, e, d, x1, x2, rfl, ⟨desc, x3, rfl, rfl⟩, nm, args, rep, lead, first, rest', rfl, hargs, hf, hrr⟩ := c
  rw [bud_adv am, bud_eat e1] at hargs
  have hfit : itemFit (bud s) (.loose (.directive desc nm args rep lead first rest')) := ⟨hargs, hf, hrr⟩
  refine ⟨cs, .loose (.directive desc nm args rep lead first rest'), a, b, e, ?_, hfit, fun q _ ho => ho.elim⟩
  have hk : kwPart "directive" true = [Ast.Tok.name "directive".toList] := rfl
  show TokIs (sig cs) (directiveToks desc true nm args rep lead first rest')
  unfold directiveToks
  rw [hk]
  simpa only [List.append_assoc, List.cons_append, List.nil_append, List.singleton_append] using d

end Apollo.Parse.Exact
