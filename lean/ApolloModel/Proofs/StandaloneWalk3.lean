import ApolloModel.Proofs.StandaloneWalk2
/-
C17, document level, the rules of the validation walk, part 3: the walk-phase rules as statements about the whole
tree of an operation (its own selection set and every fragment it reaches).
-/
set_option linter.unusedSimpArgs false
set_option linter.unusedVariables false
namespace Apollo.Standalone.Walk
open Apollo Apollo.Standalone

/-- the walk of one operation reports `d` (other than the model's fuel marker) EXACTLY when a reachable site does -/
theorem walk_mem_iff (p : Params) (sc : Schema) (doc : BuiltDoc) (ty : Option Name) (t : Sels) (d : Diag)
    (hd : d ≠ .outOfFuel) :
    d ∈ walkOut p sc doc ty t ↔ ∃ site, Reaches sc doc ty t site ∧ d ∈ site.diags p sc doc := by
  constructor
  · intro h
    rcases walk_diag_reaches p sc doc _ ty t [] d h with h1 | h1
    · exact absurd h1 hd
    · exact h1
  · rintro ⟨site, hr, hm⟩
    exact walk_complete (fun x => x ∈ walkOut p sc doc ty t) p sc doc ty t (fun _ h => h) site hr d hm

/-- the four kinds the walk itself adds -/
def WalkKind (d : Diag) : Prop :=
  d = .missingSubselection ∨ d = .undefinedFragment ∨ d = .invalidFragmentTarget ∨ d = .recursiveFragmentDefinition

theorem walkKind_not_local (p : Params) (sc : Schema) (d : Diag) (hd : WalkKind d) :
    (∀ loc ds, d ∉ dirDiags p (some sc) loc ds) ∧ (∀ seen as, d ∉ uniqueArgs seen as) ∧
      (∀ defs as, d ∉ undefinedArgs defs as) ∧ (∀ defs as, d ∉ requiredArgs defs as) := by
  refine ⟨fun loc ds h => ?_, fun seen as h => ?_, fun defs as h => ?_, fun defs as h => ?_⟩
  · have := ExecRules.dirDiags_kind p _ _ _ _ h
    rcases hd with rfl | rfl | rfl | rfl <;> simp [ExecRules.Diag.isDirectiveKind] at this
  · have := ExecRules.uniqueArgs_kind _ _ _ h
    rcases hd with rfl | rfl | rfl | rfl <;> cases this
  · have := Rules.undefinedArgs_kind _ _ _ h
    rcases hd with rfl | rfl | rfl | rfl <;> cases this
  · have := Rules.requiredArgs_kind _ _ _ h
    rcases hd with rfl | rfl | rfl | rfl <;> cases this

/-- §5.3.3 at one site -/
theorem site_missing_iff (p : Params) (sc : Schema) (doc : BuiltDoc) (site : Site) :
    Diag.missingSubselection ∈ site.diags p sc doc ↔
      ∃ t name dirs args fd, site = .field (some t) name dirs args true ∧ sc.field t name = some fd ∧
        sc.kind fd.ty = some .composite := by
  obtain ⟨n1, n2, n3, n4⟩ := walkKind_not_local p sc .missingSubselection (.inl rfl)
  cases site with
  | field ty name dirs args subNil =>
    cases ty with
    | none => simp [Site.diags, n1, n2]
    | some t =>
      cases hfd : sc.field t name with
      | none => simp [Site.diags, n1, n2, hfd]
      | some fd =>
        cases subNil with
        | false => simp [Site.diags, n1, n2, n3, n4, hfd]
        | true =>
          by_cases hk : (sc.kind fd.ty == some Kind.composite) = true
          · have hk' : sc.kind fd.ty = some Kind.composite := by simpa using hk
            simp [Site.diags, n1, n2, n3, n4, hfd, hk']
            exact ⟨t, name, ⟨rfl, rfl⟩, fd, hfd, hk'⟩
          · have hk' : ¬ sc.kind fd.ty = some Kind.composite := by simpa using hk
            simp [Site.diags, n1, n2, n3, n4, hfd, hk, hk']
  | spread f dirs =>
    cases hf : doc.findFrag f <;> simp [Site.diags, n1, hf]
  | inline tc dirs =>
    cases tc with
    | none => simp [Site.diags, n1, inlineTcd]
    | some t => by_cases hk : (sc.kind t == some Kind.composite) = true <;> simp [Site.diags, n1, inlineTcd, hk]
  | fragDef fr =>
    by_cases hk : (sc.kind fr.tc == some Kind.composite) = true <;> by_cases hc : fr.name ∈ reach doc fr.sels <;>
      simp [Site.diags, n1, fragTcd, fragCyc, hk, hc]

/-- §5.5.2.1 at one site -/
theorem site_undefinedFragment_iff (p : Params) (sc : Schema) (doc : BuiltDoc) (site : Site) :
    Diag.undefinedFragment ∈ site.diags p sc doc ↔ ∃ f dirs, site = .spread f dirs ∧ doc.findFrag f = none := by
  obtain ⟨n1, n2, n3, n4⟩ := walkKind_not_local p sc .undefinedFragment (.inr (.inl rfl))
  cases site with
  | field ty name dirs args subNil =>
    cases ty with
    | none => simp [Site.diags, n1, n2]
    | some t =>
      cases hfd : sc.field t name with
      | none => simp [Site.diags, n1, n2, hfd]
      | some fd =>
        by_cases hk : (subNil && sc.kind fd.ty == some Kind.composite) = true <;> simp [Site.diags, n1, n2, n3, n4, hfd, hk]
  | spread f dirs =>
    cases hf : doc.findFrag f <;> simp [Site.diags, n1, hf]
  | inline tc dirs =>
    cases tc with
    | none => simp [Site.diags, n1, inlineTcd]
    | some t => by_cases hk : (sc.kind t == some Kind.composite) = true <;> simp [Site.diags, n1, inlineTcd, hk]
  | fragDef fr =>
    by_cases hk : (sc.kind fr.tc == some Kind.composite) = true <;> by_cases hc : fr.name ∈ reach doc fr.sels <;>
      simp [Site.diags, n1, fragTcd, fragCyc, hk, hc]

/-- §5.5.1.3 at one site -/
theorem site_invalidTarget_iff (p : Params) (sc : Schema) (doc : BuiltDoc) (site : Site) :
    Diag.invalidFragmentTarget ∈ site.diags p sc doc ↔
      (∃ t dirs, site = .inline (some t) dirs ∧ sc.kind t ≠ some .composite) ∨
        (∃ fr, site = .fragDef fr ∧ sc.kind fr.tc ≠ some .composite) := by
  obtain ⟨n1, n2, n3, n4⟩ := walkKind_not_local p sc .invalidFragmentTarget (.inr (.inr (.inl rfl)))
  cases site with
  | field ty name dirs args subNil =>
    cases ty with
    | none => simp [Site.diags, n1, n2]
    | some t =>
      cases hfd : sc.field t name with
      | none => simp [Site.diags, n1, n2, hfd]
      | some fd =>
        by_cases hk : (subNil && sc.kind fd.ty == some Kind.composite) = true <;> simp [Site.diags, n1, n2, n3, n4, hfd, hk]
  | spread f dirs =>
    cases hf : doc.findFrag f <;> simp [Site.diags, n1, hf]
  | inline tc dirs =>
    cases tc with
    | none => simp [Site.diags, n1, inlineTcd]
    | some t =>
      by_cases hk : (sc.kind t == some Kind.composite) = true
      · have hk' : sc.kind t = some Kind.composite := by simpa using hk
        simp [Site.diags, n1, inlineTcd, hk, hk']
      · have hk' : ¬ sc.kind t = some Kind.composite := by simpa using hk
        simp [Site.diags, n1, inlineTcd, hk, hk']
  | fragDef fr =>
    by_cases hk : (sc.kind fr.tc == some Kind.composite) = true
    · have hk' : sc.kind fr.tc = some Kind.composite := by simpa using hk
      by_cases hc : fr.name ∈ reach doc fr.sels <;> simp [Site.diags, n1, fragTcd, fragCyc, hk, hk', hc]
    · have hk' : ¬ sc.kind fr.tc = some Kind.composite := by simpa using hk
      by_cases hc : fr.name ∈ reach doc fr.sels <;> simp [Site.diags, n1, fragTcd, fragCyc, hk, hk', hc]


/-! ### the rules, for the whole tree of an operation -/

/-- §5.3.3 Leaf Field Selections (second half) -/
theorem missing_subselection_iff_doc (p : Params) (sc : Schema) (doc : BuiltDoc) (ty : Option Name) (t : Sels) :
    Diag.missingSubselection ∈ walkOut p sc doc ty t ↔
      ∃ t0 name dirs args fd, Reaches sc doc ty t (.field (some t0) name dirs args true) ∧ sc.field t0 name = some fd ∧
        sc.kind fd.ty = some .composite := by
  rw [walk_mem_iff p sc doc ty t _ (by intro h; cases h)]
  constructor
  · rintro ⟨site, hr, hm⟩
    obtain ⟨t0, name, dirs, args, fd, rfl, h1, h2⟩ := (site_missing_iff p sc doc site).mp hm
    exact ⟨t0, name, dirs, args, fd, hr, h1, h2⟩
  · rintro ⟨t0, name, dirs, args, fd, hr, h1, h2⟩
    exact ⟨_, hr, (site_missing_iff p sc doc _).mpr ⟨t0, name, dirs, args, fd, rfl, h1, h2⟩⟩

/-- §5.5.2.1 Fragment Spread Target Defined -/
theorem spread_target_defined_iff_doc (p : Params) (sc : Schema) (doc : BuiltDoc) (ty : Option Name) (t : Sels) :
    Diag.undefinedFragment ∈ walkOut p sc doc ty t ↔
      ∃ f dirs, Reaches sc doc ty t (.spread f dirs) ∧ doc.findFrag f = none := by
  rw [walk_mem_iff p sc doc ty t _ (by intro h; cases h)]
  constructor
  · rintro ⟨site, hr, hm⟩
    obtain ⟨f, dirs, rfl, h1⟩ := (site_undefinedFragment_iff p sc doc site).mp hm
    exact ⟨f, dirs, hr, h1⟩
  · rintro ⟨f, dirs, hr, h1⟩
    exact ⟨_, hr, (site_undefinedFragment_iff p sc doc _).mpr ⟨f, dirs, rfl, h1⟩⟩

/-- §5.5.1.3 Fragments On Composite Types: inline fragments and fragment definitions -/
theorem fragments_on_composite_types_iff_doc (p : Params) (sc : Schema) (doc : BuiltDoc) (ty : Option Name) (t : Sels) :
    Diag.invalidFragmentTarget ∈ walkOut p sc doc ty t ↔
      (∃ c dirs, Reaches sc doc ty t (.inline (some c) dirs) ∧ sc.kind c ≠ some .composite) ∨
        (∃ fr, Reaches sc doc ty t (.fragDef fr) ∧ sc.kind fr.tc ≠ some .composite) := by
  rw [walk_mem_iff p sc doc ty t _ (by intro h; cases h)]
  constructor
  · rintro ⟨site, hr, hm⟩
    rcases (site_invalidTarget_iff p sc doc site).mp hm with ⟨c, dirs, rfl, h1⟩ | ⟨fr, rfl, h1⟩
    · exact .inl ⟨c, dirs, hr, h1⟩
    · exact .inr ⟨fr, hr, h1⟩
  · rintro (⟨c, dirs, hr, h1⟩ | ⟨fr, hr, h1⟩)
    · exact ⟨_, hr, (site_invalidTarget_iff p sc doc _).mpr (.inl ⟨c, dirs, rfl, h1⟩)⟩
    · exact ⟨_, hr, (site_invalidTarget_iff p sc doc _).mpr (.inr ⟨fr, rfl, h1⟩)⟩

/-- the walk of `validate_operation` is the last summand of `validateOp` -/
theorem validateOp_walk (p : Params) (sc : Schema) (doc : BuiltDoc) (o : Op) :
    validateOp p (some sc) doc o =
      dirDiags p (some sc) o.ty.loc o.dirs ++ varDefDiags p (some sc) [] o.vars ++ unusedVarDiags doc o ++
        walkOut p sc doc (sc.root o.ty) o.sels := rfl

end Apollo.Standalone.Walk
