import ApolloModel.Proofs.StandaloneWalk2
/-
C17, document level, the rules of the validation walk, part 3: the walk-phase rules as statements about the whole
tree of an operation (its own selection set and every fragment it reaches).
-/
set_option linter.unusedSimpArgs false
set_option linter.unusedVariables false
namespace Apollo.Standalone.Walk
open Apollo Apollo.Standalone

/-- the walk of one operation reports `d` (other than the model's fuel marker) EXACTLY when a reachable site does -/
theorem walk_mem_iff (p : Params) (sc : Schema) (doc : BuiltDoc) (ty : Option Name) (t : Sels) (d : Diag)
    (hd : d ≠ .outOfFuel) :
    d ∈ walkOut p sc doc ty t ↔ ∃ site, Reaches sc doc ty t site ∧ d ∈ site.diags p sc doc := by
  constructor
  · intro h
    rcases walk_diag_reaches p sc doc _ ty t [] d h with h1 | h1
    · exact absurd h1 hd
    · exact h1
  · rintro ⟨site, hr, hm⟩
    exact walk_complete (fun x => x ∈ walkOut p sc doc ty t) p sc doc ty t (fun _ h => h) site hr d hm

/-- the four kinds the walk itself adds -/
def WalkKind (d : Diag) : Prop :=
  d = .missingSubselection ∨ d = .undefinedFragment ∨ d = .invalidFragmentTarget ∨ d = .recursiveFragmentDefinition

theorem walkKind_not_local (p : Params) (sc : Schema) (d : Diag) (hd : WalkKind d) :
    (∀ loc ds, d ∉ dirDiags p (some sc) loc ds) ∧ (∀ seen as, d ∉ uniqueArgs seen as) ∧
      (∀ defs as, d ∉ undefinedArgs defs as) ∧ (∀ defs as, d ∉ requiredArgs defs as) := by
  refine ⟨fun loc ds h => ?_, fun seen as h => ?_, fun defs as h => ?_, fun defs as h => ?_⟩
  · have := ExecRules.dirDiags_kind p _ _ _ _ h
    rcases hd with rfl | rfl | rfl | rfl <;> simp [ExecRules.Diag.isDirectiveKind] at this
  · have := ExecRules.uniqueArgs_kind _ _ _ h
    rcases hd with rfl | rfl | rfl | rfl <;> cases this
  · have := Rules.undefinedArgs_kind _ _ _ h
    rcases hd with rfl | rfl | rfl | rfl <;> cases this
  · have := Rules.requiredArgs_kind _ _ _ h
    rcases hd with rfl | rfl | rfl | rfl <;> cases this

/-- §5.3.3 at one site -/
theorem site_missing_iff (p : Params) (sc : Schema) (doc : BuiltDoc) (site : Site) :
    Diag.missingSubselection ∈ site.diags p sc doc ↔
      ∃ t name dirs args fd, site = .field (some t) name dirs args true ∧ sc.field t name = some fd ∧
        sc.kind fd.ty = some .composite := by
  obtain ⟨n1, n2, n3, n4⟩ := walkKind_not_local p sc .missingSubselection (.inl rfl)
  cases site with
  | field ty name dirs args subNil =>
    cases ty with
    | none => simp [Site.diags, n1, n2]
    | some t =>
      cases hfd : sc.field t name with
      | none => simp [Site.diags, n1, n2, hfd]
      | some fd =>
        cases subNil with
        | false => simp [Site.diags, n1, n2, n3, n4, hfd]
        | true =>
          by_cases hk : (sc.kind fd.ty == some Kind.composite) = true
          · have hk' : sc.kind fd.ty = some Kind.composite := by simpa using hk
            simp [Site.diags, n1, n2, n3, n4, hfd, hk']
            exact ⟨t, name, ⟨rfl, rfl⟩, fd, hfd, hk'⟩
          · have hk' : ¬ sc.kind fd.ty = some Kind.composite := by simpa using hk
            simp [Site.diags, n1, n2, n3, n4, hfd, hk, hk']
  | spread f dirs =>
    cases hf : doc.findFrag f <;> simp [Site.diags, n1, hf]
  | inline tc dirs =>
    cases tc with
    | none => simp [Site.diags, n1, inlineTcd]
    | some t => by_cases hk : (sc.kind t == some Kind.composite) = true <;> simp [Site.diags, n1, inlineTcd, hk]
  | fragDef fr =>
    by_cases hk : (sc.kind fr.tc == some Kind.composite) = true <;> by_cases hc : fr.name ∈ reach doc fr.sels <;>
      simp [Site.diags, n1, fragTcd, fragCyc, hk, hc]

/-- §5.5.2.1 at one site -/
theorem site_undefinedFragment_iff (p : Params) (sc : Schema) (doc : BuiltDoc) (site : Site) :
    Diag.undefinedFragment ∈ site.diags p sc doc ↔ ∃ f dirs, site = .spread f dirs ∧ doc.findFrag f = none := by
  obtain ⟨n1, n2, n3, n4⟩ := walkKind_not_local p sc .undefinedFragment (.inr (.inl rfl))
  cases site with
  | field ty name dirs args subNil =>
    cases ty with
    | none => simp [Site.diags, n1, n2]
    | some t =>
      cases hfd : sc.field t name with
      | none => simp [Site.diags, n1, n2, hfd]
      | some fd =>
        by_cases hk : (subNil && sc.kind fd.ty == some Kind.composite) = true <;> simp [Site.diags, n1, n2, n3, n4, hfd, hk]
  | spread f dirs =>
    cases hf : doc.findFrag f <;> simp [Site.diags, n1, hf]
  | inline tc dirs =>
    cases tc with
    | none => simp [Site.diags, n1, inlineTcd]
    | some t => by_cases hk : (sc.kind t == some Kind.composite) = true <;> simp [Site.diags, n1, inlineTcd, hk]
  | fragDef fr =>
    by_cases hk : (sc.kind fr.tc == some Kind.composite) = true <;> by_cases hc : fr.name ∈ reach doc fr.sels <;>
      simp [Site.diags, n1, fragTcd, fragCyc, hk, hc]

/-- §5.5.1.3 at one site -/
theorem site_invalidTarget_iff (p : Params) (sc : Schema) (doc : BuiltDoc) (site : Site) :
    Diag.invalidFragmentTarget ∈ site.diags p sc doc ↔
      (∃ t dirs, site = .inline (some t) dirs ∧ sc.kind t ≠ some .composite) ∨
        (∃ fr, site = .fragDef fr ∧ sc.kind fr.tc ≠ some .composite) := by
  obtain ⟨n1, n2, n3, n4⟩ := walkKind_not_local p sc .invalidFragmentTarget (.inr (.inr (.inl rfl)))
  cases site with
  | field ty name dirs args subNil =>
    cases ty with
    | none => simp [Site.diags, n1, n2]
    | some t =>
      cases hfd : sc.field t name with
      | none => simp [Site.diags, n1, n2, hfd]
      | some fd =>
        by_cases hk : (subNil && sc.kind fd.ty == some Kind.composite) = true <;> simp [Site.diags, n1, n2, n3, n4, hfd, hk]
  | spread f dirs =>
    cases hf : doc.findFrag f <;> simp [Site.diags, n1, hf]
  | inline tc dirs =>
    cases tc with
    | none => simp [Site.diags, n1, inlineTcd]
    | some t =>
      by_cases hk : (sc.kind t == some Kind.composite) = true
      · have hk' : sc.kind t = some Kind.composite := by simpa using hk
        simp [Site.diags, n1, inlineTcd, hk, hk']
      · have hk' : ¬ sc.kind t = some Kind.composite := by simpa using hk
        simp [Site.diags, n1, inlineTcd, hk, hk']
  | fragDef fr =>
    by_cases hk : (sc.kind fr.tc == some Kind.composite) = true
    · have hk' : sc.kind fr.tc = some Kind.composite := by simpa using hk
      by_cases hc : fr.name ∈ reach doc fr.sels <;> simp [Site.diags, n1, fragTcd, fragCyc, hk, hk', hc]
    · have hk' : ¬ sc.kind fr.tc = some Kind.composite := by simpa using hk
      by_cases hc : fr.name ∈ reach doc fr.sels <;> simp [Site.diags, n1, fragTcd, fragCyc, hk, hk', hc]


/-! ### the rules, for the whole tree of an operation -/

/-- §5.3.3 Leaf Field Selections (second half) -/
theorem missing_subselection_iff_doc (p : Params) (sc : Schema) (doc : BuiltDoc) (ty : Option Name) (t : Sels) :
    Diag.missingSubselection ∈ walkOut p sc doc ty t ↔
      ∃ t0 name dirs args fd, Reaches sc doc ty t (.field (some t0) name dirs args true) ∧ sc.field t0 name = some fd ∧
        sc.kind fd.ty = some .composite := by
  rw [walk_mem_iff p sc doc ty t _ (by intro h; cases h)]
  constructor
  · rintro ⟨site, hr, hm⟩
    obtain ⟨t0, name, dirs, args, fd, rfl, h1, h2⟩ := (site_missing_iff p sc doc site).mp hm
    exact ⟨t0, name, dirs, args, fd, hr, h1, h2⟩
  · rintro ⟨t0, name, dirs, args, fd, hr, h1, h2⟩
    exact ⟨_, hr, (site_missing_iff p sc doc _).mpr ⟨t0, name, dirs, args, fd, rfl, h1, h2⟩⟩

/-- §5.5.2.1 Fragment Spread Target Defined -/
theorem spread_target_defined_iff_doc (p : Params) (sc : Schema) (doc : BuiltDoc) (ty : Option Name) (t : Sels) :
    Diag.undefinedFragment ∈ walkOut p sc doc ty t ↔
      ∃ f dirs, Reaches sc doc ty t (.spread f dirs) ∧ doc.findFrag f = none := by
  rw [walk_mem_iff p sc doc ty t _ (by intro h; cases h)]
  constructor
  · rintro ⟨site, hr, hm⟩
    obtain ⟨f, dirs, rfl, h1⟩ := (site_undefinedFragment_iff p sc doc site).mp hm
    exact ⟨f, dirs, hr, h1⟩
  · rintro ⟨f, dirs, hr, h1⟩
    exact ⟨_, hr, (site_undefinedFragment_iff p sc doc _).mpr ⟨f, dirs, rfl, h1⟩⟩

/-- §5.5.1.3 Fragments On Composite Types: inline fragments and fragment definitions -/
theorem fragments_on_composite_types_iff_doc (p : Params) (sc : Schema) (doc : BuiltDoc) (ty : Option Name) (t : Sels) :
    Diag.invalidFragmentTarget ∈ walkOut p sc doc ty t ↔
      (∃ c dirs, Reaches sc doc ty t (.inline (some c) dirs) ∧ sc.kind c ≠ some .composite) ∨
        (∃ fr, Reaches sc doc ty t (.fragDef fr) ∧ sc.kind fr.tc ≠ some .composite) := by
  rw [walk_mem_iff p sc doc ty t _ (by intro h; cases h)]
  constructor
  · rintro ⟨site, hr, hm⟩
    rcases (site_invalidTarget_iff p sc doc site).mp hm with ⟨c, dirs, rfl, h1⟩ | ⟨fr, rfl, h1⟩
    · exact .inl ⟨c, dirs, hr, h1⟩
    · exact .inr ⟨fr, hr, h1⟩
  · rintro (⟨c, dirs, hr, h1⟩ | ⟨fr, hr, h1⟩)
    · exact ⟨_, hr, (site_invalidTarget_iff p sc doc _).mpr (.inl ⟨c, dirs, rfl, h1⟩)⟩
    · exact ⟨_, hr, (site_invalidTarget_iff p sc doc _).mpr (.inr ⟨fr, rfl, h1⟩)⟩

/-- the walk of `validate_operation` is the last summand of `validateOp` -/
theorem validateOp_walk (p : Params) (sc : Schema) (doc : BuiltDoc) (o : Op) :
    validateOp p (some sc) doc o =
      dirDiags p (some sc) o.ty.loc o.dirs ++ varDefDiags p (some sc) [] o.vars ++ unusedVarDiags doc o ++
        walkOut p sc doc (sc.root o.ty) o.sels := rfl


/-! ### the fuel of the model never runs out -/

theorem outOfFuel_not_local (p : Params) (sc : Schema) :
    (∀ loc ds, Diag.outOfFuel ∉ dirDiags p (some sc) loc ds) ∧ (∀ seen as, Diag.outOfFuel ∉ uniqueArgs seen as) ∧
      (∀ defs as, Diag.outOfFuel ∉ undefinedArgs defs as) ∧ (∀ defs as, Diag.outOfFuel ∉ requiredArgs defs as) := by
  refine ⟨fun loc ds h => ?_, fun seen as h => ?_, fun defs as h => ?_, fun defs as h => ?_⟩
  · have := ExecRules.dirDiags_kind p _ _ _ _ h
    simp [ExecRules.Diag.isDirectiveKind] at this
  · have := ExecRules.uniqueArgs_kind _ _ _ h
    cases this
  · have := Rules.undefinedArgs_kind _ _ _ h
    cases this
  · have := Rules.requiredArgs_kind _ _ _ h
    cases this

theorem outOfFuel_not_site (p : Params) (sc : Schema) (doc : BuiltDoc) (site : Site) :
    Diag.outOfFuel ∉ site.diags p sc doc := by
  obtain ⟨n1, n2, n3, n4⟩ := outOfFuel_not_local p sc
  cases site with
  | field ty name dirs args subNil =>
    cases ty with
    | none => simp [Site.diags, n1, n2]
    | some t =>
      cases hfd : sc.field t name with
      | none => simp [Site.diags, n1, n2, hfd]
      | some fd =>
        by_cases hk : (subNil && sc.kind fd.ty == some Kind.composite) = true <;> simp [Site.diags, n1, n2, n3, n4, hfd, hk]
  | spread f dirs =>
    cases hf : doc.findFrag f <;> simp [Site.diags, n1, hf]
  | inline tc dirs =>
    cases tc with
    | none => simp [Site.diags, n1, inlineTcd]
    | some t => by_cases hk : (sc.kind t == some Kind.composite) = true <;> simp [Site.diags, n1, inlineTcd, hk]
  | fragDef fr =>
    by_cases hk : (sc.kind fr.tc == some Kind.composite) = true <;> by_cases hc : fr.name ∈ reach doc fr.sels <;>
      simp [Site.diags, n1, fragTcd, fragCyc, hk, hc]


theorem walk_noFuel (p : Params) (sc : Schema) (doc : BuiltDoc)
    (e : Frag → List Name → List Diag × List Name) (m : Nat) (heQ : HandlerQ (fun _ => True) p sc doc (m + 1) e)
    (heNF : ∀ fr W, W.Nodup → allDefined doc W → m + 1 ≤ W.length → Diag.outOfFuel ∉ (e fr W).1) :
    ∀ (t : Sels) (ty : Option Name) (V : List Name), V.Nodup → allDefined doc V → m ≤ V.length →
      Diag.outOfFuel ∉ (walkSels p (some sc) doc e ty t V).1 := by
  obtain ⟨n1, n2, n3, n4⟩ := outOfFuel_not_local p sc
  have inv : ∀ (t : Sels) (ty : Option Name) (V : List Name), V.Nodup → allDefined doc V → m ≤ V.length →
      WalkQ (fun _ => True) p sc doc ty t V (walkSels p (some sc) doc e ty t V).2 :=
    fun t ty V a b c => walkSels_walkQ (fun _ => True) p sc doc e m heQ t ty V a b c (fun _ _ => trivial)
  intro t
  induction t with
  | nil => intro ty V _ _ _ h; simp [walkSels] at h
  | field name dirs args sub rest ihs ihr =>
    intro ty V hnd hdf hm h
    simp only [walkSels, List.mem_append] at h
    rcases h with ((h | h) | h) | h
    · exact n1 _ _ h
    · exact n2 _ _ h
    · cases ty with
      | none =>
        simp only at h
        exact ihs none V hnd hdf hm h
      | some t0 =>
        simp only at h
        cases hfd : sc.field t0 name with
        | none => simp [hfd] at h
        | some fd =>
          simp only [hfd] at h
          by_cases hc : (sub.isNil && sc.kind fd.ty == some Kind.composite) = true
          · simp only [hc, if_true, List.mem_append, List.mem_singleton] at h
            rcases h with (h | h) | h
            · exact n3 _ _ h
            · exact n4 _ _ h
            · cases h
          · simp only [hc, Bool.false_eq_true, if_false, List.mem_append] at h
            rcases h with (h | h) | h
            · exact n3 _ _ h
            · exact n4 _ _ h
            · exact ihs _ V hnd hdf hm h
    · -- the rest, from the marked set the first part leaves
      cases ty with
      | none =>
        simp only at h
        have e3 := inv sub none V hnd hdf hm
        exact ihr none _ (e3.nodup hnd) (e3.defd hdf) (Nat.le_trans hm e3.len) h
      | some t0 =>
        simp only at h
        cases hfd : sc.field t0 name with
        | none =>
          simp only [hfd] at h
          exact ihr (some t0) V hnd hdf hm h
        | some fd =>
          simp only [hfd] at h
          by_cases hc : (sub.isNil && sc.kind fd.ty == some Kind.composite) = true
          · simp only [hc, if_true] at h
            exact ihr (some t0) V hnd hdf hm h
          · simp only [hc, Bool.false_eq_true, if_false] at h
            have e3 := inv sub (some fd.ty) V hnd hdf hm
            exact ihr (some t0) _ (e3.nodup hnd) (e3.defd hdf) (Nat.le_trans hm e3.len) h
  | spread f dirs rest ihr =>
    intro ty V hnd hdf hm h
    simp only [walkSels, List.mem_append] at h
    cases hf : doc.findFrag f with
    | none =>
      simp only [hf] at h
      rcases h with (h | h) | h
      · exact n1 _ _ h
      · simp at h
      · exact ihr ty V hnd hdf hm h
    | some fr =>
      simp only [hf] at h
      by_cases hv : f ∈ V
      · simp only [hv, if_true] at h
        rcases h with (h | h) | h
        · exact n1 _ _ h
        · simp at h
        · exact ihr ty V hnd hdf hm h
      · simp only [hv, if_false] at h
        have hnd1 : (f :: V).Nodup := List.nodup_cons.mpr ⟨hv, hnd⟩
        have hdf1 : allDefined doc (f :: V) := by
          intro x hx
          rcases List.mem_cons.mp hx with rfl | hx
          · rw [hf]; rfl
          · exact hdf x hx
        rcases h with (h | h) | h
        · exact n1 _ _ h
        · exact heNF fr (f :: V) hnd1 hdf1 (by simp; omega) h
        · obtain ⟨_, _, q3, q4, q5, _⟩ := heQ fr (f :: V) hnd1 hdf1 (by simp; omega) (fun _ _ => trivial)
          exact ihr ty _ q4 q5 (Nat.le_trans (by simp; omega : m ≤ (f :: V).length) q3) h
  | inline tc dirs sub rest ihs ihr =>
    intro ty V hnd hdf hm h
    rw [walk_inline_eq] at h
    simp only [List.mem_append] at h
    rcases h with ((h | h) | h) | h
    · exact n1 _ _ h
    · cases tc with
      | none => simp [inlineTcd] at h
      | some c => by_cases hk : (sc.kind c == some Kind.composite) = true <;> simp [inlineTcd, hk] at h
    · by_cases hemp : (inlineTcd sc tc).isEmpty = true
      · simp only [inlineStep, hemp, if_true] at h
        exact ihs _ V hnd hdf hm h
      · simp [inlineStep, hemp] at h
    · by_cases hemp : (inlineTcd sc tc).isEmpty = true
      · simp only [inlineStep, hemp, if_true] at h
        have e3 := inv sub (inlineTy ty tc) V hnd hdf hm
        exact ihr ty _ (e3.nodup hnd) (e3.defd hdf) (Nat.le_trans hm e3.len) h
      · simp only [inlineStep, hemp, Bool.false_eq_true, if_false] at h
        exact ihr ty V hnd hdf hm h

theorem enterFrag_noFuel (p : Params) (sc : Schema) (doc : BuiltDoc) :
    ∀ (n m : Nat), doc.frags.length < n + m → ∀ fr W, W.Nodup → allDefined doc W → m ≤ W.length →
      Diag.outOfFuel ∉ (enterFrag p (some sc) doc n fr W).1 := by
  intro n
  induction n with
  | zero =>
    intro m hlt fr W hnd hdf hm _
    have := marked_le_frags doc W hnd hdf
    omega
  | succ n ih =>
    intro m hlt fr W hnd hdf hm h
    rw [enterFrag_succ_eq] at h
    by_cases hg : fragGuard sc doc fr = true
    · simp only [hg, if_true, List.mem_append] at h
      rcases h with h | h
      · exact (outOfFuel_not_local p sc).1 _ _ h
      · exact walk_noFuel p sc doc _ m (enterFrag_handlerQ (fun _ => True) p sc doc n (m + 1) (by omega))
          (ih (m + 1) (by omega)) fr.sels _ W hnd hdf hm h
    · simp only [hg, Bool.false_eq_true, if_false] at h
      exact outOfFuel_not_site p sc doc (.fragDef fr) (by simpa [Site.diags] using h)

/-- the recursion fuel of the model (the number of fragment definitions) is enough for every document: the walk of
    an operation never reports the model's own `outOfFuel` -/
theorem walk_fuel_suffices (p : Params) (sc : Schema) (doc : BuiltDoc) (ty : Option Name) (t : Sels) :
    Diag.outOfFuel ∉ walkOut p sc doc ty t :=
  walk_noFuel p sc doc _ 0 (enterFrag_handlerQ (fun _ => True) p sc doc doc.frags.length 1 (by omega))
    (enterFrag_noFuel p sc doc doc.frags.length 1 (by omega)) t ty [] List.nodup_nil (by intro x hx; cases hx) (Nat.zero_le _)

/-- … so that EVERY diagnostic of the walk is reported exactly when a reachable site reports it -/
theorem walk_mem_iff_all (p : Params) (sc : Schema) (doc : BuiltDoc) (ty : Option Name) (t : Sels) (d : Diag) :
    d ∈ walkOut p sc doc ty t ↔ ∃ site, Reaches sc doc ty t site ∧ d ∈ site.diags p sc doc := by
  by_cases hd : d = .outOfFuel
  · subst hd
    constructor
    · intro h; exact absurd h (walk_fuel_suffices p sc doc ty t)
    · rintro ⟨site, _, hm⟩; exact absurd hm (outOfFuel_not_site p sc doc site)
  · exact walk_mem_iff p sc doc ty t d hd

end Apollo.Standalone.Walk
