import ApolloModel.Proofs.IntrospectionFull2
/-
C24: `__InputValue.defaultValue` — the literal as written (the code) against the printed coerced value
(the reference): equal on defaults written in canonical form; and the whole response with the
reference's reading on schemas all of whose defaults are canonical.
-/
set_option linter.unusedSimpArgs false
set_option linter.unusedVariables false

namespace Apollo.Spec.Introspection
open Apollo Apollo.Exec Apollo.Introspection Apollo.Spec

mutual
theorem Value.eqb_sound : ∀ (a b : Value), Value.eqb a b = true → a = b
  | .null, b, h => by cases b <;> simp [Value.eqb] at h ⊢
  | .bool x, b, h => by cases b <;> simp [Value.eqb] at h ⊢ <;> exact h
  | .int x, b, h => by cases b <;> simp [Value.eqb] at h ⊢ <;> exact h
  | .float x, b, h => by cases b <;> simp [Value.eqb] at h ⊢ <;> exact h
  | .str x, b, h => by cases b <;> simp [Value.eqb] at h ⊢ <;> exact h
  | .enum x, b, h => by cases b <;> simp [Value.eqb] at h ⊢ <;> exact h
  | .list xs, b, h => by
    cases b <;> simp [Value.eqb] at h ⊢
    exact Value.eqbList_sound xs _ h
  | .obj xs, b, h => by
    cases b <;> simp [Value.eqb] at h ⊢
    exact Value.eqbFields_sound xs _ h
theorem Value.eqbList_sound : ∀ (a b : List Value), Value.eqbList a b = true → a = b
  | [], [], _ => rfl
  | [], _ :: _, h => by simp [Value.eqbList] at h
  | _ :: _, [], h => by simp [Value.eqbList] at h
  | a :: as, b :: bs, h => by
    simp only [Value.eqbList, Bool.and_eq_true] at h
    rw [Value.eqb_sound a b h.1, Value.eqbList_sound as bs h.2]
theorem Value.eqbFields_sound : ∀ (a b : List (String × Value)), Value.eqbFields a b = true → a = b
  | [], [], _ => rfl
  | [], _ :: _, h => by simp [Value.eqbFields] at h
  | _ :: _, [], h => by simp [Value.eqbFields] at h
  | (k, a) :: as, (l, b) :: bs, h => by
    simp only [Value.eqbFields, Bool.and_eq_true, beq_iff_eq] at h
    rw [h.1.1, Value.eqb_sound a b h.1.2, Value.eqbFields_sound as bs h.2]
end

theorem refPrintString_eq (s : String) (h : (s.toList.all fun c => refEscapeChar c == escapeChar c) = true) :
    refPrintString s = printString s := by
  unfold refPrintString printString
  congr 3
  apply List.map_congr_left
  intro c hc
  have := List.all_eq_true.mp h c hc
  simpa using this

mutual
theorem refPrint_eq : ∀ (v : Value), stringsAgree v = true → refPrint v = printValue v
  | .null, _ => rfl
  | .bool true, _ => rfl
  | .bool false, _ => rfl
  | .int _, _ => rfl
  | .float _, _ => rfl
  | .enum _, _ => rfl
  | .str s, h => by simp only [refPrint, printValue]; exact refPrintString_eq s h
  | .list xs, h => by simp only [refPrint, printValue]; rw [refPrints_eq xs h]
  | .obj kvs, h => by simp only [refPrint, printValue]; rw [refPrintFields_eq kvs h]
theorem refPrints_eq : ∀ (xs : List Value), stringsAgreeList xs = true → refPrints xs = printValues xs
  | [], _ => rfl
  | x :: xs, h => by
    simp only [stringsAgreeList, Bool.and_eq_true] at h
    simp only [refPrints, printValues]
    rw [refPrint_eq x h.1, refPrints_eq xs h.2]
theorem refPrintFields_eq : ∀ (kvs : List (String × Value)), stringsAgreeFields kvs = true → refPrintFields kvs = printFields kvs
  | [], _ => rfl
  | (k, v) :: rest, h => by
    simp only [stringsAgreeFields, Bool.and_eq_true] at h
    simp only [refPrintFields, printFields]
    rw [refPrint_eq v h.1, refPrintFields_eq rest h.2]
end

/-- `defaultValue`, the known finding made exact: the code prints the default literal AS WRITTEN, the
    reference prints the COERCED value; the two are the same string whenever the default is already
    written in canonical form. -/
theorem default_value_canonical (fmtFloat : String → String) (fuel : Nat) (s : ISchema) (v : IInputValue)
    (h : canonicalDefault fmtFloat fuel s v = true) : asWritten s v = printedCoerced fmtFloat fuel s v := by
  unfold canonicalDefault at h
  unfold asWritten printedCoerced
  cases hd : v.default with
  | none => rfl
  | some d =>
    rw [hd] at h
    simp only [Bool.and_eq_true] at h
    simp only [Option.map]
    rw [Value.eqb_sound _ _ h.1, refPrint_eq d h.2]

end Apollo.Spec.Introspection

namespace Apollo.Introspection
open Apollo Apollo.Exec Apollo.Spec Apollo.Spec.Introspection

/-- every input value of the schema: arguments of fields and directives, input fields -/
def allInputValues (s : ISchema) : List IInputValue :=
  (s.types.flatMap fun t =>
    match t.kind with
    | .object _ fs | .interface _ fs => fs.flatMap (·.args)
    | .inputObject fs => fs
    | _ => []) ++ s.directives.flatMap (·.args)

/-- every default value of the schema is written in canonical form (decidable) -/
def defaultsCanonical (fmtFloat : String → String) (fuel : Nat) (s : ISchema) : Bool :=
  (allInputValues s).all (canonicalDefault fmtFloat fuel s)

/-- the input values a resolver object can hand out satisfy `c` -/
def Canon (c : IInputValue → Bool) : IObj → Prop
  | .inputValue d => c d = true
  | .field d => ∀ a ∈ d.args, c a = true
  | .directive d => ∀ a ∈ d.args, c a = true
  | _ => True

section
variable {ι : Type}
mutual
theorem allObj_and (P Q : ι → Prop) : ∀ rv : RVg ι, AllObj P rv → AllObj Q rv → AllObj (fun o => P o ∧ Q o) rv
  | .leaf _, _, _ => by simp [AllObj]
  | .error, _, _ => by simp [AllObj]
  | .skip, _, _ => by simp [AllObj]
  | .object _ o, h1, h2 => by simp only [AllObj] at h1 h2 ⊢; exact ⟨h1, h2⟩
  | .list xs, h1, h2 => by simp only [AllObj] at h1 h2 ⊢; exact allObjs_and P Q xs h1 h2
theorem allObjs_and (P Q : ι → Prop) : ∀ xs : List (RVg ι), AllObjs P xs → AllObjs Q xs → AllObjs (fun o => P o ∧ Q o) xs
  | [], _, _ => by simp [AllObjs]
  | x :: xs, h1, h2 => by
    simp only [AllObjs] at h1 h2 ⊢
    exact ⟨allObj_and P Q x h1.1 h2.1, allObjs_and P Q xs h1.2 h2.2⟩
end
end

theorem mem_of_typeDef? (s : ISchema) (d : ITypeDef) (h : s.typeDef? d.name = some d) : d ∈ s.types :=
  List.mem_of_find?_eq_some h

theorem canon_typeDefRV (s : ISchema) (c : IInputValue → Bool) (n : String) : AllObj (Canon c) (typeDefRV s n) := by
  unfold typeDefRV; cases s.typeDef? n <;> simp [AllObj, Canon]
theorem canon_typeDefOptRV (s : ISchema) (c : IInputValue → Bool) (o : Option String) : AllObj (Canon c) (typeDefOptRV s o) := by
  cases o <;> simp [typeDefOptRV, AllObj, canon_typeDefRV]
theorem canon_tyRV (s : ISchema) (c : IInputValue → Bool) (t : Ty) : AllObj (Canon c) (tyRV s t) := by
  cases t <;> simp [tyRV, AllObj, Canon, canon_typeDefRV]
theorem canon_typesRV (s : ISchema) (c : IInputValue → Bool) (ns : List String) : AllObj (Canon c) (typesRV s ns) := by
  unfold typesRV
  simp only [AllObj, allObjs_iff]
  intro x hx
  obtain ⟨n, _, hn⟩ := List.mem_filterMap.mp hx
  cases h : s.typeDef? n <;> simp [h] at hn
  subst hn; simp [AllObj, Canon]
theorem canon_inputValuesRV (c : IInputValue → Bool) (b : Bool) (vs : List IInputValue) (h : ∀ a ∈ vs, c a = true) :
    AllObj (Canon c) (inputValuesRV b vs) := by
  unfold inputValuesRV
  simp only [AllObj, allObjs_iff]
  intro x hx
  obtain ⟨v, hv, rfl⟩ := List.mem_map.mp hx
  simp only [AllObj, Canon]
  exact h v (List.mem_filter.mp hv).1

theorem resolve_canon (s : ISchema) (c : IInputValue → Bool) (hall : ∀ v ∈ allInputValues s, c v = true)
    (o : IObj) (ho : ObjOk s o) (hc : Canon c o) (f : String) (args : AList Json) (rv : IRV)
    (h : resolveI s o f args = some rv) : AllObj (Canon c) rv := by
  have hdir : ∀ d ∈ s.directives, ∀ a ∈ d.args, c a = true := by
    intro d hd a ha
    apply hall
    simp only [allInputValues, List.mem_append, List.mem_flatMap]
    exact Or.inr ⟨d, hd, ha⟩
  have hfield : ∀ t ∈ s.types, ∀ is fs, (t.kind = .object is fs ∨ t.kind = .interface is fs) → ∀ x ∈ fs, ∀ a ∈ x.args, c a = true := by
    intro t ht is fs hk x hx a ha
    apply hall
    simp only [allInputValues, List.mem_append, List.mem_flatMap]
    refine Or.inl ⟨t, ht, ?_⟩
    rcases hk with hk | hk <;> (rw [hk]; simp only [List.mem_flatMap]; exact ⟨x, hx, ha⟩)
  have hinput : ∀ t ∈ s.types, ∀ fs, t.kind = .inputObject fs → ∀ a ∈ fs, c a = true := by
    intro t ht fs hk a ha
    apply hall
    simp only [allInputValues, List.mem_append, List.mem_flatMap]
    refine Or.inl ⟨t, ht, ?_⟩
    rw [hk]; exact ha
  cases o with
  | typeDef d =>
    have hd := mem_of_typeDef? s d ho
    simp only [resolveI] at h
    repeat' split at h
    all_goals first
      | (cases h; done)
      | (injection h with h; subst h
         first
         | (simp [AllObj, allObjs_iff, Canon, canon_typeDefRV, canon_tyRV, canon_typesRV]; done)
         | (apply canon_inputValuesRV; exact hinput d hd _ ‹_›)
         | (simp only [AllObj, allObjs_iff]; intro x hx; obtain ⟨v, hv, rfl⟩ := List.mem_map.mp hx
            simp only [AllObj, Canon] <;> first
            | exact hfield d hd _ _ (Or.inl ‹_›) v (List.mem_filter.mp hv).1
            | exact hfield d hd _ _ (Or.inr ‹_›) v (List.mem_filter.mp hv).1))
  | schema =>
    simp only [resolveI] at h
    repeat' split at h
    all_goals first
      | (cases h; done)
      | (injection h with h; subst h
         first
         | (simp [AllObj, allObjs_iff, Canon, canon_typeDefOptRV]; done)
         | (simp only [AllObj, allObjs_iff]; intro x hx; obtain ⟨v, hv, rfl⟩ := List.mem_map.mp hx
            simp only [AllObj, Canon] <;> exact hdir v hv))
  | field d =>
    simp only [resolveI] at h
    repeat' split at h
    all_goals first
      | (cases h; done)
      | (injection h with h; subst h
         first
         | (simp [AllObj, allObjs_iff, Canon, canon_tyRV]; done)
         | (apply canon_inputValuesRV; exact hc))
  | directive d =>
    simp only [resolveI] at h
    repeat' split at h
    all_goals first
      | (cases h; done)
      | (injection h with h; subst h
         first
         | (simp [AllObj, allObjs_iff, Canon]; done)
         | (apply canon_inputValuesRV; exact hc))
  | root =>
    simp only [resolveI] at h
    repeat' split at h
    all_goals first
      | (cases h; done)
      | (injection h with h; subst h; simp [AllObj, Canon, canon_typeDefRV])
  | typeRef t =>
    simp only [resolveI] at h
    repeat' split at h
    all_goals first
      | (cases h; done)
      | (injection h with h; subst h; simp [AllObj, Canon, canon_typeDefRV, canon_tyRV])
  | enumValue d =>
    simp only [resolveI] at h
    repeat' split at h
    all_goals first
      | (cases h; done)
      | (injection h with h; subst h; simp [AllObj, Canon])
  | inputValue d =>
    simp only [resolveI] at h
    repeat' split at h
    all_goals first
      | (cases h; done)
      | (injection h with h; subst h; simp [AllObj, Canon, canon_tyRV])

/-- on objects whose input values are canonical the two readings of `defaultValue` give the same field values -/
theorem specField_canonical (fmtFloat : String → String) (dfuel : Nat) (s : ISchema) (o : IObj)
    (hc : Canon (canonicalDefault fmtFloat dfuel s) o) (f : String) (args : AList Json) :
    specField asWritten s (toSpec o) f args = specField (printedCoerced fmtFloat dfuel) s (toSpec o) f args := by
  cases o with
  | inputValue d =>
    simp only [toSpec, specField]
    rw [default_value_canonical fmtFloat dfuel s d hc]
  | typeRef t => cases t <;> simp only [toSpec, embed, specField]
  | _ => simp only [toSpec, specField]

/-- THE WHOLE RESPONSE WITH THE REFERENCE'S `defaultValue` (the printed coerced value): on every schema
    all of whose default values are written in canonical form, the modelled `partial_execute` returns
    exactly the specified response, for every introspection query. -/
theorem partialExecute_eq_spec_canonical (fmtFloat : String → String) (dfuel : Nat) (s : ISchema)
    (hu : typeNamesDistinct s = true) (hdep : deprecatedIsBuiltin s = true)
    (hcan : defaultsCanonical fmtFloat dfuel s = true)
    (fuel cfuel : Nat) (frags : AList Frag) (vars : AList Json) (sels : List Sel) :
    partialExecute fuel cfuel s frags vars sels =
      specResponse (printedCoerced fmtFloat dfuel) fuel cfuel s frags vars sels := by
  have hall : ∀ v ∈ allInputValues s, canonicalDefault fmtFloat dfuel s v = true := by
    simpa [defaultsCanonical] using hcan
  unfold partialExecute specResponse
  exact (executeG_map toSpec (fun o => ObjOk s o ∧ Canon (canonicalDefault fmtFloat dfuel s) o) (resolveI s)
    (specField (printedCoerced fmtFloat dfuel) s)
    (fun o f a ho => by rw [resolve_spec s hdep o ho.1 f a]; exact specField_canonical fmtFloat dfuel s o ho.2 f a)
    (fun o f a rv ho h => allObj_and _ _ rv (resolve_ok s hu o f a rv h) (resolve_canon s _ hall o ho.1 ho.2 f a rv h))
    fuel _ .root ⟨trivial, trivial⟩ sels).symm

end Apollo.Introspection
