import ApolloModel.Proofs.ParserExactT13
import ApolloModel.Proofs.ParserExactS15
/-
EXACT SOUNDNESS, part 16 (namespace Apollo.Parse.Exact): the final assembly.  (1) `X.*`: ParserExactS14 repeated with the
sound-side guard `itemFitX` (= `itemFit` with builderD's `looseFitX` for schema definitions / extensions: without "every
root operation type has its named type", which the recorded finding `schema { query: }` makes unprovable).  (2) the
discharged fields of `X.DefExact` (builderD's ParserExactT8-T11, builderB's extensions below) and the document theorems
over a structure that contains ONLY the fields not yet discharged.
-/
set_option linter.unusedSimpArgs false
namespace Apollo.Parse.Exact
open Apollo.Rowan hiding Str
open Apollo.Lex hiding Str

/-- the item guard of the sound side -/
def itemFitX (b : Nat) : DocItem → Prop
  | .exec _ d => execFit b d
  | .loose l => looseFitX b l

theorem itemFitX_of_fit (b : Nat) (i : DocItem) (h : itemFit b i) : itemFitX b i := by
  cases i with
  | exec oe d => exact h
  | loose l => exact looseFitX_of_looseFit b l h

end Apollo.Parse.Exact

namespace Apollo.Parse.Exact.X
open Apollo.Rowan hiding Str
open Apollo.Lex hiding Str

/-- what one call of a definition parser establishes: it consumed the tokens of ONE item within the budget of the start
    state, and the next significant token may follow it -/
@[reducible] def ItemRes (s s' : PState) : Prop :=
  ∃ (cs : List Tok) (i : DocItem), Toks s = cs ++ Toks s' ∧ NoEof cs ∧ EofEnd s' ∧ TokIs (sig cs) (DocItem.toks i) ∧
    itemFitX (bud s) i ∧ ∀ q, (sig (Toks s')).head? = some q → itemFollowQ i q

/-- exact soundness of one definition parser, entered the way the dispatcher enters it on a lexer queue -/
def DefSound (H : List Tok → Prop) (m : PI Unit) : Prop :=
  ∀ s s', TW s → EofEnd s → (LexQ (Toks s) ∧ H (Toks s)) → m.run s = .ok () s' → ¬ Doomed s' → ItemRes s s'

/-- **the hypotheses of the document theorem**: exact soundness of the eight type-system definition parsers and the seven
    extension parsers (operation and fragment definitions are theorems: `op_item`, `frag_item`) -/
structure DefExact (n : Nat) : Prop where
  directive : DefSound (DStart "directive".toList) (directiveDefinition n)
  enumDef : DefSound (DStart "enum".toList) (enumTypeDefinition n)
  input : DefSound (DStart "input".toList) (inputObjectTypeDefinition n)
  interface : DefSound (DStart "interface".toList) (interfaceTypeDefinition n)
  object : DefSound (DStart "type".toList) (objectTypeDefinition n)
  scalar : DefSound (DStart "scalar".toList) (scalarTypeDefinition n)
  schema : DefSound (DStart "schema".toList) (schemaDefinition n)
  union : DefSound (DStart "union".toList) (unionTypeDefinition n)
  schemaExt : DefSound (EStart "schema".toList) (schemaExtension n)
  scalarExt : DefSound (EStart "scalar".toList) (scalarTypeExtension n)
  objectExt : DefSound (EStart "type".toList) (objectTypeExtension n)
  interfaceExt : DefSound (EStart "interface".toList) (interfaceTypeExtension n)
  unionExt : DefSound (EStart "union".toList) (unionTypeExtension n)
  enumExt : DefSound (EStart "enum".toList) (enumTypeExtension n)
  inputExt : DefSound (EStart "input".toList) (inputObjectTypeExtension n)

/-! ### executable definitions as items -/

theorem item_of_lexec (b : Nat) (x : List Ast.Tok) (h : LExecDef b x) : ∃ i : DocItem, i.toks = x ∧ itemFitX b i ∧ ∀ q, itemFollowQ i q := by
  rcases h with (⟨ty, nm, vs, ds, ss, rfl, hv, hd, hne, hb, hf⟩ | ⟨ss, hne, rfl, hb, hf⟩) | ⟨nm, tc, ds, ss, rfl, hn, hd, hne, hb, hf⟩
  · exact ⟨.exec false (.operation ty nm vs ds ss), tOperation_eq ty nm vs ds ss, ⟨hv, hd, hne, hb, hf⟩, fun _ => trivial⟩
  · refine ⟨.exec true (.operation .query none [] [] ss), ?_, ⟨(by intro v hv; cases hv), (by intro d hd; cases hd), hne, hb, hf⟩, fun _ => trivial⟩
    show Ast.tDefinition true (.operation .query none [] [] ss) = _
    rw [shorthand_toks]; simp [Ast.tSelSet]
  · exact ⟨.exec false (.fragment nm tc ds ss), rfl, ⟨hn, hd, hne, hb, hf⟩, fun _ => trivial⟩

theorem itemRes_of_cons {s s' : PState} (c : Cons s s' (LExecDef (bud s))) : ItemRes s s' := by
  obtain ⟨cs, x, a, b, e, d, hl⟩ := c
  obtain ⟨i, rfl, hfit, hfol⟩ := item_of_lexec _ _ hl
  exact ⟨cs, i, a, b, e, d, hfit, fun q _ => hfol q⟩

/-- `operation_definition`, from any state -/
theorem op_item (n : Nat) (s s' : PState) (w : TW s) (he : EofEnd s)
    (h : (operationDefinition n).run s = .ok () s') (hnd : ¬ Doomed s') : ItemRes s s' :=
  itemRes_of_cons ((operationDefinition_sound n s s' w he h hnd).weaken (fun _ hx => Or.inl hx))

/-- `fragment_definition`, entered on the keyword (on a description it is never error-free) -/
theorem frag_item (n : Nat) (s s' : PState) (w : TW s) (he : EofEnd s)
    (hq : LexQ (Toks s) ∧ DStart "fragment".toList (Toks s))
    (h : (fragmentDefinition n).run s = .ok () s') (hnd : ¬ Doomed s') : ItemRes s s' := by
  obtain ⟨hs, t, rest, ht, hstart⟩ := hq
  rcases hstart with ⟨_, hd⟩ | ⟨hk, _⟩
  · have hkn : t.kind = .name := hs.headKw (by rw [ht]; rfl) "fragment" 'f' "ragment".toList rfl rfl hd
    exact itemRes_of_cons ((fragmentDefinition_sound n s s' t rest w he ht hkn hd h hnd).weaken (fun _ hx => Or.inr hx))
  · exfalso
    obtain ⟨_, _, _, _, a4⟩ := (acc_fragmentDefinition_desc n (R := fun _ _ => False)).2 s () s' w he ⟨t, by rw [ht]; rfl, hk⟩ h hnd
    rcases a4 with ⟨_, _, f⟩ | f <;> exact f

/-! ### the dispatch -/

/-- `extensions()` reached on the Name `extend` -/
theorem extensions_soundG {n : Nat} (L : DefExact n) (s s' : PState) (t : Tok) (rest : List Tok) (w : TW s) (he : EofEnd s)
    (hs : LexQ (Toks s)) (hc : s.current = some t) (ht : Toks s = t :: rest) (hk : t.kind = .name) (hd : t.data = "extend".toList)
    (h : (extensions n).run s = .ok () s') (hnd : ¬ Doomed s') : ItemRes s s' := by
  unfold extensions at h
  obtain ⟨d, s1, h1, h2⟩ := bind_dec (peekDataN 2) _ s s' () h
  obtain ⟨rfl, hdat⟩ := peekDataN2_spec s s1 d t rest w hc ht (by rw [hk]; rfl) h1
  have start : ∀ wd : String, kwOpt wd d = true → LexQ (Toks s1) ∧ EStart wd.toList (Toks s1) := by
    intro wd hw
    have := kwOpt_eq hw
    rw [hdat] at this
    cases hq : (sig rest).head? with
    | none => rw [hq] at this; cases this
    | some t2 =>
      rw [hq] at this
      exact ⟨hs, t, rest, t2, ht, hk, hd, hq, by simpa using this⟩
  repeat' split at h2
  all_goals first
    | exact L.schemaExt s1 s' w he (start _ (by assumption)) h2 hnd
    | exact L.scalarExt s1 s' w he (start _ (by assumption)) h2 hnd
    | exact L.objectExt s1 s' w he (start _ (by assumption)) h2 hnd
    | exact L.interfaceExt s1 s' w he (start _ (by assumption)) h2 hnd
    | exact L.unionExt s1 s' w he (start _ (by assumption)) h2 hnd
    | exact L.enumExt s1 s' w he (start _ (by assumption)) h2 hnd
    | exact L.inputExt s1 s' w he (start _ (by assumption)) h2 hnd
    | exact absurd (errAndPop_never s1 s' w he h2) hnd


/-- `select_definition(d)` with `d` the keyword the dispatcher looked at -/
theorem selectDefinition_soundG {n : Nat} (L : DefExact n) (d : Str) (s s' : PState) (t : Tok) (rest : List Tok)
    (w : TW s) (he : EofEnd s) (hs : LexQ (Toks s)) (hc : s.current = some t) (ht : Toks s = t :: rest)
    (hstart : ((t.kind = .name ∨ t.kind = .lCurly) ∧ t.data = d) ∨
      (t.kind = .stringValue ∧ ∃ t2, (sig rest).head? = some t2 ∧ t2.data = d))
    (h : (selectDefinition n d).run s = .ok () s') (hnd : ¬ Doomed s') : ItemRes s s' := by
  have start : ∀ wd : String, kw wd d = true → LexQ (Toks s) ∧ DStart wd.toList (Toks s) := by
    intro wd hw
    have := kw_eq hw
    subst this
    exact ⟨hs, t, rest, ht, hstart⟩
  have errc : errAndPop.run s = .ok () s' → ItemRes s s' := fun h' => absurd (errAndPop_never s s' w he h') hnd
  unfold selectDefinition at h
  by_cases h1 : kw "directive" d = true
  · simp only [h1, if_true] at h; exact L.directive s s' w he (start _ h1) h hnd
  simp only [h1, Bool.false_eq_true, if_false] at h
  by_cases h2 : kw "enum" d = true
  · simp only [h2, if_true] at h; exact L.enumDef s s' w he (start _ h2) h hnd
  simp only [h2, Bool.false_eq_true, if_false] at h
  by_cases h3 : kw "extend" d = true
  · simp only [h3, if_true] at h
    have hd := kw_eq h3
    rcases hstart with ⟨hk, hdat⟩ | ⟨hk, t2, hq, hdat⟩
    · rcases hk with hk | hk
      · exact extensions_soundG L s s' t rest w he hs hc ht hk (by rw [hdat, hd]) h hnd
      · exfalso
        have := hs t (by rw [ht]; exact List.mem_cons_self ..) 'e' "xtend".toList (by rw [hdat, hd]; rfl) (by decide)
        rw [hk] at this
        cases this
    · -- a description followed by `extend`: `extensions` looks at `extend` itself and reports an error
      unfold extensions at h
      obtain ⟨d2, s1, e1, e2⟩ := bind_dec (peekDataN 2) _ s s' () h
      obtain ⟨rfl, hdat2⟩ := peekDataN2_spec s s1 d2 t rest w hc ht (by rw [hk]; rfl) e1
      rw [hq] at hdat2
      simp only [Option.map_some] at hdat2
      rw [hdat, hd] at hdat2
      subst hdat2
      have e : ∀ wd : String, wd ≠ "extend" → kwOpt wd (some "extend".toList) = false := by
        intro wd hne
        simp only [kwOpt, beq_eq_false_iff_ne, ne_eq, Option.some.injEq]
        intro h'; exact hne (String.ext_iff.mpr (by simpa using h'.symm))
      simp only [e "schema" (by decide), e "scalar" (by decide), e "type" (by decide), e "interface" (by decide),
        e "union" (by decide), e "enum" (by decide), e "input" (by decide), Bool.false_eq_true, if_false] at e2
      exact errc e2
  simp only [h3, Bool.false_eq_true, if_false] at h
  by_cases h4 : kw "fragment" d = true
  · simp only [h4, if_true] at h; exact frag_item n s s' w he (start _ h4) h hnd
  simp only [h4, Bool.false_eq_true, if_false] at h
  by_cases h5 : kw "input" d = true
  · simp only [h5, if_true] at h; exact L.input s s' w he (start _ h5) h hnd
  simp only [h5, Bool.false_eq_true, if_false] at h
  by_cases h6 : kw "interface" d = true
  · simp only [h6, if_true] at h; exact L.interface s s' w he (start _ h6) h hnd
  simp only [h6, Bool.false_eq_true, if_false] at h
  by_cases h7 : kw "type" d = true
  · simp only [h7, if_true] at h; exact L.object s s' w he (start _ h7) h hnd
  simp only [h7, Bool.false_eq_true, if_false] at h
  by_cases h8 : (kw "query" d || kw "mutation" d || kw "subscription" d || kw "{" d) = true
  · simp only [h8, if_true] at h
    simp only [Bool.or_eq_true] at h8
    rcases h8 with ((h8 | h8) | h8) | h8
    · exact op_item n s s' w he h hnd
    · exact op_item n s s' w he h hnd
    · exact op_item n s s' w he h hnd
    · exact op_item n s s' w he h hnd
  simp only [h8, Bool.false_eq_true, if_false] at h
  by_cases h9 : kw "scalar" d = true
  · simp only [h9, if_true] at h; exact L.scalar s s' w he (start _ h9) h hnd
  simp only [h9, Bool.false_eq_true, if_false] at h
  by_cases h10 : kw "schema" d = true
  · simp only [h10, if_true] at h; exact L.schema s s' w he (start _ h10) h hnd
  simp only [h10, Bool.false_eq_true, if_false] at h
  by_cases h11 : kw "union" d = true
  · simp only [h11, if_true] at h; exact L.union s s' w he (start _ h11) h hnd
  simp only [h11, Bool.false_eq_true, if_false] at h
  exact errc h

/-- **the dispatcher of `document()`**: on a token of a kind other than EOF, an error-free run consumes exactly

    the tokens of one definition of the grammar -/
theorem dispatch_soundG {n : Nat} (L : DefExact n) (s s' : PState) (t : Tok) (rest : List Tok)
    (w : TW s) (he : EofEnd s) (hs : LexQ (Toks s)) (hc : s.current = some t) (ht : Toks s = t :: rest)
    (h : (documentDispatch n t.kind).run s = .ok () s') (hnd : ¬ Doomed s') : ItemRes s s' := by
  have errc : ∀ s1, s1 = s → errAndPop.run s1 = .ok () s' → ItemRes s s' := fun s1 e h' => by
    subst e
    exact absurd (errAndPop_never s1 s' w he h') hnd
  unfold documentDispatch at h
  by_cases hk : (t.kind == .stringValue) = true
  · simp only [hk, if_true] at h
    have hk' : t.kind = .stringValue := by simpa using hk
    obtain ⟨d, s1, e1, e2⟩ := bind_dec (peekDataN 2) _ s s' () h
    obtain ⟨rfl, hdat⟩ := peekDataN2_spec s s1 d t rest w hc ht (by rw [hk']; rfl) e1
    cases hq : (sig rest).head? with
    | none =>
      rw [hq] at hdat; subst hdat
      exact errc s1 rfl e2
    | some t2 =>
      rw [hq] at hdat; subst hdat
      exact selectDefinition_soundG L t2.data s1 s' t rest w he hs hc ht (.inr ⟨hk', t2, hq, rfl⟩) e2 hnd
  · simp only [hk, Bool.false_eq_true, if_false] at h
    by_cases hk2 : (t.kind == .name || t.kind == .lCurly) = true
    · simp only [hk2, if_true] at h
      obtain ⟨d, s1, e1, e2⟩ := bind_dec peekData _ s s' () h
      obtain ⟨rfl, hdat⟩ := peekData_cur s s1 d t hc e1
      subst hdat
      have hk2' : t.kind = .name ∨ t.kind = .lCurly := by simpa using hk2
      exact selectDefinition_soundG L t.data s1 s' t rest w he hs hc ht (.inl ⟨hk2', rfl⟩) e2 hnd
    · simp only [hk2, Bool.false_eq_true, if_false] at h
      exact errc s rfl h


/-! ### follow conditions: from the actual token to the abstract syntax -/

theorem itemFollowX_of_tok (i : DocItem) (f : Option Ast.Tok) (q : Tok) (hq : FollowTokOf f q) (h : itemFollowQ i q) : itemFollowX i f := by
  cases i with
  | exec oe d => trivial
  | loose l =>
    intro ho hf
    subst hf
    have ha : astOfV q = some (.p .lCurly) := hq
    exact h ho (kind_of_astOfV ha)

theorem looseToks_ne (l : LooseDef) : l.toks ≠ [] := by
  intro h
  have hl := congrArg List.length h
  cases l <;>
    simp only [LooseDef.toks, scalarToks, unionToks, enumToks, inputToks, directiveToks, schemaToks, objectLikeToks, kwE, kwPart_true,
      Ast.tEnumBody, Ast.tInputBody, List.length_append, List.length_cons, List.length_nil] at hl <;> omega

theorem itemToks_ne (b : Nat) (i : DocItem) (h : itemFitX b i) : i.toks ≠ [] := by
  cases i with
  | loose l => exact looseToks_ne l
  | exec oe d =>
    have hl := execFit_lexec b oe d h
    rcases hl with (⟨ty, nm, vs, ds, ss, e, _⟩ | ⟨ss, _, e, _⟩) | ⟨nm, tc, ds, ss, e, _⟩
    · show Ast.tDefinition oe d ≠ []
      rw [e]; simp [tOperation]
    · show Ast.tDefinition oe d ≠ []
      rw [e]; simp
    · show Ast.tDefinition oe d ≠ []
      rw [e]; simp [Ast.tDefinition]

/-- the first significant token of a queue that starts with the spelling of a non-empty token list -/
theorem sig_head_spelled (cs rest : List Tok) (x : List Ast.Tok) (hx : TokIs (sig cs) x) (hne : x ≠ []) :
    ∃ q, (sig (cs ++ rest)).head? = some q ∧ FollowTokOf x.head? q := by
  cases x with
  | nil => exact absurd rfl hne
  | cons a x' =>
    cases hc : sig cs with
    | nil => rw [hc] at hx; simp [TokIs] at hx
    | cons q c' =>
      rw [hc] at hx
      refine ⟨q, by rw [sig_append, hc]; rfl, ?_⟩
      have : astOfV q = some a := by
        have := congrArg List.head? hx
        simpa using this
      exact this

/-! ### the loop of `document()` -/

theorem docLoop_soundG {n : Nat} (L : DefExact n) (B : Nat) : ∀ (fuel : Nat) (s s' : PState), TW s → EofEnd s → LexQ (Toks s) → bud s = B →
    (peekWhileLoop (documentStep n) fuel).run s = .ok () s' → ¬ Doomed s' →
    ∃ (cs : List Tok) (its : List DocItem), Toks s = cs ++ Toks s' ∧ NoEof cs ∧ EofEnd s' ∧ TokIs (sig cs) (docToks its) ∧
      (∀ i ∈ its, itemFitX B i) ∧ DocFollowX its ∧ AtEof s' ∧
      ∀ q, (sig (Toks s)).head? = some q → FollowTokOf (docToks its).head? q := by
  intro fuel
  induction fuel with
  | zero => intro s s' _ _ _ _ h; simp [peekWhileLoop, PI.outOfFuel] at h
  | succ fuel ih =>
    intro s s' w he hs hB h hnd
    unfold peekWhileLoop at h
    obtain ⟨ko, sP, hp, h2⟩ := bind_dec peek _ s s' () h
    obtain ⟨o, p', hko⟩ := peek_obs s sP ko w hp
    subst hko
    have heP : EofEnd sP := eofEnd_eat he p'.eat (by intro x hx; cases hx)
    cases o with
    | none =>
      simp only [Option.map_none] at h2
      rw [run_pure] at h2
      injection h2 with _ h2
      subst h2
      exfalso
      have hndP : ¬ Doomed sP := hnd
      have hne := eofEnd_nonempty sP heP hndP
      have hh := p'.head
      rw [← p'.toks] at hh
      cases hq : Toks sP with
      | nil => exact hne hq
      | cons a b => rw [hq] at hh; cases hh
    | some t =>
      simp only [Option.map_some] at h2
      have h3 := getCurrent_dec _ sP s' () h2
      obtain ⟨b, sB, hb, h4⟩ := bind_dec (documentStep n t.kind) _ sP s' () h3
      have htP : Toks sP = t :: (Toks sP).tail := p'.head_cons
      unfold documentStep at hb
      by_cases hk : (t.kind == .eof) = true
      · -- the EOF token: the loop stops
        simp only [hk, if_true] at hb
        obtain ⟨_, s0, e0, e1⟩ := bind_dec assertRecZero _ sP sB b hb
        rw [assertRecZero_run] at e0
        injection e0 with _ e0
        subst e0
        rw [run_pure] at e1
        injection e1 with e1 e2
        subst e1 e2
        simp only [Bool.false_eq_true, if_false] at h4
        rw [run_pure] at h4
        injection h4 with _ h4
        subst h4
        have hke : t.kind = .eof := by simpa using hk
        refine ⟨[], [], by rw [toks_flagged, p'.toks]; rfl, (by intro x hx; cases hx), eofEnd_flagged heP, TokIs.nil,
          (by intro i hi; cases hi), trivial, ⟨t, by rw [toks_flagged, htP]; rfl, hke⟩, ?_⟩
        intro q hq
        rw [← p'.toks, htP] at hq
        have hsg : sig (t :: (Toks sP).tail) = t :: sig (Toks sP).tail := by simp [sig, isIgnoredKind, hke]
        rw [hsg] at hq
        simp only [List.head?_cons, Option.some.injEq] at hq
        subst hq
        exact hke
      · simp only [hk, Bool.false_eq_true, if_false] at hb
        obtain ⟨_, s0, e0, eD⟩ := bind_dec assertRecZero _ sP sB b hb
        rw [assertRecZero_run] at e0
        injection e0 with _ e0
        subst e0
        obtain ⟨_, sD, eD2, e1⟩ := bind_dec (documentDispatch n t.kind) _ (flagged sP) sB b eD
        rw [run_pure] at e1
        injection e1 with e1 e2
        subst e1 e2
        simp only [if_true] at h4
        have h5 := getCurrent_dec _ sD s' () h4
        have aD := good_documentDispatch (defLemmas n) t.kind (flagged sP) () sD (tw_flagged p'.w) eD2
        by_cases hsame : (sP.current == sD.current) = true
        · simp only [hsame, if_true] at h5
          exact absurd h5 (stuck_not_ok _ _ _)
        · simp only [hsame, Bool.false_eq_true, if_false] at h5
          have hndD : ¬ Doomed sD := fun d => hnd ((good_peekWhileLoop _ (good_documentStep (defLemmas n)) fuel sD () s' aD.w h5).doom d)
          have hsP : LexQ (Toks sP) := by rw [p'.toks]; exact hs
          have hBf : bud (flagged sP) = B := by rw [show bud (flagged sP) = bud sP from rfl, bud_peek p', hB]
          obtain ⟨c1, i1, t1, n1, e1', hx1, hfit1, hfol1⟩ := dispatch_soundG L (flagged sP) sD t (Toks sP).tail (tw_flagged p'.w)
            (eofEnd_flagged heP) (by rw [toks_flagged]; exact hsP) p'.current (by rw [toks_flagged]; exact htP) eD2 hndD
          rw [hBf] at hfit1
          rw [toks_flagged] at t1
          have hsD : LexQ (Toks sD) := by rw [t1] at hsP; exact hsP.suffix
          have hBD : bud sD = B := by rw [bud_adv aD, hBf]
          obtain ⟨c2, its2, t2, n2, e2', hx2, hfit2, hfol2, hat, hlink⟩ := ih sD s' aD.w e1' hsD hBD h5 hnd
          have hne1 := itemToks_ne B i1 hfit1
          refine ⟨c1 ++ c2, i1 :: its2, by rw [← p'.toks, t1, t2, List.append_assoc], noEof_append n1 n2, e2', ?_, ?_, ⟨?_, hfol2⟩, hat, ?_⟩
          · rw [sig_append]
            have : docToks (i1 :: its2) = i1.toks ++ docToks its2 := by simp [docToks]
            rw [this]; exact hx1.append hx2
          · intro i hi'
            rcases List.mem_cons.mp hi' with rfl | hi'
            · exact hfit1
            · exact hfit2 i hi'
          · -- the follow condition of the first item: the next significant token is the head of what follows
            have hnD : Toks sD ≠ [] := eofEnd_nonempty sD e1' hndD
            cases hsg : (sig (Toks sD)).head? with
            | none =>
              exfalso
              obtain ⟨e, hh, hke⟩ : ∃ e, (sig (Toks sD)).getLast? = some e ∧ e.kind = .eof := by
                rcases e1' with d | ⟨pre, e, hq, hke, _⟩
                · exact absurd d hndD
                · refine ⟨e, ?_, hke⟩
                  rw [hq, sig_append]
                  have : sig [e] = [e] := by simp [sig, isIgnoredKind, hke]
                  rw [this]; simp
              cases hs0 : sig (Toks sD) with
              | nil => rw [hs0] at hh; cases hh
              | cons a r => rw [hs0] at hsg; cases hsg
            | some q => exact itemFollowX_of_tok i1 _ q (hlink q hsg) (hfol1 q hsg)
          · intro q hq
            have : docToks (i1 :: its2) = i1.toks ++ docToks its2 := by simp [docToks]
            rw [this]
            obtain ⟨q', hq', hf'⟩ := sig_head_spelled c1 (Toks sD) i1.toks hx1 hne1
            rw [← p'.toks, t1, hq'] at hq
            injection hq with hq
            subst hq
            cases hti : i1.toks with
            | nil => exact absurd hti hne1
            | cons a x' => rw [hti] at hf'; exact hf'

/-! ### `document()` and the entry point -/

theorem documentBody_soundG {n : Nat} (L : DefExact n) (B : Nat) (s s' : PState) (w : TW s) (he : EofEnd s) (hs : LexQ (Toks s)) (hB : bud s = B)
    (hset : Settled s) (h : (documentBody n).run s = .ok () s') (hnd : ¬ Doomed s') :
    ∃ (cs : List Tok) (its : List DocItem) (e : Tok), Toks s = cs ++ [e] ∧ e.kind = .eof ∧ NoEof cs ∧ TokIs (sig cs) (docToks its) ∧ its ≠ [] ∧
      (∀ i ∈ its, itemFitX B i) ∧ DocFollowX its := by
  unfold documentBody at h
  obtain ⟨ko, sP, hp, h2⟩ := bind_dec peek _ s s' () h
  obtain ⟨o, p, hko⟩ := peek_obs s sP ko w hp
  subst hko
  have heP : EofEnd sP := p.eofEnd he
  obtain ⟨_, sE, hE, h3⟩ := bind_dec (errIfEmpty _) _ sP s' () h2
  obtain ⟨_, sL, hL, h4⟩ := bind_dec (peekWhile (documentStep n)) _ sE s' () h3
  have o4 := pushIgnored_obs sL s' h4
  have hndL : ¬ Doomed sL := fun d => hnd (o4.doomed.mpr d)
  -- `errIfEmpty`: an error unless a token other than EOF is there
  unfold errIfEmpty at hE
  by_cases hemp : (o.map (·.kind) == none || o.map (·.kind) == some .eof) = true
  · exfalso
    simp only [hemp, if_true] at hE
    have gE := good_err sP () sE p.w hE
    have gL := good_peekWhile _ (good_documentStep (defLemmas n)) sE () sL gE.w hL
    obtain ⟨_, d⟩ := err_adv sP sE p.w hE
    have hndP : ¬ Doomed sP := fun dd => hndL (gL.doom (gE.doom dd))
    exact hndL (gL.doom (d (eofEnd_nonempty sP heP hndP)))
  · simp only [hemp, Bool.false_eq_true, if_false] at hE
    rw [run_pure] at hE
    injection hE with _ hE
    subst hE
    obtain ⟨fuel, h5⟩ := srcLen_dec _ sP sL () hL
    have hsP : LexQ (Toks sP) := by rw [p.toks]; exact hs
    have hBP : bud sP = B := by rw [bud_peek p, hB]
    obtain ⟨cs, its, t1, n1, e1, hx, hfit, hfol, hat, _⟩ := docLoop_soundG L B _ sP sL p.w heP hsP hBP h5 hndL
    obtain ⟨e, hte, hke⟩ := atEof_single sL e1 hndL hat
    -- the first token is significant and not EOF, so something was consumed
    obtain ⟨t, ht⟩ : ∃ t, o = some t := by
      cases o with
      | none => simp at hemp
      | some t => exact ⟨t, rfl⟩
    subst ht
    have hkt : t.kind ≠ .eof := by
      intro hk; simp [hk] at hemp
    have hni : isIgnoredKind t.kind = false := by
      have hcur : s.current = some t := by
        have h1 := hset.1
        have h2 := p.head
        rw [h1, ← h2]
      exact hset.2 t hcur
    have htP : Toks sP = t :: (Toks sP).tail := p.head_cons
    have hcs : ∃ cs', cs = t :: cs' := by
      cases cs with
      | nil =>
        exfalso
        rw [hte] at t1
        simp only [List.nil_append] at t1
        rw [t1] at htP
        injection htP with h1 _
        exact hkt (by rw [← h1]; exact hke)
      | cons a cs' =>
        rw [htP] at t1
        injection t1 with h1 _
        exact ⟨cs', by rw [h1]⟩
    obtain ⟨cs', rfl⟩ := hcs
    refine ⟨t :: cs', its, e, by rw [← p.toks, t1, hte], hke, n1, hx, ?_, hfit, hfol⟩
    intro hi0
    subst hi0
    have : sig (t :: cs') = t :: sig cs' := by simp [sig, hni]
    rw [this] at hx
    simp [TokIs, docToks] at hx


/-- `document()`: the node, the ignored tokens in front, the body -/
theorem document_sound_runG {n : Nat} (L : DefExact n) (B : Nat) (s s' : PState) (w : TW s) (he : EofEnd s) (hs : LexQ (Toks s)) (hB : bud s = B)
    (h : (document n).run s = .ok () s') (hnd : ¬ Doomed s') :
    ∃ (ts : List Tok) (its : List DocItem) (e : Tok), sig (Toks s) = ts ++ [e] ∧ e.kind = .eof ∧ TokIs ts (docToks its) ∧ its ≠ [] ∧
      (∀ i ∈ its, itemFitX B i) ∧ DocFollowX its := by
  unfold document at h
  obtain ⟨s0, s2, o0, hr0, o2⟩ := withNode_dec "DOCUMENT" (documentBody n) s s' () h
  obtain ⟨_, s1, hsk, hb⟩ := bind_dec skipIgnored _ s0 s2 () hr0
  obtain ⟨ign, e01', hall, hset⟩ := skipIgnored_spec s0 s1 (o0.w w) hsk
  have e01 : Eat s s1 ign := by simpa using (Eat.ofObsEq o0 w).trans e01'
  have he1 : EofEnd s1 := eofEnd_eat he e01 (noEof_ignored ign hall)
  have hnd2 : ¬ Doomed s2 := fun d => hnd (o2.doomed.mpr d)
  have hs1 : LexQ (Toks s1) := by rw [e01.toks] at hs; exact hs.suffix
  have hB1 : bud s1 = B := by rw [bud_eat e01, hB]
  obtain ⟨cs, its, e, t1, hke, _, hx, hdoc⟩ := documentBody_soundG L B s1 s2 e01.w he1 hs1 hB1 hset hb hnd2
  refine ⟨sig cs, its, e, ?_, hke, hx, hdoc⟩
  rw [e01.toks, t1, sig_append, sig_append, sig_ignored ign hall]
  have : sig [e] = [e] := by simp [sig, isIgnoredKind, hke]
  rw [this]; rfl


theorem parseDocument_sound_exactG (L : ∀ n, DefExact n) (rl : Nat) (src : Str) (root : Elem)
    (h : (parse .document none rl src).outcome = .tree root) (herr : (parse .document none rl src).errors = []) :
    LexClean src ∧ ∃ (ts : List Tok) (its : List DocItem) (e : Tok), sig (srcToks src) = ts ++ [e] ∧ e.kind = .eof ∧
      TokIs ts (docToks its) ∧ its ≠ [] ∧ (∀ i ∈ its, itemFitX rl i) ∧ DocFollowX its := by
  unfold parse runEntry at h herr
  simp only [Entry.standalone, Entry.grammar] at h herr
  have hinv := init_inv src none rl
  have w0 : TW (initState src none rl) := ⟨rfl, by intro h; simp [initState] at h⟩
  have htoks : Toks (initState src none rl) = srcToks src := rfl
  have hdoom : Doomed (initState src none rl) ↔ ¬ LexClean src := by
    unfold Doomed LexClean
    show ([] ≠ [] ∨ hasErr (stream (initState src none rl).lx) = true) ↔ _
    have : (initState src none rl).lx = (initState src none 0).lx := rfl
    rw [this]
    constructor
    · rintro (h | h)
      · exact absurd rfl h
      · simp [h]
    · intro h; right; simpa using h
  have he0 : EofEnd (initState src none rl) := by
    right
    obtain ⟨pre, e, hp, he, hno⟩ := stream_eof_end src.length (initState src none 0).lx (Nat.le_refl _) rfl rfl
    exact ⟨pre, e, by rw [htoks]; exact hp, he, hno⟩
  cases hr : (document (fuelFor src)).run (initState src none rl) with
  | abort w => simp [hr] at h
  | panic m => simp [hr] at h
  | ok a s =>
    simp only [hr] at h herr
    have gd := good_withNode "DOCUMENT" _ (good_documentBody (defLemmas (fuelFor src))) _ a s w0 (by unfold document at hr; exact hr)
    -- the final state: no error recorded, and the lexer is exhausted
    obtain ⟨hfin, hlim⟩ := PI.run_ok (document (fuelFor src)) _ hinv a s hr
    obtain ⟨cs, s2, _, _, hrun, _, _, hlx, _, _, _⟩ :=
      withNode_result "DOCUMENT" (documentBody (fuelFor src)) _ hinv a s hr
    have hi0 : Inv (rawStartNode "DOCUMENT" { initState src none rl with builder := { (initState src none rl).builder with children := (initState src none rl).builder.children ++ (initState src none rl).pending.map pendingElem }, pending := [] }) :=
      ⟨fun _ => by simp [initState, Builder.new, rawStartNode, Builder.startNode, textList, pendingText, curText],
       fun p hp => by simp [initState, Builder.new, rawStartNode, Builder.startNode] at hp; simp [hp, initState, Builder.new, rawStartNode, Builder.startNode],
       fun hfin => by simp [initState, rawStartNode] at hfin, fun t ht => by simp [initState, rawStartNode] at ht,
       fun ha => by simp [initState, rawStartNode] at ha⟩
    obtain ⟨u, s1, hsk, hbody⟩ := bind_dec skipIgnored _ _ s2 a hrun
    obtain ⟨hi1, hl1⟩ := PI.run_ok skipIgnored _ hi0 u s1 hsk
    have hl1' : s1.lx.limit = none := by rw [hl1]; rfl
    obtain ⟨_, hex2, _⟩ := documentBody_final (fuelFor src) s1 s2 hi1 hl1' hbody
    have hsrc : s.lx.src = [] := by rw [hlx]; exact hex2.2
    have hnd : ¬ Doomed s := by
      rintro (d | d)
      · exact d herr
      · rw [hasErr_src_nil s.lx gd.w.limit hsrc] at d; cases d
    have hnd0 : ¬ Doomed (initState src none rl) := fun d => hnd (gd.doom d)
    refine ⟨Classical.byContradiction (fun hc => hnd0 (hdoom.mpr hc)), ?_⟩
    have := document_sound_runG (L (fuelFor src)) rl _ s w0 he0 (by rw [htoks]; exact lexQ_srcToks src) (by simp [bud, initState]) hr hnd
    rw [htoks] at this
    exact this


/-- **the document sandwich at the exact budget, parameterised**: given the exact soundness of the fifteen type-system
    definition / extension parsers, zero errors IMPLIES the item decomposition with `itemFit rl` and the exact follow
    condition `DocFollowX`, and the decomposition with the (stronger) guard `DocFollowOk` IMPLIES zero errors.  The two
    differ exactly by documents in which `{` (a shorthand query) directly follows a type-system definition whose braces
    body IS written (`type T { a: Int } { b }` is accepted). -/
theorem document_sandwichG (L : ∀ n, DefExact n) (rl : Nat) (src : Str) :
    ((parse .document none rl src).errors = [] →
      LexClean src ∧ ∃ (ts : List Tok) (its : List DocItem) (e : Tok), sig (srcToks src) = ts ++ [e] ∧ e.kind = .eof ∧
        TokIs ts (docToks its) ∧ its ≠ [] ∧ (∀ i ∈ its, itemFitX rl i) ∧ DocFollowX its) ∧
    ((LexClean src ∧ ∃ (ts : List Tok) (its : List DocItem) (e : Tok), sig (srcToks src) = ts ++ [e] ∧ e.kind = .eof ∧
        TokIs ts (docToks its) ∧ its ≠ [] ∧ (∀ i ∈ its, itemFit rl i) ∧ DocFollowOk its) →
      (parse .document none rl src).errors = []) := by
  constructor
  · intro herr
    obtain ⟨root, hroot⟩ := parseDocument_tree none rl src
    exact parseDocument_sound_exactG L rl src root hroot herr
  · rintro ⟨hclean, ts, its, e, h1, h2, h3, h4, h5, h6⟩
    exact parseDocument_complete_items rl src its ts e hclean h1 h2 h3 h4 h5 h6

/-- adaptor for the per-parser lemmas: consumed `l.toks` within the budget, the state afterwards is settled, and the
    current token is not `{` when the braces body is absent -/
theorem defSound_of_loose (H : List Tok → Prop) (m : PI Unit)
    (h : ∀ s s', TW s → EofEnd s → LexQ (Toks s) → H (Toks s) → m.run s = .ok () s' → ¬ Doomed s' →
      ∃ (cs : List Tok) (l : LooseDef), Toks s = cs ++ Toks s' ∧ NoEof cs ∧ EofEnd s' ∧ TokIs (sig cs) l.toks ∧ looseFitX (bud s) l ∧
        Settled s' ∧ (openBody l → ∀ t, s'.current = some t → t.kind ≠ .lCurly)) : DefSound H m := by
  intro s s' w he hq hr hnd
  obtain ⟨cs, l, a, b, c, d, e, hset, f⟩ := h s s' w he hq.1 hq.2 hr hnd
  refine ⟨cs, .loose l, a, b, c, d, e, ?_⟩
  intro q hq' ho
  refine f ho q ?_
  rw [hset.1, ← settled_sig_head s' hset]
  exact hq'

/-- a field proved against the guard `itemFit` is a field for `itemFitX` -/
theorem defSound_of_fit (H : List Tok → Prop) (m : PI Unit) (h : Exact.DefSound H m) : DefSound H m := by
  intro s s' w he hq hr hnd
  obtain ⟨cs, i, a, b, c, d, e, f⟩ := h s s' w he hq hr hnd
  exact ⟨cs, i, a, b, c, d, itemFitX_of_fit _ _ e, f⟩

end Apollo.Parse.Exact.X

/-! ## object / interface type extensions -/

namespace Apollo.Parse.Exact
open Apollo.Rowan hiding Str
open Apollo.Lex hiding Str

/-- `ext2_sound` with the lexer fact handed on to the tail -/
theorem ext2_soundQ (K : SK) (w2 : String) (hw2 : KwWord w2) (sk1 sk2 : SK) (tail : PI Unit) (L : Nat → Option Tok → List Ast.Tok → Prop)
    (gt : Good tail)
    (ht : ∀ s s', TW s → EofEnd s → LexQ (Toks s) → tail.run s = .ok () s' → ¬ Doomed s' → Cons s s' (L (bud s) s'.current))
    (s s' : PState) (w : TW s) (he : EofEnd s) (hq : LexQ (Toks s)) (hs : EStart w2.toList (Toks s))
    (h : (withNode K (bump sk1 >>= fun _ => bump sk2 >>= fun _ => tail)).run s = .ok () s') (hnd : ¬ Doomed s') :
    Cons s s' (fun x => ∃ x2, x = .name "extend".toList :: .name w2.toList :: x2 ∧ L (bud s) s'.current x2) := by
  obtain ⟨t, rest, t2, htq, hkt, hdt, h2t, hd2⟩ := hs
  have hni : isIgnoredKind t.kind = false := by rw [hkt]; rfl
  obtain ⟨s1, s2, e1, h1, o2⟩ := withNode_peeked _ _ s s' () t rest w htq hni h
  have hnd2 : ¬ Doomed s2 := fun d => hnd (o2.doomed.mpr d)
  have he1 : EofEnd s1 := eofEnd_eat he e1 (by intro x hx; cases hx)
  have h0 : Toks s = Toks s1 := by simpa using e1.toks
  obtain ⟨_, sa, ha, h3⟩ := bind_dec (bump sk1) _ s1 s2 () h1
  obtain ⟨_, sb, hb, h4⟩ := bind_dec (bump sk2) _ sa s2 () h3
  have hpre : (bump sk1 >>= fun _ => bump sk2 >>= fun _ => (pure () : PI Unit)).run s1 = .ok () sb :=
    bind_intro _ _ s1 sa () _ ha (bind_intro _ _ sa sb () _ hb rfl)
  have hacc := accL_bump2 "extend" w2 kwWord_extend hw2 sk1 sk2 (pure () : PI Unit) (fun _ x => x = [])
    ((acc_pure E0 LexQ ()).mono (fun _ h => h) (fun _ _ h => h.2))
  have a1 := hacc.1 s1 () sb e1.w hpre
  have hndb : ¬ Doomed sb := fun d => hnd2 ((gt sb () s2 a1.w h4).doom d)
  have hq1 : LexQ (Toks s1) := by rw [← h0]; exact hq
  have c1 := cons_of_acc hacc s1 sb () e1.w he1 ⟨hq1, t, rest, t2, by rw [← h0]; exact htq, hdt, h2t, hd2⟩ hpre hndb
  have hqb : LexQ (Toks sb) := by
    obtain ⟨cs, _, a, _⟩ := c1
    rw [a] at hq1; exact hq1.suffix
  have c2 := ht sb s2 a1.w c1.eofEnd hqb h4 hnd2
  refine ((c1.seq c2).transport h0 o2.toks (eofEnd_same _ _ c2.eofEnd o2.current o2.lx o2.errors)).weaken ?_
  rintro z ⟨x, y, rfl, ⟨x2, rfl, rfl⟩, hy⟩
  rw [bud_adv a1, bud_eat e1, ← o2.current] at hy
  exact ⟨y, by simp, hy⟩

/-- what follows the name of an object / interface extension: at least one of the three parts is written -/
def ObjExtR (b : Nat) (cur : Option Tok) (x : List Ast.Tok) : Prop :=
  ∃ impl ds x2, x = tSepOpt [.name Ast.sImplements] .amp impl ++ (Ast.tDirectives ds ++ x2) ∧ dirsFit true b ds ∧
    (LFields b x2 ∨ (x2 = [] ∧ (impl ≠ none ∨ ds ≠ []) ∧ ∀ t, cur = some t → t.kind ≠ .lCurly))

abbrev extFieldsTail (n : Nat) (m : Bool) : PI Unit := extDirs n (extBodyK .lCurly (fieldsDefinition n)) m

theorem good_extFieldsTail (n : Nat) (m : Bool) : Good (extFieldsTail n m) :=
  good_extDirs n _ (good_extBodyK _ (acc_fieldsDefinition n).1) m

theorem sp_extFieldsTail (n : Nat) (m : Bool) : SP (extFieldsTail n m) :=
  sp_extDirs n _ (good_extBodyK _ (acc_fieldsDefinition n).1) (sp_extBodyK _ (acc_fieldsDefinition n).1 (se_fieldsDefinition n).sp) m

theorem extFieldsTail_sound (n : Nat) (m : Bool) (s s' : PState) (w : TW s) (he : EofEnd s)
    (h : (extFieldsTail n m).run s = .ok () s') (hnd : ¬ Doomed s') :
    Cons s s' (fun x => ∃ ds x2, x = Ast.tDirectives ds ++ x2 ∧ dirsFit true (bud s) ds ∧
      (LFields (bud s) x2 ∨ (x2 = [] ∧ (ds ≠ [] ∨ m = true) ∧ ∀ t, s'.current = some t → t.kind ≠ .lCurly))) :=
  extDirsBody_sound n _ LFields (acc_fieldsDefinition n).1
    (fun q1 q2 t rest w1 he1 ht hk h1 hnd1 => fieldsDefinition_sound n q1 q2 t rest w1 he1 ht hk h1 hnd1) m s s' w he h hnd

theorem implExt_sound (n : Nat) (s s' : PState) (w : TW s) (he : EofEnd s) (hl : LexQ (Toks s))
    (h : (optData2 "implements" implementsInterfaces (extFieldsTail n true) (extFieldsTail n false)).run s = .ok () s') (hnd : ¬ Doomed s') :
    Cons s s' (ObjExtR (bud s) s'.current) := by
  have gT := good_extFieldsTail n
  have hnds : ¬ Doomed s := by
    intro d
    have g : Good (optData2 "implements" implementsInterfaces (extFieldsTail n true) (extFieldsTail n false)) := by
      unfold optData2
      exact good_bind _ _ good_peekData (fun _ => good_ite _ _ _ (good_bind _ _ good_implementsInterfacesT (fun _ => gT true)) (gT false))
    exact hnd ((g s () s' w h).doom d)
  obtain ⟨t, tl, htq⟩ : ∃ t tl, Toks s = t :: tl := by
    cases hq : Toks s with
    | nil => exact absurd hq (eofEnd_nonempty s he hnds)
    | cons t tl => exact ⟨t, tl, rfl⟩
  unfold optData2 at h
  obtain ⟨d, sp, a, b⟩ := bind_dec peekData _ s s' () h
  obtain ⟨rfl, ep, htp⟩ := peekData_head s sp d t tl w htq a
  have hep : EofEnd sp := eofEnd_eat he ep (by intro x hx; cases hx)
  have h0 : Toks s = Toks sp := by simpa using ep.toks
  have hlp : LexQ (Toks sp) := by rw [← h0]; exact hl
  by_cases hc : kwOpt "implements" (some t.data) = true
  · simp only [hc, if_true] at b
    obtain ⟨_, sI, b1, b2⟩ := bind_dec implementsInterfaces _ sp s' () b
    have aI := good_implementsInterfacesT sp () sI ep.w b1
    have hndI : ¬ Doomed sI := fun dd => hnd ((gT true sI () s' aI.w b2).doom dd)
    have hd : t.data = "implements".toList := by
      have := kwOpt_eq hc
      injection this
    have c1 := cons_of_acc (acc_implementsInterfaces (E := E0) early_false) sp sI () ep.w hep ⟨hlp, t, by rw [htp]; rfl, hd⟩ b1 hndI
    have c2 := extFieldsTail_sound n true sI s' aI.w c1.eofEnd b2 hnd
    refine ((c1.seq c2).transport h0 rfl c2.eofEnd).weaken ?_
    rintro z ⟨x, y, rfl, ⟨lead, first, rest, rfl⟩, ds, x2, rfl, hds, hor⟩
    rw [bud_adv aI, bud_eat ep] at hds hor
    refine ⟨some (lead, first, rest), ds, x2, by simp [tSepOpt], hds, ?_⟩
    rcases hor with hf | ⟨rfl, _, hcur⟩
    · exact Or.inl hf
    · exact Or.inr ⟨rfl, Or.inl (by intro hh; cases hh), hcur⟩
  · simp only [hc, Bool.false_eq_true, if_false] at b
    have c2 := extFieldsTail_sound n false sp s' ep.w hep b hnd
    refine (c2.transport h0 rfl c2.eofEnd).weaken ?_
    rintro z ⟨ds, x2, rfl, hds, hor⟩
    rw [bud_eat ep] at hds hor
    refine ⟨none, ds, x2, by simp [tSepOpt], hds, ?_⟩
    rcases hor with hf | ⟨rfl, hm, hcur⟩
    · exact Or.inl hf
    · refine Or.inr ⟨rfl, Or.inr ?_, hcur⟩
      rcases hm with hm | hm
      · exact hm
      · cases hm

theorem good_objExtTail (n : Nat) : Good (objExtTail n) := by
  unfold objExtTail optData2
  exact good_bind _ _ good_nameOrErr (fun _ => good_bind _ _ good_peekData (fun _ => good_ite _ _ _
    (good_bind _ _ good_implementsInterfacesT (fun _ => good_extFieldsTail n true)) (good_extFieldsTail n false)))

theorem sp_objExtTail (n : Nat) : SP (objExtTail n) := by
  unfold objExtTail optData2
  exact sp_bind good_nameOrErr (fun _ => good_bind _ _ good_peekData (fun _ => good_ite _ _ _
      (good_bind _ _ good_implementsInterfacesT (fun _ => good_extFieldsTail n true)) (good_extFieldsTail n false))) se_nameOrErr.sp
    (fun _ => sp_bind good_peekData (fun _ => good_ite _ _ _
      (good_bind _ _ good_implementsInterfacesT (fun _ => good_extFieldsTail n true)) (good_extFieldsTail n false)) sp_peekData
      (fun _ => sp_ite _ _ _ (sp_bind good_implementsInterfacesT (fun _ => good_extFieldsTail n true) se_implementsInterfaces.sp
        (fun _ => sp_extFieldsTail n true)) (sp_extFieldsTail n false)))

theorem objExtTail_sound (n : Nat) (s s' : PState) (w : TW s) (he : EofEnd s) (hl : LexQ (Toks s))
    (h : (objExtTail n).run s = .ok () s') (hnd : ¬ Doomed s') :
    Cons s s' (fun x => ∃ nm x2, x = .name nm :: x2 ∧ ObjExtR (bud s) s'.current x2) := by
  unfold objExtTail at h
  obtain ⟨_, s1, h1, h2⟩ := bind_dec nameOrErr _ s s' () h
  have a1 := good_nameOrErr s () s1 w h1
  have g2 : Good (optData2 "implements" implementsInterfaces (extFieldsTail n true) (extFieldsTail n false)) := by
    unfold optData2
    exact good_bind _ _ good_peekData (fun _ => good_ite _ _ _ (good_bind _ _ good_implementsInterfacesT (fun _ => good_extFieldsTail n true)) (good_extFieldsTail n false))
  have hnd1 : ¬ Doomed s1 := fun d => hnd ((g2 s1 () s' a1.w h2).doom d)
  have c1 := cons_of_acc (acc_nameOrErr (E := fun _ => False) (H := fun _ => True)) s s1 () w he trivial h1 hnd1
  have hl1 : LexQ (Toks s1) := by
    obtain ⟨cs, _, a, _⟩ := c1
    rw [a] at hl; exact hl.suffix
  have c2 := implExt_sound n s1 s' a1.w c1.eofEnd hl1 h2 hnd
  refine (c1.seq c2).weaken ?_
  rintro z ⟨x, y, rfl, ⟨nm, rfl⟩, hy⟩
  rw [bud_adv a1] at hy
  exact ⟨nm, y, rfl, hy⟩

/-- the common proof of the two fields -/
theorem objLikeExt_sound (K : SK) (word : String) (hw : KwWord word) (sk2 : SK) (n : Nat)
    (mk : Str → SepC → List Ast.Directive → List Ast.FieldDef → LooseDef)
    (htoks : ∀ nm impl ds fs, (mk nm impl ds fs).toks = kwE word ++ objectLikeToks nm impl ds fs)
    (hfit : ∀ b nm impl ds fs, looseFit b (mk nm impl ds fs) ↔ ((impl ≠ none ∨ ds ≠ [] ∨ fs ≠ []) ∧ objFit b ds fs))
    (hopen : ∀ nm impl ds fs, openBody (mk nm impl ds fs) ↔ fs = []) :
    DefSound (EStart word.toList) (withNode K (bump "extend_KW" >>= fun _ => bump sk2 >>= fun _ => objExtTail n)) := by
  refine defSound_of_loose _ _ ?_
  intro s s' w he hq hs hr hnd
  have hset := ext2_settled K "extend_KW" sk2 _ (good_objExtTail n) (sp_objExtTail n) s s' w hr hnd
  have c := ext2_soundQ K word hw "extend_KW" sk2 (objExtTail n)
    (fun b cur x => ∃ nm x2, x = .name nm :: x2 ∧ ObjExtR b cur x2) (good_objExtTail n)
    (fun q q' wq heq hlq hrq hndq => objExtTail_sound n q q' wq heq hlq hrq hndq) s s' w he hq hs hr hnd
  obtain ⟨cs, x, a, b, e, d, x1, rfl, nm, x2, rfl, impl, ds, x3, rfl, hds, hor⟩ := c
  rcases hor with ⟨fs, hne, rfl, hfs⟩ | ⟨rfl, hsome, hcur⟩
  · refine ⟨cs, mk nm impl ds fs, a, b, e, ?_, (hfit _ _ _ _ _).mpr ⟨Or.inr (Or.inr hne), hds, hfs⟩, hset, ?_⟩
    · rw [htoks]; simpa [kwE, objectLikeToks, List.append_assoc] using d
    · intro ho; exact absurd ((hopen _ _ _ _).mp ho) hne
  · refine ⟨cs, mk nm impl ds [], a, b, e, ?_, (hfit _ _ _ _ _).mpr ⟨?_, hds, by intro f hf; cases hf⟩, hset, fun _ => hcur⟩
    · rw [htoks]; simpa [kwE, objectLikeToks, Ast.tBraced, Ast.tFieldDefItems, List.append_assoc] using d
    · rcases hsome with h1 | h1
      · exact Or.inl h1
      · exact Or.inr (Or.inl h1)

/-- **object type extension**, exact -/
theorem objectExt_sound (n : Nat) : DefSound (EStart "type".toList) (objectTypeExtension n) := by
  rw [objectTypeExtension_eq]
  exact objLikeExt_sound "OBJECT_TYPE_EXTENSION" "type" kwWord_type "type_KW" n LooseDef.objectExt
    (fun _ _ _ _ => rfl) (fun _ _ _ _ _ => Iff.rfl) (fun _ _ _ _ => Iff.rfl)

/-- **interface type extension**, exact -/
theorem interfaceExt_sound (n : Nat) : DefSound (EStart "interface".toList) (interfaceTypeExtension n) := by
  rw [interfaceTypeExtension_eq]
  exact objLikeExt_sound "INTERFACE_TYPE_EXTENSION" "interface" kwWord_interface "interface_KW" n LooseDef.interfaceExt
    (fun _ _ _ _ => rfl) (fun _ _ _ _ _ => Iff.rfl) (fun _ _ _ _ => Iff.rfl)

end Apollo.Parse.Exact


/-! ## union type extension -/

namespace Apollo.Parse.Exact
open Apollo.Rowan hiding Str
open Apollo.Lex hiding Str

theorem good_extBodyKEq (body : PI Unit) (gb : Good body) (meets : Bool) : Good (extBodyK .eq body meets) := by
  unfold extBodyK optKind2
  exact good_bind _ _ good_peek (fun _ => good_ite _ _ _ (good_bind _ _ gb (fun _ => good_extEnd true)) (good_extEnd meets))

/-- the optional braced body of an extension, with the `meets` flag -/
theorem extBodyK_soundEq (body : PI Unit) (LB : Nat → List Ast.Tok → Prop) (gb : Good body)
    (hb : ∀ s s' t rest, TW s → EofEnd s → Toks s = t :: rest → t.kind = .eq → body.run s = .ok () s' → ¬ Doomed s' → Cons s s' (LB (bud s)))
    (meets : Bool) (s s' : PState) (w : TW s) (he : EofEnd s) (h : (extBodyK .eq body meets).run s = .ok () s') (hnd : ¬ Doomed s') :
    Cons s s' (fun x => LB (bud s) x ∨ (x = [] ∧ meets = true ∧ ∀ t, s'.current = some t → t.kind ≠ .eq)) := by
  unfold extBodyK optKind2 at h
  obtain ⟨sP, o, p, hor⟩ := ifPeek_dec .eq _ _ s s' () w h
  have heP := p.eofEnd he
  rcases hor with ⟨hkc, h5⟩ | ⟨hkc, h5⟩
  · obtain ⟨tc, rfl, hkc2⟩ : ∃ tc, o = some tc ∧ tc.kind = .eq := by
      cases o with
      | none => simp at hkc
      | some tc => exact ⟨tc, rfl, by simpa using hkc⟩
    obtain ⟨_, sB, h6, h7⟩ := bind_dec body _ sP s' () h5
    have aB := gb sP () sB p.w h6
    have hndB : ¬ Doomed sB := fun d => hnd ((good_extEnd true sB () s' aB.w h7).doom d)
    have c2 := hb sP sB tc _ p.w heP p.head_cons hkc2 h6 hndB
    obtain ⟨_, rfl⟩ := extEnd_ok true sB s' aB.w c2.eofEnd h7 hnd
    refine (c2.transport p.toks.symm rfl c2.eofEnd).weaken ?_
    intro z hz
    rw [bud_peek p] at hz
    exact Or.inl hz
  · obtain ⟨hm, hss⟩ := extEnd_ok meets sP s' p.w heP h5 hnd
    rw [hss]
    refine (Cons.nil p.toks heP).weaken ?_
    rintro z rfl
    refine Or.inr ⟨rfl, hm, ?_⟩
    intro t ht hk
    rw [p.current] at ht
    subst ht
    exact hkc (by simp [hk])

/-- `Directives[Const]? Body?` of an extension: when `meets` is false at the start, something was written -/
theorem extDirsBody_soundEq (n : Nat) (body : PI Unit) (LB : Nat → List Ast.Tok → Prop) (gb : Good body)
    (hb : ∀ s s' t rest, TW s → EofEnd s → Toks s = t :: rest → t.kind = .eq → body.run s = .ok () s' → ¬ Doomed s' → Cons s s' (LB (bud s)))
    (meets : Bool) (s s' : PState) (w : TW s) (he : EofEnd s) (h : (extDirs n (extBodyK .eq body) meets).run s = .ok () s') (hnd : ¬ Doomed s') :
    Cons s s' (fun x => ∃ ds x2, x = Ast.tDirectives ds ++ x2 ∧ dirsFit true (bud s) ds ∧
      (LB (bud s) x2 ∨ (x2 = [] ∧ (ds ≠ [] ∨ meets = true) ∧ ∀ t, s'.current = some t → t.kind ≠ .eq))) := by
  unfold extDirs optKind2 at h
  obtain ⟨sP, o, p, hor⟩ := ifPeek_dec .at _ _ s s' () w h
  have heP := p.eofEnd he
  rcases hor with ⟨hkc, h5⟩ | ⟨hkc, h5⟩
  · obtain ⟨tc, rfl, hkc2⟩ : ∃ tc, o = some tc ∧ tc.kind = .at := by
      cases o with
      | none => simp at hkc
      | some tc => exact ⟨tc, rfl, by simpa using hkc⟩
    obtain ⟨_, sD, h6, h7⟩ := bind_dec (directives n true) _ sP s' () h5
    have aD := good_directives n true sP () sD p.w h6
    have hndD : ¬ Doomed sD := fun d => hnd ((good_extBodyKEq body gb true sD () s' aD.w h7).doom d)
    have c1 := directives_at_sound n sP sD tc _ p.w heP p.head_cons hkc2 h6 hndD
    have c2 := extBodyK_soundEq body LB gb hb true sD s' aD.w c1.eofEnd h7 hnd
    refine ((c1.seq c2).transport p.toks.symm rfl c2.eofEnd).weaken ?_
    rintro z ⟨x, y, rfl, ⟨ds, rfl, hne, hds⟩, hy⟩
    rw [bud_peek p] at hds
    rw [bud_adv aD, bud_peek p] at hy
    refine ⟨ds, y, rfl, hds, ?_⟩
    rcases hy with hy | ⟨rfl, _, hc⟩
    · exact Or.inl hy
    · exact Or.inr ⟨rfl, Or.inl hne, hc⟩
  · have c2 := extBodyK_soundEq body LB gb hb meets sP s' p.w heP h5 hnd
    refine (c2.transport p.toks.symm rfl c2.eofEnd).weaken ?_
    intro z hz
    rw [bud_peek p] at hz
    refine ⟨[], z, by simp [Ast.tDirectives], (by intro d hd; cases hd), ?_⟩
    rcases hz with hz | ⟨rfl, hm, hc⟩
    · exact Or.inl hz
    · exact Or.inr ⟨rfl, Or.inr hm, hc⟩

def UMembersR (_ : Nat) (x : List Ast.Tok) : Prop := ∃ lead first rest, x = .p .eq :: tSepLead .pipe lead first rest

theorem unionExtTail_sound (n : Nat) (s s' : PState) (w : TW s) (he : EofEnd s)
    (h : (nameDirsBodyExt n .eq unionMemberTypes).run s = .ok () s') (hnd : ¬ Doomed s') :
    Cons s s' (fun x => ∃ nm ds ms, x = .name nm :: (Ast.tDirectives ds ++ tSepOpt [.p .eq] .pipe ms) ∧ dirsFit true (bud s) ds ∧
      (ds ≠ [] ∨ ms ≠ none)) := by
  have gb := good_unionMemberTypesT
  have hb : ∀ s s' t rest, TW s → EofEnd s → Toks s = t :: rest → t.kind = .eq → unionMemberTypes.run s = .ok () s' → ¬ Doomed s' →
      Cons s s' (UMembersR (bud s)) := fun a a' ta ra wa hea hta hka hra hnda =>
    cons_of_acc (acc_unionMemberTypes (E := E0) early_false) a a' () wa hea ⟨ta, by rw [hta]; rfl, by simp [hka]⟩ hra hnda
  unfold nameDirsBodyExt at h
  obtain ⟨_, s1, h1, h2⟩ := bind_dec nameOrErr _ s s' () h
  have a1 := good_nameOrErr s () s1 w h1
  have hnd1 : ¬ Doomed s1 := fun d => hnd ((good_extDirs n _ (good_extBodyKEq _ gb) false s1 () s' a1.w h2).doom d)
  have c1 := cons_of_acc (acc_nameOrErr (E := fun _ => False) (H := fun _ => True)) s s1 () w he trivial h1 hnd1
  have c2 := extDirsBody_soundEq n unionMemberTypes UMembersR gb hb false s1 s' a1.w c1.eofEnd h2 hnd
  refine (c1.seq c2).weaken ?_
  rintro z ⟨x, y, rfl, ⟨nm, rfl⟩, ds, x2, rfl, hds, hor⟩
  rw [bud_adv a1] at hds
  rcases hor with ⟨lead, first, rest, rfl⟩ | ⟨rfl, hm, _⟩
  · exact ⟨nm, ds, some (lead, first, rest), by simp [tSepOpt], hds, Or.inr (by intro hh; cases hh)⟩
  · refine ⟨nm, ds, none, by simp [tSepOpt], hds, Or.inl ?_⟩
    rcases hm with hm | hm
    · exact hm
    · cases hm

/-- **union type extension**, exact -/
theorem unionExt_sound (n : Nat) : DefSound (EStart "union".toList) (unionTypeExtension n) := by
  intro s s' w he hq hr hnd
  rw [unionTypeExtension_eq] at hr
  have gt : Good (nameDirsBodyExt n .eq unionMemberTypes) :=
    good_bind _ _ good_nameOrErr (fun _ => good_extDirs n _ (good_extBodyKEq _ good_unionMemberTypesT) false)
  have c := ext2_sound "UNION_TYPE_EXTENSION" "union" kwWord_union "extend_KW" "union_KW" (nameDirsBodyExt n .eq unionMemberTypes)
    (fun b _ x => ∃ nm ds ms, x = .name nm :: (Ast.tDirectives ds ++ tSepOpt [.p .eq] .pipe ms) ∧ dirsFit true b ds ∧ (ds ≠ [] ∨ ms ≠ none)) gt
    (fun q q' wq heq hrq hndq => unionExtTail_sound n q q' wq heq hrq hndq) s s' w he hq.1 hq.2 hr hnd
  obtain ⟨cs, x, a, b, e, d, x1, rfl, nm, ds, ms, rfl, hds, hne⟩ := c
  exact ⟨cs, .loose (.unionExt nm ds ms), a, b, e, by simpa [DocItem.toks, LooseDef.toks, kwE, List.append_assoc] using d, ⟨hne, hds⟩,
    fun q _ ho => ho.elim⟩

end Apollo.Parse.Exact

/-! ## ASSEMBLY -/

namespace Apollo.Parse.Exact
open Apollo.Rowan hiding Str
open Apollo.Lex hiding Str

theorem schemaDef_fieldX (n : Nat) : X.DefSound (DStart "schema".toList) (schemaDefinition n) :=
  X.defSound_of_loose _ _ (fun s s' w he hq hs hr hnd => schemaDef_soundX n s s' w he hq hs hr hnd)

theorem schemaExt_fieldX (n : Nat) : X.DefSound (EStart "schema".toList) (schemaExtension n) :=
  X.defSound_of_loose _ _ (fun s s' w he hq hs hr hnd => schemaExt_soundX n s s' w he hq hs hr hnd)

/-- **what is still missing**: the exact soundness of exactly these definition parsers -/
structure DefRemaining (n : Nat) : Prop where
  trivial : True

theorem defExactX_of_remaining {n : Nat} (R : DefRemaining n) : X.DefExact n where
  directive := X.defSound_of_fit _ _ (directiveDef_sound n)
  enumDef := X.defSound_of_fit _ _ (enumDef_sound n)
  input := X.defSound_of_fit _ _ (inputDef_sound n)
  interface := X.defSound_of_fit _ _ (interfaceDef_sound n)
  object := X.defSound_of_fit _ _ (objectDef_sound n)
  scalar := X.defSound_of_fit _ _ (scalarDef_sound n)
  schema := schemaDef_fieldX n
  union := X.defSound_of_fit _ _ (unionDef_sound n)
  schemaExt := schemaExt_fieldX n
  scalarExt := X.defSound_of_fit _ _ (scalarExt_sound n)
  objectExt := X.defSound_of_fit _ _ (objectExt_sound n)
  interfaceExt := X.defSound_of_fit _ _ (interfaceExt_sound n)
  unionExt := X.defSound_of_fit _ _ (unionExt_sound n)
  enumExt := X.defSound_of_fit _ _ (enumExt_sound n)
  inputExt := X.defSound_of_fit _ _ (inputExt_sound n)

/-- **document_accept_sound_exact over the remaining hypotheses**: zero errors ⇒ `docToks its ++ EOF`, `itemFitX rl`, `DocFollowX` -/
theorem document_accept_sound_exactX (R : ∀ n, DefRemaining n) (rl : Nat) (src : Str) (herr : (parse .document none rl src).errors = []) :
    LexClean src ∧ ∃ (ts : List Tok) (its : List DocItem) (e : Tok), sig (srcToks src) = ts ++ [e] ∧ e.kind = .eof ∧
      TokIs ts (docToks its) ∧ its ≠ [] ∧ (∀ i ∈ its, itemFitX rl i) ∧ DocFollowX its :=
  (X.document_sandwichG (fun n => defExactX_of_remaining (R n)) rl src).1 herr

/-- **the final sandwich**: `{itemFit, DocFollowOk}` ⊆ accepted ⊆ `{itemFitX, DocFollowX}`; the gaps are the recorded finding (a root
    operation type without its named type) and a shorthand query directly after a type-system definition with a written body -/
theorem document_sandwichX (R : ∀ n, DefRemaining n) (rl : Nat) (src : Str) :
    ((parse .document none rl src).errors = [] →
      LexClean src ∧ ∃ (ts : List Tok) (its : List DocItem) (e : Tok), sig (srcToks src) = ts ++ [e] ∧ e.kind = .eof ∧
        TokIs ts (docToks its) ∧ its ≠ [] ∧ (∀ i ∈ its, itemFitX rl i) ∧ DocFollowX its) ∧
    ((LexClean src ∧ ∃ (ts : List Tok) (its : List DocItem) (e : Tok), sig (srcToks src) = ts ++ [e] ∧ e.kind = .eof ∧
        TokIs ts (docToks its) ∧ its ≠ [] ∧ (∀ i ∈ its, itemFit rl i) ∧ DocFollowOk its) →
      (parse .document none rl src).errors = []) :=
  X.document_sandwichG (fun n => defExactX_of_remaining (R n)) rl src

end Apollo.Parse.Exact

namespace Apollo.Parse.Exact
open Apollo.Rowan hiding Str
open Apollo.Lex hiding Str

theorem defRemaining_done (n : Nat) : DefRemaining n := ⟨trivial⟩

/-- **document_accept_sound_exact, unconditional** -/
theorem document_accept_sound_exact_unconditional (rl : Nat) (src : Str) (herr : (parse .document none rl src).errors = []) :
    LexClean src ∧ ∃ (ts : List Tok) (its : List DocItem) (e : Tok), sig (srcToks src) = ts ++ [e] ∧ e.kind = .eof ∧
      TokIs ts (docToks its) ∧ its ≠ [] ∧ (∀ i ∈ its, itemFitX rl i) ∧ DocFollowX its :=
  document_accept_sound_exactX defRemaining_done rl src herr

/-- **the final sandwich, unconditional** -/
theorem document_sandwich_final (rl : Nat) (src : Str) :
    ((parse .document none rl src).errors = [] →
      LexClean src ∧ ∃ (ts : List Tok) (its : List DocItem) (e : Tok), sig (srcToks src) = ts ++ [e] ∧ e.kind = .eof ∧
        TokIs ts (docToks its) ∧ its ≠ [] ∧ (∀ i ∈ its, itemFitX rl i) ∧ DocFollowX its) ∧
    ((LexClean src ∧ ∃ (ts : List Tok) (its : List DocItem) (e : Tok), sig (srcToks src) = ts ++ [e] ∧ e.kind = .eof ∧
        TokIs ts (docToks its) ∧ its ≠ [] ∧ (∀ i ∈ its, itemFit rl i) ∧ DocFollowOk its) →
      (parse .document none rl src).errors = []) :=
  document_sandwichX defRemaining_done rl src

end Apollo.Parse.Exact
