import ApolloModel.Proofs.ParserLossless
/-
C07: the standalone entry points consume the whole input or report an error.
-/
namespace Apollo.Parse
open Apollo.Rowan hiding Str
open Apollo.Lex hiding Str

theorem peekToken_current (s : PState) (t : Tok) (h : s.current = some t) : peekToken.run s = .ok (some t) s := by
  unfold peekToken; simp only [h]

/-- `p.err(…)` with a current token always leaves a non-empty error list -/
theorem err_errors_nonempty (s s' : PState) (t : Tok) (hi : Inv s) (hc : s.current = some t)
    (h : err.run s = .ok () s') : s'.errors ≠ [] := by
  unfold err at h
  rw [run_bind, peekToken_current s t hc] at h
  simp only [] at h
  have : (pushErr (tokErr t)).run s = .ok () { s with errors := if s.acceptErrors then s.errors ++ [tokErr t] else s.errors, acceptErrors := s.acceptErrors } := rfl
  rw [this] at h
  simp only [Res.ok.injEq, true_and] at h
  subst h
  simp only []
  by_cases ha : s.acceptErrors = true
  · simp [ha]
  · have ha' : s.acceptErrors = false := by simpa using ha
    simp only [ha', Bool.false_eq_true, if_false]
    exact hi.errNonempty ha'

/-- when `expect_end_of_input` completes without a token limit and leaves no error, the input is
    exhausted: the lexer is done and only the (empty) EOF token is current -/
theorem expectEndOfInput_exhausted (s s' : PState) (hi : Inv s) (hl : s.lx.limit = none)
    (h : expectEndOfInput.run s = .ok () s') (he : s'.errors = []) : Exhausted s' := by
  unfold expectEndOfInput at h
  rw [run_bind] at h
  cases h1 : skipIgnored.run s with
  | abort w => simp [h1] at h
  | panic m => simp [h1] at h
  | ok u s1 =>
    simp only [h1] at h
    obtain ⟨hi1, hl1⟩ := PI.run_ok skipIgnored s hi u s1 h1
    rw [run_bind] at h
    obtain ⟨o, s2, hpt, hpk⟩ := peek_run s1
    obtain ⟨hi2, hl2⟩ := PI.run_ok peekToken s1 hi1 o s2 hpt
    have hlim2 : s2.lx.limit = none := by rw [hl2, hl1]; exact hl
    rw [hpk] at h
    simp only [] at h
    cases o with
    | none =>
      simp only [Option.map_none, errUnlessEnd, beq_self_eq_true, Bool.true_or, if_true, run_pure, Res.ok.injEq, true_and] at h
      subst h
      exact exhausted_of_peek_none s1 s2 hi2 hlim2 hpt
    | some t =>
      simp only [Option.map_some, errUnlessEnd] at h
      by_cases hk : t.kind = .eof
      · simp only [hk, beq_self_eq_true, Bool.or_true, if_true, run_pure, Res.ok.injEq, true_and] at h
        subst h
        exact exhausted_of_peek_eof s1 s2 t hi2 hk hpt
      · have : (some t.kind == none || some t.kind == some Kind.eof) = false := by simp [hk]
        simp only [this, Bool.false_eq_true, if_false] at h
        exact absurd he (err_errors_nonempty s2 s' t hi2 (peekToken_some s1 s2 t hpt) h)

/-- **C07** — `Parser::parse_type` / `parse_selection_set` with no token limit: if no error is
    reported, the parser consumed the whole input (nothing but the empty EOF token is left over),
    so the tree plus the queued ignored tokens is exactly the input. -/
theorem standalone_whole_input (e : Entry) (he : e = .type ∨ e = .selectionSet) (rl : Nat) (src : Str)
    (root : Elem) (h : (parse e none rl src).outcome = .tree root) (herr : (parse e none rl src).errors = []) :
    (parse e none rl src).leftover = [] := by
  unfold parse runEntry at h herr ⊢
  rcases he with rfl | rfl
  all_goals
    simp only [Entry.standalone, Entry.grammar] at h herr ⊢
    generalize hs0 : ({ initState src none rl with builder := (initState src none rl).builder.startNode _ } : PState) = s0 at h herr ⊢
    have hinv : Inv s0 := by
      subst hs0
      exact ⟨fun _ => by simp [initState, Builder.new, Builder.startNode, textList, pendingText, curText],
        fun p hp => by simp [initState, Builder.new, Builder.startNode] at hp; simp [hp, initState, Builder.new],
        fun h => by simp [initState] at h, fun t h => by simp [initState] at h, fun h => by simp [initState] at h⟩
    have hl0 : s0.lx.limit = none := by subst hs0; rfl
  · cases hr : (ty (fuelFor src) >>= fun _ => expectEndOfInput).run s0 with
    | abort w => simp [hr] at h
    | panic m => simp [hr] at h
    | ok a s =>
      simp only [hr] at h herr ⊢
      rw [run_bind] at hr
      cases h1 : (ty (fuelFor src)).run s0 with
      | abort w => simp [h1] at hr
      | panic m => simp [h1] at hr
      | ok u s1 =>
        simp only [h1] at hr
        obtain ⟨hi1, hl1⟩ := PI.run_ok _ s0 hinv u s1 h1
        have hex := expectEndOfInput_exhausted s1 s hi1 (by rw [hl1]; exact hl0) hr herr
        simp [hex.1, hex.2]
  · cases hr : (fieldSet (fuelFor src) >>= fun _ => expectEndOfInput).run s0 with
    | abort w => simp [hr] at h
    | panic m => simp [hr] at h
    | ok a s =>
      simp only [hr] at h herr ⊢
      rw [run_bind] at hr
      cases h1 : (fieldSet (fuelFor src)).run s0 with
      | abort w => simp [h1] at hr
      | panic m => simp [h1] at hr
      | ok u s1 =>
        simp only [h1] at hr
        obtain ⟨hi1, hl1⟩ := PI.run_ok _ s0 hinv u s1 h1
        have hex := expectEndOfInput_exhausted s1 s hi1 (by rw [hl1]; exact hl0) hr herr
        simp [hex.1, hex.2]

end Apollo.Parse
