import ApolloModel.Proofs.SmithResponse2
/-
`collect_fields` of apollo-smith's response builder (no visited-fragments set) against the
specification's CollectFields (§6.3.2, October 2021; `@skip`/`@include` are outside the property).

* `specCollectFields` transcribes the algorithm: ordered groups, each named fragment at most once,
  DoesFragmentTypeApply through the possible types of the fragment's type condition.
* Both collectors are related through their *flat* field sequences (`modelFlat`, `specFlat`): a grouped
  field set is determined by its keys (order of first occurrence) and its per-key lists.
* `Redundant seen l r`: `r` is `l` with some elements removed, each of which occurred earlier — the exact
  relation between the two sequences when the spread graph is acyclic.
-/
namespace Apollo.Smith

/-! ### ordered groups: keys and per-key lists -/

/-- `keys` after inserting the keys `new` one by one (order of first occurrence) -/
def mergeKeys (ks new : List String) : List String := new.foldl (fun acc k => if k ∈ acc then acc else acc ++ [k]) ks

def Grouped.get (g : Grouped) (k : String) : List FieldInfo :=
  match g.find? (·.1 == k) with
  | some e => e.2
  | none => []

theorem mem_mergeKeys (new : List String) : ∀ (ks : List String) (x : String), x ∈ mergeKeys ks new ↔ x ∈ ks ∨ x ∈ new := by
  unfold mergeKeys
  induction new with
  | nil => intro ks x; simp
  | cons k new ih =>
    intro ks x
    simp only [List.foldl_cons, ih, List.mem_cons]
    by_cases hk : k ∈ ks
    · simp only [hk, if_true]
      constructor
      · rintro (h | h); exact Or.inl h; exact Or.inr (Or.inr h)
      · rintro (h | h | h); exact Or.inl h; exact Or.inl (h ▸ hk); exact Or.inr h
    · simp only [hk, if_false, List.mem_append, List.mem_singleton]
      constructor
      · rintro ((h | h) | h); exact Or.inl h; exact Or.inr (Or.inl h); exact Or.inr (Or.inr h)
      · rintro (h | h | h); exact Or.inl (Or.inl h); exact Or.inl (Or.inr h); exact Or.inr h

theorem mergeKeys_append (ks a b : List String) : mergeKeys ks (a ++ b) = mergeKeys (mergeKeys ks a) b := by
  simp [mergeKeys, List.foldl_append]

theorem mergeKeys_snoc (ks a : List String) (y : String) :
    mergeKeys ks (a ++ [y]) = if y ∈ mergeKeys ks a then mergeKeys ks a else mergeKeys ks a ++ [y] := by
  rw [mergeKeys_append]; rfl

theorem mergeKeys_merge (ys : List String) : ∀ (a ks : List String),
    mergeKeys ks (mergeKeys a ys) = mergeKeys (mergeKeys ks a) ys := by
  induction ys with
  | nil => intro a ks; rfl
  | cons y ys ih =>
    intro a ks
    have e1 : mergeKeys a (y :: ys) = mergeKeys (if y ∈ a then a else a ++ [y]) ys := rfl
    have e2 : mergeKeys (mergeKeys ks a) (y :: ys) =
        mergeKeys (if y ∈ mergeKeys ks a then mergeKeys ks a else mergeKeys ks a ++ [y]) ys := rfl
    rw [e1, e2, ih]
    congr 1
    by_cases hy : y ∈ a
    · have : y ∈ mergeKeys ks a := (mem_mergeKeys a ks y).mpr (Or.inr hy)
      simp only [hy, this, if_true]
    · simp only [hy, if_false]
      exact mergeKeys_snoc ks a y

/-- merging the already merged keys of `ys` is the same as merging `ys` -/
theorem mergeKeys_merged (ys ks : List String) : mergeKeys ks (mergeKeys [] ys) = mergeKeys ks ys :=
  mergeKeys_merge ys [] ks

theorem keys_addAll (more : Grouped) : ∀ g : Grouped, (g.addAll more).keys = mergeKeys g.keys more.keys := by
  unfold Grouped.addAll
  induction more with
  | nil => intro g; rfl
  | cons e rest ih =>
    intro g
    simp only [List.foldl_cons]
    rw [ih (g.add e.1 e.2), keys_add]
    rfl

theorem get_add (g : Grouped) (k : String) (fs : List FieldInfo) (k' : String) :
    (g.add k fs).get k' = if k' = k then g.get k' ++ fs else g.get k' := by
  induction g with
  | nil =>
    simp only [Grouped.add, Grouped.get, List.find?_cons, List.find?_nil]
    by_cases e : k' = k
    · subst e; simp
    · have : (k == k') = false := by simp; exact fun h => e h.symm
      simp [this, e]
  | cons entry rest ih =>
    obtain ⟨k0, fs0⟩ := entry
    simp only [Grouped.add]
    by_cases h0 : (k0 == k) = true
    · have e0 : k0 = k := by simpa using h0
      subst e0
      simp only [h0, if_true, Grouped.get, List.find?_cons]
      by_cases e : k' = k0
      · subst e; simp
      · have : (k0 == k') = false := by simp; exact fun h => e h.symm
        simp [this, e]
    · simp only [h0, Bool.false_eq_true, if_false]
      simp only [Grouped.get, List.find?_cons] at ih ⊢
      by_cases e1 : (k0 == k') = true
      · have : k0 = k' := by simpa using e1
        subst this
        have : ¬ k0 = k := by simpa using h0
        simp [this]
      · simp only [e1]
        exact ih

theorem get_nil (k : String) : Grouped.get [] k = [] := rfl

theorem get_of_not_mem (g : Grouped) (k : String) (h : k ∉ g.keys) : g.get k = [] := by
  unfold Grouped.get
  cases hf : g.find? (·.1 == k) with
  | none => rfl
  | some e =>
    exfalso
    have hm := List.mem_of_find?_eq_some hf
    have hk := List.find?_some hf
    simp at hk
    exact h (by simp only [Grouped.keys, List.mem_map]; exact ⟨e, hm, hk⟩)

theorem get_cons (k0 : String) (fs0 : List FieldInfo) (rest : Grouped) (k : String) :
    Grouped.get ((k0, fs0) :: rest) k = if k0 = k then fs0 else Grouped.get rest k := by
  unfold Grouped.get
  by_cases e : k0 = k
  · subst e; simp
  · have : (k0 == k) = false := by simpa using e
    simp [List.find?_cons, this, e]

theorem get_addAll (more : Grouped) : ∀ (g : Grouped) (k : String), more.keys.Nodup →
    (g.addAll more).get k = g.get k ++ more.get k := by
  induction more with
  | nil => intro g k _; simp [Grouped.addAll, get_nil]
  | cons e rest ih =>
    intro g k hnd
    obtain ⟨k0, fs0⟩ := e
    simp only [Grouped.keys, List.map_cons, List.nodup_cons] at hnd
    have hstep : Grouped.addAll g ((k0, fs0) :: rest) = Grouped.addAll (g.add k0 fs0) rest := by
      simp [Grouped.addAll]
    rw [hstep, ih (g.add k0 fs0) k hnd.2, get_add, get_cons]
    by_cases e : k = k0
    · subst e
      have : Grouped.get rest k = [] := get_of_not_mem rest k hnd.1
      simp [this]
    · have e' : ¬ k0 = k := fun h => e h.symm
      simp [e, e']

/-! ### flat field sequences -/

abbrev Flat := List (String × FieldInfo)

/-- response keys in order of first occurrence -/
def flatKeys (l : Flat) : List String := mergeKeys [] (l.map (·.1))
/-- the fields collected under one response key, in order -/
def flatGet (l : Flat) (k : String) : List FieldInfo := (l.filter (·.1 == k)).map (·.2)

theorem flatGet_append (a b : Flat) (k : String) : flatGet (a ++ b) k = flatGet a k ++ flatGet b k := by
  simp [flatGet, List.filter_append]

/-- the traversal of `collect_fields` as a flat sequence (a fragment is expanded at EVERY spread) -/
def modelFlat (s : Schema) (frags : Fragments) (concrete : Name) : Nat → Sels → Option Flat
  | 0, _ => none
  | _ + 1, .nil => some []
  | f + 1, .cons sel tl =>
    let here : Option Flat :=
      match sel with
      | .field alias name ty subTy sub => some [(alias.getD name, { name, ty, subTy, sub })]
      | .spread name =>
        match frags.get? name with
        | some (cond, fsels) => if typeConditionMatches s cond concrete then modelFlat s frags concrete f fsels else some []
        | none => some []
      | .inline tc sub =>
        let matches_ := match tc with | none => true | some c => typeConditionMatches s c concrete
        if matches_ then modelFlat s frags concrete f sub else some []
    match here, modelFlat s frags concrete f tl with
    | some a, some b => some (a ++ b)
    | _, _ => none

/-- a grouped field set and a flat sequence describe the same collection -/
def Agree : Option Grouped → Option Flat → Prop
  | some g, some l => g.keys.Nodup ∧ g.keys = flatKeys l ∧ ∀ k, g.get k = flatGet l k
  | none, none => True
  | _, _ => False

theorem agree_nil : Agree (some []) (some []) := ⟨List.nodup_nil, rfl, fun _ => rfl⟩

theorem agree_single (k : String) (i : FieldInfo) : Agree (some [(k, [i])]) (some [(k, i)]) := by
  refine ⟨by simp [Grouped.keys], by simp [Grouped.keys, flatKeys, mergeKeys], ?_⟩
  intro k'
  rw [get_cons, get_nil]
  by_cases e : k = k' <;> simp [flatGet, e]

theorem agree_combine {ga gb : Grouped} {fa fb : Flat} (ha : Agree (some ga) (some fa)) (hb : Agree (some gb) (some fb)) :
    Agree (some (Grouped.addAll (Grouped.addAll [] ga) gb)) (some (fa ++ fb)) := by
  obtain ⟨na, ka, ga'⟩ := ha
  obtain ⟨nb, kb, gb'⟩ := hb
  refine ⟨nodup_addAll _ _ (nodup_addAll _ _ List.nodup_nil), ?_, ?_⟩
  · rw [keys_addAll, keys_addAll, ka, kb]
    simp only [flatKeys, Grouped.keys, List.map_nil, List.map_append]
    rw [mergeKeys_merged, mergeKeys_merged, mergeKeys_append]
  · intro k
    rw [get_addAll _ _ _ nb, get_addAll _ _ _ na, get_nil, List.nil_append, ga', gb', flatGet_append]

def combineG (a b : Option Grouped) : Option Grouped :=
  match a, b with
  | some a, some b => some (Grouped.addAll (Grouped.addAll [] a) b)
  | _, _ => none

def combineF (a b : Option Flat) : Option Flat :=
  match a, b with
  | some a, some b => some (a ++ b)
  | _, _ => none

theorem agree_combine' {a b : Option Grouped} {la lb : Option Flat} (ha : Agree a la) (hb : Agree b lb) :
    Agree (combineG a b) (combineF la lb) := by
  cases a <;> cases la <;> cases b <;> cases lb <;> simp_all [Agree, combineG, combineF]
  exact agree_combine ha hb

theorem collectFields_cons (s : Schema) (frags : Fragments) (concrete : Name) (f : Nat) (sel : Sel) (tl : Sels) :
    collectFields s frags concrete (f + 1) (.cons sel tl) =
      combineG
        (match sel with
          | .field alias name ty subTy sub => some [(alias.getD name, [{ name, ty, subTy, sub }])]
          | .spread name =>
            match frags.get? name with
            | some (cond, fsels) => if typeConditionMatches s cond concrete then collectFields s frags concrete f fsels else some []
            | none => some []
          | .inline tc sub =>
            if (match tc with | none => true | some c => typeConditionMatches s c concrete) then collectFields s frags concrete f sub else some [])
        (collectFields s frags concrete f tl) := by
  first | rfl | (simp only [collectFields]; rfl)

theorem modelFlat_cons (s : Schema) (frags : Fragments) (concrete : Name) (f : Nat) (sel : Sel) (tl : Sels) :
    modelFlat s frags concrete (f + 1) (.cons sel tl) =
      combineF
        (match sel with
          | .field alias name ty subTy sub => some [(alias.getD name, { name, ty, subTy, sub })]
          | .spread name =>
            match frags.get? name with
            | some (cond, fsels) => if typeConditionMatches s cond concrete then modelFlat s frags concrete f fsels else some []
            | none => some []
          | .inline tc sub =>
            if (match tc with | none => true | some c => typeConditionMatches s c concrete) then modelFlat s frags concrete f sub else some [])
        (modelFlat s frags concrete f tl) := by
  first | rfl | (simp only [modelFlat]; rfl)

/-- `collect_fields` computes the grouping of its flat traversal (and fails exactly when it does) -/
theorem collectFields_agree (s : Schema) (frags : Fragments) (concrete : Name) : ∀ (f : Nat) (sels : Sels),
    Agree (collectFields s frags concrete f sels) (modelFlat s frags concrete f sels) := by
  intro f
  induction f with
  | zero => intro sels; simp [collectFields, modelFlat, Agree]
  | succ f ih =>
    intro sels
    cases sels with
    | nil => simp only [collectFields, modelFlat]; exact agree_nil
    | cons sel tl =>
      rw [collectFields_cons, modelFlat_cons]
      apply agree_combine' _ (ih tl)
      cases sel with
      | field alias name ty subTy sub => exact agree_single _ _
      | spread name =>
        simp only
        cases frags.get? name with
        | none => exact agree_nil
        | some p =>
          obtain ⟨cond, fsels⟩ := p
          simp only
          split
          · exact ih fsels
          · exact agree_nil
      | inline tc sub =>
        cases tc with
        | none => simp only [if_true]; exact ih sub
        | some c =>
          simp only
          split
          · exact ih sub
          · exact agree_nil

/-! ### the specification's CollectFields (§6.3.2) -/

/-- DoesFragmentTypeApply(objectType, fragmentType): the object type is a possible type of the fragment type
    (the type itself, an implementing object of an interface, a member of a union) -/
def doesFragmentTypeApply (s : Schema) (objectType fragmentType : Name) : Bool :=
  (possibleTypes s fragmentType).contains objectType

def fieldEntry (alias : Option Name) (name : Name) (ty : Ty) (subTy : Name) (sub : Sels) : String × FieldInfo :=
  (alias.getD name, { name, ty, subTy, sub })

/-- CollectFields(objectType, selectionSet, variableValues, visitedFragments) with `groupedFields` as the
    accumulator `acc` and `visitedFragments` threaded through; `none` = out of fuel.
    Step 3.a/3.b (`@skip`/`@include`) are not part of the property. -/
def specCollectFields (s : Schema) (frags : Fragments) (objectType : Name) :
    Nat → List Name → Grouped → Sels → Option (Grouped × List Name)
  | 0, _, _, _ => none
  | _ + 1, visited, acc, .nil => some (acc, visited)
  | f + 1, visited, acc, .cons sel tl =>
    match sel with
    | .field alias name ty subTy sub =>
      -- 3.c: append the field to the group of its response key
      specCollectFields s frags objectType f visited (acc.add (fieldEntry alias name ty subTy sub).1 [(fieldEntry alias name ty subTy sub).2]) tl
    | .spread name =>
      -- 3.d.ii: a fragment already visited is skipped
      if visited.contains name then specCollectFields s frags objectType f visited acc tl
      else
        let visited' := name :: visited                                        -- 3.d.iii
        match frags.get? name with
        | none => specCollectFields s frags objectType f visited' acc tl      -- 3.d.v
        | some (cond, fsels) =>
          if !doesFragmentTypeApply s objectType cond then specCollectFields s frags objectType f visited' acc tl  -- 3.d.vii
          else
            match specCollectFields s frags objectType f visited' [] fsels with  -- 3.d.ix
            | none => none
            | some (fragmentGroups, visited'') =>
              specCollectFields s frags objectType f visited'' (acc.addAll fragmentGroups) tl   -- 3.d.x
    | .inline tc sub =>
      let applies := match tc with | none => true | some c => doesFragmentTypeApply s objectType c   -- 3.e.ii
      if !applies then specCollectFields s frags objectType f visited acc tl
      else
        match specCollectFields s frags objectType f visited [] sub with      -- 3.e.iv
        | none => none
        | some (fragmentGroups, visited') =>
          specCollectFields s frags objectType f visited' (acc.addAll fragmentGroups) tl      -- 3.e.v

/-- the same traversal as a flat sequence -/
def specFlat (s : Schema) (frags : Fragments) (objectType : Name) : Nat → List Name → Sels → Option (Flat × List Name)
  | 0, _, _ => none
  | _ + 1, visited, .nil => some ([], visited)
  | f + 1, visited, .cons sel tl =>
    match sel with
    | .field alias name ty subTy sub =>
      (specFlat s frags objectType f visited tl).map fun r => (fieldEntry alias name ty subTy sub :: r.1, r.2)
    | .spread name =>
      if visited.contains name then specFlat s frags objectType f visited tl
      else
        match frags.get? name with
        | none => specFlat s frags objectType f (name :: visited) tl
        | some (cond, fsels) =>
          if !doesFragmentTypeApply s objectType cond then specFlat s frags objectType f (name :: visited) tl
          else
            match specFlat s frags objectType f (name :: visited) fsels with
            | none => none
            | some (lf, visited'') => (specFlat s frags objectType f visited'' tl).map fun r => (lf ++ r.1, r.2)
    | .inline tc sub =>
      let applies := match tc with | none => true | some c => doesFragmentTypeApply s objectType c
      if !applies then specFlat s frags objectType f visited tl
      else
        match specFlat s frags objectType f visited sub with
        | none => none
        | some (li, visited') => (specFlat s frags objectType f visited' tl).map fun r => (li ++ r.1, r.2)

/-- the grouped result (on top of the accumulator `acc`) and the flat result describe the same collection -/
def SAgree (acc : Grouped) : Option (Grouped × List Name) → Option (Flat × List Name) → Prop
  | some (g, v), some (l, v') =>
    v = v' ∧ g.keys.Nodup ∧ g.keys = mergeKeys acc.keys (l.map (·.1)) ∧ ∀ k, g.get k = acc.get k ++ flatGet l k
  | none, none => True
  | _, _ => False

theorem flatGet_cons (e : String × FieldInfo) (l : Flat) (k : String) :
    flatGet (e :: l) k = (if e.1 = k then [e.2] else []) ++ flatGet l k := by
  unfold flatGet
  by_cases h : e.1 = k
  · simp [List.filter_cons, h]
  · have : (e.1 == k) = false := by simpa using h
    simp [List.filter_cons, this, h]

theorem specCollect_agree (s : Schema) (frags : Fragments) (obj : Name) : ∀ (f : Nat) (visited : List Name) (acc : Grouped)
    (sels : Sels), acc.keys.Nodup →
    SAgree acc (specCollectFields s frags obj f visited acc sels) (specFlat s frags obj f visited sels) := by
  intro f
  induction f with
  | zero => intro v acc sels _; simp [specCollectFields, specFlat, SAgree]
  | succ f ih =>
    intro v acc sels hacc
    cases sels with
    | nil =>
      simp only [specCollectFields, specFlat]
      exact ⟨rfl, hacc, rfl, fun k => by simp [flatGet]⟩
    | cons sel tl =>
      -- a reusable step: after merging the groups `fg ~ lf` into `acc`, continue with the tail
      have merge_step : ∀ (fg : Grouped) (lf : Flat) (v2 : List Name),
          fg.keys.Nodup → fg.keys = mergeKeys [] (lf.map (·.1)) → (∀ k, fg.get k = flatGet lf k) →
          SAgree acc (specCollectFields s frags obj f v2 (acc.addAll fg) tl)
            ((specFlat s frags obj f v2 tl).map fun r => (lf ++ r.1, r.2)) := by
        intro fg lf v2 hn hk hg
        have hi := ih v2 (acc.addAll fg) tl (nodup_addAll _ _ hacc)
        cases h1 : specCollectFields s frags obj f v2 (acc.addAll fg) tl with
        | none =>
          rw [h1] at hi
          cases h2 : specFlat s frags obj f v2 tl with
          | none => simp [SAgree]
          | some r => rw [h2] at hi; exact absurd hi (by simp [SAgree])
        | some r1 =>
          rw [h1] at hi
          cases h2 : specFlat s frags obj f v2 tl with
          | none => rw [h2] at hi; exact absurd hi (by cases r1; simp [SAgree])
          | some r2 =>
            rw [h2] at hi
            obtain ⟨g, vv⟩ := r1
            obtain ⟨l, vv'⟩ := r2
            obtain ⟨e1, e2, e3, e4⟩ := hi
            simp only [Option.map_some, SAgree]
            refine ⟨e1, e2, ?_, ?_⟩
            · rw [e3, keys_addAll, hk, mergeKeys_merged, List.map_append, mergeKeys_append]
            · intro k
              rw [e4, get_addAll _ _ _ hn, hg, flatGet_append, List.append_assoc]
      have nested_step : ∀ (v1 : List Name) (sub : Sels),
          SAgree acc
            (match specCollectFields s frags obj f v1 [] sub with
              | none => none
              | some (fg, v2) => specCollectFields s frags obj f v2 (acc.addAll fg) tl)
            (match specFlat s frags obj f v1 sub with
              | none => none
              | some (li, v2) => (specFlat s frags obj f v2 tl).map fun r => (li ++ r.1, r.2)) := by
        intro v1 sub
        have hf := ih v1 [] sub List.nodup_nil
        cases h1 : specCollectFields s frags obj f v1 [] sub with
        | none =>
          rw [h1] at hf
          cases h2 : specFlat s frags obj f v1 sub with
          | none => simp [SAgree]
          | some r => rw [h2] at hf; exact absurd hf (by simp [SAgree])
        | some r1 =>
          rw [h1] at hf
          cases h2 : specFlat s frags obj f v1 sub with
          | none => rw [h2] at hf; exact absurd hf (by cases r1; simp [SAgree])
          | some r2 =>
            rw [h2] at hf
            obtain ⟨fg, v2⟩ := r1
            obtain ⟨lf, v2'⟩ := r2
            obtain ⟨e1, e2, e3, e4⟩ := hf
            subst e1
            simp only
            exact merge_step fg lf v2 e2 (by simpa [Grouped.keys] using e3) (fun k => by simpa [get_nil] using e4 k)
      cases sel with
      | field alias name ty subTy sub =>
        simp only [specCollectFields, specFlat]
        have hi := ih v (acc.add (fieldEntry alias name ty subTy sub).1 [(fieldEntry alias name ty subTy sub).2]) tl
          (nodup_add _ _ _ hacc)
        cases h1 : specCollectFields s frags obj f v (acc.add (fieldEntry alias name ty subTy sub).1 [(fieldEntry alias name ty subTy sub).2]) tl with
        | none =>
          rw [h1] at hi
          cases h2 : specFlat s frags obj f v tl with
          | none => simp [SAgree]
          | some r => rw [h2] at hi; exact absurd hi (by simp [SAgree])
        | some r1 =>
          rw [h1] at hi
          cases h2 : specFlat s frags obj f v tl with
          | none => rw [h2] at hi; exact absurd hi (by cases r1; simp [SAgree])
          | some r2 =>
            rw [h2] at hi
            obtain ⟨g, vv⟩ := r1
            obtain ⟨l, vv'⟩ := r2
            obtain ⟨e1, e2, e3, e4⟩ := hi
            simp only [Option.map_some, SAgree]
            refine ⟨e1, e2, ?_, ?_⟩
            · rw [e3, keys_add]; rfl
            · intro k
              rw [e4, get_add, flatGet_cons]
              by_cases e : k = (fieldEntry alias name ty subTy sub).1
              · subst e; simp
              · have e' : ¬ (fieldEntry alias name ty subTy sub).1 = k := fun h => e h.symm
                simp [e, e']
      | spread name =>
        simp only [specCollectFields, specFlat]
        split
        · exact ih v acc tl hacc
        · cases frags.get? name with
          | none => exact ih _ acc tl hacc
          | some p =>
            obtain ⟨cond, fsels⟩ := p
            simp only
            split
            · exact ih _ acc tl hacc
            · exact nested_step (name :: v) fsels
      | inline tc sub =>
        cases tc with
        | none =>
          simp only [specCollectFields, specFlat, Bool.not_true, Bool.false_eq_true, if_false]
          exact nested_step v sub
        | some c =>
          by_cases hap : doesFragmentTypeApply s obj c = true
          · simp only [specCollectFields, specFlat, hap, Bool.not_true, Bool.false_eq_true, if_false]
            exact nested_step v sub
          · have hap' : doesFragmentTypeApply s obj c = false := by simpa using hap
            simp only [specCollectFields, specFlat, hap', Bool.not_false, if_true]
            exact ih v acc tl hacc

/-! ### `type_condition_matches` is DoesFragmentTypeApply -/

theorem get?_of_mem (s : Schema) (hnd : (s.map (·.1)).Nodup) (n : Name) (td : TypeDef) (h : (n, td) ∈ s) :
    s.get? n = some td := by
  induction s with
  | nil => cases h
  | cons e rest ih =>
    simp only [List.map_cons, List.nodup_cons] at hnd
    simp only [Schema.get?, List.find?_cons]
    rcases List.mem_cons.mp h with h1 | h1
    · subst h1; simp
    · have hne : e.1 ≠ n := by
        intro e1
        exact hnd.1 (by rw [e1]; exact List.mem_map.mpr ⟨(n, td), h1, rfl⟩)
      have : (e.1 == n) = false := by simpa using hne
      simp only [this]
      exact ih hnd.2 h1

theorem mem_of_get? (s : Schema) (n : Name) (td : TypeDef) (h : s.get? n = some td) : (n, td) ∈ s := by
  unfold Schema.get? at h
  cases hf : s.find? (·.1 == n) with
  | none => rw [hf] at h; cases h
  | some e =>
    rw [hf] at h
    simp at h
    have hm := List.mem_of_find?_eq_some hf
    have hk := List.find?_some hf
    simp at hk
    obtain ⟨a, b⟩ := e
    simp at hk h
    subst hk; subst h
    exact hm

/-- For an object type `concrete` of a schema with unique type names, `type_condition_matches(cond, concrete)`
    is exactly "`concrete` is a possible type of `cond`", i.e. DoesFragmentTypeApply. -/
theorem typeConditionMatches_eq_apply (s : Schema) (hnd : (s.map (·.1)).Nodup) (cond concrete : Name)
    (impls : List Name) (hc : s.get? concrete = some (.object impls)) :
    typeConditionMatches s cond concrete = doesFragmentTypeApply s concrete cond := by
  unfold typeConditionMatches doesFragmentTypeApply possibleTypes
  by_cases e : cond = concrete
  · subst e
    simp [hc]
  · have e' : (cond == concrete) = false := by simpa using e
    simp only [e', Bool.false_eq_true, if_false]
    cases hcond : s.get? cond with
    | none => (simp; exact fun h => e h.symm)
    | some td =>
      cases td with
      | interface =>
        simp only [hc, implementsDirectly]
        -- impls.contains cond ↔ concrete ∈ implementers s cond
        apply Bool.eq_iff_iff.mpr
        simp only [List.contains_iff_mem, implementers, List.mem_map, List.mem_filter]
        constructor
        · intro h
          exact ⟨(concrete, .object impls), ⟨mem_of_get? s _ _ hc, by simpa [implementsDirectly] using h⟩, rfl⟩
        · rintro ⟨⟨n, td⟩, ⟨hm, hi⟩, hn⟩
          simp at hn; subst hn
          have := get?_of_mem s hnd n td hm
          rw [hc] at this
          cases this
          simpa [implementsDirectly] using hi
      | union members => rfl
      | scalar => (simp; exact fun h => e h.symm)
      | enum vs => (simp; exact fun h => e h.symm)
      | object is => (simp; exact fun h => e h.symm)
      | input => (simp; exact fun h => e h.symm)

end Apollo.Smith
