import ApolloModel.Proofs.ParserTree2
import ApolloModel.Proofs.FromCst
/-
C08 growth (pipeline), part 3: the accessors of the CST → AST conversion model on plain elements.

`support::child`, `children`, `token` are first-match / filter over the children of a node that look only at
"is a node" and the kind, so (1) they can be computed on the plain child list `cs` of `node k cs`, whatever the
byte offsets and location proofs a positioned element carries, and (2) junk tokens (whitespace, comments, commas)
between the children do not matter: the computation can be done on `sigE cs`.
-/
set_option linter.unusedSimpArgs false
set_option linter.unusedVariables false
namespace Apollo.FromCst
open Apollo.Rowan Apollo.Ast
open Apollo.Parse (isJunk isJunkKind sigE nameNode)

variable {R : List Loc}

def kindE : Elem → SK
  | .node k _ => k
  | .tok k _ => k

def isNodeE : Elem → Bool
  | .node _ _ => true
  | .tok _ _ => false

theorem PE.kind_eq (p : PE R) : p.kind = kindE p.1.1 := by
  obtain ⟨⟨e, s⟩, h⟩ := p
  cases e <;> rfl

theorem PE.isNode_eq (p : PE R) : p.isNode = isNodeE p.1.1 := by
  obtain ⟨⟨e, s⟩, h⟩ := p
  cases e <;> rfl

/-- "a node whose kind satisfies `pr`" -/
def nodeP (pr : SK → Bool) (e : Elem) : Bool := isNodeE e && pr (kindE e)

theorem kidsAt_find (f : PE R → Bool) (g : Elem → Bool) (hf : ∀ q : PE R, f q = g q.1.1) :
    ∀ (cs : List Elem) (s : Nat) (h : ∀ x ∈ nameRangesList cs s, x ∈ R),
      ((kidsAt cs s h).find? f).map (fun q => q.1.1) = cs.find? g
  | [], _, _ => rfl
  | e :: es, s, h => by
    simp only [kidsAt, List.find?_cons, hf]
    cases hg : g e with
    | true => rfl
    | false => exact kidsAt_find f g hf es _ _

theorem kidsAt_filter (f : PE R → Bool) (g : Elem → Bool) (hf : ∀ q : PE R, f q = g q.1.1) :
    ∀ (cs : List Elem) (s : Nat) (h : ∀ x ∈ nameRangesList cs s, x ∈ R),
      ((kidsAt cs s h).filter f).map (fun q => q.1.1) = cs.filter g
  | [], _, _ => rfl
  | e :: es, s, h => by
    simp only [kidsAt, List.filter_cons, hf]
    cases hg : g e with
    | true => simp only [if_true, List.map_cons]; rw [kidsAt_filter f g hf es _ _]
    | false => simp only [Bool.false_eq_true, if_false]; exact kidsAt_filter f g hf es _ _

theorem kidsAt_any (f : PE R → Bool) (g : Elem → Bool) (hf : ∀ q : PE R, f q = g q.1.1) :
    ∀ (cs : List Elem) (s : Nat) (h : ∀ x ∈ nameRangesList cs s, x ∈ R), (kidsAt cs s h).any f = cs.any g
  | [], _, _ => rfl
  | e :: es, s, h => by
    simp only [kidsAt, List.any_cons, hf]
    rw [kidsAt_any f g hf es _ _]

theorem kids_node (k : SK) (cs : List Elem) (s : Nat) (h : ∀ x ∈ nameRanges (.node k cs) s, x ∈ R) :
    PE.kids (⟨(.node k cs, s), h⟩ : PE R) =
      kidsAt cs s (fun x hx => h x (by rw [nameRanges_node]; exact List.mem_append_right _ hx)) := rfl

/-- `childP` on a node: the first child element that is a node of a kind satisfying `pr` -/
theorem childP_some (pr : SK → Bool) (k : SK) (cs : List Elem) (s : Nat) (h : ∀ x ∈ nameRanges (.node k cs) s, x ∈ R)
    (e : Elem) (he : cs.find? (nodeP pr) = some e) :
    ∃ s' h', childP pr (⟨(.node k cs, s), h⟩ : PE R) = some ⟨(e, s'), h'⟩ := by
  have := kidsAt_find (R := R) (fun c => c.isNode && pr c.kind) (nodeP pr)
    (fun q => by simp [nodeP, PE.kind_eq, PE.isNode_eq]) cs s
    (fun x hx => h x (by rw [nameRanges_node]; exact List.mem_append_right _ hx))
  rw [he] at this
  unfold childP
  rw [kids_node]
  cases hf : (kidsAt cs s _).find? (fun c => c.isNode && pr c.kind) with
  | none => rw [hf] at this; cases this
  | some q =>
    rw [hf] at this
    obtain ⟨⟨e', s'⟩, h'⟩ := q
    simp only [Option.map_some, Option.some.injEq] at this
    subst this
    exact ⟨s', h', rfl⟩

theorem childP_none (pr : SK → Bool) (k : SK) (cs : List Elem) (s : Nat) (h : ∀ x ∈ nameRanges (.node k cs) s, x ∈ R)
    (he : cs.find? (nodeP pr) = none) : childP pr (⟨(.node k cs, s), h⟩ : PE R) = none := by
  have := kidsAt_find (R := R) (fun c => c.isNode && pr c.kind) (nodeP pr)
    (fun q => by simp [nodeP, PE.kind_eq, PE.isNode_eq]) cs s
    (fun x hx => h x (by rw [nameRanges_node]; exact List.mem_append_right _ hx))
  rw [he] at this
  unfold childP
  rw [kids_node]
  cases hf : (kidsAt cs s _).find? (fun c => c.isNode && pr c.kind) with
  | none => rfl
  | some q => rw [hf] at this; cases this

theorem child_eq_childP (k : SK) (p : PE R) : child k p = childP (· == k) p := rfl
theorem children_eq_childrenP (k : SK) (p : PE R) : children k p = childrenP (· == k) p := rfl

/-- `childrenP` on a node: the child elements that are nodes of a kind satisfying `pr`, in order -/
theorem childrenP_map (pr : SK → Bool) (k : SK) (cs : List Elem) (s : Nat) (h : ∀ x ∈ nameRanges (.node k cs) s, x ∈ R) :
    (childrenP pr (⟨(.node k cs, s), h⟩ : PE R)).map (fun q => q.1.1) = cs.filter (nodeP pr) := by
  unfold childrenP
  rw [kids_node]
  exact kidsAt_filter (R := R) (fun c => c.isNode && pr c.kind) (nodeP pr)
    (fun q => by simp [nodeP, PE.kind_eq, PE.isNode_eq]) cs s _

theorem hasToken_eq (kt : SK) (k : SK) (cs : List Elem) (s : Nat) (h : ∀ x ∈ nameRanges (.node k cs) s, x ∈ R) :
    hasToken kt (⟨(.node k cs, s), h⟩ : PE R) = cs.any (fun e => !isNodeE e && kindE e == kt) := by
  unfold hasToken
  rw [kids_node]
  exact kidsAt_any (R := R) _ _ (fun q => by simp [PE.kind_eq, PE.isNode_eq]) cs s _

/-! ### junk does not matter -/

theorem find_sigE (g : Elem → Bool) (hg : ∀ e, isJunk e = true → g e = false) :
    ∀ cs : List Elem, cs.find? g = (sigE cs).find? g
  | [] => rfl
  | e :: es => by
    unfold sigE
    simp only [List.filter_cons, List.find?_cons]
    cases hj : isJunk e with
    | true =>
      simp only [Bool.not_true, Bool.false_eq_true, if_false, hg e hj]
      exact find_sigE g hg es
    | false =>
      simp only [Bool.not_false, if_true, List.find?_cons]
      cases g e with
      | true => rfl
      | false => exact find_sigE g hg es

theorem filter_sigE (g : Elem → Bool) (hg : ∀ e, isJunk e = true → g e = false) :
    ∀ cs : List Elem, cs.filter g = (sigE cs).filter g
  | [] => rfl
  | e :: es => by
    unfold sigE
    simp only [List.filter_cons]
    cases hj : isJunk e with
    | true =>
      simp only [Bool.not_true, Bool.false_eq_true, if_false, hg e hj]
      exact filter_sigE g hg es
    | false =>
      simp only [Bool.not_false, if_true, List.filter_cons]
      cases g e with
      | true => simp only [if_true]; rw [filter_sigE g hg es]; rfl
      | false => simp only [Bool.false_eq_true, if_false]; exact filter_sigE g hg es

theorem any_sigE (g : Elem → Bool) (hg : ∀ e, isJunk e = true → g e = false) :
    ∀ cs : List Elem, cs.any g = (sigE cs).any g
  | [] => rfl
  | e :: es => by
    unfold sigE
    simp only [List.filter_cons, List.any_cons]
    cases hj : isJunk e with
    | true =>
      simp only [Bool.not_true, Bool.false_eq_true, if_false, hg e hj, Bool.false_or]
      exact any_sigE g hg es
    | false =>
      simp only [Bool.not_false, if_true, List.any_cons]
      rw [any_sigE g hg es]; rfl

theorem nodeP_junk (pr : SK → Bool) (e : Elem) (h : isJunk e = true) : nodeP pr e = false := by
  cases e with
  | tok k t => rfl
  | node k cs => simp [isJunk] at h

theorem find_nodeP_sigE (pr : SK → Bool) (cs : List Elem) : cs.find? (nodeP pr) = (sigE cs).find? (nodeP pr) :=
  find_sigE _ (nodeP_junk pr) cs

theorem filter_nodeP_sigE (pr : SK → Bool) (cs : List Elem) : cs.filter (nodeP pr) = (sigE cs).filter (nodeP pr) :=
  filter_sigE _ (nodeP_junk pr) cs

/-! ### the monad -/

theorem bind_ok {α β : Type} {m : M R α} {f : α → M R β} {a : α} {l : Locs R} {b : β} {l' : Locs R}
    (hm : m = some (a, l)) (hf : f a = some (b, l')) : (m >>= f) = some (b, l ++ l') := by
  show M.bind' m f = _
  unfold M.bind'
  rw [hm]
  simp only [hf]

theorem pure_ok {α : Type} (a : α) : (pure a : M R α) = some (a, []) := rfl

/-! ### conversions on plain elements -/

/-- `f` converts the element `e` — at whatever offset, with whatever location set — to `a` -/
def ConvE {α : Type} (f : (R : List Loc) → PE R → M R α) (a : α) (e : Elem) : Prop :=
  ∀ (R : List Loc) (s : Nat) (h : ∀ x ∈ nameRanges e s, x ∈ R), ∃ l, f R ⟨(e, s), h⟩ = some (a, l)

/-- pointwise relation of two lists -/
inductive All2 {α β : Type} (r : α → β → Prop) : List α → List β → Prop
  | nil : All2 r [] []
  | cons {a b as bs} : r a b → All2 r as bs → All2 r (a :: as) (b :: bs)

/-- `filter_map` over converting items -/
theorem filterMapM_conv {α : Type} (f : (R : List Loc) → PE R → M R α) :
    ∀ (qs : List (PE R)) (as : List α), All2 (fun q a => ConvE f a q.1.1) qs as →
      ∃ l, filterMapM (f R) qs = (as, l)
  | [], [], _ => ⟨[], rfl⟩
  | [], _ :: _, h => by cases h
  | _ :: _, [], h => by cases h
  | q :: qs, a :: as, h => by
    cases h with
    | cons h1 h2 =>
      obtain ⟨l2, e2⟩ := filterMapM_conv f qs as h2
      obtain ⟨⟨e, s⟩, hp⟩ := q
      obtain ⟨l1, e1⟩ := h1 R s hp
      refine ⟨l1 ++ l2, ?_⟩
      simp only [filterMapM, e2, e1]

theorem collectM_conv {α : Type} (f : (R : List Loc) → PE R → M R α) (qs : List (PE R)) (es : List Elem) (as : List α)
    (hq : qs.map (fun q => q.1.1) = es) (h : All2 (fun e a => ConvE f a e) es as) :
    ∃ l, collectM (f R) qs = some (as, l) := by
  have : All2 (fun q a => ConvE f a q.1.1) qs as := by
    subst hq
    induction qs generalizing as with
    | nil => cases h; exact All2.nil
    | cons q qs ih =>
      cases h with
      | cons h1 h2 => exact All2.cons h1 (ih _ h2)
  obtain ⟨l, e⟩ := filterMapM_conv f qs as this
  exact ⟨l, by unfold collectM; rw [e]⟩

/-! ### names -/

theorem cName_nameNode (d : Rowan.Str) (hv : isValidName d = true) : ConvE (fun R => @cName R) d (nameNode d) := by
  intro R s h
  obtain ⟨l, hl, _⟩ := cName_ident (R := R) "IDENT" d s h hv
  exact ⟨[l], hl⟩

/-- `x.name()?.convert()`: the first NAME child is `NAME[IDENT d]` -/
theorem nameOf_node (k : SK) (cs : List Elem) (d : Rowan.Str) (hv : isValidName d = true)
    (hf : (sigE cs).find? (nodeP (· == "NAME")) = some (nameNode d)) :
    ConvE (fun R => @nameOf R) d (.node k cs) := by
  intro R s h
  rw [← find_nodeP_sigE] at hf
  obtain ⟨s', h', hc⟩ := childP_some (R := R) (· == "NAME") k cs s h _ hf
  obtain ⟨l, hl⟩ := cName_nameNode d hv R s' h'
  refine ⟨l, ?_⟩
  show (match child "NAME" (⟨(Elem.node k cs, s), h⟩ : PE R) with | some n => cName n | none => none) = some (d, l)
  rw [child_eq_childP, hc]
  exact hl

end Apollo.FromCst
