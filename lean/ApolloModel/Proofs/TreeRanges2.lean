import ApolloModel.Proofs.TreeRanges
import ApolloModel.Proofs.ParserLossless
/-
Ranges of the parsed tree are ranges of the SOURCE (via C02's lossless theorem), and the NAME nodes
the grammar builds consist of exactly one IDENT token.
-/
set_option linter.unusedSimpArgs false
set_option linter.unusedVariables false
namespace Apollo.Parse
open Apollo.Rowan hiding Str
open Apollo.Lex hiding Str

/-- every element of the document tree: its rowan range slices the source to exactly its text and
    lies inside the file (no token limit, nothing dropped by ty.rs) -/
theorem document_ranges (rl : Nat) (src : Str) (root : Elem)
    (h : (parse .document none rl src).outcome = .tree root)
    (hd : (parse .document none rl src).dropped = false) (p : List Nat) (e : Elem) (he : subAt root p = some e) :
    sliceBytes src (offsetAt root p) e.len = some e.text ∧ offsetAt root p + e.len ≤ utf8Len src := by
  have hsrc := lossless_document rl src root h hd
  refine ⟨range_exact root src hsrc p e he, ?_⟩
  have := range_in_file root p e he
  unfold Elem.len at this
  rw [hsrc] at this
  exact this

/-! ### `skip_ignored` never touches the tree builder -/

theorem skipIgnoredLoop_builder : ∀ (fuel : Nat) (s : PState) (u : Unit) (s' : PState),
    (skipIgnoredLoop fuel).run s = .ok u s' → s'.builder = s.builder
  | 0, s, u, s', h => by simp [skipIgnoredLoop, PI.outOfFuel] at h
  | fuel + 1, s, u, s', h => by
    unfold skipIgnoredLoop at h
    rw [run_bind] at h
    -- peekToken
    have hp : ∃ a s1, peekToken.run s = .ok a s1 ∧ s1.builder = s.builder := by
      cases hc : s.current with
      | some t => exact ⟨some t, s, by simp [peekToken, hc], rfl⟩
      | none =>
        exact ⟨(nextToken s).1, { (nextToken s).2 with current := (nextToken s).1 }, by simp [peekToken, hc],
          (nextToken_spec s).builder⟩
    obtain ⟨a, s1, hr1, hb1⟩ := hp
    rw [hr1] at h
    simp only [] at h
    rw [run_bind] at h
    have hm : ∃ b s2, moveCurToPending.run s1 = .ok b s2 ∧ s2.builder = s1.builder := by
      cases hc : s1.current with
      | none => exact ⟨false, s1, by simp [moveCurToPending, hc], rfl⟩
      | some t =>
        by_cases hig : isIgnoredKind t.kind = true
        · exact ⟨true, { s1 with current := none, pending := s1.pending ++ [.ignored t] }, by simp [moveCurToPending, hc, hig], rfl⟩
        · exact ⟨false, s1, by simp [moveCurToPending, hc, hig], rfl⟩
    obtain ⟨b, s2, hr2, hb2⟩ := hm
    rw [hr2] at h
    simp only [] at h
    cases b with
    | true =>
      simp only [if_true] at h
      rw [skipIgnoredLoop_builder fuel s2 u s' h, hb2, hb1]
    | false =>
      simp only [Bool.false_eq_true, if_false, run_pure, Res.ok.injEq] at h
      rw [← h.2, hb2, hb1]

theorem skipIgnored_builder (s : PState) (u : Unit) (s' : PState) (h : skipIgnored.run s = .ok u s') :
    s'.builder = s.builder := by
  unfold skipIgnored at h
  rw [run_bind] at h
  have : srcLen.run s = .ok s.lx.src.length s := rfl
  rw [this] at h
  exact skipIgnoredLoop_builder _ s u s' h

/-- with a non-ignored current token `skip_ignored` does nothing at all -/
theorem skipIgnored_noop (s : PState) (t : Tok) (hc : s.current = some t) (hig : isIgnoredKind t.kind = false) :
    skipIgnored.run s = .ok () s := by
  unfold skipIgnored
  rw [run_bind]
  have : srcLen.run s = .ok s.lx.src.length s := rfl
  rw [this]
  simp only []
  unfold skipIgnoredLoop
  rw [run_bind]
  have h1 : peekToken.run s = .ok (some t) s := by simp [peekToken, hc]
  rw [h1]
  simp only []
  rw [run_bind]
  have h2 : moveCurToPending.run s = .ok false s := by simp [moveCurToPending, hc, hig]
  rw [h2]
  simp [run_pure]

/-- `eat` on a current token with nothing pending: exactly one token is appended to the open node -/
theorem eat_builder (kind : SK) (s : PState) (t : Tok) (hc : s.current = some t) (hp : s.pending = []) :
    ∃ s3, (eat kind).run s = .ok () s3 ∧ s3.builder.parents = s.builder.parents ∧
      s3.builder.children = s.builder.children ++ [Elem.tok kind t.data] := by
  unfold eat
  rw [run_bind]
  have h0 : pushIgnored.run s = .ok () { s with builder := { s.builder with children := s.builder.children ++ s.pending.map pendingElem }, pending := [] } := rfl
  rw [h0]
  simp only []
  rw [run_bind]
  have h1 : peekToken.run { s with builder := { s.builder with children := s.builder.children ++ s.pending.map pendingElem }, pending := [] } = .ok (some t) { s with builder := { s.builder with children := s.builder.children ++ s.pending.map pendingElem }, pending := [] } := by
    simp [peekToken, hc]
  rw [h1]
  simp only []
  refine ⟨_, by simp [moveCurToTree, hc]; rfl, ?_, ?_⟩
  · rfl
  · simp [hp]

/-- WHAT `name()` BUILDS: entered on a Name token, it appends (after flushing the pending trivia,
    which therefore stay OUTSIDE the node) exactly one node `NAME[IDENT(text)]` — one IDENT token
    and no trivia; the trivia that follow the name are queued as pending again, after the node closed -/
theorem name_builds (s : PState) (t : Tok) (hc : s.current = some t) (hk : t.kind = .name) (u : Unit) (s' : PState)
    (hr : name.run s = .ok u s') :
    s'.builder.children = s.builder.children ++ s.pending.map pendingElem ++ [Elem.node "NAME" [Elem.tok "IDENT" t.data]] ∧
      s'.builder.parents = s.builder.parents := by
  unfold name at hr
  rw [run_bind] at hr
  have h1 : peekToken.run s = .ok (some t) s := by simp [peekToken, hc]
  rw [h1] at hr
  simp only [hk, beq_self_eq_true, if_true] at hr
  -- the three states of `withNode`
  have e1 : pushIgnored.run s = .ok () { s with builder := { s.builder with children := s.builder.children ++ s.pending.map pendingElem }, pending := [] } := rfl
  generalize hs1 : rawStartNode "NAME" { s with builder := { s.builder with children := s.builder.children ++ s.pending.map pendingElem }, pending := [] } = s1 at *
  have hc1 : s1.current = some t := by rw [← hs1]; exact hc
  have hp1 : s1.pending = [] := by rw [← hs1]; rfl
  have hb1c : s1.builder.children = s.builder.children ++ s.pending.map pendingElem := by rw [← hs1]; rfl
  have hb1p : s1.builder.parents = ("NAME", (s.builder.children ++ s.pending.map pendingElem).length) :: s.builder.parents := by
    rw [← hs1]; rfl
  have hig : isIgnoredKind t.kind = false := by rw [hk]; rfl
  obtain ⟨s3, he, hp3, hc3⟩ := eat_builder "IDENT" s1 t hc1 hp1
  have hinner : (skipIgnored >>= fun _ => bump "IDENT").run s1 = skipIgnored.run s3 := by
    rw [run_bind, skipIgnored_noop s1 t hc1 hig]
    simp only [bump]
    rw [run_bind, he]
  simp only [withNode, e1, hs1, hinner] at hr
  cases hr4 : skipIgnored.run s3 with
  | ok u4 s4 =>
    rw [hr4] at hr
    simp only [] at hr
    have hb4 := skipIgnored_builder s3 u4 s4 hr4
    have hpar : s4.builder.parents = ("NAME", (s.builder.children ++ s.pending.map pendingElem).length) :: s.builder.parents := by
      rw [hb4, hp3, hb1p]
    have hch : s4.builder.children = (s.builder.children ++ s.pending.map pendingElem) ++ [Elem.tok "IDENT" t.data] := by
      rw [hb4, hc3, hb1c]
    simp only [Builder.finishNode, hpar, Res.ok.injEq] at hr
    obtain ⟨_, rfl⟩ := hr
    simp only [hch]
    constructor
    · rw [List.take_left' rfl, List.drop_left' rfl]
    · trivial
  | abort w => rw [hr4] at hr; simp at hr
  | panic m => rw [hr4] at hr; simp at hr

/-! ### helpers for kernel-evaluated witnesses (`Elem` has no decidable equality) -/

/-- the tree of a result (a dummy token when the run did not produce one) -/
def rootOf (r : PResult) : Elem := match r.outcome with | .tree root => root | _ => .tok "" []

/-- Bool-valued shape test (`Elem` has no decidable equality): `e` is `NAME[IDENT(d)]` -/
def isNameOf : Option Elem → Rowan.Str → Bool
  | some (.node k [.tok k' d']), d => k == "NAME" && k' == "IDENT" && d' == d
  | _, _ => false

theorem isNameOf_sound (e : Option Elem) (d : Rowan.Str) (h : isNameOf e d = true) :
    e = some (.node "NAME" [.tok "IDENT" d]) := by
  unfold isNameOf at h
  split at h
  · simp at h
    obtain ⟨⟨h1, h2⟩, h3⟩ := h
    subst h1; subst h2; subst h3; rfl
  · exact absurd h (by simp)

theorem rootOf_tree (r : PResult) (h : (match r.outcome with | .tree _ => true | _ => false) = true) :
    r.outcome = .tree (rootOf r) := by
  unfold rootOf
  split <;> simp_all

end Apollo.Parse
