import ApolloModel.Proofs.AstItems
/-
Round trip of whole definitions and documents through the reference parser.
-/
namespace Apollo.Ast

/-! ### field definitions -/

def wfFieldDefs : List FieldDef → Bool
  | [] => true
  | v :: r => wfIVDs v.args && wfDirs v.dirs && wfFieldDefs r

def szFieldDefs : List FieldDef → Nat
  | [] => 1
  | v :: r => szIVDs v.args + szTy v.ty + szDirs v.dirs + szFieldDefs r + 1

theorem fieldDef_roundtrip (v : FieldDef) (f : Nat) (rest : List Tok) (h1 : wfIVDs v.args = true)
    (h2 : wfDirs v.dirs = true) (hs : szIVDs v.args + szTy v.ty + szDirs v.dirs ≤ f) (hr : calm rest = true) :
    pFieldDef f (tFieldDef v ++ rest) = some (v, rest) := by
  obtain ⟨desc, name, args, ty, ds⟩ := v
  simp only at h1 h2 hs
  obtain ⟨a, _, c⟩ := tyDefaultDirs_roundtrip ty none ds f rest rfl h2 (by simp [szDefault]; omega) hr
  have hargs := argumentsDefinition_roundtrip args f (.p .colon :: (tTy ty ++ tDirectives ds ++ rest)) h1 (by omega)
    (by simp [notLParen])
  simp only [tDefault, List.append_nil, List.nil_append] at a c
  cases desc with
  | none =>
    simp only [tFieldDef, tDescription, List.nil_append, List.cons_append, List.append_assoc] at a c hargs ⊢
    simp [pFieldDef, pDescription, hargs, a, c]
  | some d =>
    simp only [tFieldDef, tDescription, List.cons_append, List.nil_append, List.append_assoc] at a c hargs ⊢
    simp [pFieldDef, pDescription, hargs, a, c]

theorem tFieldDef_head (v : FieldDef) (X : List Tok) : ∃ t r, tFieldDef v ++ X = t :: r ∧ nameOrStr t = true := by
  obtain ⟨desc, name, args, ty, ds⟩ := v
  cases desc with
  | none => exact ⟨.name name, _, by simp only [tFieldDef, tDescription, List.nil_append, List.cons_append]; rfl, rfl⟩
  | some d => exact ⟨.str d, _, by simp only [tFieldDef, tDescription, List.cons_append, List.nil_append]; rfl, rfl⟩

theorem calm_of_nameOrStr {t : Tok} {r : List Tok} (h : nameOrStr t = true) : calm (t :: r) = true := by
  cases t <;> simp_all [nameOrStr, calm]

theorem calm_tFieldDefItems (vs : List FieldDef) (rest : List Tok) : calm (tFieldDefItems vs ++ .p .rCurly :: rest) = true := by
  cases vs with
  | nil => rfl
  | cons v r =>
    obtain ⟨t, r', e, hne⟩ := tFieldDef_head v (tFieldDefItems r ++ .p .rCurly :: rest)
    simp only [tFieldDefItems, List.append_assoc]
    rw [e]; exact calm_of_nameOrStr hne

theorem pFieldDefsTail_cons (f : Nat) (ts : List Tok) (t : Tok) (r : List Tok) (e : ts = t :: r)
    (hne : nameOrStr t = true) (v : FieldDef) (r1 : List Tok) (vs : List FieldDef) (r2 : List Tok)
    (h1 : pFieldDef f ts = some (v, r1)) (h2 : pFieldDefsTail f r1 = some (vs, r2)) :
    pFieldDefsTail (f + 1) ts = some (v :: vs, r2) := by
  subst e
  cases t <;> simp_all [nameOrStr, pFieldDefsTail]

theorem fieldDefsTail_roundtrip : ∀ (vs : List FieldDef) (f : Nat) (rest : List Tok), wfFieldDefs vs = true →
    szFieldDefs vs ≤ f → pFieldDefsTail f (tFieldDefItems vs ++ .p .rCurly :: rest) = some (vs, rest)
  | [], f + 1, rest, _, _ => by simp [tFieldDefItems, pFieldDefsTail]
  | v :: r, f + 1, rest, h, hs => by
      simp [wfFieldDefs] at h
      simp [szFieldDefs] at hs
      have h1 := fieldDef_roundtrip v f (tFieldDefItems r ++ .p .rCurly :: rest) h.1.1 h.1.2 (by omega)
        (calm_tFieldDefItems r rest)
      have htl := fieldDefsTail_roundtrip r f rest h.2 (by omega)
      obtain ⟨t, r', e, hne⟩ := tFieldDef_head v (tFieldDefItems r ++ .p .rCurly :: rest)
      simp only [tFieldDefItems, List.append_assoc]
      exact pFieldDefsTail_cons f _ t r' e hne v _ r rest h1 htl
  | [], 0, _, _, hs | _ :: _, 0, _, _, hs => by simp [szFieldDefs] at hs

theorem fieldsDefinition_roundtrip (fields : List FieldDef) (f : Nat) (rest : List Tok)
    (h : wfFieldDefs fields = true) (hs : szFieldDefs fields ≤ f) (hr : rest.head? ≠ some (.p .lCurly)) :
    pFieldsDefinition f (tBraced (tFieldDefItems fields) fields.isEmpty ++ rest) = some (fields, rest) := by
  cases fields with
  | nil =>
    simp only [tBraced, List.isEmpty_nil, if_true, List.nil_append]
    cases rest with
    | nil => rfl
    | cons a r =>
      simp only [List.head?_cons, ne_eq, Option.some.injEq] at hr
      cases a with
      | p k => cases k <;> first | exact absurd rfl hr | rfl
      | _ => rfl
  | cons a r =>
    have := fieldDefsTail_roundtrip (a :: r) f rest h hs
    simp [tBraced, pFieldsDefinition, this]

/-! ### enum values -/

def wfEnumValueDefs : List EnumValueDef → Bool
  | [] => true
  | v :: r => wfDirs v.dirs && wfEnumValueDefs r

def szEnumValueDefs : List EnumValueDef → Nat
  | [] => 1
  | v :: r => szDirs v.dirs + szEnumValueDefs r + 1

theorem enumValueDef_roundtrip (v : EnumValueDef) (f : Nat) (rest : List Tok) (h2 : wfDirs v.dirs = true)
    (hs : szDirs v.dirs ≤ f) (hr : calm rest = true) : pEnumValueDef f (tEnumValueDef v ++ rest) = some (v, rest) := by
  obtain ⟨desc, value, ds⟩ := v
  simp only at h2 hs
  have c := directives_roundtrip ds f rest h2 hs (calm_dirFollow hr)
  cases desc with
  | none =>
    simp only [tEnumValueDef, tDescription, List.nil_append, List.cons_append]
    simp [pEnumValueDef, pDescription, c]
  | some d =>
    simp only [tEnumValueDef, tDescription, List.cons_append, List.nil_append]
    simp [pEnumValueDef, pDescription, c]

theorem tEnumValueDef_head (v : EnumValueDef) (X : List Tok) : ∃ t r, tEnumValueDef v ++ X = t :: r ∧ nameOrStr t = true := by
  obtain ⟨desc, value, ds⟩ := v
  cases desc with
  | none => exact ⟨.name value, _, by simp only [tEnumValueDef, tDescription, List.nil_append, List.cons_append]; rfl, rfl⟩
  | some d => exact ⟨.str d, _, by simp only [tEnumValueDef, tDescription, List.cons_append, List.nil_append]; rfl, rfl⟩

theorem calm_tEnumValueDefItems (vs : List EnumValueDef) (rest : List Tok) :
    calm (tEnumValueDefItems vs ++ .p .rCurly :: rest) = true := by
  cases vs with
  | nil => rfl
  | cons v r =>
    obtain ⟨t, r', e, hne⟩ := tEnumValueDef_head v (tEnumValueDefItems r ++ .p .rCurly :: rest)
    simp only [tEnumValueDefItems, List.append_assoc]
    rw [e]; exact calm_of_nameOrStr hne

theorem pEnumValueDefsTail_cons (f : Nat) (ts : List Tok) (t : Tok) (r : List Tok) (e : ts = t :: r)
    (hne : nameOrStr t = true) (v : EnumValueDef) (r1 : List Tok) (vs : List EnumValueDef) (r2 : List Tok)
    (h1 : pEnumValueDef f ts = some (v, r1)) (h2 : pEnumValueDefsTail f r1 = some (vs, r2)) :
    pEnumValueDefsTail (f + 1) ts = some (v :: vs, r2) := by
  subst e
  cases t <;> simp_all [nameOrStr, pEnumValueDefsTail]

theorem enumValueDefsTail_roundtrip : ∀ (vs : List EnumValueDef) (f : Nat) (rest : List Tok), wfEnumValueDefs vs = true →
    szEnumValueDefs vs ≤ f → pEnumValueDefsTail f (tEnumValueDefItems vs ++ .p .rCurly :: rest) = some (vs, rest)
  | [], f + 1, rest, _, _ => by simp [tEnumValueDefItems, pEnumValueDefsTail]
  | v :: r, f + 1, rest, h, hs => by
      simp [wfEnumValueDefs] at h
      simp [szEnumValueDefs] at hs
      have h1 := enumValueDef_roundtrip v f (tEnumValueDefItems r ++ .p .rCurly :: rest) h.1 (by omega)
        (calm_tEnumValueDefItems r rest)
      have htl := enumValueDefsTail_roundtrip r f rest h.2 (by omega)
      obtain ⟨t, r', e, hne⟩ := tEnumValueDef_head v (tEnumValueDefItems r ++ .p .rCurly :: rest)
      simp only [tEnumValueDefItems, List.append_assoc]
      exact pEnumValueDefsTail_cons f _ t r' e hne v _ r rest h1 htl
  | [], 0, _, _, hs | _ :: _, 0, _, _, hs => by simp [szEnumValueDefs] at hs

theorem enumValuesDefinition_roundtrip (values : List EnumValueDef) (f : Nat) (rest : List Tok)
    (h : wfEnumValueDefs values = true) (hs : szEnumValueDefs values ≤ f) (hr : rest.head? ≠ some (.p .lCurly)) :
    pEnumValuesDefinition f (tBraced (tEnumValueDefItems values) values.isEmpty ++ rest) = some (values, rest) := by
  cases values with
  | nil =>
    simp only [tBraced, List.isEmpty_nil, if_true, List.nil_append]
    cases rest with
    | nil => rfl
    | cons a r =>
      simp only [List.head?_cons, ne_eq, Option.some.injEq] at hr
      cases a with
      | p k => cases k <;> first | exact absurd rfl hr | rfl
      | _ => rfl
  | cons a r =>
    have := enumValueDefsTail_roundtrip (a :: r) f rest h hs
    simp [tBraced, pEnumValuesDefinition, this]

/-! ### separated name lists -/

theorem pSepNames_stop (sep : P) (f : Nat) (rest : List Tok) (hr : rest.head? ≠ some (.p sep)) :
    pSepNames sep f rest = ([], rest) := by
  cases f with
  | zero => rfl
  | succ f =>
    cases rest with
    | nil => rfl
    | cons a r =>
      simp only [List.head?_cons, ne_eq, Option.some.injEq] at hr
      cases a with
      | p k =>
        have hk : k ≠ sep := fun e => hr (by rw [e])
        cases r with
        | nil => rfl
        | cons b r2 => cases b <;> simp [pSepNames, hk]
      | _ => rfl

theorem sepNames_roundtrip (sep : P) : ∀ (ns : List Str) (f : Nat) (rest : List Tok), ns.length ≤ f →
    rest.head? ≠ some (.p sep) → pSepNames sep f (tSepNames sep ns ++ rest) = (ns, rest)
  | [], f, rest, _, hr => by simpa [tSepNames] using pSepNames_stop sep f rest hr
  | n :: r, f + 1, rest, hs, hr => by
      have := sepNames_roundtrip sep r f rest (by simp at hs; omega) hr
      simp [tSepNames, pSepNames, this]
  | _ :: _, 0, _, hs, _ => by simp at hs

theorem sepList_roundtrip (sep : P) (first : Str) (ns : List Str) (f : Nat) (rest : List Tok) (hs : ns.length ≤ f)
    (hr : rest.head? ≠ some (.p sep)) :
    pSepList sep f (.name first :: tSepNames sep ns ++ rest) = some (first :: ns, rest) := by
  have := sepNames_roundtrip sep ns f rest hs hr
  simp [pSepList, this]

theorem implements_roundtrip (impls : List Str) (f : Nat) (rest : List Tok) (hs : impls.length ≤ f)
    (hr : rest.head? ≠ some (.p .amp)) (hi : rest.head? ≠ some (.name sImplements)) :
    pImplements f (tSepList [.name sImplements] .amp impls ++ rest) = some (impls, rest) := by
  cases impls with
  | nil =>
    simp only [tSepList, List.nil_append]
    cases rest with
    | nil => rfl
    | cons a r =>
      simp only [List.head?_cons, ne_eq, Option.some.injEq] at hi
      cases a with
      | name n =>
        have : n ≠ sImplements := fun e => hi (by rw [e])
        simp [pImplements, this]
      | _ => rfl
  | cons a r =>
    have := sepList_roundtrip .amp a r f rest (by simp at hs; omega) hr
    simp only [tSepList, List.cons_append, List.nil_append] at this ⊢
    simp [pImplements, this]

theorem unionMembers_roundtrip (members : List Str) (f : Nat) (rest : List Tok) (hs : members.length ≤ f)
    (hr : rest.head? ≠ some (.p .pipe)) (he : rest.head? ≠ some (.p .eq)) :
    pUnionMembers f (tSepList [.p .eq] .pipe members ++ rest) = some (members, rest) := by
  cases members with
  | nil =>
    simp only [tSepList, List.nil_append]
    cases rest with
    | nil => rfl
    | cons a r =>
      simp only [List.head?_cons, ne_eq, Option.some.injEq] at he
      cases a with
      | p k => cases k <;> first | exact absurd rfl he | rfl
      | _ => rfl
  | cons a r =>
    have := sepList_roundtrip .pipe a r f rest (by simp at hs; omega) hr
    simp only [tSepList, List.cons_append, List.nil_append] at this ⊢
    simp [pUnionMembers, this]

/-! ### root operation types -/

theorem opTypeOf_name (ot : OpType) : opTypeOf ot.name.toList = some ot := by
  cases ot <;> simp [opTypeOf, OpType.name]

theorem rootOpsTail_roundtrip : ∀ (rs : List (OpType × Str)) (f : Nat) (rest : List Tok), rs.length + 1 ≤ f →
    pRootOpsTail f (tRootOpItems rs ++ .p .rCurly :: rest) = some (rs, rest)
  | [], f + 1, rest, _ => by simp [tRootOpItems, pRootOpsTail]
  | (ot, n) :: r, f + 1, rest, hs => by
      have := rootOpsTail_roundtrip r f rest (by simp at hs; omega)
      simp [tRootOpItems, tRootOp, pRootOpsTail, opTypeOf_name, this]
  | [], 0, _, hs | _ :: _, 0, _, hs => by simp at hs

theorem rootOps_roundtrip (rs : List (OpType × Str)) (f : Nat) (rest : List Tok) (hne : rs ≠ []) (hs : rs.length + 1 ≤ f) :
    pRootOps f (.p .lCurly :: tRootOpItems rs ++ .p .rCurly :: rest) = some (rs, rest) := by
  have := rootOpsTail_roundtrip rs f rest hs
  cases rs with
  | nil => exact absurd rfl hne
  | cons a r => simp [pRootOps, this]

end Apollo.Ast
