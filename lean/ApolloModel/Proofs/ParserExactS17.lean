import ApolloModel.Proofs.ParserExactS16
import ApolloModel.Proofs.ParserExactC42
/-
EXACT COMPLETENESS / ASSEMBLY, part 17 (namespace Apollo.Parse.Exact): `document_accept_complete` over the EXACT follow condition
`DocFollowX`.  The remaining per-item follow conditions of the completeness calculus (`@ ( & = |`, the Name `implements`) are
derived from "the next item is a definition within the budget" by a first-token analysis of `DocItem.toks`.
-/
set_option linter.unusedSimpArgs false
namespace Apollo.Parse.Exact
open Apollo.Rowan hiding Str
open Apollo.Lex hiding Str

/-- how a definition can start: a description, `{`, or a Name other than `implements` -/
def HeadA (a : Ast.Tok) : Prop := (∃ s, a = .str s) ∨ a = .p .lCurly ∨ (∃ w, a = .name w ∧ w ≠ "implements".toList)

theorem looseDef_headA (l : LooseDef) : ∃ a x', l.toks = a :: x' ∧ HeadA a := by
  have hd : ∀ (desc : Option Ast.Str) (w : String) (x : List Ast.Tok), w.toList ≠ "implements".toList →
      ∃ a' x', Ast.tDescription desc ++ Ast.Tok.name w.toList :: x = a' :: x' ∧ HeadA a' := by
    intro desc w x hw
    cases desc with
    | none => exact ⟨_, x, rfl, Or.inr (Or.inr ⟨_, rfl, hw⟩)⟩
    | some d => exact ⟨.str d, _, rfl, Or.inl ⟨d, rfl⟩⟩
  cases l with
  | scalar desc nm ds =>
    simp only [LooseDef.toks, scalarToks, unionToks, enumToks, inputToks, directiveToks, schemaToks, kwPart_true, kwE, List.append_assoc, List.cons_append, List.nil_append]
    exact hd _ "scalar" _ (by decide)
  | object desc nm impl ds fs =>
    simp only [LooseDef.toks, scalarToks, unionToks, enumToks, inputToks, directiveToks, schemaToks, kwPart_true, kwE, List.append_assoc, List.cons_append, List.nil_append]
    exact hd _ "type" _ (by decide)
  | interface desc nm impl ds fs =>
    simp only [LooseDef.toks, scalarToks, unionToks, enumToks, inputToks, directiveToks, schemaToks, kwPart_true, kwE, List.append_assoc, List.cons_append, List.nil_append]
    exact hd _ "interface" _ (by decide)
  | union desc nm ds ms =>
    simp only [LooseDef.toks, scalarToks, unionToks, enumToks, inputToks, directiveToks, schemaToks, kwPart_true, kwE, List.append_assoc, List.cons_append, List.nil_append]
    exact hd _ "union" _ (by decide)
  | enum desc nm ds vs =>
    simp only [LooseDef.toks, scalarToks, unionToks, enumToks, inputToks, directiveToks, schemaToks, kwPart_true, kwE, List.append_assoc, List.cons_append, List.nil_append]
    exact hd _ "enum" _ (by decide)
  | input desc nm ds fs =>
    simp only [LooseDef.toks, scalarToks, unionToks, enumToks, inputToks, directiveToks, schemaToks, kwPart_true, kwE, List.append_assoc, List.cons_append, List.nil_append]
    exact hd _ "input" _ (by decide)
  | directive desc nm args rep lead first rest =>
    simp only [LooseDef.toks, scalarToks, unionToks, enumToks, inputToks, directiveToks, schemaToks, kwPart_true, kwE, List.append_assoc, List.cons_append, List.nil_append]
    exact hd _ "directive" _ (by decide)
  | schema desc ds roots =>
    simp only [LooseDef.toks, scalarToks, unionToks, enumToks, inputToks, directiveToks, schemaToks, kwPart_true, kwE, List.append_assoc, List.cons_append, List.nil_append]
    exact hd _ "schema" _ (by decide)
  | scalarExt nm ds =>
    simp only [LooseDef.toks, scalarToks, unionToks, enumToks, inputToks, directiveToks, schemaToks, kwPart_true, kwE, List.append_assoc, List.cons_append, List.nil_append]
    exact ⟨_, _, rfl, Or.inr (Or.inr ⟨_, rfl, by decide⟩)⟩
  | objectExt nm impl ds fs =>
    simp only [LooseDef.toks, scalarToks, unionToks, enumToks, inputToks, directiveToks, schemaToks, kwPart_true, kwE, List.append_assoc, List.cons_append, List.nil_append]
    exact ⟨_, _, rfl, Or.inr (Or.inr ⟨_, rfl, by decide⟩)⟩
  | interfaceExt nm impl ds fs =>
    simp only [LooseDef.toks, scalarToks, unionToks, enumToks, inputToks, directiveToks, schemaToks, kwPart_true, kwE, List.append_assoc, List.cons_append, List.nil_append]
    exact ⟨_, _, rfl, Or.inr (Or.inr ⟨_, rfl, by decide⟩)⟩
  | unionExt nm ds ms =>
    simp only [LooseDef.toks, scalarToks, unionToks, enumToks, inputToks, directiveToks, schemaToks, kwPart_true, kwE, List.append_assoc, List.cons_append, List.nil_append]
    exact ⟨_, _, rfl, Or.inr (Or.inr ⟨_, rfl, by decide⟩)⟩
  | enumExt nm ds vs =>
    simp only [LooseDef.toks, scalarToks, unionToks, enumToks, inputToks, directiveToks, schemaToks, kwPart_true, kwE, List.append_assoc, List.cons_append, List.nil_append]
    exact ⟨_, _, rfl, Or.inr (Or.inr ⟨_, rfl, by decide⟩)⟩
  | inputExt nm ds fs =>
    simp only [LooseDef.toks, scalarToks, unionToks, enumToks, inputToks, directiveToks, schemaToks, kwPart_true, kwE, List.append_assoc, List.cons_append, List.nil_append]
    exact ⟨_, _, rfl, Or.inr (Or.inr ⟨_, rfl, by decide⟩)⟩
  | schemaExt ds roots =>
    simp only [LooseDef.toks, scalarToks, unionToks, enumToks, inputToks, directiveToks, schemaToks, kwPart_true, kwE, List.append_assoc, List.cons_append, List.nil_append]
    exact ⟨_, _, rfl, Or.inr (Or.inr ⟨_, rfl, by decide⟩)⟩

theorem item_headA (b : Nat) (i : DocItem) (h : itemFit b i) : ∃ a x', i.toks = a :: x' ∧ HeadA a := by
  cases i with
  | loose l => exact looseDef_headA l
  | exec oe d =>
    have hl := execFit_lexec b oe d h
    rcases hl with (⟨ty, nm, vs, ds, ss, e, _⟩ | ⟨ss, _, e, _⟩) | ⟨nm, tc, ds, ss, e, _⟩
    · refine ⟨.name ty.name.toList, _, by show Ast.tDefinition oe d = _; rw [e]; rfl, Or.inr (Or.inr ⟨_, rfl, ?_⟩)⟩
      cases ty <;> decide
    · exact ⟨.p .lCurly, _, by show Ast.tDefinition oe d = _; rw [e]; rfl, Or.inr (Or.inl rfl)⟩
    · exact ⟨.name "fragment".toList, _, by show Ast.tDefinition oe d = _; rw [e]; rfl, Or.inr (Or.inr ⟨_, rfl, by decide⟩)⟩

/-- the next token is the end of input, a String, `{` or a Name, and not the Name `implements` -/
def FollowGood (q : Tok) : Prop :=
  (q.kind = .eof ∨ q.kind = .stringValue ∨ q.kind = .lCurly ∨ q.kind = .name) ∧ NotImplTok q

theorem followGood_of {f : Option Ast.Tok} {q : Tok} (hq : FollowTokOf f q) (hf : f = none ∨ ∃ a, f = some a ∧ HeadA a) : FollowGood q := by
  rcases hf with rfl | ⟨a, rfl, ha⟩
  · have hk : q.kind = .eof := hq
    exact ⟨Or.inl hk, by rintro ⟨h1, _⟩; rw [hk] at h1; cases h1⟩
  · have hv : astOfV q = some a := hq
    have hk := kind_of_astOfV hv
    rcases ha with ⟨s, rfl⟩ | rfl | ⟨w, rfl, hw⟩
    · exact ⟨Or.inr (Or.inl hk), by rintro ⟨h1, _⟩; rw [hk] at h1; cases h1⟩
    · exact ⟨Or.inr (Or.inr (Or.inl hk)), by rintro ⟨h1, _⟩; rw [hk] at h1; cases h1⟩
    · exact ⟨Or.inr (Or.inr (Or.inr hk)), by rintro ⟨_, h2⟩; exact hw (by rw [← data_of_astOfV_name hv]; exact h2)⟩

theorem looseFollowY_of_good (l : LooseDef) (q : Tok) (hg : FollowGood q) (hx : openBody l → q.kind ≠ .lCurly) : Y.looseFollowY l q := by
  obtain ⟨hk, hni⟩ := hg
  have h1 : q.kind ≠ .at := by rcases hk with h | h | h | h <;> rw [h] <;> decide
  have h2 : q.kind ≠ .lParen := by rcases hk with h | h | h | h <;> rw [h] <;> decide
  have h3 : q.kind ≠ .amp := by rcases hk with h | h | h | h <;> rw [h] <;> decide
  have h4 : q.kind ≠ .eq := by rcases hk with h | h | h | h <;> rw [h] <;> decide
  have h5 : q.kind ≠ .pipe := by rcases hk with h | h | h | h <;> rw [h] <;> decide
  cases l with
  | scalar a b c => exact ⟨h1, h2⟩
  | scalarExt a b => exact ⟨h1, h2⟩
  | union a b c d => exact ⟨h1, h2, h4, h5⟩
  | unionExt a b c => exact ⟨h1, h2, h4, h5⟩
  | directive a b c d e f g => exact h5
  | schema a b c => trivial
  | object a b c d fs =>
    by_cases hfs : fs = []
    · exact Or.inr ⟨⟨h1, h2, hx hfs, trivial⟩, h3, hni⟩
    · exact Or.inl ⟨hfs, h3, hni⟩
  | interface a b c d fs =>
    by_cases hfs : fs = []
    · exact Or.inr ⟨⟨h1, h2, hx hfs, trivial⟩, h3, hni⟩
    · exact Or.inl ⟨hfs, h3, hni⟩
  | objectExt a b c fs =>
    by_cases hfs : fs = []
    · exact Or.inr ⟨⟨h1, h2, hx hfs, trivial⟩, h3, hni⟩
    · exact Or.inl ⟨hfs, h3, hni⟩
  | interfaceExt a b c fs =>
    by_cases hfs : fs = []
    · exact Or.inr ⟨⟨h1, h2, hx hfs, trivial⟩, h3, hni⟩
    · exact Or.inl ⟨hfs, h3, hni⟩
  | enum a b c vs =>
    by_cases hvs : vs = []
    · exact Or.inr ⟨h1, h2, hx hvs⟩
    · exact Or.inl hvs
  | enumExt a b vs =>
    by_cases hvs : vs = []
    · exact Or.inr ⟨h1, h2, hx hvs⟩
    · exact Or.inl hvs
  | input a b c fs =>
    by_cases hvs : fs = []
    · exact Or.inr ⟨h1, h2, hx hvs⟩
    · exact Or.inl hvs
  | inputExt a b fs =>
    by_cases hvs : fs = []
    · exact Or.inr ⟨h1, h2, hx hvs⟩
    · exact Or.inl hvs
  | schemaExt a roots =>
    by_cases hvs : roots = []
    · exact Or.inr ⟨h1, h2, hx hvs⟩
    · exact Or.inl hvs

/-- the head of the tokens of a list of fit items -/
theorem docToks_head (b : Nat) : ∀ r : List DocItem, (∀ i ∈ r, itemFit b i) →
    (docToks r).head? = none ∨ ∃ a, (docToks r).head? = some a ∧ HeadA a
  | [], _ => Or.inl rfl
  | j :: r', h => by
    obtain ⟨a, x', e, ha⟩ := item_headA b j (h j (by simp))
    refine Or.inr ⟨a, ?_, ha⟩
    have : docToks (j :: r') = j.toks ++ docToks r' := by simp [docToks]
    rw [this, e]; rfl

theorem docOkY_of_items (rl : Nat) : ∀ its : List DocItem, (∀ i ∈ its, itemFit rl i) → DocFollowX its → Y.DocOk rl (its.map DocItem.toks)
  | [], _, _ => trivial
  | i :: r, hfit, hfol => by
    refine ⟨?_, docOkY_of_items rl r (fun j hj => hfit j (by simp [hj])) hfol.2⟩
    intro q hq
    have hq' : FollowTokOf (docToks r).head? q := hq
    have hi := hfit i (by simp)
    cases i with
    | exec oe d => exact Or.inl (execFit_lexec rl oe d hi)
    | loose l =>
      have hg := followGood_of hq' (docToks_head rl r (fun j hj => hfit j (by simp [hj])))
      refine Or.inr ⟨l, rfl, hi, looseFollowY_of_good l q hg ?_⟩
      intro ho hk
      have hX : openBody l → (docToks r).head? ≠ some (.p .lCurly) := hfol.1
      apply hX ho
      cases hf : (docToks r).head? with
      | none => rw [hf] at hq'; have : q.kind = .eof := hq'; rw [this] at hk; cases hk
      | some a =>
        rw [hf] at hq'
        have hv : astOfV q = some a := hq'
        have hka := kind_of_astOfV hv
        rw [hk] at hka
        cases a with
        | p pp => cases pp <;> first | rfl | (simp [kindOfA] at hka)
        | name w => simp [kindOfA] at hka
        | int w => simp [kindOfA] at hka
        | float w => simp [kindOfA] at hka
        | str w => simp [kindOfA] at hka

/-- **document_accept_complete over `DocFollowX`**: every document `its` within the exact budget whose items satisfy the EXACT follow
    condition — in any spelling — parses with zero errors -/
theorem parseDocument_complete_itemsX (rl : Nat) (src : Str) (its : List DocItem) (ts : List Tok) (e : Tok)
    (hclean : LexClean src) (hsig : sig (srcToks src) = ts ++ [e]) (he : e.kind = .eof) (hx : TokIs ts (docToks its))
    (hne : its ≠ []) (hfit : ∀ i ∈ its, itemFit rl i) (hfol : DocFollowX its) :
    (parse .document none rl src).errors = [] :=
  Y.parseDocument_completeG_sig rl src _ ts e hclean hsig he hx
    ⟨its.map DocItem.toks, by simpa using hne, rfl, docOkY_of_items rl its hfit hfol⟩

/-- **the sandwich with the exact follow condition on BOTH sides**: `{itemFit, DocFollowX}` ⊆ accepted ⊆ `{itemFitX, DocFollowX}` — the only
    asymmetry left is the recorded finding (`itemFit` asks every root operation type to have its named type, `itemFitX` does not) -/
theorem document_sandwich_followX (rl : Nat) (src : Str) :
    ((parse .document none rl src).errors = [] →
      LexClean src ∧ ∃ (ts : List Tok) (its : List DocItem) (e : Tok), sig (srcToks src) = ts ++ [e] ∧ e.kind = .eof ∧
        TokIs ts (docToks its) ∧ its ≠ [] ∧ (∀ i ∈ its, itemFitX rl i) ∧ DocFollowX its) ∧
    ((LexClean src ∧ ∃ (ts : List Tok) (its : List DocItem) (e : Tok), sig (srcToks src) = ts ++ [e] ∧ e.kind = .eof ∧
        TokIs ts (docToks its) ∧ its ≠ [] ∧ (∀ i ∈ its, itemFit rl i) ∧ DocFollowX its) →
      (parse .document none rl src).errors = []) := by
  refine ⟨document_accept_sound_exact_unconditional rl src, ?_⟩
  rintro ⟨hclean, ts, its, e, h1, h2, h3, h4, h5, h6⟩
  exact parseDocument_complete_itemsX rl src its ts e hclean h1 h2 h3 h4 h5 h6

end Apollo.Parse.Exact
