import ApolloModel.Proofs.ParserExactS6
/-
EXACT SOUNDNESS, part 7 (namespace Apollo.Parse.Exact): the exact depth against the over-charging one of
ParserComplete4, and the value-level `iff`.
-/
set_option linter.unusedSimpArgs false
namespace Apollo.Parse.Exact
open Apollo.Rowan hiding Str
open Apollo.Lex hiding Str

mutual
/-- the exact depth never exceeds the over-charging one, and is at most one below it -/
theorem vdepth_le : ∀ v : Ast.Value, vdepth v ≤ Parse.vdepth v ∧ Parse.vdepth v ≤ vdepth v + 1
  | .list vs => by
    have := vsdepth_le vs
    simp only [vdepth, Parse.vdepth]; omega
  | .obj fs => by
    have := fdepth_le fs
    simp only [vdepth, Parse.vdepth]; omega
  | .var _ => by simp [vdepth, Parse.vdepth]
  | .int _ => by simp [vdepth, Parse.vdepth]
  | .float _ => by simp [vdepth, Parse.vdepth]
  | .str _ => by simp [vdepth, Parse.vdepth]
  | .bool _ => by simp [vdepth, Parse.vdepth]
  | .null => by simp [vdepth, Parse.vdepth]
  | .enum _ => by simp [vdepth, Parse.vdepth]
theorem vsdepth_le : ∀ vs : Ast.Values, vsdepth vs ≤ Parse.vsdepth vs + 1 ∧ Parse.vsdepth vs ≤ vsdepth vs
  | .nil => by simp [vsdepth, Parse.vsdepth]
  | .cons v tl => by
    have h1 := vdepth_le v
    have h2 := vsdepth_le tl
    simp only [vsdepth, Parse.vsdepth]; omega
theorem fdepth_le : ∀ fs : Ast.ObjFields, fdepth fs ≤ Parse.fdepth fs + 1 ∧ Parse.fdepth fs ≤ fdepth fs
  | .nil => by simp [fdepth, Parse.fdepth]
  | .cons _ v tl => by
    have h1 := vdepth_le v
    have h2 := fdepth_le tl
    simp only [fdepth, Parse.fdepth]; omega
end

/-- **`value`, both directions** from one run: the run ended error-free right in front of `q0` exactly when the tokens
    in front of `q0` are one well-formed value within the EXACT budget -/
theorem value_iff (n : Nat) (c p : Bool) (s s' : PState) (cs : List Tok) (q0 : Tok) (rest : List Tok) (w : TW s) (he : EofEnd s)
    (hnd0 : ¬ Doomed s) (ht : Toks s = cs ++ q0 :: rest) (hhead : HeadSig cs) (hq : Sigf q0) (hqe : q0.kind ≠ .eof)
    (h : (value n c p).run s = .ok () s') :
    (¬ Doomed s' ∧ Toks s' = q0 :: rest) ↔
      ∃ v, TokIs (sig cs) (Ast.tValue v) ∧ valueOk c v = true ∧ vdepth v ≤ s.recLimit - s.recCur := by
  constructor
  · rintro ⟨hnd, ht'⟩
    obtain ⟨⟨cs', a, _, d⟩, _⟩ := value_sound n c p s s' w he h hnd
    have hcs : cs' = cs := by
      rw [ht, ht'] at a
      exact (List.append_cancel_right a).symm
    subst hcs
    rcases d with ⟨v, h1, h2, h3⟩ | ⟨e, hh, hk⟩
    · exact ⟨v, h1, h2, by simpa [bud] using h3⟩
    · rw [ht'] at hh
      simp only [List.head?_cons, Option.some.injEq] at hh
      subst hh
      exact absurd hk hqe
  · rintro ⟨v, h1, h2, h3⟩
    obtain ⟨e, t, _⟩ := value_complete n c p s s' () cs _ q0 rest w h ⟨v, rfl, h2, h3⟩ ⟨h1, hhead⟩ ht hq trivial trivial
    exact ⟨fun d => hnd0 (e.doom.mp d), t⟩

end Apollo.Parse.Exact
