import ApolloModel.Proofs.SchemaBuildSpec
/-
C14 growth 3, second part: what one step of the builder does to a state that matches the reading
functions (`Views`), and how its new errors relate to the specification (`Grow`).
-/
namespace Apollo.SchemaBuild

/-- the built component list `cs` contains exactly the names `M` -/
def Views (cs : List Comp) (M : List Name) : Prop := ∀ m, hasName cs m = true ↔ m ∈ M

/-- errors only grow, and nothing is added iff `P` -/
def Grow (errs errs' : List Err) (P : Prop) : Prop := ∃ new, errs' = errs ++ new ∧ (new = [] ↔ P)

/-- the names `X` are new with respect to `M` and pairwise different -/
def Fresh (M X : List Name) : Prop := (∀ x ∈ X, x ∉ M) ∧ X.Nodup

theorem Grow.refl (e : List Err) : Grow e e True := ⟨[], by simp, by simp⟩

theorem Grow.push (e : List Err) (x : Err) : Grow e (e ++ [x]) False := ⟨[x], rfl, by simp⟩

theorem Grow.trans {a b c : List Err} {P Q : Prop} (h1 : Grow a b P) (h2 : Grow b c Q) : Grow a c (P ∧ Q) := by
  obtain ⟨n1, e1, i1⟩ := h1
  obtain ⟨n2, e2, i2⟩ := h2
  refine ⟨n1 ++ n2, by rw [e2, e1, List.append_assoc], ?_⟩
  rw [List.append_eq_nil_iff, i1, i2]

theorem Grow.congr {a b : List Err} {P Q : Prop} (h : Grow a b P) (hpq : P ↔ Q) : Grow a b Q := by
  obtain ⟨n, e, i⟩ := h
  exact ⟨n, e, i.trans hpq⟩

theorem Grow.nil_iff {a b : List Err} {P : Prop} (h : Grow a b P) : b = [] ↔ a = [] ∧ P := by
  obtain ⟨n, e, i⟩ := h
  rw [e, List.append_eq_nil_iff, i]

theorem Grow.same_iff {a b : List Err} {P : Prop} (h : Grow a b P) : b = a ↔ P := by
  obtain ⟨n, e, i⟩ := h
  rw [e, ← i]
  exact List.append_right_eq_self

theorem nodup_append_fresh (M X : List Name) : (M ++ X).Nodup ↔ M.Nodup ∧ Fresh M X := by
  rw [List.nodup_append]
  unfold Fresh
  constructor
  · intro ⟨h1, h2, h3⟩
    exact ⟨h1, fun x hx hm => h3 x hm x hx rfl, h2⟩
  · intro ⟨h1, h2, h3⟩
    exact ⟨h1, h3, fun a ha b hb hab => h2 b hb (hab ▸ ha)⟩

theorem views_nil : Views [] [] := by intro m; simp [hasName]

theorem extendSticky_views (dup : Name → Diag) (origin : Option Pos) : ∀ (items : List Item) (cs : List Comp) (errs : List Err)
    (M : List Name), Views cs M → Views (extendSticky dup origin cs errs items).1 (M ++ names items) := by
  intro items
  induction items with
  | nil => intro cs errs M h; simpa [extendSticky, names] using h
  | cons it rest ih =>
    intro cs errs M h
    unfold extendSticky
    by_cases hc : hasName cs it.name = true
    · simp only [hc, if_true]
      have := ih cs (errs ++ [⟨it.errPos, dup it.name⟩]) M h
      intro m
      rw [this m]
      simp only [names, List.map_cons, List.mem_append, List.mem_cons]
      constructor
      · rintro (h1 | h1)
        · exact Or.inl h1
        · exact Or.inr (Or.inr h1)
      · rintro (h1 | h1 | h1)
        · exact Or.inl h1
        · left; rw [h1]; exact (h it.name).mp hc
        · exact Or.inr h1
    · have hf : hasName cs it.name = false := by simpa using hc
      simp only [hf, Bool.false_eq_true, if_false]
      have hv : Views (cs ++ [it.toComp origin]) (M ++ [it.name]) := by
        intro m
        rw [hasName_append_single, Bool.or_eq_true, h m]
        simp only [Item.toComp, beq_iff_eq, List.mem_append, List.mem_singleton]
        constructor
        · rintro (h1 | h1)
          · exact Or.inl h1
          · exact Or.inr h1.symm
        · rintro (h1 | h1)
          · exact Or.inl h1
          · exact Or.inr h1.symm
      have := ih (cs ++ [it.toComp origin]) errs (M ++ [it.name]) hv
      intro m
      rw [this m]
      simp [names]

theorem extendSticky_grow (dup : Name → Diag) (origin : Option Pos) (items : List Item) (cs : List Comp) (errs : List Err)
    (M : List Name) (h : Views cs M) : Grow errs (extendSticky dup origin cs errs items).2 (Fresh M (names items)) := by
  obtain ⟨new, hnew, hiff⟩ := extendSticky_errs dup origin items cs errs
  refine ⟨new, hnew, hiff.trans ?_⟩
  unfold Fresh names
  constructor
  · intro ⟨h1, h2⟩
    refine ⟨?_, h2⟩
    intro x hx hm
    obtain ⟨it, hit, rfl⟩ := List.mem_map.mp hx
    have := h1 it hit
    rw [(h it.name).mpr hm] at this
    cases this
  · intro ⟨h1, h2⟩
    refine ⟨?_, h2⟩
    intro it hit
    cases hc : hasName cs it.name with
    | false => rfl
    | true => exact absurd ((h it.name).mp hc) (h1 it.name (List.mem_map.mpr ⟨it, hit, rfl⟩))

theorem extendBody_eq (dupI dupM : Name → Diag) (origin : Option Pos) (b : Body) (d : Def) (errs : List Err) :
    extendBody dupI dupM origin b d errs =
      (⟨b.directives ++ d.directives.map (Item.toComp origin),
        (extendSticky dupI origin b.interfaces errs d.interfaces).1,
        (extendSticky dupM origin b.members (extendSticky dupI origin b.interfaces errs d.interfaces).2 d.members).1⟩,
       (extendSticky dupM origin b.members (extendSticky dupI origin b.interfaces errs d.interfaces).2 d.members).2) := rfl

theorem extendBody_spec (dupI dupM : Name → Diag) (origin : Option Pos) (b : Body) (d : Def) (errs : List Err)
    (M I : List Name) (hM : Views b.members M) (hI : Views b.interfaces I) :
    Views (extendBody dupI dupM origin b d errs).1.members (M ++ names d.members) ∧
    Views (extendBody dupI dupM origin b d errs).1.interfaces (I ++ names d.interfaces) ∧
    Grow errs (extendBody dupI dupM origin b d errs).2 (Fresh M (names d.members) ∧ Fresh I (names d.interfaces)) := by
  rw [extendBody_eq]
  refine ⟨extendSticky_views _ _ _ _ _ _ hM, extendSticky_views _ _ _ _ _ _ hI, ?_⟩
  have g1 := extendSticky_grow dupI origin d.interfaces b.interfaces errs I hI
  have g2 := extendSticky_grow dupM origin d.members b.members (extendSticky dupI origin b.interfaces errs d.interfaces).2 M hM
  exact (g1.trans g2).congr (by constructor <;> (intro ⟨x, y⟩; exact ⟨y, x⟩))


/-! ### type definitions and extensions -/

theorem extendType_spec (t : TypeEntry) (e : Def) (errs : List Err) (M I : List Name)
    (hM : Views t.body.members M) (hI : Views t.body.interfaces I) :
    (extendType t e errs).1.name = t.name ∧ (extendType t e errs).1.kind = t.kind ∧
    Views (extendType t e errs).1.body.members (M ++ names e.members) ∧
    Views (extendType t e errs).1.body.interfaces (I ++ names e.interfaces) ∧
    Grow errs (extendType t e errs).2 (Fresh M (names e.members) ∧ Fresh I (names e.interfaces)) := by
  obtain ⟨h1, h2, h3⟩ := extendBody_spec (dupIface t.kind e.name) (dupMember t.kind e.name) (some e.pos) t.body e errs M I hM hI
  exact ⟨rfl, rfl, h1, h2, h3⟩

theorem typeOfDef_spec (k : Kind) (d : Def) (errs : List Err) :
    (typeOfDef k d errs).1.name = d.name ∧ (typeOfDef k d errs).1.kind = k ∧
    Views (typeOfDef k d errs).1.body.members (names d.members) ∧
    Views (typeOfDef k d errs).1.body.interfaces (names d.interfaces) ∧
    Grow errs (typeOfDef k d errs).2 (Fresh [] (names d.members) ∧ Fresh [] (names d.interfaces)) := by
  obtain ⟨h1, h2, h3⟩ := extendBody_spec (dupIface k d.name) (dupMember k d.name) none Body.empty d errs [] [] views_nil views_nil
  exact ⟨rfl, rfl, h1, h2, h3⟩

/-- each element's names are new with respect to everything before it -/
def ChainFresh (f : Def → List Name) : List Name → List Def → Prop
  | _, [] => True
  | M, e :: r => Fresh M (f e) ∧ ChainFresh f (M ++ f e) r

theorem chain_nodup (f : Def → List Name) : ∀ (exts : List Def) (M : List Name),
    (M.Nodup ∧ ChainFresh f M exts) ↔ (M ++ exts.flatMap f).Nodup := by
  intro exts
  induction exts with
  | nil => intro M; simp [ChainFresh]
  | cons e r ih =>
    intro M
    simp only [ChainFresh, List.flatMap_cons]
    rw [← List.append_assoc, ← ih (M ++ f e), nodup_append_fresh, and_assoc]

def mems (d : Def) : List Name := names d.members
def ifs (d : Def) : List Name := names d.interfaces

theorem adoptFold_spec (k : Kind) : ∀ (exts : List Def) (acc : TypeEntry × List Err) (M I : List Name),
    Views acc.1.body.members M → Views acc.1.body.interfaces I →
    (exts.foldl (adoptStep k) acc).1.name = acc.1.name ∧ (exts.foldl (adoptStep k) acc).1.kind = acc.1.kind ∧
    ((∀ e ∈ exts, e.tag = .typeExt k) →
      Views (exts.foldl (adoptStep k) acc).1.body.members (M ++ exts.flatMap mems) ∧
      Views (exts.foldl (adoptStep k) acc).1.body.interfaces (I ++ exts.flatMap ifs)) ∧
    Grow acc.2 (exts.foldl (adoptStep k) acc).2
      ((∀ e ∈ exts, e.tag = .typeExt k) ∧ ChainFresh mems M exts ∧ ChainFresh ifs I exts) := by
  intro exts
  induction exts with
  | nil =>
    intro acc M I hM hI
    refine ⟨rfl, rfl, fun _ => ⟨by simpa using hM, by simpa using hI⟩, (Grow.refl _).congr ?_⟩
    simp [ChainFresh]
  | cons e r ih =>
    intro acc M I hM hI
    rw [List.foldl_cons]
    by_cases he : e.tag = .typeExt k
    · have hstep : adoptStep k acc e = extendType acc.1 e acc.2 := by unfold adoptStep; rw [if_pos he]
      obtain ⟨n1, k1, v1, v2, g1⟩ := extendType_spec acc.1 e acc.2 M I hM hI
      rw [hstep]
      obtain ⟨n2, k2, v3, g2⟩ := ih (extendType acc.1 e acc.2) (M ++ mems e) (I ++ ifs e) v1 v2
      refine ⟨n2.trans n1, k2.trans k1, ?_, (g1.trans g2).congr ?_⟩
      · intro hall
        have := v3 (fun x hx => hall x (List.mem_cons_of_mem _ hx))
        simpa [List.flatMap_cons, List.append_assoc] using this
      · simp only [ChainFresh, List.mem_cons, forall_eq_or_imp, mems, ifs]
        constructor
        · intro ⟨⟨a, b⟩, c, d1, d2⟩; exact ⟨⟨he, c⟩, ⟨a, d1⟩, ⟨b, d2⟩⟩
        · intro ⟨⟨_, c⟩, ⟨a, d1⟩, ⟨b, d2⟩⟩; exact ⟨⟨a, b⟩, c, d1, d2⟩
    · have hstep : adoptStep k acc e = (acc.1, acc.2 ++ [⟨e.namePos, .typeExtensionKindMismatch e.name (kindOfExt e) k⟩]) := by
        unfold adoptStep; rw [if_neg he]
      rw [hstep]
      obtain ⟨n2, k2, _, g2⟩ := ih (acc.1, acc.2 ++ [⟨e.namePos, .typeExtensionKindMismatch e.name (kindOfExt e) k⟩]) M I hM hI
      refine ⟨n2, k2, ?_, ((Grow.push acc.2 _).trans g2).congr ?_⟩
      · intro hall; exact absurd (hall e List.mem_cons_self) he
      · constructor
        · intro ⟨hf, _⟩; exact absurd hf id
        · intro ⟨hall, _⟩; exact absurd (hall e List.mem_cons_self) he

theorem views_comm {cs : List Comp} {A B : List Name} (h : Views cs (A ++ B)) : Views cs (B ++ A) := by
  intro m; rw [h m]; simp [or_comm]

theorem fresh_nil (X : List Name) : Fresh [] X ↔ X.Nodup := by simp [Fresh]

/-- `XType::from_ast(errors, definition, queued extensions)` -/
theorem typeFromAst_spec (k : Kind) (d : Def) (exts : List Def) (errs : List Err) :
    (typeFromAst k d exts errs).1.name = d.name ∧ (typeFromAst k d exts errs).1.kind = k ∧
    ((∀ e ∈ exts, e.tag = .typeExt k) →
      Views (typeFromAst k d exts errs).1.body.members (exts.flatMap mems ++ names d.members) ∧
      Views (typeFromAst k d exts errs).1.body.interfaces (exts.flatMap ifs ++ names d.interfaces)) ∧
    Grow errs (typeFromAst k d exts errs).2
      ((∀ e ∈ exts, e.tag = .typeExt k) ∧ (exts.flatMap mems ++ names d.members).Nodup ∧
        (exts.flatMap ifs ++ names d.interfaces).Nodup) := by
  unfold typeFromAst
  obtain ⟨n1, k1, v1, v2, g1⟩ := typeOfDef_spec k d errs
  obtain ⟨n2, k2, v3, g2⟩ := adoptFold_spec k exts (typeOfDef k d errs) (names d.members) (names d.interfaces) v1 v2
  refine ⟨n2.trans n1, k2.trans k1, fun hall => ⟨views_comm (v3 hall).1, views_comm (v3 hall).2⟩, (g1.trans g2).congr ?_⟩
  rw [fresh_nil, fresh_nil, List.perm_append_comm.nodup_iff, ← chain_nodup mems,
    (List.perm_append_comm (l₁ := exts.flatMap ifs)).nodup_iff, ← chain_nodup ifs]
  constructor
  · intro ⟨⟨a, b⟩, c, d1, d2⟩; exact ⟨c, ⟨a, d1⟩, ⟨b, d2⟩⟩
  · intro ⟨c, ⟨a, d1⟩, ⟨b, d2⟩⟩; exact ⟨⟨a, b⟩, c, d1, d2⟩

end Apollo.SchemaBuild
