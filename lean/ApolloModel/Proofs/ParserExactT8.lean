import ApolloModel.Proofs.ParserExactT7
import ApolloModel.Proofs.ParserExactS14
/-
Exact soundness for the type-system family, part 8: `scalar`, `enum`, `input` definitions in the `DefSound` shape of
ParserExactS14 (the fields `DefExact.scalar`, `.enumDef`, `.input`).
-/
set_option linter.unusedSimpArgs false
namespace Apollo.Parse.Exact
open Apollo.Rowan hiding Str
open Apollo.Lex hiding Str

/-- **scalar type definition**, exact: entered by the dispatcher, an error-free run consumed `(.scalar desc nm ds).toks`
    with the directives within the budget of the start state -/
theorem scalarDef_sound (n : Nat) : DefSound (DStart "scalar".toList) (scalarTypeDefinition n) := by
  intro s s' w he hq hr hnd
  rw [scalarTypeDefinition_eq] at hr
  have c := defNode_sound "SCALAR_TYPE_DEFINITION" "scalar" "scalar_KW" kwWord_scalar n (optDirsEnd n)
    (fun b _ x => ∃ ds, x = Ast.tDirectives ds ∧ dirsFit true b ds) (good_optDirsEnd n)
    (fun q q' wq heq hrq hndq => optDirsEnd_sound n q q' wq heq hrq hndq) s s' w he hq.1 hq.2 hr hnd
  obtain ⟨cs, x, a, b, e, d, desc, nm, x2, rfl, ds, rfl, hds⟩ := c
  exact ⟨cs, .loose (.scalar desc nm ds), a, b, e, by simpa [DocItem.toks, LooseDef.toks, scalarToks, kwPart] using d, hds,
    fun q _ ho => ho.elim⟩

theorem good_dirsBody (n : Nat) (body : PI Unit) (gb : Good body) : Good (dirsBody n .lCurly body) := by
  unfold dirsBody optKind optBodyK
  have g2 : Good (peek >>= fun k => if k == some Kind.lCurly then body else pure ()) := good_bind _ _ good_peek (fun _ => good_ite _ _ _ gb (good_pure _))
  exact good_bind _ _ good_peek (fun _ => good_ite _ _ _ (good_bind _ _ (good_directives n true) (fun _ => g2)) g2)

/-- **enum type definition**, exact -/
theorem enumDef_sound (n : Nat) : DefSound (DStart "enum".toList) (enumTypeDefinition n) := by
  refine defSound_of_loose _ _ ?_
  intro s s' w he hq hs hr hnd
  rw [enumTypeDefinition_eq'] at hr
  have gb : Good (enumValuesDefinition n) := (acc_enumValuesDefinition n).1
  have hset := defNode_settled "ENUM_TYPE_DEFINITION" "enum" "enum_KW" n _ (good_dirsBody n _ gb)
    (sp_dirsBody n .lCurly _ gb (se_enumValuesDefinition n).sp) s s' w hr hnd
  have c := defNode_sound "ENUM_TYPE_DEFINITION" "enum" "enum_KW" kwWord_enum n (dirsBody n .lCurly (enumValuesDefinition n))
    (fun b cur x => ∃ ds x2, x = Ast.tDirectives ds ++ x2 ∧ dirsFit true b ds ∧
      (LEnumVals b x2 ∨ (x2 = [] ∧ ∀ t, cur = some t → t.kind ≠ .lCurly))) (good_dirsBody n _ gb)
    (fun q q' wq heq hrq hndq => dirsBody_sound n _ LEnumVals gb
      (fun q1 q2 t rest w1 he1 ht hk h1 hnd1 => enumValuesDefinition_sound n q1 q2 t rest w1 he1 ht hk h1 hnd1) q q' wq heq hrq hndq)
    s s' w he hq hs hr hnd
  obtain ⟨cs, x, a, b, e, d, desc, nm, x2, rfl, ds, x3, rfl, hds, hor⟩ := c
  rcases hor with ⟨vs, hne, rfl, hvs⟩ | ⟨rfl, hcur⟩
  · refine ⟨cs, .enum desc nm ds vs, a, b, e, ?_, ⟨hds, hvs⟩, hset, ?_⟩
    · simpa [LooseDef.toks, enumToks, kwPart, Ast.tEnumBody, List.append_assoc] using d
    · intro ho; exact absurd ho hne
  · refine ⟨cs, .enum desc nm ds [], a, b, e, ?_, ⟨hds, by intro v hv; cases hv⟩, hset, fun _ => hcur⟩
    simpa [LooseDef.toks, enumToks, kwPart, Ast.tEnumBody, Ast.tBraced, List.append_assoc] using d

/-- **input object type definition**, exact -/
theorem inputDef_sound (n : Nat) : DefSound (DStart "input".toList) (inputObjectTypeDefinition n) := by
  refine defSound_of_loose _ _ ?_
  intro s s' w he hq hs hr hnd
  rw [inputObjectTypeDefinition_eq'] at hr
  have gb : Good (inputFieldsDefinition n) := (acc_inputFieldsDefinition n).1
  have hset := defNode_settled "INPUT_OBJECT_TYPE_DEFINITION" "input" "input_KW" n _ (good_dirsBody n _ gb)
    (sp_dirsBody n .lCurly _ gb (se_inputFieldsDefinition n).sp) s s' w hr hnd
  have c := defNode_sound "INPUT_OBJECT_TYPE_DEFINITION" "input" "input_KW" kwWord_input n (dirsBody n .lCurly (inputFieldsDefinition n))
    (fun b cur x => ∃ ds x2, x = Ast.tDirectives ds ++ x2 ∧ dirsFit true b ds ∧
      (LInputFields b x2 ∨ (x2 = [] ∧ ∀ t, cur = some t → t.kind ≠ .lCurly))) (good_dirsBody n _ gb)
    (fun q q' wq heq hrq hndq => dirsBody_sound n _ LInputFields gb
      (fun q1 q2 t rest w1 he1 ht hk h1 hnd1 => inputFieldsDefinition_sound n q1 q2 t rest w1 he1 ht hk h1 hnd1) q q' wq heq hrq hndq)
    s s' w he hq hs hr hnd
  obtain ⟨cs, x, a, b, e, d, desc, nm, x2, rfl, ds, x3, rfl, hds, hor⟩ := c
  rcases hor with ⟨vs, hne, rfl, hvs⟩ | ⟨rfl, hcur⟩
  · refine ⟨cs, .input desc nm ds vs, a, b, e, ?_, ⟨hds, hvs⟩, hset, ?_⟩
    · simpa [LooseDef.toks, inputToks, kwPart, Ast.tInputBody, List.append_assoc] using d
    · intro ho; exact absurd ho hne
  · refine ⟨cs, .input desc nm ds [], a, b, e, ?_, ⟨hds, by intro v hv; cases hv⟩, hset, fun _ => hcur⟩
    simpa [LooseDef.toks, inputToks, kwPart, Ast.tInputBody, Ast.tBraced, List.append_assoc] using d

end Apollo.Parse.Exact
