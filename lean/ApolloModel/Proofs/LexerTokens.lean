import ApolloModel.Proofs.LexerStrings
/-
Every token `advance` emits is a token of the lexical grammar (Spec/Lexical.lean), of the right kind,
followed by what the grammar's lookahead restriction allows.
-/
set_option linter.unusedSimpArgs false
namespace Apollo.Lex
open Apollo.Spec.Lexical (IsIntValue IsFloatValue NumberLookaheadOk IsQuotedString IsComment
  CommentLookaheadOk IsName NameLookaheadOk)

theorem specNameContinue_eq (c : Char) : Spec.Lexical.isNameContinue c = isNameContinue c := by
  rw [Bool.eq_iff_iff]
  simp only [Spec.Lexical.isNameContinue, Spec.Lexical.isLetter, Spec.Lexical.isDigit, isNameContinue,
    Bool.or_eq_true, Bool.and_eq_true, decide_eq_true_eq, char_le_iff, char_beq, Char.reduceToNat, beq_iff_eq]
  omega

/-- what it means for a token of kind `k` with text `t`, followed by `rest`, to be a token of the
    October-2021 lexical grammar (quoted strings in the lexer's exact language `IsLexQuoted`: any
    character is a SourceCharacter, no surrogate escapes; block strings only by their opening; the
    lexer merges a run of whitespace / line terminators / BOM into one token) -/
def TokenOk (k : Kind) (t rest : Str) : Prop :=
  match k with
  | .name => IsName t ∧ NameLookaheadOk rest
  | .int => IsIntValue t ∧ NumberLookaheadOk rest
  | .float => IsFloatValue t ∧ NumberLookaheadOk rest
  | .stringValue => IsLexQuoted t ∨ ∃ tail, t = q3 ++ tail
  | .comment => IsComment anyChar t ∧ CommentLookaheadOk rest
  | .whitespace => t ≠ [] ∧ (∀ c ∈ t, isWhitespaceAssimilated c = true) ∧
      (∀ c r, rest = c :: r → isWhitespaceAssimilated c = false)
  | .spread => t = ['.', '.', '.']
  | .eof => False
  | k => ∃ c, t = [c] ∧ punctuationKind c = some k

/-- a number start: digit or minus sign -/
theorem lex_number_start_sound (c : Char) (src : Str) (hc : D c ∨ c.toNat = 45) (k : Kind) (t rest : Str)
    (h : advance (c :: src) = (.tok k t, rest)) : Final k t ∧ NumberLookaheadOk rest := by
  unfold advance runD at h
  rcases hc with hD | hm
  · by_cases h0 : c.toNat = 48
    · rw [(step_start_number c).1 h0] at h
      have : c = '0' := (char_eq_iff c '0').mpr h0
      subst this
      exact num_sound src _ _ _ (NumInv.zero (neg := []) (Or.inl rfl)) k t rest h
    · have hnz : 49 ≤ c.toNat ∧ c.toNat ≤ 57 := by unfold D at hD; omega
      rw [(step_start_number c).2.1 hnz] at h
      exact num_sound src _ _ _ (NumInv.intPart (neg := []) (ds := []) (Or.inl rfl)
        ((specNonZero_iff c).mpr hnz) (by simp [AllD])) k t rest h
  · rw [(step_start_number c).2.2 hm] at h
    have : c = '-' := (char_eq_iff c '-').mpr hm
    subst this
    exact num_sound src _ _ _ NumInv.minus k t rest h

theorem tokenOk_of_final {k : Kind} {t rest : Str} (h : Final k t) (hl : NumberLookaheadOk rest) : TokenOk k t rest := by
  rcases h with ⟨rfl, h⟩ | ⟨rfl, h⟩
  · exact ⟨h, hl⟩
  · exact ⟨h, hl⟩

theorem tokenOk_punct (c : Char) (k : Kind) (rest : Str) (h : punctuationKind c = some k) : TokenOk k [c] rest := by
  have h' := h
  revert h
  unfold punctuationKind
  split <;> simp <;> (intro hk; subst hk; exact ⟨c, rfl, h'⟩)

theorem take2_dots (src : Str) (h : src.take 2 = ['.', '.']) : ∃ r, src = '.' :: '.' :: r := by
  cases src with
  | nil => simp at h
  | cons a l =>
    cases l with
    | nil => simp at h
    | cons b r => simp at h; exact ⟨r, by rw [h.1, h.2]⟩

/-- SOUNDNESS of one `advance`: whatever token comes out is a token of the lexical grammar of that
    kind, and what follows respects the grammar's lookahead restriction. -/
theorem advance_token_sound (c : Char) (src : Str) (k : Kind) (t rest : Str)
    (h : advance (c :: src) = (.tok k t, rest)) : TokenOk k t rest := by
  cases hp : punctuationKind c with
  | some k0 =>
    rw [lex_punctuator c k0 src hp] at h
    simp only [Prod.mk.injEq, Item.tok.injEq] at h
    obtain ⟨⟨rfl, rfl⟩, rfl⟩ := h
    exact tokenOk_punct c _ _ hp
  | none =>
    by_cases h1 : isNameStart c = true
    · rw [lex_name c src h1] at h
      simp only [Prod.mk.injEq, Item.tok.injEq] at h
      obtain ⟨⟨rfl, rfl⟩, rfl⟩ := h
      refine ⟨⟨c, _, rfl, by rw [← (classes_agree c).2]; exact h1, ?_⟩, ?_⟩
      · rw [List.all_eq_true]
        intro x hx
        rw [specNameContinue_eq]; exact takeWhile_all _ _ x hx
      · cases hd : src.dropWhile isNameContinue with
        | nil => trivial
        | cons x r =>
          show Spec.Lexical.isNameContinue x = false
          rw [specNameContinue_eq]; exact dropWhile_head _ _ x r hd
    · by_cases h2 : isAsciiDigit c = true
      · have := lex_number_start_sound c src (Or.inl ((lexDigit_iff c).mp h2)) k t rest h
        exact tokenOk_of_final this.1 this.2
      · by_cases h3 : c = '-'
        · subst h3
          have := lex_number_start_sound '-' src (Or.inr rfl) k t rest h
          exact tokenOk_of_final this.1 this.2
        · by_cases h4 : c = '"'
          · subst h4
            have h0 : step .start .eof false [] '"' = .goto .stringLiteralStart .stringValue false := by
              simp [step, punctuationKind, isNameStart, isAsciiDigit]
            unfold advance runD at h
            rw [h0] at h
            have := str_sound src _ _ StrInv.start1 k t rest h
            obtain ⟨rfl, hq⟩ := this
            exact hq
          · by_cases h5 : c = '#'
            · subst h5
              rw [lex_comment src] at h
              simp only [Prod.mk.injEq, Item.tok.injEq] at h
              obtain ⟨⟨rfl, rfl⟩, rfl⟩ := h
              refine ⟨⟨_, rfl, fun x hx => ⟨?_, rfl⟩⟩, ?_⟩
              · have := takeWhile_all _ _ x hx
                rw [specLT_eq]; simpa using this
              · cases hd : src.dropWhile (fun c => !isLineTerminator c) with
                | nil => trivial
                | cons x r =>
                  show Spec.Lexical.isLineTerminator x = true
                  have := dropWhile_head _ _ x r hd
                  rw [specLT_eq]; simpa using this
            · by_cases h6 : c = '.'
              · subst h6
                by_cases h7 : src.take 2 = ['.', '.']
                · obtain ⟨r, rfl⟩ := take2_dots src h7
                  rw [lex_spread r] at h
                  simp only [Prod.mk.injEq, Item.tok.injEq] at h
                  obtain ⟨⟨rfl, rfl⟩, rfl⟩ := h
                  rfl
                · have := lex_dot_error src h7
                  rw [h] at this; simp [Item.isErr] at this
              · by_cases h8 : isWhitespaceAssimilated c = true
                · rw [lex_whitespace c src h8] at h
                  simp only [Prod.mk.injEq, Item.tok.injEq] at h
                  obtain ⟨⟨rfl, rfl⟩, rfl⟩ := h
                  refine ⟨by simp, ?_, ?_⟩
                  · intro x hx
                    rcases List.mem_cons.mp hx with rfl | hx
                    · exact h8
                    · exact takeWhile_all _ _ x hx
                  · intro x r hd; exact dropWhile_head _ _ x r hd
                · -- an unexpected character: error item
                  exfalso
                  have hs : step .start .eof false [] c = .incl .err := by
                    have hd : (c != '0' && isAsciiDigit c) = false := by simp [h2]
                    have h0 : (c == '0') = false := by
                      cases hc0 : (c == '0') with
                      | false => rfl
                      | true =>
                        have : c = '0' := by simpa using hc0
                        subst this; simp [isAsciiDigit] at h2
                    simp [step, hp, h1, hd, h3, h4, h5, h6, h0, h8]
                  unfold advance runD at h
                  rw [hs] at h
                  simp [Out.mk] at h

/-! ### whole input -/

/-- `items` is a tokenisation of `src` by the lexical grammar: each item is a token `TokenOk`
    accepts, in order, their texts concatenate to `src`, and the stream ends with EOF -/
inductive SpecTokens : Str → List Item → Prop where
  | eof : SpecTokens [] [.tok .eof []]
  | cons {k : Kind} {t rest : Str} {items : List Item} : t ≠ [] → TokenOk k t rest → SpecTokens rest items →
      SpecTokens (t ++ rest) (.tok k t :: items)

theorem lexAux_sound : ∀ (fuel count : Nat) (src : Str), src.length < fuel →
    (∀ it ∈ lexAux fuel none count src, it.isErr = false) → SpecTokens src (lexAux fuel none count src)
  | 0, _, _, h, _ => by omega
  | fuel + 1, count, [], _, _ => by simp [lexAux]; exact SpecTokens.eof
  | fuel + 1, count, c :: rest, h, hok => by
    have hp := advance_progress c rest
    have hc := advance_concat (c :: rest)
    simp only [lexAux, Bool.false_eq_true, if_false] at hok ⊢
    have h1 := hok (advance (c :: rest)).1 (by simp)
    cases hadv : advance (c :: rest) with
    | mk item rest' =>
      rw [hadv] at h1 hp hc hok
      simp only at h1 hp hc hok
      cases item with
      | err d => simp [Item.isErr] at h1
      | limit => simp [Item.isErr] at h1
      | tok k t =>
        have hok' := advance_token_sound c rest k t rest' hadv
        have ih := lexAux_sound fuel (count + 1) rest' (by simp only [List.length_cons] at h hp; omega)
          (fun it hit => hok it (by simp [hit]))
        simp only [Item.data] at hc hp
        rw [← hc]
        exact SpecTokens.cons hp.1 hok' ih

/-- WHOLE INPUT, soundness: if lexing reports no error, the items are a tokenisation of the input by
    the lexical grammar — every token is a grammar token of its kind, followed by what the lookahead
    restrictions allow, and the texts concatenate to the input. -/
theorem lex_ok_tokens_sound (src : Str) (h : ∀ it ∈ lex none src, it.isErr = false) :
    SpecTokens src (lex none src) :=
  lexAux_sound (src.length + 1) 0 src (by omega) h

end Apollo.Lex
