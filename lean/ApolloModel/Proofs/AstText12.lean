import ApolloModel.Proofs.AstText11
/-
Text level: all token kinds put together for a whole document — no `NumbersLex` / `StringsLex` hypothesis left.
-/
namespace Apollo.Ast
open Apollo.Strs (isWs)
open Apollo.Spec.Lexical (IsIntValue IsFloatValue)

/-- the indentation prefix in use, and the saved ones, are white space (space / tab) -/
def PrefixWs (st : St) : Prop :=
  (∀ p, st.pre = some p → p.all isWs = true) ∧ (∀ p, some p ∈ st.saved → p.all isWs = true)

theorem prefixWs_of_eq {st st' : St} (h : PrefixWs st) (h1 : st'.pre = st.pre) (h2 : st'.saved = st.saved) :
    PrefixWs st' := by
  unfold PrefixWs at *
  rw [h1, h2]; exact h

theorem prefixWs_step (st : St) (c : Cmd) (h : PrefixWs st) : PrefixWs (stepCmd st c) := by
  cases c with
  | tok t => exact prefixWs_of_eq h rfl rfl
  | str d s => exact prefixWs_of_eq h rfl rfl
  | raw s => exact prefixWs_of_eq h rfl rfl
  | indent => exact prefixWs_of_eq h (newLineCommon_pre _ _).1 (newLineCommon_pre _ _).2
  | indentOrSpace => exact prefixWs_of_eq h (newLineCommon_pre _ _).1 (newLineCommon_pre _ _).2
  | dedent => exact prefixWs_of_eq h (newLineCommon_pre _ _).1 (newLineCommon_pre _ _).2
  | dedentOrSpace => exact prefixWs_of_eq h (newLineCommon_pre _ _).1 (newLineCommon_pre _ _).2
  | newLineOrSpace => exact prefixWs_of_eq h (newLineCommon_pre _ _).1 (newLineCommon_pre _ _).2
  | rawIfNewlines s =>
    simp only [stepCmd]
    split <;> exact prefixWs_of_eq h rfl rfl
  | beginSingle =>
    obtain ⟨h1, h2⟩ := h
    refine ⟨by simp [stepCmd], ?_⟩
    intro p hp
    simp only [stepCmd, List.mem_cons] at hp
    rcases hp with hp | hp
    · exact h1 p hp.symm
    · exact h2 p hp
  | endSingle =>
    obtain ⟨h1, h2⟩ := h
    simp only [stepCmd]
    cases hs : st.saved with
    | nil => exact ⟨h1, by simpa [hs] using h2⟩
    | cons q rest =>
      refine ⟨?_, ?_⟩
      · intro p hp; exact h2 p (by rw [hs]; simp only at hp; rw [← hp]; simp)
      · intro p hp; exact h2 p (by rw [hs]; exact List.mem_cons_of_mem _ hp)

theorem ws_ignored (p : Str) (h : p.all isWs = true) : strIgnored p = true := by
  simp only [strIgnored, List.all_eq_true] at h ⊢
  intro c hc
  have := h c hc
  simp only [isWs, Bool.or_eq_true, beq_iff_eq] at this
  rcases this with h' | h' <;> subst h' <;> decide

/-- every string-literal segment of a rendering lexes back and decodes to its string -/
theorem render_str (cs : List Cmd) : ∀ (st : St) (t : Tok) (x : Str), PrefixWs st → Seg.tok t x ∈ render st cs →
    clsTok t = .str → TokOk t x := by
  induction cs with
  | nil => intro st t x _ h; simp [render] at h
  | cons c cs ih =>
    intro st t x hp h hc
    simp only [render, List.mem_append] at h
    rcases h with h | h
    · cases c <;> simp only [segStep, List.mem_singleton, List.not_mem_nil, Seg.tok.injEq, reduceCtorEq] at h
      case tok t' =>
        obtain ⟨rfl, rfl⟩ := h
        cases t with
        | str s => exact tokOk_quoted s
        | name n => simp [clsTok] at hc
        | int n => simp [clsTok] at hc
        | float n => simp [clsTok] at hc
        | p k => cases k <;> simp [clsTok] at hc
      case str d s =>
        obtain ⟨rfl, rfl⟩ := h
        exact tokOk_string st.pre st.level d s hp.1
    · exact ih _ t x (prefixWs_step st c hp) h hc

/-- every IntValue / FloatValue token written has the grammar's syntax (C10: `valid_syntax`; for a parsed
    document: the lexer's tokens, C03 `advance_token_sound`) -/
def IntsSpec (segs : List Seg) : Prop := ∀ s x, Seg.tok (.int s) x ∈ segs → IsIntValue s
def FloatsSpec (segs : List Seg) : Prop := ∀ s x, Seg.tok (.float s) x ∈ segs → IsFloatValue s

theorem segsWf_doc_full (pre : Option Str) (level : Nat) (doc : Document)
    (hpre : ∀ p, pre = some p → p.all isWs = true)
    (hn : NamesWf (docSegs pre level doc)) (hi : IntsSpec (docSegs pre level doc))
    (hf : FloatsSpec (docSegs pre level doc)) : SegsWf (docSegs pre level doc) := by
  have hign : ∀ p, pre = some p → strIgnored p = true := fun p hp => ws_ignored p (hpre p hp)
  have hws : PrefixWs (initSt pre level) := ⟨hpre, by intro p hp; simp [initSt] at hp⟩
  refine segsWf_doc pre level doc hign hn ?_ ?_
  · intro t x hm hc
    cases t with
    | int s =>
      rcases render_tok_text _ _ _ x hm with hx | hs
      · rw [hx]; exact tokOk_int_spec s (hi s x hm)
      · simp [clsTok] at hs
    | float s =>
      rcases render_tok_text _ _ _ x hm with hx | hs
      · rw [hx]; exact tokOk_float_spec s (hf s x hm)
      · simp [clsTok] at hs
    | name n => simp [clsTok] at hc
    | str s => simp [clsTok] at hc
    | p k => cases k <;> simp [clsTok] at hc
  · intro t x hm hc
    exact render_str _ _ t x hws hm hc

/-- a decidable sufficient condition for the three leaf hypotheses: well-formed names, no numbers -/
def segsNoNumbers (segs : List Seg) : Bool :=
  segs.all fun g =>
    match g with
    | .tok (.name n) _ => wfName n
    | .tok (.int _) _ => false
    | .tok (.float _) _ => false
    | _ => true

theorem noNumbers_hyps (segs : List Seg) (h : segsNoNumbers segs = true) :
    NamesWf segs ∧ IntsSpec segs ∧ FloatsSpec segs := by
  simp only [segsNoNumbers, List.all_eq_true] at h
  refine ⟨?_, ?_, ?_⟩
  · intro n x hm; simpa using h _ hm
  · intro s x hm; have := h _ hm; simp at this
  · intro s x hm; have := h _ hm; simp at this

end Apollo.Ast
