import ApolloModel.Proofs.ParserTree42
/-
C08 growth (pipeline), part 43: the liberties.  The reference parser on the tokens of a loose definition succeeds exactly
when every root operation type has its name (builderA's `loose_parse`, split); `unlead`; the exact budget and the
well-formedness facts do not see a leading separator.
-/
set_option linter.unusedSimpArgs false
set_option linter.unusedVariables false
namespace Apollo.Parse
open Apollo.Rowan hiding Str
open Apollo.Lex hiding Str
open Apollo.FromCst (looseConv rootsConv rootsConv_full)

/-- every root operation type of a schema definition / extension has its named type -/
def LooseDef.named : LooseDef → Prop
  | .schema _ _ roots => ∃ rs, fullRoots roots = some rs
  | .schemaExt _ roots => ∃ rs, fullRoots roots = some rs
  | _ => True

theorem loose_parse_named (l : LooseDef) (hw : l.wf = true) (hn : l.named) (f : Nat) (hf : Ast.szDefinition (looseConv l) ≤ f) :
    Ast.pDefinition f l.toks = some (looseConv l, []) := by
  cases l with
  | scalar desc nm ds => exact strict_parse _ _ rfl hw f hf
  | enum desc nm ds vs => exact strict_parse _ _ rfl hw f hf
  | input desc nm ds fs => exact strict_parse _ _ rfl hw f hf
  | scalarExt nm ds => exact strict_parse _ _ rfl hw f hf
  | enumExt nm ds vs => exact strict_parse _ _ rfl hw f hf
  | inputExt nm ds fs => exact strict_parse _ _ rfl hw f hf
  | object desc nm impl ds fs =>
    simp only [LooseDef.wf, Bool.and_eq_true] at hw
    simp only [looseConv, Ast.szDefinition] at hf
    have b := objectLikeLoose_roundtrip nm impl ds fs f hw.1 hw.2 (by omega)
    simp only [LooseDef.toks, kwPart_true, looseConv, List.append_assoc, List.cons_append, List.nil_append]
    rw [Ast.typeSystem_dispatch f desc _ _ (by simp [Ast.opTypeOf]) (by simp) (by simp)]
    simp [Ast.pTypeSystemRest, b]
  | interface desc nm impl ds fs =>
    simp only [LooseDef.wf, Bool.and_eq_true] at hw
    simp only [looseConv, Ast.szDefinition] at hf
    have b := objectLikeLoose_roundtrip nm impl ds fs f hw.1 hw.2 (by omega)
    simp only [LooseDef.toks, kwPart_true, looseConv, List.append_assoc, List.cons_append, List.nil_append]
    rw [Ast.typeSystem_dispatch f desc _ _ (by simp [Ast.opTypeOf]) (by simp) (by simp)]
    simp [Ast.pTypeSystemRest, b]
  | union desc nm ds ms =>
    simp only [LooseDef.wf] at hw
    simp only [looseConv, Ast.szDefinition] at hf
    have b := unionLoose_roundtrip nm ds ms f hw (by omega)
    simp only [LooseDef.toks, unionToks, kwPart_true, looseConv, List.append_assoc, List.cons_append, List.nil_append] at b ⊢
    rw [Ast.typeSystem_dispatch f desc _ _ (by simp [Ast.opTypeOf]) (by simp) (by simp)]
    simp [Ast.pTypeSystemRest, b]
  | directive desc nm args rep lead first rest =>
    simp only [LooseDef.wf] at hw
    simp only [looseConv, Ast.szDefinition] at hf
    have b := directiveLoose_roundtrip desc nm args rep lead first rest f hw (by simp at hf ⊢; omega)
    simp only [LooseDef.toks, directiveToks, kwPart_true, looseConv, List.append_assoc, List.cons_append, List.nil_append] at b ⊢
    rw [Ast.typeSystem_dispatch f desc _ _ (by simp [Ast.opTypeOf]) (by simp) (by simp)]
    exact b
  | objectExt nm impl ds fs =>
    simp only [LooseDef.wf, Bool.and_eq_true] at hw
    simp only [looseConv, Ast.szDefinition] at hf
    have b := objectLikeLoose_roundtrip nm impl ds fs f hw.1 hw.2 (by omega)
    simp only [LooseDef.toks, kwE, looseConv, List.append_assoc, List.cons_append, List.nil_append]
    rw [Ast.extension_dispatch]
    simp [Ast.pExtensionRest, b]
  | interfaceExt nm impl ds fs =>
    simp only [LooseDef.wf, Bool.and_eq_true] at hw
    simp only [looseConv, Ast.szDefinition] at hf
    have b := objectLikeLoose_roundtrip nm impl ds fs f hw.1 hw.2 (by omega)
    simp only [LooseDef.toks, kwE, looseConv, List.append_assoc, List.cons_append, List.nil_append]
    rw [Ast.extension_dispatch]
    simp [Ast.pExtensionRest, b]
  | unionExt nm ds ms =>
    simp only [LooseDef.wf] at hw
    simp only [looseConv, Ast.szDefinition] at hf
    have b := unionLoose_roundtrip nm ds ms f hw (by omega)
    simp only [LooseDef.toks, kwE, looseConv, List.append_assoc, List.cons_append, List.nil_append] at b ⊢
    rw [Ast.extension_dispatch]
    simp [Ast.pExtensionRest, b]
  | schema desc ds roots =>
    cases hr : fullRoots roots with
    | some rs' => exact strict_parse _ (.schemaDef desc ds rs') (by simp [LooseDef.strict, hr]) hw f hf
    | none => exact absurd hn (by simp [LooseDef.named, hr])
  | schemaExt ds roots =>
    cases hr : fullRoots roots with
    | some rs' => exact strict_parse _ (.schemaExt ds rs') (by simp [LooseDef.strict, hr]) hw f hf
    | none => exact absurd hn (by simp [LooseDef.named, hr])

theorem loose_parse_nameless (l : LooseDef) (hw : l.wf = true) (hn : ¬ l.named) (f : Nat) (hf : Ast.szDefinition (looseConv l) ≤ f) :
    Ast.pDefinition f l.toks = none := by
  cases l with
  | scalar desc nm ds => exact absurd (by simp [LooseDef.named]) hn
  | enum desc nm ds vs => exact absurd (by simp [LooseDef.named]) hn
  | input desc nm ds fs => exact absurd (by simp [LooseDef.named]) hn
  | scalarExt nm ds => exact absurd (by simp [LooseDef.named]) hn
  | enumExt nm ds vs => exact absurd (by simp [LooseDef.named]) hn
  | inputExt nm ds fs => exact absurd (by simp [LooseDef.named]) hn
  | object desc nm impl ds fs => exact absurd (by simp [LooseDef.named]) hn
  | interface desc nm impl ds fs => exact absurd (by simp [LooseDef.named]) hn
  | union desc nm ds ms => exact absurd (by simp [LooseDef.named]) hn
  | directive desc nm args rep lead first rest => exact absurd (by simp [LooseDef.named]) hn
  | objectExt nm impl ds fs => exact absurd (by simp [LooseDef.named]) hn
  | interfaceExt nm impl ds fs => exact absurd (by simp [LooseDef.named]) hn
  | unionExt nm ds ms => exact absurd (by simp [LooseDef.named]) hn
  | schema desc ds roots =>
    cases hr : fullRoots roots with
    | some rs' => exact absurd (by simp [LooseDef.named, hr]) hn
    | none =>
      simp only [LooseDef.wf, Bool.and_eq_true] at hw
      simp only [looseConv, Ast.szDefinition] at hf
      have b := Ast.directives_roundtrip ds f (.p .lCurly :: tRootOpItemsF roots ++ [.p .rCurly]) hw.1 (by omega)
        (by simp [Ast.dirFollow])
      have c := rootsTail_fail roots f [] hr
      simp only [LooseDef.toks, schemaToks, kwPart_true, List.append_assoc, List.cons_append, List.nil_append] at b c ⊢
      rw [Ast.typeSystem_dispatch f desc _ _ (by simp [Ast.opTypeOf]) (by simp) (by simp)]
      simp [Ast.pTypeSystemRest, b, Ast.pRootOps, c]
  | schemaExt ds roots =>
    cases hr : fullRoots roots with
    | some rs' => exact absurd (by simp [LooseDef.named, hr]) hn
    | none =>
      simp only [LooseDef.wf] at hw
      simp only [looseConv, Ast.szDefinition] at hf
      have hne := fullRoots_nil_ne hr
      have hemp : roots.isEmpty = false := by cases roots with | nil => exact absurd rfl hne | cons _ _ => rfl
      have b := Ast.directives_roundtrip ds f (.p .lCurly :: tRootOpItemsF roots ++ [.p .rCurly]) hw (by omega)
        (by simp [Ast.dirFollow])
      have c := rootsTail_fail roots f [] hr
      simp only [LooseDef.toks, kwE, Ast.tBraced, hemp, Bool.false_eq_true, if_false, List.append_assoc, List.cons_append,
        List.nil_append] at b c ⊢
      rw [Ast.extension_dispatch]
      simp [Ast.pExtensionRest, b, Ast.pRootOps, c]



theorem looseConv_unlead (l : LooseDef) : looseConv l.unlead = looseConv l := by
  cases l with
  | object desc nm impl ds fs =>
    cases impl with
    | none => rfl
    | some v => obtain ⟨lead, first, ns⟩ := v; rfl
  | interface desc nm impl ds fs =>
    cases impl with
    | none => rfl
    | some v => obtain ⟨lead, first, ns⟩ := v; rfl
  | objectExt nm impl ds fs =>
    cases impl with
    | none => rfl
    | some v => obtain ⟨lead, first, ns⟩ := v; rfl
  | interfaceExt nm impl ds fs =>
    cases impl with
    | none => rfl
    | some v => obtain ⟨lead, first, ns⟩ := v; rfl
  | union desc nm ds ms =>
    cases ms with
    | none => rfl
    | some v => obtain ⟨lead, first, ns⟩ := v; rfl
  | unionExt nm ds ms =>
    cases ms with
    | none => rfl
    | some v => obtain ⟨lead, first, ns⟩ := v; rfl
  | directive desc nm args rep lead first rest => rfl
  | _ => rfl

theorem wf_unlead (l : LooseDef) : l.unlead.wf = l.wf := by
  cases l with
  | object desc nm impl ds fs =>
    cases impl with
    | none => rfl
    | some v => obtain ⟨lead, first, ns⟩ := v; rfl
  | interface desc nm impl ds fs =>
    cases impl with
    | none => rfl
    | some v => obtain ⟨lead, first, ns⟩ := v; rfl
  | objectExt nm impl ds fs =>
    cases impl with
    | none => rfl
    | some v => obtain ⟨lead, first, ns⟩ := v; rfl
  | interfaceExt nm impl ds fs =>
    cases impl with
    | none => rfl
    | some v => obtain ⟨lead, first, ns⟩ := v; rfl
  | union desc nm ds ms =>
    cases ms with
    | none => rfl
    | some v => obtain ⟨lead, first, ns⟩ := v; rfl
  | unionExt nm ds ms =>
    cases ms with
    | none => rfl
    | some v => obtain ⟨lead, first, ns⟩ := v; rfl
  | directive desc nm args rep lead first rest => rfl
  | _ => rfl

theorem named_unlead (l : LooseDef) (h : l.named) : l.unlead.named := by
  cases l with
  | object desc nm impl ds fs =>
    cases impl with
    | none => exact h
    | some v => obtain ⟨lead, first, ns⟩ := v; exact h
  | interface desc nm impl ds fs =>
    cases impl with
    | none => exact h
    | some v => obtain ⟨lead, first, ns⟩ := v; exact h
  | objectExt nm impl ds fs =>
    cases impl with
    | none => exact h
    | some v => obtain ⟨lead, first, ns⟩ := v; exact h
  | interfaceExt nm impl ds fs =>
    cases impl with
    | none => exact h
    | some v => obtain ⟨lead, first, ns⟩ := v; exact h
  | union desc nm ds ms =>
    cases ms with
    | none => exact h
    | some v => obtain ⟨lead, first, ns⟩ := v; exact h
  | unionExt nm ds ms =>
    cases ms with
    | none => exact h
    | some v => obtain ⟨lead, first, ns⟩ := v; exact h
  | directive desc nm args rep lead first rest => exact h
  | _ => exact h

theorem looseFitX_unlead (b : Nat) (l : LooseDef) : Exact.looseFitX b l.unlead ↔ Exact.looseFitX b l := by
  cases l with
  | object desc nm impl ds fs =>
    cases impl with
    | none => exact Iff.rfl
    | some v => obtain ⟨lead, first, ns⟩ := v; simp [LooseDef.unlead, Exact.looseFitX, Exact.looseFit]
  | interface desc nm impl ds fs =>
    cases impl with
    | none => exact Iff.rfl
    | some v => obtain ⟨lead, first, ns⟩ := v; simp [LooseDef.unlead, Exact.looseFitX, Exact.looseFit]
  | objectExt nm impl ds fs =>
    cases impl with
    | none => exact Iff.rfl
    | some v => obtain ⟨lead, first, ns⟩ := v; simp [LooseDef.unlead, Exact.looseFitX, Exact.looseFit]
  | interfaceExt nm impl ds fs =>
    cases impl with
    | none => exact Iff.rfl
    | some v => obtain ⟨lead, first, ns⟩ := v; simp [LooseDef.unlead, Exact.looseFitX, Exact.looseFit]
  | union desc nm ds ms =>
    cases ms with
    | none => exact Iff.rfl
    | some v => obtain ⟨lead, first, ns⟩ := v; simp [LooseDef.unlead, Exact.looseFitX, Exact.looseFit]
  | unionExt nm ds ms =>
    cases ms with
    | none => exact Iff.rfl
    | some v => obtain ⟨lead, first, ns⟩ := v; simp [LooseDef.unlead, Exact.looseFitX, Exact.looseFit]
  | directive desc nm args rep lead first rest => exact Iff.rfl
  | _ => exact Iff.rfl

/-- without the leading separator, and with every root operation type named, the loose definition is strict -/
theorem named_unlead_strict (l : LooseDef) (hn : l.named) : l.unlead.strict = some (looseConv l) := by
  cases l with
  | schema desc ds roots =>
    obtain ⟨rs, hr⟩ := hn
    simp [LooseDef.unlead, LooseDef.strict, hr, looseConv, rootsConv_full roots rs hr]
  | schemaExt ds roots =>
    obtain ⟨rs, hr⟩ := hn
    simp [LooseDef.unlead, LooseDef.strict, hr, looseConv, rootsConv_full roots rs hr]
  | object desc nm impl ds fs => cases impl with
    | none => rfl
    | some v => obtain ⟨lead, first, ns⟩ := v; rfl
  | interface desc nm impl ds fs => cases impl with
    | none => rfl
    | some v => obtain ⟨lead, first, ns⟩ := v; rfl
  | objectExt nm impl ds fs => cases impl with
    | none => rfl
    | some v => obtain ⟨lead, first, ns⟩ := v; rfl
  | interfaceExt nm impl ds fs => cases impl with
    | none => rfl
    | some v => obtain ⟨lead, first, ns⟩ := v; rfl
  | union desc nm ds ms => cases ms with
    | none => rfl
    | some v => obtain ⟨lead, first, ns⟩ := v; rfl
  | unionExt nm ds ms => cases ms with
    | none => rfl
    | some v => obtain ⟨lead, first, ns⟩ := v; rfl
  | directive desc nm args rep lead first rest => rfl
  | scalar desc nm ds => rfl
  | enum desc nm ds vs => rfl
  | input desc nm ds fs => rfl
  | scalarExt nm ds => rfl
  | enumExt nm ds vs => rfl
  | inputExt nm ds fs => rfl

/-- the tokens without the leading separator are among the tokens with it -/
theorem unlead_toks_subset (l : LooseDef) (a : Ast.Tok) (h : a ∈ l.unlead.toks) : a ∈ l.toks := by
  revert h
  cases l with
  | object desc nm impl ds fs =>
    cases impl with
    | none => exact id
    | some v => obtain ⟨lead, first, ns⟩ := v; cases lead <;> simp only [LooseDef.unlead, LooseDef.toks, objectLikeToks, unionToks, tSepOpt, tSepLead, kwE, kwPart_true, if_true, Bool.false_eq_true, if_false, List.mem_append, List.mem_cons, List.nil_append, List.cons_append, List.append_assoc] <;> intro h <;> grind
  | interface desc nm impl ds fs =>
    cases impl with
    | none => exact id
    | some v => obtain ⟨lead, first, ns⟩ := v; cases lead <;> simp only [LooseDef.unlead, LooseDef.toks, objectLikeToks, unionToks, tSepOpt, tSepLead, kwE, kwPart_true, if_true, Bool.false_eq_true, if_false, List.mem_append, List.mem_cons, List.nil_append, List.cons_append, List.append_assoc] <;> intro h <;> grind
  | objectExt nm impl ds fs =>
    cases impl with
    | none => exact id
    | some v => obtain ⟨lead, first, ns⟩ := v; cases lead <;> simp only [LooseDef.unlead, LooseDef.toks, objectLikeToks, unionToks, tSepOpt, tSepLead, kwE, kwPart_true, if_true, Bool.false_eq_true, if_false, List.mem_append, List.mem_cons, List.nil_append, List.cons_append, List.append_assoc] <;> intro h <;> grind
  | interfaceExt nm impl ds fs =>
    cases impl with
    | none => exact id
    | some v => obtain ⟨lead, first, ns⟩ := v; cases lead <;> simp only [LooseDef.unlead, LooseDef.toks, objectLikeToks, unionToks, tSepOpt, tSepLead, kwE, kwPart_true, if_true, Bool.false_eq_true, if_false, List.mem_append, List.mem_cons, List.nil_append, List.cons_append, List.append_assoc] <;> intro h <;> grind
  | union desc nm ds ms =>
    cases ms with
    | none => exact id
    | some v => obtain ⟨lead, first, ns⟩ := v; cases lead <;> simp only [LooseDef.unlead, LooseDef.toks, objectLikeToks, unionToks, tSepOpt, tSepLead, kwE, kwPart_true, if_true, Bool.false_eq_true, if_false, List.mem_append, List.mem_cons, List.nil_append, List.cons_append, List.append_assoc] <;> intro h <;> grind
  | unionExt nm ds ms =>
    cases ms with
    | none => exact id
    | some v => obtain ⟨lead, first, ns⟩ := v; cases lead <;> simp only [LooseDef.unlead, LooseDef.toks, objectLikeToks, unionToks, tSepOpt, tSepLead, kwE, kwPart_true, if_true, Bool.false_eq_true, if_false, List.mem_append, List.mem_cons, List.nil_append, List.cons_append, List.append_assoc] <;> intro h <;> grind
  | directive desc nm args rep lead first rest => cases lead <;> simp only [LooseDef.unlead, LooseDef.toks, directiveToks, tSepLead, kwPart_true, if_true, Bool.false_eq_true, if_false, List.mem_append, List.mem_cons, List.nil_append, List.cons_append, List.append_assoc] <;> intro h <;> grind
  | _ => exact id


end Apollo.Parse
