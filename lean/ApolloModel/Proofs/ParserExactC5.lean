import ApolloModel.Proofs.ParserExactC4
/-
EXACT-BUDGET COPY of ParserComplete5 (namespace Apollo.Parse.Exact, exact `vdepth`).
C05 / C07 growth (completeness), part 5: arguments and directives.
-/
set_option linter.unusedSimpArgs false
namespace Apollo.Parse.Exact
open Apollo.Rowan hiding Str
open Apollo.Lex hiding Str

def LArg (c : Bool) (b : Nat) (x : List Ast.Tok) : Prop :=
  ∃ nm v, x = .name nm :: .p .colon :: Ast.tValue v ∧ valueOk c v = true ∧ vdepth v ≤ b

theorem cmp_argument (n : Nat) (c : Bool) : Cmp (fun _ => True) (argument n c) (LArg c) (fun _ => True) (fun _ => True) := by
  rw [argument_eq]
  refine cmp_withNode _ ?_
  have htail : Cmp (fun _ => True) (peek >>= argumentTail n c)
      (fun b x => ∃ v, x = .p .colon :: Ast.tValue v ∧ valueOk c v = true ∧ vdepth v ≤ b) (fun _ => True) (fun _ => True) := by
    apply cmp_peek
    intro k _
    unfold argumentTail
    apply cmp_ite
    · intro _
      have := cmp_bind (Hk := fun k' => k' = k) (F := fun _ => True) ((cmp_bump "COLON").mono (fun _ _ => trivial) (fun _ _ h => h) (fun _ h => h) (fun _ h => h))
        (fun _ _ => value_complete n c false) (fun _ _ _ _ => trivial) (fun _ _ => trivial) (fun _ _ => trivial)
      refine this.mono (fun _ h => h) ?_ (fun _ h => h) (fun _ h => h)
      rintro b x ⟨v, rfl, h1, h2⟩
      exact ⟨[.p .colon], Ast.tValue v, rfl, ⟨_, rfl⟩, v, rfl, h1, h2⟩
    · intro hk
      apply cmp_absurd
      rintro b x cc q0 ⟨v, rfl, _, _⟩ hs _ hkk
      obtain ⟨t, tl, rfl, hta⟩ := spells_head hs
      simp only [headK] at hkk
      rw [kind_of_astOfV hta] at hkk
      simp [← hkk, kindOfA] at hk
  have := cmp_bind (Hk := fun _ => True) (F := fun _ => True) cmp_name (fun _ _ => htail)
    (fun _ _ _ _ => trivial) (fun _ _ => trivial) (fun _ _ => trivial)
  refine this.mono (fun _ h => h) ?_ (fun _ h => h) (fun _ h => h)
  rintro b x ⟨nm, v, rfl, h1, h2⟩
  exact ⟨[.name nm], .p .colon :: Ast.tValue v, rfl, ⟨nm, rfl⟩, v, rfl, h1, h2⟩

def argItems : List (Ast.Str × Ast.Value) → List (List Ast.Tok)
  | [] => []
  | a :: r => (.name a.1 :: .p .colon :: Ast.tValue a.2) :: argItems r

theorem argItems_flatten : ∀ args, (argItems args).flatten = Ast.tArgItems args
  | [] => rfl
  | a :: r => by simp [argItems, Ast.tArgItems, argItems_flatten r]

/-- argument lists under a budget: every value well formed and within the budget -/
def argsFit (c : Bool) (b : Nat) (args : List (Ast.Str × Ast.Value)) : Prop :=
  ∀ a ∈ args, valueOk c a.2 = true ∧ vdepth a.2 ≤ b

theorem argItems_ok (c : Bool) (b : Nat) : ∀ args, argsFit c b args → ∀ i ∈ argItems args, LArg c b i
  | [], _ => by intro i hi; cases hi
  | a :: r, h => by
    intro i hi
    simp only [argItems, List.mem_cons] at hi
    rcases hi with rfl | hi
    · exact ⟨a.1, a.2, rfl, (h a (by simp)).1, (h a (by simp)).2⟩
    · exact argItems_ok c b r (fun x hx => h x (by simp [hx])) i hi

def LArgs (c : Bool) (b : Nat) (x : List Ast.Tok) : Prop :=
  ∃ args, args ≠ [] ∧ x = Ast.tArguments args ∧ argsFit c b args

/-- **`arguments` is complete**: `( Name : Value … )` with at least one argument -/
theorem arguments_complete (n : Nat) (c : Bool) : Cmp (fun _ => True) (arguments n c) (LArgs c) (fun _ => True) (fun _ => True) := by
  rw [arguments_eq]
  refine cmp_withNode _ ?_
  intro s s' u cv x q0 rest w hr hl hs ht hq _ _
  obtain ⟨args, hne, rfl, hfit⟩ := hl
  cases args with
  | nil => exact absurd rfl hne
  | cons a0 ar =>
  have hx : Ast.tArguments (a0 :: ar) = .p .lParen :: ((.name a0.1 :: .p .colon :: Ast.tValue a0.2) ++ (Ast.tArgItems ar ++ [.p .rParen])) := by
    simp [Ast.tArguments, Ast.tArgItems]
  rw [hx] at hs
  obtain ⟨t, i, c', rfl, hta, hi, hs'⟩ := spells_cons hs
  obtain ⟨c1, c23, rfl, s1, s23⟩ := spells_split hs' (by simp)
  obtain ⟨c2, c3, rfl, s2, s3⟩ : ∃ c2 c3, c23 = c2 ++ c3 ∧ Spells c2 (Ast.tArgItems ar) ∧ Spells c3 [.p .rParen] :=
    spells_split s23 (by simp)
  obtain ⟨tb, ib, rfl, htb, hib⟩ := spells_single s3
  obtain ⟨t1, tl1, hc1, hta1⟩ := spells_head s1
  have hkb : tb.kind = .rParen := kind_of_astOfV htb
  obtain ⟨f, ftl, hcf, hsf⟩ : ∃ f ftl, c2 ++ tb :: ib = f :: ftl ∧ Sigf f := by
    cases c2 with
    | nil => exact ⟨tb, ib, rfl, sigf_of_astOfV htb⟩
    | cons a b => exact ⟨a, b ++ tb :: ib, rfl, s2.2 a b rfl⟩
  have hcf' : c2 ++ tb :: (ib ++ q0 :: rest) = f :: (ftl ++ q0 :: rest) := by
    have := congrArg (· ++ q0 :: rest) hcf; simpa using this
  obtain ⟨_, sA, h1, h2⟩ := bind_dec (bump "L_PAREN") _ s s' u hr
  have hs1 : Spells (t :: i) [.p .lParen] := by
    refine ⟨?_, by intro hd tl e; injection e with e _; subst e; exact sigf_of_astOfV hta⟩
    rw [sig_cons_ignV t i (sigf_of_astOfV hta) hi]
    exact TokIs.single t _ hta
  obtain ⟨e1, tA, _⟩ := cmp_bump "L_PAREN" s sA () (t :: i) [.p .lParen] t1 (tl1 ++ (c2 ++ tb :: ib) ++ q0 :: rest) w h1 ⟨_, rfl⟩ hs1
    (by rw [ht, hc1]; simp) (sigf_of_astOfV hta1) trivial trivial
  -- the first argument
  obtain ⟨ko, sP, hp, h3⟩ := bind_dec peek _ sA s' u h2
  obtain ⟨rfl, eP, htP, _⟩ := peek_head sA sP ko t1 _ e1.w tA hp
  have hk1 : t1.kind = .name := kind_of_astOfV hta1
  unfold argumentsFirst at h3
  simp only [hk1, beq_self_eq_true, if_true] at h3
  obtain ⟨_, sB, h4, h5⟩ := bind_dec (argument n c) _ sP s' u h3
  have hbP : sP.recLimit - sP.recCur = s.recLimit - s.recCur := by rw [eP.recLimit, eP.recCur, e1.recLimit, e1.recCur]
  obtain ⟨eB, tB, _⟩ := cmp_argument n c sP sB () c1 _ f (ftl ++ q0 :: rest) eP.w h4
    ⟨a0.1, a0.2, rfl, (hfit a0 (by simp)).1, by rw [hbP]; exact (hfit a0 (by simp)).2⟩ s1
    (by rw [htP, hc1]; simp [hcf']) hsf trivial trivial
  -- the remaining arguments and the closing parenthesis
  unfold argumentsRest at h5
  obtain ⟨_, sC, h6, h7⟩ := bind_dec (peekWhileKind .name (argument n c)) _ sB s' u h5
  unfold peekWhileKind at h6
  obtain ⟨fuel, h8⟩ := srcLen_dec _ sB sC () h6
  have hbB : sB.recLimit - sB.recCur = s.recLimit - s.recCur := by rw [eB.recLimit, eB.recCur, hbP]
  obtain ⟨eC, tC⟩ := cmp_kindWhileLoop .name (argument n c) (LArg c) (fun _ => True) (cmp_argument n c)
    (by rintro b x ⟨nm, v, rfl, _, _⟩; exact ⟨_, _, rfl, rfl⟩) trivial (argItems ar) _ sB sC c2 tb (ib ++ q0 :: rest) eB.w h8
    (by rw [hbB]; exact argItems_ok c _ ar (fun x hx => hfit x (by simp [hx]))) (by rw [argItems_flatten]; exact s2)
    (by rw [tB]; exact hcf'.symm) (sigf_of_astOfV htb) (by rw [hkb]; decide) trivial
  obtain ⟨eD, tD, _⟩ := cmp_expect .rParen "R_PAREN" sC s' u (tb :: ib) [.p .rParen] q0 rest eC.w h7 ⟨_, rfl, rfl⟩ s3
    (by rw [tC]; simp) hq trivial trivial
  exact ⟨by simpa [List.append_assoc] using (((e1.trans eP).trans eB).trans eC).trans eD, tD, trivial⟩

/-! ### directives -/

def LDirTail (c : Bool) (b : Nat) (x : List Ast.Tok) : Prop :=
  ∃ args, x = Ast.tArguments args ∧ argsFit c b args

/-- the optional arguments of a directive; when they are absent the next token must not be `(` -/
theorem cmp_directiveTail (n : Nat) (c : Bool) :
    Cmp (fun _ => True) (peek >>= directiveTail n c) (LDirTail c) (fun k => k ≠ .lParen) (fun _ => True) := by
  intro s s' a cv x q0 rest w hr hl hs ht hq hf hk
  obtain ⟨args, rfl, hfit⟩ := hl
  by_cases hne : args = []
  · subst hne
    have hA : Cmp (fun _ => True) (peek >>= directiveTail n c) (fun _ x => x = []) (fun k => k ≠ .lParen) (fun _ => True) := by
      apply cmp_peek
      intro k _
      unfold directiveTail
      apply cmp_ite
      · intro hk
        apply cmp_absurd
        rintro b x cc q1 rfl hs hf hkk
        have := spells_nil_inv hs
        subst this
        simp only [headK] at hkk
        rw [← hkk] at hk
        simp at hk
        exact hf hk
      · intro _
        exact (cmp_pure _ _ ()).mono (fun _ h => h) (fun _ _ h => h) (fun _ h => h) (fun _ _ => trivial)
    exact hA s s' a cv _ q0 rest w hr (by simp [Ast.tArguments]) hs ht hq hf trivial
  · have hB : Cmp (fun _ => True) (peek >>= directiveTail n c) (LArgs c) (fun _ => True) (fun _ => True) := by
      apply cmp_peek
      intro k _
      unfold directiveTail
      apply cmp_ite
      · intro _
        exact (arguments_complete n c).mono (fun _ _ => trivial) (fun _ _ h => h) (fun _ h => h) (fun _ h => h)
      · intro hk
        apply cmp_absurd
        rintro b x cc q1 ⟨args, hne, rfl, _⟩ hs _ hkk
        cases args with
        | nil => exact hne rfl
        | cons a0 ar =>
        have hx : Ast.tArguments (a0 :: ar) = .p .lParen :: (Ast.tArgItems (a0 :: ar) ++ [.p .rParen]) := by simp [Ast.tArguments]
        rw [hx] at hs
        obtain ⟨t, tl, rfl, hta⟩ := spells_head hs
        simp only [headK] at hkk
        rw [kind_of_astOfV hta] at hkk
        simp [← hkk, kindOfA] at hk
    exact hB s s' a cv _ q0 rest w hr ⟨args, hne, rfl, hfit⟩ hs ht hq trivial trivial

def LDir (c : Bool) (b : Nat) (x : List Ast.Tok) : Prop :=
  ∃ d : Ast.Directive, x = .p .at :: .name d.name :: Ast.tArguments d.args ∧ argsFit c b d.args

theorem cmp_directive (n : Nat) (c : Bool) :
    Cmp (fun _ => True) (directive n c) (LDir c) (fun k => k ≠ .lParen) (fun _ => True) := by
  rw [directive_eq]
  refine cmp_withNode _ ?_
  have h2 := cmp_bind (Hk := fun _ => True) (F := fun k => k ≠ .lParen) (F1 := fun _ => True) cmp_name (fun _ _ => cmp_directiveTail n c)
    (fun _ _ _ _ => trivial) (fun _ _ => trivial) (fun _ h => h)
  have h1 := cmp_bind (Hk := fun _ => True) (F := fun k => k ≠ .lParen) (F1 := fun _ => True) (cmp_expect .at "AT") (fun _ _ => h2)
    (fun _ _ _ _ => trivial) (fun _ _ => trivial) (fun _ h => h)
  refine h1.mono (fun _ h => h) ?_ (fun _ h => h) (fun _ h => h)
  rintro b x ⟨d, rfl, hfit⟩
  exact ⟨[.p .at], .name d.name :: Ast.tArguments d.args, rfl, ⟨_, rfl, rfl⟩, [.name d.name], Ast.tArguments d.args, rfl, ⟨_, rfl⟩, d.args, rfl, hfit⟩

def dirItems : List Ast.Directive → List (List Ast.Tok)
  | [] => []
  | d :: r => (.p .at :: .name d.name :: Ast.tArguments d.args) :: dirItems r

theorem dirItems_flatten : ∀ ds, (dirItems ds).flatten = Ast.tDirectives ds
  | [] => rfl
  | d :: r => by simp [dirItems, Ast.tDirectives, dirItems_flatten r]

def dirsFit (c : Bool) (b : Nat) (ds : List Ast.Directive) : Prop := ∀ d ∈ ds, argsFit c b d.args

theorem dirItems_ok (c : Bool) (b : Nat) : ∀ ds, dirsFit c b ds → ∀ i ∈ dirItems ds, LDir c b i
  | [], _ => by intro i hi; cases hi
  | d :: r, h => by
    intro i hi
    simp only [dirItems, List.mem_cons] at hi
    rcases hi with rfl | hi
    · exact ⟨d, rfl, h d (by simp)⟩
    · exact dirItems_ok c b r (fun x hx => h x (by simp [hx])) i hi

def LDirs (c : Bool) (b : Nat) (x : List Ast.Tok) : Prop :=
  ∃ ds, x = Ast.tDirectives ds ∧ dirsFit c b ds

/-- **`directives` is complete** (possibly empty list); the follow token is neither `@` nor `(` -/
theorem directives_complete (n : Nat) (c : Bool) :
    Cmp (fun _ => True) (directives n c) (LDirs c) (fun k => k ≠ .at ∧ k ≠ .lParen) (fun _ => True) := by
  unfold directives
  refine cmp_withNode _ ?_
  intro s s' u cv x q0 rest w hr hl hs ht hq hf _
  obtain ⟨ds, rfl, hfit⟩ := hl
  unfold peekWhileKind at hr
  obtain ⟨fuel, h8⟩ := srcLen_dec _ s s' () hr
  obtain ⟨e, t⟩ := cmp_kindWhileLoop .at (directive n c) (LDir c) (fun k => k ≠ .lParen) (cmp_directive n c)
    (by rintro b x ⟨d, rfl, _⟩; exact ⟨_, _, rfl, rfl⟩) (by decide) (dirItems ds) _ s s' cv q0 rest w h8
    (dirItems_ok c _ ds hfit) (by rw [dirItems_flatten]; exact hs) ht hq hf.1 hf.2
  exact ⟨e, t, trivial⟩

end Apollo.Parse.Exact
