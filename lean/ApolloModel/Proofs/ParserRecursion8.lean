import ApolloModel.Proofs.ParserRecursion7
/-
C04 growth (recursion limit across runs), part 8: the relation between the run with limit `r` and a run
with a larger limit `R` that is never hit ("the unlimited run"), and how it goes through the combinators.
Up to the first hit of `r` the two runs are in the same state (except for the limit itself); at the first
hit the limited run records the limit error with its high-water mark at `r + 1`, which it never exceeds,
while the unlimited run goes at least that deep.
-/
set_option linter.unusedSimpArgs false
set_option linter.unusedVariables false
namespace Apollo.Parse
open Apollo.Rowan hiding Str
open Apollo.Lex hiding Str

/-- single-run bounds, for any state: the high-water mark only grows, never beyond `limit + 1` -/
structure Bnd (s s' : PState) : Prop where
  lo : s.recHigh ≤ s'.recHigh
  hi : s'.recHigh ≤ max s.recHigh (s.recLimit + 1)
  lim : HasLim s.errors → HasLim s'.errors
  recCur : s'.recCur = s.recCur
  recLimit : s'.recLimit = s.recLimit
  gi : GI s → GI s'

theorem Bnd.refl (s : PState) : Bnd s s := ⟨Nat.le_refl _, by omega, fun h => h, rfl, rfl, fun h => h⟩

theorem Bnd.trans {a b c : PState} (h1 : Bnd a b) (h2 : Bnd b c) : Bnd a c :=
  ⟨Nat.le_trans h1.lo h2.lo, by have := h1.hi; have := h2.hi; have := h1.recLimit; omega,
   fun h => h2.lim (h1.lim h), h2.recCur.trans h1.recCur, h2.recLimit.trans h1.recLimit, fun h => h2.gi (h1.gi h)⟩

theorem PlainOut.bnd {s s' : PState} (h : PlainOut s s') : Bnd s s' :=
  ⟨by rw [h.recHigh]; exact Nat.le_refl _, by rw [h.recHigh]; omega, h.lim, h.recCur, h.recLimit, h.gi⟩

def BG {α : Type} (m : PI α) : Prop := ∀ s a s', s.recCur ≤ s.recLimit → m.run s = .ok a s' → Bnd s s'

theorem bg_of_plain {α : Type} {m : PI α} (h : Plain m) : BG m := fun s a s' _ hr => (h.out s a s' hr).bnd

theorem bg_bind {α β : Type} (m : PI α) (f : α → PI β) (hm : BG m) (hf : ∀ a, BG (f a)) : BG (m >>= f) := by
  intro s b s'' hc h
  obtain ⟨a, s', h1, h2⟩ := bind_dec m f s s'' b h
  have b1 := hm s a s' hc h1
  exact b1.trans (hf a s' b s'' (by rw [b1.recCur, b1.recLimit]; exact hc) h2)

theorem bg_withNode {α : Type} (kind : SK) (body : PI α) (hb : BG body) : BG (withNode kind body) := by
  intro s a s' hc h
  rw [withNode_run] at h
  cases hr : (skipIgnored >>= fun _ => body).run (wnPre kind s) with
  | abort w => rw [hr] at h; cases h
  | panic m => rw [hr] at h; cases h
  | ok a2 s2 =>
    rw [hr] at h
    simp only [] at h
    cases hf : s2.builder.finishNode with
    | none => rw [hf] at h; cases h
    | some b =>
      rw [hf] at h
      injection h with h1 h2
      subst h1 h2
      have o := bg_bind _ _ (bg_of_plain plain_skipIgnored) (fun _ => hb) (wnPre kind s) a2 s2 hc hr
      exact ⟨o.lo, o.hi, o.lim, o.recCur, o.recLimit, fun g => by
        have g2 := o.gi ⟨g.lim, g.acc, g.nf⟩
        exact ⟨g2.lim, g2.acc, g2.nf⟩⟩

theorem bg_withRec {α : Type} (onLimit body : PI α) (hl : Plain onLimit) (hb : BG body) : BG (withRec onLimit body) := by
  intro s a s' hc h
  rcases withRec_decH onLimit body s s' a h with ⟨hover, hrun⟩ | ⟨hunder, s2, hrun, hs'⟩
  · have o := hl.out _ a s' hrun
    refine ⟨?_, ?_, o.lim, o.recCur, o.recLimit, fun g => o.gi ⟨g.lim, g.acc, g.nf⟩⟩
    · rw [o.recHigh]; simp only []; omega
    · rw [o.recHigh]; simp only []; omega
  · have o := hb _ a s2 (by simpa using hunder) hrun
    subst hs'
    refine ⟨?_, ?_, o.lim, ?_, o.recLimit, fun g => ?_⟩
    · have := o.lo; simp only [] at this ⊢; omega
    · have := o.hi; simp only [] at this ⊢; omega
    · have := o.recCur; simp only [] at this ⊢; omega
    · have g2 := o.gi ⟨g.lim, g.acc, g.nf⟩
      exact ⟨g2.lim, g2.acc, g2.nf⟩

/-! ### two runs -/

/-- both runs ended in the same state (up to the limit) -/
def Sync {α : Type} (s : PState) (r R : Nat) (ar aR : α) (sr sR : PState) : Prop :=
  ∃ t, sr = setL r t ∧ sR = setL R t ∧ ar = aR ∧ t.recHigh ≤ r ∧ t.recCur = s.recCur ∧ GI t

/-- the limited run hit its limit -/
def Div (r : Nat) (sr sR : PState) : Prop := HasLim sr.errors ∧ sr.recHigh = r + 1 ∧ r + 1 ≤ sR.recHigh

/-- the cross-run property of a computation whose start state satisfies `c` on the current token -/
def XC {α : Type} (c : Option Tok → Prop) (m : PI α) : Prop :=
  ∀ (s : PState) (r R : Nat) (ar aR : α) (sr sR : PState), r ≤ R → s.recCur ≤ r → s.recHigh ≤ r → GI s → c s.current →
    m.run (setL r s) = .ok ar sr → m.run (setL R s) = .ok aR sR →
    Sync s r R ar aR sr sR ∨ Div r sr sR

def anyTok : Option Tok → Prop := fun _ => True
def someTok : Option Tok → Prop := fun o => o.isSome = true

theorem xc_weaken {α : Type} {c : Option Tok → Prop} {m : PI α} (h : XC anyTok m) : XC c m :=
  fun s r R ar aR sr sR h1 h2 h3 g _ hr hR => h s r R ar aR sr sR h1 h2 h3 g trivial hr hR

theorem mapS_ok {α : Type} {f : PState → PState} {x : Res α} {a : α} {s' : PState} (h : Res.mapS f x = .ok a s') :
    ∃ t, x = .ok a t ∧ s' = f t := by
  cases x with
  | ok a' t => simp only [Res.mapS] at h; injection h with h1 h2; subst h1; exact ⟨t, rfl, h2.symm⟩
  | abort w => cases h
  | panic m => cases h

theorem xc_of_plain {α : Type} {c : Option Tok → Prop} {m : PI α} (hm : Plain m) : XC c m := by
  intro s r R ar aR sr sR _ hc hh g _ hr hR
  rw [hm.blind] at hr hR
  obtain ⟨t, e1, rfl⟩ := mapS_ok hr
  obtain ⟨t', e2, rfl⟩ := mapS_ok hR
  rw [e1] at e2
  injection e2 with e3 e4
  subst e3 e4
  have o := hm.out s ar t e1
  exact Or.inl ⟨t, rfl, rfl, rfl, by rw [o.recHigh]; exact hh, o.recCur, o.gi g⟩

/-- what a computation guarantees about the current token afterwards -/
def PostC {α : Type} (c : Option Tok → Prop) (m : PI α) (c' : α → Option Tok → Prop) : Prop :=
  ∀ s a s', GI s → c s.current → m.run s = .ok a s' → c' a s'.current

theorem xc_bind {α β : Type} {c : Option Tok → Prop} {c' : α → Option Tok → Prop} (m : PI α) (f : α → PI β)
    (xm : XC c m) (bm : BG m) (pm : PostC c m c') (xf : ∀ a, XC (c' a) (f a)) (bf : ∀ a, BG (f a)) : XC c (m >>= f) := by
  intro s r R br bR sr sR hrR hc hh g hcs hr hR
  obtain ⟨a1, s1r, h1r, h2r⟩ := bind_dec m f _ sr br hr
  obtain ⟨a1R, s1R, h1R, h2R⟩ := bind_dec m f _ sR bR hR
  have b1r := bm _ a1 s1r (by simpa [setL] using hc) h1r
  have b1R := bm _ a1R s1R (by simp only [setL]; omega) h1R
  have b2R := bf a1R s1R bR sR (by rw [b1R.recCur, b1R.recLimit]; simp only [setL]; omega) h2R
  rcases xm s r R a1 a1R s1r s1R hrR hc hh g hcs h1r h1R with ⟨t, e1, e2, ea, th, tc, tg⟩ | ⟨d1, d2, d3⟩
  · subst e1 e2 ea
    have hct : c' a1 t.current := pm (setL r s) a1 (setL r t) (gi_setL g r) hcs h1r
    rcases xf a1 t r R br bR sr sR hrR (by rw [tc]; exact hc) th tg hct h2r h2R with ⟨t2, e1, e2, ea, th2, tc2, tg2⟩ | d
    · exact Or.inl ⟨t2, e1, e2, ea, th2, tc2.trans tc, tg2⟩
    · exact Or.inr d
  · have b2r := bf a1 s1r br sr (by rw [b1r.recCur, b1r.recLimit]; simpa [setL] using hc) h2r
    refine Or.inr ⟨b2r.lim d1, ?_, Nat.le_trans d3 b2R.lo⟩
    have := b2r.lo
    have := b2r.hi
    have hl : s1r.recLimit = r := by rw [b1r.recLimit]; rfl
    omega

theorem xc_withNode {α : Type} {c : Option Tok → Prop} (kind : SK) (body : PI α)
    (h : XC c (skipIgnored >>= fun _ => body)) : XC c (withNode kind body) := by
  intro s r R ar aR sr sR hrR hc hh g hcs hr hR
  rw [withNode_run] at hr hR
  have e1 : wnPre kind (setL r s) = setL r (wnPre kind s) := rfl
  have e2 : wnPre kind (setL R s) = setL R (wnPre kind s) := rfl
  rw [e1] at hr
  rw [e2] at hR
  cases h1 : (skipIgnored >>= fun _ => body).run (setL r (wnPre kind s)) with
  | abort w => rw [h1] at hr; cases hr
  | panic m => rw [h1] at hr; cases hr
  | ok a2 s2 =>
    cases h2 : (skipIgnored >>= fun _ => body).run (setL R (wnPre kind s)) with
    | abort w => rw [h2] at hR; cases hR
    | panic m => rw [h2] at hR; cases hR
    | ok a2R s2R =>
      rw [h1] at hr
      rw [h2] at hR
      simp only [] at hr hR
      cases hf : s2.builder.finishNode with
      | none => rw [hf] at hr; cases hr
      | some b =>
        cases hfR : s2R.builder.finishNode with
        | none => rw [hfR] at hR; cases hR
        | some bR =>
          rw [hf] at hr
          rw [hfR] at hR
          injection hr with hr1 hr2
          injection hR with hR1 hR2
          subst hr1 hr2 hR1 hR2
          rcases h (wnPre kind s) r R _ _ s2 s2R hrR hc hh ⟨g.lim, g.acc, g.nf⟩ hcs h1 h2 with ⟨t, e1, e2, ea, th, tc, tg⟩ | ⟨d1, d2, d3⟩
          · subst e1 e2 ea
            have hbb : b = bR := by
              have : (setL r t).builder.finishNode = (setL R t).builder.finishNode := rfl
              rw [hf, hfR] at this
              injection this
            subst hbb
            exact Or.inl ⟨{ t with builder := b }, rfl, rfl, rfl, th, tc, ⟨tg.lim, tg.acc, tg.nf⟩⟩
          · exact Or.inr ⟨d1, d2, d3⟩

/-- the recursion guard: in step while the limited run is below its limit; the first hit is the divergence -/
theorem xc_withRec {α : Type} (onLimit body : PI α) (hl : Plain onLimit)
    (hrec : ∀ s a s', GI s → s.current.isSome = true → onLimit.run s = .ok a s' → HasLim s'.errors)
    (xb : XC someTok body) (bb : BG body) : XC someTok (withRec onLimit body) := by
  intro s r R ar aR sr sR hrR hc hh g hcs hr hR
  rcases withRec_decH onLimit body _ sR aR hR with ⟨hoverR, hrunR⟩ | ⟨hunderR, s2R, hrunR, hsR⟩
  · -- the larger limit is hit: then `r = R` is hit at the same place
    have h1 : s.recCur + 1 > R := hoverR
    have oR := hl.out _ aR sR hrunR
    have hRh : sR.recHigh = max s.recHigh (s.recCur + 1) := oR.recHigh
    rcases withRec_decH onLimit body _ sr ar hr with ⟨hover, hrun⟩ | ⟨hunder, s2, hrun, hsr⟩
    · have o := hl.out _ ar sr hrun
      have hrh : sr.recHigh = max s.recHigh (s.recCur + 1) := o.recHigh
      refine Or.inr ⟨hrec { setL r s with recHigh := max (setL r s).recHigh ((setL r s).recCur + 1) } ar sr ⟨g.lim, g.acc, g.nf⟩ hcs hrun, ?_, ?_⟩
      · omega
      · omega
    · exfalso
      have : s.recCur + 1 ≤ r := hunder
      omega
  · have b2R := bb _ aR s2R (by simpa using hunderR) hrunR
    have hs2R : s2R.recHigh = sR.recHigh := by rw [hsR]
    rcases withRec_decH onLimit body _ sr ar hr with ⟨hover, hrun⟩ | ⟨hunder, s2, hrun, hsr⟩
    · -- first hit
      have o := hl.out _ ar sr hrun
      have hcur : s.recCur = r := by
        have : s.recCur + 1 > r := hover
        omega
      refine Or.inr ⟨hrec { setL r s with recHigh := max (setL r s).recHigh ((setL r s).recCur + 1) } ar sr ⟨g.lim, g.acc, g.nf⟩ hcs hrun, ?_, ?_⟩
      · have : sr.recHigh = max s.recHigh (s.recCur + 1) := o.recHigh
        omega
      · have := b2R.lo
        simp only [setL] at this
        omega
    · -- in step
      have hunder' : s.recCur + 1 ≤ r := hunder
      let sp : PState := { s with recCur := s.recCur + 1, recHigh := max s.recHigh (s.recCur + 1) }
      have er : ({ setL r s with recCur := (setL r s).recCur + 1, recHigh := max (setL r s).recHigh ((setL r s).recCur + 1) } : PState) = setL r sp := rfl
      have eR : ({ setL R s with recCur := (setL R s).recCur + 1, recHigh := max (setL R s).recHigh ((setL R s).recCur + 1) } : PState) = setL R sp := rfl
      rw [er] at hrun
      rw [eR] at hrunR
      rcases xb sp r R ar aR s2 s2R hrR (by simp only [sp]; omega) (by simp only [sp]; omega) ⟨g.lim, g.acc, g.nf⟩ hcs hrun hrunR
        with ⟨t, e1, e2, ea, th, tc, tg⟩ | ⟨d1, d2, d3⟩
      · subst e1 e2 ea hsr hsR
        refine Or.inl ⟨{ t with recCur := t.recCur - 1 }, rfl, rfl, rfl, th, ?_, ⟨tg.lim, tg.acc, tg.nf⟩⟩
        simp only [sp] at tc
        simp only []
        omega
      · subst hsr hsR
        exact Or.inr ⟨d1, d2, d3⟩

end Apollo.Parse
