import ApolloModel.Proofs.ParserDef16
import ApolloModel.Proofs.ParserSel2
/-
C05 growth (type-system definitions), part 17: what the grammar accepts beyond the printer (`LooseDef`), and the
type-system half of the `select_definition` dispatch.
-/
set_option linter.unusedSimpArgs false
namespace Apollo.Parse
open Apollo.Rowan hiding Str
open Apollo.Lex hiding Str

abbrev SepC := Option (Bool × Str × List Str)

def sepLead : SepC → Bool
  | none => false
  | some (lead, _, _) => lead

theorem tSepOpt_noLead (intro : List Ast.Tok) (sep : Ast.P) (i : SepC) (h : sepLead i = false) :
    tSepOpt intro sep i = Ast.tSepList intro sep (sepNames i) := by
  apply tSepOpt_plain
  cases i with
  | none => trivial
  | some v => obtain ⟨lead, first, rest⟩ := v; exact h

/-- A type-system definition or extension as the grammar ACCEPTS it. It differs from `Ast.Definition` (what the
    C08 printer writes) in exactly two ways: the separated lists (`implements`, union members, directive locations)
    may start with their separator (`lead`), and — the KNOWN FINDING — a root operation type may lack its named type
    (`Option Str`). -/
inductive LooseDef where
  | scalar (desc : Option Str) (nm : Str) (ds : List Ast.Directive)
  | object (desc : Option Str) (nm : Str) (impl : SepC) (ds : List Ast.Directive) (fs : List Ast.FieldDef)
  | interface (desc : Option Str) (nm : Str) (impl : SepC) (ds : List Ast.Directive) (fs : List Ast.FieldDef)
  | union (desc : Option Str) (nm : Str) (ds : List Ast.Directive) (ms : SepC)
  | enum (desc : Option Str) (nm : Str) (ds : List Ast.Directive) (vs : List Ast.EnumValueDef)
  | input (desc : Option Str) (nm : Str) (ds : List Ast.Directive) (fs : List Ast.InputValueDef)
  | directive (desc : Option Str) (nm : Str) (args : List Ast.InputValueDef) (rep lead : Bool) (first : Str) (rest : List Str)
  | schema (desc : Option Str) (ds : List Ast.Directive) (roots : List (Ast.OpType × Option Str))
  | scalarExt (nm : Str) (ds : List Ast.Directive)
  | objectExt (nm : Str) (impl : SepC) (ds : List Ast.Directive) (fs : List Ast.FieldDef)
  | interfaceExt (nm : Str) (impl : SepC) (ds : List Ast.Directive) (fs : List Ast.FieldDef)
  | unionExt (nm : Str) (ds : List Ast.Directive) (ms : SepC)
  | enumExt (nm : Str) (ds : List Ast.Directive) (vs : List Ast.EnumValueDef)
  | inputExt (nm : Str) (ds : List Ast.Directive) (fs : List Ast.InputValueDef)
  | schemaExt (ds : List Ast.Directive) (roots : List (Ast.OpType × Option Str))

def kwE (w : String) : List Ast.Tok := [.name "extend".toList, .name w.toList]

def LooseDef.toks : LooseDef → List Ast.Tok
  | .scalar desc nm ds => scalarToks desc true nm ds
  | .object desc nm impl ds fs => Ast.tDescription desc ++ kwPart "type" true ++ objectLikeToks nm impl ds fs
  | .interface desc nm impl ds fs => Ast.tDescription desc ++ kwPart "interface" true ++ objectLikeToks nm impl ds fs
  | .union desc nm ds ms => unionToks desc true nm ds ms
  | .enum desc nm ds vs => enumToks desc true nm ds vs
  | .input desc nm ds fs => inputToks desc true nm ds fs
  | .directive desc nm args rep lead first rest => directiveToks desc true nm args rep lead first rest
  | .schema desc ds roots => schemaToks desc true ds roots
  | .scalarExt nm ds => kwE "scalar" ++ .name nm :: Ast.tDirectives ds
  | .objectExt nm impl ds fs => kwE "type" ++ objectLikeToks nm impl ds fs
  | .interfaceExt nm impl ds fs => kwE "interface" ++ objectLikeToks nm impl ds fs
  | .unionExt nm ds ms => kwE "union" ++ .name nm :: Ast.tDirectives ds ++ tSepOpt [.p .eq] .pipe ms
  | .enumExt nm ds vs => kwE "enum" ++ Ast.tEnumBody nm ds vs
  | .inputExt nm ds fs => kwE "input" ++ Ast.tInputBody nm ds fs
  | .schemaExt ds roots => kwE "schema" ++ Ast.tDirectives ds ++ Ast.tBraced (tRootOpItemsF roots) roots.isEmpty

/-- all root operation types have their named type -/
def fullRoots : List (Ast.OpType × Option Str) → Option (List (Ast.OpType × Str))
  | [] => some []
  | (op, some nm) :: r => (fullRoots r).map ((op, nm) :: ·)
  | (_, none) :: _ => none

theorem fullRoots_toks : ∀ (rs : List (Ast.OpType × Option Str)) (rs' : List (Ast.OpType × Str)), fullRoots rs = some rs' →
    tRootOpItemsF rs = Ast.tRootOpItems rs' ∧ rs.isEmpty = rs'.isEmpty
  | [], rs', h => by simp [fullRoots] at h; subst h; exact ⟨rfl, rfl⟩
  | (op, some nm) :: r, rs', h => by
    simp only [fullRoots, Option.map_eq_some_iff] at h
    obtain ⟨r', hr', e⟩ := h
    subst e
    have ih := (fullRoots_toks r r' hr').1
    simp only [tRootOpItemsF] at ih
    refine ⟨?_, rfl⟩
    simp only [tRootOpItemsF, List.map_cons, List.flatten_cons, ih]
    rfl
  | (_, none) :: _, _, h => by simp [fullRoots] at h

/-- the definition the printer would write, when the accepted text has neither of the two deviations -/
def LooseDef.strict : LooseDef → Option Ast.Definition
  | .scalar desc nm ds => some (.scalarDef desc nm ds)
  | .object desc nm impl ds fs => if sepLead impl then none else some (.objectDef desc nm (sepNames impl) ds fs)
  | .interface desc nm impl ds fs => if sepLead impl then none else some (.interfaceDef desc nm (sepNames impl) ds fs)
  | .union desc nm ds ms => if sepLead ms then none else some (.unionDef desc nm ds (sepNames ms))
  | .enum desc nm ds vs => some (.enumDef desc nm ds vs)
  | .input desc nm ds fs => some (.inputDef desc nm ds fs)
  | .directive desc nm args rep lead first rest => if lead then none else some (.directiveDef desc nm args rep (first :: rest))
  | .schema desc ds roots => (fullRoots roots).map (.schemaDef desc ds ·)
  | .scalarExt nm ds => some (.scalarExt nm ds)
  | .objectExt nm impl ds fs => if sepLead impl then none else some (.objectExt nm (sepNames impl) ds fs)
  | .interfaceExt nm impl ds fs => if sepLead impl then none else some (.interfaceExt nm (sepNames impl) ds fs)
  | .unionExt nm ds ms => if sepLead ms then none else some (.unionExt nm ds (sepNames ms))
  | .enumExt nm ds vs => some (.enumExt nm ds vs)
  | .inputExt nm ds fs => some (.inputExt nm ds fs)
  | .schemaExt ds roots => (fullRoots roots).map (.schemaExt ds ·)

theorem kwPart_true (w : String) : kwPart w true = [.name w.toList] := rfl

/-- without the two deviations the accepted tokens ARE the printer's tokens -/
theorem LooseDef.toks_strict (l : LooseDef) (d : Ast.Definition) (h : l.strict = some d) : l.toks = Ast.tDefinition false d := by
  cases l with
  | scalar desc nm ds =>
    simp only [LooseDef.strict, Option.some.injEq] at h; subst h
    simp only [LooseDef.toks, scalarToks, kwPart_true, Ast.tDefinition, List.append_assoc, List.cons_append, List.nil_append]
  | object desc nm impl ds fs =>
    by_cases hl : sepLead impl = true
    · simp [LooseDef.strict, hl] at h
    · have hl' : sepLead impl = false := by simpa using hl
      simp only [LooseDef.strict, hl', Bool.false_eq_true, if_false, Option.some.injEq] at h; subst h
      simp only [LooseDef.toks, kwPart_true, Ast.tDefinition, objectLikeToks, Ast.tObjectTypeLike, tSepOpt_noLead _ _ _ hl',
        List.append_assoc, List.cons_append, List.nil_append]
  | interface desc nm impl ds fs =>
    by_cases hl : sepLead impl = true
    · simp [LooseDef.strict, hl] at h
    · have hl' : sepLead impl = false := by simpa using hl
      simp only [LooseDef.strict, hl', Bool.false_eq_true, if_false, Option.some.injEq] at h; subst h
      simp only [LooseDef.toks, kwPart_true, Ast.tDefinition, objectLikeToks, Ast.tObjectTypeLike, tSepOpt_noLead _ _ _ hl',
        List.append_assoc, List.cons_append, List.nil_append]
  | union desc nm ds ms =>
    by_cases hl : sepLead ms = true
    · simp [LooseDef.strict, hl] at h
    · have hl' : sepLead ms = false := by simpa using hl
      simp only [LooseDef.strict, hl', Bool.false_eq_true, if_false, Option.some.injEq] at h; subst h
      simp only [LooseDef.toks, unionToks, kwPart_true, Ast.tDefinition, Ast.tUnion, tSepOpt_noLead _ _ _ hl',
        List.append_assoc, List.cons_append, List.nil_append]
  | enum desc nm ds vs =>
    simp only [LooseDef.strict, Option.some.injEq] at h; subst h
    simp only [LooseDef.toks, enumToks, kwPart_true, Ast.tDefinition, List.append_assoc, List.cons_append, List.nil_append]
  | input desc nm ds fs =>
    simp only [LooseDef.strict, Option.some.injEq] at h; subst h
    simp only [LooseDef.toks, inputToks, kwPart_true, Ast.tDefinition, List.append_assoc, List.cons_append, List.nil_append]
  | directive desc nm args rep lead first rest =>
    cases lead with
    | true => simp [LooseDef.strict] at h
    | false =>
      simp only [LooseDef.strict, Bool.false_eq_true, if_false, Option.some.injEq] at h; subst h
      cases rep <;>
      simp only [LooseDef.toks, directiveToks, kwPart_true, kwPart, Ast.tDefinition, Ast.tSepList, tSepLead, if_true, if_false,
        Bool.false_eq_true, List.append_assoc, List.cons_append, List.nil_append, List.append_nil] <;> rfl
  | schema desc ds roots =>
    simp only [LooseDef.strict, Option.map_eq_some_iff] at h
    obtain ⟨rs', hr, e⟩ := h; subst e
    simp only [LooseDef.toks, schemaToks, kwPart_true, Ast.tDefinition, (fullRoots_toks roots rs' hr).1,
      List.append_assoc, List.cons_append, List.nil_append]
  | scalarExt nm ds =>
    simp only [LooseDef.strict, Option.some.injEq] at h; subst h
    rfl
  | objectExt nm impl ds fs =>
    by_cases hl : sepLead impl = true
    · simp [LooseDef.strict, hl] at h
    · have hl' : sepLead impl = false := by simpa using hl
      simp only [LooseDef.strict, hl', Bool.false_eq_true, if_false, Option.some.injEq] at h; subst h
      simp only [LooseDef.toks, kwE, Ast.tDefinition, objectLikeToks, Ast.tObjectTypeLike, tSepOpt_noLead _ _ _ hl',
        List.append_assoc, List.cons_append, List.nil_append]
  | interfaceExt nm impl ds fs =>
    by_cases hl : sepLead impl = true
    · simp [LooseDef.strict, hl] at h
    · have hl' : sepLead impl = false := by simpa using hl
      simp only [LooseDef.strict, hl', Bool.false_eq_true, if_false, Option.some.injEq] at h; subst h
      simp only [LooseDef.toks, kwE, Ast.tDefinition, objectLikeToks, Ast.tObjectTypeLike, tSepOpt_noLead _ _ _ hl',
        List.append_assoc, List.cons_append, List.nil_append]
  | unionExt nm ds ms =>
    by_cases hl : sepLead ms = true
    · simp [LooseDef.strict, hl] at h
    · have hl' : sepLead ms = false := by simpa using hl
      simp only [LooseDef.strict, hl', Bool.false_eq_true, if_false, Option.some.injEq] at h; subst h
      simp only [LooseDef.toks, kwE, Ast.tDefinition, Ast.tUnion, tSepOpt_noLead _ _ _ hl',
        List.append_assoc, List.cons_append, List.nil_append]
  | enumExt nm ds vs =>
    simp only [LooseDef.strict, Option.some.injEq] at h; subst h
    rfl
  | inputExt nm ds fs =>
    simp only [LooseDef.strict, Option.some.injEq] at h; subst h
    rfl
  | schemaExt ds roots =>
    simp only [LooseDef.strict, Option.map_eq_some_iff] at h
    obtain ⟨rs', hr, e⟩ := h; subst e
    simp only [LooseDef.toks, kwE, Ast.tDefinition, (fullRoots_toks roots rs' hr).1, (fullRoots_toks roots rs' hr).2,
      List.append_assoc, List.cons_append, List.nil_append]

end Apollo.Parse
